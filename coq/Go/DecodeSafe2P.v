(* DecodeSafe2P.v — C17 "never panics" on the WHOLE universe gty (Go/GoTypes.v): structs with any tags,
   embedded structs and embedded pointers (exported or not), unexported fields, interface{}, maps, pointers
   to anything, arrays, SymbolToken, time.Time, annotation wrappers.

   Method: one step lemma over an abstract recursive call,  REC rec n -> REC (dec_body rec) (S n),  where
   REC rec n says: for every type of depth < n, every current content that is well typed and "shallow"
   (an interface{} that holds a pointer holds a pointer to a leaf: what Decoder.decode allocates), both
   values of reflect's flagRO and every well-formed Ion value the call answers Ok g (g well typed and shallow)
   or Err — never Panic, never OutOfFuel.  The paths of fieldsFor are shown valid ([walk]) and to end in an
   exported field or in an embedded struct ([FOK]): this is why no reflect.Set on a flagRO value is reached. *)
From Coq Require Import String List NArith ZArith Bool Lia ZifyBool ZifyN ZifyNat Arith.
From IonV Require Import Base.Wire Data.Ion Num.Float Bin.BinWriter
  Go.GoTypes Go.Fields Go.Encode Go.Decode Go.MarshalSpec Go.MarshalP Go.DecodeSafeP.
Import ListNotations.
Open Scope N_scope.

(* ---- shallow values, depth of a type ---------------------------------------------------------------- *)
Fixpoint sh (g : gval) : bool :=
  match g with
  | GSlice (Some l) | GArr l | GStruct l => forallb sh l
  | GMap (Some m) => forallb (fun kv => sh (snd kv)) m
  | GPtr (Some x) => sh x
  | GIface (Some (TyPtr e, GPtr (Some _))) => leaf_ty e
  | _ => true
  end.

Fixpoint dep (t : gty) : nat :=
  match t with
  | TySlice e | TyArray _ e | TyMap e | TyPtr e => S (dep e)
  | TyStruct fs => S (fsdep fs)
  | TyIface => 1%nat
  | _ => O
  end
with fsdep (fs : gfields) : nat :=
  match fs with
  | FNil => O
  | FCons _ _ _ _ ty rest => Nat.max (dep ty) (fsdep rest)
  end.

Definition good (g : gval) (t : gty) : bool := has_type g t && sh g.

Definition out2 (t : gty) (r : res gval) : Prop :=
  match r with
  | Ok g => good g t = true
  | Err => True
  | Panic => False
  | OutOfFuel => False
  end.

Definition REC (rec : recT) (n : nat) : Prop :=
  forall t cur ro v, (dep t < n)%nat -> good cur t = true -> wfv v = true -> out2 t (rec t cur ro v).

Lemma good_split : forall g t, good g t = true -> has_type g t = true /\ sh g = true.
Proof. intros g t H. unfold good in H. apply andb_prop in H. exact H. Qed.
Lemma good_intro : forall g t, has_type g t = true -> sh g = true -> good g t = true.
Proof. intros g t H1 H2. unfold good. rewrite H1, H2. reflexivity. Qed.

Lemma out2_bind : forall t1 t2 (r : res gval) (k : gval -> res gval),
  out2 t1 r -> (forall y, good y t1 = true -> out2 t2 (k y)) -> out2 t2 (do y <- r; k y).
Proof. intros t1 t2 r k H1 H2. destruct r; cbn in *; auto. Qed.

Lemma forallb_good : forall e l,
  forallb (fun x => good x e) l = forallb (fun x => has_type x e) l && forallb sh l.
Proof.
  intros e l. induction l as [|x r IH]; [reflexivity|]. cbn [forallb]. rewrite IH. unfold good.
  destruct (has_type x e), (sh x), (forallb (fun x0 => has_type x0 e) r), (forallb sh r); reflexivity.
Qed.

Lemma sh_zero : forall t, sh (zero t) = true.
Proof.
  apply (gty_mut (fun t => sh (zero t) = true) (fun fs => forallb sh (zero_fields fs) = true)); try reflexivity.
  - intros e IH. cbn [zero]. destruct (is_u8 e); reflexivity.
  - intros n e IH. cbn [zero sh]. apply forallb_repeat. exact IH.
  - intros fs IH. exact IH.
  - intros name ex emb tag ty IH1 rest IH2. cbn [zero_fields forallb]. rewrite IH1, IH2. reflexivity.
Qed.
Lemma good_zero : forall t, good (zero t) t = true.
Proof. intro t. apply good_intro; [apply zero_has_type|apply sh_zero]. Qed.

Lemma forallb_nth : forall {A} (p : A -> bool) l i x, forallb p l = true -> nth_error l i = Some x -> p x = true.
Proof.
  intros A p. induction l as [|y r IH]; intros i x H Hn; [destruct i; discriminate Hn|].
  cbn in H. apply andb_prop in H. destruct H as [H1 H2]. destruct i as [|j]; cbn in Hn.
  - inversion Hn; subst. exact H1.
  - eapply IH; eassumption.
Qed.
Lemma forallb_set_nth : forall (p : gval -> bool) l i x, forallb p l = true -> p x = true -> forallb p (set_nth l i x) = true.
Proof.
  intros p. induction l as [|y r IH]; intros i x H Hx; [reflexivity|].
  cbn in H. apply andb_prop in H. destruct H as [H1 H2]. destruct i as [|j]; cbn [set_nth forallb].
  - rewrite Hx, H2. reflexivity.
  - rewrite H1. cbn. apply IH; assumption.
Qed.

Lemma good_struct_nth : forall fs l i ft ex,
  good (GStruct l) (TyStruct fs) = true -> nth_field fs i = Some (ft, ex) ->
  exists fv, nth_error l i = Some fv /\ good fv ft = true.
Proof.
  intros fs l i ft ex H Hn. apply good_split in H. destruct H as [H1 H2].
  destruct (struct_nth _ _ _ _ _ H1 Hn) as [fv [Hfv Hty]]. exists fv. split; [exact Hfv|].
  apply good_intro; [exact Hty|]. cbn [sh] in H2. eapply forallb_nth; eassumption.
Qed.
Lemma good_set_nth : forall fs l i ft ex x,
  good (GStruct l) (TyStruct fs) = true -> nth_field fs i = Some (ft, ex) -> good x ft = true ->
  good (GStruct (set_nth l i x)) (TyStruct fs) = true.
Proof.
  intros fs l i ft ex x H Hn Hx. apply good_split in H. destruct H as [H1 H2].
  apply good_split in Hx. destruct Hx as [Hx1 Hx2]. apply good_intro.
  - eapply struct_set_nth; eassumption.
  - cbn [sh] in *. apply forallb_set_nth; assumption.
Qed.

Lemma good_struct_of : forall cur fs, good cur (TyStruct fs) = true -> exists l, cur = GStruct l.
Proof. intros cur fs H. apply good_split in H. destruct H as [H _]. eapply struct_of_type. exact H. Qed.

(* ---- walking a field path through the static types ------------------------------------------------------ *)
Inductive wres := WBad | WErr | WEnd (ft : gty) (fro : bool).

Fixpoint walk (t : gty) (ro : bool) (path : list nat) : wres :=
  match path with
  | [] => WEnd t ro
  | i :: p =>
    match deref1 t with
    | TyStruct fs => match nth_field fs i with
                     | Some (ft, ex) => walk ft (negb ex) p
                     | None => WBad
                     end
    | _ => WErr
    end
  end.

Lemma walk_app : forall p t ro q tS roS, walk t ro p = WEnd tS roS -> walk t ro (p ++ q) = walk tS roS q.
Proof.
  induction p as [|i p IH]; intros t ro q tS roS H; cbn [app].
  - cbn in H. inversion H. reflexivity.
  - cbn [walk] in *. destruct (deref1 t); try discriminate H.
    destruct (nth_field fs i) as [[ft ex]|]; [|discriminate H]. apply IH. exact H.
Qed.
Lemma walk_ro : forall i p t ro ro', walk t ro (i :: p) = walk t ro' (i :: p).
Proof. reflexivity. Qed.

Lemma fsdep_nth : forall fs i ft ex, nth_field fs i = Some (ft, ex) -> (dep ft <= fsdep fs)%nat.
Proof.
  induction fs as [|n e m tg ty rest IH]; intros i ft ex Hn.
  - destruct i; discriminate Hn.
  - destruct i as [|j]; cbn in Hn; cbn [fsdep].
    + inversion Hn; subst. lia.
    + specialize (IH _ _ _ Hn). lia.
Qed.
Lemma dep_deref1 : forall t, (dep (deref1 t) <= dep t)%nat.
Proof. intro t. destruct t; cbn [deref1 dep]; lia. Qed.

Lemma walk_dep : forall p i t ro ft fro, walk t ro (i :: p) = WEnd ft fro -> (dep ft < dep t)%nat.
Proof.
  induction p as [|j p IH]; intros i t ro ft fro H; cbn [walk] in H;
    pose proof (dep_deref1 t) as Hd; destruct (deref1 t) eqn:E; try discriminate H;
    destruct (nth_field fs i) as [[ft0 ex]|] eqn:En; try discriminate H;
    pose proof (fsdep_nth _ _ _ _ En) as Hf; cbn [dep] in Hd.
  - inversion H; subst. lia.
  - apply (IH j ft0 (negb ex)) in H. lia.
Qed.

(* the upd_path lemma: with a good current value and a valid path, k is called on a good field value *)
Lemma upd_ok : forall path t cur ro k,
  good cur t = true ->
  match walk t ro path with
  | WBad => False
  | WErr => True
  | WEnd ft fro => forall fc, good fc ft = true -> out2 ft (k ft fc fro)
  end ->
  out2 t (upd_path t cur ro path k).
Proof.
  induction path as [|i p IH]; intros t cur ro k Hc Hw.
  - cbn in *. apply Hw. exact Hc.
  - assert (Hstruct : forall fs l (wrap : gval -> gval) t0,
             deref1 t = TyStruct fs -> good (GStruct l) (TyStruct fs) = true ->
             (forall x, good x (TyStruct fs) = true -> good (wrap x) t0 = true) ->
             out2 t0 (match nth_field fs i, nth_error l i with
                      | Some (ft, ex), Some fv =>
                        do fv' <- upd_path ft fv (negb ex) p k; Ok (wrap (GStruct (set_nth l i fv')))
                      | _, _ => Panic
                      end)).
    { intros fs l wrap t0 Ed Hl Hwrap. cbn [walk] in Hw. rewrite Ed in Hw.
      destruct (nth_field fs i) as [[ft ex]|] eqn:En; [|contradiction].
      destruct (good_struct_nth _ _ _ _ _ Hl En) as [fv [Hfv Hg]]. rewrite Hfv.
      eapply out2_bind; [apply IH; [exact Hg|exact Hw]|].
      intros y Hy. cbn [out2]. apply Hwrap. eapply good_set_nth; eassumption. }
    destruct t; cbn [upd_path]; try exact I.
    + (* TyPtr *)
      pose proof (good_split _ _ Hc) as [Hct Hcs].
      destruct cur as [| | | | | | | |o| | | | | | |]; try discriminate Hct.
      destruct o as [y|].
      * destruct t; try exact I.
        assert (Hy : good y (TyStruct fs) = true) by (apply good_intro; [exact Hct|exact Hcs]).
        destruct (good_struct_of _ _ Hy) as [l ->].
        apply (Hstruct fs l (fun x => GPtr (Some x)) (TyPtr (TyStruct fs))); [reflexivity|exact Hy|].
        intros x Hx. exact Hx.
      * destruct ro; [exact I|]. destruct t; try exact I.
        pose proof (good_zero (TyStruct fs)) as Hz. cbn [zero] in *.
        apply (Hstruct fs (zero_fields fs) (fun x => GPtr (Some x)) (TyPtr (TyStruct fs))); [reflexivity|exact Hz|].
        intros x Hx. exact Hx.
    + (* TyStruct *)
      destruct (good_struct_of _ _ Hc) as [l ->].
      apply (Hstruct fs l (fun x => x) (TyStruct fs)); [reflexivity|exact Hc|]. intros x Hx. exact Hx.
Qed.

(* ---- the fields of fieldsFor: valid paths that end in an exported field or in an embedded struct -------- *)
Definition wok (w : wres) : Prop :=
  match w with
  | WBad => False
  | WErr => True
  | WEnd ft fro => fro = true -> is_struct_kind (deref1 ft) = true
  end.
Definition FOK (T : gty) (f : field) : Prop := f_path f <> [] /\ wok (walk T false (f_path f)).

Definition fok_out (T : gty) (r : res (list field)) : Prop :=
  match r with
  | Ok l => Forall (FOK T) l
  | Err => True
  | Panic => False
  | OutOfFuel => False
  end.

Lemma app_one_not_nil : forall (p : list nat) i, p ++ [i] <> [].
Proof. intros p i H. destruct p; discriminate H. Qed.

Lemma add_field_ok : forall T name tn opts ft newpath acc,
  newpath <> [] -> wok (walk T false newpath) -> Forall (FOK T) acc ->
  fok_out T (add_field name tn opts ft newpath acc).
Proof.
  intros T name tn opts ft newpath acc Hne Hw Hacc. unfold add_field.
  destruct (has_name _ acc); [exact I|]. cbn [fok_out].
  apply Forall_app. split; [exact Hacc|]. constructor; [|constructor].
  unfold FOK. rewrite setopts_path. cbn [f_path]. split; assumption.
Qed.

Lemma fok_bind : forall T (r : res (list field)) k,
  fok_out T r -> (forall l, Forall (FOK T) l -> fok_out T (k l)) -> fok_out T (do l <- r; k l).
Proof. intros T r k H1 H2. destruct r; cbn in *; auto. Qed.

Lemma inspect_flat_ok : forall T fs path i acc,
  (forall j, wok (walk T false (path ++ [j]))) -> Forall (FOK T) acc ->
  fok_out T (inspect_flat fs path i acc).
Proof.
  intros T fs path. induction fs as [|name ex emb tag ty rest IH]; intros i acc Hw Hacc.
  - exact Hacc.
  - cbn [inspect_flat]. destruct (negb (visible ex emb ty)); [apply IH; assumption|].
    destruct (tok_is tag "-"); [apply IH; assumption|].
    destruct (parse_ion_tag tag) as [tn opts].
    apply fok_bind; [apply add_field_ok; [apply app_one_not_nil|apply Hw|exact Hacc]|].
    intros l Hl. apply IH; assumption.
Qed.

Definition InspectOK (fs : gfields) : Prop :=
  forall T path i acc FS tS roS,
    walk T false path = WEnd tS roS -> deref1 tS = TyStruct FS ->
    (forall j, nth_field fs j = nth_field FS (i + j)%nat) ->
    Forall (FOK T) acc -> fok_out T (inspect fs path i acc).

Lemma inspect_ok : forall fs, InspectOK fs.
Proof.
  apply (gfields_mut (fun t => forall fs', deref1 t = TyStruct fs' -> InspectOK fs') InspectOK);
    try (intros; discriminate).
  - (* TyPtr *) intros e IH fs' H. cbn [deref1] in H. apply IH. rewrite H. reflexivity.
  - (* TyStruct *) intros fs IH fs' H. cbn [deref1] in H. inversion H; subst. exact IH.
  - (* FNil *) intros T path i acc FS tS roS Hw Hd Hn Hacc. exact Hacc.
  - (* FCons *)
    intros name ex emb tag ty IH1 rest IH2 T path i acc FS tS roS Hw Hd Hn Hacc.
    assert (Hrest : forall j, nth_field rest j = nth_field FS (S i + j)%nat).
    { intro j. specialize (Hn (S j)). cbn in Hn. rewrite Hn. f_equal. lia. }
    assert (Hnew : walk T false (path ++ [i]) = WEnd ty (negb ex)).
    { rewrite (walk_app _ _ _ _ _ _ Hw). cbn [walk]. rewrite Hd.
      specialize (Hn O). cbn in Hn. rewrite Nat.add_0_r in Hn. rewrite <- Hn. reflexivity. }
    cbn [inspect]. destruct (visible ex emb ty) eqn:Ev; cbn [negb]; [|eapply IH2; eassumption].
    destruct (tok_is tag "-"); [eapply IH2; eassumption|].
    destruct (parse_ion_tag tag) as [tn opts].
    change (match ty with TyPtr e => e | _ => ty end) with (deref1 ty).
    match goal with |- context[if ?c then _ else _] => destruct c eqn:Edig end.
    + apply fok_bind; [|intros l Hl; eapply IH2; eassumption].
      destruct (deref1 ty) eqn:Et; try exact Hacc.
      * eapply (IH1 fs eq_refl T (path ++ [i]) O acc fs ty (negb ex)); [exact Hnew|exact Et| |exact Hacc].
        intro j. reflexivity.
      * apply inspect_flat_ok; [|exact Hacc]. intro j.
        rewrite (walk_app _ _ _ _ _ _ Hnew). cbn [walk]. rewrite Et. exact I.
    + apply fok_bind; [|intros l Hl; eapply IH2; eassumption].
      apply add_field_ok; [apply app_one_not_nil| |exact Hacc].
      rewrite Hnew. cbn [wok]. intro Hex. unfold visible in Ev.
      destruct ex; [discriminate Hex|]. destruct (emb && is_struct_kind (deref1 ty)) eqn:E; [|discriminate Ev].
      apply andb_prop in E. tauto.
Qed.

Lemma fields_for_ok : forall t, fok_out t (fields_for t).
Proof.
  intro t. destruct t;
    match goal with
    | |- fok_out (TyStruct ?fs) _ =>
      cbn [fields_for]; apply (inspect_ok fs (TyStruct fs) [] O [] fs (TyStruct fs) false); try reflexivity; constructor
    | |- fok_out TySymTok _ =>
      unfold fields_for; apply inspect_flat_ok; [intro j; exact I|constructor]
    | _ => cbn [fields_for fok_out]; constructor
    end.
Qed.

(* ---- annotations ------------------------------------------------------------------------------------------ *)
Lemma sh_anns_val : forall a, sh (anns_val a) = true.
Proof.
  intro a. destruct a as [|y r]; [reflexivity|]. unfold anns_val. cbn [sh].
  induction (y :: r) as [|z t IH]; cbn; [reflexivity|exact IH].
Qed.
Lemma sh_ann_texts : forall a l, ann_texts a = Some l -> forallb sh l = true.
Proof.
  induction a as [|y r IH]; intros l H; cbn in H.
  - inversion H. reflexivity.
  - destruct y as [x|n]; [|discriminate H]. destruct (ann_texts r) as [l'|]; [|discriminate H].
    inversion H. cbn. apply IH. reflexivity.
Qed.
Lemma ann_field_val_good : forall ft a, out2 ft (ann_field_val ft a).
Proof.
  intros ft a. pose proof (ann_field_val_typed ft a) as Ht.
  destruct ft; try exact I.
  - destruct ft; try exact I; cbn [ann_field_val] in *.
    + destruct a as [|y r]; [reflexivity|]. destruct (ann_texts (y :: r)) as [l|] eqn:E; [|exact I].
      cbn [out2 safe_out] in *. apply good_intro; [exact Ht|]. cbn [sh]. eapply sh_ann_texts. exact E.
    + cbn [out2 safe_out] in *. apply good_intro; [exact Ht|apply sh_anns_val].
  - cbn [ann_field_val out2 safe_out] in *. apply good_intro; [exact Ht|reflexivity].
Qed.
Lemma ann_field_struct_err : forall ft a, is_struct_kind (deref1 ft) = true -> ann_field_val ft a = Err.
Proof. intros ft a H. destruct ft; try reflexivity; try discriminate H. Qed.

Lemma upd_fok : forall t cur ro f k,
  good cur t = true -> FOK t f ->
  (forall ft fro, (fro = true -> is_struct_kind (deref1 ft) = true) -> (dep ft < dep t)%nat ->
     forall fc, good fc ft = true -> out2 ft (k ft fc fro)) ->
  out2 t (upd_path t cur ro (f_path f) k).
Proof.
  intros t cur ro f k Hc [Hne Hw] Hk. destruct (f_path f) as [|i p]; [contradiction|].
  apply upd_ok; [exact Hc|]. rewrite (walk_ro i p t ro false).
  destruct (walk t false (i :: p)) as [| |ft fro] eqn:W; cbn [wok] in Hw; try exact Hw.
  intros fc Hfc. apply Hk; [exact Hw|eapply walk_dep; exact W|exact Hfc].
Qed.

Lemma attach_ann_ok : forall t cur ro a, good cur t = true -> out2 t (attach_ann t cur ro a).
Proof.
  intros t cur ro a Hc. unfold attach_ann. pose proof (fields_for_ok t) as Hf.
  destruct (fields_for t) as [fields| | |]; cbn [fok_out bind] in *; try exact I; try contradiction.
  destruct (first_ann fields) as [f|] eqn:E; [|exact Hc].
  apply upd_fok; [exact Hc|eapply Forall_forall; [exact Hf|apply first_ann_in; exact E]|].
  intros ft fro Hro _ fc _. destruct fro.
  - rewrite ann_field_struct_err; [exact I|apply Hro; reflexivity].
  - eapply out2_bind; [apply ann_field_val_good|]. intros g Hg. exact Hg.
Qed.

(* ---- structs ------------------------------------------------------------------------------------------------ *)
Lemma wrapper_ok : forall rec n t cur ro v c,
  REC rec n -> (dep t <= n)%nat -> good cur t = true -> wfv v = true ->
  out2 t (wrapper rec t cur ro v c).
Proof.
  intros rec n t cur ro v c HR Hd Hc Hv. unfold wrapper. pose proof (fields_for_ok t) as Hf.
  destruct (fields_for t) as [fields| | |]; cbn [fok_out bind] in *; try exact I; try contradiction.
  destruct fields as [|f1 [|f2 [|f3 r]]]; try exact I.
  assert (H1 : FOK t f1) by (inversion Hf; assumption).
  assert (H2 : FOK t f2) by (inversion Hf as [|? ? ? Hf']; inversion Hf'; assumption).
  eapply out2_bind; [apply upd_fok; [exact Hc|exact H1|]; intros ft fro _ _ fc Hfc; exact Hfc|].
  intros cur1 Hc1.
  eapply out2_bind; [apply upd_fok; [exact Hc1|exact H2|]; intros ft fro _ _ fc Hfc; exact Hfc|].
  intros cur2 Hc2.
  match goal with |- context[if ?cnd then _ else _] => destruct cnd end; [|exact I].
  eapply out2_bind; [apply attach_ann_ok; exact Hc2|].
  intros cur3 Hc3.
  destruct (first_non_ann [f1; f2]) as [fl|] eqn:E; [|exact Hc3].
  apply upd_fok; [exact Hc3|eapply Forall_forall; [exact Hf|apply first_non_ann_in; exact E]|].
  intros ft fro _ Hdep fc Hfc. apply HR; [lia|exact Hfc|exact Hv].
Qed.

Lemma struct_fields_ok : forall rec n t ro fields,
  REC rec n -> (dep t <= n)%nat -> Forall (FOK t) fields ->
  forall ls cur,
  forallb (fun kv : symv * value => wfv (snd kv)) ls = true -> good cur t = true ->
  out2 t (dec_struct_fields rec t ro fields ls cur).
Proof.
  intros rec n t ro fields HR Hd Hf. induction ls as [|[y x] r IH]; intros cur Hls Hc; [exact Hc|].
  cbn [forallb snd] in Hls. apply andb_prop in Hls. destruct Hls as [Hx Hr].
  destruct y as [k|m]; cbn [dec_struct_fields]; [|apply IH; assumption].
  destruct (find_field_by fields k) as [fl|] eqn:E; [|apply IH; assumption].
  assert (Hin : In fl fields).
  { unfold find_field_by in E. apply find_field_go_in in E. destruct E as [E|E]; [exact E|discriminate E]. }
  eapply out2_bind.
  - apply upd_fok; [exact Hc|eapply Forall_forall; eassumption|].
    intros ft fro _ Hdep fc Hfc. apply HR; [lia|exact Hfc|exact Hx].
  - intros c' Hc'. apply IH; assumption.
Qed.

(* decodeStructToStruct and the annotation wrapper on a struct type, for both values of flagRO *)
Lemma struct_value_ok : forall rec n fs cur ro v,
  REC rec n -> (dep (TyStruct fs) <= n)%nat -> good cur (TyStruct fs) = true -> wfv v = true ->
  is_null v = false ->
  out2 (TyStruct fs) (dec_value rec (TyStruct fs) cur ro v).
Proof.
  intros rec n fs cur ro v HR Hd Hc Hv Hn. destruct (wfv_body v Hv) as [Hb Hna].
  unfold dec_value; unfold is_null in Hn.
  destruct (body_of v) eqn:E; try discriminate Hn; try (exfalso; eapply Hna; reflexivity);
    cbv beta iota; cbn [wfv] in Hb;
    try (unfold or_wrapper; cbn [is_struct_kind]; eapply wrapper_ok; eassumption).
  cbn [is_struct_kind]. pose proof (fields_for_ok (TyStruct fs)) as Hff.
  destruct (fields_for (TyStruct fs)) as [fields| | |]; cbn [fok_out bind] in *; try exact I; try contradiction.
  eapply out2_bind; [apply attach_ann_ok; exact Hc|].
  intros c0 Hc0. eapply struct_fields_ok; eassumption.
Qed.

Lemma at_break_struct_ok : forall rec n fs cur ro v,
  REC rec n -> (dep (TyStruct fs) <= n)%nat -> good cur (TyStruct fs) = true -> wfv v = true ->
  out2 (TyStruct fs) (at_break rec (TyStruct fs) cur ro v).
Proof.
  intros rec n fs cur ro v HR Hd Hc Hv. unfold at_break. cbn [is_struct_kind is_scalar_struct negb orb].
  rewrite !orb_false_r.
  destruct (is_null v) eqn:Hn.
  - destruct ro; cbn [andb]; [exact I|]. apply attach_ann_ok. apply good_zero.
  - rewrite andb_false_r. eapply struct_value_ok; eassumption.
Qed.

(* ---- flagRO on anything but a plain struct: fix_unexported_embedded_set answers an error ------------------ *)
Lemma at_break_ro : forall rec t cur v,
  is_struct_kind t = false \/ is_scalar_struct t = true -> at_break rec t cur true v = Err.
Proof.
  intros rec t cur v H. unfold at_break. cbn [andb].
  destruct H as [H|H]; rewrite H; cbn [negb orb]; rewrite ?orb_true_r; reflexivity.
Qed.

(* ---- leaves ------------------------------------------------------------------------------------------------- *)
Lemma leaf_good : forall t g, leaf_ty t = true -> has_type g t = true -> good g t = true.
Proof.
  intros t g Hl Hg. apply good_intro; [exact Hg|].
  destruct t; try discriminate Hl; destruct g; try discriminate Hg; reflexivity.
Qed.

Ltac leaf_case2 Hb :=
  cbv beta iota;
  first
    [ exact I
    | match goal with
      | |- out2 (TyInt ?k) (dec_int ?k ?z false) =>
        rewrite dec_int_spec; destruct (in_range k z) eqn:Er; [apply leaf_good; [reflexivity|exact Er]|exact I]
      | |- out2 TyF32 (if overflow_f32 ?b then _ else _) =>
        destruct (overflow_f32 b); [exact I|];
        apply leaf_good; [reflexivity|]; unfold has_type; apply N.ltb_lt; apply narrow_lt; apply N.ltb_lt; exact Hb
      | |- out2 TyF64 (setv false (GFloat ?b)) => apply leaf_good; [reflexivity|exact Hb]
      | |- out2 TyString (match symv_text ?y with _ => _ end) => destruct y; cbn; first [exact I|reflexivity]
      end
    | cbn; first [exact I | reflexivity] ].

Lemma leaf_ok : forall rec t cur v, leaf_ty t = true -> wfv v = true -> out2 t (at_break rec t cur false v).
Proof.
  intros rec t cur v Hl Hv. destruct (wfv_body v Hv) as [Hb Hna].
  destruct t; try discriminate Hl; unfold at_break; cbn [andb];
    (destruct (is_null v) eqn:Hn; [first [vm_compute; reflexivity | destruct k; vm_compute; reflexivity]|]);
    unfold dec_value; unfold is_null in Hn;
    destruct (body_of v) eqn:E; try discriminate Hn; try (exfalso; eapply Hna; reflexivity);
    cbn [wfv] in Hb; leaf_case2 Hb.
Qed.

(* ---- slices --------------------------------------------------------------------------------------------------- *)
Lemma forallb_good_split : forall e l, forallb (fun x => good x e) l = true ->
  forallb (fun x => has_type x e) l = true /\ forallb sh l = true.
Proof. intros e l H. rewrite forallb_good in H. apply andb_prop in H. exact H. Qed.

Lemma slice_result_good : forall e out, forallb (fun x => good x e) out = true ->
  out2 (TySlice e)
    (if is_u8 e then Ok (GBytes (Some (map (fun g => match g with GInt z => Z.to_N z | _ => 0 end) out)))
     else Ok (GSlice (Some out))).
Proof.
  intros e out H. apply forallb_good_split in H. destruct H as [H1 H2].
  pose proof (slice_result_typed e out H1) as Ht.
  destruct (is_u8 e); cbn [out2 safe_out] in *; apply good_intro; try exact Ht; [reflexivity|exact H2].
Qed.

Lemma slice_elems_ok : forall rec n e, REC rec n -> (dep e < n)%nat ->
  forall l old acc isnil cur,
  forallb wfv l = true ->
  forallb (fun x => good x e) old = true -> forallb (fun x => good x e) acc = true ->
  out2 (TySlice e) (dec_slice_elems rec e false isnil cur l old acc).
Proof.
  intros rec n e HR Hd. induction l as [|x r IHl]; intros old acc isnil cur Hl Ho Ha.
  - cbn [dec_slice_elems andb].
    assert (Hr : forallb (fun x => good x e) (rev acc) = true) by (rewrite forallb_rev; exact Ha).
    destruct (rev acc) as [|y out] eqn:E.
    + destruct isnil.
      * destruct (is_u8 e) eqn:Eu; cbn [out2]; unfold good; cbn; rewrite Eu; reflexivity.
      * apply (slice_result_good e []). reflexivity.
    + destruct isnil; apply (slice_result_good e (y :: out)); exact Hr.
  - cbn [dec_slice_elems andb]. cbn [forallb] in Hl. apply andb_prop in Hl. destruct Hl as [Hx Hr].
    eapply out2_bind.
    + apply HR; [exact Hd| |exact Hx].
      destruct old as [|c o]; [apply good_zero|]. cbn in Ho. apply andb_prop in Ho. tauto.
    + intros y Hy. apply IHl; [exact Hr| |cbn [forallb]; rewrite Hy; exact Ha].
      destruct old as [|c o]; [reflexivity|]. cbn in Ho. apply andb_prop in Ho. tauto.
Qed.

Lemma good_ints : forall o, forallb (fun x => has_type x (TyInt U8)) o = true ->
  forallb (fun x => good x (TyInt U8)) o = true.
Proof.
  induction o as [|x r IH]; cbn [forallb]; intro H; [reflexivity|].
  apply andb_prop in H. destruct H as [H1 H2]. rewrite (IH H2), andb_true_r. apply leaf_good; [reflexivity|exact H1].
Qed.

Ltac not_struct_kind2 := unfold or_wrapper; cbn [is_struct_kind]; exact I.

Lemma slice_ok : forall rec n e cur v, REC rec n -> (dep e < n)%nat ->
  good cur (TySlice e) = true -> wfv v = true -> out2 (TySlice e) (at_break rec (TySlice e) cur false v).
Proof.
  intros rec n e cur v HR Hd Hc Hv. destruct (wfv_body v Hv) as [Hb Hna].
  apply good_split in Hc. destruct Hc as [Hc Hs].
  unfold at_break; cbn [andb].
  destruct (is_null v) eqn:Hn.
  - cbn [is_struct_kind]. apply (good_zero (TySlice e)).
  - unfold dec_value; unfold is_null in Hn.
    destruct (body_of v) eqn:E; try discriminate Hn; try (exfalso; eapply Hna; reflexivity);
      cbv beta iota; cbn [wfv] in Hb; try not_struct_kind2.
    + destruct (is_u8 e) eqn:Eu; [|exact I]. cbn [setv out2]. unfold good. cbn. rewrite Eu, Hb. reflexivity.
    + destruct (is_u8 e) eqn:Eu; [|exact I]. cbn [setv out2]. unfold good. cbn. rewrite Eu, Hb. reflexivity.
    + eapply slice_elems_ok; eauto.
      destruct cur as [| | | |ob|ol| | | | | | | | | |]; try reflexivity.
      * destruct ob as [o|]; [|reflexivity]. cbn in Hc. apply andb_prop in Hc. destruct Hc as [Hu Ho].
        apply is_u8_eq in Hu. subst e. apply good_ints. apply u8_of_bytes. exact Ho.
      * destruct ol as [o|]; [|reflexivity]. cbn in Hc. apply andb_prop in Hc. cbn [sh] in Hs.
        rewrite forallb_good. destruct Hc as [_ Hc]. rewrite Hc, Hs. reflexivity.
    + eapply slice_elems_ok; eauto.
      destruct cur as [| | | |ob|ol| | | | | | | | | |]; try reflexivity.
      * destruct ob as [o|]; [|reflexivity]. cbn in Hc. apply andb_prop in Hc. destruct Hc as [Hu Ho].
        apply is_u8_eq in Hu. subst e. apply good_ints. apply u8_of_bytes. exact Ho.
      * destruct ol as [o|]; [|reflexivity]. cbn in Hc. apply andb_prop in Hc. cbn [sh] in Hs.
        rewrite forallb_good. destruct Hc as [_ Hc]. rewrite Hc, Hs. reflexivity.
Qed.

(* ---- arrays --------------------------------------------------------------------------------------------------- *)
Lemma array_good : forall n e l, length l = N.to_nat n -> forallb (fun x => good x e) l = true ->
  good (GArr l) (TyArray n e) = true.
Proof.
  intros n e l Hl H. apply forallb_good_split in H. destruct H as [H1 H2].
  apply good_intro; [apply array_typed; assumption|exact H2].
Qed.

Lemma array_elems_ok : forall rec m n e, REC rec m -> (dep e < m)%nat ->
  forall l old acc,
  forallb wfv l = true ->
  forallb (fun x => good x e) old = true -> forallb (fun x => good x e) acc = true ->
  (length acc + length old = N.to_nat n)%nat ->
  out2 (TyArray n e) (dec_array_elems rec e false l old acc).
Proof.
  intros rec m n e HR Hd. induction l as [|x r IHl]; intros old acc Hl Ho Ha Hlen.
  - destruct old as [|c o]; cbn [dec_array_elems].
    + apply array_good; [rewrite rev_length; cbn [length] in Hlen; lia|rewrite forallb_rev; exact Ha].
    + apply array_good.
      * rewrite app_length, rev_length, map_length. exact Hlen.
      * rewrite forallb_app, forallb_rev, Ha. cbn [andb].
        clear. induction (c :: o) as [|y t IHt]; cbn; [reflexivity|]. rewrite good_zero. exact IHt.
  - destruct old as [|c o]; cbn [dec_array_elems].
    + apply array_good; [rewrite rev_length; cbn [length] in Hlen; lia|rewrite forallb_rev; exact Ha].
    + cbn [forallb] in Hl, Ho. apply andb_prop in Hl. apply andb_prop in Ho. destruct Hl as [Hx Hr]. destruct Ho as [Hc Ho].
      eapply out2_bind; [apply HR; [exact Hd|exact Hc|exact Hx]|].
      intros y Hy. apply IHl; [exact Hr|exact Ho|cbn [forallb]; rewrite Hy; exact Ha|cbn in *; lia].
Qed.

Lemma array_ok : forall rec m n e cur v, REC rec m -> (dep e < m)%nat ->
  good cur (TyArray n e) = true -> wfv v = true -> out2 (TyArray n e) (at_break rec (TyArray n e) cur false v).
Proof.
  intros rec m n e cur v HR Hd Hc Hv. destruct (wfv_body v Hv) as [Hb Hna].
  apply good_split in Hc. destruct Hc as [Hc Hs].
  unfold at_break; cbn [andb].
  destruct (is_null v) eqn:Hn.
  - cbn [is_struct_kind]. apply (good_zero (TyArray n e)).
  - assert (Hcur : exists o, cur = GArr o /\ length o = N.to_nat n /\ forallb (fun x => good x e) o = true).
    { destruct cur; try discriminate Hc. cbn in Hc. apply andb_prop in Hc. destruct Hc as [H1 H2].
      exists l. split; [reflexivity|]. split; [apply N.eqb_eq in H1; lia|].
      rewrite forallb_good. cbn [sh] in Hs. rewrite H2, Hs. reflexivity. }
    destruct Hcur as [o [-> [Hlen Ho]]].
    unfold dec_value; unfold is_null in Hn.
    destruct (body_of v) eqn:E; try discriminate Hn; try (exfalso; eapply Hna; reflexivity);
      cbv beta iota; cbn [wfv] in Hb; try not_struct_kind2.
    + destruct (is_u8 e) eqn:Eu; [|exact I]. apply is_u8_eq in Eu. subst e.
      destruct (take_bytes_spec (N.to_nat n) b Hb) as [T1 T2]. apply array_good; [assumption|apply good_ints; assumption].
    + destruct (is_u8 e) eqn:Eu; [|exact I]. apply is_u8_eq in Eu. subst e.
      destruct (take_bytes_spec (N.to_nat n) b Hb) as [T1 T2]. apply array_good; [assumption|apply good_ints; assumption].
    + eapply array_elems_ok; eauto.
    + eapply array_elems_ok; eauto.
Qed.

(* ---- maps ------------------------------------------------------------------------------------------------------ *)
Lemma map_set_p : forall (p : gval -> bool) k x l,
  forallb (fun kv : text * gval => p (snd kv)) l = true -> p x = true ->
  forallb (fun kv : text * gval => p (snd kv)) (map_set k x l) = true.
Proof.
  intros p k x l. induction l as [|[k' y] r IH]; intros Hl Hx; cbn [map_set forallb snd].
  - rewrite Hx. reflexivity.
  - cbn [forallb snd] in Hl. apply andb_prop in Hl. destruct Hl as [Hy Hr].
    destruct (list_eqb k k'); [cbn [forallb snd]; rewrite Hx; exact Hr|].
    destruct (text_ltb k k'); cbn [forallb snd]; [rewrite Hx, Hy; exact Hr|]. rewrite Hy. apply IH; assumption.
Qed.

Lemma map_fields_ok : forall rec n e, REC rec n -> (dep e < n)%nat ->
  forall l m,
  forallb (fun kv : symv * value => wfv (snd kv)) l = true ->
  keys_sorted (map fst m) = true -> forallb (fun kv : text * gval => has_type (snd kv) e) m = true ->
  forallb (fun kv : text * gval => sh (snd kv)) m = true ->
  out2 (TyMap e) (dec_map_fields rec e false l m).
Proof.
  intros rec n e HR Hd. induction l as [|[y x] r IHl]; intros m Hl Hs Ht Hh.
  - cbn [dec_map_fields out2]. unfold good. cbn. rewrite Hs, Ht, Hh. reflexivity.
  - cbn [forallb snd] in Hl. apply andb_prop in Hl. destruct Hl as [Hx Hr].
    destruct y as [k|j]; cbn [dec_map_fields]; [|apply IHl; assumption].
    eapply out2_bind; [apply HR; [exact Hd|apply good_zero|exact Hx]|].
    intros sub Hsub. apply good_split in Hsub. destruct Hsub as [S1 S2].
    apply IHl; [exact Hr|apply map_set_sorted; exact Hs|apply map_set_typed; assumption|apply map_set_p; assumption].
Qed.

Lemma map_ok : forall rec n e cur v, REC rec n -> (dep e < n)%nat ->
  good cur (TyMap e) = true -> wfv v = true -> out2 (TyMap e) (at_break rec (TyMap e) cur false v).
Proof.
  intros rec n e cur v HR Hd Hc Hv. destruct (wfv_body v Hv) as [Hb Hna].
  apply good_split in Hc. destruct Hc as [Hc Hs].
  unfold at_break; cbn [andb].
  destruct (is_null v) eqn:Hn.
  - cbn [is_struct_kind]. reflexivity.
  - unfold dec_value; unfold is_null in Hn.
    destruct (body_of v) eqn:E; try discriminate Hn; try (exfalso; eapply Hna; reflexivity);
      cbv beta iota; cbn [wfv] in Hb; try not_struct_kind2.
    destruct cur as [| | | | | | |om| | | | | | | |]; try discriminate Hc.
    destruct om as [m|]; cbn [bind].
    + cbn in Hc. apply andb_prop in Hc. destruct Hc as [H1 H2]. cbn [sh] in Hs. eapply map_fields_ok; eauto.
    + eapply map_fields_ok; eauto.
Qed.

(* ---- Decoder.decode: the interface{} tree is well typed and shallow ------------------------------------------- *)
Lemma val_size_pos : forall v, (1 <= val_size v)%nat.
Proof. destruct v; cbn [val_size]; lia. Qed.
Lemma val_sum_ge : forall (l : list value) x, In x l -> (val_size x <= fold_right (fun x a => (val_size x + a)%nat) 0%nat l)%nat.
Proof.
  induction l as [|y r IH]; intros x H; [contradiction|]. cbn [fold_right]. destruct H as [->|H]; [lia|].
  specialize (IH x H). lia.
Qed.
Lemma val_sum_ge2 : forall (l : list (symv * value)) kv, In kv l ->
  (val_size (snd kv) <= fold_right (fun kv a => (val_size (snd kv) + a)%nat) 0%nat l)%nat.
Proof.
  induction l as [|y r IH]; intros x H; [contradiction|]. cbn [fold_right]. destruct H as [->|H]; [lia|].
  specialize (IH x H). lia.
Qed.

Lemma forallb_map' : forall {A B} (p : B -> bool) (f : A -> B) l, forallb p (map f l) = forallb (fun x => p (f x)) l.
Proof. intros A B p f l. induction l as [|x r IH]; [reflexivity|]. cbn. rewrite IH. reflexivity. Qed.

Lemma fits32_range : forall z, fits_int32 z = true -> in_range IInt z = true.
Proof. intros z H. unfold fits_int32 in H. unfold in_range. change (ik_min IInt) with (- 9223372036854775808)%Z.
  change (ik_max IInt) with 9223372036854775807%Z. change (2 ^ 31)%Z with 2147483648%Z in H. lia. Qed.
Lemma fits64_range2 : forall z, fits_int64 z = true -> in_range I64 z = true.
Proof. intros z H. unfold fits_int64 in H. unfold in_range. change (ik_min I64) with (- 9223372036854775808)%Z.
  change (ik_max I64) with 9223372036854775807%Z. change (2 ^ 63)%Z with 9223372036854775808%Z in H. lia. Qed.

Lemma int_dyn_typed : forall z, has_type (decode_int_dyn z) TyIface = true.
Proof.
  intro z. unfold decode_int_dyn. destruct (fits_int32 z) eqn:E1.
  - cbn. apply fits32_range. exact E1.
  - destruct (fits_int64 z) eqn:E2; [cbn; apply fits64_range2; exact E2|reflexivity].
Qed.
Lemma int_dyn_sh : forall z, sh (decode_int_dyn z) = true.
Proof. intro z. unfold decode_int_dyn. destruct (fits_int32 z); [reflexivity|]. destruct (fits_int64 z); reflexivity. Qed.

Lemma decode_any_sh : forall v, sh (decode_any v) = true.
Proof.
  induction v; cbn [decode_any]; try reflexivity; try apply int_dyn_sh; try exact IHv.
  - destruct l; reflexivity.
  - destruct l; reflexivity.
Qed.

Lemma decode_any_typed_n : forall n v, (val_size v <= n)%nat -> wfv v = true -> has_type (decode_any v) TyIface = true.
Proof.
  induction n as [|n IH]; intros v Hs Hv; [pose proof (val_size_pos v); lia|].
  assert (Hlist : forall l, (S (fold_right (fun x a => (val_size x + a)%nat) 0%nat l) <= S n)%nat ->
            forallb wfv l = true ->
            has_type (match l with
                      | [] => dyn (TySlice TyIface) (GSlice None)
                      | _ => dyn (TySlice TyIface) (GSlice (Some (map decode_any l)))
                      end) TyIface = true).
  { intros l Hl Hw. destruct l as [|x r]; [reflexivity|]. unfold dyn. cbn [has_type is_u8 negb andb].
    rewrite forallb_map'. apply forallb_forall. intros y Hy. apply IH.
    - pose proof (val_sum_ge _ _ Hy). lia.
    - eapply forallb_forall in Hw; eassumption. }
  destruct v; cbn [decode_any]; cbn [wfv] in Hv; try reflexivity.
  - apply int_dyn_typed.
  - exact Hv.
  - cbn. exact Hv.
  - cbn. exact Hv.
  - apply Hlist; assumption.
  - apply Hlist; assumption.
  - unfold dyn. cbn [has_type negb andb]. cbn [val_size] in Hs.
    match goal with |- context [?F l (@nil (text * gval))] => set (go := F) end.
    assert (Hgo : forall l' acc, (forall kv, In kv l' -> In kv l) ->
              keys_sorted (map fst acc) = true ->
              forallb (fun kv : text * gval => has_type (snd kv) TyIface) acc = true ->
              keys_sorted (map fst (go l' acc)) = true /\
              forallb (fun kv : text * gval => has_type (snd kv) TyIface) (go l' acc) = true).
    { induction l' as [|[y x] r IHl]; intros acc Hin Hk Ht; [split; assumption|].
      assert (Hr : forall kv, In kv r -> In kv l) by (intros kv H; apply Hin; right; exact H).
      destruct y as [k|j]; cbn [go]; fold go; [|apply IHl; assumption].
      apply IHl; [exact Hr|apply map_set_sorted; exact Hk|apply map_set_typed; [exact Ht|]].
      apply IH.
      - pose proof (val_sum_ge2 l (SymText k, x) (Hin _ (or_introl eq_refl))). cbn [snd] in H. lia.
      - eapply forallb_forall in Hv; [|apply Hin; left; reflexivity]. exact Hv. }
    destruct (Hgo l [] (fun kv H => H) eq_refl eq_refl) as [G1 G2]. rewrite G1, G2. reflexivity.
  - apply andb_prop in Hv. destruct Hv as [_ Hv]. apply IH; [cbn [val_size] in Hs; lia|exact Hv].
Qed.

Lemma decode_any_good : forall v, wfv v = true -> good (decode_any v) TyIface = true.
Proof.
  intros v Hv. apply good_intro; [eapply decode_any_typed_n; [apply le_n|exact Hv]|apply decode_any_sh].
Qed.

(* ---- interface{} targets ------------------------------------------------------------------------------------------ *)
Lemma iface_break_ok : forall rec cur v, wfv v = true -> out2 TyIface (at_break rec TyIface cur false v).
Proof.
  intros rec cur v Hv. destruct (wfv_body v Hv) as [Hb Hna].
  unfold at_break; cbn [andb].
  destruct (is_null v) eqn:Hn; [reflexivity|].
  unfold dec_value; unfold is_null in Hn.
  destruct (body_of v) eqn:E; try discriminate Hn; try (exfalso; eapply Hna; reflexivity);
    cbv beta iota; cbn [wfv setv] in *;
    first [ reflexivity
          | apply good_intro; [apply int_dyn_typed|apply int_dyn_sh]
          | apply good_intro; [exact Hb|reflexivity]
          | apply good_intro; [cbn; exact Hb|reflexivity]
          | apply (decode_any_good (VStruct l)); exact Hb
          | apply (decode_any_good (VList l)); exact Hb ].
Qed.

(* ---- the step ---------------------------------------------------------------------------------------------------- *)
Lemma good_ptr_some : forall y e, good (GPtr (Some y)) (TyPtr e) = good y e.
Proof. reflexivity. Qed.

Lemma step_ok : forall rec n, REC rec n -> REC (dec_body rec) (S n).
Proof.
  intros rec n HR t cur ro v Hd Hc Hv.
  assert (Hleaf : leaf_ty t = true -> out2 t (at_break rec t cur ro v)).
  { intro Hl. destruct ro; [|apply leaf_ok; assumption].
    destruct t; try discriminate Hl; (rewrite at_break_ro; [exact I|]); first [left; reflexivity|right; reflexivity]. }
  destruct t; cbn [dec_body]; try (apply Hleaf; reflexivity); cbn [dep] in Hd.
  - (* slice *) destruct ro; [rewrite at_break_ro; [exact I|left; reflexivity]|]. eapply slice_ok; eauto. lia.
  - (* array *) destruct ro; [rewrite at_break_ro; [exact I|left; reflexivity]|]. eapply array_ok; eauto. lia.
  - (* map *) destruct ro; [rewrite at_break_ro; [exact I|left; reflexivity]|]. eapply map_ok; eauto. lia.
  - (* pointer *)
    pose proof (good_split _ _ Hc) as [Hct Hcs].
    destruct cur as [| | | | | | | |p| | | | | | |]; try discriminate Hct.
    match goal with |- context[if ?c then _ else _] => destruct c eqn:Ec end.
    + apply andb_prop in Ec. destruct Ec as [Ec Ero]. apply andb_prop in Ec. destruct Ec as [_ En].
      destruct ro; [discriminate Ero|]. unfold at_break. cbn [andb]. rewrite En. cbn [is_struct_kind]. reflexivity.
    + destruct p as [y|].
      * eapply out2_bind; [apply HR; [lia|rewrite <- good_ptr_some; exact Hc|exact Hv]|].
        intros y' Hy. cbn [out2]. rewrite good_ptr_some. exact Hy.
      * destruct ro; [exact I|].
        eapply out2_bind; [apply HR; [lia|apply good_zero|exact Hv]|].
        intros y' Hy. cbn [out2]. rewrite good_ptr_some. exact Hy.
  - (* interface{} *)
    assert (Hbrk : out2 TyIface (at_break rec TyIface cur ro v)).
    { destruct ro; [rewrite at_break_ro; [exact I|left; reflexivity]|]. apply iface_break_ok. exact Hv. }
    pose proof (good_split _ _ Hc) as [Hct Hcs].
    destruct cur as [| | | | | | | | |d| | | | | |]; try discriminate Hct.
    destruct d as [[dt x]|]; [|exact Hbrk].
    destruct dt; try exact Hbrk. destruct x as [| | | | | | | |p| | | | | | |]; try exact Hbrk.
    destruct p as [y|]; [|exact Hbrk].
    match goal with |- context[if ?c then _ else _] => destruct c end; [|exact Hbrk].
    cbn [sh] in Hcs. cbn [has_type negb andb] in Hct.
    assert (Hdep : (dep dt < n)%nat) by (destruct dt; try discriminate Hcs; cbn [dep]; lia).
    eapply out2_bind; [apply HR; [exact Hdep|apply good_intro; [exact Hct|]|exact Hv]|].
    + destruct dt; try discriminate Hcs; destruct y; try discriminate Hct; reflexivity.
    + intros y' Hy. cbn [out2]. apply good_split in Hy. destruct Hy as [Y1 Y2].
      apply good_intro; [cbn [has_type negb andb]; exact Y1|cbn [sh]; exact Hcs].
  - (* struct *) eapply at_break_struct_ok; eauto. cbn [dep]. lia.
Qed.

Lemma decto_rec : forall n, REC (decto n) n.
Proof.
  induction n as [|n IH].
  - intros t cur ro v Hd. lia.
  - change (decto (S n)) with (dec_body (decto n)). apply step_ok. exact IH.
Qed.

(* ---- the theorems -------------------------------------------------------------------------------------------------- *)
Lemma out2_safe : forall t r, out2 t r -> safe_out t r.
Proof. intros t r H. destruct r; cbn in *; try exact H. apply good_split in H. tauto. Qed.

(* decodeTo on ANY target type, any well-typed shallow current content, flagRO set or not, any well-formed
   Ion value, any fuel above the depth of the type: a well-typed value or an error, never a panic *)
Theorem decode_safe_all : forall t fuel cur ro v,
  (dep t < fuel)%nat -> has_type cur t = true -> sh cur = true -> wfv v = true ->
  safe_out t (decto fuel t cur ro v).
Proof.
  intros t fuel cur ro v Hd Hc Hs Hv. apply out2_safe. apply decto_rec; [exact Hd|apply good_intro; assumption|exact Hv].
Qed.

Lemma dep_le_size : forall t, (dep t <= ty_size t)%nat.
Proof.
  apply (gty_mut (fun t => (dep t <= ty_size t)%nat) (fun fs => (fsdep fs <= fs_size fs)%nat));
    intros; cbn [dep ty_size fsdep fs_size]; lia.
Qed.

(* Unmarshal(data, &x) with x the zero value of ANY type, with the fuel decode_to computes *)
Theorem decode_to_safe_all : forall t v, wfv v = true -> safe_out t (decode_to t v).
Proof.
  intros t v Hv. unfold decode_to. apply decode_safe_all; [|apply zero_has_type|apply sh_zero|exact Hv].
  unfold dec_fuel. pose proof (dep_le_size t). lia.
Qed.
Theorem decode_to_never_panics : forall t v, wfv v = true -> decode_to t v <> Panic /\ decode_to t v <> OutOfFuel.
Proof.
  intros t v Hv. pose proof (decode_to_safe_all t v Hv) as H.
  destruct (decode_to t v); cbn in H; try contradiction; split; discriminate.
Qed.
(* Unmarshal into a pre-populated x (well typed, shallow) *)
Theorem decode_into_safe_all : forall t cur v,
  has_type cur t = true -> sh cur = true -> wfv v = true -> safe_out t (decode_into t cur v).
Proof.
  intros t cur v Hc Hs Hv. unfold decode_into. apply decode_safe_all; try assumption.
  unfold dec_fuel. pose proof (dep_le_size t). lia.
Qed.
(* what Unmarshal stores is shallow again, so a second Unmarshal into the same variable is covered too *)
Theorem decode_result_shallow : forall t fuel cur ro v g,
  (dep t < fuel)%nat -> has_type cur t = true -> sh cur = true -> wfv v = true ->
  decto fuel t cur ro v = Ok g -> has_type g t = true /\ sh g = true.
Proof.
  intros t fuel cur ro v g Hd Hc Hs Hv E.
  pose proof (decto_rec fuel t cur ro v Hd (good_intro _ _ Hc Hs) Hv) as H. rewrite E in H. apply good_split. exact H.
Qed.

Lemma decode_any_typed_sh : forall v, wfv v = true -> has_type (decode_any v) TyIface = true /\ sh (decode_any v) = true.
Proof. intros v H. exact (good_split _ _ (decode_any_good v H)). Qed.
