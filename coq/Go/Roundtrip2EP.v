(* Roundtrip2EP.v — the encode half of C16 on [rty2] and the round-trip theorem:
   encode_ion2 : Marshal's call sequence (any hint, sorted or stored map order) denotes [ion2];
   roundtrip_rty2 : Unmarshal (Marshal v) = v for every value of every type of rty2 that satisfies ok2. *)
From Coq Require Import String List NArith ZArith Bool Lia ZifyBool ZifyN ZifyNat Arith.
From IonV Require Import Base.Wire Data.Ion Num.Float Bin.BinWriter
  Go.GoTypes Go.Fields Go.Encode Go.Decode Go.MarshalSpec Go.MarshalP Go.DecodeSafeP Go.RoundtripP
  Go.MarshalSpec2 Go.Roundtrip2P.
Import ListNotations.
Open Scope N_scope.

Definition RTe2 (t : gty) : Prop :=
  forall h g fuel sm addr, has_type g t = true -> ok2 t h g = true -> (gv_size g < fuel)%nat ->
    exists cs, encode_f fuel sm t g addr h = Ok cs /\ Parses cs (ion2 t h g).

Ltac leaf_enc2 := eexists; split; [reflexivity|apply parses_scalar; [reflexivity|exact I]].

Lemma rte2_leaf : forall t,
  match t with TyBool | TyInt _ | TyF32 | TyF64 | TyBigInt | TyDecimal | TyTimestamp | TyTime => True | _ => False end -> RTe2 t.
Proof.
  intros t Ht h g fuel sm addr H _ Hf. destruct fuel as [|f]; [lia|]. rewrite enc_unfold.
  destruct t; try contradiction; destruct g; try discriminate H; try leaf_enc2.
  destruct k; leaf_enc2.
Qed.

Lemma rte2_string : RTe2 TyString.
Proof.
  intros h g fuel sm addr H Hok Hf. destruct fuel as [|f]; [lia|]. rewrite enc_unfold.
  destruct g; try discriminate H. cbn [enc_body ion2]. cbn [ok2] in Hok.
  destruct (hint_is h TSymbol).
  - cbn [andb] in Hok. apply negb_true_iff in Hok. eexists. split; [reflexivity|].
    apply parses_scalar; [cbn [scalar_of]; rewrite Hok; reflexivity|exact I].
  - leaf_enc2.
Qed.

Lemma enc_list_loop2 : forall e f sm a h, RTe2 e ->
  forall l, forallb (fun x => has_type x e) l = true -> forallb (ok2 e h) l = true ->
  (fold_right (fun x acc => (gv_size x + acc)%nat) 0%nat l < f)%nat ->
  exists body, concat_res (map (fun x => encode_f f sm e x a h) l) = Ok body /\
    (forall rest0 n, (length body + 1 <= n)%nat ->
       pseq n (body ++ CEndList :: rest0) KList = Some (map (ion2 e h) l, rest0)) /\
    (forall rest0 n, (length body + 1 <= n)%nat ->
       pseq n (body ++ CEndSexp :: rest0) KSexp = Some (map (ion2 e h) l, rest0)).
Proof.
  intros e f sm a h IH. induction l as [|x r IHl]; intros Hl Ho Hs.
  - exists []. split; [reflexivity|]. split; intros rest0 n Hn; (destruct n; [cbn in Hn; lia|]); reflexivity.
  - cbn [forallb] in Hl, Ho. apply andb_prop in Hl. destruct Hl as [Hx Hr]. apply andb_prop in Ho. destruct Ho as [Ox Or].
    cbn [fold_right] in Hs.
    destruct (IH h x f sm a Hx Ox) as [cs [E1 P1]]; [lia|].
    destruct IHl as [body [E2 [P2 P3]]]; [exact Hr|exact Or|lia|].
    exists (cs ++ body). split.
    + cbn [map]. unfold concat_res in *. cbn [fold_right]. rewrite E1. cbn [bind]. rewrite E2. reflexivity.
    + destruct (parses_head _ _ P1) as [c [r' [Ec _]]]. assert (1 <= length cs)%nat by (rewrite Ec; cbn; lia).
      split; intros rest0 n Hn; rewrite app_length in Hn; (destruct n as [|n]; [lia|]);
        rewrite <- app_assoc; rewrite (pseq_cons n cs (ion2 e h x)); try exact P1; try lia;
        [rewrite P2 by lia|rewrite P3 by lia]; reflexivity.
Qed.

Lemma parses_sexp : forall body vs,
  (forall rest0 n, (length body + 1 <= n)%nat -> pseq n (body ++ CEndSexp :: rest0) KSexp = Some (vs, rest0)) ->
  Parses ([CBeginSexp] ++ body ++ [CEndSexp]) (VSexp vs).
Proof.
  intros body vs H rest f Hf. rewrite !app_length in Hf. cbn [length] in Hf. destruct f as [|f]; [lia|].
  cbn [app pvalue]. rewrite <- app_assoc. cbn [app]. rewrite H by lia. reflexivity.
Qed.

Lemma enc_array_parses : forall e f sm a h l, RTe2 e ->
  forallb (fun x => has_type x e) l = true -> forallb (ok2 e h) l = true ->
  (fold_right (fun x acc => (gv_size x + acc)%nat) 0%nat l < f)%nat ->
  exists cs, enc_array (encode_f f sm) e l a h = Ok cs /\ Parses cs (seq_val h (map (ion2 e h) l)).
Proof.
  intros e f sm a h l IH Hl Ho Hs. unfold enc_array, seq_val.
  destruct (enc_list_loop2 e f sm a h IH l Hl Ho Hs) as [body [E [P1 P2]]].
  rewrite E. cbn [bind]. destruct (hint_is h TSexp).
  - eexists. split; [reflexivity|]. apply parses_sexp. exact P2.
  - eexists. split; [reflexivity|]. apply parses_list. exact P1.
Qed.

Lemma rte2_slice : forall e, RTe2 e -> RTe2 (TySlice e).
Proof.
  intros e IH h g fuel sm addr H Hok Hf. destruct fuel as [|f]; [lia|]. rewrite enc_unfold.
  destruct g as [| | | |ob|ol| | | | | | | | | |]; try discriminate H; cbn [has_type] in H;
    apply andb_prop in H; destruct H as [Hu Hl].
  - destruct ob as [b|]; [|leaf_enc2]. cbn [enc_body ion2]. destruct (hint_is h TClob); leaf_enc2.
  - destruct ol as [l|]; [|leaf_enc2]. cbn [enc_body ion2]. cbn [ok2] in Hok.
    apply enc_array_parses; try assumption. cbn [gv_size] in Hf. lia.
Qed.

Lemma rte2_array : forall n e, RTe2 e -> RTe2 (TyArray n e).
Proof.
  intros n e IH h g fuel sm addr H Hok Hf. destruct fuel as [|f]; [lia|]. rewrite enc_unfold.
  destruct g; try discriminate H. cbn [has_type] in H. apply andb_prop in H. destruct H as [Hn Hl].
  cbn [enc_body ion2]. cbn [ok2] in Hok. apply enc_array_parses; try assumption. cbn [gv_size] in Hf. lia.
Qed.

Lemma rte2_ptr : forall e, RTe2 e -> RTe2 (TyPtr e).
Proof.
  intros e IH h g fuel sm addr H Hok Hf. destruct fuel as [|f]; [lia|]. rewrite enc_unfold.
  destruct g as [| | | | | | | |p| | | | | | |]; try discriminate H.
  destruct p as [x|]; [|leaf_enc2]. cbn [has_type] in H. cbn [enc_body ion2]. cbn [ok2] in Hok.
  apply IH; [exact H|exact Hok|cbn [gv_size] in Hf; lia].
Qed.

Lemma enc_map_loop2 : forall e f sm h, RTe2 e ->
  forall m, forallb (fun kv : text * gval => has_type (snd kv) e) m = true ->
  forallb (fun kv : text * gval => ok2 e h (snd kv)) m = true ->
  (fold_right (fun (kv : text * gval) acc => (gv_size (snd kv) + acc)%nat) 0%nat m < f)%nat ->
  exists body,
    concat_res (map (fun kv : text * gval => do c <- encode_f f sm e (snd kv) false h;
                                            Ok (CFieldName (tok_text (fst kv)) :: c)) m) = Ok body /\
    forall rest0 n, (length body + 1 <= n)%nat ->
      pfields n (body ++ CEndStruct :: rest0) =
      Some (map (fun kv : text * gval => (SymText (fst kv), ion2 e h (snd kv))) m, rest0).
Proof.
  intros e f sm h IH. induction m as [|[k x] r IHm]; intros Hl Ho Hs.
  - exists []. split; [reflexivity|]. intros rest0 n Hn. destruct n; [cbn in Hn; lia|]. reflexivity.
  - cbn [forallb snd] in Hl, Ho. apply andb_prop in Hl. destruct Hl as [Hx Hr]. apply andb_prop in Ho. destruct Ho as [Ox Or].
    cbn [fold_right snd] in Hs.
    destruct (IH h x f sm false Hx Ox) as [cs [E1 P1]]; [lia|].
    destruct IHm as [body [E2 P2]]; [exact Hr|exact Or|lia|].
    exists ((CFieldName (tok_text k) :: cs) ++ body). split.
    + cbn [map fst snd]. unfold concat_res in *. cbn [fold_right]. rewrite E1. cbn [bind]. rewrite E2. reflexivity.
    + intros rest0 n Hn. rewrite app_length in Hn. cbn [length] in Hn. destruct n as [|n]; [lia|].
      cbn [app pfields map fst snd]. rewrite <- app_assoc. rewrite (P1 _ n) by lia. rewrite P2 by lia. reflexivity.
Qed.

Lemma rte2_map : forall e, RTe2 e -> RTe2 (TyMap e).
Proof.
  intros e IH h g fuel sm addr H Hok Hf. destruct fuel as [|f]; [lia|]. rewrite enc_unfold.
  destruct g as [| | | | | | |om| | | | | | | |]; try discriminate H.
  destruct om as [m|]; [|leaf_enc2]. cbn [has_type] in H. apply andb_prop in H. destruct H as [Hs Ht].
  cbn [enc_body ion2]. cbn [ok2] in Hok. unfold enc_map.
  assert (Ek : (if sm then sort_keys m else m) = m) by (destruct sm; [apply sort_keys_id; exact Hs|reflexivity]).
  rewrite Ek.
  destruct (enc_map_loop2 e f sm h IH m Ht Hok) as [body [E P]]; [cbn [gv_size] in Hf; lia|].
  rewrite E. cbn [bind]. exists ([CBeginStruct] ++ body ++ [CEndStruct]). split; [reflexivity|].
  apply parses_struct. exact P.
Qed.

(* the dynamic types an interface{} of the universe may hold *)
Lemma rte2_bytes : RTe2 (TySlice (TyInt U8)).
Proof. apply rte2_slice. apply rte2_leaf. exact I. Qed.

Lemma rte2_iface : RTe2 TyIface.
Proof.
  intros h g fuel sm addr H Hok Hf. destruct fuel as [|f]; [lia|]. rewrite enc_unfold.
  destruct g as [| | | | | | | | |d| | | | | |]; try discriminate H.
  destruct d as [[dt x]|]; [|leaf_enc2].
  cbn [has_type] in H. apply andb_prop in H. destruct H as [_ Hx]. cbn [ok2] in Hok. cbn [enc_body ion2].
  cbn [gv_size] in Hf. assert (Hf' : (gv_size x < f)%nat) by lia.
  destruct dt as [|k| | | |e| | | | | | | | | |]; try (destruct x; discriminate Hok).
  - destruct x; try discriminate Hok. apply (rte2_leaf TyBool I h _ f sm false Hx eq_refl Hf').
  - destruct k; try (destruct x; discriminate Hok); destruct x; try discriminate Hok.
    + apply (rte2_leaf (TyInt I64) I h _ f sm false Hx eq_refl Hf').
    + apply (rte2_leaf (TyInt IInt) I h _ f sm false Hx eq_refl Hf').
  - destruct x; try discriminate Hok. apply (rte2_leaf TyF64 I h _ f sm false Hx eq_refl Hf').
  - destruct x; try discriminate Hok. cbn [iface_ok] in Hok. apply negb_true_iff in Hok.
    assert (Hok' : ok2 TyString h (GString t) = true) by (cbn [ok2]; rewrite Hok; reflexivity).
    exact (rte2_string h _ f sm false Hx Hok' Hf').
  - destruct e as [|k| | | | | | | | | | | | | |]; try (destruct x; discriminate Hok).
    destruct k; try (destruct x; discriminate Hok). destruct x; try discriminate Hok. destruct b as [b|]; [|discriminate Hok].
    exact (rte2_bytes h _ f sm false Hx eq_refl Hf').
  - destruct x; try discriminate Hok. apply (rte2_leaf TyTimestamp I h _ f sm false Hx eq_refl Hf').
  - destruct x; try discriminate Hok. apply (rte2_leaf TyDecimal I h _ f sm false Hx eq_refl Hf').
Qed.

(* ---- structs ------------------------------------------------------------------------------------------------------ *)
Lemma enc_struct_loop2 : forall FS L f sm addr,
  (forall x, In x L -> (gv_size x < f)%nat) ->
  forall rest i gs,
  (forall j, nth_field rest j = nth_field FS (i + j)%nat) ->
  (forall j, nth_error gs j = nth_error L (i + j)%nat) ->
  has_type (GStruct gs) (TyStruct rest) = true -> ok2_fields rest gs i = true -> AllF RTe2 rest ->
  exists body,
    concat_res (map (fun fl =>
      match walk_enc (TyStruct FS) (GStruct L) addr (f_path fl) with
      | WSkip => Ok []
      | WBad => Panic
      | WAt ft fv fa =>
        if f_omit fl && empty_value ft fv then Ok []
        else do c <- encode_f f sm ft fv fa (f_hint fl); Ok (CFieldName (tok_text (f_name fl)) :: c)
      end) (fields2 rest i)) = Ok body /\
    forall rest0 n, (length body + 1 <= n)%nat ->
      pfields n (body ++ CEndStruct :: rest0) = Some (ion2_fields rest gs i, rest0).
Proof.
  intros FS L f sm addr Hsz. induction rest as [|name ex emb tag ty rest IH]; intros i gs Hn Hg Ht Hok HRT.
  - exists []. split; [reflexivity|]. intros rest0 n Hl. destruct n; [cbn in Hl; lia|].
    destruct gs; reflexivity.
  - destruct gs as [|x gr]; [discriminate Ht|]. rewrite has_type_struct_cons in Ht. apply andb_prop in Ht. destruct Ht as [Hx Hgr].
    assert (Hrest : forall j, nth_field rest j = nth_field FS (S i + j)%nat).
    { intro j. specialize (Hn (S j)). cbn in Hn. rewrite Hn. f_equal. lia. }
    assert (Hgrest : forall j, nth_error gr j = nth_error L (S i + j)%nat).
    { intro j. specialize (Hg (S j)). cbn in Hg. rewrite Hg. f_equal. lia. }
    assert (Hi : nth_field FS i = Some (ty, ex)).
    { specialize (Hn O). cbn in Hn. rewrite Nat.add_0_r in Hn. symmetry. exact Hn. }
    assert (Hxi : nth_error L i = Some x).
    { specialize (Hg O). cbn in Hg. rewrite Nat.add_0_r in Hg. symmetry. exact Hg. }
    cbn [AllF] in HRT. destruct HRT as [HRT1 HRT2].
    cbn [ok2_fields ion2_fields fields2] in *. apply andb_prop in Hok. destruct Hok as [Hok1 Hok2].
    destruct (IH (S i) gr Hrest Hgrest Hgr Hok2 HRT2) as [body [E2 P2]].
    destruct (skipped ex tag) eqn:Hsk.
    + exists body. split; assumption.
    + set (fl := fld name tag ty i) in *.
      apply andb_prop in Hok1. destruct Hok1 as [Hox Hoz].
      assert (Hw : walk_enc (TyStruct FS) (GStruct L) addr (f_path fl) = WAt ty x addr).
      { unfold fl. rewrite fld_path. cbn [walk_enc struct_parts]. rewrite (nth_fty_field _ _ _ _ Hi), Hxi. reflexivity. }
      destruct (f_omit fl && empty_value ty x) eqn:Hom.
      * exists body. split; [|exact P2].
        cbn [map]. rewrite Hw, Hom. unfold concat_res in *. cbn [fold_right]. rewrite E2. reflexivity.
      * destruct (HRT1 eq_refl (f_hint fl) x f sm addr Hx Hox) as [cs [E1 P1]]; [apply Hsz; eapply nth_error_In; exact Hxi|].
        exists ((CFieldName (tok_text (f_name fl)) :: cs) ++ body). split.
        -- cbn [map]. rewrite Hw, Hom. unfold concat_res in *. cbn [fold_right]. rewrite E1. cbn [bind]. rewrite E2. reflexivity.
        -- intros rest0 n Hl. rewrite app_length in Hl. cbn [length] in Hl. destruct n as [|n]; [lia|].
           cbn [app pfields]. rewrite <- app_assoc. rewrite (P1 _ n) by lia. rewrite P2 by lia. reflexivity.
Qed.

Lemma rte2_struct : forall fs, rfs2 fs 0 = true -> distinct (names2 fs 0) = true -> AllF RTe2 fs -> RTe2 (TyStruct fs).
Proof.
  intros fs Hr Hd HRT h g fuel sm addr H Hok Hf. destruct fuel as [|f]; [lia|]. rewrite enc_unfold.
  destruct g as [| | | | | | | | | |l| | | | |]; try discriminate H.
  cbn [enc_body]. unfold enc_struct. rewrite (fields_for2 fs Hr Hd). cbn [bind]. rewrite (any_ann2 fs 0 Hr).
  unfold enc_fields. cbn [ok2] in Hok.
  destruct (enc_struct_loop2 fs l f sm addr) with (rest := fs) (i := 0%nat) (gs := l) as [body [E P]]; auto.
  - intros x Hx. cbn [gv_size] in Hf. pose proof (sum_ge l x Hx). lia.
  - rewrite E. cbn [bind]. exists ([CBeginStruct] ++ body ++ [CEndStruct]). split; [reflexivity|].
    cbn [ion2]. apply parses_struct. exact P.
Qed.

Theorem encode_ion2 : forall t, rty2 t = true -> RTe2 t.
Proof.
  apply (gty_mut (fun t => rty2 t = true -> RTe2 t) (fun fs => AllF (fun t => rty2 t = true -> RTe2 t) fs));
    try (intro Hx; discriminate Hx); try (intros; apply rte2_leaf; exact I).
  - intros _. apply rte2_string.
  - intros e IH H. apply rte2_slice. apply IH. exact H.
  - intros n e IH H. apply rte2_array. apply IH. exact H.
  - intros e IH H. apply rte2_map. apply IH. exact H.
  - intros e IH H. cbn [rty2] in H. apply andb_prop in H. destruct H as [H1 H2]. apply rte2_ptr. apply IH. exact H1.
  - intros _. apply rte2_iface.
  - intros fs IH H. cbn [rty2] in H. apply andb_prop in H. destruct H as [H1 H2]. apply rte2_struct; auto.
    eapply rfs2_all; eassumption.
  - exact I.
  - intros name ex emb tag ty IH1 rest IH2. cbn [AllF]. split; [intros _; exact IH1|exact IH2].
Qed.

(* ---- C16 on the wider sub-universe --------------------------------------------------------------------------------- *)
(* Unmarshal(Marshal(v)) with either map mode: sm = true is MarshalText (EncodeSortMaps), false is MarshalBinary *)
Definition roundtrip_sm (sm : bool) (t : gty) (g : gval) : res gval :=
  match encode sm t g TNoType with
  | Ok cs => match value_of cs with Some v => decode_to t v | None => Err end
  | Err => Err
  | Panic => Panic
  | OutOfFuel => OutOfFuel
  end.

Theorem roundtrip_sm_rty2 : forall sm t g, rty2 t = true -> has_type2 g t = true -> roundtrip_sm sm t g = Ok g.
Proof.
  intros sm t g Hr Hg2. unfold has_type2 in Hg2. apply andb_prop in Hg2. destruct Hg2 as [Hg Hok].
  unfold roundtrip_sm, encode.
  destruct (encode_ion2 t Hr TNoType g (enc_fuel g) sm false Hg Hok) as [cs [E P]]; [unfold enc_fuel; lia|].
  rewrite E.
  assert (Hv : value_of cs = Some (ion2 t TNoType g)).
  { unfold value_of, values_of. destruct (parses_head _ _ P) as [c [r [Ec Hc]]].
    replace (2 * length cs + 2)%nat with (S (S (2 * length cs))) by lia.
    specialize (P [] (S (2 * length cs))). rewrite app_nil_r in P.
    subst cs. cbn [pseq]. destruct c; try discriminate Hc; rewrite P by (cbn [length]; lia); reflexivity. }
  rewrite Hv. unfold decode_to. apply decode_ion2; [exact Hr|exact Hg|exact Hok|].
  unfold dec_fuel. pose proof (ty_depth_le_size t). lia.
Qed.

Theorem roundtrip_rty2 : forall t g, rty2 t = true -> has_type2 g t = true -> roundtrip t g = Ok g.
Proof. intros t g. exact (roundtrip_sm_rty2 true t g). Qed.

(* rty2 contains rty, and on rty there is no side condition except on... nothing: ok2 holds for every value *)
Lemma names2_rfs : forall fs i, rfs fs = true -> names2 fs i = ion_names fs.
Proof.
  induction fs as [|name ex emb tag ty rest IH]; intros i Hr; [reflexivity|].
  cbn [rfs] in Hr. repeat (apply andb_prop in Hr; destruct Hr as [Hr ?]).
  destruct ex; [|discriminate Hr]. apply negb_true_iff in H1.
  unfold names2 in *. cbn [fields2 ion_names]. unfold skipped. cbn [negb orb]. unfold tok_is.
  change (bytes_of_string "-") with [45]. rewrite H1. cbn [map]. rewrite IH by assumption. f_equal.
  rewrite fld_name. unfold parse_ion_tag. rewrite cut_comma_nocomma by exact H2. cbn [rev app fst].
  unfold field_ion_name. destruct tag; reflexivity.
Qed.
