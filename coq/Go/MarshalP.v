(* MarshalP.v — lemmas about the Marshal / Unmarshal models (Go/Encode.v, Go/Decode.v)
   against the specification-side definitions of Go/MarshalSpec.v. *)
From Coq Require Import String List NArith ZArith Bool Lia ZifyBool ZifyN ZifyNat.
From IonV Require Import Base.Wire Data.Ion Num.Float Bin.BinWriter
  Go.GoTypes Go.Fields Go.Encode Go.Decode Go.MarshalSpec.
Import ListNotations.
Open Scope N_scope.

(* Unmarshal(Marshal(v)) into a fresh zero value of the same static type (MarshalText: sorted maps) *)
Definition roundtrip (t : gty) (g : gval) : res gval :=
  match encode true t g TNoType with
  | Ok cs => match value_of cs with Some v => decode_to t v | None => Err end
  | Err => Err
  | Panic => Panic
  | OutOfFuel => OutOfFuel
  end.

Ltac range_consts :=
  repeat match goal with
         | |- context[ik_min ?k] => let v := eval vm_compute in (ik_min k) in change (ik_min k) with v
         | |- context[ik_max ?k] => let v := eval vm_compute in (ik_max k) in change (ik_max k) with v
         | H : context[ik_min ?k] |- _ => let v := eval vm_compute in (ik_min k) in change (ik_min k) with v in H
         | H : context[ik_max ?k] |- _ => let v := eval vm_compute in (ik_max k) in change (ik_max k) with v in H
         end.

(* ---- C17: integers ------------------------------------------------------------------ *)
Lemma dec_int_spec : forall k z, dec_int k z false = if in_range k z then Ok (GInt z) else Err.
Proof.
  intros k z. unfold dec_int, fits_int64, in_range, setv.
  destruct k; range_consts;
    change (2 ^ 63)%Z with 9223372036854775808%Z; change (2 ^ 64)%Z with 18446744073709551616%Z;
    repeat match goal with |- context[if ?c then _ else _] => destruct c eqn:? end; try reflexivity; lia.
Qed.

Lemma decode_int_exact : forall k z,
  decode_to (TyInt k) (VInt z) = if in_range k z then Ok (GInt z) else Err.
Proof. intros. exact (dec_int_spec k z). Qed.

Lemma decode_int_ok : forall k z g,
  decode_to (TyInt k) (VInt z) = Ok g -> g = GInt z /\ (ik_min k <= z <= ik_max k)%Z.
Proof.
  intros k z g H. rewrite decode_int_exact in H. destruct (in_range k z) eqn:E; inversion H.
  split; [reflexivity|]. unfold in_range in E. lia.
Qed.

Lemma decode_int_no_wrap : forall k z,
  (z < ik_min k \/ ik_max k < z)%Z -> decode_to (TyInt k) (VInt z) = Err.
Proof.
  intros k z H. rewrite decode_int_exact. destruct (in_range k z) eqn:E; [|reflexivity].
  unfold in_range in E. lia.
Qed.

Lemma decode_bigint_exact : forall z, decode_to TyBigInt (VInt z) = Ok (GBigInt z).
Proof. reflexivity. Qed.

(* ---- C17: floats, strings, bytes, bools ----------------------------------------------- *)
Lemma decode_f32_exact : forall b,
  decode_to TyF32 (VFloat b) = if overflow_f32 b then Err else Ok (GFloat (narrow b)).
Proof. intros. cbv [decode_to dec_fuel decto dec_body at_break is_null body_of dec_value zero ty_size val_size Nat.add Nat.mul setv].
  destruct (overflow_f32 b); reflexivity. Qed.
Lemma decode_f64_exact : forall b, decode_to TyF64 (VFloat b) = Ok (GFloat b).
Proof. reflexivity. Qed.
Lemma decode_string_exact : forall x, decode_to TyString (VString x) = Ok (GString x).
Proof. reflexivity. Qed.
Lemma decode_symbol_text : forall x, decode_to TyString (VSymbol (SymText x)) = Ok (GString x).
Proof. reflexivity. Qed.
Lemma decode_symbol_no_text_is_error : forall n, decode_to TyString (VSymbol (SymSid n)) = Err.
Proof. reflexivity. Qed.
Lemma decode_bytes_exact : forall b,
  decode_to (TySlice (TyInt U8)) (VBlob b) = Ok (GBytes (Some b)) /\
  decode_to (TySlice (TyInt U8)) (VClob b) = Ok (GBytes (Some b)).
Proof. split; reflexivity. Qed.
Lemma decode_bool_exact : forall b, decode_to TyBool (VBool b) = Ok (GBool b).
Proof. reflexivity. Qed.

Lemma finite_f32_ok_spec : forall b, finite_f32_ok b = negb (overflow_f32 b).
Proof.
  intros. unfold finite_f32_ok, overflow_f32, max_f32_as_f64, max_f64.
  set (a := b mod 2 ^ 63). lia.
Qed.

(* null of any type code stores the zero value of a scalar target *)
Lemma decode_scalar_null : forall t c, scalar_ty t = true -> decode_to t (VNull c) = Ok (zero t).
Proof.
  intros t c H. destruct t; try discriminate H; try reflexivity.
Qed.

(* ---- C17: the scalar matrix --------------------------------------------------------------- *)
Definition scalar_outcome_ok (t : gty) (v : value) : Prop :=
  match decode_to t v with
  | Ok g => (is_null v = true /\ g = zero t) \/ represents_scalar t g v = true
  | Err => True
  | Panic => False
  | OutOfFuel => False
  end.

Definition C17_scalar_faithful_stmt : Prop :=
  forall t v, scalar_ty t = true -> scalar_val v = true -> scalar_outcome_ok t v.

Lemma list_eqb_refl : forall l, list_eqb l l = true.
Proof. induction l; cbn; [reflexivity|]. rewrite N.eqb_refl. exact IHl. Qed.

Ltac slice_case Ht :=
  try match type of Ht with
      | scalar_ty (TySlice ?e) = true =>
        destruct e; try discriminate Ht;
        match type of Ht with scalar_ty (TySlice (TyInt ?k)) = true => destruct k; try discriminate Ht end
      end.
Ltac fin :=
  first [ exact I
        | right; cbn; rewrite ?Z.eqb_refl, ?N.eqb_refl, ?list_eqb_refl, ?Bool.eqb_reflx; reflexivity ].

Lemma scalar_faithful : C17_scalar_faithful_stmt.
Proof.
  intros t v Ht Hv. unfold scalar_outcome_ok.
  destruct v as [c|b|z|bits|d|body|y|x|cb|bb|l|l|l|a v']; try discriminate Hv.
  - rewrite decode_scalar_null by exact Ht. left. split; reflexivity.
  - destruct t; try discriminate Ht; slice_case Ht; fin.
  - destruct t; try discriminate Ht; slice_case Ht; try fin.
    rewrite decode_int_exact. destruct (in_range k z) eqn:E; [|exact I].
    right. cbn. rewrite Z.eqb_refl, E. reflexivity.
  - destruct t; try discriminate Ht; slice_case Ht; try fin.
    rewrite decode_f32_exact. destruct (overflow_f32 bits) eqn:E; [exact I|].
    right. cbn. rewrite finite_f32_ok_spec, E. cbn. apply N.eqb_refl.
  - destruct t; try discriminate Ht; slice_case Ht; fin.
  - destruct t; try discriminate Ht; slice_case Ht; fin.
  - destruct y as [x|n]; destruct t; try discriminate Ht; slice_case Ht; fin.
  - destruct t; try discriminate Ht; slice_case Ht; fin.
  - destruct t; try discriminate Ht; slice_case Ht; fin.
  - destruct t; try discriminate Ht; slice_case Ht; fin.
Qed.

(* a type mismatch between a scalar value and a scalar target is an error (or the known panic),
   never a zeroed or converted result *)
Definition same_class (t : gty) (v : value) : bool :=
  match v, t with
  | VNull _, _ => true
  | VBool _, TyBool => true
  | VInt _, TyInt _ | VInt _, TyBigInt => true
  | VFloat _, TyF32 | VFloat _, TyF64 | VFloat _, TyDecimal => true
  | VDecimal _, TyDecimal => true
  | VTimestamp _, TyTimestamp => true
  | VSymbol _, TyString | VString _, TyString => true
  | VClob _, TySlice _ | VBlob _, TySlice _ => true
  | _, _ => false
  end.

Lemma scalar_mismatch_is_error : forall t v,
  scalar_ty t = true -> scalar_val v = true -> same_class t v = false -> decode_to t v = Err.
Proof.
  intros t v Ht Hv Hc.
  destruct v; try discriminate Hv; try discriminate Hc;
    destruct t; try discriminate Ht; try discriminate Hc; slice_case Ht; try discriminate Hc; reflexivity.
Qed.

(* ---- C17: SymbolToken target, annotation wrappers ------------------------------------------------ *)
Lemma symtok_target_exact : forall y, decode_to TySymTok (VSymbol y) = Ok (GSymTok (tok_of_symv y)).
Proof. reflexivity. Qed.

(* the struct that the documentation of Unmarshal prescribes: struct { Value int; AnyName []string `ion:",annotations"` } *)
Definition doc_ann_struct : gty :=
  TyStruct (FCons (s "Value") true false [] (TyInt IInt)
           (FCons (s "AnyName") true false (s ",annotations") (TySlice TyString) FNil)).
Definition tok_ann_struct : gty :=
  TyStruct (FCons (s "Value") true false [] (TyInt IInt)
           (FCons (s "AnyName") true false (s ",annotations") (TySlice TySymTok) FNil)).
Lemma doc_annotations_ok :
  decode_to doc_ann_struct (VAnn [SymText (s "age")] (VInt 10)) =
  Ok (GStruct [GInt 10; GSlice (Some [GString (s "age")])]).
Proof. vm_compute. reflexivity. Qed.
Lemma doc_annotations_no_text_is_error :
  decode_to doc_ann_struct (VAnn [SymSid 0] (VInt 10)) = Err.
Proof. vm_compute. reflexivity. Qed.
Lemma tok_annotations_ok :
  decode_to tok_ann_struct (VAnn [SymText (s "age")] (VInt 10)) =
  Ok (GStruct [GInt 10; GSlice (Some [GSymTok (tok_text (s "age"))])]).
Proof. vm_compute. reflexivity. Qed.

(* ---- C17: Decoder over a stream ------------------------------------------------------------------ *)
Lemma decoder_stream_order : forall vs,
  length (decoder_stream vs) = length vs /\
  forall i, nth_error (decoder_stream vs) i = option_map decode_any (nth_error vs i).
Proof.
  intros. unfold decoder_stream. split; [apply map_length|].
  intro i. revert vs. induction i; destruct vs; cbn; auto.
Qed.

(* ---- C16: flat kinds ------------------------------------------------------------------------------- *)
Lemma roundtrip_int : forall k z, in_range k z = true -> roundtrip (TyInt k) (GInt z) = Ok (GInt z).
Proof.
  intros k z H.
  assert (E : roundtrip (TyInt k) (GInt z) = decode_to (TyInt k) (VInt z)) by (destruct k; reflexivity).
  rewrite E, decode_int_exact, H. reflexivity.
Qed.

Lemma roundtrip_flat : forall t g, flat_ty t = true -> has_type g t = true -> roundtrip t g = Ok g.
Proof.
  intros t g Ht Hg. destruct t; try discriminate Ht.
  - destruct g; try discriminate Hg. destruct b; reflexivity.
  - destruct g; try discriminate Hg. apply roundtrip_int. exact Hg.
  - destruct g; try discriminate Hg. reflexivity.
  - destruct g; try discriminate Hg. reflexivity.
  - destruct t; try discriminate Ht. destruct k; try discriminate Ht.
    destruct g; try discriminate Hg. destruct b; reflexivity.
Qed.

(* a non-nil pointer to a flat value survives, unless the pointee marshals to null *)
Lemma roundtrip_pointer : forall t g, flat_ty t = true -> has_type g t = true -> g <> GBytes None ->
  roundtrip (TyPtr t) (GPtr (Some g)) = Ok (GPtr (Some g)).
Proof.
  intros t g Ht Hg Hn. destruct t; try discriminate Ht.
  - destruct g; try discriminate Hg. destruct b; reflexivity.
  - destruct g; try discriminate Hg.
    assert (E : roundtrip (TyPtr (TyInt k)) (GPtr (Some (GInt z))) =
                (do y <- decode_to (TyInt k) (VInt z); Ok (GPtr (Some y)))) by (destruct k; reflexivity).
    rewrite E, decode_int_exact. cbn in Hg. rewrite Hg. reflexivity.
  - destruct g; try discriminate Hg. reflexivity.
  - destruct g; try discriminate Hg. reflexivity.
  - destruct t; try discriminate Ht. destruct k; try discriminate Ht.
    destruct g; try discriminate Hg. destruct b; [reflexivity|congruence].
Qed.

(* ---- C16: sorted map keys ---------------------------------------------------------------------------- *)
Lemma text_ltb_total : forall a b, text_ltb a b = false -> a <> b -> text_ltb b a = true.
Proof.
  induction a as [|x a IH]; destruct b as [|y b]; cbn; intros H Hne; try congruence.
  destruct (x <? y) eqn:E1; [discriminate|]. destruct (y <? x) eqn:E2; [reflexivity|].
  assert (x = y) by lia. subst y. apply IH; [exact H|congruence].
Qed.

Definition head_ok {A} (k : text) (l : list (text * A)) : Prop :=
  match l with [] => True | (k', _) :: _ => text_ltb k k' = true end.

Lemma keys_sorted_cons : forall {A} k (x : A) l,
  keys_sorted (map fst ((k, x) :: l)) = true <-> (head_ok k l /\ keys_sorted (map fst l) = true).
Proof.
  intros A k x l. destruct l as [|[k' y] r]; cbn [map fst keys_sorted head_ok].
  - split; auto.
  - rewrite Bool.andb_true_iff. reflexivity.
Qed.

Lemma insert_key_sorted : forall {A} k (x : A) l,
  keys_sorted (map fst l) = true -> ~ In k (map fst l) ->
  keys_sorted (map fst (insert_key k x l)) = true /\
  (forall k0, text_ltb k0 k = true -> head_ok k0 l -> head_ok k0 (insert_key k x l)).
Proof.
  intros A k x l. induction l as [|[k' y] r IH]; intros Hs Hn.
  - cbn. split; [reflexivity|]. intros k0 H _. exact H.
  - cbn [insert_key]. destruct (text_ltb k k') eqn:E.
    + split.
      * apply keys_sorted_cons. split; [exact E|exact Hs].
      * intros k0 H _. exact H.
    + apply keys_sorted_cons in Hs. destruct Hs as [Hh Hs].
      assert (Hne : k <> k') by (intro; subst; apply Hn; left; reflexivity).
      assert (Hn' : ~ In k (map fst r)) by (intro; apply Hn; right; assumption).
      destruct (IH Hs Hn') as [IH1 IH2]. split.
      * apply keys_sorted_cons. split; [|exact IH1].
        apply IH2; [apply text_ltb_total; assumption|exact Hh].
      * intros k0 _ H. exact H.
Qed.

Lemma sort_keys_sorted : forall {A} (l : list (text * A)),
  NoDup (map fst l) -> keys_sorted (map fst (sort_keys l)) = true.
Proof.
  intros A l. unfold sort_keys.
  assert (G : NoDup (map fst l) ->
              keys_sorted (map fst (fold_right (fun kv acc => insert_key (fst kv) (snd kv) acc) [] l)) = true /\
              forall k, In k (map fst (fold_right (fun kv acc => insert_key (fst kv) (snd kv) acc) [] l)) -> In k (map fst l)).
  { induction l as [|[k x] r IH]; intro Hd.
    - split; [reflexivity|]. intros k H; exact H.
    - inversion Hd as [|? ? Hnot Hd']; subst. destruct (IH Hd') as [I1 I2]. cbn [fold_right fst snd map]. split.
      + apply insert_key_sorted; [exact I1|]. intro H. apply Hnot. apply I2. exact H.
      + intros k0 H. clear - H I2.
        set (acc := fold_right (fun kv acc => insert_key (fst kv) (snd kv) acc) [] r) in *.
        assert (In k0 (k :: map fst acc)).
        { clear I2. induction acc as [|[k' y] a IHa]; cbn in H |- *.
          - exact H.
          - destruct (text_ltb k k'); cbn in H |- *; [exact H|].
            destruct H as [H|H]; [right; left; exact H|].
            destruct (IHa H) as [H'|H']; [left; exact H'|right; right; exact H']. }
        destruct H0 as [H0|H0]; [left; exact H0|right; apply I2; exact H0]. }
  intro Hd. exact (proj1 (G Hd)).
Qed.

(* with EncodeSortMaps the calls for a map are a function of the sorted association list only *)
Lemma encode_map_uses_sorted_keys : forall f e m h,
  encode_f (S f) true (TyMap e) (GMap (Some m)) false h =
  enc_map (encode_f f true) false e (sort_keys m) h.
Proof. intros. reflexivity. Qed.

(* ---- C16: formerly refuted shapes ------------------------------------------------------------------- *)
Lemma roundtrip_empty_slice :
  roundtrip (TySlice (TyInt IInt)) (GSlice (Some [])) = Ok (GSlice (Some [])).
Proof. vm_compute. reflexivity. Qed.
Lemma roundtrip_bigint : forall z, roundtrip TyBigInt (GBigInt z) = Ok (GBigInt z).
Proof. reflexivity. Qed.
Lemma roundtrip_decimal_value : forall d, roundtrip TyDecimal (GDecimal d) = Ok (GDecimal d).
Proof. reflexivity. Qed.
Definition ann_only_struct : gty :=
  TyStruct (FCons (s "A") true false (s ",annotations") (TySlice TySymTok) FNil).
Lemma annotation_only_struct_is_error :
  encode true ann_only_struct (GStruct [GSlice None]) TNoType = Err.
Proof. vm_compute. reflexivity. Qed.

(* the full-universe statement is still false: a pointer to a nil slice collapses (null is null) *)
Definition C16_roundtrip_all_stmt : Prop :=
  forall t g, wf_ty t = true -> has_type g t = true -> roundtrip t g = Ok g.
Lemma roundtrip_all_refuted_nested_nil : ~ C16_roundtrip_all_stmt.
Proof.
  intro H. specialize (H (TyPtr (TySlice (TyInt IInt))) (GPtr (Some (GSlice None))) eq_refl eq_refl).
  vm_compute in H. discriminate H.
Qed.
