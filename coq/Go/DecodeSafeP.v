(* DecodeSafeP.v — C17 on the plain sub-universe (Go/MarshalSpec.v [pty]): for every plain target
   type, every well-typed current content and every well-formed Ion value, decodeTo returns a
   well-typed value or an error; it never panics and [ty_depth t + 1] units of fuel suffice. *)
From Coq Require Import String List NArith ZArith Bool Lia ZifyBool ZifyN ZifyNat Arith.
From IonV Require Import Base.Wire Data.Ion Num.Float Bin.BinWriter
  Go.GoTypes Go.Fields Go.Encode Go.Decode Go.MarshalSpec Go.MarshalP.
Import ListNotations.
Open Scope N_scope.

Scheme gty_mut := Induction for gty Sort Prop
  with gfields_mut := Induction for gfields Sort Prop.

(* ---- typing of struct values -------------------------------------------------------------- *)
Lemma has_type_struct_cons : forall x r n e m tg ty rest,
  has_type (GStruct (x :: r)) (TyStruct (FCons n e m tg ty rest)) =
  has_type x ty && has_type (GStruct r) (TyStruct rest).
Proof. reflexivity. Qed.
Lemma has_type_struct_nil : forall fs, has_type (GStruct []) (TyStruct fs) = true -> fs = FNil.
Proof. intros fs H. destruct fs; [reflexivity|discriminate H]. Qed.

Lemma forallb_repeat : forall {A} (p : A -> bool) x n, p x = true -> forallb p (repeat x n) = true.
Proof. induction n; cbn; intros; [reflexivity|]. rewrite H. cbn. auto. Qed.

Lemma zero_has_type : forall t, has_type (zero t) t = true.
Proof.
  apply (gty_mut (fun t => has_type (zero t) t = true)
                 (fun fs => has_type (GStruct (zero_fields fs)) (TyStruct fs) = true));
    try reflexivity.
  - intro k. destruct k; reflexivity.
  - intros e IH. cbn [zero]. destruct (is_u8 e) eqn:E; cbn; rewrite E; reflexivity.
  - intros n e IH. cbn [zero has_type]. rewrite repeat_length, N2Nat.id, N.eqb_refl. cbn.
    apply forallb_repeat. exact IH.
  - intros fs IH. exact IH.
  - intros name ex emb tag ty IH1 rest IH2. cbn [zero_fields]. rewrite has_type_struct_cons, IH1, IH2. reflexivity.
Qed.

Lemma struct_nth : forall fs l i ft ex,
  has_type (GStruct l) (TyStruct fs) = true -> nth_field fs i = Some (ft, ex) ->
  exists fv, nth_error l i = Some fv /\ has_type fv ft = true.
Proof.
  induction fs as [|n e m tg ty rest IH]; intros l i ft ex H Hn.
  - destruct i; discriminate Hn.
  - destruct l as [|x r]; [discriminate H|]. rewrite has_type_struct_cons in H.
    apply andb_prop in H. destruct H as [H1 H2]. destruct i as [|j]; cbn in Hn.
    + inversion Hn; subst. exists x. split; [reflexivity|exact H1].
    + cbn. eapply IH; eauto.
Qed.

Lemma struct_set_nth : forall fs l i ft ex x,
  has_type (GStruct l) (TyStruct fs) = true -> nth_field fs i = Some (ft, ex) -> has_type x ft = true ->
  has_type (GStruct (set_nth l i x)) (TyStruct fs) = true.
Proof.
  induction fs as [|n e m tg ty rest IH]; intros l i ft ex x H Hn Hx.
  - destruct i; discriminate Hn.
  - destruct l as [|y r]; [discriminate H|]. rewrite has_type_struct_cons in H.
    apply andb_prop in H. destruct H as [H1 H2]. destruct i as [|j]; cbn in Hn; cbn [set_nth].
    + inversion Hn; subst. rewrite has_type_struct_cons, Hx, H2. reflexivity.
    + rewrite has_type_struct_cons, H1. cbn. eapply IH; eauto.
Qed.

(* ---- fields of a plain struct: every path is one exported, non-embedded field ------------------ *)
Definition path1 (fs : gfields) (f : field) : Prop :=
  exists i ft, f_path f = [i] /\ nth_field fs i = Some (ft, true).

Lemma setopts_path : forall opts f, f_path (setopts f opts) = f_path f.
Proof.
  intros opts f. unfold setopts. destruct opts; [reflexivity|].
  generalize (split_on 44 (n :: opts) []). intro l. revert f.
  induction l as [|o l IH]; intro f; cbn; [reflexivity|].
  rewrite IH. unfold setopt.
  repeat match goal with |- context[if ?c then _ else _] => destruct c end; reflexivity.
Qed.

Definition fields_out (FS : gfields) (r : res (list field)) : Prop :=
  match r with
  | Ok l => Forall (path1 FS) l
  | Err => True
  | Panic => False
  | OutOfFuel => False
  end.

Lemma inspect_plain : forall FS fs i acc,
  pfs fs = true ->
  (forall j, nth_field fs j = nth_field FS (i + j)%nat) ->
  Forall (path1 FS) acc ->
  fields_out FS (inspect fs [] i acc).
Proof.
  intros FS fs. induction fs as [|name ex emb tag ty rest IH]; intros i acc Hp Hn Hacc.
  - cbn. exact Hacc.
  - cbn [pfs] in Hp. apply andb_prop in Hp. destruct Hp as [Hp Hp4].
    apply andb_prop in Hp. destruct Hp as [Hp Hp3]. apply andb_prop in Hp. destruct Hp as [Hp1 Hp2].
    destruct ex; [|discriminate Hp1]. destruct emb; [discriminate Hp2|].
    assert (Hrest : forall j, nth_field rest j = nth_field FS (S i + j)%nat).
    { intro j. specialize (Hn (S j)). cbn in Hn. rewrite Hn. f_equal. lia. }
    cbn [inspect visible andb negb].
    destruct (tok_is tag "-"); [eapply IH; eauto|].
    destruct (parse_ion_tag tag) as [tn opts].
    assert (Hd : match tn with [] | _ => false end = false) by (destruct tn; reflexivity).
    cbn. rewrite Hd. unfold add_field.
    destruct (has_name match tn with [] => name | _ :: _ => tn end acc); [exact I|].
    cbn [bind]. eapply IH; [exact Hp4|exact Hrest|].
    apply Forall_app. split; [exact Hacc|]. constructor; [|constructor].
    exists i, ty. split.
    + rewrite setopts_path. reflexivity.
    + specialize (Hn O). cbn in Hn. rewrite Nat.add_0_r in Hn. symmetry. exact Hn.
Qed.

Lemma fields_for_plain : forall fs, pfs fs = true -> fields_out fs (fields_for (TyStruct fs)).
Proof.
  intros fs Hp. cbn [fields_for]. apply (inspect_plain fs fs 0 []); auto.
Qed.

Lemma pfs_nth : forall fs i ft ex, pfs fs = true -> nth_field fs i = Some (ft, ex) -> pty ft = true /\ ex = true.
Proof.
  induction fs as [|n e m tg ty rest IH]; intros i ft ex Hp Hn.
  - destruct i; discriminate Hn.
  - cbn [pfs] in Hp. apply andb_prop in Hp. destruct Hp as [Hp Hp4].
    apply andb_prop in Hp. destruct Hp as [Hp Hp3]. apply andb_prop in Hp. destruct Hp as [Hp1 Hp2].
    destruct i as [|j]; cbn in Hn.
    + inversion Hn; subst. auto.
    + eapply IH; eauto.
Qed.

Lemma fs_depth_nth : forall fs i ft ex, nth_field fs i = Some (ft, ex) -> (ty_depth ft <= fs_depth fs)%nat.
Proof.
  induction fs as [|n e m tg ty rest IH]; intros i ft ex Hn.
  - destruct i; discriminate Hn.
  - destruct i as [|j]; cbn in Hn; cbn [fs_depth].
    + inversion Hn; subst. lia.
    + specialize (IH _ _ _ Hn). lia.
Qed.

(* ---- float32 narrowing stays within 32 bits ------------------------------------------------------ *)
Lemma lor_quiet_lt : forall x, x < 2 ^ 23 -> N.lor 4194304 x < 2 ^ 23.
Proof.
  intros x H. apply N.log2_lt_pow2.
  - destruct (N.lor 4194304 x) eqn:E; [apply N.lor_eq_0_l in E; discriminate E|lia].
  - rewrite N.log2_lor. change (N.log2 4194304) with 22.
    destruct (N.eq_dec x 0) as [->|Hx]; [cbn; lia|].
    assert (N.log2 x < 23) by (apply N.log2_lt_pow2; lia). lia.
Qed.

Lemma rne_shr_le : forall x sh, rne_shr x sh <= x / 2 ^ sh + 1.
Proof.
  intros x sh. unfold rne_shr. destruct (sh =? 0) eqn:E.
  - apply N.eqb_eq in E. subst sh. change (2 ^ 0) with 1. rewrite N.div_1_r. lia.
  - destruct ((2 ^ (sh - 1) <? x mod 2 ^ sh) || ((x mod 2 ^ sh =? 2 ^ (sh - 1)) && N.odd (x / 2 ^ sh))); lia.
Qed.

Lemma narrow_lt : forall b, b < 2 ^ 64 -> narrow b < 2 ^ 32.
Proof.
  intros b Hb. unfold narrow.
  assert (Hs : f64_sign b * 2 ^ 31 <= 2 ^ 31).
  { unfold f64_sign. assert (b / 2 ^ 63 < 2) by (apply N.div_lt_upper_bound; lia). nia. }
  assert (Hm : f64_man b < 2 ^ 52) by (unfold f64_man; apply N.mod_lt; lia).
  change (2 ^ 31) with 2147483648 in *. change (2 ^ 32) with 4294967296.
  destruct (f64_exp b =? 2047) eqn:E1.
  - destruct (f64_man b =? 0); [lia|].
    assert (f64_man b / 2 ^ 29 < 2 ^ 23) by (apply N.div_lt_upper_bound; [lia|]; change (2 ^ 29 * 2 ^ 23) with (2 ^ 52); exact Hm).
    pose proof (lor_quiet_lt _ H). change (2 ^ 23) with 8388608 in *. lia.
  - destruct (f64_exp b =? 0); [lia|].
    destruct (897 <=? f64_exp b) eqn:E3.
    + match goal with |- context[if ?c then _ else _] => destruct c eqn:E4 end; lia.
    + apply N.leb_gt in E3.
      pose proof (rne_shr_le (2 ^ 52 + f64_man b) (29 + (897 - f64_exp b))) as R.
      assert ((2 ^ 52 + f64_man b) / 2 ^ (29 + (897 - f64_exp b)) <= 2 ^ 23).
      { apply N.lt_le_incl. apply N.div_lt_upper_bound; [apply N.pow_nonzero; lia|].
        assert (2 ^ 30 <= 2 ^ (29 + (897 - f64_exp b))) by (apply N.pow_le_mono_r; lia).
        change (2 ^ 30) with 1073741824 in *. change (2 ^ 23) with 8388608. change (2 ^ 52) with 4503599627370496 in *. nia. }
      change (2 ^ 23) with 8388608 in *. lia.
Qed.

(* ---- the safety statement ---------------------------------------------------------------------------- *)
Definition Safe (t : gty) : Prop :=
  forall fuel cur v, (ty_depth t < fuel)%nat -> has_type cur t = true -> wfv v = true ->
    safe_out t (decto fuel t cur false v).

Lemma dec_unfold : forall f t cur ro v, decto (S f) t cur ro v = dec_body (decto f) t cur ro v.
Proof. reflexivity. Qed.

Lemma wfv_body : forall v, wfv v = true ->
  wfv (body_of v) = true /\ (forall a x, body_of v <> VAnn a x).
Proof.
  intros v H. destruct v; cbn [body_of]; try (split; [exact H|discriminate]).
  cbn [wfv] in H. apply andb_prop in H. destruct H as [H1 H2]. split; [exact H2|].
  intros a0 x E. subst v. discriminate H1.
Qed.

Definition leaf_ty (t : gty) : bool :=
  match t with
  | TyBool | TyInt _ | TyF32 | TyF64 | TyString | TyTimestamp | TyDecimal | TyBigInt | TyTime | TySymTok => true
  | _ => false
  end.

Ltac leaf_case Hb :=
  cbv beta iota;
  first
    [ exact I
    | match goal with
      | |- safe_out (TyInt ?k) (dec_int ?k ?z false) =>
        rewrite dec_int_spec; destruct (in_range k z) eqn:Er; [exact Er|exact I]
      | |- safe_out TyF32 (if overflow_f32 ?b then _ else _) =>
        destruct (overflow_f32 b); [exact I|];
        unfold setv, safe_out, has_type; apply N.ltb_lt; apply narrow_lt; apply N.ltb_lt; exact Hb
      | |- safe_out TyF64 (setv false (GFloat ?b)) => exact Hb
      | |- safe_out TyString (match symv_text ?y with _ => _ end) => destruct y; cbn; first [exact I|reflexivity]
      end
    | cbn; first [exact I | reflexivity] ].

Lemma safe_leaf : forall t, leaf_ty t = true -> Safe t.
Proof.
  intros t Hl fuel cur v Hf Hc Hv. destruct fuel as [|f]; [lia|]. rewrite dec_unfold.
  destruct (wfv_body v Hv) as [Hb Hna].
  destruct t; try discriminate Hl; unfold dec_body, at_break; cbn [andb];
    (destruct (is_null v) eqn:Hn; [first [vm_compute; reflexivity | destruct k; vm_compute; reflexivity]|]);
    unfold dec_value; unfold is_null in Hn;
    destruct (body_of v) eqn:E; try discriminate Hn; try (exfalso; eapply Hna; reflexivity);
    cbn [wfv] in Hb; leaf_case Hb.
Qed.

(* ---- containers ------------------------------------------------------------------------------------------ *)
Lemma safe_bind : forall t1 t2 (r : res gval) (k : gval -> res gval),
  safe_out t1 r -> (forall y, has_type y t1 = true -> safe_out t2 (k y)) -> safe_out t2 (do y <- r; k y).
Proof. intros t1 t2 r k H1 H2. destruct r; cbn in *; auto. Qed.

Lemma is_u8_eq : forall e, is_u8 e = true -> e = TyInt U8.
Proof. intros e H. destruct e; try discriminate H. destruct k; try discriminate H. reflexivity. Qed.

Lemma bytes_of_u8 : forall out, forallb (fun x => has_type x (TyInt U8)) out = true ->
  forallb byte_ok (map (fun g => match g with GInt z => Z.to_N z | _ => 0 end) out) = true.
Proof.
  induction out as [|x r IH]; cbn [forallb map]; intro H; [reflexivity|].
  apply andb_prop in H. destruct H as [H1 H2]. rewrite (IH H2), andb_true_r.
  destruct x; try discriminate H1. cbn in H1. unfold byte_ok. unfold in_range in H1.
  change (ik_min U8) with 0%Z in H1. change (ik_max U8) with 255%Z in H1. lia.
Qed.
Lemma u8_of_bytes : forall o, forallb byte_ok o = true ->
  forallb (fun x => has_type x (TyInt U8)) (map (fun x => GInt (Z.of_N x)) o) = true.
Proof.
  induction o as [|x r IH]; cbn [forallb map]; intro H; [reflexivity|].
  apply andb_prop in H. destruct H as [H1 H2]. rewrite (IH H2), andb_true_r.
  cbn. unfold in_range, byte_ok in *. change (ik_min U8) with 0%Z. change (ik_max U8) with 255%Z. lia.
Qed.

Lemma forallb_rev : forall {A} (p : A -> bool) l, forallb p (rev l) = forallb p l.
Proof.
  intros A p l. induction l as [|x r IH]; [reflexivity|]. cbn [rev forallb].
  rewrite forallb_app, IH. cbn. rewrite andb_true_r. apply andb_comm.
Qed.

Lemma slice_result_typed : forall e out, forallb (fun x => has_type x e) out = true ->
  safe_out (TySlice e)
    (if is_u8 e then Ok (GBytes (Some (map (fun g => match g with GInt z => Z.to_N z | _ => 0 end) out)))
     else Ok (GSlice (Some out))).
Proof.
  intros e out H. destruct (is_u8 e) eqn:E; cbn [safe_out has_type]; rewrite E; cbn [andb negb].
  - apply is_u8_eq in E. subst e. apply bytes_of_u8. exact H.
  - exact H.
Qed.

Lemma slice_elems_safe : forall e f, Safe e -> (ty_depth e < f)%nat ->
  forall l old acc isnil cur,
  forallb wfv l = true ->
  forallb (fun x => has_type x e) old = true -> forallb (fun x => has_type x e) acc = true ->
  safe_out (TySlice e) (dec_slice_elems (decto f) e false isnil cur l old acc).
Proof.
  intros e f IH Hf. induction l as [|x r IHl]; intros old acc isnil cur Hl Ho Ha.
  - cbn [dec_slice_elems andb].
    assert (Hr : forallb (fun x => has_type x e) (rev acc) = true) by (rewrite forallb_rev; exact Ha).
    destruct (rev acc) as [|y out] eqn:E.
    + destruct isnil.
      * destruct (is_u8 e) eqn:Eu; cbn; rewrite Eu; reflexivity.
      * apply (slice_result_typed e []). reflexivity.
    + destruct isnil; apply (slice_result_typed e (y :: out)); exact Hr.
  - cbn [dec_slice_elems andb]. cbn [forallb] in Hl. apply andb_prop in Hl. destruct Hl as [Hx Hr].
    eapply safe_bind.
    + apply IH; [exact Hf| |exact Hx].
      destruct old as [|c o]; [apply zero_has_type|]. cbn in Ho. apply andb_prop in Ho. tauto.
    + intros y Hy. apply IHl; [exact Hr| |cbn; rewrite Hy; exact Ha].
      destruct old as [|c o]; [reflexivity|]. cbn in Ho. apply andb_prop in Ho. tauto.
Qed.

Ltac not_struct_kind := unfold or_wrapper; cbn [is_struct_kind]; exact I.

Lemma safe_slice : forall e, Safe e -> Safe (TySlice e).
Proof.
  intros e IH fuel cur v Hf Hc Hv. destruct fuel as [|f]; [lia|]. rewrite dec_unfold.
  cbn [ty_depth] in Hf. assert (Hf' : (ty_depth e < f)%nat) by lia.
  destruct (wfv_body v Hv) as [Hb Hna].
  unfold dec_body, at_break; cbn [andb].
  destruct (is_null v) eqn:Hn.
  - cbn [is_struct_kind]. apply (zero_has_type (TySlice e)).
  - unfold dec_value; unfold is_null in Hn.
    destruct (body_of v) eqn:E; try discriminate Hn; try (exfalso; eapply Hna; reflexivity);
      cbv beta iota; cbn [wfv] in Hb; try not_struct_kind.
    + destruct (is_u8 e) eqn:Eu; [|exact I]. cbn. rewrite Eu. exact Hb.
    + destruct (is_u8 e) eqn:Eu; [|exact I]. cbn. rewrite Eu. exact Hb.
    + apply slice_elems_safe; auto.
      destruct cur as [| | | |ob|ol| | | | | | | | | |]; try reflexivity.
      * destruct ob as [o|]; [|reflexivity]. cbn in Hc. apply andb_prop in Hc. destruct Hc as [Hu Ho].
        apply is_u8_eq in Hu. subst e. apply u8_of_bytes. exact Ho.
      * destruct ol as [o|]; [|reflexivity]. cbn in Hc. apply andb_prop in Hc. tauto.
    + apply slice_elems_safe; auto.
      destruct cur as [| | | |ob|ol| | | | | | | | | |]; try reflexivity.
      * destruct ob as [o|]; [|reflexivity]. cbn in Hc. apply andb_prop in Hc. destruct Hc as [Hu Ho].
        apply is_u8_eq in Hu. subst e. apply u8_of_bytes. exact Ho.
      * destruct ol as [o|]; [|reflexivity]. cbn in Hc. apply andb_prop in Hc. tauto.
Qed.

Lemma array_typed : forall n e l, length l = N.to_nat n -> forallb (fun x => has_type x e) l = true ->
  has_type (GArr l) (TyArray n e) = true.
Proof. intros n e l Hl H. cbn [has_type]. rewrite Hl, N2Nat.id, N.eqb_refl, H. reflexivity. Qed.

Lemma array_elems_safe : forall n e f, Safe e -> (ty_depth e < f)%nat ->
  forall l old acc,
  forallb wfv l = true ->
  forallb (fun x => has_type x e) old = true -> forallb (fun x => has_type x e) acc = true ->
  (length acc + length old = N.to_nat n)%nat ->
  safe_out (TyArray n e) (dec_array_elems (decto f) e false l old acc).
Proof.
  intros n e f IH Hf. induction l as [|x r IHl]; intros old acc Hl Ho Ha Hlen.
  - destruct old as [|c o]; cbn [dec_array_elems].
    + apply array_typed; [rewrite rev_length; cbn [length] in Hlen; lia|rewrite forallb_rev; exact Ha].
    + apply array_typed.
      * rewrite app_length, rev_length, map_length. exact Hlen.
      * rewrite forallb_app, forallb_rev, Ha. cbn [andb].
        clear. induction (c :: o) as [|y t IHt]; cbn; [reflexivity|]. rewrite zero_has_type. exact IHt.
  - destruct old as [|c o]; cbn [dec_array_elems].
    + apply array_typed; [rewrite rev_length; cbn [length] in Hlen; lia|rewrite forallb_rev; exact Ha].
    + cbn [forallb] in Hl, Ho. apply andb_prop in Hl. apply andb_prop in Ho. destruct Hl as [Hx Hr]. destruct Ho as [Hc Ho].
      eapply safe_bind; [apply IH; [exact Hf|exact Hc|exact Hx]|].
      intros y Hy. apply IHl; [exact Hr|exact Ho|cbn; rewrite Hy; exact Ha|cbn in *; lia].
Qed.

Lemma take_bytes_spec : forall n b, forallb byte_ok b = true ->
  length (take_bytes n b) = n /\ forallb (fun x => has_type x (TyInt U8)) (take_bytes n b) = true.
Proof.
  induction n as [|n IH]; intros b Hb; [split; reflexivity|].
  destruct b as [|x r]; cbn [take_bytes].
  - destruct (IH [] eq_refl) as [I1 I2]. split; [cbn; rewrite I1; reflexivity|]. cbn [forallb]. rewrite I2. reflexivity.
  - cbn [forallb] in Hb. apply andb_prop in Hb. destruct Hb as [Hx Hr]. destruct (IH r Hr) as [I1 I2].
    split; [cbn; rewrite I1; reflexivity|]. cbn [forallb]. rewrite I2, andb_true_r.
    cbn. unfold in_range, byte_ok in *. change (ik_min U8) with 0%Z. change (ik_max U8) with 255%Z. lia.
Qed.

Lemma safe_array : forall n e, Safe e -> Safe (TyArray n e).
Proof.
  intros n e IH fuel cur v Hf Hc Hv. destruct fuel as [|f]; [lia|]. rewrite dec_unfold.
  cbn [ty_depth] in Hf. assert (Hf' : (ty_depth e < f)%nat) by lia.
  destruct (wfv_body v Hv) as [Hb Hna].
  unfold dec_body, at_break; cbn [andb].
  destruct (is_null v) eqn:Hn.
  - cbn [is_struct_kind]. apply (zero_has_type (TyArray n e)).
  - assert (Hcur : exists o, cur = GArr o /\ length o = N.to_nat n /\ forallb (fun x => has_type x e) o = true).
    { destruct cur; try discriminate Hc. cbn in Hc. apply andb_prop in Hc. destruct Hc as [H1 H2].
      exists l. split; [reflexivity|]. split; [|exact H2]. apply N.eqb_eq in H1. lia. }
    destruct Hcur as [o [-> [Hlen Ho]]].
    unfold dec_value; unfold is_null in Hn.
    destruct (body_of v) eqn:E; try discriminate Hn; try (exfalso; eapply Hna; reflexivity);
      cbv beta iota; cbn [wfv] in Hb; try not_struct_kind.
    + destruct (is_u8 e) eqn:Eu; [|exact I]. apply is_u8_eq in Eu. subst e.
      destruct (take_bytes_spec (N.to_nat n) b Hb) as [T1 T2]. apply array_typed; assumption.
    + destruct (is_u8 e) eqn:Eu; [|exact I]. apply is_u8_eq in Eu. subst e.
      destruct (take_bytes_spec (N.to_nat n) b Hb) as [T1 T2]. apply array_typed; assumption.
    + apply array_elems_safe; auto.
    + apply array_elems_safe; auto.
Qed.

Lemma safe_ptr : forall e, Safe e -> Safe (TyPtr e).
Proof.
  intros e IH fuel cur v Hf Hc Hv. destruct fuel as [|f]; [lia|]. rewrite dec_unfold.
  cbn [ty_depth] in Hf. assert (Hf' : (ty_depth e < f)%nat) by lia.
  destruct cur as [| | | | | | | |p| | | | | | |]; try discriminate Hc.
  unfold dec_body. cbn [negb].
  match goal with |- context[if ?c then _ else _] => destruct c eqn:Ec end.
  - unfold at_break. cbn [andb]. apply andb_prop in Ec. destruct Ec as [Ec _]. apply andb_prop in Ec. destruct Ec as [_ Ec].
    rewrite Ec. cbn [is_struct_kind]. reflexivity.
  - destruct p as [y|]; cbn [safe_out].
    + eapply safe_bind; [apply IH; [exact Hf'|exact Hc|exact Hv]|]. intros y' Hy. exact Hy.
    + eapply safe_bind; [apply IH; [exact Hf'|apply zero_has_type|exact Hv]|]. intros y' Hy. exact Hy.
Qed.

(* ---- maps: SetMapIndex keeps the association list sorted and typed ------------------------------------------- *)
Lemma list_eqb_eq : forall a b, list_eqb a b = true -> a = b.
Proof.
  induction a as [|x a IH]; destruct b as [|y b]; cbn; intro H; try discriminate H; [reflexivity|].
  apply andb_prop in H. destruct H as [H1 H2]. apply N.eqb_eq in H1. subst y. f_equal. apply IH. exact H2.
Qed.

Lemma map_set_sorted : forall k x l,
  keys_sorted (map fst l) = true ->
  keys_sorted (map fst (map_set k x l)) = true /\
  (forall k0, text_ltb k0 k = true -> head_ok k0 l -> head_ok k0 (map_set k x l)).
Proof.
  intros k x l. induction l as [|[k' y] r IH]; intro Hs.
  - cbn. split; [reflexivity|]. intros k0 H _. exact H.
  - cbn [map_set]. destruct (list_eqb k k') eqn:Ee.
    + apply list_eqb_eq in Ee. subst k'. split.
      * apply keys_sorted_cons. apply keys_sorted_cons in Hs. exact Hs.
      * intros k0 H _. exact H.
    + destruct (text_ltb k k') eqn:El.
      * split; [apply keys_sorted_cons; split; [exact El|exact Hs]|]. intros k0 H _. exact H.
      * apply keys_sorted_cons in Hs. destruct Hs as [Hh Hs]. destruct (IH Hs) as [I1 I2].
        assert (Hne : k <> k') by (intro; subst; rewrite list_eqb_refl in Ee; discriminate Ee).
        split.
        -- apply keys_sorted_cons. split; [|exact I1]. apply I2; [apply text_ltb_total; assumption|exact Hh].
        -- intros k0 _ H. exact H.
Qed.

Lemma map_set_typed : forall e k x l,
  forallb (fun kv : text * gval => has_type (snd kv) e) l = true -> has_type x e = true ->
  forallb (fun kv : text * gval => has_type (snd kv) e) (map_set k x l) = true.
Proof.
  intros e k x l. induction l as [|[k' y] r IH]; intros Hl Hx; cbn [map_set forallb snd].
  - rewrite Hx. reflexivity.
  - cbn [forallb snd] in Hl. apply andb_prop in Hl. destruct Hl as [Hy Hr].
    destruct (list_eqb k k'); [cbn [forallb snd]; rewrite Hx; exact Hr|].
    destruct (text_ltb k k'); cbn [forallb snd]; [rewrite Hx, Hy; exact Hr|]. rewrite Hy. apply IH; assumption.
Qed.

Lemma map_fields_safe : forall e f, Safe e -> (ty_depth e < f)%nat ->
  forall l m,
  forallb (fun kv : symv * value => wfv (snd kv)) l = true ->
  keys_sorted (map fst m) = true -> forallb (fun kv : text * gval => has_type (snd kv) e) m = true ->
  safe_out (TyMap e) (dec_map_fields (decto f) e false l m).
Proof.
  intros e f IH Hf. induction l as [|[y x] r IHl]; intros m Hl Hs Ht.
  - cbn. rewrite Hs, Ht. reflexivity.
  - cbn [forallb snd] in Hl. apply andb_prop in Hl. destruct Hl as [Hx Hr].
    destruct y as [k|n]; cbn [dec_map_fields]; [|apply IHl; assumption].
    eapply safe_bind; [apply IH; [exact Hf|apply zero_has_type|exact Hx]|].
    intros sub Hsub. apply IHl; [exact Hr|apply map_set_sorted; exact Hs|apply map_set_typed; assumption].
Qed.

Lemma safe_map : forall e, Safe e -> Safe (TyMap e).
Proof.
  intros e IH fuel cur v Hf Hc Hv. destruct fuel as [|f]; [lia|]. rewrite dec_unfold.
  cbn [ty_depth] in Hf. assert (Hf' : (ty_depth e < f)%nat) by lia.
  destruct (wfv_body v Hv) as [Hb Hna].
  unfold dec_body, at_break; cbn [andb].
  destruct (is_null v) eqn:Hn.
  - cbn [is_struct_kind]. reflexivity.
  - unfold dec_value; unfold is_null in Hn.
    destruct (body_of v) eqn:E; try discriminate Hn; try (exfalso; eapply Hna; reflexivity);
      cbv beta iota; cbn [wfv] in Hb; try not_struct_kind.
    destruct cur as [| | | | | | |om| | | | | | | |]; try discriminate Hc.
    destruct om as [m|]; cbn [bind].
    + cbn in Hc. apply andb_prop in Hc. destruct Hc as [H1 H2]. apply map_fields_safe; auto.
    + apply map_fields_safe; auto.
Qed.

(* ---- structs ---------------------------------------------------------------------------------------------------- *)
Definition SafeFields (fs : gfields) : Prop :=
  forall i ft ex, nth_field fs i = Some (ft, ex) -> Safe ft.

Lemma upd_path1 : forall fs l ro i ft ex k fv,
  nth_field fs i = Some (ft, ex) -> nth_error l i = Some fv ->
  upd_path (TyStruct fs) (GStruct l) ro [i] k = (do fv' <- k ft fv (negb ex); Ok (GStruct (set_nth l i fv'))).
Proof. intros. cbn [upd_path]. rewrite H, H0. reflexivity. Qed.

Lemma upd_safe : forall fs l f k,
  has_type (GStruct l) (TyStruct fs) = true -> path1 fs f ->
  (forall i ft fv, nth_field fs i = Some (ft, true) -> has_type fv ft = true -> safe_out ft (k ft fv false)) ->
  safe_out (TyStruct fs) (upd_path (TyStruct fs) (GStruct l) false (f_path f) k).
Proof.
  intros fs l f k Hl [i [ft [Hp Hn]]] Hk. rewrite Hp.
  destruct (struct_nth _ _ _ _ _ Hl Hn) as [fv [Hfv Hty]].
  rewrite (upd_path1 _ _ _ _ _ _ _ _ Hn Hfv). cbn [negb].
  eapply safe_bind; [apply (Hk i); eassumption|].
  intros y Hy. eapply struct_set_nth; eassumption.
Qed.

Lemma anns_val_typed : forall a, has_type (anns_val a) (TySlice TySymTok) = true.
Proof.
  intro a. destruct a as [|y r]; [reflexivity|]. unfold anns_val. cbn [has_type is_u8 negb andb].
  induction (y :: r) as [|z t IH]; cbn; [reflexivity|exact IH].
Qed.
Lemma ann_texts_typed : forall a l, ann_texts a = Some l -> forallb (fun x => has_type x TyString) l = true.
Proof.
  induction a as [|y r IH]; intros l H; cbn in H.
  - inversion H. reflexivity.
  - destruct y as [x|n]; [|discriminate H]. destruct (ann_texts r) as [l'|]; [|discriminate H].
    inversion H. cbn. apply IH. reflexivity.
Qed.
Lemma ann_field_val_typed : forall ft a, safe_out ft (ann_field_val ft a).
Proof.
  intros ft a. destruct ft; try exact I.
  - destruct ft; try exact I; cbn [ann_field_val].
    + destruct a as [|y r]; [reflexivity|]. destruct (ann_texts (y :: r)) as [l|] eqn:E; [|exact I].
      cbn. eapply ann_texts_typed. exact E.
    + apply anns_val_typed.
  - cbn. apply anns_val_typed.
Qed.

Lemma first_ann_in : forall l f, first_ann l = Some f -> In f l.
Proof.
  induction l as [|x r IH]; intros f H; [discriminate H|]. cbn in H.
  destruct (f_ann x); [inversion H; left; reflexivity|right; apply IH; exact H].
Qed.
Lemma first_non_ann_in : forall l f, first_non_ann l = Some f -> In f l.
Proof.
  induction l as [|x r IH]; intros f H; [discriminate H|]. cbn in H.
  destruct (f_ann x); [right; apply IH; exact H|inversion H; left; reflexivity].
Qed.
Lemma find_field_go_in : forall l name acc r,
  find_field_go l name acc = Some r -> In r l \/ acc = Some r.
Proof.
  induction l as [|x t IH]; intros name acc r H; cbn in H; [right; exact H|].
  destruct (list_eqb (f_name x) name); [inversion H; left; left; reflexivity|].
  apply IH in H. destruct H as [H|H]; [left; right; exact H|].
  destruct acc as [a|]; [right; exact H|].
  destruct (fold_eqb (f_name x) name); [inversion H; left; left; reflexivity|discriminate H].
Qed.

Lemma attach_ann_safe : forall fs l a,
  pfs fs = true -> has_type (GStruct l) (TyStruct fs) = true ->
  safe_out (TyStruct fs) (attach_ann (TyStruct fs) (GStruct l) false a).
Proof.
  intros fs l a Hp Hl. unfold attach_ann. pose proof (fields_for_plain fs Hp) as Hf.
  destruct (fields_for (TyStruct fs)) as [fields| | |]; cbn [fields_out bind] in *; try exact I; try contradiction.
  destruct (first_ann fields) as [f|] eqn:E; [|exact Hl].
  apply upd_safe; [exact Hl|eapply Forall_forall; [exact Hf|apply first_ann_in; exact E]|].
  intros i ft fv _ _. eapply safe_bind; [apply ann_field_val_typed|]. intros g Hg. exact Hg.
Qed.

Lemma struct_of_type : forall cur fs, has_type cur (TyStruct fs) = true -> exists l, cur = GStruct l.
Proof. intros cur fs H. destruct cur; try discriminate H. eexists. reflexivity. Qed.

Lemma wrapper_safe : forall fs f l v c,
  pfs fs = true -> SafeFields fs -> (fs_depth fs < f)%nat ->
  has_type (GStruct l) (TyStruct fs) = true -> wfv v = true ->
  safe_out (TyStruct fs) (wrapper (decto f) (TyStruct fs) (GStruct l) false v c).
Proof.
  intros fs f l v c Hp HS Hd Hl Hv. unfold wrapper. pose proof (fields_for_plain fs Hp) as Hf.
  destruct (fields_for (TyStruct fs)) as [fields| | |]; cbn [fields_out bind] in *; try exact I; try contradiction.
  destruct fields as [|f1 [|f2 [|f3 r]]]; try exact I.
  assert (H1 : path1 fs f1) by (inversion Hf; assumption).
  assert (H2 : path1 fs f2) by (inversion Hf as [|? ? ? Hf']; inversion Hf'; assumption).
  eapply safe_bind; [apply upd_safe; [exact Hl|exact H1|]; intros i ft fv _ Hfv; exact Hfv|].
  intros cur1 Hc1. destruct (struct_of_type _ _ Hc1) as [l1 ->].
  eapply safe_bind; [apply upd_safe; [exact Hc1|exact H2|]; intros i ft fv _ Hfv; exact Hfv|].
  intros cur2 Hc2. destruct (struct_of_type _ _ Hc2) as [l2 ->].
  match goal with |- context[if ?cnd then _ else _] => destruct cnd end; [|exact I].
  eapply safe_bind; [apply attach_ann_safe; assumption|].
  intros cur3 Hc3. destruct (struct_of_type _ _ Hc3) as [l3 ->].
  destruct (first_non_ann [f1; f2]) as [fl|] eqn:E; [|exact Hc3].
  apply upd_safe; [exact Hc3|eapply Forall_forall; [exact Hf|apply first_non_ann_in; exact E]|].
  intros i ft fv Hn Hfv. apply (HS i ft true Hn); [|exact Hfv|exact Hv].
  pose proof (fs_depth_nth _ _ _ _ Hn). lia.
Qed.

Lemma struct_fields_safe : forall fs f fields,
  pfs fs = true -> SafeFields fs -> (fs_depth fs < f)%nat -> Forall (path1 fs) fields ->
  forall ls l,
  forallb (fun kv : symv * value => wfv (snd kv)) ls = true ->
  has_type (GStruct l) (TyStruct fs) = true ->
  safe_out (TyStruct fs) (dec_struct_fields (decto f) (TyStruct fs) false fields ls (GStruct l)).
Proof.
  intros fs f fields Hp HS Hd Hf. induction ls as [|[y x] r IH]; intros l Hls Hl; [exact Hl|].
  cbn [forallb snd] in Hls. apply andb_prop in Hls. destruct Hls as [Hx Hr].
  destruct y as [k|n]; cbn [dec_struct_fields]; [|apply IH; assumption].
  destruct (find_field_by fields k) as [fl|] eqn:E; [|apply IH; assumption].
  assert (Hin : In fl fields).
  { unfold find_field_by in E. apply find_field_go_in in E. destruct E as [E|E]; [exact E|discriminate E]. }
  eapply safe_bind.
  - apply upd_safe; [exact Hl|eapply Forall_forall; eassumption|].
    intros i ft fv Hn Hfv. apply (HS i ft true Hn); [|exact Hfv|exact Hx].
    pose proof (fs_depth_nth _ _ _ _ Hn). lia.
  - intros c' Hc'. destruct (struct_of_type _ _ Hc') as [l' ->]. apply IH; assumption.
Qed.

Lemma safe_struct : forall fs, pfs fs = true -> SafeFields fs -> Safe (TyStruct fs).
Proof.
  intros fs Hp HS fuel cur v Hf Hc Hv. destruct fuel as [|f]; [lia|]. rewrite dec_unfold.
  cbn [ty_depth] in Hf. assert (Hf' : (fs_depth fs < f)%nat) by lia.
  destruct (wfv_body v Hv) as [Hb Hna].
  destruct (struct_of_type _ _ Hc) as [l ->].
  unfold dec_body, at_break; cbn [andb].
  destruct (is_null v) eqn:Hn.
  - cbn [is_struct_kind zero]. apply attach_ann_safe; [exact Hp|apply (zero_has_type (TyStruct fs))].
  - unfold dec_value; unfold is_null in Hn.
    destruct (body_of v) eqn:E; try discriminate Hn; try (exfalso; eapply Hna; reflexivity);
      cbv beta iota; cbn [wfv] in Hb;
      try (unfold or_wrapper; cbn [is_struct_kind]; apply wrapper_safe; assumption).
    cbn [is_struct_kind]. pose proof (fields_for_plain fs Hp) as Hff.
    destruct (fields_for (TyStruct fs)) as [fields| | |]; cbn [fields_out bind] in *; try exact I; try contradiction.
    eapply safe_bind; [apply attach_ann_safe; assumption|].
    intros c0 Hc0. destruct (struct_of_type _ _ Hc0) as [lz ->].
    apply struct_fields_safe; assumption.
Qed.

(* ---- the theorem ---------------------------------------------------------------------------------------------------- *)
Theorem decode_safe : forall t, pty t = true -> Safe t.
Proof.
  apply (gty_mut (fun t => pty t = true -> Safe t)
                 (fun fs => pfs fs = true -> SafeFields fs));
    try (intros; apply safe_leaf; reflexivity).
  - intros e IH Hp. apply safe_slice. apply IH. exact Hp.
  - intros n e IH Hp. apply safe_array. apply IH. exact Hp.
  - intros e IH Hp. apply safe_map. apply IH. exact Hp.
  - intros e IH Hp. apply safe_ptr. apply IH. exact Hp.
  - intro H. discriminate H.
  - intros fs IH Hp. apply safe_struct; [exact Hp|apply IH; exact Hp].
  - intros _ i ft ex H. destruct i; discriminate H.
  - intros name ex emb tag ty IH1 rest IH2 Hp i ft ex' Hn.
    cbn [pfs] in Hp. apply andb_prop in Hp. destruct Hp as [Hp Hp4]. apply andb_prop in Hp. destruct Hp as [Hp Hp3].
    destruct i as [|j]; cbn in Hn.
    + inversion Hn; subst. apply IH1. exact Hp3.
    + eapply IH2; eassumption.
Qed.

Lemma ty_depth_le_size : forall t, (ty_depth t < ty_size t)%nat.
Proof.
  apply (gty_mut (fun t => (ty_depth t < ty_size t)%nat) (fun fs => (fs_depth fs < fs_size fs)%nat));
    intros; cbn [ty_depth ty_size fs_depth fs_size]; lia.
Qed.

(* Unmarshal into a zero value: decode_to's own fuel is adequate *)
Theorem decode_to_safe : forall t v, pty t = true -> wfv v = true -> safe_out t (decode_to t v).
Proof.
  intros t v Hp Hv. unfold decode_to. apply decode_safe; [exact Hp| |apply zero_has_type|exact Hv].
  unfold dec_fuel. pose proof (ty_depth_le_size t). lia.
Qed.
