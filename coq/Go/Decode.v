(* Decode.v — executable model of ion/unmarshal.go over the Ion data model [value]
   (Data/Ion.v): Decoder.decode (-> interface{}) and Decoder.decodeTo.  No proofs.

   dec fuel t cur ro v  =  d.decodeTo(loc) where loc is an addressable reflect.Value
   of type t currently holding cur; ro = loc carries reflect's flagRO (reached through
   an unexported struct field: every Set on it panics); v is the Ion value the reader
   is positioned on.  The result is the new content of loc.
   The Reader is abstracted to the value tree it yields: symbols are SymText / SymSid
   (text unknown: SymbolToken{Text:nil, LocalSID:n}); an Ion int is an unbounded Z and
   Int64Value / IntSize are computed from its range.

   Not modelled (the model answers Err and the theorems exclude these pairs):
   float -> ion.Decimal target (strconv.FormatFloat shortest formatting), Ion struct
   -> ion.SymbolToken target and promoted fields of an embedded SymbolToken, spare
   slice capacity left by an earlier shrinking decode into the same slice (needs the
   same field name three times), strings.EqualFold beyond ASCII. *)
From Coq Require Import String List NArith ZArith Bool.
From IonV Require Import Base.Wire Data.Ion Num.Float Go.GoTypes Go.Fields.
Import ListNotations.
Open Scope N_scope.

(* ---- the reader's view of a value ------------------------------------------------ *)
Definition anns_of (v : value) : list symv := match v with VAnn a _ => a | _ => [] end.
Definition body_of (v : value) : value := match v with VAnn _ x => x | _ => v end.
Definition is_null (v : value) : bool := match body_of v with VNull _ => true | _ => false end.

Definition tok_of_symv (y : symv) : tok :=
  match y with
  | SymText t => {| tk_text := Some t; tk_sid := (-1)%Z |}
  | SymSid n => {| tk_text := None; tk_sid := Z.of_N n |}
  end.
Definition symv_text (y : symv) : option text := match y with SymText t => Some t | SymSid _ => None end.

Definition fits_int64 (z : Z) : bool := ((- 2 ^ 63 <=? z) && (z <? 2 ^ 63))%Z.
Definition fits_int32 (z : Z) : bool := ((- 2 ^ 31 <=? z) && (z <? 2 ^ 31))%Z.

(* reflect.Value.OverflowFloat for a float32 target: MaxFloat32 < |x| <= MaxFloat64 *)
Definition max_f32_as_f64 : N := 5183643170566569984.   (* 0x47EFFFFFE0000000 *)
Definition max_f64 : N := 9218868437227405311.          (* 0x7FEFFFFFFFFFFFFF *)
Definition overflow_f32 (b : N) : bool :=
  let a := b mod 2 ^ 63 in (max_f32_as_f64 <? a) && (a <=? max_f64).

(* ---- map insertion (SetMapIndex on the sorted association list) -------------------- *)
Fixpoint map_set (k : text) (x : gval) (l : list (text * gval)) : list (text * gval) :=
  match l with
  | [] => [(k, x)]
  | (k', y) :: r =>
    if list_eqb k k' then (k, x) :: r
    else if text_ltb k k' then (k, x) :: l
    else (k', y) :: map_set k x r
  end.

(* ---- Decoder.decode: the interface{} tree ------------------------------------------ *)
Definition dyn (t : gty) (g : gval) : gval := GIface (Some (t, g)).
Definition dynp (t : gty) (g : gval) : gval := GIface (Some (TyPtr t, GPtr (Some g))).

(* decodeInt *)
Definition decode_int_dyn (z : Z) : gval :=
  if fits_int32 z then dyn (TyInt IInt) (GInt z)
  else if fits_int64 z then dyn (TyInt I64) (GInt z)
  else dynp TyBigInt (GBigInt z).

Fixpoint decode_any (v : value) : gval :=
  match v with
  | VAnn _ x => decode_any x
  | VNull _ => GIface None
  | VBool b => dyn TyBool (GBool b)
  | VInt z => decode_int_dyn z
  | VFloat b => dynp TyF64 (GFloat b)
  | VDecimal d => dynp TyDecimal (GDecimal d)
  | VTimestamp b => dynp TyTimestamp (GTimestamp b)
  | VString t => dynp TyString (GString t)
  | VSymbol y => dynp TySymTok (GSymTok (tok_of_symv y))
  | VClob b | VBlob b => dyn (TySlice (TyInt U8)) (GBytes (Some b))
  | VStruct l =>
    dyn (TyMap TyIface)
        (GMap (Some ((fix go (l : list (symv * value)) (acc : list (text * gval)) : list (text * gval) :=
                        match l with
                        | [] => acc
                        | (SymText k, x) :: r => go r (map_set k (decode_any x) acc)
                        | (SymSid _, _) :: r => go r acc
                        end) l [])))
  | VList l | VSexp l =>
    match l with
    | [] => dyn (TySlice TyIface) (GSlice None)
    | _ => dyn (TySlice TyIface) (GSlice (Some (map decode_any l)))
    end
  end.

(* ---- findSubvalue as a functional update ------------------------------------------- *)
Fixpoint nth_field (fs : gfields) (i : nat) : option (gty * bool) :=
  match fs, i with
  | FNil, _ => None
  | FCons _ ex _ _ ty _, O => Some (ty, ex)
  | FCons _ _ _ _ _ rest, S j => nth_field rest j
  end.
Fixpoint set_nth (l : list gval) (i : nat) (x : gval) : list gval :=
  match l, i with
  | [], _ => []
  | _ :: r, O => x :: r
  | y :: r, S j => y :: set_nth r j x
  end.

(* reflect's flagEmbedRO: the value of an unexported embedded field cannot be Set, but
   Value.Field drops the flag again, so its exported (promoted) fields are settable; ro is
   therefore recomputed at every Field step.
   walk [path] from a location of type t holding cur; allocate nil embedded pointers
   (error when the pointer is not settable); apply k at the end and rebuild *)
Fixpoint upd_path (t : gty) (cur : gval) (ro : bool) (path : list nat)
  (k : gty -> gval -> bool -> res gval) : res gval :=
  match path with
  | [] => k t cur ro
  | i :: p =>
    let in_struct (t : gty) (c : gval) (wrap : gval -> gval) : res gval :=
      match t, c with
      | TyStruct fs, GStruct l =>
        match nth_field fs i, nth_error l i with
        | Some (ft, ex), Some fv =>
          do fv' <- upd_path ft fv (negb ex) p k; Ok (wrap (GStruct (set_nth l i fv')))
        | _, _ => Panic
        end
      | _, _ => Err        (* promoted field of an embedded ion.SymbolToken: not modelled *)
      end in
    match t, cur with
    | TyPtr e, GPtr None => if ro then Err else in_struct e (zero e) (fun x => GPtr (Some x))
    | TyPtr e, GPtr (Some y) => in_struct e y (fun x => GPtr (Some x))
    | _, _ => in_struct t cur (fun x => x)
    end
  end.

(* static type at the end of a path *)
Fixpoint path_ty (t : gty) (path : list nat) : option gty :=
  match path with
  | [] => Some t
  | i :: p =>
    match deref1 t with
    | TyStruct fs => match nth_field fs i with Some (ft, _) => path_ty ft p | None => None end
    | _ => None
    end
  end.

Fixpoint first_ann (l : list field) : option field :=
  match l with [] => None | f :: r => if f_ann f then Some f else first_ann r end.
Fixpoint first_non_ann (l : list field) : option field :=
  match l with [] => None | f :: r => if f_ann f then first_non_ann r else Some f end.

Definition anns_val (a : list symv) : gval :=
  match a with [] => GSlice None | _ => GSlice (Some (map (fun y => GSymTok (tok_of_symv y)) a)) end.
Fixpoint ann_texts (a : list symv) : option (list gval) :=
  match a with
  | [] => Some []
  | SymText x :: r => option_map (cons (GString x)) (ann_texts r)
  | SymSid _ :: _ => None
  end.

(* attachAnnotations (after fix_annotations_string_slice): []SymbolToken (or interface{}) receives the
   tokens, []string their texts (error for an annotation without text), anything else is an error *)
Definition ann_field_val (ft : gty) (a : list symv) : res gval :=
  match ft with
  | TySlice TySymTok => Ok (anns_val a)
  | TyIface => Ok (GIface (Some (TySlice TySymTok, anns_val a)))
  | TySlice TyString =>
    match a with
    | [] => Ok (GSlice None)
    | _ => match ann_texts a with Some l => Ok (GSlice (Some l)) | None => Err end
    end
  | _ => Err
  end.
Definition attach_ann (t : gty) (cur : gval) (ro : bool) (a : list symv) : res gval :=
  do fields <- fields_for t;
  match first_ann fields with
  | None => Ok cur
  | Some f => upd_path t cur ro (f_path f)
                (fun ft _ fro => do g <- ann_field_val ft a; if fro then Panic else Ok g)
  end.

(* isAcceptableKind lists, by Ion type class *)
Inductive vclass := CBoolV | CIntV | CFloatV | CStructKindV | CStringV | CSeqV.
Definition acceptable (c : vclass) (t : gty) : bool :=
  match t with
  | TyIface => true
  | _ =>
    match c, t with
    | CBoolV, TyBool => true
    | CIntV, TyInt _ => true
    | CFloatV, TyF32 | CFloatV, TyF64 => true
    | CStructKindV, _ => is_struct_kind t
    | CStringV, TyString => true
    | CSeqV, TySlice _ | CSeqV, TyArray _ _ => true
    | _, _ => false
    end
  end.

Definition is_ptr (t : gty) : bool := match t with TyPtr _ => true | _ => false end.
Definition setv (ro : bool) (g : gval) : res gval := if ro then Panic else Ok g.

Fixpoint take_bytes (n : nat) (b : list N) : list gval :=
  match n with
  | O => []
  | S n' => match b with
            | [] => GInt 0 :: take_bytes n' []
            | x :: r => GInt (Z.of_N x) :: take_bytes n' r
            end
  end.

Definition recT := gty -> gval -> bool -> value -> res gval.

(* decodeToStructWithAnnotation; [v] is the (unchanged) value under the reader *)
Definition wrapper (rec : recT) (t : gty) (cur : gval) (ro : bool) (v : value) (c : vclass) : res gval :=
  do fields <- fields_for t;
  match fields with
  | [f1; f2] =>
    do cur1 <- upd_path t cur ro (f_path f1) (fun _ x _ => Ok x);
    do cur2 <- upd_path t cur1 ro (f_path f2) (fun _ x _ => Ok x);
    let okf (fl : field) :=
      match path_ty t (f_path fl) with Some ft => negb (f_ann fl) && acceptable c ft | None => false end in
    if (f_ann f1 || f_ann f2) && (okf f1 || okf f2) then
      do cur3 <- attach_ann t cur2 ro (anns_of v);
      match first_non_ann fields with
      | Some fl => upd_path t cur3 ro (f_path fl) (fun ft fc fro => rec ft fc fro v)
      | None => Ok cur3
      end
    else Err
  | _ => Err
  end.

Definition or_wrapper (rec : recT) (t : gty) (cur : gval) (ro : bool) (v : value) (c : vclass) : res gval :=
  if is_struct_kind t then wrapper rec t cur ro v c else Err.

(* decodeIntTo on an integer kind *)
Definition dec_int (k : ikind) (z : Z) (ro : bool) : res gval :=
  match k with
  | U64 | UInt | UPtr => if ((0 <=? z) && (z <? 2 ^ 64))%Z then setv ro (GInt z) else Err
  | _ => if fits_int64 z then if in_range k z then setv ro (GInt z) else Err else Err
  end.

(* decodeStructToMap after the nil test *)
Fixpoint dec_map_fields (rec : recT) (e : gty) (ro : bool) (l : list (symv * value)) (m : list (text * gval))
  : res gval :=
  match l with
  | [] => Ok (GMap (Some m))
  | (SymSid _, _) :: r => dec_map_fields rec e ro r m
  | (SymText k, x) :: r =>
    do sub <- rec e (zero e) false x;
    if ro then Panic else dec_map_fields rec e ro r (map_set k sub m)
  end.

(* the field loop of decodeStructToStruct *)
Fixpoint dec_struct_fields (rec : recT) (t : gty) (ro : bool) (fields : list field)
  (l : list (symv * value)) (c : gval) : res gval :=
  match l with
  | [] => Ok c
  | (SymSid _, _) :: r => dec_struct_fields rec t ro fields r c
  | (SymText k, x) :: r =>
    match find_field_by fields k with
    | None => dec_struct_fields rec t ro fields r c
    | Some fl =>
      do c' <- upd_path t c ro (f_path fl) (fun ft fc fro => rec ft fc fro x);
      dec_struct_fields rec t ro fields r c'
    end
  end.

(* the element loop of decodeSliceTo on a slice; old = the current elements not yet revisited *)
Fixpoint dec_slice_elems (rec : recT) (e : gty) (ro : bool) (isnil : bool) (cur : gval)
  (l : list value) (old : list gval) (acc : list gval) : res gval :=
  match l with
  | [] =>
    let out := rev acc in
    match out, isnil with
    | [], true =>                                  (* v.Set(reflect.MakeSlice(t, 0, 0)) *)
      if ro then Panic else if is_u8 e then Ok (GBytes (Some [])) else Ok (GSlice (Some []))
    | _, _ =>
      if ro && match old with [] => false | _ => true end then Panic     (* v.SetLen(i) *)
      else if is_u8 e
           then Ok (GBytes (Some (map (fun g => match g with GInt z => Z.to_N z | _ => 0 end) out)))
           else Ok (GSlice (Some out))
    end
  | x :: r =>
    if ro && match old with [] => true | _ => false end then Panic    (* v.Set(newv) / SetLen *)
    else
      do y <- rec e (match old with c :: _ => c | [] => zero e end) ro x;
      dec_slice_elems rec e ro isnil cur r (match old with _ :: o => o | [] => [] end) (y :: acc)
  end.

(* ... on an array *)
Fixpoint dec_array_elems (rec : recT) (e : gty) (ro : bool)
  (l : list value) (old : list gval) (acc : list gval) : res gval :=
  match old with
  | [] => Ok (GArr (rev acc))                   (* i >= v.Len(): further elements are skipped *)
  | c :: o =>
    match l with
    | [] => if ro then Panic else Ok (GArr (rev acc ++ map (fun _ => zero e) old))
    | x :: r => do y <- rec e c ro x; dec_array_elems rec e ro r o (y :: acc)
    end
  end.

(* the type switch of decodeTo on a non-null value, once indirect has stopped at (t, cur) *)
Definition dec_value (rec : recT) (t : gty) (cur : gval) (ro : bool) (v : value) : res gval :=
  match body_of v with
  | VBool b =>
    match t with
    | TyBool => setv ro (GBool b)
    | TyIface => setv ro (dyn TyBool (GBool b))
    | _ => or_wrapper rec t cur ro v CBoolV
    end
  | VInt z =>
    match t with
    | TyInt k => dec_int k z ro
    | TyBigInt => setv ro (GBigInt z)
    | TyIface => setv ro (decode_int_dyn z)
    | _ => or_wrapper rec t cur ro v CIntV
    end
  | VFloat b =>
    match t with
    | TyF32 => if overflow_f32 b then Err else setv ro (GFloat (narrow b))
    | TyF64 => setv ro (GFloat b)
    | TyDecimal => Err                   (* float -> Decimal via FormatFloat: not modelled *)
    | TyIface => setv ro (dyn TyF64 (GFloat b))
    | _ => or_wrapper rec t cur ro v CFloatV
    end
  | VDecimal d =>
    match t with
    | TyDecimal => do g <- setv ro (GDecimal d); attach_ann t g ro (anns_of v)
    | TyIface => setv ro (dyn TyDecimal (GDecimal d))
    | _ => or_wrapper rec t cur ro v CStructKindV
    end
  | VTimestamp b =>
    match t with
    | TyTimestamp => do g <- setv ro (GTimestamp b); attach_ann t g ro (anns_of v)
    | TyTime => do g <- setv ro (GTime b); attach_ann t g ro (anns_of v)
    | TyIface => setv ro (dyn TyTimestamp (GTimestamp b))
    | _ => or_wrapper rec t cur ro v CStructKindV
    end
  | VSymbol y =>
    match t with
    | TyString => match symv_text y with Some x => setv ro (GString x) | None => Err end
    | TySymTok => do g <- setv ro (GSymTok (tok_of_symv y)); attach_ann t g ro (anns_of v)
    | TyIface => setv ro (dynp TySymTok (GSymTok (tok_of_symv y)))
    | _ => or_wrapper rec t cur ro v CStructKindV
    end
  | VString x =>
    match t with
    | TyString => setv ro (GString x)
    | TyIface => setv ro (dyn TyString (GString x))
    | _ => or_wrapper rec t cur ro v CStringV
    end
  | VClob b | VBlob b =>
    match t with
    | TySlice e => if is_u8 e then setv ro (GBytes (Some b)) else Err
    | TyArray n e =>
      if is_u8 e then (if ro then Panic else Ok (GArr (take_bytes (N.to_nat n) b)))     (* reflect.Copy *)
      else Err
    | TyIface => setv ro (dyn (TySlice (TyInt U8)) (GBytes (Some b)))
    | _ => or_wrapper rec t cur ro v CSeqV
    end
  | VStruct l =>
    match t with
    | TyMap e =>
      do m0 <- match cur with
               | GMap (Some m) => Ok m
               | _ => if ro then Panic else Ok []
               end;
      dec_map_fields rec e ro l m0
    | TyIface => setv ro (decode_any (VStruct l))
    | TySymTok => Err                     (* not modelled *)
    | TyTimestamp | TyTime | TyDecimal | TyBigInt => Err     (* fix_struct_into_scalar_type *)
    | _ =>
      if is_struct_kind t then
        (* decodeStructToStruct *)
        do fields <- fields_for t;
        do cur0 <- attach_ann t cur ro (anns_of v);
        dec_struct_fields rec t ro fields l cur0
      else Err
    end
  | VList l | VSexp l =>
    match t with
    | TyIface => setv ro (decode_any (VList l))
    | TySlice e =>
      let old := match cur with
                 | GSlice (Some o) => o
                 | GBytes (Some o) => map (fun x => GInt (Z.of_N x)) o
                 | _ => []
                 end in
      let isnil := match cur with GSlice (Some _) | GBytes (Some _) => false | _ => true end in
      dec_slice_elems rec e ro isnil cur l old []
    | TyArray n e => dec_array_elems rec e ro l (match cur with GArr o => o | _ => [] end) []
    | _ => or_wrapper rec t cur ro v CSeqV
    end
  | VNull _ | VAnn _ _ => Panic       (* unreachable: is_null / body_of *)
  end.

(* the rest of decodeTo once indirect has stopped at (t, cur) *)
Definition at_break (rec : recT) (t : gty) (cur : gval) (ro : bool) (v : value) : res gval :=
  (* fix_unexported_embedded_set: the value of an unexported embedded field cannot be replaced *)
  if ro && (is_null v || negb (is_struct_kind t) || is_scalar_struct t) then Err
  else if is_null v then
    if ro then Panic
    else if is_struct_kind t then attach_ann t (zero t) ro (anns_of v) else Ok (zero t)
  else dec_value rec t cur ro v.

(* decodeTo: indirect(v, isNull), then at_break *)
Definition dec_body (rec : recT) (t : gty) (cur : gval) (ro : bool) (v : value) : res gval :=
  match t with
  | TyIface =>
    match cur with
    | GIface (Some (TyPtr e, GPtr (Some y))) =>
      if negb (is_null v) || is_ptr e then
        do y' <- rec e y ro v; Ok (GIface (Some (TyPtr e, GPtr (Some y'))))
      else at_break rec t cur ro v
    | _ => at_break rec t cur ro v
    end
  | TyPtr e =>
    match cur with
    | GPtr p =>
      if (match p with None => true | Some _ => negb (is_ptr e) end) && is_null v && negb ro
      then at_break rec t cur ro v
      else
        match p with
        | None => if ro then Err else do y' <- rec e (zero e) ro v; Ok (GPtr (Some y'))
        | Some y => do y' <- rec e y ro v; Ok (GPtr (Some y'))
        end
    | _ => Panic      (* ill-typed current value *)
    end
  | _ => at_break rec t cur ro v
  end.

Fixpoint decto (fuel : nat) (t : gty) (cur : gval) (ro : bool) (v : value) {struct fuel} : res gval :=
  match fuel with
  | O => OutOfFuel
  | S f => dec_body (decto f) t cur ro v
  end.
Arguments decto : simpl never.

Definition dec_fuel (t : gty) (v : value) : nat := (ty_size t + 2 * val_size v + 2)%nat.

(* Unmarshal(data, &x) with x a zero value of type t, data holding the single value v *)
Definition decode_to (t : gty) (v : value) : res gval := decto (dec_fuel t v) t (zero t) false v.
(* Unmarshal into a pre-populated x *)
Definition decode_into (t : gty) (cur : gval) (v : value) : res gval :=
  decto (dec_fuel t v + 2 * gv_size cur) t cur false v.

(* a Decoder over a stream: Decode() n times, then ErrNoInput *)
Definition decoder_stream (vs : list value) : list gval := map decode_any vs.
