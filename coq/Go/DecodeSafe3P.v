(* DecodeSafe3P.v — C17 "never panics" for ANY well-typed current content of the target (Unmarshal into a
   pre-populated variable, e.g. an interface{} that holds a pointer to a struct), generalising DecodeSafe2P.v,
   where an interface{} of the current content had to hold what Decoder.decode allocates.

   [fits m g]: the pointers held by interface{} values inside g can be followed with m levels of recursion
   (every other constructor costs one level too).  REC rec n now quantifies over every level m <= n:
   dep t < m, has_type cur t, fits m cur  ==>  Ok g with has_type g t and fits m g, or Err. *)
From Coq Require Import String List NArith ZArith Bool Lia ZifyBool ZifyN ZifyNat Arith.
From IonV Require Import Base.Wire Data.Ion Num.Float Bin.BinWriter
  Go.GoTypes Go.Fields Go.Encode Go.Decode Go.MarshalSpec Go.MarshalP Go.DecodeSafeP Go.DecodeSafe2P.
Import ListNotations.
Open Scope N_scope.

Fixpoint fits (m : nat) (g : gval) {struct g} : bool :=
  match g with
  | GSlice (Some l) | GArr l | GStruct l => match m with O => false | S k => forallb (fits k) l end
  | GMap (Some mm) => match m with O => false | S k => forallb (fun kv => fits k (snd kv)) mm end
  | GPtr (Some x) => match m with O => false | S k => fits k x end
  | GIface (Some (TyPtr e, GPtr (Some y))) => match m with O => false | S k => (dep e <? k)%nat && fits k y end
  | _ => true
  end.

Definition goodL (m : nat) (g : gval) (t : gty) : bool := has_type g t && fits m g.

Definition outL (m : nat) (t : gty) (r : res gval) : Prop :=
  match r with
  | Ok g => goodL m g t = true
  | Err => True
  | Panic => False
  | OutOfFuel => False
  end.

Definition RECL (rec : recT) (n : nat) : Prop :=
  forall t cur ro v m, (m <= n)%nat -> (dep t < m)%nat -> goodL m cur t = true -> wfv v = true ->
    outL m t (rec t cur ro v).

Lemma goodL_split : forall m g t, goodL m g t = true -> has_type g t = true /\ fits m g = true.
Proof. intros m g t H. unfold goodL in H. apply andb_prop in H. exact H. Qed.
Lemma goodL_intro : forall m g t, has_type g t = true -> fits m g = true -> goodL m g t = true.
Proof. intros m g t H1 H2. unfold goodL. rewrite H1, H2. reflexivity. Qed.

Lemma outL_bind : forall m1 m2 t1 t2 (r : res gval) (k : gval -> res gval),
  outL m1 t1 r -> (forall y, goodL m1 y t1 = true -> outL m2 t2 (k y)) -> outL m2 t2 (do y <- r; k y).
Proof. intros m1 m2 t1 t2 r k H1 H2. destruct r; cbn in *; auto. Qed.

Lemma forallb_goodL : forall m e l,
  forallb (fun x => goodL m x e) l = forallb (fun x => has_type x e) l && forallb (fits m) l.
Proof.
  intros m e l. induction l as [|x r IH]; [reflexivity|]. cbn [forallb]. rewrite IH. unfold goodL.
  destruct (has_type x e), (fits m x), (forallb (fun x0 => has_type x0 e) r), (forallb (fits m) r); reflexivity.
Qed.
Lemma forallb_goodL_split : forall m e l, forallb (fun x => goodL m x e) l = true ->
  forallb (fun x => has_type x e) l = true /\ forallb (fits m) l = true.
Proof. intros m e l H. rewrite forallb_goodL in H. apply andb_prop in H. exact H. Qed.

Lemma fits_zero : forall t m, (dep t < m)%nat -> fits m (zero t) = true.
Proof.
  apply (gty_mut (fun t => forall m, (dep t < m)%nat -> fits m (zero t) = true)
                 (fun fs => forall k, (fsdep fs < k)%nat -> forallb (fits k) (zero_fields fs) = true)); try reflexivity.
  - intros e IH m H. cbn [zero]. destruct (is_u8 e); reflexivity.
  - intros n e IH m H. cbn [zero dep] in *. destruct m as [|k]; [lia|]. cbn [fits].
    apply forallb_repeat. apply IH. lia.
  - intros fs IH m H. cbn [zero dep] in *. destruct m as [|k]; [lia|]. cbn [fits]. apply IH. lia.
  - intros name ex emb tag ty IH1 rest IH2 k H. cbn [zero_fields forallb fsdep] in *.
    rewrite IH1, IH2 by lia. reflexivity.
Qed.
Lemma goodL_zero : forall t m, (dep t < m)%nat -> goodL m (zero t) t = true.
Proof. intros t m H. apply goodL_intro; [apply zero_has_type|apply fits_zero; exact H]. Qed.

Lemma fits_struct : forall m l, fits m (GStruct l) = true -> exists k, m = S k /\ forallb (fits k) l = true.
Proof. intros m l H. destruct m as [|k]; [discriminate H|]. exists k. split; [reflexivity|exact H]. Qed.

Lemma goodL_struct_nth : forall k fs l i ft ex,
  goodL (S k) (GStruct l) (TyStruct fs) = true -> nth_field fs i = Some (ft, ex) ->
  exists fv, nth_error l i = Some fv /\ goodL k fv ft = true.
Proof.
  intros k fs l i ft ex H Hn. apply goodL_split in H. destruct H as [H1 H2].
  destruct (struct_nth _ _ _ _ _ H1 Hn) as [fv [Hfv Hty]]. exists fv. split; [exact Hfv|].
  apply goodL_intro; [exact Hty|]. cbn [fits] in H2. eapply forallb_nth; eassumption.
Qed.
Lemma goodL_set_nth : forall k fs l i ft ex x,
  goodL (S k) (GStruct l) (TyStruct fs) = true -> nth_field fs i = Some (ft, ex) -> goodL k x ft = true ->
  goodL (S k) (GStruct (set_nth l i x)) (TyStruct fs) = true.
Proof.
  intros k fs l i ft ex x H Hn Hx. apply goodL_split in H. destruct H as [H1 H2].
  apply goodL_split in Hx. destruct Hx as [Hx1 Hx2]. apply goodL_intro.
  - eapply struct_set_nth; eassumption.
  - cbn [fits] in *. apply forallb_set_nth; assumption.
Qed.
Lemma goodL_struct_of : forall m cur fs, goodL m cur (TyStruct fs) = true -> exists l, cur = GStruct l.
Proof. intros m cur fs H. apply goodL_split in H. destruct H as [H _]. eapply struct_of_type. exact H. Qed.

(* ---- upd_path ---------------------------------------------------------------------------------------------- *)
Lemma upd_okL : forall path t cur ro k m,
  (dep t < m)%nat -> goodL m cur t = true ->
  match walk t ro path with
  | WBad => False
  | WErr => True
  | WEnd ft fro => forall m' fc, (m' + length path <= m)%nat -> (dep ft < m')%nat -> goodL m' fc ft = true -> outL m' ft (k ft fc fro)
  end ->
  outL m t (upd_path t cur ro path k).
Proof.
  induction path as [|i p IH]; intros t cur ro k m Hd Hc Hw.
  - cbn in *. apply Hw; [lia|exact Hd|exact Hc].
  - assert (Hstruct : forall fs l (wrap : gval -> gval) t0 j m0,
             deref1 t = TyStruct fs -> (S j <= m)%nat -> (dep (TyStruct fs) < S j)%nat ->
             goodL (S j) (GStruct l) (TyStruct fs) = true ->
             (forall x, goodL (S j) x (TyStruct fs) = true -> goodL m0 (wrap x) t0 = true) ->
             outL m0 t0 (match nth_field fs i, nth_error l i with
                      | Some (ft, ex), Some fv =>
                        do fv' <- upd_path ft fv (negb ex) p k; Ok (wrap (GStruct (set_nth l i fv')))
                      | _, _ => Panic
                      end)).
    { intros fs l wrap t0 j m0 Ed Hj Hdj Hl Hwrap. cbn [walk] in Hw. rewrite Ed in Hw.
      destruct (nth_field fs i) as [[ft ex]|] eqn:En; [|contradiction].
      destruct (goodL_struct_nth _ _ _ _ _ _ Hl En) as [fv [Hfv Hg]]. rewrite Hfv.
      pose proof (fsdep_nth _ _ _ _ En) as Hfd. cbn [dep] in Hdj.
      eapply outL_bind; [apply (IH ft fv (negb ex) k j); [lia|exact Hg|]|].
      - destruct (walk ft (negb ex) p) as [| |ft' fro']; try exact Hw.
        intros m' fc Hm' Hd' Hfc. apply Hw; [cbn [length]; lia|exact Hd'|exact Hfc].
      - intros y Hy. cbn [outL]. apply Hwrap. eapply goodL_set_nth; eassumption. }
    destruct t; cbn [upd_path]; try exact I.
    + (* TyPtr *)
      pose proof (goodL_split _ _ _ Hc) as [Hct Hcs].
      destruct cur as [| | | | | | | |o| | | | | | |]; try discriminate Hct.
      destruct o as [y|].
      * destruct t; try exact I.
        destruct m as [|m1]; [discriminate Hcs|]. cbn [fits] in Hcs. cbn [has_type] in Hct.
        assert (Hy : goodL m1 y (TyStruct fs) = true) by (apply goodL_intro; assumption).
        destruct (goodL_struct_of _ _ _ Hy) as [l ->].
        destruct (fits_struct _ _ Hcs) as [j [-> Hl]]. cbn [dep] in Hd.
        apply (Hstruct fs l (fun x => GPtr (Some x)) (TyPtr (TyStruct fs)) j (S (S j))); [reflexivity|lia|cbn [dep]; lia|exact Hy|].
        intros x Hx. exact Hx.
      * destruct ro; [exact I|]. destruct t; try exact I. cbn [dep] in Hd.
        destruct m as [|[|j]]; try lia.
        pose proof (goodL_zero (TyStruct fs) (S j)) as Hz. cbn [zero dep] in Hz.
        apply (Hstruct fs (zero_fields fs) (fun x => GPtr (Some x)) (TyPtr (TyStruct fs)) j (S (S j)));
          [reflexivity|lia|cbn [dep]; lia|apply Hz; lia|].
        intros x Hx. exact Hx.
    + (* TyStruct *)
      destruct (goodL_struct_of _ _ _ Hc) as [l ->].
      pose proof (goodL_split _ _ _ Hc) as [_ Hcs]. destruct (fits_struct _ _ Hcs) as [j [-> Hl]].
      apply (Hstruct fs l (fun x => x) (TyStruct fs) j (S j)); [reflexivity|lia|exact Hd|exact Hc|]. intros x Hx. exact Hx.
Qed.

Lemma upd_fokL : forall t cur ro f k m,
  (dep t < m)%nat -> goodL m cur t = true -> FOK t f ->
  (forall ft fro, (fro = true -> is_struct_kind (deref1 ft) = true) ->
     forall m' fc, (m' < m)%nat -> (dep ft < m')%nat -> goodL m' fc ft = true -> outL m' ft (k ft fc fro)) ->
  outL m t (upd_path t cur ro (f_path f) k).
Proof.
  intros t cur ro f k m Hd Hc [Hne Hw] Hk. destruct (f_path f) as [|i p] eqn:Ep; [contradiction|].
  apply upd_okL; [exact Hd|exact Hc|]. rewrite (walk_ro i p t ro false).
  destruct (walk t false (i :: p)) as [| |ft fro] eqn:W; cbn [wok] in Hw; try exact Hw.
  intros m' fc Hm' Hd' Hfc. apply Hk; [exact Hw|cbn [length] in Hm'; lia|exact Hd'|exact Hfc].
Qed.

(* ---- annotations ------------------------------------------------------------------------------------------ *)
Lemma fits_scalars : forall m (l : list gval), (forall x, In x l -> forall j, fits j x = true) -> forallb (fits m) l = true.
Proof. intros m l H. apply forallb_forall. intros x Hx. apply H. exact Hx. Qed.

Lemma fits_anns_val : forall m a, (0 < m)%nat -> fits m (anns_val a) = true.
Proof.
  intros m a Hm. destruct a as [|y r]; [reflexivity|]. unfold anns_val. destruct m as [|k]; [lia|]. cbn [fits].
  apply fits_scalars. intros x Hx j. apply in_map_iff in Hx. destruct Hx as [z [<- _]]. reflexivity.
Qed.
Lemma fits_ann_texts : forall a l k, ann_texts a = Some l -> forallb (fits k) l = true.
Proof.
  induction a as [|y r IH]; intros l k H; cbn in H.
  - inversion H. reflexivity.
  - destruct y as [x|n]; [|discriminate H]. destruct (ann_texts r) as [l'|]; [|discriminate H].
    inversion H. cbn. apply IH. reflexivity.
Qed.
Lemma ann_field_val_goodL : forall m ft a, (dep ft < m)%nat -> outL m ft (ann_field_val ft a).
Proof.
  intros m ft a Hd. pose proof (ann_field_val_typed ft a) as Ht.
  destruct ft; try exact I.
  - cbn [dep] in Hd. destruct m as [|k]; [lia|].
    destruct ft; try exact I; cbn [ann_field_val] in *.
    + destruct a as [|y r]; [reflexivity|]. destruct (ann_texts (y :: r)) as [l|] eqn:E; [|exact I].
      cbn [outL safe_out] in *. apply goodL_intro; [exact Ht|]. cbn [fits]. eapply fits_ann_texts. exact E.
    + cbn [outL safe_out] in *. apply goodL_intro; [exact Ht|apply fits_anns_val; lia].
  - cbn [ann_field_val outL safe_out] in *. apply goodL_intro; [exact Ht|reflexivity].
Qed.

Lemma attach_ann_okL : forall t cur ro a m, (dep t < m)%nat -> goodL m cur t = true -> outL m t (attach_ann t cur ro a).
Proof.
  intros t cur ro a m Hd Hc. unfold attach_ann. pose proof (fields_for_ok t) as Hf.
  destruct (fields_for t) as [fields| | |]; cbn [fok_out bind] in *; try exact I; try contradiction.
  destruct (first_ann fields) as [f|] eqn:E; [|exact Hc].
  apply upd_fokL; [exact Hd|exact Hc|eapply Forall_forall; [exact Hf|apply first_ann_in; exact E]|].
  intros ft fro Hro m' fc _ Hd' _. destruct fro.
  - rewrite ann_field_struct_err; [exact I|apply Hro; reflexivity].
  - eapply outL_bind; [apply ann_field_val_goodL; exact Hd'|]. intros g Hg. exact Hg.
Qed.

(* ---- structs ------------------------------------------------------------------------------------------------ *)
Lemma wrapper_okL : forall rec n t cur ro v c m,
  RECL rec n -> (m <= S n)%nat -> (dep t < m)%nat -> goodL m cur t = true -> wfv v = true ->
  outL m t (wrapper rec t cur ro v c).
Proof.
  intros rec n t cur ro v c m HR Hm Hd Hc Hv. unfold wrapper. pose proof (fields_for_ok t) as Hf.
  destruct (fields_for t) as [fields| | |]; cbn [fok_out bind] in *; try exact I; try contradiction.
  destruct fields as [|f1 [|f2 [|f3 r]]]; try exact I.
  assert (H1 : FOK t f1) by (inversion Hf; assumption).
  assert (H2 : FOK t f2) by (inversion Hf as [|? ? ? Hf']; inversion Hf'; assumption).
  eapply outL_bind; [apply upd_fokL; [exact Hd|exact Hc|exact H1|]; intros ft fro _ m' fc _ _ Hfc; exact Hfc|].
  intros cur1 Hc1.
  eapply outL_bind; [apply upd_fokL; [exact Hd|exact Hc1|exact H2|]; intros ft fro _ m' fc _ _ Hfc; exact Hfc|].
  intros cur2 Hc2.
  match goal with |- context[if ?cnd then _ else _] => destruct cnd end; [|exact I].
  eapply outL_bind; [apply attach_ann_okL; [exact Hd|exact Hc2]|].
  intros cur3 Hc3.
  destruct (first_non_ann [f1; f2]) as [fl|] eqn:E; [|exact Hc3].
  apply upd_fokL; [exact Hd|exact Hc3|eapply Forall_forall; [exact Hf|apply first_non_ann_in; exact E]|].
  intros ft fro _ m' fc Hm' Hdep Hfc. apply HR; [lia|exact Hdep|exact Hfc|exact Hv].
Qed.

Lemma struct_fields_okL : forall rec n t ro fields m,
  RECL rec n -> (m <= S n)%nat -> (dep t < m)%nat -> Forall (FOK t) fields ->
  forall ls cur,
  forallb (fun kv : symv * value => wfv (snd kv)) ls = true -> goodL m cur t = true ->
  outL m t (dec_struct_fields rec t ro fields ls cur).
Proof.
  intros rec n t ro fields m HR Hm Hd Hf. induction ls as [|[y x] r IH]; intros cur Hls Hc; [exact Hc|].
  cbn [forallb snd] in Hls. apply andb_prop in Hls. destruct Hls as [Hx Hr].
  destruct y as [k|j]; cbn [dec_struct_fields]; [|apply IH; assumption].
  destruct (find_field_by fields k) as [fl|] eqn:E; [|apply IH; assumption].
  assert (Hin : In fl fields).
  { unfold find_field_by in E. apply find_field_go_in in E. destruct E as [E|E]; [exact E|discriminate E]. }
  eapply outL_bind.
  - apply upd_fokL; [exact Hd|exact Hc|eapply Forall_forall; eassumption|].
    intros ft fro _ m' fc Hm' Hdep Hfc. apply HR; [lia|exact Hdep|exact Hfc|exact Hx].
  - intros c' Hc'. apply IH; assumption.
Qed.

Lemma struct_value_okL : forall rec n fs cur ro v m,
  RECL rec n -> (m <= S n)%nat -> (dep (TyStruct fs) < m)%nat -> goodL m cur (TyStruct fs) = true -> wfv v = true ->
  is_null v = false ->
  outL m (TyStruct fs) (dec_value rec (TyStruct fs) cur ro v).
Proof.
  intros rec n fs cur ro v m HR Hm Hd Hc Hv Hn. destruct (wfv_body v Hv) as [Hb Hna].
  unfold dec_value; unfold is_null in Hn.
  destruct (body_of v) eqn:E; try discriminate Hn; try (exfalso; eapply Hna; reflexivity);
    cbv beta iota; cbn [wfv] in Hb;
    try (unfold or_wrapper; cbn [is_struct_kind]; eapply wrapper_okL; eassumption).
  cbn [is_struct_kind]. pose proof (fields_for_ok (TyStruct fs)) as Hff.
  destruct (fields_for (TyStruct fs)) as [fields| | |]; cbn [fok_out bind] in *; try exact I; try contradiction.
  eapply outL_bind; [apply attach_ann_okL; [exact Hd|exact Hc]|].
  intros c0 Hc0. eapply struct_fields_okL; eassumption.
Qed.

Lemma at_break_struct_okL : forall rec n fs cur ro v m,
  RECL rec n -> (m <= S n)%nat -> (dep (TyStruct fs) < m)%nat -> goodL m cur (TyStruct fs) = true -> wfv v = true ->
  outL m (TyStruct fs) (at_break rec (TyStruct fs) cur ro v).
Proof.
  intros rec n fs cur ro v m HR Hm Hd Hc Hv. unfold at_break. cbn [is_struct_kind is_scalar_struct negb orb].
  rewrite !orb_false_r.
  destruct (is_null v) eqn:Hn.
  - destruct ro; cbn [andb]; [exact I|]. apply attach_ann_okL; [exact Hd|]. apply goodL_zero. exact Hd.
  - rewrite andb_false_r. eapply struct_value_okL; eassumption.
Qed.

(* ---- leaves --------------------------------------------------------------------------------------------------- *)
Lemma leaf_goodL : forall m t g, leaf_ty t = true -> has_type g t = true -> goodL m g t = true.
Proof.
  intros m t g Hl Hg. apply goodL_intro; [exact Hg|].
  destruct t; try discriminate Hl; destruct g; try discriminate Hg; reflexivity.
Qed.
Lemma leaf_okL : forall rec t cur v m, leaf_ty t = true -> wfv v = true -> outL m t (at_break rec t cur false v).
Proof.
  intros rec t cur v m Hl Hv. pose proof (leaf_ok rec t cur v Hl Hv) as H.
  destruct (at_break rec t cur false v); cbn [out2 outL] in *; try exact H.
  apply good_split in H. apply leaf_goodL; tauto.
Qed.

(* ---- slices --------------------------------------------------------------------------------------------------- *)
Lemma slice_result_goodL : forall k e out, forallb (fun x => goodL k x e) out = true ->
  outL (S k) (TySlice e)
    (if is_u8 e then Ok (GBytes (Some (map (fun g => match g with GInt z => Z.to_N z | _ => 0 end) out)))
     else Ok (GSlice (Some out))).
Proof.
  intros k e out H. apply forallb_goodL_split in H. destruct H as [H1 H2].
  pose proof (slice_result_typed e out H1) as Ht.
  destruct (is_u8 e); cbn [outL safe_out] in *; apply goodL_intro; try exact Ht; [reflexivity|exact H2].
Qed.

Lemma slice_elems_okL : forall rec n e k, RECL rec n -> (k <= n)%nat -> (dep e < k)%nat ->
  forall l old acc isnil cur,
  forallb wfv l = true ->
  forallb (fun x => goodL k x e) old = true -> forallb (fun x => goodL k x e) acc = true ->
  outL (S k) (TySlice e) (dec_slice_elems rec e false isnil cur l old acc).
Proof.
  intros rec n e k HR Hk Hd. induction l as [|x r IHl]; intros old acc isnil cur Hl Ho Ha.
  - cbn [dec_slice_elems andb].
    assert (Hr : forallb (fun x => goodL k x e) (rev acc) = true) by (rewrite forallb_rev; exact Ha).
    destruct (rev acc) as [|y out] eqn:E.
    + destruct isnil.
      * destruct (is_u8 e) eqn:Eu; cbn [outL]; unfold goodL; cbn; rewrite Eu; reflexivity.
      * apply (slice_result_goodL k e []). reflexivity.
    + destruct isnil; apply (slice_result_goodL k e (y :: out)); exact Hr.
  - cbn [dec_slice_elems andb]. cbn [forallb] in Hl. apply andb_prop in Hl. destruct Hl as [Hx Hr].
    eapply outL_bind.
    + apply HR; [exact Hk|exact Hd| |exact Hx].
      destruct old as [|c o]; [apply goodL_zero; exact Hd|]. cbn in Ho. apply andb_prop in Ho. tauto.
    + intros y Hy. apply IHl; [exact Hr| |cbn [forallb]; rewrite Hy; exact Ha].
      destruct old as [|c o]; [reflexivity|]. cbn in Ho. apply andb_prop in Ho. tauto.
Qed.

Lemma goodL_ints : forall k o, forallb (fun x => has_type x (TyInt U8)) o = true ->
  forallb (fun x => goodL k x (TyInt U8)) o = true.
Proof.
  induction o as [|x r IH]; cbn [forallb]; intro H; [reflexivity|].
  apply andb_prop in H. destruct H as [H1 H2]. rewrite (IH H2), andb_true_r. apply leaf_goodL; [reflexivity|exact H1].
Qed.

Lemma slice_okL : forall rec n e cur v k, RECL rec n -> (k <= n)%nat -> (dep e < k)%nat ->
  goodL (S k) cur (TySlice e) = true -> wfv v = true -> outL (S k) (TySlice e) (at_break rec (TySlice e) cur false v).
Proof.
  intros rec n e cur v k HR Hk Hd Hc Hv. destruct (wfv_body v Hv) as [Hb Hna].
  apply goodL_split in Hc. destruct Hc as [Hc Hs].
  unfold at_break; cbn [andb].
  destruct (is_null v) eqn:Hn.
  - cbn [is_struct_kind]. apply (goodL_zero (TySlice e)). cbn [dep]. lia.
  - assert (Hold : forallb (fun x => goodL k x e)
              match cur with
              | GSlice (Some o) => o
              | GBytes (Some o) => map (fun x => GInt (Z.of_N x)) o
              | _ => []
              end = true).
    { destruct cur as [| | | |ob|ol| | | | | | | | | |]; try reflexivity.
      * destruct ob as [o|]; [|reflexivity]. cbn in Hc. apply andb_prop in Hc. destruct Hc as [Hu Ho].
        apply is_u8_eq in Hu. subst e. apply goodL_ints. apply u8_of_bytes. exact Ho.
      * destruct ol as [o|]; [|reflexivity]. cbn in Hc. apply andb_prop in Hc. cbn [fits] in Hs.
        rewrite forallb_goodL. destruct Hc as [_ Hc]. rewrite Hc, Hs. reflexivity. }
    unfold dec_value; unfold is_null in Hn.
    destruct (body_of v) eqn:E; try discriminate Hn; try (exfalso; eapply Hna; reflexivity);
      cbv beta iota; cbn [wfv] in Hb; try not_struct_kind2.
    + destruct (is_u8 e) eqn:Eu; [|exact I]. cbn [setv outL]. unfold goodL. cbn. rewrite Eu, Hb. reflexivity.
    + destruct (is_u8 e) eqn:Eu; [|exact I]. cbn [setv outL]. unfold goodL. cbn. rewrite Eu, Hb. reflexivity.
    + eapply slice_elems_okL; eauto.
    + eapply slice_elems_okL; eauto.
Qed.

(* ---- arrays --------------------------------------------------------------------------------------------------- *)
Lemma array_goodL : forall k n e l, length l = N.to_nat n -> forallb (fun x => goodL k x e) l = true ->
  goodL (S k) (GArr l) (TyArray n e) = true.
Proof.
  intros k n e l Hl H. apply forallb_goodL_split in H. destruct H as [H1 H2].
  apply goodL_intro; [apply array_typed; assumption|exact H2].
Qed.

Lemma array_elems_okL : forall rec m n e k, RECL rec m -> (k <= m)%nat -> (dep e < k)%nat ->
  forall l old acc,
  forallb wfv l = true ->
  forallb (fun x => goodL k x e) old = true -> forallb (fun x => goodL k x e) acc = true ->
  (length acc + length old = N.to_nat n)%nat ->
  outL (S k) (TyArray n e) (dec_array_elems rec e false l old acc).
Proof.
  intros rec m n e k HR Hk Hd. induction l as [|x r IHl]; intros old acc Hl Ho Ha Hlen.
  - destruct old as [|c o]; cbn [dec_array_elems].
    + apply array_goodL; [rewrite rev_length; cbn [length] in Hlen; lia|rewrite forallb_rev; exact Ha].
    + apply array_goodL.
      * rewrite app_length, rev_length, map_length. exact Hlen.
      * rewrite forallb_app, forallb_rev, Ha. cbn [andb].
        clear - Hd. induction (c :: o) as [|y t IHt]; cbn; [reflexivity|]. rewrite goodL_zero by exact Hd. exact IHt.
  - destruct old as [|c o]; cbn [dec_array_elems].
    + apply array_goodL; [rewrite rev_length; cbn [length] in Hlen; lia|rewrite forallb_rev; exact Ha].
    + cbn [forallb] in Hl, Ho. apply andb_prop in Hl. apply andb_prop in Ho. destruct Hl as [Hx Hr]. destruct Ho as [Hc Ho].
      eapply outL_bind; [apply HR; [exact Hk|exact Hd|exact Hc|exact Hx]|].
      intros y Hy. apply IHl; [exact Hr|exact Ho|cbn [forallb]; rewrite Hy; exact Ha|cbn in *; lia].
Qed.

Lemma array_okL : forall rec m n e cur v k, RECL rec m -> (k <= m)%nat -> (dep e < k)%nat ->
  goodL (S k) cur (TyArray n e) = true -> wfv v = true -> outL (S k) (TyArray n e) (at_break rec (TyArray n e) cur false v).
Proof.
  intros rec m n e cur v k HR Hk Hd Hc Hv. destruct (wfv_body v Hv) as [Hb Hna].
  apply goodL_split in Hc. destruct Hc as [Hc Hs].
  unfold at_break; cbn [andb].
  destruct (is_null v) eqn:Hn.
  - cbn [is_struct_kind]. apply (goodL_zero (TyArray n e)). cbn [dep]. lia.
  - assert (Hcur : exists o, cur = GArr o /\ length o = N.to_nat n /\ forallb (fun x => goodL k x e) o = true).
    { destruct cur; try discriminate Hc. cbn in Hc. apply andb_prop in Hc. destruct Hc as [H1 H2].
      exists l. split; [reflexivity|]. split; [apply N.eqb_eq in H1; lia|].
      rewrite forallb_goodL. cbn [fits] in Hs. rewrite H2, Hs. reflexivity. }
    destruct Hcur as [o [-> [Hlen Ho]]].
    unfold dec_value; unfold is_null in Hn.
    destruct (body_of v) eqn:E; try discriminate Hn; try (exfalso; eapply Hna; reflexivity);
      cbv beta iota; cbn [wfv] in Hb; try not_struct_kind2.
    + destruct (is_u8 e) eqn:Eu; [|exact I]. apply is_u8_eq in Eu. subst e.
      destruct (take_bytes_spec (N.to_nat n) b Hb) as [T1 T2]. apply array_goodL; [assumption|apply goodL_ints; assumption].
    + destruct (is_u8 e) eqn:Eu; [|exact I]. apply is_u8_eq in Eu. subst e.
      destruct (take_bytes_spec (N.to_nat n) b Hb) as [T1 T2]. apply array_goodL; [assumption|apply goodL_ints; assumption].
    + eapply array_elems_okL; eauto.
    + eapply array_elems_okL; eauto.
Qed.

(* ---- maps ------------------------------------------------------------------------------------------------------ *)
Lemma map_fields_okL : forall rec n e k, RECL rec n -> (k <= n)%nat -> (dep e < k)%nat ->
  forall l m,
  forallb (fun kv : symv * value => wfv (snd kv)) l = true ->
  keys_sorted (map fst m) = true -> forallb (fun kv : text * gval => has_type (snd kv) e) m = true ->
  forallb (fun kv : text * gval => fits k (snd kv)) m = true ->
  outL (S k) (TyMap e) (dec_map_fields rec e false l m).
Proof.
  intros rec n e k HR Hk Hd. induction l as [|[y x] r IHl]; intros m Hl Hs Ht Hh.
  - cbn [dec_map_fields outL]. unfold goodL. cbn. rewrite Hs, Ht, Hh. reflexivity.
  - cbn [forallb snd] in Hl. apply andb_prop in Hl. destruct Hl as [Hx Hr].
    destruct y as [key|j]; cbn [dec_map_fields]; [|apply IHl; assumption].
    eapply outL_bind; [apply HR; [exact Hk|exact Hd|apply goodL_zero; exact Hd|exact Hx]|].
    intros sub Hsub. apply goodL_split in Hsub. destruct Hsub as [S1 S2].
    apply IHl; [exact Hr|apply map_set_sorted; exact Hs|apply map_set_typed; assumption|apply (map_set_p (fits k)); assumption].
Qed.

Lemma map_okL : forall rec n e cur v k, RECL rec n -> (k <= n)%nat -> (dep e < k)%nat ->
  goodL (S k) cur (TyMap e) = true -> wfv v = true -> outL (S k) (TyMap e) (at_break rec (TyMap e) cur false v).
Proof.
  intros rec n e cur v k HR Hk Hd Hc Hv. destruct (wfv_body v Hv) as [Hb Hna].
  apply goodL_split in Hc. destruct Hc as [Hc Hs].
  unfold at_break; cbn [andb].
  destruct (is_null v) eqn:Hn.
  - cbn [is_struct_kind]. reflexivity.
  - unfold dec_value; unfold is_null in Hn.
    destruct (body_of v) eqn:E; try discriminate Hn; try (exfalso; eapply Hna; reflexivity);
      cbv beta iota; cbn [wfv] in Hb; try not_struct_kind2.
    destruct cur as [| | | | | | |om| | | | | | | |]; try discriminate Hc.
    destruct om as [m|]; cbn [bind].
    + cbn in Hc. apply andb_prop in Hc. destruct Hc as [H1 H2]. cbn [fits] in Hs. eapply map_fields_okL; eauto.
    + eapply map_fields_okL; eauto.
Qed.

(* ---- interface{} ------------------------------------------------------------------------------------------------- *)
Lemma iface_sh_fits : forall g m, has_type g TyIface = true -> sh g = true -> (2 <= m)%nat -> fits m g = true.
Proof.
  intros g m Ht Hs Hm. destruct g as [| | | | | | | | |d| | | | | |]; try discriminate Ht.
  destruct d as [[dt x]|]; [|reflexivity].
  destruct dt; try reflexivity. destruct x as [| | | | | | | |p| | | | | | |]; try reflexivity.
  destruct p as [y|]; [|reflexivity].
  destruct m as [|[|k]]; try lia. cbn [fits]. cbn [sh] in Hs. cbn [has_type negb andb] in Ht.
  destruct dt; try discriminate Hs; destruct y; try discriminate Ht; reflexivity.
Qed.

Lemma iface_break_okL : forall rec cur v m, (2 <= m)%nat -> wfv v = true -> outL m TyIface (at_break rec TyIface cur false v).
Proof.
  intros rec cur v m Hm Hv. pose proof (iface_break_ok rec cur v Hv) as H.
  destruct (at_break rec TyIface cur false v); cbn [out2 outL] in *; try exact H.
  apply good_split in H. destruct H as [H1 H2]. apply goodL_intro; [exact H1|apply iface_sh_fits; assumption].
Qed.

(* ---- the step ---------------------------------------------------------------------------------------------------- *)
Lemma goodL_ptr_some : forall k y e, goodL (S k) (GPtr (Some y)) (TyPtr e) = goodL k y e.
Proof. reflexivity. Qed.

Lemma step_okL : forall rec n, RECL rec n -> RECL (dec_body rec) (S n).
Proof.
  intros rec n HR t cur ro v m Hm Hd Hc Hv.
  assert (Hleaf : leaf_ty t = true -> outL m t (at_break rec t cur ro v)).
  { intro Hl. destruct ro; [|apply leaf_okL; assumption].
    destruct t; try discriminate Hl; (rewrite at_break_ro; [exact I|]); first [left; reflexivity|right; reflexivity]. }
  destruct t; cbn [dec_body]; try (apply Hleaf; reflexivity); cbn [dep] in Hd.
  - (* slice *) destruct ro; [rewrite at_break_ro; [exact I|left; reflexivity]|].
    destruct m as [|k]; [lia|]. eapply slice_okL; eauto; lia.
  - (* array *) destruct ro; [rewrite at_break_ro; [exact I|left; reflexivity]|].
    destruct m as [|k]; [lia|]. eapply array_okL; eauto; lia.
  - (* map *) destruct ro; [rewrite at_break_ro; [exact I|left; reflexivity]|].
    destruct m as [|k]; [lia|]. eapply map_okL; eauto; lia.
  - (* pointer *)
    destruct m as [|k]; [lia|].
    pose proof (goodL_split _ _ _ Hc) as [Hct Hcs].
    destruct cur as [| | | | | | | |p| | | | | | |]; try discriminate Hct.
    match goal with |- context[if ?c then _ else _] => destruct c eqn:Ec end.
    + apply andb_prop in Ec. destruct Ec as [Ec Ero]. apply andb_prop in Ec. destruct Ec as [_ En].
      destruct ro; [discriminate Ero|]. unfold at_break. cbn [andb]. rewrite En. cbn [is_struct_kind]. reflexivity.
    + destruct p as [y|].
      * eapply outL_bind; [apply (HR t y ro v k); [lia|lia|rewrite <- goodL_ptr_some; exact Hc|exact Hv]|].
        intros y' Hy. cbn [outL]. rewrite goodL_ptr_some. exact Hy.
      * destruct ro; [exact I|].
        eapply outL_bind; [apply (HR t (zero t) false v k); [lia|lia|apply goodL_zero; lia|exact Hv]|].
        intros y' Hy. cbn [outL]. rewrite goodL_ptr_some. exact Hy.
  - (* interface{} *)
    assert (Hbrk : outL m TyIface (at_break rec TyIface cur ro v)).
    { destruct ro; [rewrite at_break_ro; [exact I|left; reflexivity]|]. apply iface_break_okL; [lia|exact Hv]. }
    pose proof (goodL_split _ _ _ Hc) as [Hct Hcs].
    destruct cur as [| | | | | | | | |d| | | | | |]; try discriminate Hct.
    destruct d as [[dt x]|]; [|exact Hbrk].
    destruct dt; try exact Hbrk. destruct x as [| | | | | | | |p| | | | | | |]; try exact Hbrk.
    destruct p as [y|]; [|exact Hbrk].
    match goal with |- context[if ?c then _ else _] => destruct c end; [|exact Hbrk].
    destruct m as [|k]; [lia|]. cbn [fits] in Hcs. cbn [has_type negb andb] in Hct.
    apply andb_prop in Hcs. destruct Hcs as [Hde Hfy]. apply Nat.ltb_lt in Hde.
    eapply outL_bind; [apply (HR dt y ro v k); [lia|exact Hde|apply goodL_intro; assumption|exact Hv]|].
    intros y' Hy. cbn [outL]. apply goodL_split in Hy. destruct Hy as [Y1 Y2].
    apply goodL_intro; [cbn [has_type negb andb]; exact Y1|cbn [fits]].
    apply andb_true_intro. split; [apply Nat.ltb_lt; exact Hde|exact Y2].
  - (* struct *) eapply at_break_struct_okL; eauto.
Qed.

Lemma decto_recL : forall n, RECL (decto n) n.
Proof.
  induction n as [|n IH].
  - intros t cur ro v m Hm Hd. lia.
  - change (decto (S n)) with (dec_body (decto n)). apply step_okL. exact IH.
Qed.

(* ---- the theorems -------------------------------------------------------------------------------------------------- *)
Lemma outL_safe : forall m t r, outL m t r -> safe_out t r.
Proof. intros m t r H. destruct r; cbn in *; try exact H. apply goodL_split in H. tauto. Qed.

(* decodeTo on ANY type and ANY well-typed current content: with fuel above the depth of the type and above what the
   pointers held by the interface{} values of the current content need, a well-typed value or an error *)
Theorem decode_safe_any_cur : forall t fuel cur ro v,
  (dep t < fuel)%nat -> has_type cur t = true -> fits fuel cur = true -> wfv v = true ->
  safe_out t (decto fuel t cur ro v).
Proof.
  intros t fuel cur ro v Hd Hc Hs Hv. apply (outL_safe fuel).
  apply decto_recL; [apply le_n|exact Hd|apply goodL_intro; assumption|exact Hv].
Qed.
Theorem decode_any_cur_result : forall t fuel cur ro v g,
  (dep t < fuel)%nat -> has_type cur t = true -> fits fuel cur = true -> wfv v = true ->
  decto fuel t cur ro v = Ok g -> has_type g t = true /\ fits fuel g = true.
Proof.
  intros t fuel cur ro v g Hd Hc Hs Hv E.
  pose proof (decto_recL fuel t cur ro v fuel (le_n _) Hd (goodL_intro _ _ _ Hc Hs) Hv) as H. rewrite E in H.
  apply goodL_split. exact H.
Qed.

(* every value fits SOME level: [lvl g] *)
Fixpoint lvl (g : gval) : nat :=
  match g with
  | GSlice (Some l) | GArr l | GStruct l => S (fold_right (fun x a => Nat.max (lvl x) a) O l)
  | GMap (Some mm) => S (fold_right (fun kv a => Nat.max (lvl (snd kv)) a) O mm)
  | GPtr (Some x) => S (lvl x)
  | GIface (Some (TyPtr e, GPtr (Some y))) => S (Nat.max (S (dep e)) (lvl y))
  | _ => O
  end.

Lemma lvl_max_ge : forall (l : list gval) x, In x l -> (lvl x <= fold_right (fun x a => Nat.max (lvl x) a) O l)%nat.
Proof.
  induction l as [|y r IH]; intros x H; [contradiction|]. cbn [fold_right]. destruct H as [->|H]; [lia|].
  specialize (IH x H). lia.
Qed.
Lemma lvl_max_ge2 : forall (l : list (text * gval)) kv, In kv l ->
  (lvl (snd kv) <= fold_right (fun kv a => Nat.max (lvl (snd kv)) a) O l)%nat.
Proof.
  induction l as [|y r IH]; intros x H; [contradiction|]. cbn [fold_right]. destruct H as [->|H]; [lia|].
  specialize (IH x H). lia.
Qed.

Lemma fits_lvl : forall m g, (lvl g <= m)%nat -> fits m g = true.
Proof.
  induction m as [|k IH]; intros g H.
  - destruct g as [| | | |b|[l|]|l|[mm|]|[x|]|[[dt x]|]|l| | | | |]; cbn [lvl] in H; try reflexivity; try lia.
    destruct dt; try reflexivity. destruct x as [| | | | | | | |[y|]| | | | | | |]; try reflexivity. lia.
  - assert (HL : forall l, (S (fold_right (fun x a => Nat.max (lvl x) a) O l) <= S k)%nat -> forallb (fits k) l = true).
    { intros l Hl. apply forallb_forall. intros x Hx. apply IH. pose proof (lvl_max_ge l x Hx). lia. }
    destruct g as [| | | |b|[l|]|l|[mm|]|[x|]|[[dt x]|]|l| | | | |]; cbn [lvl] in H; cbn [fits]; try reflexivity;
      try (apply HL; exact H).
    + apply forallb_forall. intros kv Hkv. apply IH. pose proof (lvl_max_ge2 mm kv Hkv). lia.
    + apply IH. lia.
    + destruct dt; try reflexivity. destruct x as [| | | | | | | |[y|]| | | | | | |]; try reflexivity.
      apply andb_true_intro. split; [apply Nat.ltb_lt; lia|apply IH; lia].
Qed.

(* the statement without [fits]: any well-typed current content, fuel above dep t and lvl cur *)
Theorem decode_safe_well_typed_cur : forall t fuel cur ro v,
  (dep t < fuel)%nat -> (lvl cur <= fuel)%nat -> has_type cur t = true -> wfv v = true ->
  safe_out t (decto fuel t cur ro v).
Proof.
  intros t fuel cur ro v Hd Hl Hc Hv. apply decode_safe_any_cur; try assumption. apply fits_lvl. exact Hl.
Qed.
Corollary decode_never_panics_well_typed_cur : forall t cur ro v,
  has_type cur t = true -> wfv v = true ->
  exists fuel0, forall fuel, (fuel0 <= fuel)%nat -> safe_out t (decto fuel t cur ro v).
Proof.
  intros t cur ro v Hc Hv. exists (S (dep t + lvl cur)). intros fuel Hf.
  apply decode_safe_well_typed_cur; try assumption; lia.
Qed.
