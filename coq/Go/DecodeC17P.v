(* DecodeC17P.v — the C17 headline assembled: "never panics" on every type (Go/DecodeSafe2P.v) turns every
   "is not Ok" result of Go/DecodeFaithful2P.v (soundness of [represents] on rty2) and Go/DecodeBadP.v ([bad]: a
   rejected leaf at a visited position, any type) into "= Err". *)
From Coq Require Import String List NArith ZArith Bool Lia.
From IonV Require Import Base.Wire Data.Ion Num.Float Go.GoTypes Go.Fields Go.Decode Go.MarshalSpec Go.MarshalSpec2
  Go.MarshalP Go.DecodeSafeP Go.DecodeSafe2P Go.DecodeSpec2 Go.DecodeFaithful2P Go.DecodeBad Go.DecodeBadP.
Import ListNotations.
Open Scope N_scope.

(* on EVERY target type: what is not a success is the error *)
Lemma not_ok_is_err : forall t v, wfv v = true -> (forall g, decode_to t v <> Ok g) -> decode_to t v = Err.
Proof.
  intros t v Hv H. destruct (decode_to_never_panics t v Hv) as [H1 H2].
  destruct (decode_to t v) as [g| | |]; [exfalso; eapply H; reflexivity|reflexivity|contradiction|contradiction].
Qed.

(* the property on rty2: a value that represents the Ion value, or an error *)
Theorem faithful_or_error_rty2 : forall t v, rty2 t = true -> wfv v = true -> faithful_out t v (decode_to t v).
Proof.
  intros t v Ht Hv. destruct (decode_to_never_panics t v Hv) as [H1 H2]. apply faithful_or_error; assumption.
Qed.
Theorem no_representative_is_err : forall t v, rty2 t = true -> wfv v = true ->
  (forall g, ~ represents t g v) -> decode_to t v = Err.
Proof. intros t v Ht Hv H. apply not_ok_is_err; [exact Hv|]. apply no_representative_not_ok; assumption. Qed.

(* a rejected leaf at a visited position, ANY target type (embedded structs, interfaces elsewhere in the type, ...) *)
Theorem bad_is_err : forall arr t v, wfv v = true -> bad arr t v = true -> decode_to t v = Err.
Proof. intros arr t v Hv H. apply not_ok_is_err; [exact Hv|]. apply (bad_decode_to arr); exact H. Qed.

(* C17_int_no_wrap inside every container, every integer kind *)
Theorem int_out_of_range_in_slice_err : forall k z pre post, (z < ik_min k \/ ik_max k < z)%Z ->
  wfv (VList (pre ++ VInt z :: post)) = true -> decode_to (TySlice (TyInt k)) (VList (pre ++ VInt z :: post)) = Err.
Proof. intros k z pre post H Hv. apply not_ok_is_err; [exact Hv|]. intro g. apply int_out_of_range_in_slice_unmarshal. exact H. Qed.
Theorem int_out_of_range_in_array_err : forall k z n pre post, (z < ik_min k \/ ik_max k < z)%Z ->
  (length pre < N.to_nat n)%nat -> wfv (VList (pre ++ VInt z :: post)) = true ->
  decode_to (TyArray n (TyInt k)) (VList (pre ++ VInt z :: post)) = Err.
Proof. intros k z n pre post H Hl Hv. apply not_ok_is_err; [exact Hv|]. intro g. apply int_out_of_range_in_array_unmarshal; assumption. Qed.
Theorem int_out_of_range_in_map_err : forall k z key pre post, (z < ik_min k \/ ik_max k < z)%Z ->
  wfv (VStruct (pre ++ (SymText key, VInt z) :: post)) = true ->
  decode_to (TyMap (TyInt k)) (VStruct (pre ++ (SymText key, VInt z) :: post)) = Err.
Proof. intros k z key pre post H Hv. apply not_ok_is_err; [exact Hv|]. intro g. apply int_out_of_range_in_map_unmarshal. exact H. Qed.
Theorem int_out_of_range_under_ptr_err : forall k z, (z < ik_min k \/ ik_max k < z)%Z ->
  decode_to (TyPtr (TyInt k)) (VInt z) = Err.
Proof. intros k z H. apply not_ok_is_err; [reflexivity|]. intro g. apply int_out_of_range_under_ptr_unmarshal. exact H. Qed.
Theorem int_out_of_range_in_struct_field_err : forall k z fs fields key fl i ex pre post,
  (z < ik_min k \/ ik_max k < z)%Z ->
  fields_for (TyStruct fs) = Ok fields -> find_field_by fields key = Some fl -> f_path fl = [i] ->
  nth_field fs i = Some (TyInt k, ex) ->
  wfv (VStruct (pre ++ (SymText key, VInt z) :: post)) = true ->
  decode_to (TyStruct fs) (VStruct (pre ++ (SymText key, VInt z) :: post)) = Err.
Proof.
  intros k z fs fields key fl i ex pre post H Hf Hk Hp Hn Hv. apply not_ok_is_err; [exact Hv|]. intro g.
  eapply int_out_of_range_in_struct_field_unmarshal; eassumption.
Qed.

(* the unstorable leaves of the spec (int out of range, float32 overflow, symbol without text, class mismatch), at the
   top and one level inside each container of rty2 *)
Theorem unstorable_is_err : forall t v, rty2 t = true -> wfv v = true -> unstorable t v -> decode_to t v = Err.
Proof. intros t v Ht Hv H. apply not_ok_is_err; [exact Hv|]. intro g. apply decode_unstorable; assumption. Qed.
Theorem slice_elem_unstorable_is_err : forall e v l x, rty2 e = true -> wfv v = true ->
  body_of v = VList l \/ body_of v = VSexp l -> In x l -> unstorable e x -> decode_to (TySlice e) v = Err.
Proof. intros e v l x He Hv Hb Hi Hu. apply not_ok_is_err; [exact Hv|]. intro g. eapply decode_slice_elem_unstorable; eassumption. Qed.
Theorem array_elem_unstorable_is_err : forall n e v l i x, rty2 e = true -> wfv v = true ->
  body_of v = VList l \/ body_of v = VSexp l -> nth_error l i = Some x -> (i < N.to_nat n)%nat ->
  unstorable e x -> decode_to (TyArray n e) v = Err.
Proof. intros n e v l i x He Hv Hb Hi Hl Hu. apply not_ok_is_err; [exact Hv|]. intro g. eapply decode_array_elem_unstorable; eassumption. Qed.
Theorem map_value_unstorable_is_err : forall e v fl k x, rty2 e = true -> wfv v = true ->
  body_of v = VStruct fl -> In (SymText k, x) fl -> unstorable e x -> decode_to (TyMap e) v = Err.
Proof. intros e v fl k x He Hv Hb Hi Hu. apply not_ok_is_err; [exact Hv|]. intro g. eapply decode_map_value_unstorable; eassumption. Qed.
Theorem ptr_target_unstorable_is_err : forall e v, rty2 (TyPtr e) = true -> wfv v = true ->
  is_null v = false -> unstorable e v -> decode_to (TyPtr e) v = Err.
Proof. intros e v He Hv Hn Hu. apply not_ok_is_err; [exact Hv|]. intro g. apply decode_ptr_target_unstorable; assumption. Qed.
Theorem struct_field_unstorable_is_err : forall fs v fl i ex tag ty x, rty2 (TyStruct fs) = true -> wfv v = true ->
  body_of v = VStruct fl -> field_decl fs i = Some (ex, tag, ty) -> skipped ex tag = false ->
  ion_for (fields2 fs 0) i fl = [x] -> unstorable ty x -> decode_to (TyStruct fs) v = Err.
Proof.
  intros fs v fl i ex tag ty x Ht Hv Hb Hd Hs Hi Hu. apply not_ok_is_err; [exact Hv|]. intro g.
  eapply decode_struct_field_unstorable; eassumption.
Qed.
