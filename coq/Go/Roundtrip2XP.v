(* Roundtrip2XP.v — around the theorem of Go/Roundtrip2EP.v: rty2 contains rty (and needs no side condition
   there), an example type, and the witnesses for everything rty2 / ok2 leave out. *)
From Coq Require Import String List NArith ZArith Bool Lia ZifyBool ZifyN ZifyNat Arith.
From IonV Require Import Base.Wire Data.Ion Num.Float Bin.BinWriter
  Go.GoTypes Go.Fields Go.Encode Go.Decode Go.MarshalSpec Go.MarshalP Go.DecodeSafeP Go.RoundtripP
  Go.MarshalSpec2 Go.Roundtrip2P Go.Roundtrip2EP.
Import ListNotations.
Open Scope N_scope.

(* ---- rty is inside rty2, and every value of an rty type satisfies the side condition ------------------------ *)
Lemma fld_plain : forall name tag ty i, no_comma tag = true ->
  fld name tag ty i = {| f_name := field_ion_name name tag; f_typ := deref1 ty; f_path := [i]; f_omit := false;
                         f_hint := TNoType; f_ann := false |}.
Proof.
  intros name tag ty i H. unfold fld, parse_ion_tag. rewrite cut_comma_nocomma by exact H. cbn [rev app fst snd setopts].
  unfold field_ion_name. destruct tag; reflexivity.
Qed.
Lemma skipped_plain : forall tag, list_eqb tag [45] = false -> skipped true tag = false.
Proof. intros tag H. unfold skipped, tok_is. change (bytes_of_string "-") with [45]. rewrite H. reflexivity. Qed.

Lemma rty_rty2 : forall t, rty t = true -> rty2 t = true.
Proof.
  apply (gty_mut (fun t => rty t = true -> rty2 t = true)
                 (fun fs => rfs fs = true -> forall i, rfs2 fs i = true));
    try (intro Hx; discriminate Hx); try reflexivity; try (intros; reflexivity).
  - intros e IH H. apply IH. exact H.
  - intros n e IH H. apply IH. exact H.
  - intros e IH H. apply IH. exact H.
  - intros e IH H. cbn [rty rty2] in *. apply andb_prop in H. destruct H as [H1 H2]. rewrite (IH H1), H2. reflexivity.
  - intros fs IH H. cbn [rty rty2] in *. apply andb_prop in H. destruct H as [H1 H2].
    rewrite (IH H1 0%nat). rewrite (names2_rfs fs 0 H1). exact H2.
  - intros name ex emb tag ty IH1 rest IH2 Hr i. cbn [rfs] in Hr. repeat (apply andb_prop in Hr; destruct Hr as [Hr ?]).
    destruct ex; [|discriminate Hr]. apply negb_true_iff in H1. apply negb_true_iff in H3. subst emb.
    cbn [rfs2 negb andb]. rewrite (skipped_plain tag H1). rewrite (fld_plain name tag ty i H2). cbn [f_ann negb andb].
    rewrite (IH1 H0), (IH2 H (S i)). reflexivity.
Qed.

Lemma rty_ok2 : forall t, rty t = true -> forall g, ok2 t TNoType g = true.
Proof.
  apply (gty_mut (fun t => rty t = true -> forall g, ok2 t TNoType g = true)
                 (fun fs => rfs fs = true -> forall l i, ok2_fields fs l i = true));
    try (intro Hx; discriminate Hx); try (intros; destruct g; reflexivity).
  - intros e IH H g. destruct g; try reflexivity. destruct l as [l|]; [|reflexivity]. cbn [ok2].
    apply forallb_forall. intros x _. apply IH. exact H.
  - intros n e IH H g. destruct g; try reflexivity. cbn [ok2]. apply forallb_forall. intros x _. apply IH. exact H.
  - intros e IH H g. destruct g; try reflexivity. destruct m as [m|]; [|reflexivity]. cbn [ok2].
    apply forallb_forall. intros x _. apply IH. exact H.
  - intros e IH H g. cbn [rty] in H. apply andb_prop in H. destruct H as [H1 _].
    destruct g; try reflexivity. destruct p as [x|]; [|reflexivity]. cbn [ok2]. apply IH. exact H1.
  - intros fs IH H g. cbn [rty] in H. apply andb_prop in H. destruct H as [H1 _].
    destruct g; try reflexivity. cbn [ok2]. apply IH. exact H1.
  - intros _ l i. reflexivity.
  - intros name ex emb tag ty IH1 rest IH2 Hr l i. cbn [rfs] in Hr. repeat (apply andb_prop in Hr; destruct Hr as [Hr ?]).
    destruct ex; [|discriminate Hr]. apply negb_true_iff in H1.
    destruct l as [|x r]; [reflexivity|]. cbn [ok2_fields]. rewrite (skipped_plain tag H1). rewrite (fld_plain name tag ty i H2).
    cbn [f_hint f_omit andb negb orb]. rewrite (IH1 H0 x), (IH2 H r (S i)). reflexivity.
Qed.

Lemma has_type2_rty : forall t g, rty t = true -> has_type g t = true -> has_type2 g t = true.
Proof. intros t g Hr Hg. unfold has_type2. rewrite Hg, (rty_ok2 t Hr g). reflexivity. Qed.

(* ---- an example type mixing the new features ---------------------------------------------------------------------- *)
(* type T struct {
     Name   string             `ion:"name,symbol"`
     hidden int
     Skip   []string           `ion:"-"`
     Data   []byte             `ion:"data,omitempty,clob"`
     Xs     [][2]float32       `ion:",sexp"`
     Any    interface{}        `ion:"any,omitempty"`
     P      *int8              `ion:",omitempty"`
     Syms   map[string][]string `ion:",symbol"`
     When   time.Time
   } *)
Definition ex2_type : gty :=
  TyStruct (FCons (s "Name") true false (s "name,symbol") TyString
           (FCons (s "hidden") false false [] (TyInt IInt)
           (FCons (s "Skip") true false (s "-") (TySlice TyString)
           (FCons (s "Data") true false (s "data,omitempty,clob") (TySlice (TyInt U8))
           (FCons (s "Xs") true false (s ",sexp") (TySlice (TyArray 2 TyF32))
           (FCons (s "Any") true false (s "any,omitempty") TyIface
           (FCons (s "P") true false (s ",omitempty") (TyPtr (TyInt I8))
           (FCons (s "Syms") true false (s ",symbol") (TyMap (TySlice TyString))
           (FCons (s "When") true false [] TyTime FNil))))))))).
Definition ex2_val : gval :=
  GStruct [GString (s "abc"); GInt 0; GSlice None; GBytes (Some [1; 2]);
           GSlice (Some [GArr [GFloat 1065353216; GFloat 2147483648]]); GIface (Some (TyString, GString (s "x"))); GPtr None;
           GMap (Some [(s "k", GSlice (Some [GString (s "a"); GString (s "$x")]))]); GTime [192; 15; 231]].
Lemma ex2_rty2 : rty2 ex2_type = true /\ rty ex2_type = false.
Proof. split; vm_compute; reflexivity. Qed.
Lemma ex2_val_ok : has_type2 ex2_val ex2_type = true.
Proof. vm_compute. reflexivity. Qed.

(* ---- what stays outside: witnesses ------------------------------------------------------------------------------------ *)
Definition st1 (tag : string) (ty : gty) : gty := TyStruct (FCons (s "A") true false (s tag) ty FNil).

(* without the side condition ok2 the statement on rty2 is false *)
Definition C16_roundtrip_rty2_all_values_stmt : Prop :=
  forall t g, rty2 t = true -> has_type g t = true -> roundtrip t g = Ok g.

(* omitempty: an empty non-nil slice / []byte / map is omitted and comes back nil (the documented effect of omitempty) *)
Lemma omitempty_empty_slice_comes_back_nil :
  rty2 (st1 "a,omitempty" (TySlice (TyInt IInt))) = true /\
  roundtrip (st1 "a,omitempty" (TySlice (TyInt IInt))) (GStruct [GSlice (Some [])]) = Ok (GStruct [GSlice None]) /\
  roundtrip (st1 "a,omitempty" (TySlice (TyInt U8))) (GStruct [GBytes (Some [])]) = Ok (GStruct [GBytes None]) /\
  roundtrip (st1 "a,omitempty" (TyMap (TyInt IInt))) (GStruct [GMap (Some [])]) = Ok (GStruct [GMap None]).
Proof. repeat split; vm_compute; reflexivity. Qed.
Lemma roundtrip_rty2_all_values_refuted : ~ C16_roundtrip_rty2_all_values_stmt.
Proof.
  intro H. specialize (H (st1 "a,omitempty" (TySlice (TyInt IInt))) (GStruct [GSlice (Some [])]) eq_refl eq_refl).
  vm_compute in H. discriminate H.
Qed.
(* omitempty: -0.0 is empty and comes back as +0.0 *)
Lemma omitempty_negzero_comes_back_poszero :
  roundtrip (st1 "a,omitempty" TyF64) (GStruct [GFloat (2 ^ 63)]) = Ok (GStruct [GFloat 0]).
Proof. vm_compute. reflexivity. Qed.
(* unexported and "-" fields are not marshalled: they come back zero *)
Definition st_hidden : gty :=
  TyStruct (FCons (s "a") false false [] (TyInt IInt) (FCons (s "B") true false (s "-") (TyInt IInt)
           (FCons (s "C") true false [] (TyInt IInt) FNil))).
Lemma hidden_fields_come_back_zero :
  rty2 st_hidden = true /\ roundtrip st_hidden (GStruct [GInt 5; GInt 6; GInt 7]) = Ok (GStruct [GInt 0; GInt 0; GInt 7]).
Proof. split; vm_compute; reflexivity. Qed.
(* float32: a signalling NaN is quieted by float64(x) *)
Lemma f32_signalling_nan_quieted : roundtrip TyF32 (GFloat 2139095041) = Ok (GFloat 2143289345).
Proof. vm_compute. reflexivity. Qed.
(* known finding symbol-hinted-dollar-digits-string-written-as-symbol-id *)
Lemma symbol_hint_dollar_digits_refuted :
  rty2 (st1 ",symbol" TyString) = true /\ roundtrip (st1 ",symbol" TyString) (GStruct [GString (s "$7")]) = Err.
Proof. split; vm_compute; reflexivity. Qed.
(* interface{}: the dynamic type is chosen by Decoder from the Ion value: every integer kind comes back as int
   (int64 beyond int32), big.Int as int / int64 / *big.Int, float32 as float64 *)
Lemma iface_int8_comes_back_int :
  roundtrip TyIface (GIface (Some (TyInt I8, GInt 5))) = Ok (GIface (Some (TyInt IInt, GInt 5))) /\
  roundtrip TyIface (GIface (Some (TyInt I64, GInt 5))) = Ok (GIface (Some (TyInt IInt, GInt 5))) /\
  roundtrip TyIface (GIface (Some (TyInt U64, GInt 4294967296))) = Ok (GIface (Some (TyInt I64, GInt 4294967296))) /\
  roundtrip TyIface (GIface (Some (TyBigInt, GBigInt 5))) = Ok (GIface (Some (TyInt IInt, GInt 5))) /\
  roundtrip TyIface (GIface (Some (TyF32, GFloat 1065353216))) = Ok (GIface (Some (TyF64, GFloat 4607182418800017408))).
Proof. repeat split; vm_compute; reflexivity. Qed.
(* known finding hinted-value-inside-interface-changes-type *)
Lemma iface_symbol_hint_refuted :
  roundtrip (st1 ",symbol" TyIface) (GStruct [GIface (Some (TyString, GString (s "a")))]) =
  Ok (GStruct [GIface (Some (TyPtr TySymTok, GPtr (Some (GSymTok (tok_text (s "a"))))))]).
Proof. vm_compute. reflexivity. Qed.
(* known finding interface-container-leaves-come-back-as-pointers *)
Lemma iface_container_refuted :
  roundtrip TyIface (GIface (Some (TySlice TyString, GSlice (Some [GString (s "a")])))) =
  Ok (GIface (Some (TySlice TyIface, GSlice (Some [GIface (Some (TyPtr TyString, GPtr (Some (GString (s "a")))))])))).
Proof. vm_compute. reflexivity. Qed.
(* known finding pointer-to-nil-collapses-to-nil-pointer: why TyPtr needs a non-nullable pointee, and why a nil []byte
   inside an interface{} is excluded *)
Lemma ptr_to_nil_refuted :
  roundtrip (TyPtr (TySlice (TyInt U8))) (GPtr (Some (GBytes None))) = Ok (GPtr None) /\
  roundtrip TyIface (GIface (Some (TySlice (TyInt U8), GBytes None))) = Ok (GIface None).
Proof. split; vm_compute; reflexivity. Qed.

(* ---- embedded structs (not in rty2: only examples and the known finding) ------------------------------------------------ *)
(* type In struct{ X int; Y string `ion:"y"` };  type Out struct{ In; *Q; Z bool }; type Q struct{ W int `ion:"w,omitempty"` } *)
Definition emb_in : gty := TyStruct (FCons (s "X") true false [] (TyInt IInt) (FCons (s "Y") true false (s "y") TyString FNil)).
Definition emb_q : gty := TyStruct (FCons (s "W") true false (s "w,omitempty") (TyInt IInt) FNil).
Definition emb_out : gty :=
  TyStruct (FCons (s "In") true true [] emb_in (FCons (s "Q") true true [] (TyPtr emb_q) (FCons (s "Z") true false [] TyBool FNil))).
Lemma embedded_examples :
  roundtrip emb_out (GStruct [GStruct [GInt 3; GString (s "v")]; GPtr None; GBool true]) =
    Ok (GStruct [GStruct [GInt 3; GString (s "v")]; GPtr None; GBool true]) /\
  roundtrip emb_out (GStruct [GStruct [GInt 3; GString (s "v")]; GPtr (Some (GStruct [GInt 9])); GBool true]) =
    Ok (GStruct [GStruct [GInt 3; GString (s "v")]; GPtr (Some (GStruct [GInt 9])); GBool true]).
Proof. split; vm_compute; reflexivity. Qed.
(* known finding embedded-pointer-to-fieldless-struct-comes-back-nil *)
Lemma embedded_ptr_fieldless_refuted :
  roundtrip emb_out (GStruct [GStruct [GInt 3; GString (s "v")]; GPtr (Some (GStruct [GInt 0])); GBool true]) =
    Ok (GStruct [GStruct [GInt 3; GString (s "v")]; GPtr None; GBool true]).
Proof. vm_compute. reflexivity. Qed.
