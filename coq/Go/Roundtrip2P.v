(* Roundtrip2P.v — C16 on the wider sub-universe [rty2] (Go/MarshalSpec2.v), by induction on the type through
   the documented image under a hint [ion2]:
   (1) decode_ion2 : decoding the image into a zero value gives the value back;
   (2) encode_ion2 : Marshal's call sequence denotes exactly that image (any hint, any map mode);
   (3) roundtrip_rty2 : Unmarshal (Marshal v) = v. *)
From Coq Require Import String List NArith ZArith Bool Lia ZifyBool ZifyN ZifyNat Arith.
From IonV Require Import Base.Wire Data.Ion Num.Float Bin.BinWriter
  Go.GoTypes Go.Fields Go.Encode Go.Decode Go.MarshalSpec Go.MarshalP Go.DecodeSafeP Go.RoundtripP Go.MarshalSpec2.
Import ListNotations.
Open Scope N_scope.

(* ---- fields ------------------------------------------------------------------------------------------ *)
Lemma setopts_name : forall opts f, f_name (setopts f opts) = f_name f.
Proof.
  intros opts f. unfold setopts. destruct opts; [reflexivity|].
  generalize (split_on 44 (n :: opts) []). intro l. revert f.
  induction l as [|o l IH]; intro f; cbn; [reflexivity|].
  rewrite IH. unfold setopt.
  repeat match goal with |- context[if ?c then _ else _] => destruct c end; reflexivity.
Qed.
Lemma fld_path : forall name tag ty i, f_path (fld name tag ty i) = [i].
Proof. intros. unfold fld. rewrite setopts_path. reflexivity. Qed.
Lemma fld_name : forall name tag ty i,
  f_name (fld name tag ty i) = match fst (parse_ion_tag tag) with [] => name | tn => tn end.
Proof. intros. unfold fld. rewrite setopts_name. reflexivity. Qed.

Lemma skipped_false : forall ex tag, skipped ex tag = false -> ex = true /\ tok_is tag "-" = false.
Proof. intros ex tag H. unfold skipped in H. apply orb_false_iff in H. destruct H as [H1 H2]. destruct ex; [auto|discriminate H1]. Qed.

Lemma inspect_fields2 : forall fs i acc,
  rfs2 fs i = true -> distinct (names2 fs i) = true ->
  Forall (fun f => Forall (fun n => list_eqb (f_name f) n = false) (names2 fs i)) acc ->
  inspect fs [] i acc = Ok (acc ++ fields2 fs i).
Proof.
  induction fs as [|name ex emb tag ty rest IH]; intros i acc Hr Hd Hacc.
  - cbn. rewrite app_nil_r. reflexivity.
  - cbn [rfs2] in Hr. apply andb_prop in Hr. destruct Hr as [Hr Hr3]. apply andb_prop in Hr. destruct Hr as [Hr1 Hr2].
    destruct emb; [discriminate Hr1|]. unfold names2 in *. cbn [fields2] in *.
    cbn [inspect visible andb negb].
    destruct (skipped ex tag) eqn:Hsk.
    + assert (E : (if negb ex then true else tok_is tag "-") = true).
      { unfold skipped in Hsk. destruct ex; cbn in *; [exact Hsk|reflexivity]. }
      destruct (negb ex); [apply IH; assumption|]. rewrite E. apply IH; assumption.
    + destruct (skipped_false _ _ Hsk) as [-> Htk]. cbn [negb]. rewrite Htk.
      apply andb_prop in Hr2. destruct Hr2 as [Ha Hty].
      cbn [map distinct] in Hd. apply andb_prop in Hd. destruct Hd as [Hd1 Hd2]. apply negb_true_iff in Hd1.
      pose proof (fld_name name tag ty i) as Hnm.
      assert (Hfl : fld name tag ty i =
                    setopts {| f_name := match fst (parse_ion_tag tag) with [] => name | tn => tn end;
                               f_typ := deref1 ty; f_path := [i]; f_omit := false; f_hint := TNoType; f_ann := false |}
                            (snd (parse_ion_tag tag))) by reflexivity.
      destruct (parse_ion_tag tag) as [tn opts]. cbn [fst snd] in *.
      assert (Hdig : match tn with [] | _ => false end = false) by (destruct tn; reflexivity).
      rewrite Hdig. unfold add_field.
      assert (Hnm' : match tn with [] => name | _ :: _ => tn end = f_name (fld name tag ty i)).
      { rewrite Hnm. destruct tn; reflexivity. }
      rewrite Hnm'. rewrite has_name_false.
      * cbn [bind app]. rewrite <- Hnm'.
        change (match ty with TyPtr e => e | _ => ty end) with (deref1 ty).
        replace (setopts {| f_name := match tn with [] => name | _ :: _ => tn end; f_typ := deref1 ty; f_path := [i];
                            f_omit := false; f_hint := TNoType; f_ann := false |} opts) with (fld name tag ty i)
          by (rewrite Hfl; destruct tn; reflexivity).
        rewrite IH; [rewrite <- app_assoc; reflexivity|assumption|assumption|].
        apply Forall_app. split.
        -- eapply Forall_impl; [|exact Hacc]. intros a Ha'. cbn [map] in Ha'. inversion Ha'; assumption.
        -- constructor; [|constructor]. apply existsb_false_forall. exact Hd1.
      * eapply Forall_impl; [|exact Hacc]. intros a Ha'. cbn [map] in Ha'. inversion Ha'; assumption.
Qed.

Lemma fields_for2 : forall fs, rfs2 fs 0 = true -> distinct (names2 fs 0) = true ->
  fields_for (TyStruct fs) = Ok (fields2 fs 0).
Proof. intros fs Hr Hd. cbn [fields_for]. rewrite inspect_fields2; auto. Qed.

Lemma first_ann2 : forall fs i, rfs2 fs i = true -> first_ann (fields2 fs i) = None.
Proof.
  induction fs as [|name ex emb tag ty rest IH]; intros i Hr; [reflexivity|].
  cbn [rfs2] in Hr. apply andb_prop in Hr. destruct Hr as [Hr Hr3]. apply andb_prop in Hr. destruct Hr as [Hr1 Hr2].
  cbn [fields2]. destruct (skipped ex tag); [apply IH; exact Hr3|].
  apply andb_prop in Hr2. destruct Hr2 as [Ha _]. apply negb_true_iff in Ha.
  cbn [first_ann]. rewrite Ha. apply IH. exact Hr3.
Qed.
Lemma any_ann2 : forall fs i, rfs2 fs i = true -> any_ann (fields2 fs i) = false.
Proof.
  induction fs as [|name ex emb tag ty rest IH]; intros i Hr; [reflexivity|].
  cbn [rfs2] in Hr. apply andb_prop in Hr. destruct Hr as [Hr Hr3]. apply andb_prop in Hr. destruct Hr as [Hr1 Hr2].
  cbn [fields2]. destruct (skipped ex tag); [apply IH; exact Hr3|].
  apply andb_prop in Hr2. destruct Hr2 as [Ha _]. apply negb_true_iff in Ha.
  cbn [any_ann]. rewrite Ha. apply IH. exact Hr3.
Qed.

(* ---- zero values ---------------------------------------------------------------------------------------- *)
Lemma all_zero_repeat : forall e l,
  (forall g, has_type g e = true -> is_zero e g = true -> g = zero e) ->
  forallb (fun x => has_type x e) l = true -> forallb (is_zero e) l = true -> l = repeat (zero e) (length l).
Proof.
  intros e l IH. induction l as [|x r IHl]; intros H1 H2; [reflexivity|].
  cbn [forallb] in *. apply andb_prop in H1. apply andb_prop in H2. destruct H1 as [A1 A2]. destruct H2 as [B1 B2].
  cbn [length repeat]. rewrite <- IHl by assumption. rewrite (IH x A1 B1). reflexivity.
Qed.

Lemma is_zero_eq : forall t g, has_type g t = true -> is_zero t g = true -> g = zero t.
Proof.
  apply (gty_mut (fun t => forall g, has_type g t = true -> is_zero t g = true -> g = zero t)
                 (fun fs => forall l, has_type (GStruct l) (TyStruct fs) = true -> is_zero_fields fs l = true ->
                                      l = zero_fields fs)).
  - intros g H Z. destruct g; try discriminate Z. cbn in Z. destruct b; [discriminate Z|reflexivity].
  - intros k g H Z. destruct g; try discriminate Z. cbn in Z. apply Z.eqb_eq in Z. subst. reflexivity.
  - intros g H Z. destruct g; try discriminate Z. cbn in Z. apply N.eqb_eq in Z. subst. reflexivity.
  - intros g H Z. destruct g; try discriminate Z. cbn in Z. apply N.eqb_eq in Z. subst. reflexivity.
  - intros g H Z. destruct g; try discriminate Z. cbn in Z. destruct t; [reflexivity|discriminate Z].
  - intros e IH g H Z. destruct g; try discriminate Z.
    + destruct b; [discriminate Z|]. cbn [has_type] in H. apply andb_prop in H. destruct H as [Hu _].
      cbn [zero]. rewrite Hu. reflexivity.
    + destruct l; [discriminate Z|]. cbn [has_type] in H. apply andb_prop in H. destruct H as [Hu _].
      apply negb_true_iff in Hu. cbn [zero]. rewrite Hu. reflexivity.
  - intros n e IH g H Z. destruct g; try discriminate Z. cbn [has_type] in H. apply andb_prop in H. destruct H as [Hn Hl].
    cbn [is_zero] in Z. cbn [zero]. apply N.eqb_eq in Hn.
    replace (N.to_nat n) with (length l) by lia. f_equal. apply all_zero_repeat; assumption.
  - intros e IH g H Z. destruct g; try discriminate Z. destruct m; [discriminate Z|reflexivity].
  - intros e IH g H Z. destruct g; try discriminate Z. destruct p; [discriminate Z|reflexivity].
  - intros g H Z. destruct g; try discriminate Z. destruct d; [discriminate Z|reflexivity].
  - intros fs IH g H Z. destruct g; try discriminate Z. cbn [is_zero] in Z. cbn [zero]. f_equal. apply IH; assumption.
  - intros g H Z. destruct g; try discriminate Z. cbn in Z. destruct body; [reflexivity|discriminate Z].
  - intros g H Z. destruct g; try discriminate Z. cbn in Z. unfold dec_zero in Z.
    apply andb_prop in Z. destruct Z as [Z Z3]. apply andb_prop in Z. destruct Z as [Z1 Z2].
    destruct d as [c e nz]. cbn in *. apply Z.eqb_eq in Z1. apply Z.eqb_eq in Z2. apply negb_true_iff in Z3. subst. reflexivity.
  - intros g H Z. destruct g; try discriminate Z. cbn in Z. apply Z.eqb_eq in Z. subst. reflexivity.
  - intros g H Z. destruct g; try discriminate Z. cbn in Z. destruct body; [reflexivity|discriminate Z].
  - intros g H Z. destruct g; discriminate Z.
  - intros l H Z. destruct l; [reflexivity|discriminate H].
  - intros name ex emb tag ty IH1 rest IH2 l H Z. destruct l as [|x r]; [discriminate H|].
    rewrite has_type_struct_cons in H. apply andb_prop in H. destruct H as [H1 H2].
    cbn [is_zero_fields] in Z. apply andb_prop in Z. destruct Z as [Z1 Z2].
    cbn [zero_fields]. rewrite (IH1 x H1 Z1). rewrite (IH2 r H2 Z2). reflexivity.
Qed.

Lemma omit_zero_eq : forall t g, has_type g t = true -> empty_value t g = true -> omit_zero g = true -> g = zero t.
Proof.
  intros t g H E Z. destruct g; destruct t; try discriminate H; try discriminate E; try discriminate Z.
  - cbn in E. destruct b; [discriminate E|reflexivity].
  - cbn in E. apply Z.eqb_eq in E. subst. reflexivity.
  - cbn in Z. apply N.eqb_eq in Z. subst. reflexivity.
  - cbn in Z. apply N.eqb_eq in Z. subst. reflexivity.
  - cbn in E. destruct t0; [reflexivity|discriminate E].
  - destruct b; [discriminate Z|]. cbn [has_type] in H. apply andb_prop in H. destruct H as [Hu _]. cbn [zero]. rewrite Hu. reflexivity.
  - destruct l; [discriminate Z|]. cbn [has_type] in H. apply andb_prop in H. destruct H as [Hu _].
    apply negb_true_iff in Hu. cbn [zero]. rewrite Hu. reflexivity.
  - cbn [has_type] in H. apply andb_prop in H. destruct H as [Hn _]. cbn in E. apply N.eqb_eq in Hn. apply N.eqb_eq in E.
    rewrite E in Hn. subst n. destruct l; [reflexivity|cbn in Hn; lia].
  - destruct m; [discriminate Z|reflexivity].
  - destruct p; [discriminate E|reflexivity].
  - destruct d as [[? ?]|]; [discriminate E|reflexivity].
Qed.

(* ---- float32 ---------------------------------------------------------------------------------------------- *)
Lemma widen_no_overflow : forall b, b < 2 ^ 32 -> overflow_f32 (widen b) = false.
Proof.
  intros b Hb. unfold overflow_f32, widen, max_f32_as_f64, max_f64.
  assert (Hs : b / 2 ^ 31 = 0 \/ b / 2 ^ 31 = 1).
  { assert (b / 2 ^ 31 < 2) by (apply N.div_lt_upper_bound; lia). lia. }
  assert (He : (b / 2 ^ 23) mod 256 < 256) by (apply N.mod_lt; lia).
  assert (Hm : b mod 2 ^ 23 < 2 ^ 23) by (apply N.mod_lt; lia).
  set (sg := b / 2 ^ 31) in *. set (e := (b / 2 ^ 23) mod 256) in *. set (m := b mod 2 ^ 23) in *.
  change (2 ^ 63) with 9223372036854775808. change (2 ^ 52) with 4503599627370496. change (2 ^ 29) with 536870912.
  change (2 ^ 51) with 2251799813685248. change (2 ^ 23) with 8388608 in Hm.
  assert (Hmod : forall X, X < 9223372036854775808 -> (sg * 9223372036854775808 + X) mod 9223372036854775808 = X).
  { intros X HX. rewrite N.add_comm, N.mod_add by lia. apply N.mod_small. exact HX. }
  destruct (e =? 255) eqn:E1.
  - apply N.eqb_eq in E1.
    set (X := 2047 * 4503599627370496 + m * 536870912 +
              (if m =? 0 then 0 else if m <? 4194304 then 2251799813685248 else 0)).
    assert (HX : 9218868437227405311 < X /\ X < 9223372036854775808).
    { unfold X. destruct (m =? 0); [lia|]. destruct (m <? 4194304) eqn:E3; lia. }
    replace (sg * 9223372036854775808 + 2047 * 4503599627370496 + m * 536870912 +
             (if m =? 0 then 0 else if m <? 4194304 then 2251799813685248 else 0))
      with (sg * 9223372036854775808 + X) by (unfold X; lia).
    rewrite Hmod by lia. apply andb_false_iff. right. apply N.leb_gt. lia.
  - apply N.eqb_neq in E1. destruct (e =? 0) eqn:E2.
    + destruct (m =? 0) eqn:E3.
      * replace (sg * 9223372036854775808) with (sg * 9223372036854775808 + 0) by lia. rewrite Hmod by lia. reflexivity.
      * apply N.eqb_neq in E3.
        assert (Hk : N.size m <= 23).
        { destruct (N.eq_dec m 0); [lia|]. rewrite N.size_log2 by assumption.
          assert (N.log2 m < 23) by (apply N.log2_lt_pow2; lia). lia. }
        set (k := N.size m) in *.
        assert (HY : (m * 2 ^ (53 - k)) mod 4503599627370496 < 4503599627370496) by (apply N.mod_lt; lia).
        set (Y := (m * 2 ^ (53 - k)) mod 4503599627370496) in *.
        replace (sg * 9223372036854775808 + (k + 873) * 4503599627370496 + Y)
          with (sg * 9223372036854775808 + ((k + 873) * 4503599627370496 + Y)) by lia.
        rewrite Hmod by lia. apply andb_false_iff. left. apply N.ltb_ge. lia.
    + replace (sg * 9223372036854775808 + (e + 896) * 4503599627370496 + m * 536870912)
        with (sg * 9223372036854775808 + ((e + 896) * 4503599627370496 + m * 536870912)) by lia.
      rewrite Hmod by lia. apply andb_false_iff. left. apply N.ltb_ge. lia.
Qed.

Lemma fits64_range : forall z, in_range I64 z = true -> fits_int64 z = true.
Proof. intros z H. unfold in_range in H. unfold fits_int64. range_consts. lia. Qed.

(* ---- the decode half ---------------------------------------------------------------------------------------- *)
Definition RTd2 (t : gty) : Prop :=
  forall h g f, has_type g t = true -> ok2 t h g = true -> (ty_depth t < f)%nat ->
    decto f t (zero t) false (ion2 t h g) = Ok g.

Lemma rtd2_bool : RTd2 TyBool.
Proof. intros h g f H _ Hf. destruct f; [lia|]. destruct g; try discriminate H. reflexivity. Qed.
Lemma rtd2_int : forall k, RTd2 (TyInt k).
Proof.
  intros k h g f H _ Hf. destruct f; [lia|]. destruct g; try discriminate H. cbn in H.
  change (decto (S f) (TyInt k) (zero (TyInt k)) false (ion2 (TyInt k) h (GInt z))) with (dec_int k z false).
  rewrite dec_int_spec, H. reflexivity.
Qed.
Lemma rtd2_f64 : RTd2 TyF64.
Proof. intros h g f H _ Hf. destruct f; [lia|]. destruct g; try discriminate H. reflexivity. Qed.
Lemma rtd2_f32 : RTd2 TyF32.
Proof.
  intros h g f H Hok Hf. destruct f; [lia|]. destruct g; try discriminate H. cbn [has_type] in H. cbn [ok2] in Hok.
  unfold f32_exact in Hok. apply N.eqb_eq in Hok. apply N.ltb_lt in H.
  rewrite dec_unfold. cbn [ion2]. unfold dec_body, at_break, dec_value. cbn [andb is_null body_of zero].
  rewrite (widen_no_overflow bits H). rewrite Hok. reflexivity.
Qed.
Lemma rtd2_string : RTd2 TyString.
Proof.
  intros h g f H _ Hf. destruct f; [lia|]. destruct g; try discriminate H. cbn [ion2].
  destruct (hint_is h TSymbol); reflexivity.
Qed.
Lemma rtd2_bigint : RTd2 TyBigInt.
Proof. intros h g f H _ Hf. destruct f; [lia|]. destruct g; try discriminate H. reflexivity. Qed.
Lemma rtd2_decimal : RTd2 TyDecimal.
Proof. intros h g f H _ Hf. destruct f; [lia|]. destruct g; try discriminate H. reflexivity. Qed.
Lemma rtd2_timestamp : RTd2 TyTimestamp.
Proof. intros h g f H _ Hf. destruct f; [lia|]. destruct g; try discriminate H. reflexivity. Qed.
Lemma rtd2_time : RTd2 TyTime.
Proof. intros h g f H _ Hf. destruct f; [lia|]. destruct g; try discriminate H. reflexivity. Qed.

Lemma rtd2_iface : RTd2 TyIface.
Proof.
  intros h g f H Hok Hf. destruct f; [lia|]. destruct g as [| | | | | | | | |d| | | | | |]; try discriminate H.
  destruct d as [[dt x]|]; [|reflexivity].
  cbn [has_type] in H. apply andb_prop in H. destruct H as [_ Hx]. cbn [ok2] in Hok. cbn [ion2].
  destruct dt as [|k| | | |e| | | | | | | | | |]; try (destruct x; discriminate Hok).
  - destruct x; try discriminate Hok. reflexivity.
  - destruct k; try (destruct x; discriminate Hok); destruct x; try discriminate Hok; cbn [iface_ok] in Hok.
    + (* int64 beyond int32 *)
      apply negb_true_iff in Hok. pose proof (fits64_range z Hx) as H64.
      rewrite dec_unfold. cbn [ion_leaf ion_of]. unfold dec_body, at_break, dec_value. cbn [andb is_null body_of zero].
      unfold decode_int_dyn. rewrite Hok, H64. reflexivity.
    + rewrite dec_unfold. cbn [ion_leaf ion_of]. unfold dec_body, at_break, dec_value. cbn [andb is_null body_of zero].
      unfold decode_int_dyn. rewrite Hok. reflexivity.
  - destruct x; try discriminate Hok. reflexivity.
  - destruct x; try discriminate Hok. cbn [iface_ok] in Hok. apply negb_true_iff in Hok. cbn [ion_leaf]. rewrite Hok. reflexivity.
  - destruct e as [|k| | | | | | | | | | | | | |]; try (destruct x; discriminate Hok).
    destruct k; try (destruct x; discriminate Hok). destruct x; try discriminate Hok. destruct b as [b|]; [|discriminate Hok].
    cbn [iface_ok] in Hok. apply negb_true_iff in Hok. cbn [ion_leaf]. rewrite Hok. reflexivity.
  - destruct x; try discriminate Hok. reflexivity.
  - destruct x; try discriminate Hok. reflexivity.
Qed.

Lemma slice_loop2 : forall e f cur h, RTd2 e -> (ty_depth e < f)%nat -> is_u8 e = false ->
  forall l acc, forallb (fun x => has_type x e) l = true -> forallb (ok2 e h) l = true ->
  dec_slice_elems (decto f) e false true cur (map (ion2 e h) l) [] acc = Ok (GSlice (Some (rev acc ++ l))).
Proof.
  intros e f cur h IH Hf Hu. induction l as [|x r IHl]; intros acc Hl Ho.
  - cbn [map dec_slice_elems andb]. rewrite app_nil_r. destruct (rev acc); rewrite Hu; reflexivity.
  - cbn [forallb] in Hl, Ho. apply andb_prop in Hl. destruct Hl as [Hx Hr]. apply andb_prop in Ho. destruct Ho as [Ox Or].
    cbn [map dec_slice_elems andb]. rewrite (IH h x f Hx Ox Hf). cbn [bind].
    rewrite IHl by assumption. cbn [rev]. rewrite <- app_assoc. reflexivity.
Qed.

Lemma body_seq : forall h l, body_of (seq_val h l) = seq_val h l.
Proof. intros. unfold seq_val. destruct (hint_is h TSexp); reflexivity. Qed.
Lemma null_seq : forall h l, is_null (seq_val h l) = false.
Proof. intros. unfold seq_val. destruct (hint_is h TSexp); reflexivity. Qed.

Lemma rtd2_slice : forall e, RTd2 e -> RTd2 (TySlice e).
Proof.
  intros e IH h g f H Hok Hf. destruct f; [lia|]. cbn [ty_depth] in Hf. assert (Hf' : (ty_depth e < f)%nat) by lia.
  rewrite dec_unfold. destruct g as [| | | |ob|ol| | | | | | | | | |]; try discriminate H; cbn [has_type] in H;
    apply andb_prop in H; destruct H as [Hu Hl].
  - destruct ob as [b|]; cbn [ion2 ion_of]; [destruct (hint_is h TClob)|]; unfold dec_body, at_break; cbn; rewrite Hu; reflexivity.
  - apply negb_true_iff in Hu. destruct ol as [l|]; cbn [ion2 ion_of].
    + cbn [ok2] in Hok. unfold dec_body, at_break. rewrite null_seq. cbn [andb]. unfold dec_value. rewrite body_seq.
      unfold seq_val. destruct (hint_is h TSexp); cbn [zero]; rewrite Hu;
      rewrite (slice_loop2 e f (GSlice None) h IH Hf' Hu l [] Hl Hok); reflexivity.
    + unfold dec_body, at_break. cbn. rewrite Hu. reflexivity.
Qed.

Lemma array_loop2 : forall e f h, RTd2 e -> (ty_depth e < f)%nat ->
  forall l acc, forallb (fun x => has_type x e) l = true -> forallb (ok2 e h) l = true ->
  dec_array_elems (decto f) e false (map (ion2 e h) l) (repeat (zero e) (length l)) acc = Ok (GArr (rev acc ++ l)).
Proof.
  intros e f h IH Hf. induction l as [|x r IHl]; intros acc Hl Ho.
  - cbn. rewrite app_nil_r. reflexivity.
  - cbn [forallb] in Hl, Ho. apply andb_prop in Hl. destruct Hl as [Hx Hr]. apply andb_prop in Ho. destruct Ho as [Ox Or].
    cbn [map length repeat dec_array_elems]. rewrite (IH h x f Hx Ox Hf). cbn [bind].
    rewrite IHl by assumption. cbn [rev]. rewrite <- app_assoc. reflexivity.
Qed.

Lemma rtd2_array : forall n e, RTd2 e -> RTd2 (TyArray n e).
Proof.
  intros n e IH h g f H Hok Hf. destruct f; [lia|]. cbn [ty_depth] in Hf. assert (Hf' : (ty_depth e < f)%nat) by lia.
  rewrite dec_unfold. destruct g; try discriminate H. cbn [has_type] in H. apply andb_prop in H. destruct H as [Hn Hl].
  apply N.eqb_eq in Hn. cbn [ion2]. cbn [ok2] in Hok. unfold dec_body, at_break. rewrite null_seq. cbn [andb].
  unfold dec_value. rewrite body_seq. assert (E : N.to_nat n = length l) by lia.
  unfold seq_val. destruct (hint_is h TSexp); cbn [zero]; rewrite E;
  rewrite (array_loop2 e f h IH Hf' l [] Hl Hok); reflexivity.
Qed.

Lemma map_loop2 : forall e f h, RTd2 e -> (ty_depth e < f)%nat ->
  forall m done, forallb (fun kv : text * gval => has_type (snd kv) e) m = true ->
  forallb (fun kv : text * gval => ok2 e h (snd kv)) m = true ->
  keys_sorted (map fst m) = true ->
  Forall (fun kv : text * gval => Forall (fun k' => text_ltb (fst kv) k' = true) (map fst m)) done ->
  dec_map_fields (decto f) e false (map (fun kv => (SymText (fst kv), ion2 e h (snd kv))) m) done
  = Ok (GMap (Some (done ++ m))).
Proof.
  intros e f h IH Hf. induction m as [|[k x] r IHm]; intros done Ht Ho Hs Hd.
  - cbn. rewrite app_nil_r. reflexivity.
  - cbn [forallb snd] in Ht, Ho. apply andb_prop in Ht. destruct Ht as [Hx Hr]. apply andb_prop in Ho. destruct Ho as [Ox Or].
    cbn [map fst snd dec_map_fields]. rewrite (IH h x f Hx Ox Hf). cbn [bind].
    rewrite map_set_append.
    + rewrite IHm; [rewrite <- app_assoc; reflexivity|exact Hr|exact Or|eapply sorted_tail; exact Hs|].
      apply Forall_app. split.
      * eapply Forall_impl; [|exact Hd]. intros a Ha. cbn [map fst] in Ha. inversion Ha; assumption.
      * constructor; [|constructor]. cbn [fst]. apply sorted_head_lt_all. exact Hs.
    + eapply Forall_impl; [|exact Hd]. intros a Ha. cbn [map fst] in Ha. inversion Ha; assumption.
Qed.

Lemma rtd2_map : forall e, RTd2 e -> RTd2 (TyMap e).
Proof.
  intros e IH h g f H Hok Hf. destruct f; [lia|]. cbn [ty_depth] in Hf. assert (Hf' : (ty_depth e < f)%nat) by lia.
  rewrite dec_unfold. destruct g as [| | | | | | |om| | | | | | | |]; try discriminate H.
  destruct om as [m|]; [|reflexivity]. cbn [has_type] in H. apply andb_prop in H. destruct H as [Hs Ht].
  cbn [ion2]. cbn [ok2] in Hok. unfold dec_body, at_break, dec_value. cbn [andb is_null body_of zero bind].
  rewrite (map_loop2 e f h IH Hf' m [] Ht Hok Hs (Forall_nil _)). reflexivity.
Qed.

Lemma ion2_not_null : forall e h x, rty2 e = true -> nullable e = false -> has_type x e = true ->
  is_null (ion2 e h x) = false.
Proof.
  intros e h x Hr Hn Hx. destruct e; try discriminate Hr; try discriminate Hn; destruct x; try discriminate Hx;
    cbn [ion2 ion_of]; try apply null_seq; try reflexivity.
  destruct (hint_is h TSymbol); reflexivity.
Qed.

Lemma rtd2_ptr : forall e, rty2 e = true -> nullable e = false -> RTd2 e -> RTd2 (TyPtr e).
Proof.
  intros e Hr Hn IH h g f H Hok Hf. destruct f; [lia|]. cbn [ty_depth] in Hf. assert (Hf' : (ty_depth e < f)%nat) by lia.
  rewrite dec_unfold. destruct g as [| | | | | | | |p| | | | | | |]; try discriminate H.
  destruct p as [x|]; [|reflexivity]. cbn [has_type] in H. cbn [ion2 zero]. cbn [ok2] in Hok. unfold dec_body.
  rewrite (ion2_not_null e h x Hr Hn H). cbn [andb]. rewrite (IH h x f H Hok Hf'). reflexivity.
Qed.

(* ---- structs ---------------------------------------------------------------------------------------------------- *)
Fixpoint AllF (P : gty -> Prop) (fs : gfields) : Prop :=
  match fs with
  | FNil => True
  | FCons _ ex _ tag ty rest => (skipped ex tag = false -> P ty) /\ AllF P rest
  end.

Lemma pre_tail : forall (pre : list field) n ns,
  Forall (fun x => Forall (fun n => list_eqb (f_name x) n = false) (n :: ns)) pre ->
  Forall (fun x => Forall (fun n => list_eqb (f_name x) n = false) ns) pre /\
  Forall (fun x => list_eqb (f_name x) n = false) pre.
Proof.
  intros pre n ns H. split; (eapply Forall_impl; [|exact H]); intros a Ha; inversion Ha; assumption.
Qed.

Lemma struct_loop2 : forall FS f fields,
  forall rest i pre done gs,
  fields = pre ++ fields2 rest i ->
  (forall j, nth_field rest j = nth_field FS (i + j)%nat) ->
  length done = i ->
  has_type (GStruct gs) (TyStruct rest) = true -> ok2_fields rest gs i = true ->
  AllF RTd2 rest -> (fs_depth rest < f)%nat ->
  distinct (names2 rest i) = true ->
  Forall (fun x => Forall (fun n => list_eqb (f_name x) n = false) (names2 rest i)) pre ->
  dec_struct_fields (decto f) (TyStruct FS) false fields (ion2_fields rest gs i) (GStruct (done ++ zero_fields rest))
  = Ok (GStruct (done ++ gs)).
Proof.
  intros FS f fields. induction rest as [|name ex emb tag ty rest IH]; intros i pre done gs Hfl Hn Hlen Hg Hok HRT Hdep Hdist Hpre.
  - destruct gs; [|discriminate Hg]. reflexivity.
  - destruct gs as [|x gr]; [discriminate Hg|]. rewrite has_type_struct_cons in Hg. apply andb_prop in Hg. destruct Hg as [Hx Hgr].
    assert (Hrest : forall j, nth_field rest j = nth_field FS (S i + j)%nat).
    { intro j. specialize (Hn (S j)). cbn in Hn. rewrite Hn. f_equal. lia. }
    assert (Hi : nth_field FS i = Some (ty, ex)).
    { specialize (Hn O). cbn in Hn. rewrite Nat.add_0_r in Hn. symmetry. exact Hn. }
    cbn [AllF] in HRT. destruct HRT as [HRT1 HRT2]. cbn [fs_depth] in Hdep.
    unfold names2 in *. cbn [ok2_fields ion2_fields fields2 zero_fields] in *.
    apply andb_prop in Hok. destruct Hok as [Hok1 Hok2].
    assert (Hlen' : length (done ++ [x]) = S i) by (rewrite app_length; cbn; lia).
    destruct (skipped ex tag) eqn:Hsk.
    + (* not seen by fieldsFor: stays zero *)
      rewrite (is_zero_eq ty x Hx Hok1) in *.
      replace (done ++ zero ty :: zero_fields rest) with ((done ++ [zero ty]) ++ zero_fields rest) by (rewrite <- app_assoc; reflexivity).
      replace (done ++ zero ty :: gr) with ((done ++ [zero ty]) ++ gr) by (rewrite <- app_assoc; reflexivity).
      apply (IH (S i) pre); try assumption. lia.
    + destruct (skipped_false _ _ Hsk) as [-> Htk].
      set (fl := fld name tag ty i) in *.
      cbn [map distinct] in Hdist. apply andb_prop in Hdist. destruct Hdist as [Hd1 Hd2]. apply negb_true_iff in Hd1.
      cbn [map] in Hpre. destruct (pre_tail _ _ _ Hpre) as [Hpre1 Hpre2].
      apply andb_prop in Hok1. destruct Hok1 as [Hox Hoz].
      assert (Hpre' : Forall (fun x0 : field => Forall (fun n : text => list_eqb (f_name x0) n = false)
                                                   (map f_name (fields2 rest (S i)))) (pre ++ [fl])).
      { apply Forall_app. split; [exact Hpre1|]. constructor; [|constructor]. apply existsb_false_forall. exact Hd1. }
      assert (Hfl' : fields = (pre ++ [fl]) ++ fields2 rest (S i)) by (rewrite Hfl, <- app_assoc; reflexivity).
      destruct (f_omit fl && empty_value ty x) eqn:Hom.
      * (* omitted: comes back as the zero value *)
        cbn [negb orb] in Hoz. rewrite (omit_zero_eq ty x Hx (proj2 (andb_prop _ _ Hom)) Hoz) in *.
        replace (done ++ zero ty :: zero_fields rest) with ((done ++ [zero ty]) ++ zero_fields rest) by (rewrite <- app_assoc; reflexivity).
        replace (done ++ zero ty :: gr) with ((done ++ [zero ty]) ++ gr) by (rewrite <- app_assoc; reflexivity).
        apply (IH (S i) (pre ++ [fl])); try assumption. lia.
      * cbn [dec_struct_fields].
        assert (Hfind : find_field_by fields (f_name fl) = Some fl).
        { unfold find_field_by. rewrite Hfl. apply find_go_skip; [exact Hpre2|apply list_eqb_refl]. }
        rewrite Hfind. unfold fl at 1. rewrite fld_path. fold fl. rewrite <- Hlen.
        rewrite (upd_path1 FS (done ++ zero ty :: zero_fields rest) false (length done) ty true _ (zero ty));
          [|rewrite Hlen; exact Hi|apply nth_error_app_len].
        cbn [negb]. rewrite (HRT1 eq_refl (f_hint fl) x f Hx Hox); [|lia].
        cbn [bind]. rewrite set_nth_app.
        replace (done ++ x :: zero_fields rest) with ((done ++ [x]) ++ zero_fields rest) by (rewrite <- app_assoc; reflexivity).
        replace (done ++ x :: gr) with ((done ++ [x]) ++ gr) by (rewrite <- app_assoc; reflexivity).
        rewrite Hlen. apply (IH (S i) (pre ++ [fl])); try assumption. lia.
Qed.

Lemma rtd2_struct : forall fs, rfs2 fs 0 = true -> distinct (names2 fs 0) = true -> AllF RTd2 fs -> RTd2 (TyStruct fs).
Proof.
  intros fs Hr Hd HRT h g f H Hok Hf. destruct f; [lia|]. cbn [ty_depth] in Hf. assert (Hf' : (fs_depth fs < f)%nat) by lia.
  rewrite dec_unfold. destruct g as [| | | | | | | | | |l| | | | |]; try discriminate H.
  cbn [ion2]. cbn [ok2] in Hok.
  unfold dec_body, at_break, dec_value. cbn [andb is_null body_of is_struct_kind zero].
  unfold attach_ann. rewrite (fields_for2 fs Hr Hd). cbn [bind anns_of]. rewrite (first_ann2 fs 0 Hr). cbn [bind].
  apply (struct_loop2 fs f (fields2 fs 0) fs 0%nat [] [] l); auto.
Qed.

Lemma rfs2_all : forall (P : gty -> Prop) fs i,
  AllF (fun t => rty2 t = true -> P t) fs -> rfs2 fs i = true -> AllF P fs.
Proof.
  intros P. induction fs as [|name ex emb tag ty rest IH]; intros i HA Hr; [exact I|].
  cbn [rfs2] in Hr. apply andb_prop in Hr. destruct Hr as [Hr Hr3]. apply andb_prop in Hr. destruct Hr as [Hr1 Hr2].
  cbn [AllF] in *. destruct HA as [HA1 HA2]. split; [|eapply IH; eassumption].
  intro Hsk. rewrite Hsk in Hr2. apply andb_prop in Hr2. destruct Hr2 as [_ Hty]. apply HA1; assumption.
Qed.

Theorem decode_ion2 : forall t, rty2 t = true -> RTd2 t.
Proof.
  apply (gty_mut (fun t => rty2 t = true -> RTd2 t) (fun fs => AllF (fun t => rty2 t = true -> RTd2 t) fs));
    try (intro Hx; discriminate Hx).
  - intros _. apply rtd2_bool.
  - intros k _. apply rtd2_int.
  - intros _. apply rtd2_f32.
  - intros _. apply rtd2_f64.
  - intros _. apply rtd2_string.
  - intros e IH H. apply rtd2_slice. apply IH. exact H.
  - intros n e IH H. apply rtd2_array. apply IH. exact H.
  - intros e IH H. apply rtd2_map. apply IH. exact H.
  - intros e IH H. cbn [rty2] in H. apply andb_prop in H. destruct H as [H1 H2]. apply negb_true_iff in H2.
    apply rtd2_ptr; auto.
  - intros _. apply rtd2_iface.
  - intros fs IH H. cbn [rty2] in H. apply andb_prop in H. destruct H as [H1 H2]. apply rtd2_struct; auto.
    eapply rfs2_all; eassumption.
  - intros _. apply rtd2_timestamp.
  - intros _. apply rtd2_decimal.
  - intros _. apply rtd2_bigint.
  - intros _. apply rtd2_time.
  - exact I.
  - intros name ex emb tag ty IH1 rest IH2. cbn [AllF]. split; [intros _; exact IH1|exact IH2].
Qed.
