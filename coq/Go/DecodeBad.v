(* DecodeBad.v — C17, error clauses at any depth: the Ion values that Unmarshal must reject for a given
   target type, because somewhere at a position that the decoder does visit there is a leaf it must
   reject.  Definitions only (proofs: Go/DecodeBadP.v, statements: Props/C17d.v).

   [bad arr t v] = decoding v into a target of static type t meets such a leaf.  The way to the leaf goes
   through slices, arrays, maps, pointers and struct fields whose reflect path (fieldsFor) is a single
   step (declared in the struct itself, not promoted from an embedded struct); never through interface{}
   (an interface{} target accepts every value).
   Leaves ([leaf_bad], on the non-null body of the value):
     * an int outside the range of the integer kind of the target (11 kinds),
     * a float with MaxFloat32 < |x| <= MaxFloat64 into float32,
     * a symbol without text into a string,
     * a class mismatch: bool/float/string/... into an int, int into string/bool/float, a list into
       a bool/int/string/map, a struct into a slice/array/scalar, a blob into a non-byte slice/array ...
   Not claimed bad (the model or the code accepts them, or they are not modelled): anything into
   interface{}; a mismatching value into a TyStruct (the annotation wrapper decodeToStructWithAnnotation
   may accept it); float -> Decimal and struct -> SymbolToken (not modelled); nulls (zero value).

   The flag [arr]: which elements of an Ion list an ARRAY target visits depends on the length of the array
   value currently in the target (elements beyond it are skipped).  [arr = false]: lists into arrays are
   never counted, and the theorem holds for every current content, even ill-typed.  [arr = true]: the first
   n elements are counted for [n]T, and the theorem needs the arrays in the current content to have their
   declared length ([shaped]; true of every zero value and of every well-typed value). *)
From Coq Require Import String List NArith ZArith Bool.
From IonV Require Import Base.Wire Data.Ion Num.Float Go.GoTypes Go.Fields Go.Decode.
Import ListNotations.
Open Scope N_scope.

(* the leaf targets; b is the body of a non-null value (not VNull, not VAnn) *)
Definition leaf_bad (t : gty) (b : value) : bool :=
  match t with
  | TyBool => match b with VBool _ => false | _ => true end
  | TyInt k => match b with VInt z => negb (in_range k z) | _ => true end
  | TyF32 => match b with VFloat x => overflow_f32 x | _ => true end
  | TyF64 => match b with VFloat _ => false | _ => true end
  | TyString => match b with VString _ | VSymbol (SymText _) => false | _ => true end
  | TyBigInt => match b with VInt _ => false | _ => true end
  | TyDecimal => match b with VDecimal _ | VFloat _ => false | _ => true end
  | TyTimestamp | TyTime => match b with VTimestamp _ => false | _ => true end
  | TySymTok => match b with VSymbol _ | VStruct _ => false | _ => true end
  | _ => false
  end.

Fixpoint bad (arr : bool) (t : gty) (v : value) {struct t} : bool :=
  match body_of v with
  | VNull _ | VAnn _ _ => false
  | b =>
    match t with
    | TyIface => false
    | TyPtr e => bad arr e v
    | TySlice e =>
      match b with
      | VList l | VSexp l => existsb (bad arr e) l
      | VClob _ | VBlob _ => negb (is_u8 e)
      | _ => true
      end
    | TyArray n e =>
      match b with
      | VList l | VSexp l => arr && existsb (bad arr e) (firstn (N.to_nat n) l)
      | VClob _ | VBlob _ => negb (is_u8 e)
      | _ => true
      end
    | TyMap e =>
      match b with
      | VStruct fl =>
        existsb (fun kx => match fst kx with SymText _ => bad arr e (snd kx) | SymSid _ => false end) fl
      | _ => true
      end
    | TyStruct fs =>
      match b with
      | VStruct fl =>
        match fields_for (TyStruct fs) with
        | Ok fields =>
          existsb (fun kx =>
                     match fst kx with
                     | SymText k =>
                       match find_field_by fields k with
                       | Some fl => match f_path fl with [i] => bad_at arr fs i (snd kx) | _ => false end
                       | None => false
                       end
                     | SymSid _ => false
                     end) fl
        | _ => false
        end
      | _ => false
      end
    | _ => leaf_bad t b
    end
  end
with bad_at (arr : bool) (fs : gfields) (i : nat) (x : value) {struct fs} : bool :=
  match fs with
  | FNil => false
  | FCons _ _ _ _ ty rest => match i with O => bad arr ty x | S j => bad_at arr rest j x end
  end.

(* the arrays of the current content that decodeTo can reach (through slices, arrays, pointers and struct
   fields; map elements and interface{} contents are always decoded into fresh zero values or not at all)
   have their declared length *)
Fixpoint shaped (t : gty) (g : gval) {struct t} : bool :=
  match t with
  | TyArray n e =>
    match g with
    | GArr l => Nat.eqb (length l) (N.to_nat n) && forallb (shaped e) l
    | _ => false
    end
  | TySlice e =>
    match g with
    | GSlice (Some l) => forallb (shaped e) l
    | GBytes (Some o) => forallb (fun x => shaped e (GInt (Z.of_N x))) o
    | _ => true
    end
  | TyPtr e => match g with GPtr (Some x) => shaped e x | _ => true end
  | TyStruct fs => match g with GStruct l => shaped_fields fs l | _ => true end
  | _ => true
  end
with shaped_fields (fs : gfields) (l : list gval) {struct fs} : bool :=
  match fs with
  | FNil => true
  | FCons _ _ _ _ ty rest =>
    match l with
    | x :: r => shaped ty x && shaped_fields rest r
    | [] => true
    end
  end.

(* ---- part 3: a Decoder over a stream, including the end ------------------------------------------------
   Decoder.Decode: `if !d.r.Next() { if d.r.Err() != nil {...}; return nil, ErrNoInput }`; once the reader
   is at the end of the stream Next() keeps returning false, so every further call returns ErrNoInput again.
   [decoder_calls vs n] = the results of n successive Decode() calls on a stream holding vs;
   None = ErrNoInput. *)
Fixpoint decoder_calls (vs : list value) (n : nat) : list (option gval) :=
  match n with
  | O => []
  | S m =>
    match vs with
    | [] => None :: decoder_calls [] m
    | v :: r => Some (decode_any v) :: decoder_calls r m
    end
  end.
