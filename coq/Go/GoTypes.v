(* GoTypes.v — the universe of Go types and values that ion.Marshal / ion.Unmarshal
   see through package reflect.  No proofs.

   A type is what reflect.Type tells marshal.go/unmarshal.go/fields.go: the Kind,
   element types, array length, and for structs the list of reflect.StructField
   (Name, exported = PkgPath=="" , Anonymous, the value of the `ion:"..."` tag).
   The five struct types that the code recognises by identity (ion.Timestamp,
   ion.Decimal, big.Int, time.Time, ion.SymbolToken) are constructors of their own.
   []byte is [TySlice (TyInt U8)], [n]byte is [TyArray n (TyInt U8)].
   Not representable: recursive types, named non-struct types with methods
   (Marshaler implementations), channels/funcs/complex (encodeValue: "unsupported
   type"), maps with non-string keys. *)
From Coq Require Import String List NArith ZArith Bool.
From IonV Require Import Base.Wire Data.Ion.
Import ListNotations.
Open Scope N_scope.

Inductive ikind := I8 | I16 | I32 | I64 | IInt | U8 | U16 | U32 | U64 | UInt | UPtr.

Inductive gty :=
| TyBool
| TyInt (k : ikind)
| TyF32
| TyF64
| TyString
| TySlice (e : gty)
| TyArray (n : N) (e : gty)
| TyMap (e : gty)                    (* map[string]e *)
| TyPtr (e : gty)
| TyIface                            (* interface{} *)
| TyStruct (fs : gfields)
| TyTimestamp                        (* ion.Timestamp *)
| TyDecimal                          (* ion.Decimal *)
| TyBigInt                           (* big.Int *)
| TyTime                             (* time.Time *)
| TySymTok                           (* ion.SymbolToken *)
with gfields :=
| FNil
| FCons (name : text) (exported embedded : bool) (tag : text) (ty : gty) (rest : gfields).

(* Go values.  Integers of every width are a [Z] (the width lives in the type);
   floats are bit patterns (32 bits for float32, 64 for float64); nil slices, maps,
   pointers and interfaces are [None]; a non-nil interface carries its dynamic type.
   A map is its association list sorted by key (strictly): Go maps have no order.
   Timestamps are the binary body that denotes them (calendar meaning: C15). *)
Inductive gval :=
| GBool (b : bool)
| GInt (z : Z)
| GFloat (bits : N)
| GString (t : text)
| GBytes (b : option (list N))             (* []byte *)
| GSlice (l : option (list gval))          (* []T, T <> uint8 *)
| GArr (l : list gval)                     (* [n]T *)
| GMap (m : option (list (text * gval)))
| GPtr (p : option gval)
| GIface (d : option (gty * gval))
| GStruct (fs : list gval)                 (* one value per declared field, in order *)
| GTimestamp (body : list N)
| GDecimal (d : dec)
| GBigInt (z : Z)
| GTime (body : list N)                    (* the time.Time of the Timestamp with that body *)
| GSymTok (t : tok).

(* ---- integer kinds ---------------------------------------------------------- *)
Definition ik_signed (k : ikind) : bool :=
  match k with I8 | I16 | I32 | I64 | IInt => true | _ => false end.
Definition ik_bits (k : ikind) : N :=
  match k with
  | I8 | U8 => 8 | I16 | U16 => 16 | I32 | U32 => 32
  | I64 | IInt | U64 | UInt | UPtr => 64          (* amd64/arm64: int, uint, uintptr are 64 bits *)
  end.
Definition ik_min (k : ikind) : Z :=
  if ik_signed k then (- 2 ^ (Z.of_N (ik_bits k) - 1))%Z else 0%Z.
Definition ik_max (k : ikind) : Z :=
  if ik_signed k then (2 ^ (Z.of_N (ik_bits k) - 1) - 1)%Z else (2 ^ Z.of_N (ik_bits k) - 1)%Z.
Definition in_range (k : ikind) (z : Z) : bool := ((ik_min k <=? z) && (z <=? ik_max k))%Z.

Definition ikind_eqb (a b : ikind) : bool :=
  match a, b with
  | I8, I8 | I16, I16 | I32, I32 | I64, I64 | IInt, IInt
  | U8, U8 | U16, U16 | U32, U32 | U64, U64 | UInt, UInt | UPtr, UPtr => true
  | _, _ => false
  end.
Definition is_u8 (t : gty) : bool := match t with TyInt U8 => true | _ => false end.

(* reflect.Kind classes used by the code *)
Definition is_struct_kind (t : gty) : bool :=
  match t with
  | TyStruct _ | TyTimestamp | TyDecimal | TyBigInt | TyTime | TySymTok => true
  | _ => false
  end.

(* isScalarStruct (unmarshal.go): the struct types that hold an Ion scalar *)
Definition is_scalar_struct (t : gty) : bool :=
  match t with TyTimestamp | TyDecimal | TyBigInt | TyTime | TySymTok => true | _ => false end.
Definition is_symtok (t : gty) : bool := match t with TySymTok => true | _ => false end.

(* ---- lexicographic order on Go strings (the < of sort.Slice in encodeMap) ---- *)
Fixpoint text_ltb (a b : text) : bool :=
  match a, b with
  | [], [] => false
  | [], _ :: _ => true
  | _ :: _, [] => false
  | x :: a', y :: b' => if x <? y then true else if y <? x then false else text_ltb a' b'
  end.
Fixpoint keys_sorted (l : list text) : bool :=
  match l with
  | [] => true
  | a :: r => match r with [] => true | b :: _ => text_ltb a b && keys_sorted r end
  end.

(* ---- typing ------------------------------------------------------------------- *)
Definition byte_ok (b : N) : bool := b <? 256.

Fixpoint has_type (g : gval) (t : gty) {struct g} : bool :=
  match g with
  | GBool _ => match t with TyBool => true | _ => false end
  | GInt z => match t with TyInt k => in_range k z | _ => false end
  | GFloat b => match t with TyF32 => b <? 2 ^ 32 | TyF64 => b <? 2 ^ 64 | _ => false end
  | GString _ => match t with TyString => true | _ => false end
  | GBytes ob =>
    match t with
    | TySlice e => is_u8 e && match ob with None => true | Some b => forallb byte_ok b end
    | _ => false
    end
  | GSlice ol =>
    match t with
    | TySlice e => negb (is_u8 e) && match ol with None => true | Some l => forallb (fun x => has_type x e) l end
    | _ => false
    end
  | GArr l =>
    match t with
    | TyArray n e => (N.of_nat (length l) =? n) && forallb (fun x => has_type x e) l
    | _ => false
    end
  | GMap om =>
    match t with
    | TyMap e => match om with
                 | None => true
                 | Some m => keys_sorted (map fst m) && forallb (fun kv => has_type (snd kv) e) m
                 end
    | _ => false
    end
  | GPtr op =>
    match t with
    | TyPtr e => match op with None => true | Some x => has_type x e end
    | _ => false
    end
  | GIface od =>
    match t with
    | TyIface => match od with
                 | None => true
                 | Some (dt, x) => negb (match dt with TyIface => true | _ => false end) && has_type x dt
                 end
    | _ => false
    end
  | GStruct l =>
    match t with
    | TyStruct fs =>
      (fix ht (l : list gval) (fs : gfields) {struct l} : bool :=
         match l with
         | [] => match fs with FNil => true | _ => false end
         | x :: r => match fs with
                     | FCons _ _ _ _ ty rest => has_type x ty && ht r rest
                     | FNil => false
                     end
         end) l fs
    | _ => false
    end
  | GTimestamp _ => match t with TyTimestamp => true | _ => false end
  | GDecimal _ => match t with TyDecimal => true | _ => false end
  | GBigInt _ => match t with TyBigInt => true | _ => false end
  | GTime _ => match t with TyTime => true | _ => false end
  | GSymTok _ => match t with TySymTok => true | _ => false end
  end.

(* ---- zero values (reflect.Zero) ------------------------------------------------ *)
(* The zero Timestamp / time.Time is 0001-01-01T00:00:00Z ... carried as the empty body. *)
Fixpoint zero (t : gty) : gval :=
  match t with
  | TyBool => GBool false
  | TyInt _ => GInt 0
  | TyF32 | TyF64 => GFloat 0
  | TyString => GString []
  | TySlice e => if is_u8 e then GBytes None else GSlice None
  | TyArray n e => GArr (repeat (zero e) (N.to_nat n))
  | TyMap _ => GMap None
  | TyPtr _ => GPtr None
  | TyIface => GIface None
  | TyStruct fs => GStruct (zero_fields fs)
  | TyTimestamp => GTimestamp []
  | TyDecimal => GDecimal {| d_coef := 0; d_exp := 0; d_negzero := false |}
  | TyBigInt => GBigInt 0
  | TyTime => GTime []
  | TySymTok => GSymTok {| tk_text := None; tk_sid := 0 |}
  end
with zero_fields (fs : gfields) : list gval :=
  match fs with
  | FNil => []
  | FCons _ _ _ _ ty rest => zero ty :: zero_fields rest
  end.

(* ---- sizes (fuel) ---------------------------------------------------------------- *)
Fixpoint ty_size (t : gty) : nat :=
  match t with
  | TySlice e | TyArray _ e | TyMap e | TyPtr e => S (ty_size e)
  | TyStruct fs => S (fs_size fs)
  | _ => 1%nat
  end
with fs_size (fs : gfields) : nat :=
  match fs with
  | FNil => 1%nat
  | FCons _ _ _ _ ty rest => (ty_size ty + fs_size rest)%nat
  end.

Fixpoint gv_size (g : gval) : nat :=
  match g with
  | GSlice (Some l) | GArr l | GStruct l => S (fold_right (fun x a => (gv_size x + a)%nat) 0%nat l)
  | GMap (Some m) => S (fold_right (fun kv a => (gv_size (snd kv) + a)%nat) 0%nat m)
  | GPtr (Some x) => S (gv_size x)
  | GIface (Some (_, x)) => S (gv_size x)
  | _ => 1%nat
  end.

Fixpoint val_size (v : value) : nat :=
  match v with
  | VList l | VSexp l => S (fold_right (fun x a => (val_size x + a)%nat) 0%nat l)
  | VStruct l => S (fold_right (fun kv a => (val_size (snd kv) + a)%nat) 0%nat l)
  | VAnn _ x => S (val_size x)
  | _ => 1%nat
  end.

(* ---- well-formed types: array lengths are small enough to be materialised -------- *)
Fixpoint wf_ty (t : gty) : bool :=
  match t with
  | TySlice e | TyMap e | TyPtr e => wf_ty e
  | TyArray n e => (n <=? 4096) && wf_ty e
  | TyStruct fs => wf_fields fs
  | _ => true
  end
with wf_fields (fs : gfields) : bool :=
  match fs with
  | FNil => true
  | FCons _ _ _ _ ty rest => wf_ty ty && wf_fields rest
  end.

(* field lists of the five recognised struct types, as reflect shows them:
   every field of Timestamp, Decimal, big.Int and time.Time is unexported and not
   embedded; SymbolToken{Text *string; LocalSID int64; Source *ImportSource},
   ImportSource{Table string; SID int64}. *)
Definition import_source_fields : gfields :=
  FCons (s "Table") true false [] TyString (FCons (s "SID") true false [] (TyInt I64) FNil).
Definition symtok_fields : gfields :=
  FCons (s "Text") true false [] (TyPtr TyString)
  (FCons (s "LocalSID") true false [] (TyInt I64)
  (FCons (s "Source") true false [] (TyPtr (TyStruct import_source_fields)) FNil)).
