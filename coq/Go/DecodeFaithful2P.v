(* DecodeFaithful2P.v — C17 (2a): on the universe [rty2], whenever decodeTo into a zero value answers Ok g,
   g represents the Ion value under the documented mapping (Go/DecodeSpec2.v [represents]); consequently a
   value with no representative is never decoded successfully. *)
From Coq Require Import String List NArith ZArith Bool Lia ZifyBool ZifyN ZifyNat Arith.
From IonV Require Import Base.Wire Data.Ion Num.Float Bin.BinWriter
  Go.GoTypes Go.Fields Go.Encode Go.Decode Go.MarshalSpec Go.MarshalP Go.DecodeSafeP Go.RoundtripP Go.MarshalSpec2
  Go.Roundtrip2P Go.DecodeSpec2.
Import ListNotations.
Open Scope N_scope.

Definition Rep (t : gty) : Prop :=
  forall f v g, (ty_depth t < f)%nat -> wfv v = true ->
    decto f t (zero t) false v = Ok g -> represents t g v.

Lemma overflow_finite : forall b, overflow_f32 b = false -> finite_f32_ok b = true.
Proof.
  intros b H. unfold overflow_f32, finite_f32_ok, max_f32_as_f64, max_f64 in *.
  set (a := b mod 2 ^ 63) in *. lia.
Qed.
Lemma finite_overflow : forall b, finite_f32_ok b = true -> overflow_f32 b = false.
Proof.
  intros b H. unfold overflow_f32, finite_f32_ok, max_f32_as_f64, max_f64 in *.
  set (a := b mod 2 ^ 63) in *. lia.
Qed.

Definition leaf2 (t : gty) : bool :=
  match t with
  | TyBool | TyInt _ | TyF32 | TyF64 | TyString | TyTimestamp | TyDecimal | TyBigInt | TyTime | TyIface => true
  | _ => false
  end.

Ltac leaf_fin H :=
  first
    [ discriminate H
    | match type of H with
      | dec_int ?k ?z false = Ok _ =>
        rewrite dec_int_spec in H; destruct (in_range k z) eqn:Er; [inversion H; split; first [reflexivity|exact Er]|discriminate H]
      | (if overflow_f32 ?b then _ else _) = Ok _ =>
        destruct (overflow_f32 b) eqn:Eo; [discriminate H|]; inversion H; split; [apply overflow_finite; exact Eo|reflexivity]
      | match symv_text ?y with _ => _ end = Ok _ => destruct y; cbn in H; [inversion H; reflexivity|discriminate H]
      end
    | cbn in H; first [discriminate H | inversion H; reflexivity] ].

Lemma rep_leaf : forall t, leaf2 t = true -> Rep t.
Proof.
  intros t Hl f v g Hf Hv H. destruct f as [|f]; [lia|]. rewrite dec_unfold in H.
  destruct (wfv_body v Hv) as [Hb Hna].
  destruct t; try discriminate Hl; unfold dec_body, at_break in H; cbn [andb zero] in H; cbn [represents];
    (destruct (is_null v) eqn:Hn; [cbn in H; inversion H; reflexivity|]);
    unfold dec_value in H; unfold is_null in Hn;
    destruct (body_of v) eqn:E; try discriminate Hn; try (exfalso; eapply Hna; reflexivity);
    cbv beta iota in H; leaf_fin H.
Qed.

(* ---- slices ---------------------------------------------------------------------------------------------- *)
Lemma bind_ok : forall (r : res gval) (k : gval -> res gval) g,
  (do y <- r; k y) = Ok g -> exists y, r = Ok y /\ k y = Ok g.
Proof. intros r k g H. destruct r as [y| | |]; try discriminate H. exists y. split; [reflexivity|exact H]. Qed.

Lemma slice_loop_rep : forall e f, Rep e -> (ty_depth e < f)%nat ->
  forall l acc isnil cur g, forallb wfv l = true ->
  dec_slice_elems (decto f) e false isnil cur l [] acc = Ok g ->
  exists gs, Forall2 (represents e) gs l /\
    g = if is_u8 e then GBytes (Some (map byte_val (rev acc ++ gs))) else GSlice (Some (rev acc ++ gs)).
Proof.
  intros e f IH Hf. induction l as [|x r IHl]; intros acc isnil cur g Hl H.
  - exists []. split; [constructor|]. rewrite app_nil_r. cbn [dec_slice_elems andb] in H.
    destruct (rev acc) as [|y out]; destruct isnil; destruct (is_u8 e); inversion H; reflexivity.
  - cbn [forallb] in Hl. apply andb_prop in Hl. destruct Hl as [Hx Hr].
    cbn [dec_slice_elems andb] in H. apply bind_ok in H. destruct H as [y [Hy H]].
    apply IHl in H; [|exact Hr]. destruct H as [gs [HF Hg]].
    exists (y :: gs). split; [constructor; [eapply IH; eassumption|exact HF]|].
    rewrite Hg. cbn [rev]. rewrite <- app_assoc. reflexivity.
Qed.

Ltac wrapper_err H := unfold or_wrapper in H; cbn [is_struct_kind] in H; discriminate H.

Lemma rep_slice : forall e, Rep e -> Rep (TySlice e).
Proof.
  intros e IH f v g Hf Hv H. destruct f as [|f]; [lia|]. rewrite dec_unfold in H.
  cbn [ty_depth] in Hf. assert (Hf' : (ty_depth e < f)%nat) by lia.
  destruct (wfv_body v Hv) as [Hb Hna].
  unfold dec_body, at_break in H; cbn [andb] in H; cbn [represents].
  destruct (is_null v) eqn:Hn; [cbn [is_struct_kind] in H; inversion H; reflexivity|].
  unfold dec_value in H; unfold is_null in Hn.
  destruct (body_of v) eqn:E; try discriminate Hn; try (exfalso; eapply Hna; reflexivity);
    cbv beta iota in H; cbn [wfv] in Hb; try wrapper_err H.
  - destruct (is_u8 e); [|discriminate H]. inversion H. split; reflexivity.
  - destruct (is_u8 e); [|discriminate H]. inversion H. split; reflexivity.
  - assert (H' : dec_slice_elems (decto f) e false true (zero (TySlice e)) l [] [] = Ok g).
    { cbn [zero] in *. destruct (is_u8 e); exact H. }
    apply (slice_loop_rep e f IH Hf') in H'; [|exact Hb]. exact H'.
  - assert (H' : dec_slice_elems (decto f) e false true (zero (TySlice e)) l [] [] = Ok g).
    { cbn [zero] in *. destruct (is_u8 e); exact H. }
    apply (slice_loop_rep e f IH Hf') in H'; [|exact Hb]. exact H'.
Qed.

(* ---- arrays ---------------------------------------------------------------------------------------------- *)
Lemma map_const_repeat : forall (z : gval) k, map (fun _ : gval => z) (repeat z k) = repeat z k.
Proof. induction k; cbn; [reflexivity|]. rewrite IHk. reflexivity. Qed.

Lemma array_loop_rep : forall e f, Rep e -> (ty_depth e < f)%nat ->
  forall l k acc g, forallb wfv l = true ->
  dec_array_elems (decto f) e false l (repeat (zero e) k) acc = Ok g ->
  exists gs, Forall2 (represents e) gs (firstn k l) /\
    g = GArr (rev acc ++ gs ++ repeat (zero e) (k - length l)).
Proof.
  intros e f IH Hf. induction l as [|x r IHl]; intros k acc g Hl H.
  - exists []. rewrite firstn_nil. split; [constructor|]. destruct k as [|k]; cbn [repeat dec_array_elems] in H.
    + inversion H. cbn. rewrite app_nil_r. reflexivity.
    + inversion H. cbn [map]. rewrite map_const_repeat. reflexivity.
  - destruct k as [|k]; cbn [repeat dec_array_elems] in H.
    + exists []. split; [constructor|]. inversion H. cbn. rewrite app_nil_r. reflexivity.
    + cbn [forallb] in Hl. apply andb_prop in Hl. destruct Hl as [Hx Hr].
      apply bind_ok in H. destruct H as [y [Hy H]].
      apply IHl in H; [|exact Hr]. destruct H as [gs [HF Hg]].
      exists (y :: gs). split; [cbn [firstn]; constructor; [eapply IH; eassumption|exact HF]|].
      rewrite Hg. cbn [rev length Nat.sub]. rewrite <- !app_assoc. reflexivity.
Qed.

Lemma take_bytes_into : forall n b, take_bytes n b = bytes_into n b.
Proof.
  unfold bytes_into. induction n as [|n IH]; intro b; [destruct b; reflexivity|].
  destruct b as [|x r]; cbn [take_bytes].
  - rewrite IH. cbn. rewrite firstn_nil. cbn. rewrite Nat.sub_0_r. reflexivity.
  - rewrite IH. reflexivity.
Qed.

Lemma rep_array : forall n e, Rep e -> Rep (TyArray n e).
Proof.
  intros n e IH f v g Hf Hv H. destruct f as [|f]; [lia|]. rewrite dec_unfold in H.
  cbn [ty_depth] in Hf. assert (Hf' : (ty_depth e < f)%nat) by lia.
  destruct (wfv_body v Hv) as [Hb Hna].
  unfold dec_body, at_break in H; cbn [andb] in H; cbn [represents].
  destruct (is_null v) eqn:Hn; [cbn [is_struct_kind] in H; inversion H; reflexivity|].
  unfold dec_value in H; unfold is_null in Hn.
  destruct (body_of v) eqn:E; try discriminate Hn; try (exfalso; eapply Hna; reflexivity);
    cbv beta iota in H; cbn [wfv] in Hb; try wrapper_err H.
  - destruct (is_u8 e); [|discriminate H]. inversion H. rewrite take_bytes_into. split; reflexivity.
  - destruct (is_u8 e); [|discriminate H]. inversion H. rewrite take_bytes_into. split; reflexivity.
  - cbn [zero] in H. apply (array_loop_rep e f IH Hf') in H; [|exact Hb]. exact H.
  - cbn [zero] in H. apply (array_loop_rep e f IH Hf') in H; [|exact Hb]. exact H.
Qed.

(* ---- maps ------------------------------------------------------------------------------------------------ *)
Lemma map_loop_rep : forall e f, Rep e -> (ty_depth e < f)%nat ->
  forall l m g, forallb (fun kv : symv * value => wfv (snd kv)) l = true ->
  dec_map_fields (decto f) e false l m = Ok g ->
  exists m', map_rep (represents e) l m m' /\ g = GMap (Some m').
Proof.
  intros e f IH Hf. induction l as [|[y x] r IHl]; intros m g Hl H.
  - cbn in H. inversion H. exists m. split; [constructor|reflexivity].
  - cbn [forallb snd] in Hl. apply andb_prop in Hl. destruct Hl as [Hx Hr].
    destruct y as [k|n]; cbn [dec_map_fields] in H.
    + apply bind_ok in H. destruct H as [sub [Hs H]]. apply IHl in H; [|exact Hr].
      destruct H as [m' [HM Hg]]. exists m'. split; [|exact Hg].
      econstructor; [eapply IH; eassumption|exact HM].
    + apply IHl in H; [|exact Hr]. destruct H as [m' [HM Hg]]. exists m'. split; [constructor; exact HM|exact Hg].
Qed.

Lemma rep_map : forall e, Rep e -> Rep (TyMap e).
Proof.
  intros e IH f v g Hf Hv H. destruct f as [|f]; [lia|]. rewrite dec_unfold in H.
  cbn [ty_depth] in Hf. assert (Hf' : (ty_depth e < f)%nat) by lia.
  destruct (wfv_body v Hv) as [Hb Hna].
  unfold dec_body, at_break in H; cbn [andb] in H; cbn [represents].
  destruct (is_null v) eqn:Hn; [cbn [is_struct_kind] in H; inversion H; reflexivity|].
  unfold dec_value in H; unfold is_null in Hn.
  destruct (body_of v) eqn:E; try discriminate Hn; try (exfalso; eapply Hna; reflexivity);
    cbv beta iota in H; cbn [wfv] in Hb; try wrapper_err H.
  cbn [zero bind] in H. apply (map_loop_rep e f IH Hf') in H; [|exact Hb]. exact H.
Qed.

(* ---- pointers -------------------------------------------------------------------------------------------- *)
Lemma rep_ptr : forall e, Rep e -> Rep (TyPtr e).
Proof.
  intros e IH f v g Hf Hv H. destruct f as [|f]; [lia|]. rewrite dec_unfold in H.
  cbn [ty_depth] in Hf. assert (Hf' : (ty_depth e < f)%nat) by lia.
  unfold dec_body in H. cbn [zero andb negb] in H. cbn [represents].
  destruct (is_null v) eqn:Hn.
  - cbn [andb] in H. unfold at_break in H. rewrite Hn in H. cbn in H. inversion H. reflexivity.
  - cbn [andb] in H. apply bind_ok in H. destruct H as [y [Hy H]]. inversion H.
    exists y. split; [reflexivity|]. eapply IH; eassumption.
Qed.

(* ---- structs --------------------------------------------------------------------------------------------- *)
Lemma f2_set_nth_length : forall l i (x : gval), length (set_nth l i x) = length l.
Proof. induction l as [|y r IH]; intros [|i] x; cbn; try reflexivity. rewrite IH. reflexivity. Qed.
Lemma f2_nth_set_same : forall l i (x c : gval), nth_error l i = Some c -> nth_error (set_nth l i x) i = Some x.
Proof. induction l as [|y r IH]; intros [|i] x c H; cbn in *; try discriminate H; [reflexivity|eapply IH; exact H]. Qed.
Lemma f2_nth_set_other : forall l i j (x : gval), i <> j -> nth_error (set_nth l i x) j = nth_error l j.
Proof.
  induction l as [|y r IH]; intros [|i] [|j] x H; cbn; try reflexivity; [contradiction|]. apply IH. intro. subst. contradiction.
Qed.

Lemma upd_path1_ok : forall fs l ro i k g,
  upd_path (TyStruct fs) (GStruct l) ro [i] k = Ok g ->
  exists ft ex fv y, nth_field fs i = Some (ft, ex) /\ nth_error l i = Some fv /\
                     k ft fv (negb ex) = Ok y /\ g = GStruct (set_nth l i y).
Proof.
  intros fs l ro i k g H. cbn [upd_path] in H.
  destruct (nth_field fs i) as [[ft ex]|]; [|discriminate H]. destruct (nth_error l i) as [fv|]; [|discriminate H].
  apply bind_ok in H. destruct H as [y [Hy H]]. inversion H. exists ft, ex, fv, y. auto.
Qed.

Definition pt_spec (f : nat) (FS : gfields) (fields : list field) (l : list (symv * value))
  (gs gs' : list gval) (i : nat) : Prop :=
  match ion_for fields i l with
  | [] => nth_error gs' i = nth_error gs i
  | [v] => exists ft ex c y, nth_field FS i = Some (ft, ex) /\ nth_error gs i = Some c /\
                             decto f ft c (negb ex) v = Ok y /\ nth_error gs' i = Some y
  | _ => True
  end.

Lemma struct_loop_pt : forall FS f fields,
  Forall (fun fl => exists j, f_path fl = [j]) fields ->
  forall l gs g,
  dec_struct_fields (decto f) (TyStruct FS) false fields l (GStruct gs) = Ok g ->
  exists gs', g = GStruct gs' /\ length gs' = length gs /\ forall i, pt_spec f FS fields l gs gs' i.
Proof.
  intros FS f fields Hone. induction l as [|[y x] r IH]; intros gs g H.
  - cbn in H. inversion H. exists gs. split; [reflexivity|]. split; [reflexivity|]. intro i. reflexivity.
  - destruct y as [k|n]; cbn [dec_struct_fields] in H.
    + destruct (find_field_by fields k) as [fl|] eqn:Ef.
      * assert (Hin : In fl fields).
        { unfold find_field_by in Ef. apply find_field_go_in in Ef. destruct Ef as [Ef|Ef]; [exact Ef|discriminate Ef]. }
        destruct (proj1 (Forall_forall _ _) Hone fl Hin) as [j Hp].
        apply bind_ok in H. destruct H as [c' [Hc' H]]. rewrite Hp in Hc'.
        apply upd_path1_ok in Hc'. destruct Hc' as [ft [ex [c [y0 [En [Ec [Hy ->]]]]]]].
        apply IH in H. destruct H as [gs' [Hg [Hlen Hpt]]]. exists gs'. split; [exact Hg|].
        split; [rewrite Hlen; apply f2_set_nth_length|].
        intro i. specialize (Hpt i). unfold pt_spec in *. cbn [ion_for]. rewrite Ef. unfold targets. rewrite Hp.
        destruct (Nat.eqb j i) eqn:Eji.
        -- apply Nat.eqb_eq in Eji. subst i. destruct (ion_for fields j r) as [|v1 [|v2 r']]; try exact I.
           exists ft, ex, c, y0. rewrite Hpt. split; [exact En|]. split; [exact Ec|]. split; [exact Hy|].
           eapply f2_nth_set_same. exact Ec.
        -- apply Nat.eqb_neq in Eji. destruct (ion_for fields i r) as [|v1 [|v2 r']]; try exact I.
           ++ rewrite Hpt. apply f2_nth_set_other. exact Eji.
           ++ destruct Hpt as [ft' [ex' [c0 [y1 [A [B [C D]]]]]]]. exists ft', ex', c0, y1.
              rewrite f2_nth_set_other in B by exact Eji. auto.
      * apply IH in H. destruct H as [gs' [Hg [Hlen Hpt]]]. exists gs'. split; [exact Hg|]. split; [exact Hlen|].
        intro i. specialize (Hpt i). unfold pt_spec in *. cbn [ion_for]. rewrite Ef. exact Hpt.
    + apply IH in H. destruct H as [gs' [Hg [Hlen Hpt]]]. exists gs'. split; [exact Hg|]. split; [exact Hlen|].
      intro i. specialize (Hpt i). unfold pt_spec in *. cbn [ion_for]. exact Hpt.
Qed.

Fixpoint vis_at (fs : gfields) (j : nat) : bool :=
  match fs with
  | FNil => false
  | FCons _ ex _ tag _ rest => match j with O => negb (skipped ex tag) | S j' => vis_at rest j' end
  end.

Lemma fields2_in : forall fs i0 f, In f (fields2 fs i0) ->
  exists j, f_path f = [(i0 + j)%nat] /\ vis_at fs j = true.
Proof.
  induction fs as [|name ex emb tag ty rest IH]; intros i0 f H; cbn [fields2] in H; [contradiction|].
  destruct (skipped ex tag) eqn:Hsk.
  - apply IH in H. destruct H as [j [Hp Hv]]. exists (S j). split; [rewrite Hp; f_equal; lia|exact Hv].
  - destruct H as [<-|H].
    + exists O. split; [rewrite fld_path; f_equal; lia|cbn; rewrite Hsk; reflexivity].
    + apply IH in H. destruct H as [j [Hp Hv]]. exists (S j). split; [rewrite Hp; f_equal; lia|exact Hv].
Qed.

Lemma fields2_onestep : forall fs, Forall (fun fl => exists j, f_path fl = [j]) (fields2 fs 0).
Proof.
  intro fs. apply Forall_forall. intros f H. apply fields2_in in H. destruct H as [j [Hp _]]. eexists. exact Hp.
Qed.

Lemma ion_for_none : forall fields i fl,
  (forall f, In f fields -> targets f i = false) -> ion_for fields i fl = [].
Proof.
  intros fields i fl Hno. induction fl as [|[y x] r IH]; [reflexivity|].
  destruct y as [k|n]; cbn [ion_for]; [|exact IH].
  destruct (find_field_by fields k) as [f|] eqn:Ef; [|exact IH].
  assert (Hin : In f fields).
  { unfold find_field_by in Ef. apply find_field_go_in in Ef. destruct Ef as [Ef|Ef]; [exact Ef|discriminate Ef]. }
  rewrite (Hno f Hin). exact IH.
Qed.

Lemma ion_for_wfv : forall fields i fl,
  forallb (fun kv : symv * value => wfv (snd kv)) fl = true ->
  Forall (fun v => wfv v = true) (ion_for fields i fl).
Proof.
  intros fields i. induction fl as [|[y x] r IH]; intro H; [constructor|].
  cbn [forallb snd] in H. apply andb_prop in H. destruct H as [Hx Hr].
  destruct y as [k|n]; cbn [ion_for]; [|apply IH; exact Hr].
  destruct (find_field_by fields k) as [f|]; [|apply IH; exact Hr].
  destruct (targets f i); [constructor; [exact Hx|apply IH; exact Hr]|apply IH; exact Hr].
Qed.

Lemma zero_fields_nth : forall fs i ft ex, nth_field fs i = Some (ft, ex) -> nth_error (zero_fields fs) i = Some (zero ft).
Proof.
  induction fs as [|n e m tg ty rest IH]; intros i ft ex H; [destruct i; discriminate H|].
  destruct i as [|j]; cbn in H; cbn [zero_fields nth_error]; [inversion H; reflexivity|eapply IH; exact H].
Qed.

Lemma fields_rep : forall FS f fl gs',
  (forall i, pt_spec f FS (fields2 FS 0) fl (zero_fields FS) gs' i) ->
  length gs' = length (zero_fields FS) ->
  forallb (fun kv : symv * value => wfv (snd kv)) fl = true ->
  forall rest i,
  (forall j, nth_field rest j = nth_field FS (i + j)%nat) ->
  (forall j, vis_at rest j = vis_at FS (i + j)%nat) ->
  AllF Rep rest -> (fs_depth rest < f)%nat ->
  length (zero_fields FS) = (i + length (zero_fields rest))%nat ->
  represents_fields (fields2 FS 0) fl gs' rest i.
Proof.
  intros FS f fl gs' Hpt Hlen Hwf. induction rest as [|name ex emb tag ty rest IH]; intros i Hn Hvis HA Hd Hl.
  - cbn in *. lia.
  - cbn [represents_fields]. cbn [AllF] in HA. destruct HA as [HA1 HA2]. cbn [fs_depth] in Hd.
    assert (Hi : nth_field FS i = Some (ty, ex)).
    { specialize (Hn O). cbn in Hn. rewrite Nat.add_0_r in Hn. symmetry. exact Hn. }
    assert (Hvi : vis_at FS i = negb (skipped ex tag)).
    { specialize (Hvis O). cbn in Hvis. rewrite Nat.add_0_r in Hvis. symmetry. exact Hvis. }
    pose proof (zero_fields_nth _ _ _ _ Hi) as Hz.
    split.
    + specialize (Hpt i). unfold pt_spec in Hpt. destruct (skipped ex tag) eqn:Hsk.
      * rewrite ion_for_none in Hpt.
        -- exists (zero ty). split; [rewrite Hpt; exact Hz|reflexivity].
        -- intros f0 Hin. apply fields2_in in Hin. destruct Hin as [j [Hp Hv]]. unfold targets. rewrite Hp.
           cbn [Nat.add]. apply Nat.eqb_neq. intro. subst j. rewrite Hvi in Hv. discriminate Hv.
      * destruct (skipped_false _ _ Hsk) as [-> _].
        pose proof (ion_for_wfv (fields2 FS 0) i fl Hwf) as Hw.
        destruct (ion_for (fields2 FS 0) i fl) as [|v1 [|v2 r']].
        -- exists (zero ty). split; [rewrite Hpt; exact Hz|reflexivity].
        -- destruct Hpt as [ft [ex' [c [y [A [B [C D]]]]]]]. rewrite Hi in A. inversion A; subst ft ex'.
           rewrite Hz in B. inversion B; subst c. exists y. split; [exact D|].
           apply (HA1 eq_refl f v1 y); [lia|inversion Hw; assumption|exact C].
        -- destruct (nth_error gs' i) as [x|] eqn:Ex; [exists x; split; [reflexivity|exact I]|].
           exfalso. apply nth_error_None in Ex. cbn [zero_fields length] in Hl. lia.
    + apply IH; [| |exact HA2|lia|cbn [zero_fields length] in Hl; lia].
      * intro j. specialize (Hn (S j)). cbn in Hn. rewrite Hn. f_equal. lia.
      * intro j. specialize (Hvis (S j)). cbn in Hvis. rewrite Hvis. f_equal. lia.
Qed.

Lemma struct_wrapper_err : forall rec fs cur v c g,
  rfs2 fs 0 = true -> distinct (names2 fs 0) = true ->
  or_wrapper rec (TyStruct fs) cur false v c <> Ok g.
Proof.
  intros rec fs cur v c g Hr Hd H. unfold or_wrapper, wrapper in H. cbn [is_struct_kind] in H.
  rewrite (fields_for2 fs Hr Hd) in H. cbn [bind] in H.
  pose proof (any_ann2 fs 0 Hr) as Ha.
  destruct (fields2 fs 0) as [|f1 [|f2 [|f3 r]]]; try discriminate H.
  cbn [any_ann] in Ha. rewrite orb_false_r in Ha.
  apply bind_ok in H. destruct H as [c1 [_ H]]. apply bind_ok in H. destruct H as [c2 [_ H]].
  rewrite Ha in H. discriminate H.
Qed.

Lemma rep_struct : forall fs, rfs2 fs 0 = true -> distinct (names2 fs 0) = true -> AllF Rep fs -> Rep (TyStruct fs).
Proof.
  intros fs Hr Hd HA f v g Hf Hv H. destruct f as [|f]; [lia|]. rewrite dec_unfold in H.
  cbn [ty_depth] in Hf. assert (Hf' : (fs_depth fs < f)%nat) by lia.
  destruct (wfv_body v Hv) as [Hb Hna].
  unfold dec_body, at_break in H; cbn [andb] in H; cbn [represents].
  destruct (is_null v) eqn:Hn.
  - cbn [is_struct_kind] in H. unfold attach_ann in H. rewrite (fields_for2 fs Hr Hd) in H. cbn [bind] in H.
    rewrite (first_ann2 fs 0 Hr) in H. inversion H. reflexivity.
  - unfold dec_value in H; unfold is_null in Hn.
    destruct (body_of v) eqn:E; try discriminate Hn; try (exfalso; eapply Hna; reflexivity);
      cbv beta iota in H; cbn [wfv] in Hb;
      try (exfalso; eapply struct_wrapper_err; [exact Hr|exact Hd|exact H]).
    cbn [is_struct_kind] in H. rewrite (fields_for2 fs Hr Hd) in H. cbn [bind] in H.
    unfold attach_ann in H. rewrite (fields_for2 fs Hr Hd) in H. cbn [bind] in H.
    rewrite (first_ann2 fs 0 Hr) in H. cbn [bind zero] in H.
    apply (struct_loop_pt fs f (fields2 fs 0) (fields2_onestep fs)) in H.
    destruct H as [gs' [Hg [Hlen Hpt]]]. exists gs'. split; [exact Hg|].
    apply (fields_rep fs f l gs' Hpt Hlen Hb fs 0%nat); auto.
Qed.

(* ---- the theorem ------------------------------------------------------------------------------------------- *)
Theorem decode_represents : forall t, rty2 t = true ->
  forall f v g, (ty_depth t < f)%nat -> wfv v = true ->
    decto f t (zero t) false v = Ok g -> represents t g v.
Proof.
  apply (gty_mut (fun t => rty2 t = true -> Rep t) (fun fs => AllF (fun t => rty2 t = true -> Rep t) fs));
    try (intros; apply rep_leaf; reflexivity).
  - intros e IH H. apply rep_slice. apply IH. exact H.
  - intros n e IH H. apply rep_array. apply IH. exact H.
  - intros e IH H. apply rep_map. apply IH. exact H.
  - intros e IH H. cbn [rty2] in H. apply andb_prop in H. destruct H as [H1 H2]. apply rep_ptr. apply IH. exact H1.
  - intros fs IH H. cbn [rty2] in H. apply andb_prop in H. destruct H as [H1 H2]. apply rep_struct; auto.
    eapply rfs2_all; eassumption.
  - intro H. discriminate H.
  - exact I.
  - intros name ex emb tag ty IH1 rest IH2. cbn [AllF]. split; [intros _; exact IH1|exact IH2].
Qed.

Theorem decode_to_represents : forall t v g, rty2 t = true -> wfv v = true ->
  decode_to t v = Ok g -> represents t g v.
Proof.
  intros t v g Hr Hv H. unfold decode_to in H. eapply decode_represents; [exact Hr| |exact Hv|exact H].
  unfold dec_fuel. pose proof (ty_depth_le_size t). lia.
Qed.

Theorem no_representative_not_ok : forall t v, rty2 t = true -> wfv v = true ->
  (forall g, ~ represents t g v) -> forall g, decode_to t v <> Ok g.
Proof. intros t v Hr Hv Hno g H. apply (Hno g). apply decode_to_represents; assumption. Qed.

(* ---- values without a representative ----------------------------------------------------------------------- *)
Lemma body_not_null : forall v b, body_of v = b -> (forall c, b <> VNull c) -> is_null v = false.
Proof. intros v b E H. unfold is_null. rewrite E. destruct b; try reflexivity. exfalso. eapply H. reflexivity. Qed.

Lemma norep_int_range : forall k z g, (z < ik_min k \/ ik_max k < z)%Z -> ~ represents (TyInt k) g (VInt z).
Proof. intros k z g Hz H. cbn in H. destruct H as [_ H]. unfold in_range in H. lia. Qed.

Lemma norep_f32_overflow : forall b g, overflow_f32 b = true -> ~ represents TyF32 g (VFloat b).
Proof. intros b g Ho H. cbn in H. destruct H as [H _]. apply finite_overflow in H. rewrite H in Ho. discriminate Ho. Qed.

Lemma norep_symbol_no_text : forall n g, ~ represents TyString g (VSymbol (SymSid n)).
Proof. intros n g H. cbn in H. exact H. Qed.

Lemma norep_class : forall t v g, is_null v = false -> class_match t (body_of v) = false -> ~ represents t g v.
Proof.
  induction t; intros v g Hn Hc H; cbn [represents] in H; rewrite Hn in H; cbn [class_match] in Hc;
    try (destruct (body_of v); try discriminate Hc; exact H).
  destruct H as [g' [_ H]]. eapply IHt; eassumption.
Qed.

Lemma Forall2_in_r : forall {A B} (R : A -> B -> Prop) gs l x, Forall2 R gs l -> In x l -> exists g, R g x.
Proof.
  intros A B R gs l x HF. induction HF as [|g y gs l Hr HF IH]; intro Hin; [contradiction|].
  destruct Hin as [<-|Hin]; [exists g; exact Hr|apply IH; exact Hin].
Qed.

Lemma norep_slice_elem : forall e v l x, body_of v = VList l \/ body_of v = VSexp l -> In x l ->
  (forall g, ~ represents e g x) -> forall g, ~ represents (TySlice e) g v.
Proof.
  intros e v l x Hb Hin Hno g H. cbn [represents] in H.
  assert (Hn : is_null v = false) by (destruct Hb as [Hb|Hb]; eapply body_not_null; try exact Hb; discriminate).
  rewrite Hn in H. destruct Hb as [Hb|Hb]; rewrite Hb in H; destruct H as [gs [HF _]];
    destruct (Forall2_in_r _ _ _ _ HF Hin) as [y Hy]; exact (Hno y Hy).
Qed.

Lemma nth_in_firstn : forall {A} (l : list A) i k x, nth_error l i = Some x -> (i < k)%nat -> In x (firstn k l).
Proof.
  intros A. induction l as [|y r IH]; intros i k x H Hk; [destruct i; discriminate H|].
  destruct k as [|k]; [lia|]. destruct i as [|i]; cbn in *; [inversion H; left; reflexivity|].
  right. eapply IH; [exact H|lia].
Qed.

Lemma norep_array_elem : forall n e v l i x, body_of v = VList l \/ body_of v = VSexp l ->
  nth_error l i = Some x -> (i < N.to_nat n)%nat ->
  (forall g, ~ represents e g x) -> forall g, ~ represents (TyArray n e) g v.
Proof.
  intros n e v l i x Hb Hi Hlt Hno g H. cbn [represents] in H.
  assert (Hn : is_null v = false) by (destruct Hb as [Hb|Hb]; eapply body_not_null; try exact Hb; discriminate).
  pose proof (nth_in_firstn _ _ _ _ Hi Hlt) as Hin.
  rewrite Hn in H. destruct Hb as [Hb|Hb]; rewrite Hb in H; destruct H as [gs [HF _]];
    destruct (Forall2_in_r _ _ _ _ HF Hin) as [y Hy]; exact (Hno y Hy).
Qed.

Lemma map_rep_in : forall R fl m m' k x, map_rep R fl m m' -> In (SymText k, x) fl -> exists y, R y x.
Proof.
  intros R fl m m' k x HM. induction HM as [m|n x0 r m m' HM IH|k0 x0 r y m m' Hr HM IH]; intro Hin.
  - contradiction.
  - destruct Hin as [Hin|Hin]; [discriminate Hin|apply IH; exact Hin].
  - destruct Hin as [Hin|Hin]; [inversion Hin; subst; exists y; exact Hr|apply IH; exact Hin].
Qed.

Lemma norep_map_value : forall e v fl k x, body_of v = VStruct fl -> In (SymText k, x) fl ->
  (forall g, ~ represents e g x) -> forall g, ~ represents (TyMap e) g v.
Proof.
  intros e v fl k x Hb Hin Hno g H. cbn [represents] in H.
  rewrite (body_not_null v _ Hb) in H by discriminate. rewrite Hb in H. destruct H as [m [HM _]].
  destruct (map_rep_in _ _ _ _ _ _ HM Hin) as [y Hy]. exact (Hno y Hy).
Qed.

Lemma norep_ptr : forall e v, is_null v = false ->
  (forall g, ~ represents e g v) -> forall g, ~ represents (TyPtr e) g v.
Proof. intros e v Hn Hno g H. cbn [represents] in H. rewrite Hn in H. destruct H as [g' [_ H]]. exact (Hno g' H). Qed.

Lemma rep_fields_at : forall fields fl all rest i0,
  represents_fields fields fl all rest i0 ->
  forall j ex tag ty x, field_decl rest j = Some (ex, tag, ty) -> skipped ex tag = false ->
  ion_for fields (i0 + j) fl = [x] -> exists y, represents ty y x.
Proof.
  intros fields fl all. induction rest as [|name ex0 emb tag0 ty0 rest IH]; intros i0 H j ex tag ty x Hd Hsk Hi.
  - discriminate Hd.
  - cbn [represents_fields] in H. destruct H as [[y [_ Hy]] Hrest]. destruct j as [|j]; cbn [field_decl] in Hd.
    + inversion Hd; subst. rewrite Hsk in Hy. rewrite Nat.add_0_r in Hi. rewrite Hi in Hy. exists y. exact Hy.
    + eapply (IH (S i0) Hrest j); try eassumption. rewrite <- Hi. f_equal. lia.
Qed.

Lemma norep_struct_field : forall fs v fl i ex tag ty x, body_of v = VStruct fl ->
  field_decl fs i = Some (ex, tag, ty) -> skipped ex tag = false ->
  ion_for (fields2 fs 0) i fl = [x] ->
  (forall g, ~ represents ty g x) -> forall g, ~ represents (TyStruct fs) g v.
Proof.
  intros fs v fl i ex tag ty x Hb Hd Hsk Hi Hno g H. cbn [represents] in H.
  rewrite (body_not_null v _ Hb) in H by discriminate. rewrite Hb in H. destruct H as [gs [_ HR]].
  destruct (rep_fields_at _ _ _ _ _ HR i ex tag ty x Hd Hsk Hi) as [y Hy]. exact (Hno y Hy).
Qed.

(* ---- the error clauses: such values are never decoded successfully ---------------------------------------------- *)
Theorem decode_slice_int_range : forall k l z g, forallb wfv l = true -> In (VInt z) l ->
  (z < ik_min k \/ ik_max k < z)%Z -> decode_to (TySlice (TyInt k)) (VList l) <> Ok g.
Proof.
  intros k l z g Hw Hin Hz. apply no_representative_not_ok; [reflexivity|exact Hw|].
  eapply norep_slice_elem; [left; reflexivity|exact Hin|]. intros g0. apply norep_int_range. exact Hz.
Qed.

Theorem decode_class_mismatch : forall t v g, rty2 t = true -> wfv v = true ->
  is_null v = false -> class_match t (body_of v) = false -> decode_to t v <> Ok g.
Proof.
  intros t v g Hr Hw Hn Hc. apply no_representative_not_ok; [exact Hr|exact Hw|].
  intro g0. apply norep_class; assumption.
Qed.

Lemma norep_unstorable : forall t x, unstorable t x -> forall g, ~ represents t g x.
Proof.
  intros t x [[k [z [-> [-> Hz]]]]|[[-> [b [-> Ho]]]|[[-> [n ->]]|[Hn Hc]]]] g.
  - apply norep_int_range. exact Hz.
  - apply norep_f32_overflow. exact Ho.
  - apply norep_symbol_no_text.
  - apply norep_class; assumption.
Qed.

Theorem decode_unstorable : forall t v g, rty2 t = true -> wfv v = true -> unstorable t v -> decode_to t v <> Ok g.
Proof. intros t v g Hr Hw Hu. apply no_representative_not_ok; [exact Hr|exact Hw|]. apply norep_unstorable. exact Hu. Qed.

Theorem decode_slice_elem_unstorable : forall e v l x g, rty2 e = true -> wfv v = true ->
  body_of v = VList l \/ body_of v = VSexp l -> In x l -> unstorable e x -> decode_to (TySlice e) v <> Ok g.
Proof.
  intros e v l x g Hr Hw Hb Hin Hu. apply no_representative_not_ok; [exact Hr|exact Hw|].
  eapply norep_slice_elem; [exact Hb|exact Hin|]. apply norep_unstorable. exact Hu.
Qed.

Theorem decode_array_elem_unstorable : forall n e v l i x g, rty2 e = true -> wfv v = true ->
  body_of v = VList l \/ body_of v = VSexp l -> nth_error l i = Some x -> (i < N.to_nat n)%nat ->
  unstorable e x -> decode_to (TyArray n e) v <> Ok g.
Proof.
  intros n e v l i x g Hr Hw Hb Hi Hlt Hu. apply no_representative_not_ok; [exact Hr|exact Hw|].
  eapply norep_array_elem; [exact Hb|exact Hi|exact Hlt|]. apply norep_unstorable. exact Hu.
Qed.

Theorem decode_map_value_unstorable : forall e v fl k x g, rty2 e = true -> wfv v = true ->
  body_of v = VStruct fl -> In (SymText k, x) fl -> unstorable e x -> decode_to (TyMap e) v <> Ok g.
Proof.
  intros e v fl k x g Hr Hw Hb Hin Hu. apply no_representative_not_ok; [exact Hr|exact Hw|].
  eapply norep_map_value; [exact Hb|exact Hin|]. apply norep_unstorable. exact Hu.
Qed.

Theorem decode_ptr_target_unstorable : forall e v g, rty2 (TyPtr e) = true -> wfv v = true ->
  is_null v = false -> unstorable e v -> decode_to (TyPtr e) v <> Ok g.
Proof.
  intros e v g Hr Hw Hn Hu. apply no_representative_not_ok; [exact Hr|exact Hw|].
  apply norep_ptr; [exact Hn|]. apply norep_unstorable. exact Hu.
Qed.

Theorem decode_struct_field_unstorable : forall fs v fl i ex tag ty x g, rty2 (TyStruct fs) = true -> wfv v = true ->
  body_of v = VStruct fl -> field_decl fs i = Some (ex, tag, ty) -> skipped ex tag = false ->
  ion_for (fields2 fs 0) i fl = [x] -> unstorable ty x -> decode_to (TyStruct fs) v <> Ok g.
Proof.
  intros fs v fl i ex tag ty x g Hr Hw Hb Hd Hsk Hi Hu. apply no_representative_not_ok; [exact Hr|exact Hw|].
  eapply norep_struct_field; [exact Hb|exact Hd|exact Hsk|exact Hi|]. apply norep_unstorable. exact Hu.
Qed.

(* ---- [represents] pins the Go value down (struct-free types) ------------------------------------------------- *)
(* PARTIAL: structs are excluded because [represents] leaves a field matched by two Ion fields unconstrained;
   missing is the same statement for structs under a no-repeated-match condition at every nesting level. *)
Lemma Forall2_functional : forall {A B} (R : A -> B -> Prop) l,
  (forall x g g', R g x -> R g' x -> g = g') ->
  forall gs gs', Forall2 R gs l -> Forall2 R gs' l -> gs = gs'.
Proof.
  intros A B R l HR. induction l as [|x r IH]; intros gs gs' H H'; inversion H; inversion H'; subst; [reflexivity|].
  f_equal; [eapply HR; eassumption|apply IH; assumption].
Qed.

Lemma map_rep_functional : forall R : gval -> value -> Prop,
  (forall x g g', R g x -> R g' x -> g = g') ->
  forall fl m m1 m2, map_rep R fl m m1 -> map_rep R fl m m2 -> m1 = m2.
Proof.
  intros R HR fl m m1 m2 H. revert m2. induction H as [m|n x r m m' HM IH|k x r y m m' Hr HM IH]; intros m2 H2; inversion H2; subst.
  - reflexivity.
  - apply IH. assumption.
  - apply IH. match goal with Hy : R ?y' x |- _ => rewrite (HR x y y' Hr Hy) end. assumption.
Qed.

Ltac fun_fin :=
  repeat match goal with H : _ /\ _ |- _ => destruct H end; subst; try reflexivity; try contradiction.

Theorem represents_functional_partial : forall t, nostruct t = true ->
  forall v g g', represents t g v -> represents t g' v -> g = g'.
Proof.
  induction t; intros Hns v g g' H H'; try discriminate Hns; cbn [nostruct] in Hns;
    cbn [represents] in H, H'; (destruct (is_null v); [subst; reflexivity|]);
    try (destruct (body_of v) as [| | | | | | |y| | | | | |]; try (destruct y); fun_fin; fail).
  - (* slice *)
    destruct (body_of v); fun_fin;
      destruct H as [gs [HF ->]]; destruct H' as [gs' [HF' ->]];
      rewrite (Forall2_functional _ _ (fun x a b => IHt Hns x a b) gs gs' HF HF'); reflexivity.
  - (* array *)
    destruct (body_of v); fun_fin;
      destruct H as [gs [HF ->]]; destruct H' as [gs' [HF' ->]];
      rewrite (Forall2_functional _ _ (fun x a b => IHt Hns x a b) gs gs' HF HF'); reflexivity.
  - (* map *)
    destruct (body_of v); fun_fin.
    destruct H as [m1 [HM ->]]; destruct H' as [m2 [HM' ->]].
    rewrite (map_rep_functional _ (fun x a b => IHt Hns x a b) _ _ _ _ HM HM'). reflexivity.
  - (* pointer *)
    destruct H as [a [-> Ha]]. destruct H' as [b [-> Hb]]. rewrite (IHt Hns v a b Ha Hb). reflexivity.
  - (* interface *)
    rewrite H in H'. inversion H'. reflexivity.
Qed.

Theorem decode_to_unique_partial : forall t v g g', rty2 t = true -> nostruct t = true -> wfv v = true ->
  decode_to t v = Ok g -> represents t g' v -> g = g'.
Proof.
  intros t v g g' Hr Hns Hw H H'. eapply represents_functional_partial; [exact Hns| |exact H'].
  apply decode_to_represents; assumption.
Qed.

(* the combination with totality (no panic, fuel adequate), proved elsewhere for all types *)
Theorem faithful_or_error : forall t v, rty2 t = true -> wfv v = true ->
  decode_to t v <> Panic -> decode_to t v <> OutOfFuel -> faithful_out t v (decode_to t v).
Proof.
  intros t v Hr Hw Hp Ho. destruct (decode_to t v) as [g| | |] eqn:E; cbn [faithful_out]; auto.
  apply decode_to_represents; assumption.
Qed.

(* ---- sanity: a representative is well typed (struct- and interface-free types) ------------------------------------ *)
(* PARTIAL: missing are structs (needs the no-repeated-match condition, an unconstrained field may hold anything)
   and interface{} (needs the typing of decode_any). *)
Lemma Forall2_typed : forall e gs l, (forall x g, wfv x = true -> represents e g x -> has_type g e = true) ->
  forallb wfv l = true -> Forall2 (represents e) gs l -> forallb (fun x => has_type x e) gs = true.
Proof.
  intros e gs l IH Hw HF. induction HF as [|g x gs l Hr HF IHF]; [reflexivity|].
  cbn [forallb] in *. apply andb_prop in Hw. destruct Hw as [Hx Hl]. rewrite (IH x g Hx Hr). apply IHF. exact Hl.
Qed.

Lemma f2_Forall2_length : forall {A B} (R : A -> B -> Prop) gs l, Forall2 R gs l -> length gs = length l.
Proof. intros A B R gs l H. induction H; cbn; [reflexivity|]. rewrite IHForall2. reflexivity. Qed.

Lemma forallb_firstn : forall {A} (p : A -> bool) l n, forallb p l = true -> forallb p (firstn n l) = true.
Proof.
  intros A p. induction l as [|x r IH]; intros [|n] H; try reflexivity. cbn [firstn forallb] in *.
  apply andb_prop in H. destruct H as [H1 H2]. rewrite H1. apply IH. exact H2.
Qed.

Lemma bytes_into_typed : forall n b, forallb byte_ok b = true ->
  length (bytes_into n b) = n /\ forallb (fun x => has_type x (TyInt U8)) (bytes_into n b) = true.
Proof. intros n b H. rewrite <- take_bytes_into. apply take_bytes_spec. exact H. Qed.

Lemma map_rep_typed : forall e, (forall x g, wfv x = true -> represents e g x -> has_type g e = true) ->
  forall fl m m', map_rep (represents e) fl m m' ->
  forallb (fun kv : symv * value => wfv (snd kv)) fl = true ->
  keys_sorted (map fst m) = true -> forallb (fun kv : text * gval => has_type (snd kv) e) m = true ->
  keys_sorted (map fst m') = true /\ forallb (fun kv : text * gval => has_type (snd kv) e) m' = true.
Proof.
  intros e IH fl m m' HM. induction HM as [m|n x r m m' HM IHM|k x r y m m' Hr HM IHM]; intros Hw Hs Ht.
  - split; assumption.
  - cbn [forallb snd] in Hw. apply andb_prop in Hw. apply IHM; tauto.
  - cbn [forallb snd] in Hw. apply andb_prop in Hw. destruct Hw as [Hx Hw].
    apply IHM; [exact Hw|apply map_set_sorted; exact Hs|apply map_set_typed; [exact Ht|apply (IH x y Hx Hr)]].
Qed.

Theorem represents_has_type_partial : forall t, nostruct t = true -> pty t = true ->
  forall v g, wfv v = true -> represents t g v -> has_type g t = true.
Proof.
  induction t; intros Hns Hp v g Hw H; try discriminate Hns; try discriminate Hp; cbn [nostruct pty] in Hns, Hp;
    cbn [represents] in H; destruct (wfv_body v Hw) as [Hb _];
    (destruct (is_null v); [subst g; apply zero_has_type|]);
    try (destruct (body_of v) as [| | | | | | |y| | | | | |]; try (destruct y); fun_fin; cbn [wfv] in Hb; try assumption; fail).
  - (* float32 *)
    destruct (body_of v); fun_fin. cbn [wfv] in Hb. cbn. apply N.ltb_lt. apply narrow_lt. apply N.ltb_lt. exact Hb.
  - (* slice *)
    destruct (body_of v); fun_fin; cbn [wfv] in Hb.
    + cbn. rewrite H. exact Hb.
    + cbn. rewrite H. exact Hb.
    + destruct H as [gs [HF ->]]. pose proof (Forall2_typed t gs l (IHt Hns Hp) Hb HF) as Ht.
      pose proof (slice_result_typed t gs Ht) as R. destruct (is_u8 t); exact R.
    + destruct H as [gs [HF ->]]. pose proof (Forall2_typed t gs l (IHt Hns Hp) Hb HF) as Ht.
      pose proof (slice_result_typed t gs Ht) as R. destruct (is_u8 t); exact R.
  - (* array *)
    destruct (body_of v); fun_fin; cbn [wfv] in Hb.
    + apply is_u8_eq in H. subst t. destruct (bytes_into_typed (N.to_nat n) b Hb). apply array_typed; assumption.
    + apply is_u8_eq in H. subst t. destruct (bytes_into_typed (N.to_nat n) b Hb). apply array_typed; assumption.
    + destruct H as [gs [HF ->]].
      pose proof (Forall2_typed t gs _ (IHt Hns Hp) (forallb_firstn _ _ _ Hb) HF) as Ht.
      apply array_typed.
      * rewrite app_length, repeat_length, (f2_Forall2_length _ _ _ HF), firstn_length. lia.
      * rewrite forallb_app, Ht. apply forallb_repeat. apply zero_has_type.
    + destruct H as [gs [HF ->]].
      pose proof (Forall2_typed t gs _ (IHt Hns Hp) (forallb_firstn _ _ _ Hb) HF) as Ht.
      apply array_typed.
      * rewrite app_length, repeat_length, (f2_Forall2_length _ _ _ HF), firstn_length. lia.
      * rewrite forallb_app, Ht. apply forallb_repeat. apply zero_has_type.
  - (* map *)
    destruct (body_of v); fun_fin. cbn [wfv] in Hb. destruct H as [m [HM ->]].
    destruct (map_rep_typed t (IHt Hns Hp) _ _ _ HM Hb eq_refl eq_refl) as [A B]. cbn. rewrite A, B. reflexivity.
  - (* pointer *)
    destruct H as [a [-> Ha]]. cbn. exact (IHt Hns Hp v a Hw Ha).
Qed.
