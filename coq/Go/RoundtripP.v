(* RoundtripP.v — C16 on the round-trip sub-universe (Go/MarshalSpec.v [rty]) by induction on the type:
   (1) decode_ion_of : decoding the documented Ion image of a Go value into a zero value gives the value back;
   (2) encode_ion_of : Marshal's call sequence denotes exactly that image;
   (3) roundtrip_rty : Unmarshal (Marshal v) = v for every value of every type of the sub-universe. *)
From Coq Require Import String List NArith ZArith Bool Lia ZifyBool ZifyN ZifyNat Arith.
From IonV Require Import Base.Wire Data.Ion Num.Float Bin.BinWriter
  Go.GoTypes Go.Fields Go.Encode Go.Decode Go.MarshalSpec Go.MarshalP Go.DecodeSafeP.
Import ListNotations.
Open Scope N_scope.

(* ---- order facts on Go strings -------------------------------------------------------------------- *)
Lemma text_ltb_trans : forall a b c, text_ltb a b = true -> text_ltb b c = true -> text_ltb a c = true.
Proof.
  induction a as [|x a IH]; destruct b as [|y b]; destruct c as [|z c]; cbn; intros H1 H2; try discriminate; try reflexivity.
  destruct (x <? y) eqn:E1.
  - destruct (y <? z) eqn:E2.
    + assert (x <? z = true) by lia. rewrite H. reflexivity.
    + destruct (z <? y) eqn:E3; [discriminate H2|]. assert (y = z) by lia. subst z. rewrite E1. reflexivity.
  - destruct (y <? x) eqn:E1'; [discriminate H1|]. assert (x = y) by lia. subst y.
    destruct (x <? z) eqn:E2; [reflexivity|]. destruct (z <? x) eqn:E3; [discriminate H2|].
    eapply IH; eassumption.
Qed.
Lemma text_ltb_asym : forall a b, text_ltb a b = true -> text_ltb b a = false /\ list_eqb b a = false.
Proof.
  induction a as [|x a IH]; destruct b as [|y b]; cbn; intro H; try discriminate; try (split; reflexivity).
  destruct (x <? y) eqn:E1.
  - assert (y <? x = false) by lia. assert (y =? x = false) by lia. rewrite H0, H1. split; reflexivity.
  - destruct (y <? x) eqn:E2; [discriminate H|]. assert (x = y) by lia. subst y. rewrite N.eqb_refl. cbn.
    apply IH. exact H.
Qed.

Lemma sorted_head_lt_all : forall k ks, keys_sorted (k :: ks) = true -> Forall (fun k' => text_ltb k k' = true) ks.
Proof.
  intros k ks. revert k. induction ks as [|k1 r IH]; intros k H; [constructor|].
  cbn [keys_sorted] in H. apply andb_prop in H. destruct H as [H1 H2]. constructor; [exact H1|].
  specialize (IH k1 H2). eapply Forall_impl; [|exact IH]. intros a Ha. eapply text_ltb_trans; eassumption.
Qed.
Lemma sorted_tail : forall k ks, keys_sorted (k :: ks) = true -> keys_sorted ks = true.
Proof. intros k ks H. destruct ks; [reflexivity|]. cbn [keys_sorted] in H. apply andb_prop in H. tauto. Qed.

Lemma map_set_append : forall k x acc,
  Forall (fun kv : text * gval => text_ltb (fst kv) k = true) acc -> map_set k x acc = acc ++ [(k, x)].
Proof.
  intros k x acc. induction acc as [|[k' y] r IH]; intro H; [reflexivity|].
  inversion H as [|? ? H1 H2]; subst. cbn [fst] in H1. destruct (text_ltb_asym _ _ H1) as [A1 A2].
  cbn [map_set]. rewrite A2, A1. rewrite IH by exact H2. reflexivity.
Qed.

(* ---- the decode half --------------------------------------------------------------------------------- *)
Definition RTd (t : gty) : Prop :=
  forall g f, has_type g t = true -> (ty_depth t < f)%nat ->
    decto f t (zero t) false (ion_of t g) = Ok g.

Lemma rtd_bool : RTd TyBool.
Proof. intros g f H Hf. destruct f; [lia|]. destruct g; try discriminate H. reflexivity. Qed.
Lemma rtd_int : forall k, RTd (TyInt k).
Proof.
  intros k g f H Hf. destruct f; [lia|]. destruct g; try discriminate H. cbn in H.
  change (decto (S f) (TyInt k) (zero (TyInt k)) false (ion_of (TyInt k) (GInt z))) with (dec_int k z false).
  rewrite dec_int_spec, H. reflexivity.
Qed.
Lemma rtd_f64 : RTd TyF64.
Proof. intros g f H Hf. destruct f; [lia|]. destruct g; try discriminate H. reflexivity. Qed.
Lemma rtd_string : RTd TyString.
Proof. intros g f H Hf. destruct f; [lia|]. destruct g; try discriminate H. reflexivity. Qed.
Lemma rtd_bigint : RTd TyBigInt.
Proof. intros g f H Hf. destruct f; [lia|]. destruct g; try discriminate H. reflexivity. Qed.
Lemma rtd_decimal : RTd TyDecimal.
Proof. intros g f H Hf. destruct f; [lia|]. destruct g; try discriminate H. reflexivity. Qed.
Lemma rtd_timestamp : RTd TyTimestamp.
Proof. intros g f H Hf. destruct f; [lia|]. destruct g; try discriminate H. reflexivity. Qed.

Lemma slice_loop : forall e f cur, RTd e -> (ty_depth e < f)%nat -> is_u8 e = false ->
  forall l acc, forallb (fun x => has_type x e) l = true ->
  dec_slice_elems (decto f) e false true cur (map (ion_of e) l) [] acc = Ok (GSlice (Some (rev acc ++ l))).
Proof.
  intros e f cur IH Hf Hu. induction l as [|x r IHl]; intros acc Hl.
  - cbn [map dec_slice_elems andb]. rewrite app_nil_r. destruct (rev acc); rewrite Hu; reflexivity.
  - cbn [forallb] in Hl. apply andb_prop in Hl. destruct Hl as [Hx Hr].
    cbn [map dec_slice_elems andb]. rewrite (IH x f Hx Hf). cbn [bind].
    rewrite IHl by exact Hr. cbn [rev]. rewrite <- app_assoc. reflexivity.
Qed.

Lemma rtd_slice : forall e, RTd e -> RTd (TySlice e).
Proof.
  intros e IH g f H Hf. destruct f; [lia|]. cbn [ty_depth] in Hf. assert (Hf' : (ty_depth e < f)%nat) by lia.
  rewrite dec_unfold. destruct g as [| | | |ob|ol| | | | | | | | | |]; try discriminate H; cbn [has_type] in H;
    apply andb_prop in H; destruct H as [Hu Hl].
  - destruct ob as [b|]; cbn [ion_of]; unfold dec_body, at_break; cbn; rewrite Hu; reflexivity.
  - apply negb_true_iff in Hu. destruct ol as [l|]; cbn [ion_of].
    + unfold dec_body, at_break, dec_value. cbn [andb is_null body_of zero]. rewrite Hu.
      rewrite (slice_loop e f (GSlice None) IH Hf' Hu l [] Hl). reflexivity.
    + unfold dec_body, at_break. cbn. rewrite Hu. reflexivity.
Qed.

Lemma array_loop : forall e f, RTd e -> (ty_depth e < f)%nat ->
  forall l acc, forallb (fun x => has_type x e) l = true ->
  dec_array_elems (decto f) e false (map (ion_of e) l) (repeat (zero e) (length l)) acc = Ok (GArr (rev acc ++ l)).
Proof.
  intros e f IH Hf. induction l as [|x r IHl]; intros acc Hl.
  - cbn. rewrite app_nil_r. reflexivity.
  - cbn [forallb] in Hl. apply andb_prop in Hl. destruct Hl as [Hx Hr].
    cbn [map length repeat dec_array_elems]. rewrite (IH x f Hx Hf). cbn [bind].
    rewrite IHl by exact Hr. cbn [rev]. rewrite <- app_assoc. reflexivity.
Qed.

Lemma rtd_array : forall n e, RTd e -> RTd (TyArray n e).
Proof.
  intros n e IH g f H Hf. destruct f; [lia|]. cbn [ty_depth] in Hf. assert (Hf' : (ty_depth e < f)%nat) by lia.
  rewrite dec_unfold. destruct g; try discriminate H. cbn [has_type] in H. apply andb_prop in H. destruct H as [Hn Hl].
  apply N.eqb_eq in Hn. cbn [ion_of]. unfold dec_body, at_break, dec_value. cbn [andb is_null body_of zero].
  assert (E : N.to_nat n = length l) by lia. rewrite E.
  rewrite (array_loop e f IH Hf' l [] Hl). reflexivity.
Qed.

Lemma map_loop : forall e f, RTd e -> (ty_depth e < f)%nat ->
  forall m done, forallb (fun kv : text * gval => has_type (snd kv) e) m = true ->
  keys_sorted (map fst m) = true ->
  Forall (fun kv : text * gval => Forall (fun k' => text_ltb (fst kv) k' = true) (map fst m)) done ->
  dec_map_fields (decto f) e false (map (fun kv => (SymText (fst kv), ion_of e (snd kv))) m) done
  = Ok (GMap (Some (done ++ m))).
Proof.
  intros e f IH Hf. induction m as [|[k x] r IHm]; intros done Ht Hs Hd.
  - cbn. rewrite app_nil_r. reflexivity.
  - cbn [forallb snd] in Ht. apply andb_prop in Ht. destruct Ht as [Hx Hr].
    cbn [map fst snd dec_map_fields]. rewrite (IH x f Hx Hf). cbn [bind].
    rewrite map_set_append.
    + rewrite IHm; [rewrite <- app_assoc; reflexivity|exact Hr|eapply sorted_tail; exact Hs|].
      apply Forall_app. split.
      * eapply Forall_impl; [|exact Hd]. intros a Ha. cbn [map fst] in Ha. inversion Ha; assumption.
      * constructor; [|constructor]. cbn [fst]. apply sorted_head_lt_all. exact Hs.
    + eapply Forall_impl; [|exact Hd]. intros a Ha. cbn [map fst] in Ha. inversion Ha; assumption.
Qed.

Lemma rtd_map : forall e, RTd e -> RTd (TyMap e).
Proof.
  intros e IH g f H Hf. destruct f; [lia|]. cbn [ty_depth] in Hf. assert (Hf' : (ty_depth e < f)%nat) by lia.
  rewrite dec_unfold. destruct g as [| | | | | | |om| | | | | | | |]; try discriminate H.
  destruct om as [m|]; [|reflexivity]. cbn [has_type] in H. apply andb_prop in H. destruct H as [Hs Ht].
  cbn [ion_of]. unfold dec_body, at_break, dec_value. cbn [andb is_null body_of zero bind].
  rewrite (map_loop e f IH Hf' m [] Ht Hs (Forall_nil _)). reflexivity.
Qed.

Lemma ion_not_null : forall e x, rty e = true -> nullable e = false -> has_type x e = true ->
  is_null (ion_of e x) = false.
Proof.
  intros e x Hr Hn Hx. destruct e; try discriminate Hr; try discriminate Hn; destruct x; try discriminate Hx; reflexivity.
Qed.

Lemma rtd_ptr : forall e, rty e = true -> nullable e = false -> RTd e -> RTd (TyPtr e).
Proof.
  intros e Hr Hn IH g f H Hf. destruct f; [lia|]. cbn [ty_depth] in Hf. assert (Hf' : (ty_depth e < f)%nat) by lia.
  rewrite dec_unfold. destruct g as [| | | | | | | |p| | | | | | |]; try discriminate H.
  destruct p as [x|]; [|reflexivity]. cbn [has_type] in H. cbn [ion_of zero]. unfold dec_body.
  rewrite (ion_not_null e x Hr Hn H). cbn [andb]. rewrite (IH x f H Hf'). reflexivity.
Qed.

(* ---- structs: what fieldsFor yields on the sub-universe --------------------------------------------------- *)
Fixpoint simple_fields (fs : gfields) (i : nat) : list field :=
  match fs with
  | FNil => []
  | FCons name _ _ tag ty rest =>
    {| f_name := field_ion_name name tag; f_typ := deref1 ty; f_path := [i]; f_omit := false;
       f_hint := TNoType; f_ann := false |} :: simple_fields rest (S i)
  end.

Lemma cut_comma_nocomma : forall l cur, no_comma l = true -> cut_comma l cur = (rev cur ++ l, []).
Proof.
  induction l as [|c r IH]; intros cur H; cbn [cut_comma].
  - rewrite app_nil_r. reflexivity.
  - cbn [no_comma] in H. apply andb_prop in H. destruct H as [H1 H2]. apply negb_true_iff in H1. rewrite H1.
    rewrite IH by exact H2. cbn [rev]. rewrite <- app_assoc. reflexivity.
Qed.

Lemma has_name_false : forall nm acc,
  Forall (fun f => list_eqb (f_name f) nm = false) acc -> has_name nm acc = false.
Proof.
  intros nm acc H. induction H as [|x r Hx Hr IH]; [reflexivity|]. cbn. rewrite Hx, IH. reflexivity.
Qed.

Lemma existsb_false_forall : forall (x : text) l, existsb (list_eqb x) l = false -> Forall (fun n => list_eqb x n = false) l.
Proof.
  intros x l. induction l as [|n r IH]; intro H; [constructor|]. cbn in H. apply orb_false_iff in H. destruct H as [H1 H2].
  constructor; [exact H1|apply IH; exact H2].
Qed.

Lemma inspect_simple : forall fs i acc,
  rfs fs = true -> distinct (ion_names fs) = true ->
  Forall (fun f => Forall (fun n => list_eqb (f_name f) n = false) (ion_names fs)) acc ->
  inspect fs [] i acc = Ok (acc ++ simple_fields fs i).
Proof.
  induction fs as [|name ex emb tag ty rest IH]; intros i acc Hr Hd Hacc.
  - cbn. rewrite app_nil_r. reflexivity.
  - cbn [rfs] in Hr. repeat (apply andb_prop in Hr; destruct Hr as [Hr ?]).
    destruct ex; [|discriminate Hr]. destruct emb; [discriminate H3|].
    cbn [ion_names distinct] in Hd. apply andb_prop in Hd. destruct Hd as [Hd1 Hd2]. apply negb_true_iff in Hd1.
    cbn [inspect visible andb negb]. unfold tok_is. change (bytes_of_string "-") with [45].
    apply negb_true_iff in H1. rewrite H1.
    unfold parse_ion_tag. rewrite cut_comma_nocomma by exact H2. cbn [rev app].
    assert (Hdig : match tag with [] | _ => false end = false) by (destruct tag; reflexivity).
    cbn. rewrite Hdig. unfold add_field.
    change (match tag with [] => name | _ :: _ => tag end) with (field_ion_name name tag).
    rewrite has_name_false.
    + cbn [bind setopts]. rewrite IH; [rewrite <- app_assoc; reflexivity|assumption|assumption|].
      apply Forall_app. split.
      * eapply Forall_impl; [|exact Hacc]. intros a Ha. cbn [ion_names] in Ha. inversion Ha; assumption.
      * constructor; [|constructor]. cbn [f_name]. apply existsb_false_forall. exact Hd1.
    + eapply Forall_impl; [|exact Hacc]. intros a Ha. cbn [ion_names] in Ha. inversion Ha; assumption.
Qed.

Lemma fields_simple : forall fs, rfs fs = true -> distinct (ion_names fs) = true ->
  fields_for (TyStruct fs) = Ok (simple_fields fs 0).
Proof. intros fs Hr Hd. cbn [fields_for]. rewrite inspect_simple; auto. Qed.

Lemma first_ann_simple : forall fs i, first_ann (simple_fields fs i) = None.
Proof. induction fs; intro i; cbn; auto. Qed.
Lemma any_ann_simple : forall fs i, any_ann (simple_fields fs i) = false.
Proof. induction fs; intro i; cbn; auto. Qed.

Lemma find_go_skip : forall pre f tail nm acc,
  Forall (fun x => list_eqb (f_name x) nm = false) pre -> list_eqb (f_name f) nm = true ->
  find_field_go (pre ++ f :: tail) nm acc = Some f.
Proof.
  induction pre as [|x r IH]; intros f tail nm acc Hp Hf; cbn [app find_field_go].
  - rewrite Hf. reflexivity.
  - inversion Hp as [|? ? Hx Hr]; subst. rewrite Hx. apply IH; assumption.
Qed.

Lemma set_nth_app : forall done z zs (x : gval), set_nth (done ++ z :: zs) (length done) x = done ++ x :: zs.
Proof. induction done as [|d r IH]; intros; cbn; [reflexivity|]. rewrite IH. reflexivity. Qed.
Lemma nth_error_app_len : forall (done : list gval) z zs, nth_error (done ++ z :: zs) (length done) = Some z.
Proof. induction done as [|d r IH]; intros; cbn; [reflexivity|apply IH]. Qed.

Definition ion_fields := (fix go (l : list gval) (fs : gfields) {struct l} : list (symv * value) :=
  match l with
  | [] => []
  | x :: r =>
    match fs with
    | FCons name _ _ tag ty rest => (SymText (field_ion_name name tag), ion_of ty x) :: go r rest
    | FNil => []
    end
  end).

Lemma rfs_nth : forall fs i ft ex, rfs fs = true -> nth_field fs i = Some (ft, ex) -> rty ft = true /\ ex = true.
Proof.
  induction fs as [|n e m tg ty rest IH]; intros i ft ex Hr Hn.
  - destruct i; discriminate Hn.
  - cbn [rfs] in Hr. repeat (apply andb_prop in Hr; destruct Hr as [Hr ?]).
    destruct i as [|j]; cbn in Hn.
    + inversion Hn; subst. auto.
    + eapply IH; eauto.
Qed.

Lemma struct_loop : forall FS f fields,
  (forall i ft ex, nth_field FS i = Some (ft, ex) -> RTd ft) -> (fs_depth FS < f)%nat ->
  forall rest i pre done gs,
  fields = pre ++ simple_fields rest i ->
  (forall j, nth_field rest j = nth_field FS (i + j)%nat) ->
  length done = i ->
  has_type (GStruct gs) (TyStruct rest) = true -> rfs rest = true -> distinct (ion_names rest) = true ->
  Forall (fun x => Forall (fun n => list_eqb (f_name x) n = false) (ion_names rest)) pre ->
  dec_struct_fields (decto f) (TyStruct FS) false fields (ion_fields gs rest) (GStruct (done ++ zero_fields rest))
  = Ok (GStruct (done ++ gs)).
Proof.
  intros FS f fields HRT Hd. induction rest as [|name ex emb tag ty rest IH]; intros i pre done gs Hfl Hn Hlen Hg Hr Hdist Hpre.
  - destruct gs; [|discriminate Hg]. reflexivity.
  - destruct gs as [|x gr]; [discriminate Hg|]. rewrite has_type_struct_cons in Hg. apply andb_prop in Hg. destruct Hg as [Hx Hgr].
    assert (Hr0 := Hr). cbn [rfs] in Hr. repeat (apply andb_prop in Hr; destruct Hr as [Hr ?]).
    destruct ex; [|discriminate Hr].
    cbn [ion_names distinct] in Hdist. apply andb_prop in Hdist. destruct Hdist as [Hd1 Hd2]. apply negb_true_iff in Hd1.
    assert (Hrest : forall j, nth_field rest j = nth_field FS (S i + j)%nat).
    { intro j. specialize (Hn (S j)). cbn in Hn. rewrite Hn. f_equal. lia. }
    assert (Hi : nth_field FS i = Some (ty, true)).
    { specialize (Hn O). cbn in Hn. rewrite Nat.add_0_r in Hn. symmetry. exact Hn. }
    cbn [ion_fields zero_fields simple_fields dec_struct_fields] in *.
    assert (Hfind : find_field_by fields (field_ion_name name tag) =
                    Some {| f_name := field_ion_name name tag; f_typ := deref1 ty; f_path := [i];
                            f_omit := false; f_hint := TNoType; f_ann := false |}).
    { unfold find_field_by. rewrite Hfl. apply find_go_skip; [|cbn [f_name]; apply list_eqb_refl].
      eapply Forall_impl; [|exact Hpre]. intros a Ha. inversion Ha; assumption. }
    rewrite Hfind. cbn [f_path]. rewrite <- Hlen.
    rewrite (upd_path1 FS (done ++ zero ty :: zero_fields rest) false (length done) ty true _ (zero ty));
      [|rewrite Hlen; exact Hi|apply nth_error_app_len].
    cbn [negb]. rewrite (HRT i ty true Hi x f Hx); [|pose proof (fs_depth_nth _ _ _ _ Hi); lia].
    cbn [bind]. rewrite set_nth_app.
    replace (done ++ x :: zero_fields rest) with ((done ++ [x]) ++ zero_fields rest) by (rewrite <- app_assoc; reflexivity).
    rewrite (IH (S i) (pre ++ [{| f_name := field_ion_name name tag; f_typ := deref1 ty; f_path := [i];
                                 f_omit := false; f_hint := TNoType; f_ann := false |}]) (done ++ [x]) gr);
      try assumption.
    + rewrite <- app_assoc. reflexivity.
    + rewrite Hfl, <- app_assoc. reflexivity.
    + rewrite app_length. cbn. lia.
    + apply Forall_app. split.
      * eapply Forall_impl; [|exact Hpre]. intros a Ha. inversion Ha; assumption.
      * constructor; [|constructor]. cbn [f_name]. apply existsb_false_forall. exact Hd1.
Qed.

Lemma rtd_struct : forall fs, rfs fs = true -> distinct (ion_names fs) = true ->
  (forall i ft ex, nth_field fs i = Some (ft, ex) -> RTd ft) -> RTd (TyStruct fs).
Proof.
  intros fs Hr Hd HRT g f H Hf. destruct f; [lia|]. cbn [ty_depth] in Hf. assert (Hf' : (fs_depth fs < f)%nat) by lia.
  rewrite dec_unfold. destruct g as [| | | | | | | | | |l| | | | |]; try discriminate H.
  change (ion_of (TyStruct fs) (GStruct l)) with (VStruct (ion_fields l fs)).
  unfold dec_body, at_break, dec_value. cbn [andb is_null body_of is_struct_kind zero].
  unfold attach_ann. rewrite (fields_simple fs Hr Hd). cbn [bind anns_of]. rewrite first_ann_simple. cbn [bind].
  apply (struct_loop fs f (simple_fields fs 0) HRT Hf' fs 0%nat [] [] l); auto.
Qed.

Theorem decode_ion_of : forall t, rty t = true -> RTd t.
Proof.
  apply (gty_mut (fun t => rty t = true -> RTd t)
                 (fun fs => rfs fs = true -> forall i ft ex, nth_field fs i = Some (ft, ex) -> RTd ft));
    try (intro Hx; discriminate Hx).
  - intros _. apply rtd_bool.
  - intros k _. apply rtd_int.
  - intros _. apply rtd_f64.
  - intros _. apply rtd_string.
  - intros e IH H. apply rtd_slice. apply IH. exact H.
  - intros n e IH H. apply rtd_array. apply IH. exact H.
  - intros e IH H. apply rtd_map. apply IH. exact H.
  - intros e IH H. cbn [rty] in H. apply andb_prop in H. destruct H as [H1 H2]. apply negb_true_iff in H2.
    apply rtd_ptr; auto.
  - intros fs IH H. cbn [rty] in H. apply andb_prop in H. destruct H as [H1 H2]. apply rtd_struct; auto. apply IH. exact H1.
  - intros _. apply rtd_timestamp.
  - intros _. apply rtd_decimal.
  - intros _. apply rtd_bigint.
  - intros _ i ft ex H. destruct i; discriminate H.
  - intros name ex emb tag ty IH1 rest IH2 Hr i ft ex' Hn.
    assert (Hr0 := Hr). cbn [rfs] in Hr. repeat (apply andb_prop in Hr; destruct Hr as [Hr ?]).
    destruct i as [|j]; cbn in Hn.
    + inversion Hn; subst. apply IH1. assumption.
    + eapply IH2; eassumption.
Qed.

(* ---- the encode half: Marshal's calls denote ion_of ---------------------------------------------------------- *)
Definition Parses (cs : list wcall) (v : value) : Prop :=
  forall rest f, (length cs <= f)%nat -> pvalue f (cs ++ rest) [] = Some (v, rest).

Definition is_end (c : wcall) : bool :=
  match c with CEndList | CEndSexp | CEndStruct => true | _ => false end.

Lemma parses_head : forall cs v, Parses cs v -> exists c r, cs = c :: r /\ is_end c = false.
Proof.
  intros cs v H. destruct cs as [|c r].
  - specialize (H [] 1%nat (le_S _ _ (le_n _))). cbn in H. discriminate H.
  - exists c, r. split; [reflexivity|]. specialize (H [] (S (length r)) (le_n _)).
    destruct c; try reflexivity; cbn in H; discriminate H.
Qed.

Lemma parses_scalar : forall c v, scalar_of c = Some v ->
  match c with CAnnotation _ | CAnnotations _ | CBeginList | CBeginSexp | CBeginStruct => False | _ => True end ->
  Parses [c] v.
Proof.
  intros c v Hs Hc rest f Hf. destruct f as [|f]; [cbn in Hf; lia|].
  destruct c; try contradiction; cbn [app pvalue]; rewrite Hs; reflexivity.
Qed.

Lemma pseq_cons : forall f cs v tail k,
  Parses cs v -> (length cs <= f)%nat ->
  pseq (S f) (cs ++ tail) k = match pseq f tail k with Some (l, r') => Some (v :: l, r') | None => None end.
Proof.
  intros f cs v tail k HP Hf. destruct (parses_head _ _ HP) as [c [r [-> Hc]]].
  specialize (HP tail f Hf). cbn [pseq].
  destruct c; try discriminate Hc; destruct k; cbn [app] in *; rewrite HP; reflexivity.
Qed.

Lemma sum_ge : forall (l : list gval) x, In x l -> (gv_size x <= fold_right (fun x a => (gv_size x + a)%nat) 0%nat l)%nat.
Proof.
  induction l as [|y r IH]; intros x H; [contradiction|]. cbn. destruct H as [->|H]; [lia|]. specialize (IH x H). lia.
Qed.

Definition RTe (t : gty) : Prop :=
  forall g fuel sm addr, has_type g t = true -> (gv_size g < fuel)%nat ->
    exists cs, encode_f fuel sm t g addr TNoType = Ok cs /\ Parses cs (ion_of t g).

Lemma enc_unfold : forall f sm t g addr h, encode_f (S f) sm t g addr h = enc_body (encode_f f sm) sm t g addr h.
Proof. reflexivity. Qed.

Ltac leaf_enc := eexists; split; [reflexivity|apply parses_scalar; [reflexivity|exact I]].

Lemma rte_leaf : forall t, match t with TyBool | TyInt _ | TyF64 | TyString | TyBigInt | TyDecimal | TyTimestamp => True | _ => False end -> RTe t.
Proof.
  intros t Ht g fuel sm addr H Hf. destruct fuel as [|f]; [lia|]. rewrite enc_unfold.
  destruct t; try contradiction; destruct g; try discriminate H; try leaf_enc.
  destruct k; leaf_enc.
Qed.

Lemma enc_list_loop : forall e f sm a, RTe e ->
  forall l, forallb (fun x => has_type x e) l = true ->
  (fold_right (fun x acc => (gv_size x + acc)%nat) 0%nat l < f)%nat ->
  exists body, concat_res (map (fun x => encode_f f sm e x a TNoType) l) = Ok body /\
    forall rest0 n, (length body + 1 <= n)%nat -> pseq n (body ++ CEndList :: rest0) KList = Some (map (ion_of e) l, rest0).
Proof.
  intros e f sm a IH. induction l as [|x r IHl]; intros Hl Hs.
  - exists []. split; [reflexivity|]. intros rest0 n Hn. destruct n; [cbn in Hn; lia|]. reflexivity.
  - cbn [forallb] in Hl. apply andb_prop in Hl. destruct Hl as [Hx Hr]. cbn [fold_right] in Hs.
    destruct (IH x f sm a Hx) as [cs [E1 P1]]; [pose proof (sum_ge (x :: r) x (or_introl eq_refl)); cbn in H; lia|].
    destruct IHl as [body [E2 P2]]; [exact Hr|lia|].
    exists (cs ++ body). split.
    + cbn [map]. unfold concat_res in *. cbn [fold_right]. rewrite E1. cbn [bind]. rewrite E2. reflexivity.
    + intros rest0 n Hn. rewrite app_length in Hn. destruct n as [|n]; [lia|].
      destruct (parses_head _ _ P1) as [c [r' [Ec _]]]. assert (1 <= length cs)%nat by (rewrite Ec; cbn; lia).
      rewrite <- app_assoc. rewrite (pseq_cons n cs (ion_of e x)); [|exact P1|lia].
      rewrite P2 by lia. reflexivity.
Qed.

Lemma hint_none : hint_is TNoType TSexp = false /\ hint_is TNoType TClob = false /\ hint_is TNoType TSymbol = false.
Proof. repeat split. Qed.

Lemma parses_list : forall body vs,
  (forall rest0 n, (length body + 1 <= n)%nat -> pseq n (body ++ CEndList :: rest0) KList = Some (vs, rest0)) ->
  Parses ([CBeginList] ++ body ++ [CEndList]) (VList vs).
Proof.
  intros body vs H rest f Hf. rewrite !app_length in Hf. cbn [length] in Hf. destruct f as [|f]; [lia|].
  cbn [app pvalue]. rewrite <- app_assoc. cbn [app]. rewrite H by lia. reflexivity.
Qed.

Lemma rte_slice : forall e, RTe e -> RTe (TySlice e).
Proof.
  intros e IH g fuel sm addr H Hf. destruct fuel as [|f]; [lia|]. rewrite enc_unfold.
  destruct g as [| | | |ob|ol| | | | | | | | | |]; try discriminate H; cbn [has_type] in H;
    apply andb_prop in H; destruct H as [Hu Hl].
  - destruct ob as [b|]; leaf_enc.
  - destruct ol as [l|]; [|leaf_enc]. cbn [enc_body ion_of]. unfold enc_array.
    destruct (enc_list_loop e f sm true IH l Hl) as [body [E P]]; [cbn [gv_size] in Hf; lia|].
    rewrite E. cbn [bind]. exists ([CBeginList] ++ body ++ [CEndList]). split; [reflexivity|].
    apply parses_list. exact P.
Qed.

Lemma rte_array : forall n e, RTe e -> RTe (TyArray n e).
Proof.
  intros n e IH g fuel sm addr H Hf. destruct fuel as [|f]; [lia|]. rewrite enc_unfold.
  destruct g; try discriminate H. cbn [has_type] in H. apply andb_prop in H. destruct H as [Hn Hl].
  cbn [enc_body ion_of]. unfold enc_array.
  destruct (enc_list_loop e f sm addr IH l Hl) as [body [E P]]; [cbn [gv_size] in Hf; lia|].
  rewrite E. cbn [bind]. exists ([CBeginList] ++ body ++ [CEndList]). split; [reflexivity|].
  apply parses_list. exact P.
Qed.

Lemma rte_ptr : forall e, RTe e -> RTe (TyPtr e).
Proof.
  intros e IH g fuel sm addr H Hf. destruct fuel as [|f]; [lia|]. rewrite enc_unfold.
  destruct g as [| | | | | | | |p| | | | | | |]; try discriminate H.
  destruct p as [x|]; [|leaf_enc]. cbn [has_type] in H. cbn [enc_body ion_of].
  apply IH; [exact H|cbn [gv_size] in Hf; lia].
Qed.

Lemma sort_keys_id : forall (m : list (text * gval)), keys_sorted (map fst m) = true -> sort_keys m = m.
Proof.
  induction m as [|[k x] r IH]; intro H; [reflexivity|].
  unfold sort_keys in *. cbn [fold_right fst snd]. rewrite IH by (eapply sorted_tail; exact H).
  destruct r as [|[k' y] r']; [reflexivity|]. cbn [map fst keys_sorted] in H. apply andb_prop in H. destruct H as [H1 _].
  cbn [insert_key]. rewrite H1. reflexivity.
Qed.

Lemma enc_map_loop : forall e f sm, RTe e ->
  forall m, forallb (fun kv : text * gval => has_type (snd kv) e) m = true ->
  (fold_right (fun (kv : text * gval) acc => (gv_size (snd kv) + acc)%nat) 0%nat m < f)%nat ->
  exists body,
    concat_res (map (fun kv : text * gval => do c <- encode_f f sm e (snd kv) false TNoType;
                                            Ok (CFieldName (tok_text (fst kv)) :: c)) m) = Ok body /\
    forall rest0 n, (length body + 1 <= n)%nat ->
      pfields n (body ++ CEndStruct :: rest0) =
      Some (map (fun kv : text * gval => (SymText (fst kv), ion_of e (snd kv))) m, rest0).
Proof.
  intros e f sm IH. induction m as [|[k x] r IHm]; intros Hl Hs.
  - exists []. split; [reflexivity|]. intros rest0 n Hn. destruct n; [cbn in Hn; lia|]. reflexivity.
  - cbn [forallb snd] in Hl. apply andb_prop in Hl. destruct Hl as [Hx Hr]. cbn [fold_right snd] in Hs.
    destruct (IH x f sm false Hx) as [cs [E1 P1]]; [lia|].
    destruct IHm as [body [E2 P2]]; [exact Hr|lia|].
    exists ((CFieldName (tok_text k) :: cs) ++ body). split.
    + cbn [map fst snd]. unfold concat_res in *. cbn [fold_right]. rewrite E1. cbn [bind]. rewrite E2. reflexivity.
    + intros rest0 n Hn. rewrite app_length in Hn. cbn [length] in Hn. destruct n as [|n]; [lia|].
      cbn [app pfields map fst snd]. rewrite <- app_assoc. rewrite (P1 _ n) by lia. rewrite P2 by lia. reflexivity.
Qed.

Lemma parses_struct : forall body fl,
  (forall rest0 n, (length body + 1 <= n)%nat -> pfields n (body ++ CEndStruct :: rest0) = Some (fl, rest0)) ->
  Parses ([CBeginStruct] ++ body ++ [CEndStruct]) (VStruct fl).
Proof.
  intros body fl H rest f Hf. rewrite !app_length in Hf. cbn [length] in Hf. destruct f as [|f]; [lia|].
  cbn [app pvalue]. rewrite <- app_assoc. cbn [app]. rewrite H by lia. reflexivity.
Qed.

Lemma rte_map : forall e, RTe e -> RTe (TyMap e).
Proof.
  intros e IH g fuel sm addr H Hf. destruct fuel as [|f]; [lia|]. rewrite enc_unfold.
  destruct g as [| | | | | | |om| | | | | | | |]; try discriminate H.
  destruct om as [m|]; [|leaf_enc]. cbn [has_type] in H. apply andb_prop in H. destruct H as [Hs Ht].
  cbn [enc_body ion_of]. unfold enc_map.
  assert (Ek : (if sm then sort_keys m else m) = m) by (destruct sm; [apply sort_keys_id; exact Hs|reflexivity]).
  rewrite Ek.
  destruct (enc_map_loop e f sm IH m Ht) as [body [E P]]; [cbn [gv_size] in Hf; lia|].
  rewrite E. cbn [bind]. exists ([CBeginStruct] ++ body ++ [CEndStruct]). split; [reflexivity|].
  apply parses_struct. exact P.
Qed.

Lemma nth_fty_field : forall fs i ft ex, nth_field fs i = Some (ft, ex) -> nth_fty fs i = Some ft.
Proof.
  induction fs as [|n e m tg ty rest IH]; intros i ft ex H; [destruct i; discriminate H|].
  destruct i as [|j]; cbn in *; [inversion H; reflexivity|eapply IH; exact H].
Qed.

Lemma enc_struct_loop : forall FS L f sm addr,
  (forall i ft ex, nth_field FS i = Some (ft, ex) -> RTe ft) ->
  (forall x, In x L -> (gv_size x < f)%nat) ->
  forall rest i gs,
  (forall j, nth_field rest j = nth_field FS (i + j)%nat) ->
  (forall j, nth_error gs j = nth_error L (i + j)%nat) ->
  has_type (GStruct gs) (TyStruct rest) = true ->
  exists body,
    concat_res (map (fun fl =>
      match walk_enc (TyStruct FS) (GStruct L) addr (f_path fl) with
      | WSkip => Ok []
      | WBad => Panic
      | WAt ft fv fa =>
        if f_omit fl && empty_value ft fv then Ok []
        else do c <- encode_f f sm ft fv fa (f_hint fl); Ok (CFieldName (tok_text (f_name fl)) :: c)
      end) (simple_fields rest i)) = Ok body /\
    forall rest0 n, (length body + 1 <= n)%nat ->
      pfields n (body ++ CEndStruct :: rest0) = Some (ion_fields gs rest, rest0).
Proof.
  intros FS L f sm addr HRT Hsz. induction rest as [|name ex emb tag ty rest IH]; intros i gs Hn Hg Ht.
  - exists []. split; [reflexivity|]. intros rest0 n Hl. destruct n; [cbn in Hl; lia|].
    destruct gs; [reflexivity|discriminate Ht].
  - destruct gs as [|x gr]; [discriminate Ht|]. rewrite has_type_struct_cons in Ht. apply andb_prop in Ht. destruct Ht as [Hx Hgr].
    assert (Hrest : forall j, nth_field rest j = nth_field FS (S i + j)%nat).
    { intro j. specialize (Hn (S j)). cbn in Hn. rewrite Hn. f_equal. lia. }
    assert (Hgrest : forall j, nth_error gr j = nth_error L (S i + j)%nat).
    { intro j. specialize (Hg (S j)). cbn in Hg. rewrite Hg. f_equal. lia. }
    assert (Hi : nth_field FS i = Some (ty, ex)).
    { specialize (Hn O). cbn in Hn. rewrite Nat.add_0_r in Hn. symmetry. exact Hn. }
    assert (Hxi : nth_error L i = Some x).
    { specialize (Hg O). cbn in Hg. rewrite Nat.add_0_r in Hg. symmetry. exact Hg. }
    destruct (HRT i ty ex Hi x f sm addr Hx) as [cs [E1 P1]]; [apply Hsz; eapply nth_error_In; exact Hxi|].
    destruct (IH (S i) gr Hrest Hgrest Hgr) as [body [E2 P2]].
    exists ((CFieldName (tok_text (field_ion_name name tag)) :: cs) ++ body). split.
    + cbn [simple_fields map f_path f_omit f_hint f_name walk_enc struct_parts].
      rewrite (nth_fty_field _ _ _ _ Hi), Hxi. cbn [walk_enc andb].
      unfold concat_res in *. cbn [fold_right]. rewrite E1. cbn [bind]. rewrite E2. reflexivity.
    + intros rest0 n Hl. rewrite app_length in Hl. cbn [length] in Hl. destruct n as [|n]; [lia|].
      cbn [app pfields ion_fields]. rewrite <- app_assoc. rewrite (P1 _ n) by lia. rewrite P2 by lia. reflexivity.
Qed.

Lemma rte_struct : forall fs, rfs fs = true -> distinct (ion_names fs) = true ->
  (forall i ft ex, nth_field fs i = Some (ft, ex) -> RTe ft) -> RTe (TyStruct fs).
Proof.
  intros fs Hr Hd HRT g fuel sm addr H Hf. destruct fuel as [|f]; [lia|]. rewrite enc_unfold.
  destruct g as [| | | | | | | | | |l| | | | |]; try discriminate H.
  cbn [enc_body]. unfold enc_struct. rewrite (fields_simple fs Hr Hd). cbn [bind]. rewrite any_ann_simple.
  unfold enc_fields.
  destruct (enc_struct_loop fs l f sm addr HRT) with (rest := fs) (i := 0%nat) (gs := l) as [body [E P]]; auto.
  - intros x Hx. cbn [gv_size] in Hf. pose proof (sum_ge l x Hx). lia.
  - rewrite E. cbn [bind]. exists ([CBeginStruct] ++ body ++ [CEndStruct]). split; [reflexivity|].
    change (ion_of (TyStruct fs) (GStruct l)) with (VStruct (ion_fields l fs)).
    apply parses_struct. exact P.
Qed.

Theorem encode_ion_of : forall t, rty t = true -> RTe t.
Proof.
  apply (gty_mut (fun t => rty t = true -> RTe t)
                 (fun fs => rfs fs = true -> forall i ft ex, nth_field fs i = Some (ft, ex) -> RTe ft));
    try (intro Hx; discriminate Hx); try (intros; apply rte_leaf; exact I).
  - intros e IH H. apply rte_slice. apply IH. exact H.
  - intros n e IH H. apply rte_array. apply IH. exact H.
  - intros e IH H. apply rte_map. apply IH. exact H.
  - intros e IH H. cbn [rty] in H. apply andb_prop in H. destruct H as [H1 H2]. apply rte_ptr. apply IH. exact H1.
  - intros fs IH H. cbn [rty] in H. apply andb_prop in H. destruct H as [H1 H2]. apply rte_struct; auto. apply IH. exact H1.
  - intros _ i ft ex H. destruct i; discriminate H.
  - intros name ex emb tag ty IH1 rest IH2 Hr i ft ex' Hn.
    assert (Hr0 := Hr). cbn [rfs] in Hr. repeat (apply andb_prop in Hr; destruct Hr as [Hr ?]).
    destruct i as [|j]; cbn in Hn.
    + inversion Hn; subst. apply IH1. assumption.
    + eapply IH2; eassumption.
Qed.

(* ---- C16 on the sub-universe ------------------------------------------------------------------------------------- *)
Theorem roundtrip_rty : forall t g, rty t = true -> has_type g t = true -> roundtrip t g = Ok g.
Proof.
  intros t g Hr Hg. unfold roundtrip, encode.
  destruct (encode_ion_of t Hr g (enc_fuel g) true false Hg) as [cs [E P]]; [unfold enc_fuel; lia|].
  rewrite E.
  assert (Hv : value_of cs = Some (ion_of t g)).
  { unfold value_of, values_of. destruct (parses_head _ _ P) as [c [r [Ec Hc]]].
    replace (2 * length cs + 2)%nat with (S (S (2 * length cs))) by lia.
    specialize (P [] (S (2 * length cs))). rewrite app_nil_r in P.
    subst cs. cbn [pseq]. destruct c; try discriminate Hc; rewrite P by (cbn [length]; lia); reflexivity. }
  rewrite Hv. unfold decode_to. apply decode_ion_of; [exact Hr|exact Hg|].
  unfold dec_fuel. pose proof (ty_depth_le_size t). lia.
Qed.
