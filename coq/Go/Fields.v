(* Fields.v — transcription of ion/fields.go: fieldsFor, fielder.inspect, visible,
   parseIonTag, field.setopts.  No proofs.

   fieldsFor returns an error ("too many fields named ...") on a repeated field name
   (it panicked before fix_duplicate_field_names_error); the index map of the fielder
   holds exactly the names of the fields appended so far, so the test is a membership
   test on the accumulated list.  An embedded Timestamp, Decimal, big.Int or time.Time
   is a named field of its own (fix_embedded_scalar_struct), not flattened. *)
From Coq Require Import String List NArith ZArith Bool.
From IonV Require Import Base.Wire Data.Ion Go.GoTypes.
Import ListNotations.
Open Scope N_scope.

Record field := {
  f_name : text;
  f_typ : gty;            (* sf.Type with one unnamed pointer level removed *)
  f_path : list nat;      (* reflect field indices from the outer struct *)
  f_omit : bool;
  f_hint : N;             (* ion.Type: TNoType, TSymbol, TClob, TSexp *)
  f_ann : bool
}.

(* parseIonTag: split at the first ',' *)
Fixpoint cut_comma (l cur : text) : text * text :=
  match l with
  | [] => (rev cur, [])
  | c :: r => if c =? 44 then (rev cur, r) else cut_comma r (c :: cur)
  end.
Definition parse_ion_tag (tag : text) : text * text := cut_comma tag [].

(* field.setopts: for every comma-separated option, in order *)
Definition setopt (f : field) (o : text) : field :=
  if tok_is o "omitempty" then {| f_name := f_name f; f_typ := f_typ f; f_path := f_path f; f_omit := true; f_hint := f_hint f; f_ann := f_ann f |}
  else if tok_is o "symbol" then {| f_name := f_name f; f_typ := f_typ f; f_path := f_path f; f_omit := f_omit f; f_hint := TSymbol; f_ann := f_ann f |}
  else if tok_is o "clob" then {| f_name := f_name f; f_typ := f_typ f; f_path := f_path f; f_omit := f_omit f; f_hint := TClob; f_ann := f_ann f |}
  else if tok_is o "sexp" then {| f_name := f_name f; f_typ := f_typ f; f_path := f_path f; f_omit := f_omit f; f_hint := TSexp; f_ann := f_ann f |}
  else if tok_is o "annotations" then {| f_name := f_name f; f_typ := f_typ f; f_path := f_path f; f_omit := f_omit f; f_hint := f_hint f; f_ann := true |}
  else f.
Definition setopts (f : field) (opts : text) : field :=
  match opts with
  | [] => f
  | _ => fold_left setopt (split_on 44 opts []) f
  end.

Definition deref1 (ty : gty) : gty := match ty with TyPtr e => e | _ => ty end.

(* visible(sf) *)
Definition visible (exported embedded : bool) (ty : gty) : bool :=
  if embedded && is_struct_kind (deref1 ty) then true else exported.

Fixpoint has_name (n : text) (l : list field) : bool :=
  match l with
  | [] => false
  | f :: r => list_eqb (f_name f) n || has_name n r
  end.

(* "Add this named field" *)
Definition add_field (name tagname opts : text) (ft : gty) (newpath : list nat) (acc : list field)
  : res (list field) :=
  let nm := match tagname with [] => name | _ => tagname end in
  if has_name nm acc then Err
  else Ok (acc ++ [setopts {| f_name := nm; f_typ := ft; f_path := newpath; f_omit := false;
                              f_hint := TNoType; f_ann := false |} opts]).

(* inspect over a struct none of whose fields is an embedded struct (the field
   lists of ion.SymbolToken and ion.ImportSource) *)
Fixpoint inspect_flat (fs : gfields) (path : list nat) (i : nat) (acc : list field) : res (list field) :=
  match fs with
  | FNil => Ok acc
  | FCons name exported embedded tag ty rest =>
    if negb (visible exported embedded ty) then inspect_flat rest path (S i) acc
    else if tok_is tag "-" then inspect_flat rest path (S i) acc
    else
      let '(tn, opts) := parse_ion_tag tag in
      do acc' <- add_field name tn opts (deref1 ty) (path ++ [i]) acc;
      inspect_flat rest path (S i) acc'
  end.

Fixpoint inspect (fs : gfields) (path : list nat) (i : nat) (acc : list field) {struct fs} : res (list field) :=
  match fs with
  | FNil => Ok acc
  | FCons name exported embedded tag ty rest =>
    if negb (visible exported embedded ty) then inspect rest path (S i) acc
    else if tok_is tag "-" then inspect rest path (S i) acc
    else
      let '(tn, opts) := parse_ion_tag tag in
      let newpath := path ++ [i] in
      let ft := match ty with TyPtr e => e | _ => ty end in
      let dig := match tn with
                 | [] => embedded && is_struct_kind ft && (is_symtok ft || negb (is_scalar_struct ft))
                 | _ => false
                 end in
      if dig then
        do acc' <- match ft with
                   | TyStruct fs' => inspect fs' newpath 0%nat acc
                   | TySymTok => inspect_flat symtok_fields newpath 0%nat acc
                   | _ => Ok acc      (* unreachable: dig excludes the scalar struct types *)
                   end;
        inspect rest path (S i) acc'
      else
        do acc' <- add_field name tn opts ft newpath acc;
        inspect rest path (S i) acc'
  end.

(* fieldsFor(t) for a type of struct kind *)
Definition fields_for (t : gty) : res (list field) :=
  match t with
  | TyStruct fs => inspect fs [] 0%nat []
  | TySymTok => inspect_flat symtok_fields [] 0%nat []
  | _ => Ok []
  end.

(* findField: exact match first, else the first case-insensitive match (strings.EqualFold,
   modelled on ASCII letters; the Unicode simple folding of non-ASCII letters is not modelled) *)
Definition lower (c : N) : N := if (65 <=? c) && (c <=? 90) then c + 32 else c.
Definition fold_eqb (a b : text) : bool := list_eqb (map lower a) (map lower b).
Fixpoint find_field_go (l : list field) (name : text) (f : option field) : option field :=
  match l with
  | [] => f
  | ff :: r =>
    if list_eqb (f_name ff) name then Some ff
    else find_field_go r name (match f with None => if fold_eqb (f_name ff) name then Some ff else None | _ => f end)
  end.
Definition find_field_by (l : list field) (name : text) : option field := find_field_go l name None.
