(* MarshalSpec2.v — the wider round-trip sub-universe of C16 ([rty2] ⊇ [rty]), the side condition on
   values ([ok2], [has_type2]) and the documented Ion image of a Go value under a type hint ([ion2]).
   No proofs.

   Added to [rty] (Go/MarshalSpec.v):
   * float32 (values with narrow (widen b) = b: everything except signalling NaNs), time.Time (model: the
     Timestamp body), interface{} holding a scalar whose dynamic type survives Decoder's choice
     (bool, int within int32, int64 beyond int32, float64, string, non-nil []byte, Decimal, Timestamp);
   * struct fields with any options after the comma except `annotations`: omitempty, symbol, clob, sexp
     (unknown options are ignored by field.setopts); the hint reaches the value as in encodeValue (through
     pointers, slices, arrays and maps; a struct drops it);
   * fields that fieldsFor does not see: unexported (not embedded) and tagged "-".
   Side conditions on the value (exactly where the model does not give the value back):
   * a skipped field holds its zero value ([is_zero]);
   * an omitted field (omitempty and emptyValue) holds its zero value: no empty non-nil slice / map / []byte,
     no -0.0 ([omit_zero]);
   * a string that reaches WriteSymbolFromString is not of the form $<digits> ([sid_like], known finding);
   * under an interface{} a string is not symbol-hinted and a []byte not clob-hinted (known finding). *)
From Coq Require Import String List NArith ZArith Bool.
From IonV Require Import Base.Wire Data.Ion Num.Float Bin.BinWriter
  Go.GoTypes Go.Fields Go.Encode Go.Decode Go.MarshalSpec.
Import ListNotations.
Open Scope N_scope.

(* the field record fieldsFor builds for a visible, non-embedded field at index i *)
Definition fld (name tag : text) (ty : gty) (i : nat) : field :=
  setopts {| f_name := match fst (parse_ion_tag tag) with [] => name | tn => tn end;
             f_typ := deref1 ty; f_path := [i]; f_omit := false; f_hint := TNoType; f_ann := false |}
          (snd (parse_ion_tag tag)).

(* not seen by fieldsFor: unexported (visible() of a non-embedded field) or tagged "-" *)
Definition skipped (ex : bool) (tag : text) : bool := negb ex || tok_is tag "-".

Fixpoint fields2 (fs : gfields) (i : nat) : list field :=
  match fs with
  | FNil => []
  | FCons name ex _ tag ty rest =>
    if skipped ex tag then fields2 rest (S i) else fld name tag ty i :: fields2 rest (S i)
  end.
Definition names2 (fs : gfields) (i : nat) : list text := map f_name (fields2 fs i).

Fixpoint rty2 (t : gty) : bool :=
  match t with
  | TyBool | TyInt _ | TyF32 | TyF64 | TyString | TyBigInt | TyDecimal | TyTimestamp | TyTime | TyIface => true
  | TySlice e | TyArray _ e | TyMap e => rty2 e
  | TyPtr e => rty2 e && negb (nullable e)
  | TyStruct fs => rfs2 fs 0 && distinct (names2 fs 0)
  | TySymTok => false
  end
with rfs2 (fs : gfields) (i : nat) : bool :=
  match fs with
  | FNil => true
  | FCons name ex emb tag ty rest =>
    negb emb &&
    (if skipped ex tag then true else negb (f_ann (fld name tag ty i)) && rty2 ty) &&
    rfs2 rest (S i)
  end.

(* ---- side conditions on the value ------------------------------------------------------------------ *)
Definition dec_zero (d : dec) : bool := (d_coef d =? 0)%Z && (d_exp d =? 0)%Z && negb (d_negzero d).

(* g is reflect.Zero(t) *)
Fixpoint is_zero (t : gty) (g : gval) : bool :=
  match t, g with
  | TyBool, GBool b => negb b
  | TyInt _, GInt z => (z =? 0)%Z
  | TyF32, GFloat b | TyF64, GFloat b => b =? 0
  | TyString, GString x => match x with [] => true | _ => false end
  | TySlice _, GBytes None | TySlice _, GSlice None | TyMap _, GMap None
  | TyPtr _, GPtr None | TyIface, GIface None => true
  | TyArray _ e, GArr l => forallb (is_zero e) l
  | TyStruct fs, GStruct l => is_zero_fields fs l
  | TyTimestamp, GTimestamp b | TyTime, GTime b => match b with [] => true | _ => false end
  | TyDecimal, GDecimal d => dec_zero d
  | TyBigInt, GBigInt z => (z =? 0)%Z
  | _, _ => false
  end
with is_zero_fields (fs : gfields) (l : list gval) : bool :=
  match fs, l with
  | FNil, _ => true
  | FCons _ _ _ _ ty rest, x :: r => is_zero ty x && is_zero_fields rest r
  | FCons _ _ _ _ _ _, [] => true
  end.

(* an emptyValue that is also the zero value: what an omitted field must hold *)
Definition omit_zero (g : gval) : bool :=
  match g with
  | GMap (Some _) | GSlice (Some _) | GBytes (Some _) => false
  | GFloat b => b =? 0
  | _ => true
  end.

(* float32 values that float32(float64(x)) gives back bit for bit (all but signalling NaNs) *)
Definition f32_exact (b : N) : bool := narrow (widen b) =? b.

(* an interface{} holding (dt, x) under hint h comes back with the same dynamic type and value *)
Definition iface_ok (h : N) (dt : gty) (x : gval) : bool :=
  match dt, x with
  | TyBool, GBool _ => true
  | TyInt IInt, GInt z => fits_int32 z
  | TyInt I64, GInt z => negb (fits_int32 z)
  | TyF64, GFloat _ => true
  | TyString, GString _ => negb (hint_is h TSymbol)
  | TySlice (TyInt U8), GBytes (Some _) => negb (hint_is h TClob)
  | TyDecimal, GDecimal _ | TyTimestamp, GTimestamp _ => true
  | _, _ => false
  end.

Fixpoint ok2 (t : gty) (h : N) (g : gval) : bool :=
  match t, g with
  | TyF32, GFloat b => f32_exact b
  | TyString, GString x => negb (hint_is h TSymbol && sid_like x)
  | TySlice e, GSlice (Some l) | TyArray _ e, GArr l => forallb (ok2 e h) l
  | TyMap e, GMap (Some m) => forallb (fun kv => ok2 e h (snd kv)) m
  | TyPtr e, GPtr (Some x) => ok2 e h x
  | TyIface, GIface (Some (dt, x)) => iface_ok h dt x
  | TyStruct fs, GStruct l => ok2_fields fs l 0
  | _, _ => true
  end
with ok2_fields (fs : gfields) (l : list gval) (i : nat) : bool :=
  match fs, l with
  | FCons name ex _ tag ty rest, x :: r =>
    (if skipped ex tag then is_zero ty x
     else let f := fld name tag ty i in
          ok2 ty (f_hint f) x && (negb (f_omit f && empty_value ty x) || omit_zero x)) &&
    ok2_fields rest r (S i)
  | _, _ => true
  end.

Definition has_type2 (g : gval) (t : gty) : bool := has_type g t && ok2 t TNoType g.

(* ---- the documented image under a hint --------------------------------------------------------------- *)
Definition seq_val (h : N) (l : list value) : value := if hint_is h TSexp then VSexp l else VList l.

(* the value held by an interface{} (scalars only) *)
Definition ion_leaf (dt : gty) (h : N) (x : gval) : value :=
  match dt, x with
  | TyString, GString y => if hint_is h TSymbol then VSymbol (SymText y) else VString y
  | TySlice _, GBytes (Some b) => if hint_is h TClob then VClob b else VBlob b
  | _, _ => ion_of dt x
  end.

Fixpoint ion2 (t : gty) (h : N) (g : gval) : value :=
  match t, g with
  | TyF32, GFloat b => VFloat (widen b)
  | TyString, GString x => if hint_is h TSymbol then VSymbol (SymText x) else VString x
  | TySlice _, GBytes (Some b) => if hint_is h TClob then VClob b else VBlob b
  | TySlice e, GSlice (Some l) | TyArray _ e, GArr l => seq_val h (map (ion2 e h) l)
  | TyMap e, GMap (Some m) => VStruct (map (fun kv => (SymText (fst kv), ion2 e h (snd kv))) m)
  | TyPtr e, GPtr (Some x) => ion2 e h x
  | TyIface, GIface (Some (dt, x)) => ion_leaf dt h x
  | TyStruct fs, GStruct l => VStruct (ion2_fields fs l 0)
  | _, _ => ion_of t g
  end
with ion2_fields (fs : gfields) (l : list gval) (i : nat) : list (symv * value) :=
  match fs, l with
  | FCons name ex _ tag ty rest, x :: r =>
    if skipped ex tag then ion2_fields rest r (S i)
    else let f := fld name tag ty i in
         if f_omit f && empty_value ty x then ion2_fields rest r (S i)
         else (SymText (f_name f), ion2 ty (f_hint f) x) :: ion2_fields rest r (S i)
  | _, _ => []
  end.

