(* Encode.v — executable model of ion/marshal.go: the sequence of ion.Writer calls
   that Encoder.encodeValue issues for a Go value.  No proofs.

   encode_f fuel sortmaps t g addr hint:
     t, g    static type and value of the reflect.Value
     addr    reflect.Value.CanAddr()  (encodeDecimal takes v.Addr())
     hint    the ion.Type hint (NoType / SymbolType / ClobType / SexpType)
   Writer errors are not modelled (the Writer of the correspondence never fails), so
   the errors are Marshal's own; Panic where the code panics.  A struct whose only
   fields are annotation fields is an error (fix_annotation_only_struct; it used to
   recurse without bound).
   Map iteration order: with EncodeSortMaps (MarshalText) the keys are sorted;
   without (MarshalBinary) Go's order is unspecified and the model uses the stored
   order.  User types implementing Marshaler are outside the universe. *)
From Coq Require Import String List NArith ZArith Bool.
From IonV Require Import Base.Wire Data.Ion Num.Float Bin.BinWriter Go.GoTypes Go.Fields.
Import ListNotations.
Open Scope N_scope.

(* the struct value behind a struct-kind reflect.Value: field types and field values *)
Definition struct_parts (t : gty) (g : gval) : option (gfields * list gval) :=
  match t, g with
  | TyStruct fs, GStruct l => Some (fs, l)
  | TySymTok, GSymTok tk =>
    Some (symtok_fields, [GPtr (option_map GString (tk_text tk)); GInt (tk_sid tk); GPtr None])
  | TyTimestamp, GTimestamp _ | TyDecimal, GDecimal _ | TyBigInt, GBigInt _ | TyTime, GTime _ => Some (FNil, [])
  | _, _ => None
  end.

Fixpoint nth_fty (fs : gfields) (i : nat) : option gty :=
  match fs, i with
  | FNil, _ => None
  | FCons _ _ _ _ ty _, O => Some ty
  | FCons _ _ _ _ _ rest, S j => nth_fty rest j
  end.

Inductive walk := WSkip | WBad | WAt (t : gty) (g : gval) (addr : bool).

(* the FieldLoop walk of encodeStruct: a nil embedded pointer skips the field *)
Fixpoint walk_enc (t : gty) (g : gval) (addr : bool) (path : list nat) : walk :=
  match path with
  | [] => WAt t g addr
  | i :: p =>
    let step (t : gty) (g : gval) (addr : bool) :=
      match struct_parts t g with
      | Some (fs, l) => match nth_fty fs i, nth_error l i with
                        | Some ft, Some fv => walk_enc ft fv addr p
                        | _, _ => WBad
                        end
      | None => WBad
      end in
    match t, g with
    | TyPtr e, GPtr None => WSkip
    | TyPtr e, GPtr (Some x) => step e x true
    | _, _ => step t g addr
    end
  end.

(* findSubvalue as encodeWithAnnotation uses it: a nil embedded pointer is allocated when
   settable (= addressable here), else an error *)
Inductive walk2 := W2Err | W2Bad | W2At (t : gty) (g : gval) (addr : bool).
Fixpoint walk_sub (t : gty) (g : gval) (addr : bool) (path : list nat) : walk2 :=
  match path with
  | [] => W2At t g addr
  | i :: p =>
    let step (t : gty) (g : gval) (addr : bool) :=
      match struct_parts t g with
      | Some (fs, l) => match nth_fty fs i, nth_error l i with
                        | Some ft, Some fv => walk_sub ft fv addr p
                        | _, _ => W2Bad
                        end
      | None => W2Bad
      end in
    match t, g with
    | TyPtr e, GPtr None => if addr then step e (zero e) true else W2Err
    | TyPtr e, GPtr (Some x) => step e x true
    | _, _ => step t g addr
    end
  end.

(* emptyValue *)
Definition empty_value (t : gty) (g : gval) : bool :=
  match t, g with
  | TyArray n _, _ => n =? 0
  | _, GMap None | _, GSlice None | _, GBytes None => true
  | _, GMap (Some m) => match m with [] => true | _ => false end
  | _, GSlice (Some l) => match l with [] => true | _ => false end
  | _, GBytes (Some l) => match l with [] => true | _ => false end
  | _, GString t => match t with [] => true | _ => false end
  | _, GBool b => negb b
  | _, GInt z => (z =? 0)%Z
  | TyF32, GFloat b => b mod 2 ^ 31 =? 0
  | _, GFloat b => b mod 2 ^ 63 =? 0
  | _, GIface None | _, GPtr None => true
  | _, _ => false
  end.

(* sort.Slice(keys, <) on distinct keys: insertion sort *)
Fixpoint insert_key {A} (k : text) (x : A) (l : list (text * A)) : list (text * A) :=
  match l with
  | [] => [(k, x)]
  | (k', y) :: r => if text_ltb k k' then (k, x) :: l else (k', y) :: insert_key k x r
  end.
Definition sort_keys {A} (l : list (text * A)) : list (text * A) :=
  fold_right (fun kv acc => insert_key (fst kv) (snd kv) acc) [] l.

Definition symtoks_of (g : gval) : option (list tok) :=
  match g with
  | GSlice None => Some []
  | GSlice (Some l) =>
    fold_right (fun x acc => match x, acc with GSymTok t, Some r => Some (t :: r) | _, _ => None end) (Some []) l
  | _ => None
  end.
Definition strings_of (g : gval) : option (list tok) :=
  match g with
  | GSlice None => Some []
  | GSlice (Some l) =>
    fold_right (fun x acc => match x, acc with GString t, Some r => Some (tok_text t :: r) | _, _ => None end) (Some []) l
  | _ => None
  end.
(* annotations.Interface().(type): []SymbolToken or []string (an interface{} field is unwrapped by Interface()) *)
Definition ann_tokens1 (t : gty) (g : gval) : option (list tok) :=
  match t with
  | TySlice TySymTok => symtoks_of g
  | TySlice TyString => strings_of g
  | _ => None
  end.
Definition ann_tokens (t : gty) (g : gval) : option (list tok) :=
  match t with
  | TyIface => match g with GIface (Some (dt, x)) => ann_tokens1 dt x | _ => None end
  | _ => ann_tokens1 t g
  end.

Fixpoint any_ann (l : list field) : bool :=
  match l with [] => false | f :: r => f_ann f || any_ann r end.

Definition concat_res (l : list (res (list wcall))) : res (list wcall) :=
  fold_right (fun r acc => do a <- r; do b <- acc; Ok (a ++ b)) (Ok []) l.

Definition hint_is (hint h : N) : bool := hint =? h.

(* encodeArray *)
Definition enc_array (rec : gty -> gval -> bool -> N -> res (list wcall))
  (e : gty) (l : list gval) (eaddr : bool) (hint : N) : res (list wcall) :=
  do body <- concat_res (map (fun x => rec e x eaddr hint) l);
  Ok ((if hint_is hint TSexp then [CBeginSexp] else [CBeginList]) ++ body ++
      (if hint_is hint TSexp then [CEndSexp] else [CEndList])).

(* encodeMap after the nil test *)
Definition enc_map (rec : gty -> gval -> bool -> N -> res (list wcall)) (sortmaps : bool)
  (e : gty) (m : list (text * gval)) (hint : N) : res (list wcall) :=
  let keys := if sortmaps then sort_keys m else m in
  do body <- concat_res (map (fun kv => do c <- rec e (snd kv) false hint;
                                        Ok (CFieldName (tok_text (fst kv)) :: c)) keys);
  Ok ([CBeginStruct] ++ body ++ [CEndStruct]).

(* encodeWithAnnotation *)
Fixpoint enc_with_ann (rec : gty -> gval -> bool -> N -> res (list wcall)) (t : gty) (g : gval) (addr : bool)
  (fl : list field) (cur : option (gty * gval * bool)) (moved : bool) (acc : list wcall)
  {struct fl} : res (list wcall) :=
  match fl with
  | [] =>
    if negb moved then Err            (* unreachable: enc_struct tests hasValue first *)
    else match cur with
         | None => Ok (acc ++ [CNull])              (* invalid reflect.Value *)
         | Some (ft, fv, fa) => do c <- rec ft fv fa TNoType; Ok (acc ++ c)
         end
  | f :: r =>
    if f_ann f then
      match walk_sub t g addr (f_path f) with
      | W2Err => Err
      | W2Bad => Panic
      | W2At ft fv _ =>
        match ann_tokens ft fv with
        | Some tks => enc_with_ann rec t g addr r cur moved (acc ++ [CAnnotations tks])
        | None => Err
        end
      end
    else
      match walk_sub t g addr (f_path f) with
      | W2Err => enc_with_ann rec t g addr r None true acc
      | W2Bad => Panic
      | W2At ft fv fa => enc_with_ann rec t g addr r (Some (ft, fv, fa)) true acc
      end
  end.

(* the FieldLoop of encodeStruct *)
Definition enc_fields (rec : gty -> gval -> bool -> N -> res (list wcall)) (t : gty) (g : gval) (addr : bool)
  (fields : list field) : res (list wcall) :=
  do body <- concat_res (map (fun f =>
    match walk_enc t g addr (f_path f) with
    | WSkip => Ok []
    | WBad => Panic
    | WAt ft fv fa =>
      if f_omit f && empty_value ft fv then Ok []
      else do c <- rec ft fv fa (f_hint f); Ok (CFieldName (tok_text (f_name f)) :: c)
    end) fields);
  Ok ([CBeginStruct] ++ body ++ [CEndStruct]).

(* encodeStruct *)
Definition enc_struct (rec : gty -> gval -> bool -> N -> res (list wcall)) (t : gty) (g : gval) (addr : bool)
  : res (list wcall) :=
  do fields <- fields_for t;
  if any_ann fields then
    if forallb f_ann fields then Err                 (* no field for the annotated value *)
    else enc_with_ann rec t g addr fields None false []
  else
    match t with
    | TyTimestamp => match g with GTimestamp body => Ok [CTimestamp (N.of_nat (length body)) body] | _ => Panic end
    | TyTime => match g with GTime body => Ok [CTimestamp (N.of_nat (length body)) body] | _ => Panic end
    | TyDecimal => match g with GDecimal d => Ok [CDecimal (Some d)] | _ => Panic end   (* a copy when not addressable *)
    | TyBigInt => match g with GBigInt z => Ok [CBigInt (Some z)] | _ => Panic end
    | _ => enc_fields rec t g addr fields
    end.

Definition ill_typed : res (list wcall) := Panic.    (* not produced by well-typed values *)

(* encodeValue: one level, recursive calls through [rec] *)
Definition enc_body (rec : gty -> gval -> bool -> N -> res (list wcall)) (sortmaps : bool)
  (t : gty) (g : gval) (addr : bool) (hint : N) : res (list wcall) :=
  match t with
  | TyBool => match g with GBool b => Ok [CBool b] | _ => ill_typed end
  | TyInt k =>
    match g with
    | GInt z => match k with
                | UInt | U64 | UPtr => Ok [CBigInt (Some z)]
                | _ => Ok [CInt z]
                end
    | _ => ill_typed
    end
  | TyF32 => match g with GFloat b => Ok [CFloat (widen b)] | _ => ill_typed end
  | TyF64 => match g with GFloat b => Ok [CFloat b] | _ => ill_typed end
  | TyString =>
    match g with
    | GString x => if hint_is hint TSymbol then Ok [CSymbolFromString x] else Ok [CString x]
    | _ => ill_typed
    end
  | TyIface =>
    match g with
    | GIface None => Ok [CNull]
    | GIface (Some (dt, x)) => rec dt x false hint
    | _ => ill_typed
    end
  | TyPtr e =>
    match g with
    | GPtr None => Ok [CNull]
    | GPtr (Some x) => rec e x true hint
    | _ => ill_typed
    end
  | TyMap e =>
    match g with
    | GMap None => Ok [CNull]
    | GMap (Some m) => enc_map rec sortmaps e m hint
    | _ => ill_typed
    end
  | TySlice e =>
    match g with
    | GBytes None => Ok [CNull]
    | GBytes (Some b) => if hint_is hint TClob then Ok [CClob b] else Ok [CBlob b]
    | GSlice None => Ok [CNull]
    | GSlice (Some l) => enc_array rec e l true hint
    | _ => ill_typed
    end
  | TyArray _ e => match g with GArr l => enc_array rec e l addr hint | _ => ill_typed end
  | _ => enc_struct rec t g addr
  end.

Fixpoint encode_f (fuel : nat) (sortmaps : bool) (t : gty) (g : gval) (addr : bool) (hint : N)
  {struct fuel} : res (list wcall) :=
  match fuel with
  | O => OutOfFuel
  | S fuel' => enc_body (encode_f fuel' sortmaps) sortmaps t g addr hint
  end.
Arguments encode_f : simpl never.

Definition enc_fuel (g : gval) : nat := (2 * gv_size g + 2)%nat.

(* Encoder.EncodeAs(v, hint) where v has static type t (the interface{} parameter makes the
   top-level reflect.Value non-addressable) *)
Definition encode (sortmaps : bool) (t : gty) (g : gval) (hint : N) : res (list wcall) :=
  encode_f (enc_fuel g) sortmaps t g false hint.
