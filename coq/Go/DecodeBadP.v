(* DecodeBadP.v — C17, error clauses at any depth (definitions: Go/DecodeBad.v): a value that holds, at a
   position the decoder visits, a leaf that must be rejected is never decoded to Ok, for every fuel, every
   current content of the target and both settings of reflect's read-only flag. *)
From Coq Require Import String List NArith ZArith Bool Lia ZifyBool ZifyN ZifyNat Arith.
From IonV Require Import Base.Wire Data.Ion Num.Float Go.GoTypes Go.Fields Go.Decode Go.MarshalSpec
  Go.MarshalP Go.DecodeSafeP Go.MarshalSpec2 Go.Roundtrip2P Go.DecodeBad.
Import ListNotations.
Open Scope N_scope.

Definition NotOk {A} (r : res A) : Prop := forall g, r <> Ok g.

Lemma bind_notok_l : forall {A B} (r : res A) (k : A -> res B), NotOk r -> NotOk (bind r k).
Proof. intros A B r k H g. destruct r; cbn [bind]; try discriminate. exfalso. exact (H a eq_refl). Qed.
Lemma bind_notok_r : forall {A B} (r : res A) (k : A -> res B), (forall y, NotOk (k y)) -> NotOk (bind r k).
Proof. intros A B r k H g. destruct r; cbn [bind]; try discriminate. apply H. Qed.

Lemma bind_notok_r' : forall {A B} (r : res A) (k : A -> res B), (forall y, r = Ok y -> NotOk (k y)) -> NotOk (bind r k).
Proof. intros A B r k H g. destruct r; cbn [bind]; try discriminate. apply H. reflexivity. Qed.

Lemma not_ok_not_panic_is_err : forall (r : res gval),
  (forall g, r <> Ok g) -> r <> Panic -> r <> OutOfFuel -> r = Err.
Proof.
  intros r H1 H2 H3. destruct r; [exfalso; exact (H1 a eq_refl)|reflexivity|exfalso; exact (H2 eq_refl)|exfalso; exact (H3 eq_refl)].
Qed.

(* ---- the loops: one element whose decode is never Ok makes the loop never Ok ------------------------------ *)
Lemma slice_elems_bad : forall (rec : recT) e ro isnil cur (Q : value -> Prop) l old acc,
  Exists Q l ->
  (forall x c, Q x -> (In c old \/ c = zero e) -> NotOk (rec e c ro x)) ->
  NotOk (dec_slice_elems rec e ro isnil cur l old acc).
Proof.
  intros rec e ro isnil cur Q l. induction l as [|x r IH]; intros old acc HE HQ.
  - inversion HE.
  - cbn [dec_slice_elems].
    destruct (ro && match old with [] => true | _ => false end); [intro g; discriminate|].
    inversion HE as [? ? Hx | ? ? Hr]; subst.
    + apply bind_notok_l. apply HQ; [exact Hx|]. destruct old; [right; reflexivity|left; left; reflexivity].
    + apply bind_notok_r. intro y. apply IH; [exact Hr|]. intros x' c Hq Hc. apply HQ; [exact Hq|].
      destruct Hc as [Hc|Hc]; [left|right; exact Hc]. destruct old; [destruct Hc|right; exact Hc].
Qed.

Lemma array_elems_bad : forall (rec : recT) e ro (Q : value -> Prop) old l acc,
  Exists Q (firstn (length old) l) ->
  (forall x c, Q x -> In c old -> NotOk (rec e c ro x)) ->
  NotOk (dec_array_elems rec e ro l old acc).
Proof.
  intros rec e ro Q old. induction old as [|c o IH]; intros l acc HE HQ.
  - cbn [length firstn] in HE. inversion HE.
  - destruct l as [|x r]; [cbn [length firstn] in HE; inversion HE|].
    cbn [length firstn] in HE. cbn [dec_array_elems].
    inversion HE as [? ? Hx | ? ? Hr]; subst.
    + apply bind_notok_l. apply HQ; [exact Hx|left; reflexivity].
    + apply bind_notok_r. intro y. apply IH; [exact Hr|]. intros x' c' Hq Hc. apply HQ; [exact Hq|right; exact Hc].
Qed.

Lemma map_fields_bad : forall (rec : recT) e ro (Q : value -> Prop) l m,
  Exists (fun kx => exists k, fst kx = SymText k /\ Q (snd kx)) l ->
  (forall x, Q x -> NotOk (rec e (zero e) false x)) ->
  NotOk (dec_map_fields rec e ro l m).
Proof.
  intros rec e ro Q l. induction l as [|[[k|n] x] r IH]; intros m HE HQ.
  - inversion HE.
  - cbn [dec_map_fields]. inversion HE as [? ? Hx | ? ? Hr]; subst.
    + destruct Hx as [k' [_ Hq]]. apply bind_notok_l. apply HQ. exact Hq.
    + apply bind_notok_r. intro y. destruct ro; [intro g; discriminate|]. apply IH; assumption.
  - cbn [dec_map_fields]. inversion HE as [? ? Hx | ? ? Hr]; subst.
    + destruct Hx as [k' [Hk _]]. discriminate Hk.
    + apply IH; assumption.
Qed.

Lemma struct_fields_bad : forall (rec : recT) t ro fields (Q : nat -> value -> Prop) (Inv : gval -> Prop) l c,
  Exists (fun kx => exists k fl i, fst kx = SymText k /\ find_field_by fields k = Some fl /\
                                   f_path fl = [i] /\ Q i (snd kx)) l ->
  (forall i x c, Inv c -> Q i x -> NotOk (upd_path t c ro [i] (fun ft fc fro => rec ft fc fro x))) ->
  (forall fl x c c', Inv c -> upd_path t c ro (f_path fl) (fun ft fc fro => rec ft fc fro x) = Ok c' -> Inv c') ->
  Inv c ->
  NotOk (dec_struct_fields rec t ro fields l c).
Proof.
  intros rec t ro fields Q Inv l. induction l as [|[[k|n] x] r IH]; intros c HE HQ HI Hc.
  - inversion HE.
  - cbn [dec_struct_fields]. inversion HE as [? ? Hx | ? ? Hr]; subst.
    + destruct Hx as [k' [fl [i [Hk [Hf [Hp Hq]]]]]]. cbn [fst snd] in *. injection Hk as <-.
      rewrite Hf, Hp. apply bind_notok_l. apply HQ; assumption.
    + destruct (find_field_by fields k) as [fl|]; [|apply IH; assumption].
      apply bind_notok_r'. intros y Hy. apply IH; try assumption. eapply HI; eassumption.
  - cbn [dec_struct_fields]. inversion HE as [? ? Hx | ? ? Hr]; subst.
    + destruct Hx as [k' [fl [i [Hk _]]]]. discriminate Hk.
    + apply IH; assumption.
Qed.

(* findSubvalue on a one-step path either reaches the field or fails: never Ok without calling k *)
Lemma upd_path1_bad : forall fs c ro i ft ex (k : gty -> gval -> bool -> res gval),
  nth_field fs i = Some (ft, ex) ->
  (forall l fc fro, c = GStruct l -> nth_error l i = Some fc -> NotOk (k ft fc fro)) ->
  NotOk (upd_path (TyStruct fs) c ro [i] k).
Proof.
  intros fs c ro i ft ex k Hn Hk. cbn [upd_path]. destruct c; try (intro g; discriminate).
  rewrite Hn. destruct (nth_error fs0 i) eqn:He; [|intro g; discriminate].
  apply bind_notok_l. cbn [upd_path]. eapply Hk; [reflexivity|exact He].
Qed.

(* ---- leaves -------------------------------------------------------------------------------------------- *)
Lemma dec_int_notok : forall k z ro, in_range k z = false -> NotOk (dec_int k z ro).
Proof.
  intros k z ro H g. destruct ro.
  - unfold dec_int, setv. destruct k;
      repeat match goal with |- context[if ?c then _ else _] => destruct c end; discriminate.
  - rewrite dec_int_spec, H. discriminate.
Qed.

Lemma fields_for_symtok_len : exists a b c, fields_for TySymTok = Ok [a; b; c].
Proof. vm_compute. eexists. eexists. eexists. reflexivity. Qed.

Lemma leaf_bad_notok : forall (rec : recT) t cur ro v,
  leaf_bad t (body_of v) = true -> NotOk (dec_value rec t cur ro v).
Proof.
  intros rec t cur ro v H g. unfold dec_value.
  destruct t; try discriminate H; destruct (body_of v) eqn:Hb; cbn [leaf_bad] in H; try discriminate H;
    unfold or_wrapper; cbn [is_struct_kind]; try discriminate.
  all: try (unfold wrapper; cbn [fields_for inspect bind]; discriminate).
  all: try (unfold wrapper; destruct fields_for_symtok_len as [a [b [c ->]]]; cbn [bind]; discriminate).
  - apply dec_int_notok. apply negb_true_iff. exact H.
  - rewrite H. discriminate.
  - destruct y; [discriminate H|]. cbn [symv_text]. discriminate.
Qed.

Lemma shaped_zero : forall t, shaped t (zero t) = true.
Proof.
  apply (gty_mut (fun t => shaped t (zero t) = true) (fun fs => shaped_fields fs (zero_fields fs) = true));
    try reflexivity.
  - intros e IH. cbn [zero]. destruct (is_u8 e); reflexivity.
  - intros n e IH. cbn [zero shaped]. rewrite repeat_length, Nat.eqb_refl. cbn [andb]. apply forallb_repeat. exact IH.
  - intros fs IH. exact IH.
  - intros name ex emb tag ty IH1 rest IH2. cbn [zero_fields shaped_fields]. rewrite IH1, IH2. reflexivity.
Qed.

Lemma bad_not_null : forall arr t v, bad arr t v = true -> is_null v = false.
Proof.
  intros arr t v H. unfold is_null. destruct t; cbn [bad] in H; destruct (body_of v); try discriminate H; reflexivity.
Qed.
Lemma bad_ptr : forall arr e v, bad arr (TyPtr e) v = true -> bad arr e v = true.
Proof. intros arr e v H. cbn [bad] in H. destruct (body_of v); try discriminate H; exact H. Qed.

Lemma at_break_notok : forall (rec : recT) t cur ro v,
  is_null v = false -> NotOk (dec_value rec t cur ro v) -> NotOk (at_break rec t cur ro v).
Proof.
  intros rec t cur ro v Hn H. unfold at_break. rewrite Hn.
  match goal with |- context[if ?c then Err else _] => destruct c end; [intro g; discriminate|exact H].
Qed.

Lemma existsb_Exists : forall {A} (p : A -> bool) l, existsb p l = true -> Exists (fun x => p x = true) l.
Proof. intros A p l H. apply existsb_exists in H. apply Exists_exists. exact H. Qed.

(* ---- decodeTo keeps the arrays of the target at their declared length --------------------------------------- *)
Lemma shaped_nth : forall fs l i ft ex fv,
  shaped_fields fs l = true -> nth_field fs i = Some (ft, ex) -> nth_error l i = Some fv -> shaped ft fv = true.
Proof.
  induction fs as [|name e emb tag ty rest IH]; intros l i ft ex fv Hs Hn He; [discriminate Hn|].
  destruct l as [|x r]; [destruct i; discriminate He|].
  cbn [shaped_fields] in Hs. apply andb_prop in Hs. destruct Hs as [H1 H2].
  destruct i as [|j]; cbn [nth_field nth_error] in Hn, He.
  - injection Hn as <- _. injection He as <-. exact H1.
  - eapply IH; eassumption.
Qed.
Lemma shaped_set_nth : forall fs l i ft ex x,
  shaped_fields fs l = true -> nth_field fs i = Some (ft, ex) -> shaped ft x = true ->
  shaped_fields fs (set_nth l i x) = true.
Proof.
  induction fs as [|name e emb tag ty rest IH]; intros l i ft ex x Hs Hn Hx; [discriminate Hn|].
  destruct l as [|y r]; [destruct i; reflexivity|].
  cbn [shaped_fields] in Hs. apply andb_prop in Hs. destruct Hs as [H1 H2].
  destruct i as [|j]; cbn [nth_field] in Hn; cbn [set_nth shaped_fields].
  - injection Hn as <- _. rewrite Hx, H2. reflexivity.
  - rewrite H1. cbn [andb]. eapply IH; eassumption.
Qed.

Definition Pres (rec : recT) : Prop :=
  forall t cur ro v g, shaped t cur = true -> rec t cur ro v = Ok g -> shaped t g = true.

Ltac in_struct_tac IH H Hs :=
  match type of H with context[nth_field ?fs ?i] =>
    let Hn := fresh "Hn" in destruct (nth_field fs i) as [[? ?]|] eqn:Hn; [|discriminate H];
  match type of H with context[nth_error ?l i] =>
    let He := fresh "He" in destruct (nth_error l i) as [?|] eqn:He; [|discriminate H];
  match type of H with context[upd_path ?a ?b ?c ?d ?e] =>
    let Hu := fresh "Hu" in destruct (upd_path a b c d e) as [?| | |] eqn:Hu; try discriminate H;
    cbn [bind] in H; injection H as <-; cbn [shaped];
    eapply shaped_set_nth; [exact Hs|exact Hn|eapply IH; [eapply shaped_nth; eassumption|exact Hu]]
  end end end.

Lemma upd_path_pres : forall (k : gty -> gval -> bool -> res gval),
  (forall ft fc fro g', shaped ft fc = true -> k ft fc fro = Ok g' -> shaped ft g' = true) ->
  forall path t cur ro g, shaped t cur = true -> upd_path t cur ro path k = Ok g -> shaped t g = true.
Proof.
  intros k Hk. induction path as [|i p IH]; intros t cur ro g Hs H.
  - eapply Hk; eassumption.
  - cbn [upd_path] in H. destruct t; try discriminate H.
    + (* pointer to an embedded struct *)
      destruct cur; try discriminate H. destruct p0 as [y|].
      * destruct t; try discriminate H. destruct y; try discriminate H. cbn [shaped] in Hs.
        in_struct_tac IH H Hs.
      * destruct ro; [discriminate H|]. destruct t; try discriminate H. cbn [zero] in H.
        pose proof (shaped_zero (TyStruct fs)) as Hz. cbn [zero shaped] in Hz.
        in_struct_tac IH H Hz.
    + destruct cur; try discriminate H. cbn [shaped] in Hs. in_struct_tac IH H Hs.
Qed.

Lemma forallb_true : forall {A} (p : A -> bool) l, (forall x, p x = true) -> forallb p l = true.
Proof. intros A p l H. apply forallb_forall. intros x _. apply H. Qed.

Lemma ann_field_val_shaped : forall ft a g, ann_field_val ft a = Ok g -> shaped ft g = true.
Proof.
  intros ft a g H. destruct ft; try discriminate H; try reflexivity.
  destruct ft; try discriminate H; cbn [ann_field_val] in H.
  - destruct a; [injection H as <-; reflexivity|]. destruct (ann_texts (s :: a)); [|discriminate H].
    injection H as <-. cbn [shaped]. apply forallb_true. reflexivity.
  - injection H as <-. unfold anns_val. destruct a; [reflexivity|]. cbn [shaped]. apply forallb_true. reflexivity.
Qed.

Lemma attach_ann_pres : forall t cur ro a g,
  shaped t cur = true -> attach_ann t cur ro a = Ok g -> shaped t g = true.
Proof.
  intros t cur ro a g Hs H. unfold attach_ann in H. destruct (fields_for t) as [fields| | |]; try discriminate H.
  cbn [bind] in H. destruct (first_ann fields) as [f|]; [|injection H as <-; exact Hs].
  eapply upd_path_pres; [|exact Hs|exact H]. intros ft fc fro g' _ Hk. cbv beta in Hk.
  destruct (ann_field_val ft a) eqn:E; try discriminate Hk. cbn [bind] in Hk.
  destruct fro; [discriminate Hk|]. injection Hk as <-. eapply ann_field_val_shaped. exact E.
Qed.

Lemma wrapper_pres : forall rec, Pres rec -> forall t cur ro v c g,
  shaped t cur = true -> wrapper rec t cur ro v c = Ok g -> shaped t g = true.
Proof.
  intros rec HP t cur ro v c g Hs H. unfold wrapper in H.
  destruct (fields_for t) as [fields| | |]; try discriminate H. cbn [bind] in H.
  destruct fields as [|f1 [|f2 [|f3 r]]]; try discriminate H.
  assert (Hid : forall (ft : gty) (fc : gval) (fro : bool) g', shaped ft fc = true ->
                  (fun (_ : gty) (x : gval) (_ : bool) => Ok x) ft fc fro = Ok g' -> shaped ft g' = true).
  { intros ft fc fro g' S E. injection E as <-. exact S. }
  destruct (upd_path t cur ro (f_path f1) _) as [cur1| | |] eqn:E1; try discriminate H. cbn [bind] in H.
  pose proof (upd_path_pres _ Hid _ _ _ _ _ Hs E1) as S1.
  destruct (upd_path t cur1 ro (f_path f2) _) as [cur2| | |] eqn:E2; try discriminate H. cbn [bind] in H.
  pose proof (upd_path_pres _ Hid _ _ _ _ _ S1 E2) as S2.
  match type of H with (if ?c then _ else _) = _ => destruct c end; [|discriminate H].
  destruct (attach_ann t cur2 ro (anns_of v)) as [cur3| | |] eqn:E3; try discriminate H. cbn [bind] in H.
  pose proof (attach_ann_pres _ _ _ _ _ S2 E3) as S3.
  destruct (first_non_ann [f1; f2]); [|injection H as <-; exact S3].
  eapply upd_path_pres; [|exact S3|exact H]. intros ft fc fro g' S E. cbv beta in E. eapply HP; eassumption.
Qed.

Lemma or_wrapper_pres : forall rec, Pres rec -> forall t cur ro v c g,
  shaped t cur = true -> or_wrapper rec t cur ro v c = Ok g -> shaped t g = true.
Proof.
  intros rec HP t cur ro v c g Hs H. unfold or_wrapper in H.
  destruct (is_struct_kind t); [eapply wrapper_pres; eassumption|discriminate H].
Qed.

Lemma slice_elems_pres : forall rec, Pres rec -> forall e ro isnil cur l old acc g,
  forallb (shaped e) old = true -> forallb (shaped e) acc = true ->
  dec_slice_elems rec e ro isnil cur l old acc = Ok g -> shaped (TySlice e) g = true.
Proof.
  intros rec HP e ro isnil cur l. induction l as [|x r IH]; intros old acc g Ho Ha H.
  - cbn [dec_slice_elems] in H. rewrite <- (forallb_rev (shaped e)) in Ha. remember (rev acc) as out.
    assert (Hfin : forall g, (if is_u8 e
                              then Ok (GBytes (Some (map (fun g => match g with GInt z => Z.to_N z | _ => 0 end) out)))
                              else Ok (GSlice (Some out))) = Ok g -> shaped (TySlice e) g = true).
    { intros g0 H0. destruct (is_u8 e) eqn:Hu; injection H0 as <-; cbn [shaped]; [|exact Ha].
      apply is_u8_eq in Hu. subst e. apply forallb_true. reflexivity. }
    destruct out as [|o1 out'].
    + destruct isnil.
      * destruct ro; [discriminate H|]. destruct (is_u8 e); injection H as <-; reflexivity.
      * match type of H with (if ?c then _ else _) = _ => destruct c end; [discriminate H|]. apply Hfin. exact H.
    + match type of H with (if ?c then _ else _) = _ => destruct c end; [discriminate H|]. apply Hfin. exact H.
  - cbn [dec_slice_elems] in H.
    match type of H with (if ?c then _ else _) = _ => destruct c end; [discriminate H|].
    match type of H with context[rec e ?c0 ro x] => destruct (rec e c0 ro x) as [y| | |] eqn:E; try discriminate H;
      assert (Sy : shaped e y = true) by
        (eapply HP; [|exact E]; destruct old as [|c1 o]; [apply shaped_zero|cbn [forallb] in Ho; apply andb_prop in Ho; apply Ho])
    end.
    cbn [bind] in H. eapply IH; [| |exact H].
    + destruct old as [|c1 o]; [reflexivity|]. cbn [forallb] in Ho. apply andb_prop in Ho. apply Ho.
    + cbn [forallb]. rewrite Sy, Ha. reflexivity.
Qed.

Lemma array_elems_pres : forall rec, Pres rec -> forall e ro n old l acc g,
  forallb (shaped e) old = true -> forallb (shaped e) acc = true -> (length acc + length old = N.to_nat n)%nat ->
  dec_array_elems rec e ro l old acc = Ok g -> shaped (TyArray n e) g = true.
Proof.
  intros rec HP e ro n old. induction old as [|c o IH]; intros l acc g Ho Ha Hlen H.
  - destruct l; cbn [dec_array_elems] in H; injection H as <-; cbn [shaped]; rewrite rev_length, forallb_rev, Ha;
    cbn [length] in Hlen; (replace (length acc) with (N.to_nat n) by lia); rewrite Nat.eqb_refl; reflexivity.
  - cbn [forallb] in Ho. apply andb_prop in Ho. destruct Ho as [Hc Ho]. cbn [length] in Hlen.
    destruct l as [|x r]; cbn [dec_array_elems] in H.
    + destruct ro; [discriminate H|]. injection H as <-. cbn [shaped].
      change (zero e :: map (fun _ : gval => zero e) o) with (map (fun _ : gval => zero e) (c :: o)).
      rewrite app_length, rev_length, map_length. cbn [length].
      replace (length acc + S (length o))%nat with (N.to_nat n) by lia. rewrite Nat.eqb_refl. cbn [andb].
      rewrite forallb_app, forallb_rev, Ha. cbn [andb]. apply forallb_forall. intros y Hy.
      apply in_map_iff in Hy. destruct Hy as [_ [<- _]]. apply shaped_zero.
    + destruct (rec e c ro x) as [y| | |] eqn:E; try discriminate H. cbn [bind] in H.
      apply (IH r (y :: acc) g); [exact Ho| |cbn [length]; lia|exact H].
      cbn [forallb]. rewrite Ha, (HP _ _ _ _ _ Hc E). reflexivity.
Qed.

Lemma take_bytes_length : forall n b, length (take_bytes n b) = n.
Proof. induction n as [|m IH]; intro b; [reflexivity|]. destruct b; cbn [take_bytes length]; rewrite IH; reflexivity. Qed.

Lemma struct_fields_pres : forall rec, Pres rec -> forall t ro fields l c g,
  shaped t c = true -> dec_struct_fields rec t ro fields l c = Ok g -> shaped t g = true.
Proof.
  intros rec HP t ro fields l. induction l as [|[[k|n] x] r IH]; intros c g Hs H; cbn [dec_struct_fields] in H.
  - injection H as <-. exact Hs.
  - destruct (find_field_by fields k) as [fl|]; [|eapply IH; eassumption].
    destruct (upd_path t c ro (f_path fl) _) as [c'| | |] eqn:E; try discriminate H. cbn [bind] in H.
    eapply IH; [|exact H]. eapply upd_path_pres; [|exact Hs|exact E].
    intros ft fc fro g' S E'. cbv beta in E'. eapply HP; eassumption.
  - eapply IH; eassumption.
Qed.

Lemma forallb_map' : forall {A B} (f : A -> B) (p : B -> bool) l,
  forallb p (map f l) = forallb (fun x => p (f x)) l.
Proof. intros A B f p l. induction l as [|x r IH]; [reflexivity|]. cbn [map forallb]. rewrite IH. reflexivity. Qed.

Lemma setv_inv : forall ro x g, setv ro x = Ok g -> g = x.
Proof. intros ro x g H. destruct ro; [discriminate H|]. injection H as <-. reflexivity. Qed.

Lemma dec_value_pres : forall rec, Pres rec -> forall t cur ro v g,
  shaped t cur = true -> dec_value rec t cur ro v = Ok g -> shaped t g = true.
Proof.
  intros rec HP t cur ro v g Hs H. destruct t; try reflexivity; unfold dec_value in H;
    destruct (body_of v) eqn:Hb; try discriminate H;
    try (eapply or_wrapper_pres; eassumption).
  - destruct (is_u8 t) eqn:Hu; [|discriminate H]. apply setv_inv in H. subst g. cbn [shaped].
    apply is_u8_eq in Hu. subst t. apply forallb_true. reflexivity.
  - destruct (is_u8 t) eqn:Hu; [|discriminate H]. apply setv_inv in H. subst g. cbn [shaped].
    apply is_u8_eq in Hu. subst t. apply forallb_true. reflexivity.
  - apply (slice_elems_pres rec HP _ _ _ _ _ _ [] g) in H; [exact H| |reflexivity].
    destruct cur; try reflexivity.
    + destruct b as [o|]; [|reflexivity]. cbn [shaped] in Hs. rewrite forallb_map'. exact Hs.
    + destruct l0 as [o|]; [|reflexivity]. exact Hs.
  - apply (slice_elems_pres rec HP _ _ _ _ _ _ [] g) in H; [exact H| |reflexivity].
    destruct cur; try reflexivity.
    + destruct b as [o|]; [|reflexivity]. cbn [shaped] in Hs. rewrite forallb_map'. exact Hs.
    + destruct l0 as [o|]; [|reflexivity]. exact Hs.
  - destruct (is_u8 t) eqn:Hu; [|discriminate H]. destruct ro; [discriminate H|]. injection H as <-. cbn [shaped].
    rewrite take_bytes_length, Nat.eqb_refl. cbn [andb]. apply is_u8_eq in Hu. subst t. apply forallb_true. reflexivity.
  - destruct (is_u8 t) eqn:Hu; [|discriminate H]. destruct ro; [discriminate H|]. injection H as <-. cbn [shaped].
    rewrite take_bytes_length, Nat.eqb_refl. cbn [andb]. apply is_u8_eq in Hu. subst t. apply forallb_true. reflexivity.
  - destruct cur; try discriminate Hs. cbn [shaped] in Hs. apply andb_prop in Hs. destruct Hs as [Hl Hall].
    apply Nat.eqb_eq in Hl. apply (array_elems_pres rec HP _ _ n _ _ [] g) in H; [exact H|exact Hall|reflexivity|cbn [length]; exact Hl].
  - destruct cur; try discriminate Hs. cbn [shaped] in Hs. apply andb_prop in Hs. destruct Hs as [Hl Hall].
    apply Nat.eqb_eq in Hl. apply (array_elems_pres rec HP _ _ n _ _ [] g) in H; [exact H|exact Hall|reflexivity|cbn [length]; exact Hl].
  - cbn [is_struct_kind] in H. destruct (fields_for (TyStruct fs)) as [fields| | |]; try discriminate H. cbn [bind] in H.
    destruct (attach_ann (TyStruct fs) cur ro (anns_of v)) as [cur0| | |] eqn:E; try discriminate H. cbn [bind] in H.
    eapply struct_fields_pres; [exact HP| |exact H]. eapply attach_ann_pres; eassumption.
Qed.

Lemma at_break_pres : forall rec, Pres rec -> forall t cur ro v g,
  shaped t cur = true -> at_break rec t cur ro v = Ok g -> shaped t g = true.
Proof.
  intros rec HP t cur ro v g Hs H. unfold at_break in H.
  match type of H with (if ?c then Err else _) = _ => destruct c end; [discriminate H|].
  destruct (is_null v); [|eapply dec_value_pres; eassumption].
  destruct ro; [discriminate H|]. destruct (is_struct_kind t).
  - eapply attach_ann_pres; [|exact H]. apply shaped_zero.
  - injection H as <-. apply shaped_zero.
Qed.

Lemma dec_body_pres : forall rec, Pres rec -> Pres (dec_body rec).
Proof.
  intros rec HP t cur ro v g Hs H. destruct t; try reflexivity; cbn [dec_body] in H;
    try (eapply at_break_pres; eassumption).
  destruct cur; try discriminate H.
  match type of H with (if ?c then _ else _) = _ => destruct c end; [eapply at_break_pres; eassumption|].
  destruct p as [y|].
  - destruct (rec t y ro v) as [y'| | |] eqn:E; try discriminate H. cbn [bind] in H. injection H as <-.
    cbn [shaped] in *. eapply HP; eassumption.
  - destruct ro; [discriminate H|]. destruct (rec t (zero t) false v) as [y'| | |] eqn:E; try discriminate H.
    cbn [bind] in H. injection H as <-. cbn [shaped]. eapply HP; [apply shaped_zero|exact E].
Qed.

Theorem decto_shaped : forall f, Pres (decto f).
Proof.
  induction f as [|f IH]; [intros t cur ro v g _ H; discriminate H|].
  intros t cur ro v g Hs H. rewrite dec_unfold in H. eapply dec_body_pres; eassumption.
Qed.

(* ---- the master lemma ------------------------------------------------------------------------------------ *)
Definition BadP (t : gty) : Prop :=
  forall arr v, bad arr t v = true ->
  forall f cur ro, (arr = true -> shaped t cur = true) -> NotOk (decto f t cur ro v).
Definition BadF (fs : gfields) : Prop :=
  forall arr i x, bad_at arr fs i x = true ->
  exists ft ex, nth_field fs i = Some (ft, ex) /\
                forall f cur ro, (arr = true -> shaped ft cur = true) -> NotOk (decto f ft cur ro x).

Ltac fuel0 f := destruct f as [|f]; [intro; discriminate|]; rewrite dec_unfold.

Lemma badp_leaf : forall t,
  (forall rec cur ro v, dec_body rec t cur ro v = at_break rec t cur ro v) ->
  (forall arr v, bad arr t v = true -> leaf_bad t (body_of v) = true) -> BadP t.
Proof.
  intros t Hd Hl arr v H f cur ro _. fuel0 f. rewrite Hd.
  apply at_break_notok; [exact (bad_not_null _ _ _ H)|]. apply leaf_bad_notok. exact (Hl arr v H).
Qed.
Ltac leaf := apply badp_leaf; [reflexivity|intros arr v H; cbn [bad] in H; destruct (body_of v); try discriminate H; exact H].

Lemma slice_old_shaped : forall e cur c, shaped (TySlice e) cur = true ->
  In c (match cur with
        | GSlice (Some o) => o
        | GBytes (Some o) => map (fun x => GInt (Z.of_N x)) o
        | _ => []
        end) -> shaped e c = true.
Proof.
  intros e cur c Hs Hc. destruct cur; try destruct Hc.
  - destruct b as [o|]; [|destruct Hc]. cbn [shaped] in Hs. apply in_map_iff in Hc. destruct Hc as [x [<- Hx]].
    rewrite forallb_forall in Hs. exact (Hs x Hx).
  - destruct l as [o|]; [|destruct Hc]. cbn [shaped] in Hs. rewrite forallb_forall in Hs. exact (Hs c Hc).
Qed.

Lemma badp_slice : forall e, BadP e -> BadP (TySlice e).
Proof.
  intros e IH arr v H f cur ro Hs. fuel0 f. cbn [dec_body].
  apply at_break_notok; [exact (bad_not_null _ _ _ H)|].
  unfold dec_value. cbn [bad] in H.
  assert (Hseq : forall l, existsb (bad arr e) l = true ->
            NotOk (dec_slice_elems (decto f) e ro
                     match cur with GBytes (Some _) | GSlice (Some _) => false | _ => true end cur l
                     match cur with
                     | GBytes (Some o) => map (fun x : N => GInt (Z.of_N x)) o
                     | GSlice (Some o) => o
                     | _ => []
                     end [])).
  { intros l Hl. apply slice_elems_bad with (Q := fun x => bad arr e x = true); [apply existsb_Exists; exact Hl|].
    intros x c Hq Hc. apply (IH arr x Hq). intro Ha. specialize (Hs Ha).
    destruct Hc as [Hc| ->]; [|apply shaped_zero]. eapply slice_old_shaped; [exact Hs|exact Hc]. }
  destruct (body_of v) eqn:Hb; try discriminate H;
    try (unfold or_wrapper; cbn [is_struct_kind]; intro; discriminate).
  - destruct (is_u8 e); [discriminate H|intro; discriminate].
  - destruct (is_u8 e); [discriminate H|intro; discriminate].
  - apply Hseq. exact H.
  - apply Hseq. exact H.
Qed.

Lemma badp_array : forall n e, BadP e -> BadP (TyArray n e).
Proof.
  intros n e IH arr v H f cur ro Hs. fuel0 f. cbn [dec_body].
  apply at_break_notok; [exact (bad_not_null _ _ _ H)|].
  unfold dec_value. cbn [bad] in H.
  assert (Hseq : forall l, arr && existsb (bad arr e) (firstn (N.to_nat n) l) = true ->
            NotOk (dec_array_elems (decto f) e ro l match cur with GArr o => o | _ => [] end [])).
  { intros l Hl. apply andb_prop in Hl. destruct Hl as [Ha Hl]. specialize (Hs Ha).
    destruct cur; try discriminate Hs. cbn [shaped] in Hs. apply andb_prop in Hs. destruct Hs as [Hlen Hall].
    apply Nat.eqb_eq in Hlen.
    apply array_elems_bad with (Q := fun x => bad arr e x = true); [rewrite Hlen; apply existsb_Exists; exact Hl|].
    intros x c Hq Hc. apply (IH arr x Hq). intros _. rewrite forallb_forall in Hall. exact (Hall c Hc). }
  destruct (body_of v) eqn:Hb; try discriminate H;
    try (unfold or_wrapper; cbn [is_struct_kind]; intro; discriminate).
  - destruct (is_u8 e); [discriminate H|intro; discriminate].
  - destruct (is_u8 e); [discriminate H|intro; discriminate].
  - apply Hseq. exact H.
  - apply Hseq. exact H.
Qed.

Lemma badp_map : forall e, BadP e -> BadP (TyMap e).
Proof.
  intros e IH arr v H f cur ro Hs. fuel0 f. cbn [dec_body].
  apply at_break_notok; [exact (bad_not_null _ _ _ H)|].
  unfold dec_value. cbn [bad] in H.
  destruct (body_of v) eqn:Hb; try discriminate H;
    try (unfold or_wrapper; cbn [is_struct_kind]; intro; discriminate).
  apply bind_notok_r. intro m0.
  apply map_fields_bad with (Q := fun x => bad arr e x = true).
  - apply existsb_exists in H. destruct H as [[[k|k] x] [Hin Hx]]; [|discriminate Hx].
    apply Exists_exists. exists (SymText k, x). split; [exact Hin|]. exists k. split; [reflexivity|exact Hx].
  - intros x Hq. apply (IH arr x Hq). intros _. apply shaped_zero.
Qed.

Lemma badp_ptr : forall e, BadP e -> BadP (TyPtr e).
Proof.
  intros e IH arr v H f cur ro Hs. fuel0 f. cbn [dec_body].
  pose proof (bad_not_null _ _ _ H) as Hn. apply bad_ptr in H.
  destruct cur; try (intro; discriminate).
  rewrite Hn. rewrite andb_false_r. cbn [andb].
  destruct p as [y|].
  - apply bind_notok_l. apply (IH arr v H). intro Ha. exact (Hs Ha).
  - destruct ro; [intro; discriminate|]. apply bind_notok_l. apply (IH arr v H). intros _. apply shaped_zero.
Qed.

Lemma badp_iface : BadP TyIface.
Proof. intros arr v H. cbn [bad] in H. destruct (body_of v); discriminate H. Qed.

Lemma badp_struct : forall fs, BadF fs -> BadP (TyStruct fs).
Proof.
  intros fs IH arr v H f cur ro Hs. fuel0 f. cbn [dec_body].
  apply at_break_notok; [exact (bad_not_null _ _ _ H)|].
  unfold dec_value. cbn [bad] in H.
  destruct (body_of v) eqn:Hb; try discriminate H.
  destruct (fields_for (TyStruct fs)) as [fields| | |] eqn:Hf; try discriminate H.
  cbn [is_struct_kind bind]. apply bind_notok_r'. intros cur0 Hcur0.
  apply struct_fields_bad with (Q := fun i x => bad_at arr fs i x = true)
                               (Inv := fun c => arr = true -> shaped (TyStruct fs) c = true).
  - apply existsb_exists in H. destruct H as [[[k|k] x] [Hin Hx]]; [|discriminate Hx].
    cbn [fst snd] in Hx. destruct (find_field_by fields k) as [fl|] eqn:Hfl; [|discriminate Hx].
    destruct (f_path fl) as [|i [|j p]] eqn:Hp; try discriminate Hx.
    apply Exists_exists. exists (SymText k, x). split; [exact Hin|]. exists k, fl, i. cbn [fst snd]. auto.
  - intros i x c Hc Hq. destruct (IH arr i x Hq) as [ft [ex [Hn Hd]]].
    eapply upd_path1_bad; [exact Hn|]. intros l0 fc fro -> He. apply Hd.
    intro Ha. specialize (Hc Ha). cbn [shaped] in Hc. eapply shaped_nth; eassumption.
  - intros fl x c c' Hc Hu Ha. eapply upd_path_pres; [|exact (Hc Ha)|exact Hu].
    intros ft fc fro g' S E. cbv beta in E. eapply decto_shaped; eassumption.
  - intro Ha. eapply attach_ann_pres; [exact (Hs Ha)|exact Hcur0].
Qed.

Theorem bad_master : forall t, BadP t.
Proof.
  apply (gty_mut BadP BadF).
  - leaf.
  - intro k. leaf.
  - leaf.
  - leaf.
  - leaf.
  - exact badp_slice.
  - exact badp_array.
  - exact badp_map.
  - exact badp_ptr.
  - exact badp_iface.
  - exact badp_struct.
  - leaf.
  - leaf.
  - leaf.
  - leaf.
  - leaf.
  - intros arr i x H. discriminate H.
  - intros name ex emb tag ty IHty rest IHrest arr i x H. destruct i as [|j]; cbn [bad_at] in H.
    + exists ty, ex. split; [reflexivity|]. intros f cur ro Hs. apply (IHty arr x H). exact Hs.
    + cbn [nth_field]. apply (IHrest arr). exact H.
Qed.

(* for EVERY fuel, EVERY current content (even ill-typed) and both read-only flags; lists into arrays not counted *)
Theorem bad_never_ok : forall t v, bad false t v = true ->
  forall f cur ro g, decto f t cur ro v <> Ok g.
Proof. intros t v H f cur ro. apply (bad_master t false v H). intro E. discriminate E. Qed.

(* lists into arrays counted: the arrays of the current content have their declared length *)
Theorem bad_never_ok_shaped : forall t v, bad true t v = true ->
  forall f cur ro g, shaped t cur = true -> decto f t cur ro v <> Ok g.
Proof. intros t v H f cur ro g Hs. revert g. apply (bad_master t true v H). intros _. exact Hs. Qed.

(* Unmarshal into a zero value *)
Theorem bad_decode_to : forall arr t v, bad arr t v = true -> forall g, decode_to t v <> Ok g.
Proof. intros arr t v H. unfold decode_to. apply (bad_master t arr v H). intros _. apply shaped_zero. Qed.

Theorem bad_decode_to_err : forall arr t v, bad arr t v = true ->
  decode_to t v <> Panic -> decode_to t v <> OutOfFuel -> decode_to t v = Err.
Proof. intros arr t v H. apply not_ok_not_panic_is_err. exact (bad_decode_to arr t v H). Qed.

(* on the plain universe of C17_plain_unmarshal_safe the outcome is the error *)
Theorem bad_plain_is_err : forall arr t v, pty t = true -> wfv v = true -> bad arr t v = true -> decode_to t v = Err.
Proof.
  intros arr t v Ht Hv H. pose proof (decode_to_safe t v Ht Hv) as S. pose proof (bad_decode_to arr t v H) as N.
  destruct (decode_to t v); [exfalso; exact (N a eq_refl)|reflexivity|destruct S|destruct S].
Qed.

(* every well-typed content is shaped *)
Lemma has_type_shaped : forall t g, has_type g t = true -> shaped t g = true.
Proof.
  apply (gty_mut (fun t => forall g, has_type g t = true -> shaped t g = true)
                 (fun fs => forall l, has_type (GStruct l) (TyStruct fs) = true -> shaped_fields fs l = true));
    try (intros; reflexivity).
  - intros e IH g H. destruct g; try discriminate H; cbn [has_type] in H; apply andb_prop in H; destruct H as [Hu H].
    + apply is_u8_eq in Hu. subst e. destruct b; [|reflexivity]. cbn [shaped]. apply forallb_true. reflexivity.
    + destruct l as [l|]; [|reflexivity]. cbn [shaped]. apply forallb_forall. intros x Hx.
      rewrite forallb_forall in H. apply IH. apply H. exact Hx.
  - intros n e IH g H. destruct g; try discriminate H. cbn [has_type] in H. apply andb_prop in H. destruct H as [Hn H].
    apply N.eqb_eq in Hn. cbn [shaped]. replace (N.to_nat n) with (length l) by lia. rewrite Nat.eqb_refl. cbn [andb].
    apply forallb_forall. intros x Hx. rewrite forallb_forall in H. apply IH. apply H. exact Hx.
  - intros e IH g H. destruct g; try discriminate H. destruct p as [x|]; [|reflexivity]. cbn [shaped]. apply IH. exact H.
  - intros fs IH g H. destruct g; try reflexivity. cbn [shaped]. apply IH. exact H.
  - intros name ex emb tag ty IH1 rest IH2 l H. destruct l as [|x r]; [reflexivity|].
    rewrite has_type_struct_cons in H. apply andb_prop in H. destruct H as [H1 H2].
    cbn [shaped_fields]. rewrite (IH1 x H1), (IH2 r H2). reflexivity.
Qed.
Theorem bad_never_ok_typed : forall t v, bad true t v = true ->
  forall f cur ro g, has_type cur t = true -> decto f t cur ro v <> Ok g.
Proof. intros t v H f cur ro g Ht. apply bad_never_ok_shaped; [exact H|]. apply has_type_shaped. exact Ht. Qed.

(* ---- how bad positions propagate upwards ------------------------------------------------------------------- *)
Lemma bad_body_shape : forall arr t v, bad arr t v = true ->
  match body_of v with VNull _ | VAnn _ _ => False | _ => True end.
Proof. intros arr t v H. destruct t; cbn [bad] in H; destruct (body_of v); try discriminate H; exact I. Qed.

Lemma bad_in_slice : forall arr e x pre post, bad arr e x = true ->
  bad arr (TySlice e) (VList (pre ++ x :: post)) = true /\ bad arr (TySlice e) (VSexp (pre ++ x :: post)) = true.
Proof.
  intros arr e x pre post H. cbn [bad body_of]. rewrite existsb_app. cbn [existsb]. rewrite H.
  rewrite orb_true_r. split; reflexivity.
Qed.
Lemma bad_in_array : forall e x n pre post, (length pre < N.to_nat n)%nat -> bad true e x = true ->
  bad true (TyArray n e) (VList (pre ++ x :: post)) = true /\ bad true (TyArray n e) (VSexp (pre ++ x :: post)) = true.
Proof.
  intros e x n pre post Hn H. cbn [bad body_of andb]. rewrite firstn_app.
  replace (N.to_nat n - length pre)%nat with (S (N.to_nat n - length pre - 1)) by lia. cbn [firstn].
  rewrite existsb_app. cbn [existsb]. rewrite H. rewrite orb_true_r. split; reflexivity.
Qed.
Lemma bad_in_map : forall arr e k x pre post, bad arr e x = true ->
  bad arr (TyMap e) (VStruct (pre ++ (SymText k, x) :: post)) = true.
Proof.
  intros arr e k x pre post H. cbn [bad body_of]. rewrite existsb_app. cbn [existsb fst snd]. rewrite H.
  apply orb_true_r.
Qed.
Lemma bad_under_ptr : forall arr e v, bad arr e v = true -> bad arr (TyPtr e) v = true.
Proof.
  intros arr e v H. pose proof (bad_body_shape _ _ _ H) as Hs. cbn [bad].
  destruct (body_of v); try destruct Hs; exact H.
Qed.
Lemma bad_at_nth : forall arr fs i ft ex x, nth_field fs i = Some (ft, ex) -> bad_at arr fs i x = bad arr ft x.
Proof.
  intro arr. induction fs as [|name e emb tag ty rest IH]; intros i ft ex x Hn; [discriminate Hn|].
  destruct i as [|j]; cbn [nth_field] in Hn; cbn [bad_at].
  - injection Hn as -> _. reflexivity.
  - eapply IH. exact Hn.
Qed.
Lemma bad_in_struct_field : forall arr fs fields k fl i ft ex x pre post,
  fields_for (TyStruct fs) = Ok fields -> find_field_by fields k = Some fl -> f_path fl = [i] ->
  nth_field fs i = Some (ft, ex) -> bad arr ft x = true ->
  bad arr (TyStruct fs) (VStruct (pre ++ (SymText k, x) :: post)) = true.
Proof.
  intros arr fs fields k fl i ft ex x pre post Hf Hk Hp Hn H. cbn [bad body_of]. rewrite Hf.
  rewrite existsb_app. cbn [existsb fst snd]. rewrite Hk, Hp, (bad_at_nth arr _ _ _ _ x Hn), H. apply orb_true_r.
Qed.
(* the struct types of the round-trip universe rty2: fieldsFor gives the fields2 view *)
Lemma bad_in_struct_field2 : forall arr fs k fl i ft ex x pre post,
  rfs2 fs 0 = true -> distinct (names2 fs 0) = true ->
  find_field_by (fields2 fs 0) k = Some fl -> f_path fl = [i] ->
  nth_field fs i = Some (ft, ex) -> bad arr ft x = true ->
  bad arr (TyStruct fs) (VStruct (pre ++ (SymText k, x) :: post)) = true.
Proof. intros. eapply bad_in_struct_field; try eassumption. apply Roundtrip2P.fields_for2; assumption. Qed.
Lemma bad_annotated : forall arr t a v, bad arr t v = true -> (forall a' x, v <> VAnn a' x) -> bad arr t (VAnn a v) = true.
Proof.
  intros arr t a v H Hv. revert H. induction t; intro H; destruct v; try (exfalso; eapply Hv; reflexivity);
    cbn [bad body_of] in *; try exact H; apply IHt; exact H.
Qed.

(* ---- the leaves ------------------------------------------------------------------------------------------------- *)
Lemma out_of_range : forall k z, (z < ik_min k \/ ik_max k < z)%Z -> in_range k z = false.
Proof. intros k z H. unfold in_range. lia. Qed.

Lemma int_out_of_range_anywhere : forall arr k z, (z < ik_min k \/ ik_max k < z)%Z -> bad arr (TyInt k) (VInt z) = true.
Proof. intros arr k z H. cbn [bad body_of leaf_bad]. rewrite (out_of_range k z H). reflexivity. Qed.
Lemma f32_overflow_anywhere : forall arr b, overflow_f32 b = true -> bad arr TyF32 (VFloat b) = true.
Proof. intros arr b H. exact H. Qed.
Lemma symbol_without_text_anywhere : forall arr n, bad arr TyString (VSymbol (SymSid n)) = true.
Proof. reflexivity. Qed.
(* class mismatch on a leaf target, and on a sequence / map target *)
Lemma mismatch_anywhere : forall arr t v,
  match body_of v with VNull _ | VAnn _ _ => False | _ => True end ->
  (leaf_bad t (body_of v) = true \/
   (exists e, t = TySlice e /\ match body_of v with VList _ | VSexp _ | VClob _ | VBlob _ => False | _ => True end) \/
   (exists n e, t = TyArray n e /\ match body_of v with VList _ | VSexp _ | VClob _ | VBlob _ => False | _ => True end) \/
   (exists e, (t = TySlice e \/ exists n, t = TyArray n e) /\ is_u8 e = false /\
              match body_of v with VClob _ | VBlob _ => True | _ => False end) \/
   (exists e, t = TyMap e /\ match body_of v with VStruct _ => False | _ => True end)) ->
  bad arr t v = true.
Proof.
  intros arr t v Hs H. destruct H as [H|[[e [-> H]]|[[n [e [-> H]]]|[[e [Ht [Hu H]]]|[e [-> H]]]]]].
  - destruct t; try discriminate H; cbn [bad]; destruct (body_of v); try destruct Hs; exact H.
  - cbn [bad]. destruct (body_of v); try destruct Hs; try destruct H; reflexivity.
  - cbn [bad]. destruct (body_of v); try destruct Hs; try destruct H; reflexivity.
  - destruct Ht as [->|[n ->]]; cbn [bad]; destruct (body_of v); try destruct H; rewrite Hu; reflexivity.
  - cbn [bad]. destruct (body_of v); try destruct Hs; try destruct H; reflexivity.
Qed.

(* ---- integers out of range inside each container (generalising decode_int_no_wrap) ------------------------------ *)
Section IntOutOfRange.
  Variables (k : ikind) (z : Z).
  Hypothesis Hz : (z < ik_min k \/ ik_max k < z)%Z.

  Lemma int_out_of_range_in_slice : forall pre post f cur ro g,
    decto f (TySlice (TyInt k)) cur ro (VList (pre ++ VInt z :: post)) <> Ok g.
  Proof. intros. apply bad_never_ok. apply bad_in_slice. apply int_out_of_range_anywhere. exact Hz. Qed.
  Lemma int_out_of_range_in_slice_unmarshal : forall pre post g,
    decode_to (TySlice (TyInt k)) (VList (pre ++ VInt z :: post)) <> Ok g.
  Proof. intros. apply int_out_of_range_in_slice. Qed.

  Lemma int_out_of_range_in_array : forall n pre post f o ro g,
    (length pre < N.to_nat n)%nat -> length o = N.to_nat n ->
    decto f (TyArray n (TyInt k)) (GArr o) ro (VList (pre ++ VInt z :: post)) <> Ok g.
  Proof.
    intros n pre post f o ro g Hp Ho. apply bad_never_ok_shaped.
    - apply bad_in_array; [exact Hp|]. apply int_out_of_range_anywhere. exact Hz.
    - cbn [shaped]. rewrite Ho, Nat.eqb_refl. cbn [andb]. apply forallb_forall. reflexivity.
  Qed.
  Lemma int_out_of_range_in_array_unmarshal : forall n pre post g,
    (length pre < N.to_nat n)%nat ->
    decode_to (TyArray n (TyInt k)) (VList (pre ++ VInt z :: post)) <> Ok g.
  Proof.
    intros n pre post g Hp. apply (bad_decode_to true). apply bad_in_array; [exact Hp|].
    apply int_out_of_range_anywhere. exact Hz.
  Qed.

  Lemma int_out_of_range_in_map : forall key pre post f cur ro g,
    decto f (TyMap (TyInt k)) cur ro (VStruct (pre ++ (SymText key, VInt z) :: post)) <> Ok g.
  Proof. intros. apply bad_never_ok. apply bad_in_map. apply int_out_of_range_anywhere. exact Hz. Qed.
  Lemma int_out_of_range_in_map_unmarshal : forall key pre post g,
    decode_to (TyMap (TyInt k)) (VStruct (pre ++ (SymText key, VInt z) :: post)) <> Ok g.
  Proof. intros. apply int_out_of_range_in_map. Qed.

  Lemma int_out_of_range_under_ptr : forall f cur ro g, decto f (TyPtr (TyInt k)) cur ro (VInt z) <> Ok g.
  Proof. intros. apply bad_never_ok. apply bad_under_ptr. apply int_out_of_range_anywhere. exact Hz. Qed.
  Lemma int_out_of_range_under_ptr_unmarshal : forall g, decode_to (TyPtr (TyInt k)) (VInt z) <> Ok g.
  Proof. intros. apply int_out_of_range_under_ptr. Qed.

  Lemma int_out_of_range_in_struct_field : forall fs fields key fl i ex pre post f cur ro g,
    fields_for (TyStruct fs) = Ok fields -> find_field_by fields key = Some fl -> f_path fl = [i] ->
    nth_field fs i = Some (TyInt k, ex) ->
    decto f (TyStruct fs) cur ro (VStruct (pre ++ (SymText key, VInt z) :: post)) <> Ok g.
  Proof.
    intros. apply bad_never_ok. eapply bad_in_struct_field; try eassumption.
    apply int_out_of_range_anywhere. exact Hz.
  Qed.
  Lemma int_out_of_range_in_struct_field_unmarshal : forall fs fields key fl i ex pre post g,
    fields_for (TyStruct fs) = Ok fields -> find_field_by fields key = Some fl -> f_path fl = [i] ->
    nth_field fs i = Some (TyInt k, ex) ->
    decode_to (TyStruct fs) (VStruct (pre ++ (SymText key, VInt z) :: post)) <> Ok g.
  Proof. intros. eapply int_out_of_range_in_struct_field; eassumption. Qed.
End IntOutOfRange.

(* ---- part 3: the Decoder returns the values in order and then ErrNoInput, for ever --------------------------- *)
Lemma decoder_calls_spec : forall vs n i, (i < n)%nat ->
  nth_error (decoder_calls vs n) i = Some (option_map decode_any (nth_error vs i)).
Proof.
  intros vs n. revert vs. induction n as [|m IH]; intros vs i Hi; [lia|].
  destruct vs as [|v r]; destruct i as [|j]; cbn [decoder_calls nth_error option_map]; try reflexivity.
  - rewrite IH by lia. destruct j; reflexivity.
  - apply IH. lia.
Qed.
Lemma decoder_calls_length : forall vs n, length (decoder_calls vs n) = n.
Proof. intros vs n. revert vs. induction n as [|m IH]; intro vs; [reflexivity|]. destruct vs; cbn [decoder_calls length]; rewrite IH; reflexivity. Qed.

(* counting lists into arrays only adds bad positions *)
Lemma existsb_mono : forall {A} (p q : A -> bool) l,
  (forall x, p x = true -> q x = true) -> existsb p l = true -> existsb q l = true.
Proof.
  intros A p q l Hpq H. apply existsb_exists in H. destruct H as [x [Hin Hx]].
  apply existsb_exists. exists x. split; [exact Hin|apply Hpq; exact Hx].
Qed.
Lemma bad_arr_mono : forall t v, bad false t v = true -> bad true t v = true.
Proof.
  apply (gty_mut (fun t => forall v, bad false t v = true -> bad true t v = true)
                 (fun fs => forall i x, bad_at false fs i x = true -> bad_at true fs i x = true));
    try (intros; cbn [bad] in *; assumption).
  - intros e IH v H. cbn [bad] in *. destruct (body_of v); try exact H; (eapply existsb_mono; [exact IH|exact H]).
  - intros n e IH v H. cbn [bad andb] in *. destruct (body_of v); try exact H; discriminate H.
  - intros e IH v H. cbn [bad] in *. destruct (body_of v); try exact H.
    eapply existsb_mono; [|exact H]. intros [[k|n] x] Hx; cbn [fst snd] in *; [apply IH; exact Hx|exact Hx].
  - intros e IH v H. cbn [bad] in *. destruct (body_of v); try exact H; apply IH; exact H.
  - intros fs IH v H. cbn [bad] in *. destruct (body_of v); try exact H.
    destruct (fields_for (TyStruct fs)); try exact H.
    eapply existsb_mono; [|exact H]. intros [[k|n] x] Hx; cbn [fst snd] in *; [|exact Hx].
    destruct (find_field_by a k) as [fl|]; [|exact Hx]. destruct (f_path fl) as [|i [|j p]]; try exact Hx.
    apply IH. exact Hx.
  - intros name ex emb tag ty IHty rest IHrest i x H. destruct i as [|j]; cbn [bad_at] in *;
      [apply IHty|apply IHrest]; exact H.
Qed.
