(* DecodeSpec2.v — C17 (2a): the documented Ion -> Go mapping of Unmarshal as a relation
   [represents t g v] = "the Go value g of type t represents the Ion value v" on the universe [rty2]
   (Go/MarshalSpec2.v).  Written from the table of ion/unmarshal.go, independently of the decoder model:
   nothing below mentions decto / dec_*.  Borrowed from Go/Decode.v are only data-level helpers:
   body_of / is_null (the reader's view of an annotated value), map_set (SetMapIndex on the sorted
   association list), fits_int32 / fits_int64, tok_of_symv and Decoder.Decode's own tree [decode_any]
   (used only for containers under interface{}).  No proofs.

   Documented normalisations:
   * annotations are dropped on every target of this universe (no `annotations` field in rty2);
   * any null (typed or not) becomes the zero value of the target: 0, "", false, nil slice / map /
     pointer / interface, the all-zero struct or array;
   * symbol and string are both read into a Go string; clob and blob both into []byte;
   * list and sexp are not distinguished;
   * a float32 target receives the IEEE round-to-nearest narrowing, provided |x| <= MaxFloat32 (or x is
     an infinity / NaN);
   * struct field names are matched exactly first, else ASCII case-insensitively (findField); fields with
     unknown symbol text ($n), fields that match no Go field are skipped; Go fields that no Ion field
     matches keep the zero value;
   * map keys: a repeated key keeps the last value.
   TRUNCATION written down as the code does it (the property text arguably forbids it): into an array
   [n]T the Ion elements / lob bytes beyond n are silently dropped; missing ones are zero.
   NOT SPECIFIED: a Go struct field matched by two or more Ion fields (the second decode starts from the
   non-zero content: maps merge, slices reuse elements); [represents] leaves that field unconstrained. *)
From Coq Require Import String List NArith ZArith Bool.
From IonV Require Import Base.Wire Data.Ion Num.Float Go.GoTypes Go.Fields Go.Decode Go.MarshalSpec Go.MarshalSpec2.
Import ListNotations.
Open Scope N_scope.

(* ---- interface{} targets: the table of Decoder.decodeTo for an empty interface ------------------------- *)
Definition iface_image (b : value) : option gval :=
  match b with
  | VNull _ => Some (GIface None)
  | VBool x => Some (GIface (Some (TyBool, GBool x)))
  | VInt z =>
    Some (if fits_int32 z then GIface (Some (TyInt IInt, GInt z))                 (* int *)
          else if fits_int64 z then GIface (Some (TyInt I64, GInt z))             (* int64 *)
          else GIface (Some (TyPtr TyBigInt, GPtr (Some (GBigInt z)))))           (* *big.Int *)
  | VFloat x => Some (GIface (Some (TyF64, GFloat x)))
  | VDecimal d => Some (GIface (Some (TyDecimal, GDecimal d)))
  | VTimestamp x => Some (GIface (Some (TyTimestamp, GTimestamp x)))
  | VString x => Some (GIface (Some (TyString, GString x)))
  | VSymbol y => Some (GIface (Some (TyPtr TySymTok, GPtr (Some (GSymTok (tok_of_symv y))))))
  | VClob x | VBlob x => Some (GIface (Some (TySlice (TyInt U8), GBytes (Some x))))
  | VList l | VSexp l => Some (decode_any (VList l))       (* []interface{} : Decoder.Decode's own mapping *)
  | VStruct l => Some (decode_any (VStruct l))             (* map[string]interface{} *)
  | VAnn _ _ => None
  end.

(* ---- helpers --------------------------------------------------------------------------------------------- *)
Definition byte_val (g : gval) : N := match g with GInt z => Z.to_N z | _ => 0 end.

(* the first n bytes, zero filled (reflect.Copy into a zero [n]byte) *)
Definition bytes_into (n : nat) (b : list N) : list gval :=
  map (fun x => GInt (Z.of_N x)) (firstn n b) ++ repeat (GInt 0) (n - length b).

(* map[string]T from the fields of an Ion struct: insert in order, the last one wins; $n names are skipped *)
Inductive map_rep (R : gval -> value -> Prop) : list (symv * value) -> list (text * gval) -> list (text * gval) -> Prop :=
| MRnil : forall m, map_rep R [] m m
| MRsid : forall n x r m m', map_rep R r m m' -> map_rep R ((SymSid n, x) :: r) m m'
| MRtext : forall k x r y m m', R y x -> map_rep R r (map_set k y m) m' -> map_rep R ((SymText k, x) :: r) m m'.

(* the Go field (given by its index i in the struct) an Ion field name selects: findField over the visible
   fields; the values of the Ion fields that select index i, in order *)
Definition targets (f : field) (i : nat) : bool :=
  match f_path f with [j] => Nat.eqb j i | _ => false end.
Fixpoint ion_for (fields : list field) (i : nat) (fl : list (symv * value)) : list value :=
  match fl with
  | [] => []
  | (SymSid _, _) :: r => ion_for fields i r
  | (SymText k, x) :: r =>
    match find_field_by fields k with
    | Some f => if targets f i then x :: ion_for fields i r else ion_for fields i r
    | None => ion_for fields i r
    end
  end.

(* ---- the relation ------------------------------------------------------------------------------------------ *)
Fixpoint represents (t : gty) (g : gval) (v : value) {struct t} : Prop :=
  if is_null v then g = zero t
  else
    match t with
    | TyBool => match body_of v with VBool b => g = GBool b | _ => False end
    | TyInt k => match body_of v with VInt z => g = GInt z /\ in_range k z = true | _ => False end
    | TyBigInt => match body_of v with VInt z => g = GBigInt z | _ => False end
    | TyF64 => match body_of v with VFloat b => g = GFloat b | _ => False end
    | TyF32 => match body_of v with VFloat b => finite_f32_ok b = true /\ g = GFloat (narrow b) | _ => False end
    | TyString =>
      match body_of v with
      | VString x | VSymbol (SymText x) => g = GString x
      | _ => False                                          (* a symbol without text is not representable *)
      end
    | TyDecimal => match body_of v with VDecimal d => g = GDecimal d | _ => False end
    | TyTimestamp => match body_of v with VTimestamp b => g = GTimestamp b | _ => False end
    | TyTime => match body_of v with VTimestamp b => g = GTime b | _ => False end
    | TySlice e =>
      match body_of v with
      | VClob b | VBlob b => is_u8 e = true /\ g = GBytes (Some b)
      | VList l | VSexp l =>
        exists gs, Forall2 (represents e) gs l /\
                   g = if is_u8 e then GBytes (Some (map byte_val gs)) else GSlice (Some gs)
      | _ => False
      end
    | TyArray n e =>
      match body_of v with
      | VClob b | VBlob b => is_u8 e = true /\ g = GArr (bytes_into (N.to_nat n) b)
      | VList l | VSexp l =>
        (* elements beyond n are dropped, missing ones are zero *)
        exists gs, Forall2 (represents e) gs (firstn (N.to_nat n) l) /\
                   g = GArr (gs ++ repeat (zero e) (N.to_nat n - length l))
      | _ => False
      end
    | TyMap e =>
      match body_of v with
      | VStruct fl => exists m, map_rep (represents e) fl [] m /\ g = GMap (Some m)
      | _ => False
      end
    | TyPtr e => exists g', g = GPtr (Some g') /\ represents e g' v
    | TyIface => iface_image (body_of v) = Some g
    | TyStruct fs =>
      match body_of v with
      | VStruct fl => exists gs, g = GStruct gs /\ represents_fields (fields2 fs 0) fl gs fs 0
      | _ => False
      end
    | TySymTok => False                                     (* outside rty2 *)
    end
(* [all] = the values of all the declared fields; fs = the declared fields from index i on *)
with represents_fields (fields : list field) (fl : list (symv * value)) (all : list gval)
                       (fs : gfields) (i : nat) {struct fs} : Prop :=
  match fs with
  | FNil => length all = i
  | FCons _ ex _ tag ty rest =>
    (exists x, nth_error all i = Some x /\
       if skipped ex tag then x = zero ty                    (* unexported or tagged "-" *)
       else match ion_for fields i fl with
            | [] => x = zero ty                              (* no Ion field matches *)
            | [v] => represents ty x v
            | _ :: _ :: _ => True                            (* repeated: not specified *)
            end) /\
    represents_fields fields fl all rest (S i)
  end.

(* the side condition under which [represents] pins down every field of the outer struct: no Go field is
   matched twice (for nested structs the same condition is meant at every level) *)
Definition nodup_match (fs : gfields) (fl : list (symv * value)) : Prop :=
  forall i, (length (ion_for (fields2 fs 0) i fl) <= 1)%nat.

(* ---- vocabulary of the error clauses ------------------------------------------------------------------------ *)
(* the Ion type classes a (non-null) value may have for a target type, by the table of unmarshal.go *)
Fixpoint class_match (t : gty) (b : value) : bool :=
  match t with
  | TyBool => match b with VBool _ => true | _ => false end
  | TyInt _ | TyBigInt => match b with VInt _ => true | _ => false end
  | TyF32 | TyF64 => match b with VFloat _ => true | _ => false end
  | TyString => match b with VString _ | VSymbol _ => true | _ => false end
  | TyDecimal => match b with VDecimal _ => true | _ => false end
  | TyTimestamp | TyTime => match b with VTimestamp _ => true | _ => false end
  | TySlice _ | TyArray _ _ => match b with VClob _ | VBlob _ | VList _ | VSexp _ => true | _ => false end
  | TyMap _ | TyStruct _ => match b with VStruct _ => true | _ => false end
  | TyPtr e => class_match e b
  | TyIface => true
  | TySymTok => false
  end.

(* the declaration of the i-th field of a struct type: exported, tag, type *)
Fixpoint field_decl (fs : gfields) (i : nat) : option (bool * text * gty) :=
  match fs with
  | FNil => None
  | FCons _ ex _ tag ty rest => match i with O => Some (ex, tag, ty) | S j => field_decl rest j end
  end.

(* the four ways in which a value x cannot be stored faithfully in a location of type t: an integer outside the
   range of the kind, a float beyond MaxFloat32 for float32, a symbol without text for string, a value of the
   wrong Ion class *)
Definition unstorable (t : gty) (x : value) : Prop :=
  (exists k z, t = TyInt k /\ x = VInt z /\ (z < ik_min k \/ ik_max k < z)%Z) \/
  (t = TyF32 /\ exists b, x = VFloat b /\ overflow_f32 b = true) \/
  (t = TyString /\ exists n, x = VSymbol (SymSid n)) \/
  (is_null x = false /\ class_match t (body_of x) = false).

(* struct-free types (domain of the uniqueness lemma of Go/DecodeFaithful2P.v) *)
Fixpoint nostruct (t : gty) : bool :=
  match t with
  | TyStruct _ => false
  | TySlice e | TyArray _ e | TyMap e | TyPtr e => nostruct e
  | _ => true
  end.

(* the outcome C17 allows: a faithful value or an error *)
Definition faithful_out (t : gty) (v : value) (r : res gval) : Prop :=
  match r with
  | Ok g => represents t g v
  | Err => True
  | Panic => False
  | OutOfFuel => False
  end.

(* ---- the running example of Props/C17c.v --------------------------------------------------------------------- *)
(* type T struct { A []int8 `ion:"a"`; M map[string]*float32; hidden bool; Arr [2]uint16 } *)
Definition c17c_fs : gfields :=
  FCons (s "A"%string) true false (s "a"%string) (TySlice (TyInt I8))
  (FCons (s "M"%string) true false [] (TyMap (TyPtr TyF32))
  (FCons (s "hidden"%string) false false [] TyBool
  (FCons (s "Arr"%string) true false [] (TyArray 2 (TyInt U16)) FNil))).
Definition c17c_T : gty := TyStruct c17c_fs.
(* {a:[1, x::-128, null.int], $12:5, m:{y:1.5e0, x:null.float, y:2.5e0}, unknown:true, ARR:(7 65535 9)} *)
Definition c17c_V : value :=
  VStruct [(SymText (s "a"%string), VList [VInt 1; VAnn [SymText (s "x"%string)] (VInt (-128)); VNull TInt]);
           (SymSid 12, VInt 5);
           (SymText (s "m"%string), VStruct [(SymText (s "y"%string), VFloat 4609434218613702656);
                                             (SymText (s "x"%string), VNull TFloat);
                                             (SymText (s "y"%string), VFloat 4612811918334230528)]);
           (SymText (s "unknown"%string), VBool true);
           (SymText (s "ARR"%string), VSexp [VInt 7; VInt 65535; VInt 9])].
Definition c17c_G : gval :=
  GStruct [GSlice (Some [GInt 1; GInt (-128); GInt 0]);
           GMap (Some [(s "x"%string, GPtr None); (s "y"%string, GPtr (Some (GFloat 1075838976)))]);
           GBool false;
           GArr [GInt 7; GInt 65535]].
