(* BinWriterP2.v — more theorems about the binary Writer model (Bin/BinWriter.v):
   (1) write faults: the chunks accepted by an io.Writer that fails after k writes are a
       prefix of those accepted by one that never fails, no refused write goes unreported;
   (2) what a successful Finish leaves behind;
   (3) no call sequence makes the fixed-table writer (NewBinaryWriterLST) panic. *)
From Coq Require Import List NArith ZArith Bool Lia ZifyBool ZifyN ZifyNat.
From IonV Require Import Base.Wire Bin.Bits Bin.BitsP Data.Ion Num.Float Bin.BinWriter Bin.BinWriterP.
Import ListNotations.
Open Scope N_scope.

(* ---- prefixes ------------------------------------------------------------------------------------------ *)
Definition is_prefix {A} (a b : list A) : Prop := exists t, b = a ++ t.

Lemma is_prefix_refl {A} (a : list A) : is_prefix a a.
Proof. exists []. rewrite app_nil_r. reflexivity. Qed.
Lemma is_prefix_trans {A} (a b c : list A) : is_prefix a b -> is_prefix b c -> is_prefix a c.
Proof. intros [t ->] [u ->]. exists (t ++ u). rewrite app_assoc. reflexivity. Qed.
Lemma is_prefix_app {A} (a t : list A) : is_prefix a (a ++ t).
Proof. exists t. reflexivity. Qed.
Lemma is_prefix_concat {A} (a b : list (list A)) : is_prefix a b -> is_prefix (concat a) (concat b).
Proof. intros [t ->]. rewrite concat_app. apply is_prefix_app. Qed.
Lemma is_prefix_length {A} (a b : list A) : is_prefix a b -> (length a <= length b)%nat.
Proof. intros [t ->]. rewrite app_length. lia. Qed.

(* ---- the sink only ever appends, and counts its budget down ----------------------------------------- *)
Definition sink_le (k k' : sink) : Prop :=
  is_prefix (sk_writes k) (sk_writes k') /\
  match sk_budget k with
  | None => sk_budget k' = None
  | Some n => exists n', sk_budget k' = Some n' /\
                         (length (sk_writes k') + n' = length (sk_writes k) + n)%nat
  end.

Lemma sink_le_refl k : sink_le k k.
Proof.
  split; [apply is_prefix_refl|]. destruct (sk_budget k) as [n|] eqn:E; [|reflexivity].
  exists n. split; [reflexivity|lia].
Qed.

Lemma sink_le_trans a b c : sink_le a b -> sink_le b c -> sink_le a c.
Proof.
  intros [P1 B1] [P2 B2]. split; [eapply is_prefix_trans; eauto|].
  destruct (sk_budget a) as [n|].
  - destruct B1 as (n1 & E1 & L1). rewrite E1 in B2. destruct B2 as (n2 & E2 & L2).
    exists n2. split; [exact E2|lia].
  - rewrite B1 in B2. exact B2.
Qed.

Lemma sink_write_le k c k' ok : sink_write k c = (k', ok) -> sink_le k k'.
Proof.
  unfold sink_write. destruct (sk_budget k) as [[|n]|] eqn:E; intros H; inversion H; subst.
  - apply sink_le_refl.
  - split; cbn [sk_writes sk_budget]; [apply is_prefix_app|]. rewrite E. exists n.
    split; [reflexivity|]. rewrite app_length. cbn [length]. lia.
  - split; cbn [sk_writes sk_budget]; [apply is_prefix_app|]. rewrite E. reflexivity.
Qed.

Lemma sink_write_all_le cs : forall k k' ok, sink_write_all k cs = (k', ok) -> sink_le k k'.
Proof.
  induction cs as [|c cs IH]; intros k k' ok; cbn [sink_write_all].
  - intros H; inversion H; subst. apply sink_le_refl.
  - destruct (sink_write k c) as [k1 ok1] eqn:E. apply sink_write_le in E. destruct ok1.
    + intros H. apply IH in H. eapply sink_le_trans; eauto.
    + intros H; inversion H; subst. exact E.
Qed.

(* ---- every call only appends to the accepted writes ------------------------------------------------- *)
Definition writes (w : wstate) : list (list N) := sk_writes (w_out w).
Definition mono (w w' : wstate) : Prop := sink_le (w_out w) (w_out w').
Definition mono_res (w : wstate) (r : res ret) : Prop :=
  match r with Ok p => mono w (fst p) | _ => True end.

Lemma mono_refl w : mono w w.
Proof. apply sink_le_refl. Qed.
Lemma mono_trans a b c : mono a b -> mono b c -> mono a c.
Proof. apply sink_le_trans. Qed.
Lemma mono_out w w' : w_out w' = w_out w -> mono w w'.
Proof. unfold mono. intros ->. apply sink_le_refl. Qed.
Lemma mono_res_trans w w1 r : mono w w1 -> mono_res w1 r -> mono_res w r.
Proof. intros H. destruct r as [p| | |]; cbn; trivial. apply mono_trans. exact H. Qed.
Lemma mono_bind w r k : mono_res w r -> (forall w1 ok, mono_res w1 (k (w1, ok))) -> mono_res w (bind r k).
Proof.
  destruct r as [[w1 ok]| | |]; cbn; trivial. intros H1 H2. eapply mono_res_trans; [exact H1|apply H2].
Qed.
Lemma mono_prefix w w' : mono w w' -> is_prefix (writes w) (writes w').
Proof. intros [H _]. exact H. Qed.

Lemma emit_mono w n w' ok : emit w n = (w', ok) -> mono w w'.
Proof.
  unfold emit. destruct (w_bufs w) as [|q r].
  - destruct (sink_write_all (w_out w) (nd_chunks n)) as [k o] eqn:E. intros H; inversion H; subst.
    apply sink_write_all_le in E. exact E.
  - intros H; inversion H; subst. apply mono_out. reflexivity.
Qed.

Lemma write_mono w b w' ok : write w b = (w', ok) -> mono w w'.
Proof. apply emit_mono. Qed.

Lemma end_value_mono w w' ok : end_value w = (w', ok) -> mono w w'.
Proof.
  unfold end_value. destruct (w_bufs w) as [|q rest]; [intros H; inversion H; apply mono_refl|].
  destruct (bs_code q) as [c|]; [|intros H; inversion H; apply mono_refl].
  destruct (c =? 224); [|intros H; inversion H; apply mono_refl].
  intros H. apply emit_mono in H. exact H.
Qed.

(* symbol resolution leaves the sink alone *)
Lemma resolve_from_table_out w t w' id ok : resolve_from_table w t = (w', id, ok) -> w_out w' = w_out w.
Proof.
  unfold resolve_from_table. destruct (w_lst w).
  - destruct (find_by_name l true t); intros H; inversion H; subst; reflexivity.
  - destruct (find_by_name (w_lstb w) false t); intros H; inversion H; subst; reflexivity.
Qed.
Lemma resolve_out w t w' id ok : resolve w t = (w', id, ok) -> w_out w' = w_out w.
Proof.
  unfold resolve. destruct (symbol_identifier t).
  - intros H; inversion H; subst; reflexivity.
  - apply resolve_from_table_out.
Qed.
Lemma id_of_tok_field_out w t w' id : id_of_tok_field w t = Some (w', id) -> w_out w' = w_out w.
Proof.
  unfold id_of_tok_field. destruct (tk_text t).
  - destruct (resolve_from_table w t0) as [[w1 i] ok] eqn:E. destruct ok; [|discriminate].
    intros H; inversion H; subst. eapply resolve_from_table_out; exact E.
  - destruct (negb (tk_sid t =? -1)%Z); [|discriminate]. intros H; inversion H; subst; reflexivity.
Qed.
Lemma id_of_tok_annot_out w t w' id : id_of_tok_annot w t = Some (w', id) -> w_out w' = w_out w.
Proof.
  unfold id_of_tok_annot. destruct (tk_text t).
  - destruct (resolve_from_table w t0) as [[w1 i] ok] eqn:E. destruct ok; [|discriminate].
    intros H; inversion H; subst. eapply resolve_from_table_out; exact E.
  - destruct (negb (tk_sid t =? -1)%Z); [|discriminate]. intros H; inversion H; subst; reflexivity.
Qed.
Lemma annot_ids_out ts : forall w w' r, annot_ids w ts = (w', r) -> w_out w' = w_out w.
Proof.
  induction ts as [|t ts IH]; intros w w' r; cbn [annot_ids].
  - intros H; inversion H; subst; reflexivity.
  - destruct (id_of_tok_annot w t) as [[w1 i]|] eqn:E.
    + apply id_of_tok_annot_out in E.
      destruct (annot_ids w1 ts) as [w2 [ids|]] eqn:E2; apply IH in E2; intros H; inversion H; subst; congruence.
    + intros H; inversion H; subst; reflexivity.
Qed.

(* ---- beginValue, cut into its three stages -------------------------------------------------------------- *)
Definition bv_annots (w : wstate) (annots : list tok) : res ret :=
  match annots with
  | [] => Ok (w, true)
  | _ =>
    match annot_ids w annots with
    | (w', None) => Ok (w', false)
    | (w', Some ids) =>
      let idlen := fold_left (fun a id => a + varuint_len id) ids 0 in
      let buf := fold_left (fun b id => append_varuint b id) ids (append_varuint [] idlen) in
      Ok (write (set_bufs w' (new_seq (Some 224) :: w_bufs w')) buf)
    end
  end.
Definition bv_tail2 (w : wstate) (ok : bool) (annots : list tok) : res ret :=
  if negb ok then Ok (w, false) else bv_annots w annots.
Definition bv_field (w : wstate) (name : option tok) : res ret :=
  if in_struct w then
    match name with
    | None => Ok (w, false)
    | Some nm =>
      match id_of_tok_field w nm with
      | None => Ok (w, false)
      | Some (w', id) => Ok (write w' (append_varuint [] id))
      end
    end
  else Ok (w, true).
Definition bv_tail1 (w : wstate) (ok : bool) (name : option tok) (annots : list tok) : res ret :=
  if negb ok then Ok (w, false) else
  do '(w2, ok2) <- bv_field w name; bv_tail2 w2 ok2 annots.
Definition bv_lst (run : wstate -> list wcall -> res ret) (w : wstate) : res ret :=
  match w_lst w with
  | Some locals => if negb (w_wrote_lst w) then write_lst run (set_wrote w true) locals else Ok (w, true)
  | None => Ok (w, true)
  end.

Lemma begin_value_eq run w :
  begin_value run w = do '(w1, ok) <- bv_lst run (clear w); bv_tail1 w1 ok (w_field w) (w_annots w).
Proof. reflexivity. Qed.

Lemma bv_annots_mono w a : mono_res w (bv_annots w a).
Proof.
  unfold bv_annots. destruct a as [|t a]; [apply mono_refl|].
  destruct (annot_ids w (t :: a)) as [w1 [ids|]] eqn:E; apply annot_ids_out in E.
  - match goal with |- context [write ?ww ?bb] => destruct (write ww bb) as [w2 ok2] eqn:Ew end.
    apply write_mono in Ew. cbn [mono_res fst]. eapply mono_trans; [|exact Ew]. apply mono_out. exact E.
  - cbn [mono_res fst]. apply mono_out. exact E.
Qed.
Lemma bv_tail2_mono w ok a : mono_res w (bv_tail2 w ok a).
Proof. unfold bv_tail2. destruct ok; cbn [negb]; [apply bv_annots_mono|apply mono_refl]. Qed.
Lemma bv_field_mono w nm : mono_res w (bv_field w nm).
Proof.
  unfold bv_field. destruct (in_struct w); [|apply mono_refl].
  destruct nm as [nm|]; [|apply mono_refl].
  destruct (id_of_tok_field w nm) as [[w1 id]|] eqn:E; [|apply mono_refl].
  apply id_of_tok_field_out in E. destruct (write w1 (append_varuint [] id)) as [w2 ok2] eqn:Ew.
  apply write_mono in Ew. cbn [mono_res fst]. eapply mono_trans; [|exact Ew]. apply mono_out. exact E.
Qed.
Lemma bv_tail1_mono w ok nm a : mono_res w (bv_tail1 w ok nm a).
Proof.
  unfold bv_tail1. destruct ok; cbn [negb]; [|apply mono_refl].
  apply mono_bind; [apply bv_field_mono|]. intros w1 ok1. apply bv_tail2_mono.
Qed.

Section MonoStep.
Variable run : wstate -> list wcall -> res ret.
Hypothesis run_mono : forall w cs, mono_res w (run w cs).

Lemma write_lst_mono w locals : mono_res w (write_lst run w locals).
Proof.
  unfold write_lst. destruct (write w [224; 1; 0; 234]) as [w1 ok] eqn:E. apply write_mono in E.
  destruct ok; cbn [negb]; [|exact E]. eapply mono_res_trans; [exact E|apply run_mono].
Qed.
Lemma bv_lst_mono w : mono_res w (bv_lst run w).
Proof.
  unfold bv_lst. destruct (w_lst w) as [l|]; [|apply mono_refl].
  destruct (w_wrote_lst w); cbn [negb]; [apply mono_refl|].
  apply (mono_res_trans w (set_wrote w true)); [apply mono_out; reflexivity|apply write_lst_mono].
Qed.
Lemma begin_value_mono w : mono_res w (begin_value run w).
Proof.
  rewrite begin_value_eq. apply mono_bind.
  - apply (mono_res_trans w (clear w)); [apply mono_out; reflexivity|apply bv_lst_mono].
  - intros w1 ok. apply bv_tail1_mono.
Qed.
End MonoStep.

(* ---- the value-writing calls, cut after beginValue ---------------------------------------------------------- *)
Definition wv_tail (w : wstate) (ok : bool) (val : list N) : res ret :=
  if negb ok then Ok (set_err w true, false) else
  let '(w, ok) := write w val in
  if negb ok then Ok (set_err w true, false) else
  let '(w, ok) := end_value w in
  Ok (set_err w (negb ok), ok).
Definition write_chunks (st : ret) (chunks : list (list N)) : ret :=
  fold_left (fun (st : ret) c => let '(w0, ok0) := st in if ok0 then write w0 c else st) chunks st.
Definition wvc_tail (w : wstate) (ok : bool) (chunks : list (list N)) : res ret :=
  if negb ok then Ok (set_err w true, false) else
  let '(w, ok) := write_chunks (w, true) chunks in
  if negb ok then Ok (set_err w true, false) else
  let '(w, ok) := end_value w in
  Ok (set_err w (negb ok), ok).
Definition bc_tail (w : wstate) (ok : bool) (t code : N) : res ret :=
  if negb ok then Ok (set_err w true, false) else
  Ok (set_bufs (set_ctx w (t :: w_ctx w)) (new_seq (Some code) :: w_bufs w), true).
Definition fin_tail (w : wstate) (ok : bool) (q : bufseq) : res ret :=
  if negb ok then Ok (set_err w true, false) else
  let '(w, ok) := emit w (node_of_seq q) in
  if negb ok then Ok (set_err w true, false) else
  Ok (set_bufs w [new_seq None], true).

Lemma write_value_eq run w val :
  write_value run w val =
  if w_err w then Ok (w, false) else do '(w1, ok) <- begin_value run w; wv_tail w1 ok val.
Proof. reflexivity. Qed.
Lemma write_value_chunks_eq run w chunks :
  write_value_chunks run w chunks =
  if w_err w then Ok (w, false) else do '(w1, ok) <- begin_value run w; wvc_tail w1 ok chunks.
Proof. reflexivity. Qed.
Lemma begin_container_eq run w t code :
  begin_container run w t code =
  if w_err w then Ok (w, false) else do '(w1, ok) <- begin_value run w; bc_tail w1 ok t code.
Proof. reflexivity. Qed.
Lemma finish_eq run w :
  step run w CFinish =
  if w_err w then Ok (w, false) else
  if negb (ctx_peek w =? 0) then Ok (w, false) else
  match w_bufs w with
  | [] => Ok (set_wrote (clear w) false, true)
  | q :: rest =>
    match rest with
    | _ :: _ => Panic
    | [] => do '(w1, ok) <- write_lst run (set_bufs (set_wrote (clear w) false) []) (w_lstb w);
            fin_tail w1 ok q
    end
  end.
Proof. reflexivity. Qed.

Lemma wv_tail_mono w ok val : mono_res w (wv_tail w ok val).
Proof.
  unfold wv_tail. destruct ok; cbn [negb]; [|apply mono_out; reflexivity].
  destruct (write w val) as [w1 ok1] eqn:E1. apply write_mono in E1.
  destruct ok1; cbn [negb]; [|exact E1].
  destruct (end_value w1) as [w2 ok2] eqn:E2. apply end_value_mono in E2.
  cbn [mono_res fst]. eapply mono_trans; [exact E1|exact E2].
Qed.
Lemma write_chunks_mono cs : forall w ok w' ok', write_chunks (w, ok) cs = (w', ok') -> mono w w'.
Proof.
  unfold write_chunks. induction cs as [|c cs IH]; intros w ok w' ok'; cbn [fold_left].
  - intros H; inversion H; subst. apply mono_refl.
  - destruct ok; [|apply IH]. destruct (write w c) as [w1 ok1] eqn:E. apply write_mono in E.
    intros H. apply IH in H. eapply mono_trans; eauto.
Qed.
Lemma wvc_tail_mono w ok cs : mono_res w (wvc_tail w ok cs).
Proof.
  unfold wvc_tail. destruct ok; cbn [negb]; [|apply mono_out; reflexivity].
  destruct (write_chunks (w, true) cs) as [w1 ok1] eqn:E1. apply write_chunks_mono in E1.
  destruct ok1; cbn [negb]; [|exact E1].
  destruct (end_value w1) as [w2 ok2] eqn:E2. apply end_value_mono in E2.
  cbn [mono_res fst]. eapply mono_trans; [exact E1|exact E2].
Qed.
Lemma bc_tail_mono w ok t code : mono_res w (bc_tail w ok t code).
Proof. unfold bc_tail. destruct ok; cbn [negb]; apply mono_out; reflexivity. Qed.
Lemma fin_tail_mono w ok q : mono_res w (fin_tail w ok q).
Proof.
  unfold fin_tail. destruct ok; cbn [negb]; [|apply mono_out; reflexivity].
  destruct (emit w (node_of_seq q)) as [w1 ok1] eqn:E1. apply emit_mono in E1.
  destruct ok1; cbn [negb]; exact E1.
Qed.
Lemma end_container_mono w t : mono_res w (end_container w t).
Proof.
  unfold end_container. destruct (w_err w); [apply mono_refl|].
  destruct (ctx_peek w =? t); cbn [negb]; [|apply mono_out; reflexivity].
  assert (H : exists w1 ok1, match w_bufs w with q :: rest => emit (set_bufs w rest) (node_of_seq q) | [] => (w, true) end = (w1, ok1) /\ mono w w1).
  { destruct (w_bufs w) as [|q rest]; [exists w, true; split; [reflexivity|apply mono_refl]|].
    destruct (emit (set_bufs w rest) (node_of_seq q)) as [w1 ok1] eqn:E. apply emit_mono in E.
    exists w1, ok1. split; [reflexivity|exact E]. }
  destruct H as (w1 & ok1 & -> & M1). destruct ok1; cbn [negb]; [|exact M1].
  destruct (w_ctx (clear w1)) as [|c0 c]; [exact I|].
  destruct (end_value (set_ctx (clear w1) c)) as [w2 ok2] eqn:E2. apply end_value_mono in E2.
  cbn [mono_res fst]. eapply mono_trans; [exact M1|exact E2].
Qed.

Section MonoStep2.
Variable run : wstate -> list wcall -> res ret.
Hypothesis run_mono : forall w cs, mono_res w (run w cs).

Lemma write_value_mono w val : mono_res w (write_value run w val).
Proof.
  rewrite write_value_eq. destruct (w_err w); [apply mono_refl|].
  apply mono_bind; [apply begin_value_mono; exact run_mono|]. intros w1 ok. apply wv_tail_mono.
Qed.
Lemma write_value_chunks_mono w cs : mono_res w (write_value_chunks run w cs).
Proof.
  rewrite write_value_chunks_eq. destruct (w_err w); [apply mono_refl|].
  apply mono_bind; [apply begin_value_mono; exact run_mono|]. intros w1 ok. apply wvc_tail_mono.
Qed.
Lemma begin_container_mono w t code : mono_res w (begin_container run w t code).
Proof.
  rewrite begin_container_eq. destruct (w_err w); [apply mono_refl|].
  apply mono_bind; [apply begin_value_mono; exact run_mono|]. intros w1 ok. apply bc_tail_mono.
Qed.
Lemma write_symbol_id_mono w id : mono_res w (write_symbol_id run w id).
Proof. apply write_value_mono. Qed.

Ltac mono_leaf := first [apply mono_refl | apply write_value_mono | apply write_value_chunks_mono
  | apply begin_container_mono | apply end_container_mono | (apply mono_out; reflexivity)].

Lemma finish_mono w : mono_res w (step run w CFinish).
Proof.
  rewrite finish_eq. destruct (w_err w); [mono_leaf|].
  destruct (ctx_peek w =? 0); cbn [negb]; [|mono_leaf].
  destruct (w_bufs w) as [|q rest]; [mono_leaf|]. destruct rest; [|exact I].
  apply mono_bind; [|intros w1 ok; apply fin_tail_mono].
  eapply mono_res_trans; [|apply write_lst_mono; exact run_mono]. apply mono_out. reflexivity.
Qed.

Lemma step_mono w c : mono_res w (step run w c).
Proof.
  destruct c; [..|apply finish_mono]; cbn [step]; try mono_leaf.
  - destruct (w_err w); [mono_leaf|]. destruct (in_struct w); cbn [negb]; mono_leaf.
  - destruct (w_err w); mono_leaf.
  - destruct (w_err w); mono_leaf.
  - destruct (w_err w); [mono_leaf|]. destruct (14 <=? t); [mono_leaf|].
    destruct (binary_null t); cbn [bind]; try exact I. mono_leaf.
  - destruct (z =? 0)%Z; mono_leaf.
  - destruct (n =? 0); mono_leaf.
  - destruct (w_err w); [mono_leaf|]. destruct z as [z|]; [|mono_leaf]. destruct (z =? 0)%Z; mono_leaf.
  - destruct (f64_pos_zero bits); [mono_leaf|]. destruct (f64_is_nan bits); [mono_leaf|].
    destruct (uses_f32 bits); mono_leaf.
  - destruct (w_err w); [mono_leaf|]. destruct d as [d|]; [|mono_leaf]. destruct (_ && _); mono_leaf.
  - destruct (w_err w); [mono_leaf|]. destruct (tk_text t) as [x|].
    + destruct (resolve_from_table w x) as [[w1 id] ok1] eqn:E. apply resolve_from_table_out in E.
      destruct ok1; cbn [negb]; [|apply mono_out; exact E].
      eapply mono_res_trans; [|apply write_symbol_id_mono]. apply mono_out. exact E.
    + destruct (negb (tk_sid t =? -1)%Z); [apply write_symbol_id_mono|mono_leaf].
  - destruct (w_err w); [mono_leaf|].
    destruct (resolve w t) as [[w1 id] ok1] eqn:E. apply resolve_out in E.
    destruct ok1; cbn [negb]; [|apply mono_out; exact E].
    eapply mono_res_trans; [|apply write_symbol_id_mono]. apply mono_out. exact E.
  - destruct t; mono_leaf.
Qed.
End MonoStep2.

Lemma run_calls_mono f : forall w cs, mono_res w (run_calls f w cs).
Proof.
  induction f as [|f IH]; [intros; exact I|].
  intros w cs. revert w. induction cs as [|c cs IHc]; intros w.
  - apply mono_refl.
  - change (run_calls (S f) w (c :: cs)) with
      (do '(w', ok) <- step (run_calls f) w c; if ok then run_calls (S f) w' cs else Ok (w', false)).
    apply mono_bind; [apply step_mono; exact IH|]. intros w1 ok. destruct ok; [apply IHc|apply mono_refl].
Qed.

Theorem wstep_mono w c : mono_res w (wstep w c).
Proof. apply step_mono. apply run_calls_mono. Qed.

Lemma drive_mono cs : forall w w' rs, drive_results w cs = Ok (w', rs) -> mono w w'.
Proof.
  induction cs as [|c cs IH]; intros w w' rs; cbn [drive_results].
  - intros H; inversion H; subst. apply mono_refl.
  - pose proof (wstep_mono w c) as M. destruct (wstep w c) as [[w1 ok]| | |]; cbn [bind]; try discriminate.
    destruct (drive_results w1 cs) as [[w2 oks]| | |] eqn:E; cbn [bind]; try discriminate.
    intros H; inversion H; subst. apply IH in E. eapply mono_trans; [exact M|exact E].
Qed.

(* ---- the same writer over a sink that never fails ---------------------------------------------------------- *)
Definition unl_sink (k : sink) : sink := {| sk_writes := sk_writes k; sk_budget := None |}.
Definition unl (w : wstate) : wstate := set_out w (unl_sink (w_out w)).

Lemma unl_err w : w_err (unl w) = w_err w. Proof. reflexivity. Qed.
Lemma unl_ctx w : w_ctx (unl w) = w_ctx w. Proof. reflexivity. Qed.
Lemma unl_bufs w : w_bufs (unl w) = w_bufs w. Proof. reflexivity. Qed.
Lemma unl_field w : w_field (unl w) = w_field w. Proof. reflexivity. Qed.
Lemma unl_annots w : w_annots (unl w) = w_annots w. Proof. reflexivity. Qed.
Lemma unl_lst w : w_lst (unl w) = w_lst w. Proof. reflexivity. Qed.
Lemma unl_lstb w : w_lstb (unl w) = w_lstb w. Proof. reflexivity. Qed.
Lemma unl_wrote w : w_wrote_lst (unl w) = w_wrote_lst w. Proof. reflexivity. Qed.
Lemma unl_out w : w_out (unl w) = unl_sink (w_out w). Proof. reflexivity. Qed.
Lemma unl_in_struct w : in_struct (unl w) = in_struct w. Proof. reflexivity. Qed.
Lemma unl_ctx_peek w : ctx_peek (unl w) = ctx_peek w. Proof. reflexivity. Qed.
Lemma unl_clear w : clear (unl w) = unl (clear w). Proof. reflexivity. Qed.
Lemma unl_set_err w e : set_err (unl w) e = unl (set_err w e). Proof. reflexivity. Qed.
Lemma unl_set_ctx w c : set_ctx (unl w) c = unl (set_ctx w c). Proof. reflexivity. Qed.
Lemma unl_set_bufs w b : set_bufs (unl w) b = unl (set_bufs w b). Proof. reflexivity. Qed.
Lemma unl_set_wrote w b : set_wrote (unl w) b = unl (set_wrote w b). Proof. reflexivity. Qed.
Lemma unl_set_lstb w l : set_lstb (unl w) l = unl (set_lstb w l). Proof. reflexivity. Qed.
Lemma unl_set_pending w f a : set_pending (unl w) f a = unl (set_pending w f a). Proof. reflexivity. Qed.
Global Hint Rewrite unl_err unl_ctx unl_bufs unl_field unl_annots unl_lst unl_lstb unl_wrote unl_out
  unl_in_struct unl_ctx_peek unl_clear unl_set_err unl_set_ctx unl_set_bufs unl_set_wrote unl_set_lstb
  unl_set_pending : unl.

Lemma resolve_from_table_unl w t :
  resolve_from_table (unl w) t = let '(w', id, ok) := resolve_from_table w t in (unl w', id, ok).
Proof.
  unfold resolve_from_table. rewrite unl_lst, unl_lstb. destruct (w_lst w).
  - destruct (find_by_name l true t); reflexivity.
  - destruct (find_by_name (w_lstb w) false t); reflexivity.
Qed.
Lemma resolve_unl w t : resolve (unl w) t = let '(w', id, ok) := resolve w t in (unl w', id, ok).
Proof.
  unfold resolve. destruct (symbol_identifier t); [reflexivity|apply resolve_from_table_unl].
Qed.
Lemma id_of_tok_field_unl w t :
  id_of_tok_field (unl w) t = match id_of_tok_field w t with Some (w', id) => Some (unl w', id) | None => None end.
Proof.
  unfold id_of_tok_field. destruct (tk_text t).
  - rewrite resolve_from_table_unl. destruct (resolve_from_table w t0) as [[w1 i] ok]. destruct ok; reflexivity.
  - destruct (negb (tk_sid t =? -1)%Z); reflexivity.
Qed.
Lemma id_of_tok_annot_unl w t :
  id_of_tok_annot (unl w) t = match id_of_tok_annot w t with Some (w', id) => Some (unl w', id) | None => None end.
Proof.
  unfold id_of_tok_annot. destruct (tk_text t).
  - rewrite resolve_from_table_unl. destruct (resolve_from_table w t0) as [[w1 i] ok]. destruct ok; reflexivity.
  - destruct (negb (tk_sid t =? -1)%Z); reflexivity.
Qed.
Lemma annot_ids_unl ts : forall w, annot_ids (unl w) ts = let '(w', r) := annot_ids w ts in (unl w', r).
Proof.
  induction ts as [|t ts IH]; intros w; cbn [annot_ids]; [reflexivity|].
  rewrite id_of_tok_annot_unl. destruct (id_of_tok_annot w t) as [[w1 i]|]; [|reflexivity].
  rewrite IH. destruct (annot_ids w1 ts) as [w2 [ids|]]; reflexivity.
Qed.

(* the outcome of the same computation over the failing and the never-failing sink: in step (same
   state up to the budget, same result), or the failing side has just had a write refused — it
   answers false, its budget is exhausted, and what it accepted is a prefix of the other's *)
Definition diverged (k1 k2 : sink) : Prop :=
  sk_budget k1 = Some O /\ is_prefix (sk_writes k1) (sk_writes k2).
Definition sim_sink (a b : sink * bool) : Prop :=
  (fst b = unl_sink (fst a) /\ snd b = snd a) \/ (snd a = false /\ diverged (fst a) (fst b)).
Definition sim_ret (a b : ret) : Prop :=
  (fst b = unl (fst a) /\ snd b = snd a) \/ (snd a = false /\ diverged (w_out (fst a)) (w_out (fst b))).
Definition sim_res (r1 r2 : res ret) : Prop :=
  match r1, r2 with Ok a, Ok b => sim_ret a b | _, _ => True end.

Lemma diverged_le k1 k2 k2' : diverged k1 k2 -> sink_le k2 k2' -> diverged k1 k2'.
Proof. intros [B P] [P2 _]. split; [exact B|eapply is_prefix_trans; eauto]. Qed.

(* an exhausted sink accepts nothing more *)
Lemma exhausted_le k k' : sk_budget k = Some O -> sink_le k k' ->
  sk_writes k' = sk_writes k /\ sk_budget k' = Some O.
Proof.
  intros B [[t P] L]. rewrite B in L. destruct L as (n' & E & L). rewrite P, app_length in L.
  assert (n' = O) by lia. assert (length t = O) by lia. subst n'.
  destruct t; [|discriminate]. rewrite app_nil_r in P. auto.
Qed.
Lemma diverged_le_l k1 k1' k2 : diverged k1 k2 -> sink_le k1 k1' -> diverged k1' k2.
Proof.
  intros [B P] L. destruct (exhausted_le _ _ B L) as [E1 E2]. split; [exact E2|]. rewrite E1. exact P.
Qed.

Lemma sink_write_sim k c : sim_sink (sink_write k c) (sink_write (unl_sink k) c).
Proof.
  unfold sink_write. cbn [unl_sink sk_budget sk_writes]. destruct (sk_budget k) as [[|n]|] eqn:E.
  - right. cbn [fst snd]. split; [reflexivity|]. split; [exact E|apply is_prefix_app].
  - left. split; reflexivity.
  - left. split; reflexivity.
Qed.

Lemma sink_write_all_sim cs : forall k, sim_sink (sink_write_all k cs) (sink_write_all (unl_sink k) cs).
Proof.
  induction cs as [|c cs IH]; intros k; cbn [sink_write_all].
  - left. split; reflexivity.
  - pose proof (sink_write_sim k c) as S.
    destruct (sink_write k c) as [k1 ok1]. destruct (sink_write (unl_sink k) c) as [k2 ok2] eqn:E2.
    destruct S as [[S1 S2]|[S1 S2]]; cbn [fst snd] in S1, S2; subst.
    + destruct ok1; [apply IH|]. left. split; reflexivity.
    + right. cbn [fst snd]. split; [reflexivity|]. destruct ok2.
      * destruct (sink_write_all k2 cs) as [k3 ok3] eqn:E3. apply sink_write_all_le in E3.
        cbn [fst]. eapply diverged_le; eauto.
      * exact S2.
Qed.

Lemma sim_sync w ok : sim_res (Ok (w, ok)) (Ok (unl w, ok)).
Proof. left. split; reflexivity. Qed.

Lemma emit_sim w n : sim_ret (emit w n) (emit (unl w) n).
Proof.
  unfold emit. rewrite unl_bufs, unl_out. destruct (w_bufs w) as [|q r].
  - pose proof (sink_write_all_sim (nd_chunks n) (w_out w)) as S.
    destruct (sink_write_all (w_out w) (nd_chunks n)) as [k1 ok1].
    destruct (sink_write_all (unl_sink (w_out w)) (nd_chunks n)) as [k2 ok2].
    destruct S as [[S1 S2]|[S1 S2]]; cbn [fst snd] in S1, S2; subst.
    + left. split; reflexivity.
    + right. split; [reflexivity|exact S2].
  - left. split; reflexivity.
Qed.
Lemma write_sim w b : sim_ret (write w b) (write (unl w) b).
Proof. apply emit_sim. Qed.
Lemma end_value_sim w : sim_ret (end_value w) (end_value (unl w)).
Proof.
  unfold end_value. rewrite unl_bufs. destruct (w_bufs w) as [|q rest]; [left; split; reflexivity|].
  destruct (bs_code q) as [c|]; [|left; split; reflexivity].
  destruct (c =? 224); [|left; split; reflexivity].
  rewrite unl_set_bufs. apply emit_sim.
Qed.

(* composition: every continuation, told "false", returns false at once without writing *)
Lemma sim_let (a b : ret) (k : wstate -> bool -> res ret) :
  sim_ret a b ->
  (forall w ok, sim_res (k w ok) (k (unl w) ok)) ->
  (forall w, exists w', k w false = Ok (w', false) /\ w_out w' = w_out w) ->
  (forall w ok, mono_res w (k w ok)) ->
  sim_res (k (fst a) (snd a)) (k (fst b) (snd b)).
Proof.
  intros S Hs Hf Hm. destruct a as [w1 ok1], b as [w2 ok2]. unfold sim_ret in S. cbn [fst snd] in *.
  destruct S as [[-> ->]|[-> D]]; [apply Hs|].
  destruct (Hf w1) as (w1' & -> & Eo). specialize (Hm w2 ok2).
  destruct (k w2 ok2) as [[w2' ok2']| | |]; cbn [sim_res]; trivial.
  right. cbn [fst snd]. split; [reflexivity|]. rewrite Eo. eapply diverged_le; [exact D|exact Hm].
Qed.

Lemma sim_bind (r1 r2 : res ret) (k : wstate -> bool -> res ret) :
  sim_res r1 r2 ->
  (forall w ok, sim_res (k w ok) (k (unl w) ok)) ->
  (forall w, exists w', k w false = Ok (w', false) /\ w_out w' = w_out w) ->
  (forall w ok, mono_res w (k w ok)) ->
  sim_res (bind r1 (fun '(w, ok) => k w ok)) (bind r2 (fun '(w, ok) => k w ok)).
Proof.
  intros S Hs Hf Hm. destruct r1 as [[w1 ok1]| | |]; cbn [bind]; try exact I.
  destruct r2 as [[w2 ok2]| | |]; cbn [bind]; try (destruct (k w1 ok1); exact I).
  apply (sim_let (w1, ok1) (w2, ok2) k S Hs Hf Hm).
Qed.

Ltac fail_now := let x := fresh "x" in intros x; eexists; split; reflexivity.

Lemma bv_annots_sim w a : sim_res (bv_annots w a) (bv_annots (unl w) a).
Proof.
  unfold bv_annots. destruct a as [|t a]; [apply sim_sync|].
  rewrite annot_ids_unl. destruct (annot_ids w (t :: a)) as [w1 [ids|]]; [|apply sim_sync].
  rewrite unl_bufs, unl_set_bufs. cbn [sim_res]. apply write_sim.
Qed.
Lemma bv_tail2_sim w ok a : sim_res (bv_tail2 w ok a) (bv_tail2 (unl w) ok a).
Proof. unfold bv_tail2. destruct ok; cbn [negb]; [apply bv_annots_sim|apply sim_sync]. Qed.
Lemma bv_field_sim w nm : sim_res (bv_field w nm) (bv_field (unl w) nm).
Proof.
  unfold bv_field. rewrite unl_in_struct. destruct (in_struct w); [|apply sim_sync].
  destruct nm as [nm|]; [|apply sim_sync]. rewrite id_of_tok_field_unl.
  destruct (id_of_tok_field w nm) as [[w1 id]|]; [|apply sim_sync]. cbn [sim_res]. apply write_sim.
Qed.
Lemma bv_tail1_sim w ok nm a : sim_res (bv_tail1 w ok nm a) (bv_tail1 (unl w) ok nm a).
Proof.
  unfold bv_tail1. destruct ok; cbn [negb]; [|apply sim_sync].
  apply (sim_bind _ _ (fun w2 ok2 => bv_tail2 w2 ok2 a)).
  - apply bv_field_sim.
  - intros; apply bv_tail2_sim.
  - fail_now.
  - intros; apply bv_tail2_mono.
Qed.

Ltac sim_let_with L k :=
  let S := fresh "S" in pose proof L as S;
  match type of S with sim_ret ?a ?b => destruct a as [? ?]; destruct b as [? ?] end;
  apply (sim_let (_, _) (_, _) k S).

Definition ev_tail (w : wstate) (ok : bool) : res ret :=
  if negb ok then Ok (set_err w true, false) else
  let '(w, ok) := end_value w in Ok (set_err w (negb ok), ok).
Lemma wv_tail_eq w ok val :
  wv_tail w ok val =
  if negb ok then Ok (set_err w true, false) else let '(w1, ok1) := write w val in ev_tail w1 ok1.
Proof. reflexivity. Qed.
Lemma wvc_tail_eq w ok cs :
  wvc_tail w ok cs =
  if negb ok then Ok (set_err w true, false) else let '(w1, ok1) := write_chunks (w, true) cs in ev_tail w1 ok1.
Proof. reflexivity. Qed.

Lemma ev_tail_mono w ok : mono_res w (ev_tail w ok).
Proof.
  unfold ev_tail. destruct ok; cbn [negb]; [|apply mono_out; reflexivity].
  destruct (end_value w) as [w2 ok2] eqn:E2. apply end_value_mono in E2. exact E2.
Qed.
Lemma ev_tail_sim w ok : sim_res (ev_tail w ok) (ev_tail (unl w) ok).
Proof.
  unfold ev_tail. destruct ok; cbn [negb]; [|apply sim_sync].
  sim_let_with (end_value_sim w) (fun w ok => Ok (set_err w (negb ok), ok)).
  - intros x o. apply (sim_sync (set_err x (negb o)) o).
  - fail_now.
  - intros x o. apply mono_out. reflexivity.
Qed.
Lemma wv_tail_sim w ok val : sim_res (wv_tail w ok val) (wv_tail (unl w) ok val).
Proof.
  rewrite !wv_tail_eq. destruct ok; cbn [negb]; [|apply sim_sync].
  sim_let_with (write_sim w val) ev_tail; [apply ev_tail_sim|fail_now|apply ev_tail_mono].
Qed.

Lemma write_chunks_false cs : forall w, write_chunks (w, false) cs = (w, false).
Proof. unfold write_chunks. induction cs as [|c cs IH]; intros w; cbn [fold_left]; [reflexivity|apply IH]. Qed.
Lemma write_chunks_sim cs : forall w ok, sim_ret (write_chunks (w, ok) cs) (write_chunks (unl w, ok) cs).
Proof.
  induction cs as [|c cs IH]; intros w ok.
  - left. split; reflexivity.
  - destruct ok.
    + change (write_chunks (w, true) (c :: cs)) with (write_chunks (write w c) cs).
      change (write_chunks (unl w, true) (c :: cs)) with (write_chunks (write (unl w) c) cs).
      pose proof (write_sim w c) as S. destruct (write w c) as [w1 ok1]. destruct (write (unl w) c) as [w2 ok2].
      destruct S as [[S1 S2]|[S1 S2]]; cbn [fst snd] in S1, S2; subst; [apply IH|].
      rewrite write_chunks_false. right. split; [reflexivity|]. cbn [fst].
      destruct (write_chunks (w2, ok2) cs) as [w3 ok3] eqn:E3. apply write_chunks_mono in E3.
      cbn [fst]. eapply diverged_le; eauto.
    + rewrite !write_chunks_false. left. split; reflexivity.
Qed.
Lemma wvc_tail_sim w ok cs : sim_res (wvc_tail w ok cs) (wvc_tail (unl w) ok cs).
Proof.
  rewrite !wvc_tail_eq. destruct ok; cbn [negb]; [|apply sim_sync].
  sim_let_with (write_chunks_sim cs w true) ev_tail; [apply ev_tail_sim|fail_now|apply ev_tail_mono].
Qed.
Lemma bc_tail_sim w ok t code : sim_res (bc_tail w ok t code) (bc_tail (unl w) ok t code).
Proof. unfold bc_tail. destruct ok; cbn [negb]; [|apply sim_sync]. left. split; reflexivity. Qed.
Lemma fin_tail_sim w ok q : sim_res (fin_tail w ok q) (fin_tail (unl w) ok q).
Proof.
  unfold fin_tail. destruct ok; cbn [negb]; [|apply sim_sync].
  sim_let_with (emit_sim w (node_of_seq q))
    (fun w ok => if negb ok then Ok (set_err w true, false) else Ok (set_bufs w [new_seq None], true) : res ret).
  - intros x o. destruct o; cbn [negb]; [|apply sim_sync]. left. split; reflexivity.
  - fail_now.
  - intros x o. destruct o; apply mono_out; reflexivity.
Qed.

(* end(api, t) *)
Definition ec_emit (w : wstate) : ret :=
  match w_bufs w with
  | q :: rest => emit (set_bufs w rest) (node_of_seq q)
  | [] => (w, true)
  end.
Definition ec_tail (w : wstate) (ok : bool) : res ret :=
  if negb ok then Ok (set_err w true, false) else
  let w := clear w in
  match w_ctx w with
  | [] => Panic
  | _ :: c => let '(w, ok) := end_value (set_ctx w c) in Ok (set_err w (negb ok), ok)
  end.
Lemma end_container_eq w t :
  end_container w t =
  if w_err w then Ok (w, false) else
  if negb (ctx_peek w =? t) then Ok (set_err w true, false) else
  let '(w1, ok1) := ec_emit w in ec_tail w1 ok1.
Proof. reflexivity. Qed.
Lemma ec_emit_mono w w' ok : ec_emit w = (w', ok) -> mono w w'.
Proof.
  unfold ec_emit. destruct (w_bufs w) as [|q rest]; [intros H; inversion H; apply mono_refl|].
  intros H. apply emit_mono in H. exact H.
Qed.
Lemma ec_emit_sim w : sim_ret (ec_emit w) (ec_emit (unl w)).
Proof.
  unfold ec_emit. rewrite unl_bufs. destruct (w_bufs w) as [|q rest]; [left; split; reflexivity|].
  rewrite unl_set_bufs. apply emit_sim.
Qed.
Lemma ec_tail_mono w ok : mono_res w (ec_tail w ok).
Proof.
  unfold ec_tail. destruct ok; cbn [negb]; [|apply mono_out; reflexivity].
  destruct (w_ctx (clear w)) as [|c0 c]; [exact I|].
  destruct (end_value (set_ctx (clear w) c)) as [w2 ok2] eqn:E2. apply end_value_mono in E2. exact E2.
Qed.
Lemma ec_tail_sim w ok : sim_res (ec_tail w ok) (ec_tail (unl w) ok).
Proof.
  unfold ec_tail. destruct ok; cbn [negb]; [|apply sim_sync].
  rewrite unl_clear, unl_ctx. destruct (w_ctx (clear w)) as [|c0 c]; [exact I|].
  rewrite unl_set_ctx.
  sim_let_with (end_value_sim (set_ctx (clear w) c)) (fun w ok => Ok (set_err w (negb ok), ok)).
  - intros x o. apply (sim_sync (set_err x (negb o)) o).
  - fail_now.
  - intros x o. apply mono_out. reflexivity.
Qed.
Lemma end_container_sim w t : sim_res (end_container w t) (end_container (unl w) t).
Proof.
  rewrite !end_container_eq. rewrite unl_err, unl_ctx_peek. destruct (w_err w); [apply sim_sync|].
  destruct (ctx_peek w =? t); cbn [negb]; [|apply sim_sync].
  sim_let_with (ec_emit_sim w) ec_tail; [apply ec_tail_sim|fail_now|apply ec_tail_mono].
Qed.

Section SimStep.
Variable run : wstate -> list wcall -> res ret.
Hypothesis run_mono : forall w cs, mono_res w (run w cs).
Hypothesis run_sim : forall w cs, sim_res (run w cs) (run (unl w) cs).

Lemma write_lst_sim w locals : sim_res (write_lst run w locals) (write_lst run (unl w) locals).
Proof.
  unfold write_lst.
  sim_let_with (write_sim w [224; 1; 0; 234])
    (fun w ok => if negb ok then Ok (w, false) else run w (lst_calls locals)).
  - intros x o. destruct o; cbn [negb]; [apply run_sim|apply sim_sync].
  - fail_now.
  - intros x o. destruct o; cbn [negb]; [apply run_mono|apply mono_refl].
Qed.
Lemma bv_lst_sim w : sim_res (bv_lst run w) (bv_lst run (unl w)).
Proof.
  unfold bv_lst. rewrite unl_lst, unl_wrote. destruct (w_lst w) as [l|]; [|apply sim_sync].
  destruct (w_wrote_lst w); cbn [negb]; [apply sim_sync|]. rewrite unl_set_wrote. apply write_lst_sim.
Qed.
Lemma begin_value_sim w : sim_res (begin_value run w) (begin_value run (unl w)).
Proof.
  rewrite !begin_value_eq. rewrite unl_field, unl_annots, unl_clear.
  apply (sim_bind _ _ (fun w1 ok => bv_tail1 w1 ok (w_field w) (w_annots w))).
  - apply bv_lst_sim.
  - intros; apply bv_tail1_sim.
  - fail_now.
  - intros; apply bv_tail1_mono.
Qed.
Lemma write_value_sim w val : sim_res (write_value run w val) (write_value run (unl w) val).
Proof.
  rewrite !write_value_eq. rewrite unl_err. destruct (w_err w); [apply sim_sync|].
  apply (sim_bind _ _ (fun w1 ok => wv_tail w1 ok val)).
  - apply begin_value_sim.
  - intros; apply wv_tail_sim.
  - fail_now.
  - intros; apply wv_tail_mono.
Qed.
Lemma write_value_chunks_sim w cs : sim_res (write_value_chunks run w cs) (write_value_chunks run (unl w) cs).
Proof.
  rewrite !write_value_chunks_eq. rewrite unl_err. destruct (w_err w); [apply sim_sync|].
  apply (sim_bind _ _ (fun w1 ok => wvc_tail w1 ok cs)).
  - apply begin_value_sim.
  - intros; apply wvc_tail_sim.
  - fail_now.
  - intros; apply wvc_tail_mono.
Qed.
Lemma begin_container_sim w t code : sim_res (begin_container run w t code) (begin_container run (unl w) t code).
Proof.
  rewrite !begin_container_eq. rewrite unl_err. destruct (w_err w); [apply sim_sync|].
  apply (sim_bind _ _ (fun w1 ok => bc_tail w1 ok t code)).
  - apply begin_value_sim.
  - intros; apply bc_tail_sim.
  - fail_now.
  - intros; apply bc_tail_mono.
Qed.
Lemma write_symbol_id_sim w id : sim_res (write_symbol_id run w id) (write_symbol_id run (unl w) id).
Proof. apply write_value_sim. Qed.

Lemma finish_sim w : sim_res (step run w CFinish) (step run (unl w) CFinish).
Proof.
  rewrite !finish_eq. rewrite unl_err, unl_ctx_peek, unl_bufs, unl_lstb. destruct (w_err w); [apply sim_sync|].
  destruct (ctx_peek w =? 0); cbn [negb]; [|apply sim_sync].
  destruct (w_bufs w) as [|q rest]; [left; split; reflexivity|]. destruct rest; [|exact I].
  rewrite unl_clear, unl_set_wrote, unl_set_bufs.
  apply (sim_bind _ _ (fun w1 ok => fin_tail w1 ok q)).
  - apply write_lst_sim.
  - intros; apply fin_tail_sim.
  - fail_now.
  - intros; apply fin_tail_mono.
Qed.

Ltac sim_leaf := first [apply sim_sync | apply write_value_sim | apply write_value_chunks_sim
  | apply begin_container_sim | apply end_container_sim | (left; split; reflexivity)].

Lemma step_sim w c : sim_res (step run w c) (step run (unl w) c).
Proof.
  destruct c; [..|apply finish_sim]; cbn [step]; rewrite ?unl_err, ?unl_in_struct; try sim_leaf.
  - destruct (w_err w); [sim_leaf|]. destruct (in_struct w); cbn [negb]; sim_leaf.
  - destruct (w_err w); sim_leaf.
  - destruct (w_err w); sim_leaf.
  - destruct (w_err w); [sim_leaf|]. destruct (14 <=? t); [sim_leaf|].
    destruct (binary_null t); cbn [bind]; try exact I. sim_leaf.
  - destruct (z =? 0)%Z; sim_leaf.
  - destruct (n =? 0); sim_leaf.
  - destruct (w_err w); [sim_leaf|]. destruct z as [z|]; [|sim_leaf]. destruct (z =? 0)%Z; sim_leaf.
  - destruct (f64_pos_zero bits); [sim_leaf|]. destruct (f64_is_nan bits); [sim_leaf|].
    destruct (uses_f32 bits); sim_leaf.
  - destruct (w_err w); [sim_leaf|]. destruct d as [d|]; [|sim_leaf]. destruct (_ && _); sim_leaf.
  - destruct (w_err w); [sim_leaf|]. destruct (tk_text t) as [x|].
    + rewrite resolve_from_table_unl. destruct (resolve_from_table w x) as [[w1 id] ok1].
      rewrite unl_set_err. destruct ok1; cbn [negb]; [apply write_symbol_id_sim|sim_leaf].
    + destruct (negb (tk_sid t =? -1)%Z); [apply write_symbol_id_sim|sim_leaf].
  - destruct (w_err w); [sim_leaf|].
    rewrite resolve_unl. destruct (resolve w t) as [[w1 id] ok1].
    rewrite unl_set_err. destruct ok1; cbn [negb]; [apply write_symbol_id_sim|sim_leaf].
  - destruct t; sim_leaf.
Qed.
End SimStep.

Lemma run_calls_sim f : forall w cs, sim_res (run_calls f w cs) (run_calls f (unl w) cs).
Proof.
  induction f as [|f IH]; [intros; exact I|].
  intros w cs. revert w. induction cs as [|c cs IHc]; intros w.
  - apply sim_sync.
  - change (run_calls (S f) w (c :: cs)) with
      (do '(w', ok) <- step (run_calls f) w c; if ok then run_calls (S f) w' cs else Ok (w', false)).
    change (run_calls (S f) (unl w) (c :: cs)) with
      (do '(w', ok) <- step (run_calls f) (unl w) c; if ok then run_calls (S f) w' cs else Ok (w', false)).
    apply (sim_bind _ _ (fun w' ok => if ok then run_calls (S f) w' cs else Ok (w', false))).
    + apply step_sim; [apply run_calls_mono|exact IH].
    + intros w1 ok. destruct ok; [apply IHc|apply sim_sync].
    + fail_now.
    + intros w1 ok. destruct ok; [apply run_calls_mono|apply mono_refl].
Qed.

Theorem wstep_sim w c : sim_res (wstep w c) (wstep (unl w) c).
Proof. apply step_sim; [apply run_calls_mono|apply run_calls_sim]. Qed.

(* ---- whole call sequences ----------------------------------------------------------------------------------- *)
Lemma drive_diverged cs w1 w2 w1' w2' r1 r2 : diverged (w_out w1) (w_out w2) ->
  drive_results w1 cs = Ok (w1', r1) -> drive_results w2 cs = Ok (w2', r2) -> diverged (w_out w1') (w_out w2').
Proof.
  intros D H1 H2. apply drive_mono in H1. apply drive_mono in H2.
  eapply diverged_le_l; [|exact H1]. eapply diverged_le; [exact D|exact H2].
Qed.

Theorem drive_sim cs : forall w1 w1' r1 w2' r2,
  drive_results w1 cs = Ok (w1', r1) -> drive_results (unl w1) cs = Ok (w2', r2) ->
  (w2' = unl w1' /\ r2 = r1) \/ (In false r1 /\ diverged (w_out w1') (w_out w2')).
Proof.
  induction cs as [|c cs IH]; intros w1 w1' r1 w2' r2; cbn [drive_results].
  - intros H1 H2. inversion H1; inversion H2; subst. left. split; reflexivity.
  - pose proof (wstep_sim w1 c) as S.
    destruct (wstep w1 c) as [[wa oka]| | |]; cbn [bind]; try discriminate.
    destruct (wstep (unl w1) c) as [[wb okb]| | |]; cbn [bind]; try discriminate.
    destruct (drive_results wa cs) as [[wa' ra]| | |] eqn:Ea; cbn [bind]; try discriminate.
    destruct (drive_results wb cs) as [[wb' rb]| | |] eqn:Eb; cbn [bind]; try discriminate.
    intros H1 H2. inversion H1; inversion H2; subst.
    destruct S as [[S1 S2]|[S1 S2]]; cbn [fst snd] in S1, S2; subst.
    + destruct (IH _ _ _ _ _ Ea Eb) as [[-> ->]|[I D]].
      * left. split; reflexivity.
      * right. split; [right; exact I|exact D].
    + right. split; [left; reflexivity|]. eapply drive_diverged; eauto.
Qed.

(* T1: the chunks accepted before the io.Writer starts failing are a prefix of the fault-free ones *)
Theorem bw_fault_prefix_from w cs w1 r1 w2 r2 :
  drive_results w cs = Ok (w1, r1) -> drive_results (unl w) cs = Ok (w2, r2) ->
  is_prefix (sk_writes (w_out w1)) (sk_writes (w_out w2)).
Proof.
  intros H1 H2. destruct (drive_sim cs _ _ _ _ _ H1 H2) as [[-> _]|[_ [_ P]]]; [apply is_prefix_refl|exact P].
Qed.

Theorem bw_fault_prefix budget cs w1 r1 w2 r2 :
  drive_results (new_writer budget) cs = Ok (w1, r1) -> drive_results (new_writer None) cs = Ok (w2, r2) ->
  is_prefix (sk_writes (w_out w1)) (sk_writes (w_out w2)).
Proof. apply (bw_fault_prefix_from (new_writer budget)). Qed.

Theorem bw_fault_prefix_bytes (k : nat) cs w1 r1 w2 r2 :
  drive_results (new_writer (Some k)) cs = Ok (w1, r1) -> drive_results (new_writer None) cs = Ok (w2, r2) ->
  exists tl, sink_bytes (w_out w2) = sink_bytes (w_out w1) ++ tl.
Proof.
  intros H1 H2. apply is_prefix_concat. eapply bw_fault_prefix; eauto.
Qed.

Theorem bw_fault_prefix_lst budget locals cs w1 r1 w2 r2 :
  drive_results (new_writer_lst budget locals) cs = Ok (w1, r1) ->
  drive_results (new_writer_lst None locals) cs = Ok (w2, r2) ->
  is_prefix (sk_writes (w_out w1)) (sk_writes (w_out w2)).
Proof. apply (bw_fault_prefix_from (new_writer_lst budget locals)). Qed.

(* T1b: no refused write goes unreported *)
Lemma forallb_no_false rs : forallb (fun b : bool => b) rs = true -> ~ In false rs.
Proof.
  intros H I. rewrite forallb_forall in H. specialize (H false I). discriminate.
Qed.

Theorem bw_fault_reported_from w cs w1 r1 w2 r2 :
  drive_results w cs = Ok (w1, r1) -> drive_results (unl w) cs = Ok (w2, r2) ->
  forallb (fun b => b) r1 = true -> w2 = unl w1 /\ r2 = r1.
Proof.
  intros H1 H2 Hall. destruct (drive_sim cs _ _ _ _ _ H1 H2) as [S|[I _]]; [exact S|].
  exfalso. eapply forallb_no_false; eauto.
Qed.

Theorem bw_fault_reported budget cs w1 r1 w2 r2 :
  drive_results (new_writer budget) cs = Ok (w1, r1) -> drive_results (new_writer None) cs = Ok (w2, r2) ->
  forallb (fun b => b) r1 = true ->
  sk_writes (w_out w1) = sk_writes (w_out w2) /\ sink_bytes (w_out w1) = sink_bytes (w_out w2) /\ r1 = r2.
Proof.
  intros H1 H2 Hall.
  destruct (bw_fault_reported_from (new_writer budget) cs _ _ _ _ H1 H2 Hall) as [-> ->].
  split; [reflexivity|]. split; reflexivity.
Qed.

(* T1c: when the budget is smaller than the number of writes of the fault-free run, some call fails *)
Theorem bw_fault_detected (k : nat) cs w1 r1 w2 r2 :
  drive_results (new_writer (Some k)) cs = Ok (w1, r1) -> drive_results (new_writer None) cs = Ok (w2, r2) ->
  (k < length (sk_writes (w_out w2)))%nat -> exists i, nth i r1 true = false.
Proof.
  intros H1 H2 Hk.
  destruct (drive_sim cs (new_writer (Some k)) _ _ _ _ H1 H2) as [[-> _]|[I _]].
  - exfalso. apply drive_mono in H1. destruct H1 as [_ (n' & _ & L)].
    cbn [new_writer w_out sk_writes sk_budget length] in L.
    change (sk_writes (w_out (unl w1))) with (sk_writes (w_out w1)) in Hk. lia.
  - destruct (In_nth _ _ true I) as (i & _ & E). exists i. exact E.
Qed.

(* the failing run never accepts more writes than its budget *)
Theorem bw_budget_respected (k : nat) cs w1 r1 :
  drive_results (new_writer (Some k)) cs = Ok (w1, r1) -> (length (sk_writes (w_out w1)) <= k)%nat.
Proof.
  intros H1. apply drive_mono in H1. destruct H1 as [_ (n' & _ & L)].
  cbn [new_writer w_out sk_writes sk_budget length] in L. lia.
Qed.

(* total form: both runs exist (no panic), so the prefix statement is never vacuous *)
Theorem bw_fault_prefix_total budget cs : exists w1 r1 w2 r2,
  drive_results (new_writer budget) cs = Ok (w1, r1) /\ drive_results (new_writer None) cs = Ok (w2, r2) /\
  is_prefix (sk_writes (w_out w1)) (sk_writes (w_out w2)) /\
  is_prefix (sink_bytes (w_out w1)) (sink_bytes (w_out w2)).
Proof.
  destruct (bw_no_panic cs budget) as (w1 & r1 & H1 & _). destruct (bw_no_panic cs None) as (w2 & r2 & H2 & _).
  exists w1, r1, w2, r2. split; [exact H1|]. split; [exact H2|].
  pose proof (bw_fault_prefix budget cs _ _ _ _ H1 H2) as P. split; [exact P|apply is_prefix_concat; exact P].
Qed.

(* ---- T3: what a successful Finish leaves behind ------------------------------------------------------------- *)
Definition same_pending (w w' : wstate) : Prop :=
  w_field w' = w_field w /\ w_annots w' = w_annots w /\ w_err w' = w_err w.

Lemma emit_pending w n w' ok : emit w n = (w', ok) -> same_pending w w'.
Proof.
  unfold emit. destruct (w_bufs w) as [|q r].
  - destruct (sink_write_all (w_out w) (nd_chunks n)) as [k o]. intros H; inversion H; subst. repeat split.
  - intros H; inversion H; subst. repeat split.
Qed.
Lemma end_value_pending w w' ok : end_value w = (w', ok) -> same_pending w w'.
Proof.
  unfold end_value. destruct (w_bufs w) as [|q rest]; [intros H; inversion H; repeat split|].
  destruct (bs_code q) as [c|]; [|intros H; inversion H; repeat split].
  destruct (c =? 224); [|intros H; inversion H; repeat split].
  intros H. apply emit_pending in H. exact H.
Qed.

Lemma end_container_true w t w' : end_container w t = Ok (w', true) ->
  w_err w' = false /\ w_field w' = None /\ w_annots w' = [].
Proof.
  rewrite end_container_eq. destruct (w_err w); [discriminate|].
  destruct (ctx_peek w =? t); cbn [negb]; [|discriminate].
  destruct (ec_emit w) as [w1 ok1]. unfold ec_tail. destruct ok1; cbn [negb]; [|discriminate].
  destruct (w_ctx (clear w1)) as [|c0 c]; [discriminate|].
  destruct (end_value (set_ctx (clear w1) c)) as [w2 ok2] eqn:E. apply end_value_pending in E.
  destruct E as (F & A & _). intros H. inversion H; subst. cbn. split; [reflexivity|]. split; [exact F|exact A].
Qed.

Lemma run_calls_cons f w c cs :
  run_calls (S f) w (c :: cs) =
  do '(w', ok) <- step (run_calls f) w c; if ok then run_calls (S f) w' cs else Ok (w', false).
Proof. reflexivity. Qed.

Lemma run_calls_app f l1 : forall l2 w,
  run_calls (S f) w (l1 ++ l2) =
  do '(w1, ok) <- run_calls (S f) w l1; if ok then run_calls (S f) w1 l2 else Ok (w1, false).
Proof.
  induction l1 as [|c l1 IH]; intros l2 w.
  - reflexivity.
  - rewrite <- app_comm_cons, !run_calls_cons.
    destruct (step (run_calls f) w c) as [[w1 ok]| | |]; cbn [bind]; try reflexivity.
    destruct ok; [apply IH|reflexivity].
Qed.

Lemma run_calls_last f l c w w' :
  run_calls (S f) w (l ++ [c]) = Ok (w', true) -> exists w1, step (run_calls f) w1 c = Ok (w', true).
Proof.
  rewrite run_calls_app. destruct (run_calls (S f) w l) as [[w1 ok]| | |]; cbn [bind]; try discriminate.
  destruct ok; [|discriminate]. rewrite run_calls_cons.
  destruct (step (run_calls f) w1 c) as [[w2 ok2]| | |] eqn:E; cbn [bind]; try discriminate.
  destruct ok2; [|discriminate]. intros H; inversion H; subst. exists w1. exact E.
Qed.

(* writing the symbol table through the writer: on success nothing is pending *)
Lemma lst_run_true f l w w' : run_calls (S f) w (lst_calls l) = Ok (w', true) ->
  w_err w = false -> w_field w = None -> w_annots w = [] ->
  w_err w' = false /\ w_field w' = None /\ w_annots w' = [].
Proof.
  unfold lst_calls. destruct l as [|t l].
  - intros H; inversion H; subst. auto.
  - change [CEndList; CEndStruct] with ([CEndList] ++ [CEndStruct]). rewrite !app_assoc.
    intros H _ _ _. apply run_calls_last in H. destruct H as (w1 & H). cbn [step] in H.
    eapply end_container_true; exact H.
Qed.

Theorem finish_true f w w' : builder w -> Inv w -> NZ w ->
  step (run_calls (S f)) w CFinish = Ok (w', true) ->
  w_err w' = false /\ w_ctx w' = [] /\ w_field w' = None /\ w_annots w' = [] /\
  (w_bufs w <> [] -> w_bufs w' = [new_seq None]).
Proof.
  intros HB HI HN. rewrite finish_eq. destruct (w_err w) eqn:E; [discriminate|].
  destruct (ctx_peek w =? 0) eqn:Ep; cbn [negb]; [|discriminate].
  destruct HI as [HI|(Hfr & Hwf)]; [congruence|].
  destruct HN as [HN|HN]; [congruence|].
  assert (Ec : w_ctx w = []).
  { unfold ctx_peek in Ep. destruct (w_ctx w) as [|c ctx]; [reflexivity|].
    apply N.eqb_eq in Ep. inversion HN; subst. unfold nz in *. congruence. }
  rewrite Ec in Hfr. cbn [frames] in Hfr.
  destruct (w_bufs w) as [|q rest] eqn:Eb.
  - intros H; inversion H; subst. cbn. split; [exact E|]. split; [exact Ec|]. split; [reflexivity|].
    split; [reflexivity|]. intros X. congruence.
  - destruct Hfr as [Hfr|Hfr]; [discriminate|].
    cbn [codes map] in Hfr. destruct rest as [|q2 rest2]; [|discriminate].
    inversion Hwf as [|? ? Hwq _]; subst.
    set (w1 := set_bufs (set_wrote (clear w) false) []).
    unfold write_lst.
    destruct (write w1 [224; 1; 0; 234]) as [w2 ok2] eqn:Ew.
    destruct (write_ext _ _ _ _ Ew) as (A2 & L2 & X2 & _). cbn in A2, L2, X2.
    destruct (emit_pending _ _ _ _ Ew) as (F2 & N2 & E2). cbn in F2, N2, E2.
    assert (B2 : w_bufs w2 = []).
    { destruct X2 as [[_ X]|(q0 & ? & ? & X & _)]; [exact X|discriminate]. }
    destruct ok2; cbn [negb bind]; [|discriminate].
    assert (HB2 : builder w2) by (unfold builder in *; congruence).
    assert (HI2 : Inv w2).
    { right. rewrite A2, B2, Ec. cbn. split; [left; reflexivity|constructor]. }
    assert (HN2 : NZ w2) by (right; rewrite A2, Ec; constructor).
    destruct (run_calls_inv f (lst_calls (w_lstb w)) w2 HB2 HI2 HN2 (lst_calls_no_finish _))
      as (w3 & ok3 & E3 & I3 & B3 & N3 & C3).
    rewrite E3. cbn [bind]. unfold fin_tail. destruct ok3; cbn [negb]; [|discriminate].
    specialize (C3 eq_refl). rewrite A2, Ec, lst_calls_ctx in C3.
    destruct (lst_run_true _ _ _ _ E3 ltac:(congruence) F2 N2) as (E3' & F3 & N3').
    destruct (emit w3 (node_of_seq q)) as [w4 ok4] eqn:Ee.
    destruct (emit_ext _ _ _ _ (wf_node_of_seq q Hwq) Ee) as (A4 & _ & _ & _).
    destruct (emit_pending _ _ _ _ Ee) as (F4 & N4 & E4).
    destruct ok4; cbn [negb]; [|discriminate].
    intros H; inversion H; subst. cbn.
    split; [congruence|]. split; [congruence|]. split; [congruence|]. split; [congruence|]. reflexivity.
Qed.

Theorem bw_finish_clean w w' : builder w -> Inv w -> NZ w ->
  wstep w CFinish = Ok (w', true) ->
  w_err w' = false /\ w_ctx w' = [] /\ w_field w' = None /\ w_annots w' = [] /\
  (w_bufs w <> [] -> w_bufs w' = [new_seq None]).
Proof. apply (finish_true 1). Qed.

(* ---- T2: the fixed-table writer (NewBinaryWriterLST) ------------------------------------------------------------ *)
(* what the symbol-table side of the state may do during a call: the fixed table and wroteLST stay,
   and with a fixed table the builder is never touched *)
Definition same_mode (w w' : wstate) : Prop :=
  w_lst w' = w_lst w /\ w_wrote_lst w' = w_wrote_lst w /\ (w_lst w <> None -> w_lstb w' = w_lstb w).

Lemma same_mode_of w w' : w_lst w' = w_lst w -> w_wrote_lst w' = w_wrote_lst w -> w_lstb w' = w_lstb w ->
  same_mode w w'.
Proof. intros A B C. split; [exact A|]. split; [exact B|]. intros _. exact C. Qed.
Lemma same_mode_refl w : same_mode w w.
Proof. apply same_mode_of; reflexivity. Qed.
Lemma same_mode_trans a b c : same_mode a b -> same_mode b c -> same_mode a c.
Proof.
  intros (A1 & A2 & A3) (B1 & B2 & B3). split; [congruence|]. split; [congruence|].
  intros H. rewrite B3; [apply A3; exact H|]. rewrite A1. exact H.
Qed.

Lemma emit_mode w n w' ok : emit w n = (w', ok) -> same_mode w w'.
Proof.
  unfold emit. destruct (w_bufs w) as [|q r].
  - destruct (sink_write_all (w_out w) (nd_chunks n)) as [k o]. intros H; inversion H; subst.
    apply same_mode_of; reflexivity.
  - intros H; inversion H; subst. apply same_mode_of; reflexivity.
Qed.
Lemma end_value_mode w w' ok : end_value w = (w', ok) -> same_mode w w'.
Proof.
  unfold end_value. destruct (w_bufs w) as [|q rest]; [intros H; inversion H; apply same_mode_refl|].
  destruct (bs_code q) as [c|]; [|intros H; inversion H; apply same_mode_refl].
  destruct (c =? 224); [|intros H; inversion H; apply same_mode_refl].
  intros H. apply emit_mode in H. exact H.
Qed.
Lemma resolve_from_table_mode w t w' id ok : resolve_from_table w t = (w', id, ok) -> same_mode w w'.
Proof.
  unfold resolve_from_table. destruct (w_lst w) eqn:EL.
  - destruct (find_by_name l true t); intros H; inversion H; subst; apply same_mode_refl.
  - destruct (find_by_name (w_lstb w) false t); intros H; inversion H; subst; [apply same_mode_refl|].
    split; [reflexivity|]. split; [reflexivity|]. intros X. congruence.
Qed.
Lemma resolve_mode w t w' id ok : resolve w t = (w', id, ok) -> same_mode w w'.
Proof.
  unfold resolve. destruct (symbol_identifier t).
  - intros H; inversion H; subst; apply same_mode_refl.
  - apply resolve_from_table_mode.
Qed.
Lemma id_of_tok_field_mode w t w' id : id_of_tok_field w t = Some (w', id) -> same_mode w w'.
Proof.
  unfold id_of_tok_field. destruct (tk_text t).
  - destruct (resolve_from_table w t0) as [[w1 i] ok] eqn:E. destruct ok; [|discriminate].
    intros H; inversion H; subst. eapply resolve_from_table_mode; exact E.
  - destruct (negb (tk_sid t =? -1)%Z); [|discriminate]. intros H; inversion H; subst; apply same_mode_refl.
Qed.
Lemma id_of_tok_annot_mode w t w' id : id_of_tok_annot w t = Some (w', id) -> same_mode w w'.
Proof.
  unfold id_of_tok_annot. destruct (tk_text t).
  - destruct (resolve_from_table w t0) as [[w1 i] ok] eqn:E. destruct ok; [|discriminate].
    intros H; inversion H; subst. eapply resolve_from_table_mode; exact E.
  - destruct (negb (tk_sid t =? -1)%Z); [|discriminate]. intros H; inversion H; subst; apply same_mode_refl.
Qed.
Lemma annot_ids_mode ts : forall w w' r, annot_ids w ts = (w', r) -> same_mode w w'.
Proof.
  induction ts as [|t ts IH]; intros w w' r; cbn [annot_ids].
  - intros H; inversion H; subst; apply same_mode_refl.
  - destruct (id_of_tok_annot w t) as [[w1 i]|] eqn:E.
    + apply id_of_tok_annot_mode in E.
      destruct (annot_ids w1 ts) as [w2 [ids|]] eqn:E2; apply IH in E2; intros H; inversion H; subst;
        eapply same_mode_trans; eauto.
    + intros H; inversion H; subst; apply same_mode_refl.
Qed.

(* the buffer stack after beginValue, relative to a well-formed stack [b0] that matches the context:
   [b0] with its head extended, or the value's annotation wrapper on top of that *)
Definition shape (b0 : list bufseq) (w' : wstate) : Prop :=
  ext b0 (w_bufs w') \/
  exists e b1, w_bufs w' = e :: b1 /\ bs_code e = Some 224 /\ wf_seq e /\ ext b0 b1.
Definition bv_post2 (ctx : list N) (w' : wstate) : Prop :=
  w_ctx w' = ctx /\ exists b0, frames ctx (codes b0) /\ Forall wf_seq b0 /\ shape b0 w'.

Lemma shape_write b0 w1 w2 : shape b0 w1 -> ext (w_bufs w1) (w_bufs w2) -> shape b0 w2.
Proof.
  intros [Hx|(e & b1 & Eb & Hc & He & Hx)] X.
  - left. eapply ext_trans; eauto.
  - right. rewrite Eb in X. destruct X as [[X _]|(q & q' & r & Eq & Eq' & Hcq & Hw)]; [discriminate|].
    inversion Eq; subst q r. exists q', b1. split; [exact Eq'|]. split; [congruence|]. split; [auto|exact Hx].
Qed.
Lemma shape_wf b0 w1 : Forall wf_seq b0 -> shape b0 w1 -> Forall wf_seq (w_bufs w1).
Proof.
  intros W [Hx|(e & b1 & Eb & Hc & He & Hx)].
  - eapply ext_wf; eauto.
  - rewrite Eb. constructor; [exact He|eapply ext_wf; eauto].
Qed.

Lemma bv_field_spec w nm : exists w1 ok1, bv_field w nm = Ok (w1, ok1) /\ same_mode w w1 /\
  w_ctx w1 = w_ctx w /\ (ok1 = true -> ext (w_bufs w) (w_bufs w1)).
Proof.
  unfold bv_field. destruct (in_struct w).
  - destruct nm as [nm|].
    + destruct (id_of_tok_field w nm) as [[w' id]|] eqn:E.
      * destruct (id_of_tok_field_frame _ _ _ _ E) as (A & B & C).
        pose proof (id_of_tok_field_mode _ _ _ _ E) as Md.
        destruct (write w' (append_varuint [] id)) as [w1 ok1] eqn:Ew.
        destruct (write_ext _ _ _ _ Ew) as (A1 & B1 & C1 & _). pose proof (emit_mode _ _ _ _ Ew) as Md1.
        exists w1, ok1. split; [reflexivity|]. split; [eapply same_mode_trans; eauto|].
        split; [congruence|]. intros _. rewrite <- B. exact C1.
      * exists w, false. split; [reflexivity|]. split; [apply same_mode_refl|]. split; [reflexivity|discriminate].
    + exists w, false. split; [reflexivity|]. split; [apply same_mode_refl|]. split; [reflexivity|discriminate].
  - exists w, true. split; [reflexivity|]. split; [apply same_mode_refl|]. split; [reflexivity|].
    intros _. apply ext_refl.
Qed.

Lemma bv_annots_spec w a : exists w' ok, bv_annots w a = Ok (w', ok) /\ same_mode w w' /\
  w_ctx w' = w_ctx w /\ (ok = true -> shape (w_bufs w) w').
Proof.
  unfold bv_annots. destruct a as [|t a].
  - exists w, true. split; [reflexivity|]. split; [apply same_mode_refl|]. split; [reflexivity|].
    intros _. left. apply ext_refl.
  - destruct (annot_ids w (t :: a)) as [w2 [ids|]] eqn:E2.
    + destruct (annot_ids_frame _ _ _ _ E2) as (A2 & B2 & C2). pose proof (annot_ids_mode _ _ _ _ E2) as Md2.
      match goal with |- context [write ?ww ?bb] => destruct (write ww bb) as [w3 ok3] eqn:Ew end.
      destruct (write_ext _ _ _ _ Ew) as (A3 & B3 & C3 & D3). cbn in A3, B3, C3, D3.
      pose proof (emit_mode _ _ _ _ Ew) as Md3.
      exists w3, ok3. split; [reflexivity|].
      split; [eapply same_mode_trans; [exact Md2|]; eapply same_mode_trans; [|exact Md3]; apply same_mode_of; reflexivity|].
      split; [congruence|]. intros _. right.
      destruct C3 as [[C3 _]|(q & q' & r & Eq & Eq' & Hc & Hw)]; [discriminate|].
      inversion Eq; subst q r. exists q', (w_bufs w2).
      split; [exact Eq'|]. split; [rewrite Hc; reflexivity|]. split; [apply Hw; apply wf_new_seq|].
      rewrite B2. apply ext_refl.
    + destruct (annot_ids_frame _ _ _ _ E2) as (A2 & B2 & C2). pose proof (annot_ids_mode _ _ _ _ E2) as Md2.
      exists w2, false. split; [reflexivity|]. split; [exact Md2|]. split; [exact A2|discriminate].
Qed.

Lemma bv_tail1_spec w nm a : exists w' ok, bv_tail1 w true nm a = Ok (w', ok) /\ same_mode w w' /\
  w_ctx w' = w_ctx w /\ (ok = true -> shape (w_bufs w) w').
Proof.
  unfold bv_tail1. cbn [negb].
  destruct (bv_field_spec w nm) as (w1 & ok1 & -> & M1 & C1 & X1). cbn [bind]. unfold bv_tail2.
  destruct ok1; cbn [negb].
  2:{ exists w1, false. split; [reflexivity|]. split; [exact M1|]. split; [exact C1|discriminate]. }
  destruct (bv_annots_spec w1 a) as (w2 & ok2 & -> & M2 & C2 & X2).
  exists w2, ok2. split; [reflexivity|]. split; [eapply same_mode_trans; eauto|]. split; [congruence|].
  intros Hk. specialize (X1 eq_refl). destruct (X2 Hk) as [Hx|(e & b1 & Eb & Hc & He & Hx)].
  - left. eapply ext_trans; eauto.
  - right. exists e, b1. split; [exact Eb|]. split; [exact Hc|]. split; [exact He|eapply ext_trans; eauto].
Qed.

(* after the value's bytes: endValue pops exactly the value's wrapper *)
Lemma ev_tail_spec ctx b0 w2 ok : frames ctx (codes b0) -> Forall wf_seq b0 -> w_ctx w2 = ctx -> shape b0 w2 ->
  exists w' ok', ev_tail w2 ok = Ok (w', ok') /\ same_mode w2 w' /\ w_ctx w' = ctx /\ Inv w'.
Proof.
  intros Hfr Hwf Hc Hsh. unfold ev_tail. destruct ok; cbn [negb].
  2:{ eexists _, false. split; [reflexivity|]. split; [apply same_mode_of; reflexivity|].
      split; [exact Hc|apply Inv_err; reflexivity]. }
  destruct (end_value w2) as [w3 ok3] eqn:Ee. pose proof (end_value_mode _ _ _ Ee) as Md.
  assert (Hsh' : ext b0 (w_bufs w2) \/ exists e b1, w_bufs w2 = e :: b1 /\ bs_code e = Some 224 /\ ext b0 b1).
  { destruct Hsh as [Hx|(e & b1 & Eb & Hc' & He & Hx)]; [left; exact Hx|right; exists e, b1; auto]. }
  destruct (value_tail w2 w3 ok3 (shape_wf _ _ Hwf Hsh) Ee ctx b0 Hc Hfr Hwf Hsh') as (C3 & L3 & F3).
  exists (set_err w3 (negb ok3)), ok3. split; [reflexivity|].
  split; [eapply same_mode_trans; [exact Md|apply same_mode_of; reflexivity]|]. split; [exact C3|].
  destruct ok3; cbn [negb]; [|apply Inv_err; reflexivity].
  right. cbn. rewrite C3. apply F3. reflexivity.
Qed.

Lemma wv_tail_spec ctx w1 val : bv_post2 ctx w1 ->
  exists w' ok, wv_tail w1 true val = Ok (w', ok) /\ same_mode w1 w' /\ w_ctx w' = ctx /\ Inv w'.
Proof.
  intros (Hc & b0 & Hfr & Hwf & Hsh). rewrite wv_tail_eq. cbn [negb].
  destruct (write w1 val) as [w2 ok2] eqn:Ew.
  destruct (write_ext _ _ _ _ Ew) as (C2 & _ & X2 & _). pose proof (emit_mode _ _ _ _ Ew) as Md.
  destruct (ev_tail_spec ctx b0 w2 ok2 Hfr Hwf ltac:(congruence) (shape_write _ _ _ Hsh X2))
    as (w' & ok' & E & Md' & C' & I').
  exists w', ok'. split; [exact E|]. split; [eapply same_mode_trans; eauto|]. split; [exact C'|exact I'].
Qed.

Lemma write_chunks_mode cs : forall w ok w' ok', write_chunks (w, ok) cs = (w', ok') -> same_mode w w'.
Proof.
  unfold write_chunks. induction cs as [|c cs IH]; intros w ok w' ok'; cbn [fold_left].
  - intros H; inversion H; subst. apply same_mode_refl.
  - destruct ok; [|apply IH]. destruct (write w c) as [w1 ok1] eqn:E. apply emit_mode in E.
    intros H. apply IH in H. eapply same_mode_trans; eauto.
Qed.

Lemma wvc_tail_spec ctx w1 cs : bv_post2 ctx w1 ->
  exists w' ok, wvc_tail w1 true cs = Ok (w', ok) /\ same_mode w1 w' /\ w_ctx w' = ctx /\ Inv w'.
Proof.
  intros (Hc & b0 & Hfr & Hwf & Hsh). rewrite wvc_tail_eq. cbn [negb].
  destruct (write_chunks (w1, true) cs) as [w2 ok2] eqn:Ew.
  destruct (write_chunks_ext _ _ _ _ _ Ew) as (C2 & _ & X2). pose proof (write_chunks_mode _ _ _ _ _ Ew) as Md.
  destruct (ev_tail_spec ctx b0 w2 ok2 Hfr Hwf ltac:(congruence) (shape_write _ _ _ Hsh X2))
    as (w' & ok' & E & Md' & C' & I').
  exists w', ok'. split; [exact E|]. split; [eapply same_mode_trans; eauto|]. split; [exact C'|exact I'].
Qed.

Lemma bc_tail_spec ctx w1 t code : bv_post2 ctx w1 -> code <> 224 ->
  exists w', bc_tail w1 true t code = Ok (w', true) /\ same_mode w1 w' /\ w_ctx w' = t :: ctx /\ Inv w'.
Proof.
  intros (Hc & b0 & Hfr & Hwf & Hsh) Hcode. unfold bc_tail. cbn [negb].
  eexists. split; [reflexivity|]. split; [apply same_mode_of; reflexivity|].
  split; [cbn; rewrite Hc; reflexivity|]. right. cbn. split.
  - exists code, (codes (w_bufs w1)). split; [reflexivity|]. split; [exact Hcode|].
    rewrite Hc. destruct Hsh as [Hx | (e & b1 & Eb & Hc' & He & Hx)].
    + left. eapply frames_ext; eauto.
    + right. exists (codes b1). rewrite Eb. cbn. rewrite Hc'. split; [reflexivity|]. eapply frames_ext; eauto.
  - constructor; [apply wf_new_seq|]. eapply shape_wf; eauto.
Qed.

Lemma end_container_gen w t : Inv w -> t <> 0 ->
  exists w' ok, end_container w t = Ok (w', ok) /\ Inv w' /\ same_mode w w' /\
                (ok = true -> w_ctx w = t :: w_ctx w').
Proof.
  intros HI Ht. unfold end_container. destruct (w_err w) eqn:E.
  { exists w, false. split; [reflexivity|]. split; [exact HI|]. split; [apply same_mode_refl|discriminate]. }
  destruct HI as [HI|(Hfr & Hwf)]; [congruence|].
  destruct (ctx_peek w =? t) eqn:Ep; cbn [negb].
  2:{ exists (set_err w true), false. split; [reflexivity|]. split; [apply Inv_err; reflexivity|].
      split; [apply same_mode_of; reflexivity|discriminate]. }
  destruct (ctx_peek_nonzero w t Ht Ep) as (ctx' & Ec).
  rewrite Ec in Hfr. cbn [frames] in Hfr. destruct Hfr as (k & rest & Hcodes & Hk & Hrest).
  destruct (w_bufs w) as [|q bufs'] eqn:Eb; [discriminate|].
  cbn [codes map] in Hcodes. inversion Hcodes as [[Hq Hr]].
  inversion Hwf as [|? ? Hwq Hwr]; subst.
  destruct (emit (set_bufs w bufs') (node_of_seq q)) as [w1 ok1] eqn:Ee.
  destruct (emit_ext _ _ _ _ (wf_node_of_seq q Hwq) Ee) as (A1 & B1 & X1 & _). cbn in A1, B1, X1.
  assert (Md : same_mode w w1).
  { eapply same_mode_trans; [|exact (emit_mode _ _ _ _ Ee)]. apply same_mode_of; reflexivity. }
  destruct ok1; cbn [negb].
  2:{ exists (set_err w1 true), false. split; [reflexivity|]. split; [apply Inv_err; reflexivity|].
      split; [eapply same_mode_trans; [exact Md|apply same_mode_of; reflexivity]|discriminate]. }
  assert (Ec1 : w_ctx (clear w1) = t :: ctx') by (cbn; congruence).
  rewrite Ec1.
  destruct (end_value (set_ctx (clear w1) ctx')) as [w2 ok2] eqn:Ev.
  assert (Hwf1 : Forall wf_seq (w_bufs (set_ctx (clear w1) ctx'))) by (cbn; eapply ext_wf; eauto).
  assert (Hsh : exists b0, frames ctx' (codes b0) /\ Forall wf_seq b0 /\
           (ext b0 (w_bufs (set_ctx (clear w1) ctx')) \/
            exists e b1, w_bufs (set_ctx (clear w1) ctx') = e :: b1 /\ bs_code e = Some 224 /\ ext b0 b1)).
  { cbn. destruct Hrest as [Hf | (rest' & Er & Hf)].
    - exists bufs'. split; [exact Hf|]. split; [exact Hwr|]. left. exact X1.
    - destruct bufs' as [|e b1]; [discriminate|]. cbn [codes map] in Er. injection Er as He Hb1.
      inversion Hwr as [|? ? Hwe Hwb1]. exists b1. split; [unfold codes; rewrite Hb1; exact Hf|].
      split; [exact Hwb1|]. right.
      destruct X1 as [[X _]|(q1 & q1' & r1 & Eq1 & Eq1' & Hc1 & _)]; [discriminate|].
      injection Eq1 as Eq1a Eq1b. exists q1', b1. split; [rewrite Eq1', Eq1b; reflexivity|].
      split; [congruence|apply ext_refl]. }
  destruct Hsh as (b0 & Hf0 & Hw0 & Hs0).
  destruct (value_tail _ _ _ Hwf1 Ev ctx' b0 ltac:(reflexivity) Hf0 Hw0 Hs0) as (C3 & L3 & F3).
  exists (set_err w2 (negb ok2)), ok2. split; [reflexivity|]. split; [|split].
  - destruct ok2; cbn [negb]; [|apply Inv_err; reflexivity].
    right. cbn. rewrite C3. apply F3. reflexivity.
  - eapply same_mode_trans; [exact Md|].
    eapply same_mode_trans; [|eapply same_mode_trans; [exact (end_value_mode _ _ _ Ev)|apply same_mode_of; reflexivity]].
    apply same_mode_of; reflexivity.
  - intros _. cbn. rewrite C3. exact Ec.
Qed.

Section Gen.
Variable run : wstate -> list wcall -> res ret.
Variable M : wstate -> Prop.
Hypothesis M_mode : forall w w', same_mode w w' -> M w -> M w'.
(* the table-writing stage of beginValue keeps the stack in step with the context *)
Hypothesis H_lst : forall w, M w -> w_err w = false ->
  frames (w_ctx w) (codes (w_bufs w)) -> Forall wf_seq (w_bufs w) -> Forall nz (w_ctx w) ->
  exists w1 ok, bv_lst run w = Ok (w1, ok) /\ M w1 /\
    (ok = true -> w_ctx w1 = w_ctx w /\ frames (w_ctx w) (codes (w_bufs w1)) /\ Forall wf_seq (w_bufs w1)).

Lemma begin_value_gen w : M w -> w_err w = false ->
  frames (w_ctx w) (codes (w_bufs w)) -> Forall wf_seq (w_bufs w) -> Forall nz (w_ctx w) ->
  exists w' ok, begin_value run w = Ok (w', ok) /\ M w' /\
                (ok = true -> bv_post2 (w_ctx w) w').
Proof.
  intros HM E Hfr Hwf Hnz. rewrite begin_value_eq.
  assert (HM0 : M (clear w)) by (eapply M_mode; [|exact HM]; apply same_mode_of; reflexivity).
  destruct (H_lst (clear w) HM0 E Hfr Hwf Hnz) as (w1 & ok1 & -> & M1 & P1). cbn [bind].
  change (w_ctx (clear w)) with (w_ctx w) in *.
  destruct ok1.
  2:{ exists w1, false. split; [reflexivity|]. split; [exact M1|discriminate]. }
  destruct (P1 eq_refl) as (C1 & Hfr1 & Hwf1).
  destruct (bv_tail1_spec w1 (w_field w) (w_annots w)) as (w2 & ok2 & -> & Md & C2 & Sh).
  exists w2, ok2. split; [reflexivity|]. split; [eapply M_mode; eauto|].
  intros Hk. split; [congruence|]. exists (w_bufs w1). split; [exact Hfr1|]. split; [exact Hwf1|apply Sh; exact Hk].
Qed.

Lemma nz_of w : NZ w -> w_err w = false -> Forall nz (w_ctx w).
Proof. intros [H|H] E; [congruence|exact H]. Qed.

Lemma write_value_gen w val : M w -> Inv w -> NZ w ->
  exists w' ok, write_value run w val = Ok (w', ok) /\ Inv w' /\ M w' /\ (ok = true -> w_ctx w' = w_ctx w).
Proof.
  intros HM HI HN. rewrite write_value_eq. destruct (w_err w) eqn:E.
  { exists w, false. split; [reflexivity|]. split; [exact HI|]. split; [exact HM|reflexivity]. }
  destruct HI as [HI|(Hfr & Hwf)]; [congruence|].
  destruct (begin_value_gen w HM E Hfr Hwf (nz_of w HN E)) as (w1 & ok1 & -> & M1 & P1). cbn [bind].
  destruct ok1.
  2:{ exists (set_err w1 true), false. split; [reflexivity|]. split; [apply Inv_err; reflexivity|].
      split; [eapply M_mode; [|exact M1]; apply same_mode_of; reflexivity|discriminate]. }
  destruct (wv_tail_spec _ _ val (P1 eq_refl)) as (w' & ok & -> & Md & C' & I').
  exists w', ok. split; [reflexivity|]. split; [exact I'|]. split; [eapply M_mode; eauto|intros _; exact C'].
Qed.

Lemma write_value_chunks_gen w cs : M w -> Inv w -> NZ w ->
  exists w' ok, write_value_chunks run w cs = Ok (w', ok) /\ Inv w' /\ M w' /\ (ok = true -> w_ctx w' = w_ctx w).
Proof.
  intros HM HI HN. rewrite write_value_chunks_eq. destruct (w_err w) eqn:E.
  { exists w, false. split; [reflexivity|]. split; [exact HI|]. split; [exact HM|reflexivity]. }
  destruct HI as [HI|(Hfr & Hwf)]; [congruence|].
  destruct (begin_value_gen w HM E Hfr Hwf (nz_of w HN E)) as (w1 & ok1 & -> & M1 & P1). cbn [bind].
  destruct ok1.
  2:{ exists (set_err w1 true), false. split; [reflexivity|]. split; [apply Inv_err; reflexivity|].
      split; [eapply M_mode; [|exact M1]; apply same_mode_of; reflexivity|discriminate]. }
  destruct (wvc_tail_spec _ _ cs (P1 eq_refl)) as (w' & ok & -> & Md & C' & I').
  exists w', ok. split; [reflexivity|]. split; [exact I'|]. split; [eapply M_mode; eauto|intros _; exact C'].
Qed.

Lemma begin_container_gen w t code : M w -> Inv w -> NZ w -> code <> 224 ->
  exists w' ok, begin_container run w t code = Ok (w', ok) /\ Inv w' /\ M w' /\
                (ok = true -> w_ctx w' = t :: w_ctx w).
Proof.
  intros HM HI HN Hcode. rewrite begin_container_eq. destruct (w_err w) eqn:E.
  { exists w, false. split; [reflexivity|]. split; [exact HI|]. split; [exact HM|discriminate]. }
  destruct HI as [HI|(Hfr & Hwf)]; [congruence|].
  destruct (begin_value_gen w HM E Hfr Hwf (nz_of w HN E)) as (w1 & ok1 & -> & M1 & P1). cbn [bind].
  destruct ok1.
  2:{ exists (set_err w1 true), false. split; [reflexivity|]. split; [apply Inv_err; reflexivity|].
      split; [eapply M_mode; [|exact M1]; apply same_mode_of; reflexivity|discriminate]. }
  destruct (bc_tail_spec _ _ t code (P1 eq_refl) Hcode) as (w' & -> & Md & C' & I').
  exists w', true. split; [reflexivity|]. split; [exact I'|]. split; [eapply M_mode; eauto|intros _; exact C'].
Qed.

Lemma end_container_genM w t : M w -> Inv w -> t <> 0 ->
  exists w' ok, end_container w t = Ok (w', ok) /\ Inv w' /\ M w' /\ (ok = true -> w_ctx w = t :: w_ctx w').
Proof.
  intros HM HI Ht. destruct (end_container_gen w t HI Ht) as (w' & ok & E & I' & Md & C).
  exists w', ok. split; [exact E|]. split; [exact I'|]. split; [eapply M_mode; eauto|exact C].
Qed.

Definition step_okM (w : wstate) (c : wcall) : Prop :=
  exists w' ok, step run w c = Ok (w', ok) /\ Inv w' /\ M w' /\
                (ok = true -> w_ctx w' = ctx_after c (w_ctx w)).

Ltac g_value H := destruct H as (w' & ok & -> & HI' & HM' & HC'); exists w', ok;
  split; [reflexivity|]; split; [exact HI'|]; split; [exact HM'|]; exact HC'.
Ltac g_fail HM := eexists _, false; split; [reflexivity|]; split; [apply Inv_err; reflexivity|];
  split; [eapply M_mode; [|exact HM]; apply same_mode_of; reflexivity|discriminate].
Ltac g_same w HI HM := exists w, false; split; [reflexivity|]; split; [exact HI|]; split; [exact HM|discriminate].
Ltac g_wv w HM HI HN :=
  match goal with |- context [write_value run w ?v] => g_value (write_value_gen w v HM HI HN) end.
Ltac g_wvc w HM HI HN :=
  match goal with |- context [write_value_chunks run w ?v] => g_value (write_value_chunks_gen w v HM HI HN) end.

Lemma step_gen0 w c : M w -> Inv w -> NZ w -> c <> CFinish -> step_okM w c.
Proof.
  intros HM HI HN Hc. unfold step_okM.
  destruct c; cbn [step]; try congruence.
  - (* FieldName *)
    destruct (w_err w) eqn:E; [g_same w HI HM|].
    destruct (in_struct w); cbn [negb].
    + eexists _, true. split; [reflexivity|]. split; [eapply Inv_of; eauto|].
      split; [eapply M_mode; [|exact HM]; apply same_mode_of; reflexivity|]. intros _. reflexivity.
    + g_fail HM.
  - destruct (w_err w) eqn:E; [g_same w HI HM|].
    eexists _, true. split; [reflexivity|]. split; [eapply Inv_of; eauto|].
    split; [eapply M_mode; [|exact HM]; apply same_mode_of; reflexivity|intros _; reflexivity].
  - destruct (w_err w) eqn:E; [g_same w HI HM|].
    eexists _, true. split; [reflexivity|]. split; [eapply Inv_of; eauto|].
    split; [eapply M_mode; [|exact HM]; apply same_mode_of; reflexivity|intros _; reflexivity].
  - g_wv w HM HI HN.
  - (* NullType *)
    destruct (w_err w) eqn:E; [g_same w HI HM|].
    destruct (14 <=? t) eqn:E14.
    + g_fail HM.
    + destruct (binary_null_ok t ltac:(lia)) as (b & ->). cbn [bind]. g_wv w HM HI HN.
  - g_wv w HM HI HN.
  - destruct (z =? 0)%Z; g_wv w HM HI HN.
  - destruct (n =? 0); g_wv w HM HI HN.
  - (* BigInt *)
    destruct (w_err w) eqn:E; [g_same w HI HM|].
    destruct z as [z|].
    + destruct (z =? 0)%Z; g_wvc w HM HI HN.
    + g_fail HM.
  - (* Float *)
    destruct (f64_pos_zero bits); [g_wv w HM HI HN|].
    destruct (f64_is_nan bits); [g_wv w HM HI HN|].
    destruct (uses_f32 bits); g_wv w HM HI HN.
  - (* Decimal *)
    destruct (w_err w) eqn:E; [g_same w HI HM|].
    destruct d as [d|].
    + destruct (_ && _); g_wv w HM HI HN.
    + g_fail HM.
  - g_wv w HM HI HN.
  - (* Symbol *)
    destruct (w_err w) eqn:E; [g_same w HI HM|].
    destruct (tk_text t) as [x|].
    + destruct (resolve_from_table w x) as [[w1 id] ok1] eqn:Er.
      destruct (resolve_from_table_frame _ _ _ _ _ Er) as (A & B & C).
      pose proof (resolve_from_table_mode _ _ _ _ _ Er) as Md.
      destruct ok1; cbn [negb].
      * unfold write_symbol_id.
        assert (HM1 : M (set_err w1 false)).
        { eapply M_mode; [|exact HM]. eapply same_mode_trans; [exact Md|apply same_mode_of; reflexivity]. }
        assert (HI1 : Inv (set_err w1 false)) by (eapply Inv_of; eauto).
        assert (HN1 : NZ (set_err w1 false)) by (right; cbn; rewrite A; exact (nz_of w HN E)).
        match goal with |- context [write_value run ?ww ?v] =>
          destruct (write_value_gen ww v HM1 HI1 HN1) as (w' & ok & -> & HI' & HM' & HC') end.
        exists w', ok. split; [reflexivity|]. split; [exact HI'|]. split; [exact HM'|].
        intros Hk. specialize (HC' Hk). cbn in HC'. cbn. congruence.
      * eexists _, false. split; [reflexivity|]. split; [apply Inv_err; reflexivity|].
        split; [|discriminate].
        eapply M_mode; [|exact HM]. eapply same_mode_trans; [exact Md|apply same_mode_of; reflexivity].
    + destruct (negb (tk_sid t =? -1)%Z).
      * unfold write_symbol_id. g_wv w HM HI HN.
      * g_fail HM.
  - (* SymbolFromString *)
    destruct (w_err w) eqn:E; [g_same w HI HM|].
    destruct (resolve w t) as [[w1 id] ok1] eqn:Er.
    destruct (resolve_frame _ _ _ _ _ Er) as (A & B & C).
    pose proof (resolve_mode _ _ _ _ _ Er) as Md.
    destruct ok1; cbn [negb].
    + unfold write_symbol_id.
      assert (HM1 : M (set_err w1 false)).
      { eapply M_mode; [|exact HM]. eapply same_mode_trans; [exact Md|apply same_mode_of; reflexivity]. }
      assert (HI1 : Inv (set_err w1 false)) by (eapply Inv_of; eauto).
      assert (HN1 : NZ (set_err w1 false)) by (right; cbn; rewrite A; exact (nz_of w HN E)).
      match goal with |- context [write_value run ?ww ?v] =>
        destruct (write_value_gen ww v HM1 HI1 HN1) as (w' & ok & -> & HI' & HM' & HC') end.
      exists w', ok. split; [reflexivity|]. split; [exact HI'|]. split; [exact HM'|].
      intros Hk. specialize (HC' Hk). cbn in HC'. cbn. congruence.
    + eexists _, false. split; [reflexivity|]. split; [apply Inv_err; reflexivity|].
      split; [|discriminate].
      eapply M_mode; [|exact HM]. eapply same_mode_trans; [exact Md|apply same_mode_of; reflexivity].
  - destruct t; g_wv w HM HI HN.
  - g_wvc w HM HI HN.
  - g_wvc w HM HI HN.
  - destruct (begin_container_gen w ctxList 176 HM HI HN ltac:(discriminate)) as (w' & ok & -> & A & B & C).
    exists w', ok. split; [reflexivity|]. split; [exact A|]. split; [exact B|]. intros Hk. cbn. auto.
  - destruct (end_container_genM w ctxList HM HI ltac:(discriminate)) as (w' & ok & -> & A & B & C).
    exists w', ok. split; [reflexivity|]. split; [exact A|]. split; [exact B|].
    intros Hk. cbn. rewrite (C Hk). reflexivity.
  - destruct (begin_container_gen w ctxSexp 192 HM HI HN ltac:(discriminate)) as (w' & ok & -> & A & B & C).
    exists w', ok. split; [reflexivity|]. split; [exact A|]. split; [exact B|]. intros Hk. cbn. auto.
  - destruct (end_container_genM w ctxSexp HM HI ltac:(discriminate)) as (w' & ok & -> & A & B & C).
    exists w', ok. split; [reflexivity|]. split; [exact A|]. split; [exact B|].
    intros Hk. cbn. rewrite (C Hk). reflexivity.
  - destruct (begin_container_gen w ctxStruct 208 HM HI HN ltac:(discriminate)) as (w' & ok & -> & A & B & C).
    exists w', ok. split; [reflexivity|]. split; [exact A|]. split; [exact B|]. intros Hk. cbn. auto.
  - destruct (end_container_genM w ctxStruct HM HI ltac:(discriminate)) as (w' & ok & -> & A & B & C).
    exists w', ok. split; [reflexivity|]. split; [exact A|]. split; [exact B|].
    intros Hk. cbn. rewrite (C Hk). reflexivity.
Qed.

Lemma step_gen w c : M w -> Inv w -> NZ w -> c <> CFinish ->
  exists w' ok, step run w c = Ok (w', ok) /\ Inv w' /\ M w' /\ NZ w' /\
                (ok = true -> w_ctx w' = ctx_after c (w_ctx w)).
Proof.
  intros HM HI HN Hc. destruct (step_gen0 w c HM HI HN Hc) as (w' & ok & E & A & B & C).
  exists w', ok. split; [exact E|]. split; [exact A|]. split; [exact B|]. split; [|exact C].
  destruct ok.
  - destruct HN as [He|Hf].
    + rewrite (bw_sticky run w c He) in E. discriminate.
    + right. rewrite (C eq_refl). apply ctx_after_nz. exact Hf.
  - left. eapply bw_error_recorded; eauto.
Qed.
End Gen.

(* the fixed-table modes: [wr = true] — the table has been written (the state the nested run that
   writes the table itself is in); [wr = false] — any fixed-table state *)
Definition lst_mode (l : list text) (wr : bool) (w : wstate) : Prop :=
  w_lst w = Some l /\ w_lstb w = [] /\ (wr = true -> w_wrote_lst w = true).

Lemma lst_mode_mode l wr w w' : same_mode w w' -> lst_mode l wr w -> lst_mode l wr w'.
Proof.
  intros (A & B & C) (L & Lb & W). split; [congruence|]. split.
  - rewrite C; [exact Lb|congruence].
  - intros H. rewrite B. auto.
Qed.
Lemma lst_mode_weaken l w : lst_mode l true w -> lst_mode l false w.
Proof. intros (L & Lb & _). split; [exact L|]. split; [exact Lb|discriminate]. Qed.

(* once the table is written beginValue never writes it again, whatever [run] is *)
Lemma H_lst_written run l w : lst_mode l true w -> w_err w = false ->
  frames (w_ctx w) (codes (w_bufs w)) -> Forall wf_seq (w_bufs w) -> Forall nz (w_ctx w) ->
  exists w1 ok, bv_lst run w = Ok (w1, ok) /\ lst_mode l true w1 /\
    (ok = true -> w_ctx w1 = w_ctx w /\ frames (w_ctx w) (codes (w_bufs w1)) /\ Forall wf_seq (w_bufs w1)).
Proof.
  intros HM _ Hfr Hwf _. destruct HM as (L & Lb & W). unfold bv_lst. rewrite L, (W eq_refl). cbn [negb].
  exists w, true. split; [reflexivity|]. split; [split; [exact L|split; [exact Lb|exact W]]|].
  intros _. split; [reflexivity|]. split; [exact Hfr|exact Hwf].
Qed.

Lemma run_calls_written f l : forall cs w, lst_mode l true w -> Inv w -> NZ w ->
  Forall (fun c => c <> CFinish) cs ->
  exists w' ok, run_calls (S f) w cs = Ok (w', ok) /\ Inv w' /\ lst_mode l true w' /\ NZ w' /\
                (ok = true -> w_ctx w' = fold_left (fun x c => ctx_after c x) cs (w_ctx w)).
Proof.
  induction cs as [|c cs IH]; intros w HM HI HN Hcs.
  - exists w, true. cbn. auto.
  - inversion Hcs as [|? ? Hc Hcs']; subst.
    destruct (step_gen (run_calls f) (lst_mode l true) (lst_mode_mode l true) (H_lst_written _ l) w c HM HI HN Hc)
      as (w1 & ok1 & E & A & B & N1 & C).
    rewrite run_calls_cons, E. cbn [bind]. destruct ok1.
    + destruct (IH w1 B A N1 Hcs') as (w2 & ok2 & E2 & A2 & B2 & N2 & C2).
      exists w2, ok2. split; [exact E2|]. split; [exact A2|]. split; [exact B2|]. split; [exact N2|].
      intros Hk. cbn [fold_left]. rewrite <- (C eq_refl). apply C2. exact Hk.
    + exists w1, false. split; [reflexivity|]. split; [exact A|]. split; [exact B|]. split; [exact N1|discriminate].
Qed.

Lemma lst_calls_ctx_any locals ctx : fold_left (fun x c => ctx_after c x) (lst_calls locals) ctx = ctx.
Proof.
  unfold lst_calls. destruct locals as [|t l]; [reflexivity|].
  rewrite !fold_left_app. cbn [fold_left ctx_after]. rewrite fold_ctx_strings. reflexivity.
Qed.

Lemma lst_run_true_err f l w w' : run_calls (S f) w (lst_calls l) = Ok (w', true) ->
  w_err w = false -> w_err w' = false.
Proof.
  unfold lst_calls. destruct l as [|t l].
  - intros H; inversion H; subst. auto.
  - change [CEndList; CEndStruct] with ([CEndList] ++ [CEndStruct]). rewrite !app_assoc.
    intros H _. apply run_calls_last in H. destruct H as (w1 & H). cbn [step] in H.
    eapply end_container_true; exact H.
Qed.

(* beginValue's table-writing stage for the fixed-table writer in any state: the first value writes
   the version marker and the table through a nested run, which comes back balanced *)
Lemma H_lst_any f l w : lst_mode l false w -> w_err w = false ->
  frames (w_ctx w) (codes (w_bufs w)) -> Forall wf_seq (w_bufs w) -> Forall nz (w_ctx w) ->
  exists w1 ok, bv_lst (run_calls (S f)) w = Ok (w1, ok) /\ lst_mode l false w1 /\
    (ok = true -> w_ctx w1 = w_ctx w /\ frames (w_ctx w) (codes (w_bufs w1)) /\ Forall wf_seq (w_bufs w1)).
Proof.
  intros HM E Hfr Hwf Hnz. destruct HM as (L & Lb & W). unfold bv_lst. rewrite L.
  destruct (w_wrote_lst w) eqn:Ewr; cbn [negb].
  { exists w, true. split; [reflexivity|]. split; [split; [exact L|split; [exact Lb|discriminate]]|].
    intros _. split; [reflexivity|]. split; [exact Hfr|exact Hwf]. }
  unfold write_lst.
  destruct (write (set_wrote w true) [224; 1; 0; 234]) as [w1 ok1] eqn:Ew.
  destruct (write_ext _ _ _ _ Ew) as (A1 & _ & X1 & _). cbn in A1, X1.
  pose proof (emit_mode _ _ _ _ Ew) as Md. destruct (emit_pending _ _ _ _ Ew) as (_ & _ & E1). cbn in E1.
  assert (HM1 : lst_mode l true w1).
  { eapply lst_mode_mode; [exact Md|]. split; [exact L|]. split; [exact Lb|reflexivity]. }
  destruct ok1; cbn [negb].
  2:{ exists w1, false. split; [reflexivity|]. split; [apply lst_mode_weaken; exact HM1|discriminate]. }
  assert (HI1 : Inv w1).
  { right. rewrite A1. split; [eapply frames_ext; eauto|eapply ext_wf; eauto]. }
  assert (HN1 : NZ w1) by (right; rewrite A1; exact Hnz).
  destruct (run_calls_written f l (lst_calls l) w1 HM1 HI1 HN1 (lst_calls_no_finish _))
    as (w2 & ok2 & E2 & I2 & M2 & N2 & C2).
  exists w2, ok2. split; [exact E2|]. split; [apply lst_mode_weaken; exact M2|].
  intros ->. specialize (C2 eq_refl). rewrite lst_calls_ctx_any, A1 in C2.
  split; [exact C2|].
  pose proof (lst_run_true_err _ _ _ _ E2 ltac:(congruence)) as E2'.
  destruct I2 as [I2|(F2 & W2)]; [congruence|]. rewrite C2 in F2. split; [exact F2|exact W2].
Qed.

Definition step_lst f l := step_gen (run_calls (S f)) (lst_mode l false) (lst_mode_mode l false) (H_lst_any f l).

(* Finish, fixed-table writer: nothing has been added to the builder, so no table is written here *)
Lemma finish_lst f l w : lst_mode l false w -> Inv w -> NZ w ->
  exists w' ok, step (run_calls (S f)) w CFinish = Ok (w', ok) /\ Inv w' /\ lst_mode l false w' /\ NZ w'.
Proof.
  intros HM HI HN. rewrite finish_eq. destruct (w_err w) eqn:E.
  { exists w, false. auto. }
  destruct (ctx_peek w =? 0) eqn:Ep; cbn [negb].
  2:{ exists w, false. auto. }
  destruct HI as [HI|(Hfr & Hwf)]; [congruence|].
  destruct HN as [HN|HN]; [congruence|].
  assert (Ec : w_ctx w = []).
  { unfold ctx_peek in Ep. destruct (w_ctx w) as [|c ctx]; [reflexivity|].
    apply N.eqb_eq in Ep. inversion HN; subst. unfold nz in *. congruence. }
  rewrite Ec in Hfr. cbn [frames] in Hfr.
  destruct HM as (L & Lb & _).
  assert (HM0 : forall w', w_lst w' = w_lst w -> w_lstb w' = w_lstb w -> lst_mode l false w').
  { intros w' A B. split; [congruence|]. split; [congruence|discriminate]. }
  destruct (w_bufs w) as [|q rest] eqn:Eb.
  - eexists _, true. split; [reflexivity|]. split; [|split; [apply HM0; reflexivity|right; cbn; rewrite Ec; constructor]].
    right. cbn. rewrite Ec, Eb. cbn. split; [left; reflexivity|constructor].
  - destruct Hfr as [Hfr|Hfr]; [discriminate|].
    cbn [codes map] in Hfr. destruct rest as [|q2 rest2]; [|discriminate].
    inversion Hwf as [|? ? Hwq _]; subst.
    unfold write_lst. rewrite Lb. cbn [lst_calls].
    destruct (write (set_bufs (set_wrote (clear w) false) []) [224; 1; 0; 234]) as [w2 ok2] eqn:Ew.
    destruct (write_ext _ _ _ _ Ew) as (A2 & _ & _ & _). cbn in A2.
    pose proof (emit_mode _ _ _ _ Ew) as (ML & _ & MB). cbn in ML, MB.
    assert (MB' : w_lstb w2 = w_lstb w) by (apply MB; congruence).
    destruct ok2; cbn [negb bind].
    2:{ eexists _, false. split; [reflexivity|]. split; [apply Inv_err; reflexivity|].
        split; [apply HM0; [exact ML|exact MB']|left; reflexivity]. }
    change (run_calls (S f) w2 []) with (Ok (w2, true) : res ret). cbn [bind]. unfold fin_tail. cbn [negb].
    destruct (emit w2 (node_of_seq q)) as [w4 ok4] eqn:Ee.
    destruct (emit_ext _ _ _ _ (wf_node_of_seq q Hwq) Ee) as (A4 & _ & _ & _).
    pose proof (emit_mode _ _ _ _ Ee) as (ML4 & _ & MB4).
    assert (MB4' : w_lstb w4 = w_lstb w) by (rewrite MB4; [exact MB'|congruence]).
    destruct ok4; cbn [negb].
    2:{ eexists _, false. split; [reflexivity|]. split; [apply Inv_err; reflexivity|].
        split; [apply HM0; cbn; congruence|left; reflexivity]. }
    eexists _, true. split; [reflexivity|]. split; [|split].
    + right. cbn. rewrite A4, A2, Ec. cbn. split; [right; reflexivity|repeat constructor].
    + apply HM0; cbn; congruence.
    + right. cbn. rewrite A4, A2, Ec. constructor.
Qed.

Lemma wstep_lst l w c : lst_mode l false w -> Inv w -> NZ w ->
  exists w' ok, wstep w c = Ok (w', ok) /\ Inv w' /\ lst_mode l false w' /\ NZ w'.
Proof.
  intros HM HI HN. unfold wstep.
  destruct (wcall_eq_finish c) as [->|Hc]; [apply (finish_lst 1 l w HM HI HN)|].
  destruct (step_lst 1 l w c HM HI HN Hc) as (w' & ok & E & A & B & N1 & _).
  exists w', ok. auto.
Qed.

Lemma new_writer_lst_inv budget l :
  lst_mode l false (new_writer_lst budget l) /\ Inv (new_writer_lst budget l) /\ NZ (new_writer_lst budget l).
Proof.
  split; [split; [reflexivity|split; [reflexivity|discriminate]]|]. split.
  - right. cbn. split; [left; reflexivity|constructor].
  - right. constructor.
Qed.

Theorem bw_total_lst l : forall cs w, lst_mode l false w -> Inv w -> NZ w ->
  exists w' oks, drive_results w cs = Ok (w', oks) /\ Inv w' /\ lst_mode l false w' /\ NZ w' /\
                 length oks = length cs.
Proof.
  induction cs as [|c cs IH]; intros w HM HI HN; cbn [drive_results].
  - exists w, []. auto.
  - destruct (wstep_lst l w c HM HI HN) as (w1 & ok & -> & I1 & B1 & N1). cbn [bind].
    destruct (IH w1 B1 I1 N1) as (w2 & oks & -> & I2 & M2 & N2 & Hl). cbn [bind].
    exists w2, (ok :: oks). split; [reflexivity|]. split; [exact I2|]. split; [exact M2|]. split; [exact N2|].
    cbn. rewrite Hl. reflexivity.
Qed.

(* T2: no call sequence makes the fixed-table binary Writer (NewBinaryWriterLST) panic or run out of fuel *)
Theorem bw_no_panic_lst cs budget locals :
  exists w' oks, drive_results (new_writer_lst budget locals) cs = Ok (w', oks) /\ length oks = length cs.
Proof.
  destruct (new_writer_lst_inv budget locals) as (M & I & N).
  destruct (bw_total_lst locals cs _ M I N) as (w' & oks & E & _ & _ & _ & Hl). eauto.
Qed.

(* ---- the growing-table writer always keeps its datagram buffer ------------------------------------------------ *)
Definition has_dg (w : wstate) : Prop := In None (codes (w_bufs w)).
Definition DG (w : wstate) : Prop := w_err w = true \/ has_dg w.

Lemma ext_dg b b' : ext b b' -> In None (codes b) -> In None (codes b').
Proof. intros H. rewrite (ext_codes _ _ H). auto. Qed.
Lemma shape_dg b0 w' : shape b0 w' -> In None (codes b0) -> has_dg w'.
Proof.
  unfold has_dg. intros [Hx|(e & b1 & Eb & _ & _ & Hx)] H.
  - eapply ext_dg; eauto.
  - rewrite Eb. right. eapply ext_dg; eauto.
Qed.
Lemma emit_dg w n w' ok : emit w n = (w', ok) -> has_dg w -> has_dg w'.
Proof.
  unfold emit, has_dg. destruct (w_bufs w) as [|q r]; [intros _ []|].
  intros H; inversion H; subst. cbn. auto.
Qed.
Lemma end_value_dg w w' ok : end_value w = (w', ok) -> has_dg w -> has_dg w'.
Proof.
  unfold end_value. destruct (w_bufs w) as [|q rest] eqn:Eb; [intros H; inversion H; subst; auto|].
  destruct (bs_code q) as [c|] eqn:Ec; [|intros H; inversion H; subst; auto].
  destruct (c =? 224); [|intros H; inversion H; subst; auto].
  intros H D. apply emit_dg in H; [exact H|]. unfold has_dg in *. rewrite Eb in D. cbn in D. rewrite Ec in D.
  destruct D as [D|D]; [discriminate|exact D].
Qed.
Lemma write_chunks_dg cs : forall w ok w' ok', write_chunks (w, ok) cs = (w', ok') -> has_dg w -> has_dg w'.
Proof.
  unfold write_chunks. induction cs as [|c cs IH]; intros w ok w' ok'; cbn [fold_left].
  - intros H; inversion H; subst. auto.
  - destruct ok; [|apply IH]. destruct (write w c) as [w1 ok1] eqn:E.
    intros H D. eapply IH; [exact H|]. eapply emit_dg; eauto.
Qed.
Lemma ev_tail_dg w ok w' : ev_tail w ok = Ok (w', true) -> has_dg w -> has_dg w'.
Proof.
  unfold ev_tail. destruct ok; cbn [negb]; [|discriminate].
  destruct (end_value w) as [w2 ok2] eqn:E. intros H D. inversion H; subst.
  apply (end_value_dg _ _ _ E) in D. exact D.
Qed.
Lemma wv_tail_dg w ok val w' : wv_tail w ok val = Ok (w', true) -> has_dg w -> has_dg w'.
Proof.
  rewrite wv_tail_eq. destruct ok; cbn [negb]; [|discriminate].
  destruct (write w val) as [w1 ok1] eqn:E. intros H D. eapply ev_tail_dg; [exact H|]. eapply emit_dg; eauto.
Qed.
Lemma wvc_tail_dg w ok cs w' : wvc_tail w ok cs = Ok (w', true) -> has_dg w -> has_dg w'.
Proof.
  rewrite wvc_tail_eq. destruct ok; cbn [negb]; [|discriminate].
  destruct (write_chunks (w, true) cs) as [w1 ok1] eqn:E. intros H D.
  eapply ev_tail_dg; [exact H|]. eapply write_chunks_dg; eauto.
Qed.
Lemma bc_tail_dg w ok t code w' : bc_tail w ok t code = Ok (w', true) -> has_dg w -> has_dg w'.
Proof.
  unfold bc_tail. destruct ok; cbn [negb]; [|discriminate]. intros H D. inversion H; subst.
  unfold has_dg. cbn. right. exact D.
Qed.

Lemma begin_value_dg run w : builder w -> has_dg w ->
  exists w' ok, begin_value run w = Ok (w', ok) /\ (ok = true -> has_dg w').
Proof.
  intros HB D. rewrite begin_value_eq. unfold bv_lst. change (w_lst (clear w)) with (w_lst w). rewrite HB.
  cbn [bind]. destruct (bv_tail1_spec (clear w) (w_field w) (w_annots w)) as (w' & ok & -> & _ & _ & Sh).
  exists w', ok. split; [reflexivity|]. intros Hk. eapply shape_dg; [apply Sh; exact Hk|exact D].
Qed.

Lemma write_value_dg run w val w' : builder w -> has_dg w ->
  write_value run w val = Ok (w', true) -> has_dg w'.
Proof.
  intros HB D. rewrite write_value_eq. destruct (w_err w); [discriminate|].
  destruct (begin_value_dg run w HB D) as (w1 & ok1 & -> & D1). cbn [bind].
  destruct ok1; [|discriminate]. intros H. eapply wv_tail_dg; [exact H|auto].
Qed.
Lemma write_value_chunks_dg run w cs w' : builder w -> has_dg w ->
  write_value_chunks run w cs = Ok (w', true) -> has_dg w'.
Proof.
  intros HB D. rewrite write_value_chunks_eq. destruct (w_err w); [discriminate|].
  destruct (begin_value_dg run w HB D) as (w1 & ok1 & -> & D1). cbn [bind].
  destruct ok1; [|discriminate]. intros H. eapply wvc_tail_dg; [exact H|auto].
Qed.
Lemma begin_container_dg run w t code w' : builder w -> has_dg w ->
  begin_container run w t code = Ok (w', true) -> has_dg w'.
Proof.
  intros HB D. rewrite begin_container_eq. destruct (w_err w); [discriminate|].
  destruct (begin_value_dg run w HB D) as (w1 & ok1 & -> & D1). cbn [bind].
  destruct ok1; [|discriminate]. intros H. eapply bc_tail_dg; [exact H|auto].
Qed.
Lemma end_container_dg w t w' : Inv w -> t <> 0 -> has_dg w -> end_container w t = Ok (w', true) -> has_dg w'.
Proof.
  intros HI Ht D. rewrite end_container_eq. destruct (w_err w) eqn:E; [discriminate|].
  destruct HI as [HI|(Hfr & _)]; [congruence|].
  destruct (ctx_peek w =? t) eqn:Ep; cbn [negb]; [|discriminate].
  destruct (ctx_peek_nonzero w t Ht Ep) as (ctx' & Ec).
  rewrite Ec in Hfr. cbn [frames] in Hfr. destruct Hfr as (k & rest & Hcodes & _ & _).
  unfold ec_emit. destruct (w_bufs w) as [|q bufs'] eqn:Eb; [discriminate|].
  cbn [codes map] in Hcodes. inversion Hcodes as [[Hq Hr]].
  assert (D0 : has_dg (set_bufs w bufs')).
  { unfold has_dg in *. rewrite Eb in D. cbn in D. rewrite Hq in D. destruct D as [D|D]; [discriminate|exact D]. }
  destruct (emit (set_bufs w bufs') (node_of_seq q)) as [w1 ok1] eqn:Ee. apply (emit_dg _ _ _ _ Ee) in D0.
  unfold ec_tail. destruct ok1; cbn [negb]; [|discriminate].
  destruct (w_ctx (clear w1)) as [|c0 c]; [discriminate|].
  destruct (end_value (set_ctx (clear w1) c)) as [w2 ok2] eqn:Ev.
  intros H. inversion H; subst. apply (end_value_dg _ _ _ Ev). exact D0.
Qed.

Lemma step_dg_true run w c w' : builder w -> Inv w -> has_dg w -> c <> CFinish ->
  step run w c = Ok (w', true) -> has_dg w'.
Proof.
  intros HB HI D Hc. destruct c; cbn [step]; try congruence;
    try (apply write_value_dg; assumption); try (apply write_value_chunks_dg; assumption);
    try (apply begin_container_dg; assumption); try (apply end_container_dg; [assumption|discriminate|assumption]).
  - destruct (w_err w); [discriminate|]. destruct (in_struct w); cbn [negb]; [|discriminate].
    intros H; inversion H; subst. exact D.
  - destruct (w_err w); [discriminate|]. intros H; inversion H; subst. exact D.
  - destruct (w_err w); [discriminate|]. intros H; inversion H; subst. exact D.
  - destruct (w_err w); [discriminate|]. destruct (14 <=? t); [discriminate|].
    destruct (binary_null t); cbn [bind]; try discriminate. apply write_value_dg; assumption.
  - destruct (z =? 0)%Z; apply write_value_dg; assumption.
  - destruct (n =? 0); apply write_value_dg; assumption.
  - destruct (w_err w); [discriminate|]. destruct z as [z|]; [|discriminate].
    destruct (z =? 0)%Z; apply write_value_chunks_dg; assumption.
  - destruct (f64_pos_zero bits); [apply write_value_dg; assumption|].
    destruct (f64_is_nan bits); [apply write_value_dg; assumption|].
    destruct (uses_f32 bits); apply write_value_dg; assumption.
  - destruct (w_err w); [discriminate|]. destruct d as [d|]; [|discriminate].
    destruct (_ && _); apply write_value_dg; assumption.
  - destruct (w_err w); [discriminate|]. destruct (tk_text t) as [x|].
    + destruct (resolve_from_table w x) as [[w1 id] ok1] eqn:Er.
      destruct (resolve_from_table_frame _ _ _ _ _ Er) as (A & B & C).
      destruct ok1; cbn [negb]; [|discriminate]. unfold write_symbol_id.
      apply write_value_dg; [unfold builder in *; cbn; congruence|unfold has_dg in *; cbn; rewrite B; exact D].
    + destruct (negb (tk_sid t =? -1)%Z); [|discriminate]. apply write_value_dg; assumption.
  - destruct (w_err w); [discriminate|].
    destruct (resolve w t) as [[w1 id] ok1] eqn:Er.
    destruct (resolve_frame _ _ _ _ _ Er) as (A & B & C).
    destruct ok1; cbn [negb]; [|discriminate]. unfold write_symbol_id.
    apply write_value_dg; [unfold builder in *; cbn; congruence|unfold has_dg in *; cbn; rewrite B; exact D].
  - destruct t; apply write_value_dg; assumption.
Qed.

Lemma finish_dg run w w' ok : DG w -> step run w CFinish = Ok (w', ok) -> DG w'.
Proof.
  intros D. rewrite finish_eq. destruct (w_err w) eqn:E; [intros H; inversion H; subst; left; exact E|].
  destruct D as [D|D]; [congruence|].
  destruct (ctx_peek w =? 0); cbn [negb]; [|intros H; inversion H; subst; right; exact D].
  unfold has_dg in D. destruct (w_bufs w) as [|q rest]; [destruct D|]. destruct rest; [|discriminate].
  destruct (write_lst run _ _) as [[w1 ok1]| | |]; cbn [bind]; try discriminate.
  unfold fin_tail. destruct ok1; cbn [negb]; [|intros H; inversion H; subst; left; reflexivity].
  destruct (emit w1 (node_of_seq q)) as [w2 ok2]. destruct ok2; cbn [negb]; intros H; inversion H; subst.
  - right. unfold has_dg. cbn. left. reflexivity.
  - left. reflexivity.
Qed.

Lemma wstep_dg w c w' ok : builder w -> Inv w -> DG w -> wstep w c = Ok (w', ok) -> DG w'.
Proof.
  intros HB HI D H. unfold wstep in H.
  destruct (wcall_eq_finish c) as [->|Hc]; [eapply finish_dg; eauto|].
  destruct ok; [|left; eapply bw_error_recorded; eauto].
  destruct D as [D|D]; [rewrite (bw_sticky _ w c D) in H; discriminate|].
  right. eapply step_dg_true; eauto.
Qed.

(* every state the growing-table writer can reach *)
Definition reachable (w : wstate) : Prop := builder w /\ Inv w /\ NZ w /\ DG w.

Lemma reachable_new budget : reachable (new_writer budget).
Proof.
  destruct (new_writer_inv budget) as (B & I & N). split; [exact B|]. split; [exact I|]. split; [exact N|].
  right. unfold has_dg. cbn. left. reflexivity.
Qed.
Lemma reachable_step w c w' ok : reachable w -> wstep w c = Ok (w', ok) -> reachable w'.
Proof.
  intros (B & I & N & D) H. destruct (wstep_inv w c B I N) as (w1 & ok1 & E & I1 & B1 & N1).
  rewrite H in E. inversion E; subst. split; [exact B1|]. split; [exact I1|]. split; [exact N1|].
  exact (wstep_dg w c _ _ B I D H).
Qed.
Lemma reachable_drive cs : forall w w' rs, reachable w -> drive_results w cs = Ok (w', rs) -> reachable w'.
Proof.
  induction cs as [|c cs IH]; intros w w' rs R; cbn [drive_results].
  - intros H; inversion H; subst. exact R.
  - destruct (wstep w c) as [[w1 ok]| | |] eqn:E; cbn [bind]; try discriminate.
    destruct (drive_results w1 cs) as [[w2 oks]| | |] eqn:E2; cbn [bind]; try discriminate.
    intros H; inversion H; subst. eapply IH; [|exact E2]. eapply reachable_step; eauto.
Qed.

(* T3: Finish returning nil leaves nothing pending and a fresh datagram buffer *)
Theorem bw_finish_clean_reachable w w' : reachable w -> wstep w CFinish = Ok (w', true) ->
  w_err w' = false /\ w_ctx w' = [] /\ w_field w' = None /\ w_annots w' = [] /\ w_bufs w' = [new_seq None].
Proof.
  intros (B & I & N & D) H. destruct (bw_finish_clean w w' B I N H) as (A1 & A2 & A3 & A4 & A5).
  split; [exact A1|]. split; [exact A2|]. split; [exact A3|]. split; [exact A4|]. apply A5.
  destruct D as [D|D].
  - unfold wstep in H. rewrite (bw_sticky _ w CFinish D) in H. discriminate.
  - unfold has_dg in D. intros X. rewrite X in D. destruct D.
Qed.

Theorem bw_finish_clean_new budget cs w rs w' :
  drive_results (new_writer budget) cs = Ok (w, rs) -> wstep w CFinish = Ok (w', true) ->
  w_err w' = false /\ w_ctx w' = [] /\ w_field w' = None /\ w_annots w' = [] /\ w_bufs w' = [new_seq None].
Proof.
  intros H. apply bw_finish_clean_reachable. eapply reachable_drive; [apply reachable_new|exact H].
Qed.

(* the same for the fixed-table writer (which never buffers at top level beyond what Finish flushes) *)
Theorem finish_true_lst f l w w' : lst_mode l false w -> Inv w -> NZ w ->
  step (run_calls (S f)) w CFinish = Ok (w', true) ->
  w_err w' = false /\ w_ctx w' = [] /\ w_field w' = None /\ w_annots w' = [].
Proof.
  intros HM HI HN. rewrite finish_eq. destruct (w_err w) eqn:E; [discriminate|].
  destruct (ctx_peek w =? 0) eqn:Ep; cbn [negb]; [|discriminate].
  destruct HI as [HI|(Hfr & Hwf)]; [congruence|].
  destruct HN as [HN|HN]; [congruence|].
  assert (Ec : w_ctx w = []).
  { unfold ctx_peek in Ep. destruct (w_ctx w) as [|c ctx]; [reflexivity|].
    apply N.eqb_eq in Ep. inversion HN; subst. unfold nz in *. congruence. }
  destruct HM as (L & Lb & _).
  destruct (w_bufs w) as [|q rest] eqn:Eb.
  - intros H; inversion H; subst. cbn. auto.
  - destruct rest; [|discriminate]. unfold write_lst. rewrite Lb. cbn [lst_calls].
    destruct (write (set_bufs (set_wrote (clear w) false) []) [224; 1; 0; 234]) as [w2 ok2] eqn:Ew.
    destruct (write_ext _ _ _ _ Ew) as (A2 & _ & _ & _). cbn in A2.
    destruct (emit_pending _ _ _ _ Ew) as (F2 & N2 & E2). cbn in F2, N2, E2.
    destruct ok2; cbn [negb bind]; [|discriminate].
    change (run_calls (S f) w2 []) with (Ok (w2, true) : res ret). cbn [bind]. unfold fin_tail. cbn [negb].
    destruct (emit w2 (node_of_seq q)) as [w4 ok4] eqn:Ee.
    assert (A4 : w_ctx w4 = w_ctx w2).
    { unfold emit in Ee. destruct (w_bufs w2); [destruct (sink_write_all _ _)|]; inversion Ee; reflexivity. }
    destruct (emit_pending _ _ _ _ Ee) as (F4 & N4 & E4).
    destruct ok4; cbn [negb]; [|discriminate].
    intros H; inversion H; subst. cbn.
    split; [congruence|]. split; [congruence|]. split; [congruence|congruence].
Qed.

Theorem bw_finish_clean_lst budget locals cs w rs w' :
  drive_results (new_writer_lst budget locals) cs = Ok (w, rs) -> wstep w CFinish = Ok (w', true) ->
  w_err w' = false /\ w_ctx w' = [] /\ w_field w' = None /\ w_annots w' = [].
Proof.
  intros H. destruct (new_writer_lst_inv budget locals) as (M & I & N).
  destruct (bw_total_lst locals cs _ M I N) as (w1 & oks & E & I1 & M1 & N1 & _).
  rewrite H in E. inversion E; subst. apply (finish_true_lst 1 locals); assumption.
Qed.

(* every call only appends to what the io.Writer has accepted *)
Theorem wstep_appends w c w' ok : wstep w c = Ok (w', ok) ->
  is_prefix (sk_writes (w_out w)) (sk_writes (w_out w')).
Proof. intros H. pose proof (wstep_mono w c) as M. rewrite H in M. apply mono_prefix. exact M. Qed.

(* ---- a refused write is also recorded in the writer ---------------------------------------------------------- *)
(* Finish can answer an error without recording it only when it did nothing at all *)
Lemma finish_false_noerr run w w' : step run w CFinish = Ok (w', false) -> w_err w' = false ->
  w' = w /\ forall run', step run' (unl w) CFinish = Ok (unl w, false).
Proof.
  rewrite finish_eq. destruct (w_err w) eqn:E; [intros H; inversion H; subst; congruence|].
  destruct (ctx_peek w =? 0) eqn:Ep; cbn [negb].
  2:{ intros H _. inversion H; subst. split; [reflexivity|]. intros run'.
      rewrite finish_eq, unl_err, unl_ctx_peek, E, Ep. reflexivity. }
  destruct (w_bufs w) as [|q rest]; [discriminate|]. destruct rest; [|discriminate].
  destruct (write_lst run _ _) as [[w1 ok1]| | |]; cbn [bind]; try discriminate.
  unfold fin_tail. destruct ok1; cbn [negb]; [|intros H; inversion H; subst; discriminate].
  destruct (emit w1 (node_of_seq q)) as [w2 ok2]. destruct ok2; cbn [negb]; intros H; inversion H; subst.
  discriminate.
Qed.

Theorem drive_sim_err cs : forall w1 w1' r1 w2' r2,
  drive_results w1 cs = Ok (w1', r1) -> drive_results (unl w1) cs = Ok (w2', r2) ->
  (w2' = unl w1' /\ r2 = r1) \/
  (In false r1 /\ w_err w1' = true /\ diverged (w_out w1') (w_out w2')).
Proof.
  induction cs as [|c cs IH]; intros w1 w1' r1 w2' r2; cbn [drive_results].
  - intros H1 H2. inversion H1; inversion H2; subst. left. split; reflexivity.
  - pose proof (wstep_sim w1 c) as S.
    destruct (wstep w1 c) as [[wa oka]| | |] eqn:Ha; cbn [bind]; try discriminate.
    destruct (wstep (unl w1) c) as [[wb okb]| | |] eqn:Hb; cbn [bind]; try discriminate.
    destruct (drive_results wa cs) as [[wa' ra]| | |] eqn:Ea; cbn [bind]; try discriminate.
    destruct (drive_results wb cs) as [[wb' rb]| | |] eqn:Eb; cbn [bind]; try discriminate.
    intros H1 H2. inversion H1; inversion H2; subst.
    destruct S as [[S1 S2]|[S1 S2]]; cbn [fst snd] in S1, S2; subst.
    + destruct (IH _ _ _ _ _ Ea Eb) as [[-> ->]|(I & E & D)].
      * left. split; reflexivity.
      * right. split; [right; exact I|]. split; [exact E|exact D].
    + destruct (w_err wa) eqn:Ew.
      * destruct (bw_sticky_seq cs _ _ _ Ew Ea) as [-> _].
        right. split; [left; reflexivity|]. split; [exact Ew|]. eapply drive_diverged; eauto.
      * destruct (wcall_eq_finish c) as [->|Hc].
        2:{ unfold wstep in Ha. rewrite (bw_error_recorded _ _ _ _ Ha Hc) in Ew. discriminate. }
        unfold wstep in Ha, Hb. destruct (finish_false_noerr _ _ _ Ha Ew) as [-> Hu].
        rewrite Hu in Hb. inversion Hb; subst.
        destruct (IH _ _ _ _ _ Ea Eb) as [[-> ->]|(I & E & D)].
        -- left. split; reflexivity.
        -- right. split; [right; exact I|]. split; [exact E|exact D].
Qed.

(* if the failing run's output falls short of the fault-free one, some call returned an error and the
   writer is left in its error state (so every later call fails too) *)
Theorem bw_fault_recorded budget cs w1 r1 w2 r2 :
  drive_results (new_writer budget) cs = Ok (w1, r1) -> drive_results (new_writer None) cs = Ok (w2, r2) ->
  sk_writes (w_out w1) <> sk_writes (w_out w2) -> w_err w1 = true /\ In false r1.
Proof.
  intros H1 H2 Hne. destruct (drive_sim_err cs (new_writer budget) _ _ _ _ H1 H2) as [[-> _]|(I & E & _)].
  - exfalso. apply Hne. reflexivity.
  - split; [exact E|exact I].
Qed.
