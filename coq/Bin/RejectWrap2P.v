(* RejectWrap2P.v — ReadAnnotations fails on every annotation wrapper the restricted decoder rejects before or at the
   annotated value's header ([wrap_code] = 0 of Bin/Reject.v). *)
From Coq Require Import String List NArith ZArith Bool Lia ZifyBool ZifyN ZifyNat.
From IonV Require Import Base.Wire Base.Utf8 Bin.Bits Bin.BitsP Data.Ion Num.Float Bin.BitStream Bin.BinReader
  Bin.BitStreamP Bin.BitStreamNextP Bin.BinWriter Bin.SpecBin Bin.RoundTripBin Bin.RoundTripBinS Bin.BitEvalP
  Bin.BitEvalAnnP Bin.ReaderTrace Bin.BinReaderInvP Bin.BinReaderP Bin.ReaderTraceP Bin.ReaderTopP
  Bin.ReaderLstP Bin.SpecLim Bin.SpecLimP Bin.SpecLimAppP Bin.BitEvalGenP Bin.SpecAgreeP Bin.BitEvalAnnGenP
  Bin.Reject Bin.RejectP Bin.RejectVarP Bin.RejectHdrP Bin.RejectWrapP.
Import ListNotations.
Open Scope N_scope.
Ltac Zify.zify_post_hook ::= Z.div_mod_to_equations.

Ltac bsimpl :=
  cbn [b_in b_ioerr b_pos b_state b_stack b_code b_null b_len b_alloc b_avail b_fuel
       upd_in upd_state upd_stack upd_cur upd_alloc b_clear done_value fst snd] in *.
Ltac rsimpl :=
  cbn [r_bits r_ctx r_eof r_err r_lst r_field r_annots r_type r_value
       rs_bits rs_ctx rs_eof rs_err rs_lst rs_field rs_annots rs_val r_clear fst snd] in *.
Ltac disp :=
  cbn [N.eqb Pos.eqb orb andb negb bcEOF bcBVM bcFieldID bcAnnotation bcNull bcFalse bcTrue bcInt bcNegInt bcFloat
       bcDecimal bcTimestamp bcSymbol bcString bcClob bcBlob bcList bcSexp bcStruct].

Section Wrap.
Variable tot : N.
Hypothesis Htot : tot < two63.

Lemma resolve_none_ok tab ctx sid : TC tab ctx -> resolve_sid ctx sid = None -> sid_ok tab sid = false.
Proof.
  intros HTC Hr. assert (H : tok_by_sid tab sid = None) by (eapply resolve_none; eauto).
  unfold tok_by_sid in H. destruct (sid_ok tab sid); [discriminate|reflexivity].
Qed.

Lemma annot_loop_rej tab ctx : TC tab ctx -> forall k ab, sl_annots ctx k ab = None -> (length ab <= k)%nat ->
  forall fuel b rest acc, Forall (fun c => c < 256) (ab ++ rest) -> avail_ok b -> b_pos b < two64 -> b_in b = ab ++ rest ->
  (length ab < fuel)%nat -> N.of_nat (length ab) < two64 ->
  exists b', annot_loop fuel b (sid_ok tab) (N.of_nat (length ab)) acc = (b', Err).
Proof.
  intros HTC. induction k as [|k IH]; intros ab Hs Hk fuel b rest acc Hby A P Ein Hf Hl.
  { destruct ab; [discriminate|cbn [length] in Hk; lia]. }
  destruct ab as [|c0 ab']; [discriminate|]. set (ab := c0 :: ab') in *. cbn [sl_annots] in Hs. fold ab in Hs.
  assert (Hbab : Forall (fun c => c < 256) ab) by (apply Forall_app in Hby; apply Hby).
  destruct fuel as [|f]; [lia|]. cbn [annot_loop].
  replace (N.of_nat (length ab) =? 0) with false by (subst ab; cbn [length]; lia).
  destruct (lim_varuint ab) as [[sid r]|] eqn:Ev.
  2:{ destruct (read_varuint_rej b ab rest (N.of_nat (length ab)) A Ein Hby ltac:(left; lia) Ev) as (b' & E). rewrite E.
      eexists; reflexivity. }
  destruct (lim_varuint_layout ab sid r rest Ev Hbab) as (ds & E0 & Hds & Hv64 & Hrd).
  assert (Rd : read_varuint (N.of_nat (length ab)) (b_in b) = Ok (sid, N.of_nat (length ds), r ++ rest)).
  { rewrite Ein, E0, <- app_assoc. apply Hrd. rewrite app_length. lia. }
  destruct (b_read_varuint_list b _ sid _ _ A Rd) as (b1 & E1 & Ad & I1). rewrite E1.
  destruct (resolve_sid ctx sid) as [y|] eqn:Ey.
  2:{ rewrite (resolve_none_ok tab ctx sid HTC Ey). eexists; reflexivity. }
  destruct (resolve_tok tab ctx sid y HTC Ey) as (_ & Hok & _). rewrite Hok.
  destruct (sl_annots ctx k r) as [ys'|] eqn:Er; [discriminate|].
  assert (El : N.of_nat (length ab) = N.of_nat (length ds) + N.of_nat (length r)) by (rewrite E0, app_length; lia).
  rewrite wrap_sub by lia. replace (N.of_nat (length ab) - N.of_nat (length ds)) with (N.of_nat (length r)) by lia.
  assert (A1 : avail_ok b1) by (eapply wle_avail; eapply adv_wle; eauto).
  apply (IH r Er ltac:(lia) f b1 rest (sid :: acc)); auto; try lia.
  - rewrite E0, <- app_assoc in Hby. apply Forall_app in Hby. apply Hby.
  - exact (adv_pos_lt _ _ _ Ad).
Qed.

Lemma read_annotations_rej ts f top tab ctx b body rest stk : TC tab ctx -> Forall (fun c => c < 256) (body ++ rest) ->
  BS b (body ++ rest) bssOnValue stk tot -> b_len b = N.of_nat (length body) -> b_code b = bcAnnotation ->
  wrap_code top ctx body (sl_value ts f ctx) = 0 ->
  exists b', b_read_annotations b (sid_ok tab) = (b', Err).
Proof.
  intros HTC Hby Hb El Ec Hcov. pose proof Hb as [I Ein St Es Nl Nw]. pose proof (bcore_avail _ (proj1 I)) as A.
  assert (Hbb : Forall (fun c => c < 256) body) by (apply Forall_app in Hby; apply Hby).
  assert (Hav : b_avail b = N.of_nat (length body) + N.of_nat (length rest)).
  { unfold avail_ok in A. rewrite A, Ein, !app_length. lia. }
  assert (Hl64 : b_len b < two64) by (unfold two63, two64 in *; lia).
  unfold b_read_annotations. rewrite Ec. change (negb (bcAnnotation =? bcAnnotation)) with false. cbv iota.
  unfold wrap_code in Hcov.
  destruct (lim_varuint body) as [[alen r2]|] eqn:Ev.
  2:{ destruct (read_varuint_rej b body rest (b_len b) A Ein Hby ltac:(left; lia) Ev) as (b' & E). rewrite E. eexists; reflexivity. }
  destruct (lim_varuint_layout body alen r2 rest Ev Hbb) as (ds & E0 & Hds & Hv64 & Hrd).
  assert (Rd : read_varuint (b_len b) (b_in b) = Ok (alen, N.of_nat (length ds), r2 ++ rest)).
  { rewrite Ein, E0, <- app_assoc. apply Hrd. rewrite El, E0, app_length. lia. }
  destruct (b_read_varuint_list b _ alen _ _ A Rd) as (b1 & E1 & Ad1 & I1). rewrite E1.
  destruct (alen =? 0) eqn:Ea0; [eexists; reflexivity|].
  assert (Elr : N.of_nat (length body) = N.of_nat (length ds) + N.of_nat (length r2)) by (rewrite E0, app_length; lia).
  rewrite wrap_sub by lia.
  destruct (take_n alen r2) as [[ab vb]|] eqn:Etk.
  2:{ pose proof (take_n_none _ _ Etk). replace (b_len b - N.of_nat (length ds) <? alen) with true by lia. eexists; reflexivity. }
  destruct (take_n_spec _ _ _ _ Etk) as [E2 Eab].
  assert (Elr2 : N.of_nat (length r2) = alen + N.of_nat (length vb)) by (rewrite E2, app_length; lia).
  replace (b_len b - N.of_nat (length ds) <? alen) with false by lia.
  rewrite wrap_sub by lia. replace (b_len b - N.of_nat (length ds) - alen) with (N.of_nat (length vb)) by lia.
  destruct vb as [|vt vr]; [eexists; reflexivity|].
  replace (N.of_nat (length (vt :: vr)) =? 0) with false by (cbn [length]; lia).
  set (vb := vt :: vr) in *.
  assert (A1 : avail_ok b1) by (eapply wle_avail; eapply adv_wle; eauto).
  assert (Fu : (length (b_in b1) + 2 <= b_fuel b1)%nat).
  { pose proof (wk_wle _ _ (proj1 (proj1 I)) (adv_wle _ _ _ A Ad1)) as (_ & Fu & _). exact Fu. }
  rewrite E2, <- app_assoc in I1.
  assert (Hlen : (length ab < b_fuel b1)%nat) by (rewrite I1, !app_length in Fu; lia).
  assert (Hby1 : Forall (fun c => c < 256) (ab ++ vb ++ rest)).
  { rewrite E0, E2, <- !app_assoc in Hby. apply Forall_app in Hby. apply Hby. }
  rewrite <- Eab.
  destruct (sl_annots ctx (length ab) ab) as [ys|] eqn:Eys.
  2:{ destruct (annot_loop_rej tab ctx HTC (length ab) ab Eys ltac:(lia) (b_fuel b1) b1 (vb ++ rest) [] Hby1 A1 (adv_pos_lt _ _ _ Ad1) I1 Hlen)
        as (b2 & E3); [unfold two63, two64 in *; lia|]. rewrite E3. eexists; reflexivity. }
  assert (Hbab : Forall (fun c => c < 256) ab) by (apply Forall_app in Hby1; apply Hby1).
  assert (Hbvb : Forall (fun c => c < 256) vb).
  { apply Forall_app in Hby1. destruct Hby1 as [_ H1]. apply Forall_app in H1. apply H1. }
  destruct (annot_loop_gen tot Htot tab ctx HTC _ ab ys Eys Hbab (b_fuel b1) b1 (vb ++ rest) [] A1 (adv_pos_lt _ _ _ Ad1) I1 Hlen)
    as (b2 & sids & E3 & Ad2 & F2); [unfold two63, two64 in *; lia|].
  rewrite E3. cbn [rev_append app].
  assert (I2 : b_in b2 = vb ++ rest).
  { rewrite (adv_in _ _ _ Ad2), I1. rewrite Nat2N.id. apply skipn_app_exact. }
  assert (Fu2 : (length (b_in b2) + 2 <= b_fuel b2)%nat).
  { pose proof (wk_wle _ _ (proj1 (proj1 I)) (wle_trans _ _ _ A (adv_wle _ _ _ A Ad1) (adv_wle _ _ _ A1 Ad2))) as (_ & Fu2 & _).
    exact Fu2. }
  assert (Hval : b_validate_annotated b2 (N.of_nat (length vb)) = Err).
  { apply (validate_rej ts f ctx b2 vt vr rest Hbvb I2 Fu2); [change (vt :: vr) with vb; unfold two63 in *; lia|].
    destruct (vt / 16 =? 14) eqn:E14.
    { destruct (vt mod 16 =? 15) eqn:E15; [discriminate|]. left. lia. }
    destruct (top && lst_first ys && (vt / 16 =? 13)); [discriminate|].
    fold vb in Hcov. destruct (sl_value ts f ctx vb) as [[[x|] [|c rr]]|] eqn:Ex; try discriminate.
    - right; right. split; [lia|]. exists x, c, rr. exact Ex.
    - right; left. split; [lia|]. eexists. exact Ex.
    - right; left. split; [lia|]. eexists. exact Ex. }
  rewrite Hval. eexists; reflexivity.
Qed.

Lemma raw_rej_wrapper ts api fuel r b1 f top tab ctx tag r0 outer stk len r1 body rest : TC tab ctx ->
  Forall (fun c => c < 256) (tag :: r0) -> Forall (fun c => c < 256) outer ->
  tag / 16 = 14 -> tag mod 16 <> 15 -> tag mod 16 <> 0 ->
  (if (tag mod 16 =? 14) || ((tag / 16 =? 13) && (tag mod 16 =? 1)) then lim_varuint r0 else Some (tag mod 16, r0)) = Some (len, r1) ->
  take_n len r1 = Some (body, rest) -> wrap_code top ctx body (sl_value ts f ctx) = 0 ->
  BS b1 ((tag :: r0) ++ outer) bssBeforeValue stk tot -> top_ok tot stk outer -> b_next (r_bits r) = b_next b1 ->
  r_lst r = Some tab ->
  exists r1, r_next_raw ts api fuel r = (r1, Err).
Proof.
  intros HTC Hb Hbo Ht Hlo15 Hlo0 Elen Etk Hcov Hb1 T Hn Hl. inversion Hb as [|? ? Htag Hr0]; subst.
  assert (HB : exists b', b_next b1 = (b', Ok tt) /\ BS b' (body ++ rest ++ outer) bssOnValue stk tot /\
                          b_code b' = bcAnnotation /\ b_len b' = N.of_nat (length body) /\
                          Forall (fun c => c < 256) body /\ Forall (fun c => c < 256) rest).
  { destruct (tag mod 16 =? 14) eqn:E14.
    - cbn [orb] in Elen.
      destruct (tag_split tot Htot tag Htag) as (Etag & _ & _).
      destruct (take_n_spec _ _ _ _ Etk) as [Er1 Elb].
      destruct (lim_varuint_layout r0 len r1 outer Elen Hr0) as (ds & E0 & Hds & Hv & Hrd).
      assert (Hby1 : Forall (fun c => c < 256) r1) by (rewrite E0 in Hr0; apply Forall_app in Hr0; apply Hr0).
      rewrite Er1 in E0, Hrd, Hby1. rewrite <- !app_assoc in Hrd. apply Forall_app in Hby1.
      assert (Ein : (tag :: r0) ++ outer = (16 * 14 + 14) :: ds ++ body ++ rest ++ outer).
      { rewrite E0, Etag, Ht. replace (tag mod 16) with 14 by lia. cbn [app]. rewrite <- !app_assoc. reflexivity. }
      rewrite Ein in Hb1.
      assert (R : room b1 (1 + N.of_nat (length ds) + len)).
      { change ((16 * 14 + 14) :: ds ++ body ++ rest ++ outer) with (((16 * 14 + 14) :: ds) ++ body ++ rest ++ outer) in Hb1.
        rewrite (app_assoc _ body) in Hb1. pose proof (room_top ts tot Htot _ _ _ _ _ _ Hb1 T) as R. rewrite app_length in R. cbn [length] in R.
        replace (1 + N.of_nat (length ds) + len) with (N.of_nat (S (length ds) + length body)) by lia. exact R. }
      destruct (b_next_len14 tot Htot b1 14 ds body (rest ++ outer) stk len Hb1 ltac:(lia) ltac:(lia) Hrd ltac:(lia) Elb R)
        as (b' & E & Hb' & Ec & El). exists b'. rewrite El, <- Elb. repeat (split; [solve [auto]|]). apply Hby1.
    - assert (Hq : len = tag mod 16 /\ r1 = r0) by (cbn [orb] in Elen; replace ((tag / 16 =? 13) && (tag mod 16 =? 1)) with false in Elen by lia; inversion Elen; auto).
      destruct Hq as [Hq1 Hq2].
      assert (Elen' : (if (tag mod 16 =? 14) || ((tag / 16 =? 13) && (tag mod 16 =? 1)) then lim_varuint r0 else Some (tag mod 16, r0)) = Some (len, r1))
        by (rewrite E14; exact Elen).
      destruct (hdr_spec ts tot Htot b1 tag r0 len r1 body rest outer stk Htag Hr0 ltac:(lia) Hlo15 ltac:(lia) Elen' ltac:(lia) Etk ltac:(lia) Hb1 T)
        as (b' & E1 & Hb' & Ec & El & Elb & Hbb & Hbr).
      exists b'. rewrite Ht in Ec. repeat (split; [solve [auto]|]). exact Hbr. }
  destruct HB as (b' & E1 & Hb' & Ec & El & Hbb & Hbr).
  destruct (read_annotations_rej ts f top tab ctx b' body (rest ++ outer) stk HTC) as (b'' & Er); auto.
  { apply Forall_app; split; [exact Hbb|apply Forall_app; split; assumption]. }
  rewrite <- Hn in E1. unfold r_next_raw. rewrite E1. cbv zeta. rewrite Ec. disp. unfold cur_lst. rsimpl. rewrite Hl.
  unfold lift. rewrite Er. eexists; reflexivity.
Qed.
End Wrap.
