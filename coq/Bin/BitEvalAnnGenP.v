(* BitEvalAnnGenP.v — ReadAnnotations on every annotation wrapper the specification accepts (within the
   limits of Bin/SpecLim.v): padded VarUInts for the annotation length and the symbol IDs, any number of
   annotations, any representation of the annotated value. *)
From Coq Require Import String List NArith ZArith Bool Lia ZifyBool ZifyN ZifyNat.
From IonV Require Import Base.Wire Base.Utf8 Bin.Bits Bin.BitsP Data.Ion Num.Float Bin.BitStream Bin.BinReader
  Bin.BitStreamP Bin.BitStreamNextP Bin.BinWriter Bin.SpecBin Bin.RoundTripBin Bin.RoundTripBinS Bin.BitEvalP
  Bin.BitEvalAnnP Bin.SpecLim Bin.SpecLimP Bin.BitEvalGenP Bin.SpecAgreeP.
Import ListNotations.
Open Scope N_scope.
Ltac Zify.zify_post_hook ::= Z.div_mod_to_equations.

Ltac bsimpl :=
  cbn [b_in b_ioerr b_pos b_state b_stack b_code b_null b_len b_alloc b_avail b_fuel
       upd_in upd_state upd_stack upd_cur upd_alloc b_clear done_value fst snd] in *.

(* the look-ahead of validateAnnotatedValue needs one unit of fuel per octet *)
Lemma validate_len_loop_digits f : forall max val len inp v l rest,
  read_varuint_loop f max val len inp = Ok (v, l, rest) ->
  len < l /\
  forall F b counter rem, skipn (N.to_nat counter) (b_in b) = inp -> (N.to_nat (l - len) <= F)%nat ->
    counter + (l - len) <= 4096 -> l - len <= rem -> rem < two64 ->
    validate_len_loop F b counter val rem = Ok (v, rem - (l - len)).
Proof.
  induction f as [|f IH]; intros max val len inp v l rest; cbn [read_varuint_loop]; [discriminate|].
  destruct (max <=? len); [discriminate|]. destruct inp as [|c r]; [discriminate|].
  destruct (max_u64_shr7 <? val); [discriminate|].
  destruct (128 <=? c) eqn:Ec.
  - intros H. inversion H; subst. split; [lia|]. intros F b counter rem Hs HF Hc Hr Hr2.
    destruct F as [|F]; [lia|]. cbn [validate_len_loop]. replace (4096 <=? counter) with false by lia.
    destruct (skipn_hd _ _ _ _ Hs) as [Hn _]. unfold b_peek. rewrite Hn, Ec.
    rewrite wrap_sub by lia. repeat f_equal. lia.
  - intros H. destruct (IH _ _ _ _ _ _ _ H) as [Hlt K]. split; [lia|].
    intros F b counter rem Hs HF Hc Hr Hr2.
    destruct F as [|F]; [lia|]. cbn [validate_len_loop]. replace (4096 <=? counter) with false by lia.
    destruct (skipn_hd _ _ _ _ Hs) as [Hn Hs']. unfold b_peek. rewrite Hn, Ec.
    rewrite wrap_sub by lia. rewrite (K F b (counter + 1) (rem - 1)); [do 2 f_equal; lia| |lia|lia|lia|lia].
    replace (N.to_nat (counter + 1)) with (S (N.to_nat counter)) by lia. exact Hs'.
Qed.

(* the header of a decoded value *)
Lemma sl_value_hdr ts f ctx tag r0 x rest' : sl_value ts (S f) ctx (tag :: r0) = Some (Some x, rest') ->
  (tag mod 16 = 15 /\ rest' = r0) \/ (tag / 16 = 1 /\ tag mod 16 <= 1 /\ rest' = r0) \/
  (tag mod 16 <> 15 /\ tag / 16 <> 1 /\ tag / 16 <> 0 /\ tag / 16 <> 15 /\
   exists len r1 body,
    (if (tag mod 16 =? 14) || ((tag / 16 =? 13) && (tag mod 16 =? 1)) then lim_varuint r0 else Some (tag mod 16, r0))
      = Some (len, r1) /\ ((tag / 16 =? 13) && (tag mod 16 =? 1)) && (len =? 0) = false /\
    take_n len r1 = Some (body, rest')).
Proof.
  cbn [sl_value]. cbv zeta. destruct (tag / 16 =? 15) eqn:E15; [discriminate|].
  destruct (tag mod 16 =? 15) eqn:El.
  { destruct (null_type (tag / 16)); [|discriminate]. intros H. inversion H. left. split; [lia|reflexivity]. }
  destruct (tag / 16 =? 1) eqn:E1.
  { right; left. destruct (tag mod 16 =? 0) eqn:E0; [inversion H; repeat split; lia|].
    destruct (tag mod 16 =? 1) eqn:E11; [inversion H; repeat split; lia|discriminate]. }
  destruct (if (tag mod 16 =? 14) || ((tag / 16 =? 13) && (tag mod 16 =? 1)) then lim_varuint r0 else Some (tag mod 16, r0))
    as [[len r1]|]; [|discriminate].
  destruct ((tag / 16 =? 13) && (tag mod 16 =? 1) && (len =? 0)) eqn:Es0; [discriminate|].
  destruct (take_n len r1) as [[body rest]|] eqn:Etk; [|discriminate].
  destruct (tag / 16 =? 0) eqn:E0; [discriminate|].
  intros H. right; right. repeat (split; [lia|]). exists len, r1, body. split; [reflexivity|]. split; [exact Es0|].
  rewrite Etk. f_equal. f_equal.
  symmetry. revert H. generalize (Some x). revert rest'.
  match goal with |- forall r' a, ?X = Some (a, r') -> r' = rest =>
    assert (P : Prest rest X); [|intros r' a H; exact (P a r' H)] end.
  prest.
Qed.

Lemma validate_gen ts f ctx b vt vr x z : sl_value ts f ctx (vt :: vr) = Some (Some x, []) -> vt / 16 <> 14 ->
  Forall (fun c => c < 256) (vt :: vr) -> b_in b = (vt :: vr) ++ z -> (length (b_in b) + 2 <= b_fuel b)%nat ->
  N.of_nat (length (vt :: vr)) < two63 ->
  b_validate_annotated b (N.of_nat (length (vt :: vr))) = Ok tt.
Proof.
  intros Hsp H14 Hbytes Ein Hf Hlen. destruct f as [|f]; [discriminate|].
  inversion Hbytes as [|? ? Hvt Hvr]; subst.
  assert (vt = 16 * (vt / 16) + vt mod 16 /\ vt / 16 < 16 /\ vt mod 16 < 16) as (Etag & Ht16 & Hlo16) by lia.
  unfold b_validate_annotated, b_peek. rewrite Ein. cbn [app nth_error N.to_nat].
  rewrite Etag at 1. rewrite parse_tag_eq by lia.
  destruct (sl_value_hdr ts f ctx vt vr x [] Hsp) as [(El & Er)|[(Et & El & Er)|(El & Et1 & Et0 & Et15 & len & r1 & body & Eh & Es0 & Etk)]].
  - subst vr. rewrite El. reflexivity.
  - subst vr. rewrite Et. replace (vt mod 16 =? 15) with false by lia.
    change (bitcode_of_high 1 =? bcNull) with false. change (bitcode_of_high 1 =? bcAnnotation) with false.
    change (bitcode_of_high 1 =? bcFalse) with true. cbn [andb].
    assert (C : vt mod 16 = 0 \/ vt mod 16 = 1) by lia. destruct C as [C|C]; rewrite C; reflexivity.
  - replace (vt mod 16 =? 15) with false by lia.
    destruct (boh_facts (vt / 16)) as (F1 & F2 & F3 & F4 & F5); [lia|].
    assert (Hnull : (bitcode_of_high (vt / 16) =? bcNull) = false).
    { assert (C : vt / 16 = 2 \/ vt / 16 = 3 \/ vt / 16 = 4 \/ vt / 16 = 5 \/ vt / 16 = 6 \/ vt / 16 = 7 \/ vt / 16 = 8 \/
                  vt / 16 = 9 \/ vt / 16 = 10 \/ vt / 16 = 11 \/ vt / 16 = 12 \/ vt / 16 = 13) by lia.
      repeat (destruct C as [C|C]; [rewrite C; reflexivity|]). rewrite C; reflexivity. }
    assert (Hann : (bitcode_of_high (vt / 16) =? bcAnnotation) = false).
    { destruct (bitcode_of_high (vt / 16) =? bcAnnotation) eqn:Ea; [|reflexivity]. specialize (F4 eq_refl). lia. }
    assert (Hst : (bitcode_of_high (vt / 16) =? bcStruct) = (vt / 16 =? 13)).
    { destruct (boh_gen (vt / 16)) as (_ & _ & G & _); [lia|lia|exact G]. }
    rewrite Hnull, Hann, F2, Hst. cbn [andb].
    destruct (take_n_spec _ _ _ _ Etk) as [Er1 Eb]. rewrite app_nil_r in Er1. subst r1.
    cbn [length] in *. rewrite wrap_sub by (unfold two63, two64 in *; lia).
    destruct ((vt mod 16 =? 14) || (vt / 16 =? 13) && (vt mod 16 =? 1)) eqn:Ev.
    + destruct (lim_varuint_layout vr len body z Eh Hvr) as (ds & E0 & Hds & Hv64 & Hrd).
      pose proof (Hrd 10 ltac:(lia)) as Rt. unfold read_varuint in Rt.
      destruct (validate_len_loop_digits _ _ _ _ _ _ _ _ Rt) as [_ K].
      rewrite (K (b_fuel b) b 1 (N.of_nat (S (length vr)) - 1)).
      * rewrite E0, app_length. replace (len =? N.of_nat (S (length ds + length body)) - 1 - (N.of_nat (length ds) - 0)) with true by lia.
        reflexivity.
      * rewrite Ein. cbn [app N.to_nat Pos.to_nat Pos.iter_op Nat.add skipn]. rewrite E0, <- app_assoc. reflexivity.
      * rewrite Ein in Hf. cbn [app length] in Hf. rewrite E0, !app_length in Hf. lia.
      * lia.
      * rewrite E0, app_length. lia.
      * unfold two63, two64 in *. lia.
    + inversion Eh; subst len body. replace (vt mod 16 =? N.of_nat (S (length vr)) - 1) with true by lia. reflexivity.
Qed.

Section AnnGen.
Variable tot : N.
Hypothesis Htot : tot < two63.

Lemma annot_loop_gen tab ctx : TC tab ctx -> forall k ab ys, sl_annots ctx k ab = Some ys -> Forall (fun c => c < 256) ab ->
  forall fuel b rest acc, avail_ok b -> b_pos b < two64 -> b_in b = ab ++ rest -> (length ab < fuel)%nat ->
  N.of_nat (length ab) < two64 ->
  exists b' sids, annot_loop fuel b (sid_ok tab) (N.of_nat (length ab)) acc = (b', Ok (rev_append acc [] ++ sids)) /\
     adv (N.of_nat (length ab)) b b' /\ Forall2 (fun sid y => resolve_sid ctx sid = Some y) sids ys.
Proof.
  intros HTC. induction k as [|k IH]; intros ab ys Hs Hbytes fuel b rest acc A P Ein Hf Hl.
  - destruct ab; cbn [sl_annots] in Hs; [|discriminate]. inversion Hs; subst.
    destruct fuel as [|f]; [lia|]. cbn [annot_loop length N.of_nat N.eqb]. exists b, []. rewrite app_nil_r.
    split; [reflexivity|]. split; [apply adv_refl; exact P|constructor].
  - destruct ab as [|c0 ab'].
    { cbn [sl_annots] in Hs. inversion Hs; subst.
      destruct fuel as [|f]; [lia|]. cbn [annot_loop length N.of_nat N.eqb]. exists b, []. rewrite app_nil_r.
      split; [reflexivity|]. split; [apply adv_refl; exact P|constructor]. }
    set (ab := c0 :: ab') in *. cbn [sl_annots] in Hs. fold ab in Hs.
    destruct (lim_varuint ab) as [[sid r]|] eqn:Ev; [|discriminate].
    destruct (resolve_sid ctx sid) as [y|] eqn:Ey; [|discriminate].
    destruct (sl_annots ctx k r) as [ys'|] eqn:Er; [|discriminate]. inversion Hs; subst ys.
    destruct (lim_varuint_layout ab sid r rest Ev Hbytes) as (ds & E0 & Hds & Hv64 & Hrd).
    assert (Hbr : Forall (fun c => c < 256) r) by (rewrite E0 in Hbytes; apply Forall_app in Hbytes; apply Hbytes).
    destruct fuel as [|f]; [lia|]. cbn [annot_loop].
    replace (N.of_nat (length ab) =? 0) with false by (subst ab; cbn [length]; lia).
    assert (Rd : read_varuint (N.of_nat (length ab)) (b_in b) = Ok (sid, N.of_nat (length ds), r ++ rest)).
    { rewrite Ein, E0, <- app_assoc. apply Hrd. rewrite app_length. lia. }
    destruct (b_read_varuint_list b _ sid _ _ A Rd) as (b1 & E1 & Ad & I1).
    rewrite E1. destruct (resolve_tok tab ctx sid y HTC Ey) as (_ & Hok & _). rewrite Hok.
    assert (El : N.of_nat (length ab) = N.of_nat (length ds) + N.of_nat (length r)) by (rewrite E0, app_length; lia).
    rewrite wrap_sub by lia. replace (N.of_nat (length ab) - N.of_nat (length ds)) with (N.of_nat (length r)) by lia.
    assert (A1 : avail_ok b1) by (eapply wle_avail; eapply adv_wle; eauto).
    destruct (IH r ys' Er Hbr f b1 rest (sid :: acc) A1 (adv_pos_lt _ _ _ Ad) I1) as (b2 & sids & E2 & Ad2 & F2); [lia|lia|].
    exists b2, (sid :: sids). split; [|split].
    + rewrite E2. f_equal. f_equal. cbn [rev_append]. rewrite !rev_append_rev, !app_nil_r. cbn [rev].
      rewrite <- app_assoc. reflexivity.
    + eapply adv_eq; [eapply adv_trans; eauto|lia].
    + constructor; assumption.
Qed.

(* the whole of ReadAnnotations *)
Lemma read_annotations_gen ts f tab ctx b body alen r2 ab vt vr ys x rest stk : TC tab ctx ->
  Forall (fun c => c < 256) body ->
  lim_varuint body = Some (alen, r2) -> alen <> 0 -> take_n alen r2 = Some (ab, vt :: vr) ->
  sl_annots ctx (length ab) ab = Some ys -> vt / 16 <> 14 -> sl_value ts f ctx (vt :: vr) = Some (Some x, []) ->
  BS b (body ++ rest) bssOnValue stk tot -> b_len b = N.of_nat (length body) -> b_code b = bcAnnotation ->
  exists b' sids, b_read_annotations b (sid_ok tab) = (b', Ok sids) /\ BS b' ((vt :: vr) ++ rest) bssBeforeValue stk tot /\
    Forall2 (fun sid y => resolve_sid ctx sid = Some y) sids ys /\ b_ioerr b' = b_ioerr b.
Proof.
  intros HTC Hbytes Ev Ha0 Etk Hys H14 Hsp Hb El Ec. pose proof Hb as [I Ein St Es Nl Nw]. pose proof (bcore_avail _ (proj1 I)) as A.
  destruct (b_read_annotations_spec b (sid_ok tab) I St Ec) as [(W & _ & Post) _].
  destruct (lim_varuint_layout body alen r2 rest Ev Hbytes) as (ds & E0 & Hds & Hv64 & Hrd).
  destruct (take_n_spec _ _ _ _ Etk) as [E2 Eab]. set (vb := vt :: vr) in *.
  assert (Hb2 : Forall (fun c => c < 256) r2) by (rewrite E0 in Hbytes; apply Forall_app in Hbytes; apply Hbytes).
  assert (Hbab : Forall (fun c => c < 256) ab) by (rewrite E2 in Hb2; apply Forall_app in Hb2; apply Hb2).
  assert (Hbvb : Forall (fun c => c < 256) vb) by (rewrite E2 in Hb2; apply Forall_app in Hb2; apply Hb2).
  assert (Elen : N.of_nat (length body) = N.of_nat (length ds) + alen + N.of_nat (length vb)).
  { rewrite E0, E2, !app_length. lia. }
  assert (Hav : b_avail b = N.of_nat (length body) + N.of_nat (length rest)).
  { unfold avail_ok in A. rewrite A, Ein, !app_length. lia. }
  assert (Hx : 0 < N.of_nat (length vb)) by (subst vb; cbn [length]; lia).
  unfold b_read_annotations in *. rewrite Ec in *. change (negb (bcAnnotation =? bcAnnotation)) with false in *. cbv iota in *.
  assert (Rd : read_varuint (b_len b) (b_in b) = Ok (alen, N.of_nat (length ds), r2 ++ rest)).
  { rewrite Ein, E0, <- app_assoc. apply Hrd. lia. }
  destruct (b_read_varuint_list b _ alen _ _ A Rd) as (b1 & E1 & Ad1 & I1).
  rewrite E1 in *. replace (alen =? 0) with false in * by lia.
  assert (Hl64 : b_len b < two64) by (unfold two63, two64 in *; lia).
  rewrite wrap_sub in * by lia.
  replace (b_len b - N.of_nat (length ds) <? alen) with false in * by lia.
  rewrite wrap_sub in * by lia.
  replace (b_len b - N.of_nat (length ds) - alen) with (N.of_nat (length vb)) in * by lia.
  replace (N.of_nat (length vb) =? 0) with false in * by lia.
  assert (A1 : avail_ok b1) by (eapply wle_avail; eapply adv_wle; eauto).
  assert (Fu : (length (b_in b1) + 2 <= b_fuel b1)%nat).
  { pose proof (wk_wle _ _ (proj1 (proj1 I)) (adv_wle _ _ _ A Ad1)) as (_ & Fu & _). exact Fu. }
  rewrite E2, <- app_assoc in I1.
  assert (Hlen : (length ab < b_fuel b1)%nat) by (rewrite I1, !app_length in Fu; lia).
  rewrite <- Eab in *.
  destruct (annot_loop_gen tab ctx HTC _ ab ys Hys Hbab (b_fuel b1) b1 (vb ++ rest) [] A1 (adv_pos_lt _ _ _ Ad1) I1 Hlen)
    as (b2 & sids & E3 & Ad2 & F2); [unfold two63, two64 in *; lia|].
  rewrite E3 in *. cbn [rev_append app] in *.
  assert (I2 : b_in b2 = vb ++ rest).
  { rewrite (adv_in _ _ _ Ad2), I1. rewrite Nat2N.id. apply skipn_app_exact. }
  assert (Fu2 : (length (b_in b2) + 2 <= b_fuel b2)%nat).
  { pose proof (wk_wle _ _ (proj1 (proj1 I)) (wle_trans _ _ _ A (adv_wle _ _ _ A Ad1) (adv_wle _ _ _ A1 Ad2))) as (_ & Fu2 & _).
    exact Fu2. }
  assert (Hval : b_validate_annotated b2 (N.of_nat (length vb)) = Ok tt).
  { apply (validate_gen ts f ctx b2 vt vr x rest Hsp H14 Hbvb I2 Fu2). fold vb. clear - Elen El Hav A Htot Nw Hb.
    pose proof Hb as [I _ _ _ _ _]. pose proof (bcore_avail _ (proj1 I)). unfold two63 in *. lia. }
  rewrite Hval in *.
  cbn [fst snd] in Post, W. destruct (Post _ eq_refl) as (((Ib & _) & _) & _).
  eexists. exists sids. split; [reflexivity|].
  assert (Ad : adv (N.of_nat (length ds) + N.of_nat (length ab)) b b2) by (eapply adv_trans; eauto).
  pose proof (adv_pos _ _ _ Ad) as Q2. pose proof (adv_avail _ _ _ Ad) as Q3.
  pose proof (adv_stack _ _ _ Ad) as Q4.
  split; [|split; [exact F2|exact (wle_ioerr _ _ W)]].
  constructor; bsimpl; auto; try congruence.
  rewrite Q2, Q3, wrap_small by (unfold two63, two64 in *; lia). lia.
Qed.
End AnnGen.
