(* SpecAgreeLstP.v — C03 on the models, stages D and E: readLocalSymbolTable on every local symbol table the
   restricted specification decoder accepts (Bin/SpecLim.v, [lst_ok]): any representation, any open content,
   symbols / imports fields of any type, the append marker. *)
From Coq Require Import String List NArith ZArith Bool Lia ZifyBool ZifyN ZifyNat.
From IonV Require Import Base.Wire Base.Utf8 Bin.Bits Bin.BitsP Data.Ion Num.Float Bin.BitStream Bin.BinReader
  Bin.BitStreamP Bin.BitStreamNextP Bin.BinWriter Bin.SpecBin Bin.RoundTripBin Bin.RoundTripBinS Bin.BitEvalP
  Bin.BitEvalAnnP Bin.ReaderTrace Bin.BinReaderInvP Bin.BinReaderP Bin.ReaderTraceP Bin.ReaderTopP
  Bin.ReaderLstP Bin.SpecLim Bin.SpecLimP Bin.SpecLimAppP Bin.BitEvalGenP Bin.SpecAgreeP Bin.BitEvalAnnGenP Bin.SpecAgreeTravP
  Bin.SpecAgreeContP Bin.SpecAgreeTabP.
Import ListNotations.
Open Scope N_scope.
Ltac Zify.zify_post_hook ::= Z.div_mod_to_equations.

Ltac bsimpl :=
  cbn [b_in b_ioerr b_pos b_state b_stack b_code b_null b_len b_alloc b_avail b_fuel
       upd_in upd_state upd_stack upd_cur upd_alloc b_clear done_value fst snd] in *.
Ltac rsimpl :=
  cbn [r_bits r_ctx r_eof r_err r_lst r_field r_annots r_type r_value
       rs_bits rs_ctx rs_eof rs_err rs_lst rs_field rs_annots rs_val r_clear fst snd] in *.

Section Lst.
Variable ts : list N -> res unit.
Hypothesis Hts : forall bs, ts bs <> Panic /\ ts bs <> OutOfFuel.
Variable tot : N.
Hypothesis Htot : tot < two63.

(* ---- one Next over any value, without entering it -------------------------------------------------------------------------- *)
(* what the decoder saw inside a container *)
Definition CONT (f : nat) (ctx : symctx) (x : value) (t : N) (body : list N) : Prop :=
  match x with
  | VList vs => t = 11 /\ sp_items (sl_value ts f ctx) (length body) body = Some vs
  | VSexp vs => t = 12 /\ sp_items (sl_value ts f ctx) (length body) body = Some vs
  | VStruct fs => t = 13 /\ sp_items (sitem ts f ctx) (length body) body = Some fs
  | _ => False
  end.
(* the state after the Next: on a scalar, or on a container that has not been entered *)
Definition AFT (n : nat) (tab : rlst) (ctx : symctx) (r1 : rstate) (x : value) (rest outer : list N) (stk : list (N * N)) : Prop :=
  (is_scalar x /\ rvs x r1 /\ RS tot tab r1 rest outer stk /\
   (forall y, x = VSymbol y -> exists sid, r_value r1 = RSymbol (tok_of_sym y sid) /\ resolve_sid ctx sid = Some y)) \/
  (exists f t body, RK tot tab r1 t body rest outer stk /\ CONT f ctx x t body /\ BY body /\ (length body < n)%nat).

Lemma boh_not_bvm t : 11 <= t <= 13 -> bitcode_of_high t <> bcBVM.
Proof. intros H. assert (C : t = 11 \/ t = 12 \/ t = 13) by lia. destruct C as [C|[C|C]]; rewrite C; discriminate. Qed.

Lemma aft_pre2 n api tab ctx r1 x rest outer stk : AFT n tab ctx r1 x rest outer stk -> b_ioerr (r_bits r1) = false ->
  PRE2 ts tot api tab r1 rest outer stk.
Proof.
  intros [(_ & _ & Rs & _)|(f & t & body & Rk & _ & _ & _)] Hio.
  - apply RS_PRE2; assumption.
  - destruct Rk as [He Hf Hl Hc Ety Ht Ev Hb Ec El T].
    apply (RK_PRE2 ts Hts tot Htot api tab r1 body rest outer stk He Hf Hl Hc Hb El); auto. rewrite Ec. apply boh_not_bvm. exact Ht.
Qed.
Lemma aft_ctx n tab ctx r1 x rest outer stk : AFT n tab ctx r1 x rest outer stk -> r_ctx r1 = ctx_of_stk stk /\ r_err r1 = false /\ r_lst r1 = Some tab.
Proof.
  intros [(_ & _ & Rs & _)|(f & t & body & Rk & _ & _ & _)]; [destruct Rs|destruct Rk]; auto.
Qed.

Lemma next_val_na api tab ctx f tag r0 x rest' outer stk fld an r : TC tab ctx -> BY (tag :: r0) ->
  sl_value ts (S f) ctx (tag :: r0) = Some (Some x, rest') -> tag / 16 <> 14 -> stk <> [] ->
  PRE3 ts tot api tab r (tag :: r0) outer stk fld an ->
  exists r1, NXT ts api r = (r1, Ok true) /\ r_field r1 = fld /\ r_annots r1 = an /\
             AFT (length (tag :: r0)) tab ctx r1 x rest' outer stk /\ BY rest'.
Proof.
  intros HTC Hb Hsp H14 Hne P.
  assert (Hg : lst_guard stk an x) by (intros Q; contradiction).
  destruct (sl_value_cases ts Hts tot Htot f ctx tag r0 x rest' Hsp) as [(Hs & _)|(len & r1 & body & (Hlo & Hlen & Hs0) & Htk & C)].
  { destruct (next_scalar3 ts Hts tot Htot api tab ctx r f tag r0 x rest' outer stk fld an HTC Hg Hb Hsp Hs P)
      as (r1 & En & He1 & Hf1 & Ha1 & Rv & Rs & Hbr).
    exists r1. split; [exact En|]. split; [exact Hf1|]. split; [exact Ha1|]. split; [|exact Hbr].
    left. split; [exact Hs|]. split; [exact Rv|]. split; [exact Rs|].
    intros y ->. destruct P as (K & r0' & fuel & b1 & En0 & He & Hfe & Hl & Hc & Hf & Ha & Hn & Hb1 & Hio1 & T & HK).
    destruct (raw_symbol_sid ts tot Htot tab ctx HTC api fuel r0' b1 f tag r0 y rest' outer stk Hb Hsp Hb1 T Hn Hl)
      as (r1' & sid & Eraw & Ev & Ery).
    destruct K as [|k]; [cbn [length] in HK; lia|].
    assert (r1' = r1).
    { rewrite En0 in En. cbn [r_next_loop] in En. rewrite Eraw in En. inversion En. reflexivity. }
    subst r1'. exists sid. auto. }
  assert (Hgs : tag / 16 = 13 -> stk = [] -> is_ion_symbol_table an = false) by (intros _ Q; contradiction).
  assert (Ht : 11 <= tag / 16 <= 13) by (destruct C as [(Q & _)|[(Q & _)|[(Q & _)|(Q & _)]]]; lia).
  destruct (next_cont3 ts Hts tot Htot api tab r tag r0 len r1 body rest' outer stk fld an Hb Ht Hlo Hlen Hs0 Htk Hgs P)
    as (r1' & En & Hf1 & Ha1 & Rk & Hbb & Hbr).
  exists r1'. split; [exact En|]. split; [exact Hf1|]. split; [exact Ha1|]. split; [|exact Hbr].
  right. exists f, (tag / 16), body. split; [exact Rk|].
  split; [destruct C as [(Q & vs & -> & Hit)|[(Q & vs & -> & Hit)|[(Q & fs & -> & Hit)|(Q & _)]]]; cbn [CONT]; auto; lia|].
  split; [exact Hbb|]. destruct (hdr_len ts Hts tot Htot tag r0 len r1 body rest' (Forall_inv_tail Hb) (conj Hlo (conj Hlen Hs0)) Htk) as [Hl _].
  cbn [length]. lia.
Qed.

Lemma aft_mono n n' tab ctx r1 x rest outer stk : (n <= n')%nat -> AFT n tab ctx r1 x rest outer stk -> AFT n' tab ctx r1 x rest outer stk.
Proof.
  intros Hn [A|(f & t & body & Rk & C & Hbb & Hlt)]; [left; exact A|right]. exists f, t, body. repeat (split; [assumption|]). lia.
Qed.

Lemma next_val api tab ctx f l v rest' outer stk fld r : TC tab ctx -> BY l ->
  sl_value ts f ctx l = Some (Some v, rest') -> stk <> [] -> PRE3 ts tot api tab r l outer stk fld [] ->
  exists r1, NXT ts api r = (r1, Ok true) /\ r_field r1 = fld /\ AFT (length l) tab ctx r1 (strip_ann v) rest' outer stk /\ BY rest'.
Proof.
  intros HTC Hb Hsp Hne P. destruct f as [|f]; [discriminate|]. destruct l as [|tag r0]; [discriminate|].
  destruct (tag / 16 =? 14) eqn:E14.
  2:{ destruct (next_val_na api tab ctx f tag r0 v rest' outer stk fld [] r HTC Hb Hsp ltac:(lia) Hne P) as (r1 & En & Hf1 & _ & A & Hbr).
      exists r1. split; [exact En|]. split; [exact Hf1|]. split; [|exact Hbr].
      replace (strip_ann v) with v; [exact A|].
      destruct v; try reflexivity. exfalso.
      destruct (sl_value_cases ts Hts tot Htot f ctx tag r0 _ rest' Hsp) as [(Hs & _)|(len & r1' & body & HH & Htk & C)]; [exact Hs|].
      destruct C as [(Q & vs & Q2 & _)|[(Q & vs & Q2 & _)|[(Q & fs & Q2 & _)|(Q & _)]]]; try discriminate. lia. }
  destruct (sl_value_cases ts Hts tot Htot f ctx tag r0 v rest' Hsp) as [(_ & Q)|(len & r1 & body & HH & Htk & C)]; [lia|].
  destruct C as [(Q & _)|[(Q & _)|[(Q & _)|(_ & H3 & alen & r2 & ab & vb & ys & x & vt & vr & Ev & Ha0 & Etk2 & Hys & -> & Hvt & Hx & ->)]]];
    try lia.
  destruct (ann3 ts Hts tot Htot api tab ctx r f tag r0 len r1 body rest' outer stk fld alen r2 ab vt vr ys x HTC Hb ltac:(lia) HH Htk H3 Ev Ha0 Etk2
              Hys Hvt Hx P) as (an & Har & P3 & Hbvb & Hbr).
  pose proof (sl_value_app ts rest' _ _ _ _ _ Hx) as Hx'. cbn [app] in Hx', P3.
  assert (Hbl : BY (vt :: vr ++ rest')).
  { change (vt :: vr ++ rest') with ((vt :: vr) ++ rest'). apply Forall_app. split; assumption. }
  destruct f as [|f']; [discriminate|].
  destruct (next_val_na api tab ctx f' vt (vr ++ rest') x rest' outer stk fld an r HTC Hbl Hx' Hvt Hne P3) as (r1' & En & Hf1 & _ & A & _).
  exists r1'. cbn [strip_ann]. split; [exact En|]. split; [exact Hf1|]. split; [|exact Hbr].
  apply (aft_mono (length (vt :: vr ++ rest'))); [|exact A].
  destruct (hdr_len ts Hts tot Htot tag r0 len r1 body rest' (Forall_inv_tail Hb) HH Htk) as [Hl Hbb].
  destruct (lim_varuint_layout body alen r2 [] Ev Hbb) as (ds & E0 & _). destruct (take_n_spec _ _ _ _ Etk2) as [E2 _].
  rewrite E0, E2, !app_length in Hl. cbn [length] in *. rewrite app_length. lia.
Qed.

(* ---- the invariant and the I/O flag across the inner Next, StepIn and StepOut --------------------------------------------------- *)
Definition PN : rstate -> rstate * res bool := fun r0 => (r0, Panic).
Definition NI : rstate -> rstate * res bool := NXT ts PN.
Lemma ni_inner : r_next_inner ts = NI.
Proof. reflexivity. Qed.

Lemma ni_rio r r1 x : RIO r -> r_ctx r <> [] -> NI r = (r1, x) ->
  RIO r1 /\ (r_err r1 = false -> r_ctx r1 = r_ctx r).
Proof.
  intros [Ri Io] Nc E. pose proof (r_next_inner_ok ts Hts r Ri Nc) as [W P]. rewrite ni_inner, E in W, P. cbn [fst snd] in *.
  destruct x as [[|]| | |]; try contradiction.
  - destruct P as (G1 & Ec & _). split; [split; [apply G_RInv; exact G1|rewrite (wle_ioerr _ _ W); exact Io]|intros _; exact Ec].
  - destruct P as (R1 & Ec). split; [split; [exact R1|rewrite (wle_ioerr _ _ W); exact Io]|exact Ec].
Qed.
Lemma so_rio r4 r5 : RIO r4 -> r_ctx r4 <> [] -> r_step_out r4 = (r5, Ok true) -> RIO r5.
Proof.
  intros [Ri Io] Nc E. destruct (r_step_out_spec r4 Ri (fun _ => Nc)) as [W P]. rewrite E in W, P. cbn [fst snd] in *.
  destruct P as [P _]. destruct (P eq_refl) as (G5 & _). split; [apply G_RInv; exact G5|rewrite (wle_ioerr _ _ W); exact Io].
Qed.
Lemma si_rio r1 r2 : RIO r1 -> r_err r1 = false -> r_step_in r1 = (r2, Ok true) -> RIO r2.
Proof.
  intros [[Wk [He|Hg]] Io] He1 E; [congruence|].
  destruct (r_step_in_spec r1 (conj Hg He1)) as [W P]. rewrite E in W, P. cbn [fst snd] in *.
  destruct P as (G2 & _). split; [apply G_RInv; exact G2|rewrite (wle_ioerr _ _ W); exact Io].
Qed.

(* about to call the inner Next *)
Definition ST (tab : rlst) (r : rstate) (l outer : list N) (stk : list (N * N)) : Prop :=
  PRE2 ts tot PN tab r l outer stk /\ RIO r /\ r_ctx r <> [].

Lemma ctx_ne stk : stk <> [] -> ctx_of_stk stk <> [].
Proof. destruct stk; [contradiction|discriminate]. Qed.

Lemma rs_st tab r l outer stk : stk <> [] -> RS tot tab r l outer stk -> RIO r -> ST tab r l outer stk.
Proof.
  intros Hne Rs Rio. split; [apply RS_PRE2; [exact Rs|apply Rio]|]. split; [exact Rio|].
  rewrite (rz_ctx _ _ _ _ _ _ Rs). apply ctx_ne. exact Hne.
Qed.

(* one inner Next over any value *)
Lemma st_val tab ctx f l v rest' outer stk fld r : TC tab ctx -> BY l -> sl_value ts f ctx l = Some (Some v, rest') ->
  stk <> [] -> PRE3 ts tot PN tab r l outer stk fld [] -> RIO r -> r_ctx r <> [] ->
  exists r1, NI r = (r1, Ok true) /\ r_field r1 = fld /\ AFT (length l) tab ctx r1 (strip_ann v) rest' outer stk /\ BY rest' /\
             ST tab r1 rest' outer stk.
Proof.
  intros HTC Hb Hsp Hne P Rio Nc.
  destruct (next_val PN tab ctx f l v rest' outer stk fld r HTC Hb Hsp Hne P) as (r1 & En & Hf1 & A & Hbr).
  destruct (ni_rio r r1 _ Rio Nc En) as [Rio1 _]. destruct (aft_ctx _ _ _ _ _ _ _ _ A) as (Ec & _).
  exists r1. repeat (split; [assumption|]).
  split; [apply (aft_pre2 _ PN tab ctx r1 _ rest' outer stk A (proj2 Rio1))|]. split; [exact Rio1|].
  rewrite Ec. apply ctx_ne. exact Hne.
Qed.

(* the end of a container: the inner Next says so, StepOut leaves *)
Lemma st_end tab r c e stk rest outer : ST tab r [] (rest ++ outer) ((c, e) :: stk) -> top_ok tot stk outer ->
  exists r4 r5, NI r = (r4, Ok false) /\ r_err r4 = false /\ r_step_out r4 = (r5, Ok true) /\ RS tot tab r5 rest outer stk /\ RIO r5 /\
                r_field r5 = None /\ r_annots r5 = [].
Proof.
  intros (P & Rio & Nc) T. destruct (next_end3 ts Hts tot Htot PN tab r c e stk rest outer P T) as (r4 & r5 & En & He4 & Eso & Rs5 & F5 & A5).
  destruct (ni_rio r r4 _ Rio Nc En) as [Rio4 Ec4].
  exists r4, r5. repeat (split; [assumption|]). split; [|auto]. apply (so_rio r4 r5 Rio4); [rewrite (Ec4 He4); exact Nc|exact Eso].
Qed.

(* ---- readSymbols ------------------------------------------------------------------------------------------------------------ *)
Lemma aft_sym n tab ctx r1 x rest outer stk : AFT n tab ctx r1 x rest outer stk ->
  (if r_type r1 =? TString then match r_value r1 with RString t => t | _ => [] end else []) =
  match x with VString t => t | _ => [] end.
Proof.
  intros [(Hs & (Et & Ev) & _)|(f & t & body & Rk & C & _ & _)].
  - destruct x; try destruct Hs; cbn [vtype val_rel_s] in *; rewrite Et; try reflexivity.
    + destruct Ev as [-> _]. destruct (t =? TString); reflexivity.
    + rewrite Ev. reflexivity.
  - destruct Rk as [_ _ _ _ Ety Ht _ _ _ _ _]. rewrite Ety. replace (t =? TString) with false by (unfold TString; lia).
    destruct x; cbn [CONT] in C; try contradiction; reflexivity.
Qed.

Lemma rsl f ctx tab : TC tab ctx -> forall k body es, sp_items (sl_value ts f ctx) k body = Some es -> BY body ->
  forall fuel r acc e stk rest outer, (length body < fuel)%nat ->
  ST tab r body (rest ++ outer) ((bcList, e) :: stk) -> top_ok tot stk outer ->
  exists r4 r5, read_symbols_loop NI fuel r acc = (r4, Ok (acc ++ map sym_text es)) /\ r_err r4 = false /\
                r_step_out r4 = (r5, Ok true) /\ RS tot tab r5 rest outer stk /\ RIO r5.
Proof.
  intros HTC. induction k as [|k IH]; intros body es Hs Hb fuel r acc e stk rest outer Hfu St T.
  { destruct body; cbn [sp_items] in Hs; inversion Hs; subst. destruct fuel as [|fu]; [lia|].
    destruct (st_end tab r bcList e stk rest outer St T) as (r4 & r5 & En & He4 & Eso & Rs5 & Rio5 & _).
    exists r4, r5. cbn [read_symbols_loop map]. rewrite En, app_nil_r. auto. }
  destruct body as [|tag r0].
  { cbn [sp_items] in Hs. inversion Hs; subst. destruct fuel as [|fu]; [lia|].
    destruct (st_end tab r bcList e stk rest outer St T) as (r4 & r5 & En & He4 & Eso & Rs5 & Rio5 & _).
    exists r4, r5. cbn [read_symbols_loop map]. rewrite En, app_nil_r. auto. }
  cbn [sp_items] in Hs. destruct (sl_value ts f ctx (tag :: r0)) as [[[v|] rest']|] eqn:E; [| |discriminate].
  - destruct (sp_items (sl_value ts f ctx) k rest') as [es'|] eqn:E2; [|discriminate]. inversion Hs; subst es.
    destruct St as (P & Rio & Nc).
    destruct (st_val tab ctx f (tag :: r0) v rest' (rest ++ outer) ((bcList, e) :: stk) None r HTC Hb E ltac:(discriminate)
                (to3 ts tot _ _ _ _ _ _ P eq_refl) Rio Nc) as (r1 & En & _ & A & Hbr & St1).
    destruct (sl_value_suffix _ _ _ _ _ _ Hb E) as (pre & Ep & Hne).
    destruct fuel as [|fu]; [lia|].
    destruct (IH rest' es' E2 Hbr fu r1 (acc ++ [sym_text v]) e stk rest outer) as (r4 & r5 & E4 & He4 & Eso & Rs5 & Rio5);
      [rewrite Ep, app_length in Hfu; destruct pre; [contradiction|cbn [length] in Hfu; lia]|exact St1|exact T|].
    exists r4, r5. split; [|auto]. cbn [read_symbols_loop map]. rewrite En.
    rewrite (aft_sym _ tab ctx r1 (strip_ann v) _ _ _ A). change (match strip_ann v with VString t => t | _ => [] end) with (sym_text v).
    rewrite <- app_assoc in E4. exact E4.
  - destruct f as [|f']; [discriminate|]. destruct St as (P & Rio & Nc).
    destruct (pre2_pad ts Hts tot Htot PN tab ctx r f' tag r0 rest' (rest ++ outer) ((bcList, e) :: stk) HTC eq_refl Hb E P) as (P1 & Hbr).
    destruct (sl_value_suffix _ _ _ _ _ _ Hb E) as (pre & Ep & Hne).
    apply (IH rest' es Hs Hbr fuel r acc e stk rest outer); [|split; [exact P1|split; assumption]|exact T].
    rewrite Ep, app_length in Hfu. lia.
Qed.

(* the value of the symbols field, as the reader takes it *)
Lemma aft_st n tab ctx r1 x rest outer stk : stk <> [] -> AFT n tab ctx r1 x rest outer stk -> RIO r1 -> ST tab r1 rest outer stk.
Proof.
  intros Hne A Rio. destruct (aft_ctx _ _ _ _ _ _ _ _ A) as (Ec & _).
  split; [apply (aft_pre2 n PN tab ctx r1 x rest outer stk A (proj2 Rio))|]. split; [exact Rio|].
  rewrite Ec. apply ctx_ne. exact Hne.
Qed.

Lemma read_symbols_any n tab ctx r3 x rest outer stk fuel : TC tab ctx -> stk <> [] ->
  AFT n tab ctx r3 x rest outer stk -> RIO r3 -> (n <= fuel)%nat ->
  exists r5, read_symbols NI fuel r3 = (r5, Ok (syms_of x)) /\ ST tab r5 rest outer stk /\ r_lst r5 = Some tab.
Proof.
  intros HTC Hne A Rio Hfu. pose proof (aft_st n tab ctx r3 x rest outer stk Hne A Rio) as St3.
  destruct (aft_ctx _ _ _ _ _ _ _ _ A) as (_ & _ & Hl3).
  assert (Skip : (negb (r_type r3 =? TList) || r_is_null r3 = true) -> syms_of x = [] ->
                 exists r5, read_symbols NI fuel r3 = (r5, Ok (syms_of x)) /\ ST tab r5 rest outer stk /\ r_lst r5 = Some tab).
  { intros Q Ex. exists r3. unfold read_symbols. rewrite Q, Ex. auto. }
  destruct A as [(Hs & (Et & Ev) & Rs & _)|(f & t & body & Rk & C & Hbb & Hlt)].
  - apply Skip; [|destruct x; try destruct Hs; reflexivity].
    destruct x; try destruct Hs; cbn [vtype val_rel_s] in *; rewrite ?Et; try reflexivity.
    unfold r_is_null. destruct Ev as [-> Ht0]. rewrite Et. replace (t =? 0) with false by lia. cbn. apply orb_true_r.
  - pose proof Rk as [He Hf Hl Hc Ety Ht Ev Hb Ec El T].
    destruct x; cbn [CONT] in C; try contradiction; destruct C as [-> Hit].
    + (* a list *)
      destruct (step_in3 ts Hts tot Htot tab r3 11 body rest outer stk Rk) as (r4 & e & Esi & Rs4 & _ & _).
      change (bitcode_of_high 11) with bcList in Rs4.
      pose proof (si_rio r3 r4 Rio He Esi) as Rio4.
      assert (Hlen : (length body < fuel)%nat) by lia.
      destruct (rsl f ctx tab HTC _ body l Hit Hbb fuel r4 [] e stk rest outer Hlen
                  (rs_st tab r4 body (rest ++ outer) ((bcList, e) :: stk) ltac:(discriminate) Rs4 Rio4) T)
        as (r6 & r5 & Elp & He6 & Eso & Rs5 & Rio5).
      exists r5. split; [|split; [apply rs_st; assumption|apply Rs5]].
      unfold read_symbols. rewrite Ety. unfold r_is_null. rewrite Ev, andb_false_r.
      change (negb (11 =? TList) || false) with false. cbv iota. rewrite Esi, Elp, Eso. reflexivity.
    + apply Skip; [rewrite Ety; reflexivity|reflexivity].
    + apply Skip; [rewrite Ety; reflexivity|reflexivity].
Qed.

(* ---- readImports (no catalog) ------------------------------------------------------------------------------------------------ *)
Lemma aft_notstruct n tab ctx r1 x rest outer stk : AFT n tab ctx r1 x rest outer stk ->
  match x with VStruct _ => False | _ => True end -> negb (r_type r1 =? TStruct) || r_is_null r1 = true.
Proof.
  intros [(Hs & (Et & Ev) & _)|(f & t & body & Rk & C & _ & _)] Hx.
  - destruct x; try destruct Hs; cbn [vtype val_rel_s] in *; rewrite Et; try reflexivity.
    unfold r_is_null. destruct Ev as [-> Ht0]. rewrite Et. replace (t =? 0) with false by lia. cbn. apply orb_true_r.
  - destruct Rk as [_ _ _ _ Ety _ _ _ _ _ _]. rewrite Ety.
    destruct x; cbn [CONT] in C; try contradiction; destruct C as [-> _]; reflexivity.
Qed.

(* what the fields of an import struct look at *)
Lemma aft_shape n tab ctx r1 x rest outer stk : AFT n tab ctx r1 x rest outer stk ->
  (exists nm, x = VString nm /\ r_type r1 = TString /\ r_value r1 = RString nm) \/
  (exists z iv, x = VInt z /\ r_type r1 = TInt /\ r_value r1 = RInt iv /\ int_z iv = z /\ r_is_null r1 = false) \/
  (exists ty, x = VNull ty /\ r_type r1 = ty /\ r_value r1 = RNil /\ r_is_null r1 = true) \/
  ((r_type r1 =? TString) = false /\ (r_type r1 =? TInt) = false /\
   match x with VString _ | VInt _ | VNull _ | VAnn _ _ => False | _ => True end).
Proof.
  intros [(Hs & (Et & Ev) & _)|(f & t & body & Rk & C & _ & _)].
  - destruct x; try destruct Hs; cbn [vtype val_rel_s] in *;
      try (right; right; right; rewrite Et; split; [reflexivity|split; [reflexivity|exact Logic.I]]).
    + right; right; left. destruct Ev as [Ev Ht0]. exists t. repeat split; auto. unfold r_is_null. rewrite Ev, Et.
      replace (t =? 0) with false by lia. reflexivity.
    + right; left. destruct Ev as (iv & Ev & Ez). exists z, iv. repeat split; auto. unfold r_is_null. rewrite Ev. apply andb_false_r.
    + left. exists t. auto.
  - right; right; right. destruct Rk as [_ _ _ _ Ety Ht _ _ _ _ _]. rewrite Ety.
    split; [unfold TString; lia|]. split; [unfold TInt; lia|]. destruct x; cbn [CONT] in C; try contradiction; exact Logic.I.
Qed.

Lemma rdl f ctx tab : TC tab ctx -> forall k body fs, sp_items (sitem ts f ctx) k body = Some fs -> BY body ->
  forall fuel r d e stk rest outer d', (length body < fuel)%nat ->
  ST tab r body (rest ++ outer) ((bcStruct, e) :: stk) -> top_ok tot stk outer -> rd_fold fs d = Some d' ->
  exists r4 r5, read_import_loop NI fuel r d = (r4, Ok d') /\ r_err r4 = false /\
                r_step_out r4 = (r5, Ok true) /\ RS tot tab r5 rest outer stk /\ RIO r5.
Proof.
  intros HTC. induction k as [|k IH]; intros body fs Hs Hb fuel r d e stk rest outer d' Hfu St T Hfold.
  { destruct body; cbn [sp_items] in Hs; inversion Hs; subst. cbn [rd_fold] in Hfold. inversion Hfold; subst.
    destruct fuel as [|fu]; [lia|].
    destruct (st_end tab r bcStruct e stk rest outer St T) as (r4 & r5 & En & He4 & Eso & Rs5 & Rio5 & _).
    exists r4, r5. cbn [read_import_loop]. rewrite En. auto 10. }
  destruct body as [|c0 l0].
  { cbn [sp_items] in Hs. inversion Hs; subst. cbn [rd_fold] in Hfold. inversion Hfold; subst.
    destruct fuel as [|fu]; [lia|].
    destruct (st_end tab r bcStruct e stk rest outer St T) as (r4 & r5 & En & He4 & Eso & Rs5 & Rio5 & _).
    exists r4, r5. cbn [read_import_loop]. rewrite En. auto 10. }
  set (l := c0 :: l0) in *. cbn [sp_items] in Hs. fold l in Hs. unfold sitem at 1 in Hs.
  destruct (lim_varuint l) as [[sid r1]|] eqn:Ev; [|discriminate].
  destruct (resolve_sid ctx sid) as [y|] eqn:Ey; [|discriminate].
  destruct St as (P & Rio & Nc).
  destruct (field3 ts Hts tot Htot PN tab ctx r l sid r1 y (rest ++ outer) bcStruct e stk HTC eq_refl Hb Ev Ey P) as (P3 & Hb1).
  destruct (lim_varuint_layout l sid r1 [] Ev Hb) as (ds0 & Q & Hds0 & _).
  destruct (sl_value ts f ctx r1) as [[[v|] rest']|] eqn:E; [| |discriminate].
  - destruct (sp_items (sitem ts f ctx) k rest') as [fs'|] eqn:E2; [|discriminate]. inversion Hs; subst fs.
    destruct (st_val tab ctx f r1 v rest' (rest ++ outer) ((bcStruct, e) :: stk) (Some (tok_of_sym y sid)) r HTC Hb1 E
                ltac:(discriminate) P3 Rio Nc) as (r2 & En & Hf2 & A & Hbr & St2).
    destruct (sl_value_suffix _ _ _ _ _ _ Hb1 E) as (pre & Ep & Hne).
    destruct (aft_ctx _ _ _ _ _ _ _ _ A) as (_ & He2 & _).
    assert (Hlen' : (length rest' + 2 <= length l)%nat).
    { rewrite Q, Ep, !app_length. destruct pre; [contradiction|]. cbn [length]. lia. }
    destruct fuel as [|fu]; [lia|].
    cbn [read_import_loop]. rewrite En, He2. unfold field_text. rewrite Hf2. cbn [tok_of_sym tk_text].
    destruct y as [t|m]; [|cbn [rd_fold] in Hfold; discriminate]. cbn [rd_fold] in Hfold.
    assert (Go : forall d1, rd_fold fs' d1 = Some d' ->
              exists r4 r5, read_import_loop NI fu r2 d1 = (r4, Ok d') /\ r_err r4 = false /\
                r_step_out r4 = (r5, Ok true) /\ RS tot tab r5 rest outer stk /\ RIO r5).
    { intros d1 H1. apply (IH rest' fs' E2 Hbr fu r2 d1 e stk rest outer d'); auto. lia. }
    destruct (aft_shape _ _ _ _ _ _ _ _ A) as [(nm & Ex & Et & Evv)|[(z & iv & Ex & Et & Evv & Ez & Hnn)|[(ty & Ex & Et & Evv & Hnn)|(N1 & N2 & Hx)]]].
    + rewrite Ex in Hfold. rewrite Et, Evv. change (TString =? TString) with true. change (TString =? TInt) with false. cbv iota.
      destruct (list_eqb t (s "name"%string)); [apply Go; exact Hfold|].
      destruct (list_eqb t (s "version"%string)); [apply Go; exact Hfold|].
      destruct (list_eqb t (s "max_id"%string)); apply Go; exact Hfold.
    + rewrite Ex in Hfold. rewrite Et, Evv, Hnn. change (TInt =? TString) with false. change (TInt =? TInt) with true. cbv iota.
      assert (Ezz : match iv with I64 z0 => z0 | IBig z0 => z0 end = z) by (destruct iv; exact Ez). rewrite Ezz.
      destruct (list_eqb t (s "name"%string)); [apply Go; exact Hfold|].
      destruct (list_eqb t (s "version"%string)).
      * unfold int32 in Hfold.
        destruct ((-2147483648 <=? z)%Z && (z <=? 2147483647)%Z) eqn:E32; [|discriminate].
        replace ((-9223372036854775808 <=? z)%Z && (z <=? 9223372036854775807)%Z) with true by lia. cbn [negb].
        replace ((2147483647 <? z)%Z || (z <? -2147483648)%Z) with false by lia. apply Go; exact Hfold.
      * destruct (list_eqb t (s "max_id"%string)); [|apply Go; exact Hfold].
        unfold int64 in Hfold. destruct ((-9223372036854775808 <=? z)%Z && (z <=? 9223372036854775807)%Z); [|discriminate].
        cbn [negb]. apply Go; exact Hfold.
    + rewrite Ex in Hfold. rewrite Et, Evv, Hnn.
      destruct (list_eqb t (s "name"%string)); [destruct (ty =? TString); apply Go; exact Hfold|].
      destruct (list_eqb t (s "version"%string)); [destruct (ty =? TInt); apply Go; exact Hfold|].
      destruct (list_eqb t (s "max_id"%string)); [|apply Go; exact Hfold].
      destruct (ty =? TInt); [discriminate|apply Go; exact Hfold].
    + rewrite N1, N2.
      assert (Hf' : rd_fold fs' d = Some d').
      { destruct (strip_ann v); try contradiction; repeat (destruct (list_eqb t _) in Hfold; try exact Hfold). }
      destruct (list_eqb t (s "name"%string)); [apply Go; exact Hf'|].
      destruct (list_eqb t (s "version"%string)); [apply Go; exact Hf'|].
      destruct (list_eqb t (s "max_id"%string)); apply Go; exact Hf'.
  - destruct f as [|f']; [discriminate|]. destruct r1 as [|tag r0]; [discriminate|].
    destruct (pad3 ts Hts tot Htot PN tab ctx r f' tag r0 rest' (rest ++ outer) ((bcStruct, e) :: stk) _ HTC ltac:(intros Q0; discriminate) Hb1 E P3)
      as (P1 & Hbr).
    destruct (sl_value_suffix _ _ _ _ _ _ Hb1 E) as (pre & Ep & Hne).
    apply (IH rest' fs Hs Hbr fuel r d e stk rest outer d'); [|split; [exact P1|split; assumption]|exact T|exact Hfold].
    rewrite Q, Ep, !app_length in Hfu. lia.
Qed.

(* one element of the imports list *)
Lemma read_import_any n tab ctx r1 x rest outer stk fuel o : TC tab ctx -> stk <> [] ->
  AFT n tab ctx r1 x rest outer stk -> RIO r1 -> (n <= fuel)%nat -> match x with VAnn _ _ => False | _ => True end ->
  rd_import x = Some o ->
  exists r5, read_import NI fuel r1 = (r5, Ok o) /\ ST tab r5 rest outer stk.
Proof.
  intros HTC Hne A Rio Hfu Hna Hrd. pose proof (aft_st n tab ctx r1 x rest outer stk Hne A Rio) as St1.
  destruct x; try (cbn [rd_import] in Hrd; inversion Hrd; subst o; exists r1; split; [|exact St1];
                   unfold read_import; rewrite (aft_notstruct _ _ _ _ _ _ _ _ A Logic.I); reflexivity).
  destruct A as [(Hs & _)|(f & t & body & Rk & C & Hbb & Hlt)]; [destruct Hs|].
  cbn [CONT] in C. destruct C as [-> Hit]. pose proof Rk as [He Hf Hl Hc Ety Ht Ev Hb Ec El T].
  destruct (step_in3 ts Hts tot Htot tab r1 13 body rest outer stk Rk) as (r2 & e & Esi & Rs2 & _ & _).
  change (bitcode_of_high 13) with bcStruct in Rs2.
  pose proof (si_rio r1 r2 Rio He Esi) as Rio2.
  cbn [rd_import] in Hrd. destruct (rd_fold l d0) as [d'|] eqn:Ef; [|discriminate].
  destruct (rdl f ctx tab HTC _ body l Hit Hbb fuel r2 d0 e stk rest outer d' ltac:(lia)
              (rs_st tab r2 body (rest ++ outer) ((bcStruct, e) :: stk) ltac:(discriminate) Rs2 Rio2) T Ef)
    as (r4 & r5 & Elp & He4 & Eso & Rs5 & Rio5).
  exists r5. split; [|apply rs_st; assumption].
  unfold read_import. rewrite Ety. unfold r_is_null. rewrite Ev, andb_false_r.
  change (negb (13 =? TStruct) || false) with false. cbv iota. fold d0. rewrite Esi, Elp, Eso.
  destruct (list_eqb (id_name d') [] || list_eqb (id_name d') (s "$ion"%string)); [inversion Hrd; reflexivity|].
  destruct (id_maxid d' <? 0)%Z; [discriminate|]. inversion Hrd; reflexivity.
Qed.

Lemma strip_na v : match strip_ann v with VAnn _ _ => False | _ => True end \/ exists a b c, v = VAnn a (VAnn b c).
Proof. destruct v; cbn [strip_ann]; try (left; exact Logic.I). destruct v; try (left; exact Logic.I). right; eauto. Qed.

Lemma ril f ctx tab : TC tab ctx -> forall k body es, sp_items (sl_value ts f ctx) k body = Some es -> BY body ->
  forall fuel r acc e stk rest outer im, (length body < fuel)%nat ->
  ST tab r body (rest ++ outer) ((bcList, e) :: stk) -> top_ok tot stk outer -> rd_imports es acc = Some im ->
  exists r4 r5, read_imports_loop NI fuel r acc = (r4, Ok im) /\ r_err r4 = false /\
                r_step_out r4 = (r5, Ok true) /\ RS tot tab r5 rest outer stk /\ RIO r5.
Proof.
  intros HTC. induction k as [|k IH]; intros body es Hs Hb fuel r acc e stk rest outer im Hfu St T Hrd.
  { destruct body; cbn [sp_items] in Hs; inversion Hs; subst. cbn [rd_imports] in Hrd. inversion Hrd; subst.
    destruct fuel as [|fu]; [lia|].
    destruct (st_end tab r bcList e stk rest outer St T) as (r4 & r5 & En & He4 & Eso & Rs5 & Rio5 & _).
    exists r4, r5. cbn [read_imports_loop]. rewrite En. auto. }
  destruct body as [|tag r0].
  { cbn [sp_items] in Hs. inversion Hs; subst. cbn [rd_imports] in Hrd. inversion Hrd; subst. destruct fuel as [|fu]; [lia|].
    destruct (st_end tab r bcList e stk rest outer St T) as (r4 & r5 & En & He4 & Eso & Rs5 & Rio5 & _).
    exists r4, r5. cbn [read_imports_loop]. rewrite En. auto. }
  cbn [sp_items] in Hs. destruct (sl_value ts f ctx (tag :: r0)) as [[[v|] rest']|] eqn:E; [| |discriminate].
  - destruct (sp_items (sl_value ts f ctx) k rest') as [es'|] eqn:E2; [|discriminate]. inversion Hs; subst es.
    destruct St as (P & Rio & Nc).
    destruct (st_val tab ctx f (tag :: r0) v rest' (rest ++ outer) ((bcList, e) :: stk) None r HTC Hb E ltac:(discriminate)
                (to3 ts tot _ _ _ _ _ _ P eq_refl) Rio Nc) as (r1 & En & _ & A & Hbr & St1).
    destruct (sl_value_suffix _ _ _ _ _ _ Hb E) as (pre & Ep & Hne).
    destruct fuel as [|fu]; [lia|].
    cbn [rd_imports] in Hrd. destruct (rd_import (strip_ann v)) as [o|] eqn:Eo; [|discriminate].
    assert (Hna : match strip_ann v with VAnn _ _ => False | _ => True end).
    { destruct A as [(Hs' & _)|(f' & t & body & _ & C & _)]; destruct (strip_ann v); try exact Logic.I; [destruct Hs'|destruct C]. }
    destruct (read_import_any _ tab ctx r1 (strip_ann v) rest' (rest ++ outer) ((bcList, e) :: stk) (S fu) o HTC ltac:(discriminate) A
                (proj1 (proj2 St1)) ltac:(cbn [length] in Hfu |- *; lia) Hna Eo) as (r2 & Eri & St2).
    assert (Hfu' : (length rest' < fu)%nat) by (rewrite Ep, app_length in Hfu; destruct pre; [contradiction|cbn [length] in Hfu; lia]).
    cbn [read_imports_loop]. rewrite En, Eri.
    destruct o as [i|]; [apply (IH rest' es' E2 Hbr fu r2 (acc ++ [i]) e stk rest outer im Hfu' St2 T Hrd)
                        |apply (IH rest' es' E2 Hbr fu r2 acc e stk rest outer im Hfu' St2 T Hrd)].
  - destruct f as [|f']; [discriminate|]. destruct St as (P & Rio & Nc).
    destruct (pre2_pad ts Hts tot Htot PN tab ctx r f' tag r0 rest' (rest ++ outer) ((bcList, e) :: stk) HTC eq_refl Hb E P) as (P1 & Hbr).
    destruct (sl_value_suffix _ _ _ _ _ _ Hb E) as (pre & Ep & Hne).
    apply (IH rest' es Hs Hbr fuel r acc e stk rest outer im); [|split; [exact P1|split; assumption]|exact T|exact Hrd].
    rewrite Ep, app_length in Hfu. lia.
Qed.

Lemma resolve3 ctx y : SYS3 ctx -> resolve_sid ctx 3 = Some y -> y = SymText ist_text.
Proof.
  unfold SYS3, resolve_sid. intros H. change (3 =? 0) with false. cbv iota. change (3 - 1) with 2. rewrite H.
  intros Q. inversion Q. reflexivity.
Qed.

Lemma read_imports_any n tab ctx r3 x rest outer stk fuel im : TC tab ctx -> SYS3 ctx -> stk <> [] ->
  AFT n tab ctx r3 x rest outer stk -> RIO r3 -> (n <= fuel)%nat -> imps_of tab x = Some im ->
  exists r5, read_imports NI fuel r3 = (r5, Ok im) /\ ST tab r5 rest outer stk /\ r_lst r5 = Some tab.
Proof.
  intros HTC H3 Hne A Rio Hfu Him. pose proof (aft_st n tab ctx r3 x rest outer stk Hne A Rio) as St3.
  destruct (aft_ctx _ _ _ _ _ _ _ _ A) as (_ & He3 & Hl3).
  assert (Skip : (r_type r3 =? TSymbol) = false -> (negb (r_type r3 =? TList) || r_is_null r3 = true) -> im = [] ->
                 exists r5, read_imports NI fuel r3 = (r5, Ok im) /\ ST tab r5 rest outer stk /\ r_lst r5 = Some tab).
  { intros Q1 Q2 Ex. exists r3. unfold read_imports. rewrite Q1, Q2, Ex. auto. }
  destruct A as [(Hs & (Et & Ev) & Rs & Hsy)|(f & t & body & Rk & C & Hbb & Hlt)].
  - destruct x; try destruct Hs; cbn [vtype val_rel_s imps_of] in *;
      try (apply Skip; [rewrite Et; reflexivity|rewrite Et; reflexivity|inversion Him; reflexivity]).
    + (* a typed null *)
      destruct Ev as [Ev Ht0]. inversion Him; subst im. exists r3. unfold read_imports. rewrite He3, Ev.
      assert (Hn : r_is_null r3 = true) by (unfold r_is_null; rewrite Ev, Et; replace (t =? 0) with false by lia; reflexivity).
      rewrite Hn, orb_true_r. destruct (r_type r3 =? TSymbol); auto.
    + (* a symbol *)
      destruct (Hsy y eq_refl) as (sid & Ev' & Ery). exists r3. unfold read_imports. rewrite Et, He3, Ev', Hl3.
      change (TSymbol =? TSymbol) with true. cbv iota. cbn [tok_of_sym tk_sid tk_text].
      assert (Htest : ((Z.of_N sid =? 3)%Z || match (match y with SymText t => Some t | SymSid _ => None end) with
                                               | Some x => list_eqb x (s "$ion_symbol_table"%string) | None => false end)
                      = match y with SymText t => list_eqb t ist_text | SymSid _ => false end).
      { destruct (Z.of_N sid =? 3)%Z eqn:E3; [|destruct y; reflexivity].
        assert (sid = 3) by lia. subst sid. rewrite (resolve3 ctx y H3 Ery). cbn [orb]. symmetry. apply list_eqb_refl'. }
      rewrite Htest. destruct y as [t|m].
      * destruct (list_eqb t ist_text); inversion Him; subst im.
        -- destruct tab as [|t0]; cbn [append_imps]; auto.
        -- change (negb (TSymbol =? TList)) with true. cbn [orb]. auto.
      * inversion Him; subst im. change (negb (TSymbol =? TList)) with true. cbn [orb]. auto.
  - pose proof Rk as [He Hf Hl Hc Ety Ht Ev Hb Ec El T].
    destruct x; cbn [CONT] in C; try contradiction; destruct C as [-> Hit]; cbn [imps_of] in Him.
    + (* a list *)
      destruct (step_in3 ts Hts tot Htot tab r3 11 body rest outer stk Rk) as (r4 & e & Esi & Rs4 & _ & _).
      change (bitcode_of_high 11) with bcList in Rs4.
      pose proof (si_rio r3 r4 Rio He Esi) as Rio4.
      assert (Hlen : (length body < fuel)%nat) by lia.
      destruct (ril f ctx tab HTC _ body l Hit Hbb fuel r4 [] e stk rest outer im Hlen
                  (rs_st tab r4 body (rest ++ outer) ((bcList, e) :: stk) ltac:(discriminate) Rs4 Rio4) T Him)
        as (r6 & r5 & Elp & He6 & Eso & Rs5 & Rio5).
      exists r5. split; [|split; [apply rs_st; assumption|apply Rs5]].
      unfold read_imports. rewrite Ety. change (11 =? TSymbol) with false. cbv iota. unfold r_is_null. rewrite Ev, andb_false_r.
      change (negb (11 =? TList) || false) with false. cbv iota. rewrite Esi, Elp, Eso. reflexivity.
    + apply Skip; [rewrite Ety; reflexivity|rewrite Ety; reflexivity|inversion Him; reflexivity].
    + apply Skip; [rewrite Ety; reflexivity|rewrite Ety; reflexivity|inversion Him; reflexivity].
Qed.

(* ---- the fields of the table struct ----------------------------------------------------------------------------------------- *)
Lemma rll f ctx tab : TC tab ctx -> SYS3 ctx -> forall k body fs, sp_items (sitem ts f ctx) k body = Some fs -> BY body ->
  forall fuel r imps syms fi fsy e stk rest outer res, (length body < fuel)%nat ->
  ST tab r body (rest ++ outer) ((bcStruct, e) :: stk) -> top_ok tot stk outer ->
  lst_fold tab fs imps syms fi fsy = Some res ->
  exists r4 r5, read_lst_loop NI fuel r imps syms fi fsy = (r4, Ok res) /\ r_err r4 = false /\
                r_step_out r4 = (r5, Ok true) /\ RS tot tab r5 rest outer stk /\ RIO r5 /\ r_field r5 = None /\ r_annots r5 = [].
Proof.
  intros HTC H3. induction k as [|k IH]; intros body fs Hs Hb fuel r imps syms fi fsy e stk rest outer res Hfu St T Hfold.
  { destruct body; cbn [sp_items] in Hs; inversion Hs; subst. cbn [lst_fold] in Hfold. inversion Hfold; subst.
    destruct fuel as [|fu]; [lia|].
    destruct (st_end tab r bcStruct e stk rest outer St T) as (r4 & r5 & En & He4 & Eso & Rs5 & Rio5 & F5 & A5).
    exists r4, r5. cbn [read_lst_loop]. rewrite En. auto 10. }
  destruct body as [|c0 l0].
  { cbn [sp_items] in Hs. inversion Hs; subst. cbn [lst_fold] in Hfold. inversion Hfold; subst.
    destruct fuel as [|fu]; [lia|].
    destruct (st_end tab r bcStruct e stk rest outer St T) as (r4 & r5 & En & He4 & Eso & Rs5 & Rio5 & F5 & A5).
    exists r4, r5. cbn [read_lst_loop]. rewrite En. auto 10. }
  set (l := c0 :: l0) in *. cbn [sp_items] in Hs. fold l in Hs. unfold sitem at 1 in Hs.
  destruct (lim_varuint l) as [[sid r1]|] eqn:Ev; [|discriminate].
  destruct (resolve_sid ctx sid) as [y|] eqn:Ey; [|discriminate].
  destruct St as (P & Rio & Nc).
  destruct (field3 ts Hts tot Htot PN tab ctx r l sid r1 y (rest ++ outer) bcStruct e stk HTC eq_refl Hb Ev Ey P) as (P3 & Hb1).
  destruct (lim_varuint_layout l sid r1 [] Ev Hb) as (ds0 & Q & Hds0 & _).
  destruct (sl_value ts f ctx r1) as [[[v|] rest']|] eqn:E; [| |discriminate].
  - destruct (sp_items (sitem ts f ctx) k rest') as [fs'|] eqn:E2; [|discriminate]. inversion Hs; subst fs.
    destruct (st_val tab ctx f r1 v rest' (rest ++ outer) ((bcStruct, e) :: stk) (Some (tok_of_sym y sid)) r HTC Hb1 E
                ltac:(discriminate) P3 Rio Nc) as (r2 & En & Hf2 & A & Hbr & St2).
    destruct (sl_value_suffix _ _ _ _ _ _ Hb1 E) as (pre & Ep & Hne).
    destruct (aft_ctx _ _ _ _ _ _ _ _ A) as (_ & He2 & _).
    assert (Hlen' : (length rest' + 2 <= length l)%nat).
    { rewrite Q, Ep, !app_length. destruct pre; [contradiction|]. cbn [length]. lia. }
    destruct fuel as [|fu]; [lia|].
    cbn [read_lst_loop]. rewrite En, He2. unfold field_text. rewrite Hf2. cbn [tok_of_sym tk_text].
    destruct y as [t|m]; [|cbn [lst_fold] in Hfold; discriminate]. cbn [lst_fold] in Hfold.
    assert (Hn1 : (length r1 <= S fu)%nat) by (rewrite Q, app_length in Hfu; lia).
    destruct (list_eqb t (s "symbols"%string)) eqn:Esy.
    + destruct fsy; [discriminate|].
      destruct (read_symbols_any _ tab ctx r2 (strip_ann v) rest' (rest ++ outer) ((bcStruct, e) :: stk) (S fu) HTC ltac:(discriminate) A
                  (proj1 (proj2 St2)) Hn1) as (r3 & Ers & St3 & _).
      rewrite Ers. apply (IH rest' fs' E2 Hbr fu r3 imps (syms_of (strip_ann v)) fi true e stk rest outer res); auto. lia.
    + destruct (list_eqb t (s "imports"%string)) eqn:Eim.
      * destruct fi; [discriminate|]. destruct (imps_of tab (strip_ann v)) as [im|] eqn:Eim'; [|discriminate].
        destruct (read_imports_any _ tab ctx r2 (strip_ann v) rest' (rest ++ outer) ((bcStruct, e) :: stk) (S fu) im HTC H3 ltac:(discriminate) A
                    (proj1 (proj2 St2)) Hn1 Eim') as (r3 & Eri & St3 & _).
        rewrite Eri. apply (IH rest' fs' E2 Hbr fu r3 im syms true fsy e stk rest outer res); auto. lia.
      * apply (IH rest' fs' E2 Hbr fu r2 imps syms fi fsy e stk rest outer res); auto. lia.
  - destruct f as [|f']; [discriminate|]. destruct r1 as [|tag r0]; [discriminate|].
    destruct (pad3 ts Hts tot Htot PN tab ctx r f' tag r0 rest' (rest ++ outer) ((bcStruct, e) :: stk) _ HTC ltac:(intros Q0; discriminate) Hb1 E P3)
      as (P1 & Hbr).
    destruct (sl_value_suffix _ _ _ _ _ _ Hb1 E) as (pre & Ep & Hne).
    apply (IH rest' fs Hs Hbr fuel r imps syms fi fsy e stk rest outer res); [|split; [exact P1|split; assumption]|exact T|exact Hfold].
    rewrite Q, Ep, !app_length in Hfu. lia.
Qed.

(* ---- the raw item that is a local symbol table ------------------------------------------------------------------------------- *)
Lemma lst3 tab ctx k r tag r0 ys fs rest' : INV tab ctx -> TC tab ctx -> BY (tag :: r0) ->
  sl_value ts (S k) ctx (tag :: r0) = Some (Some (VAnn ys (VStruct fs)), rest') ->
  lst_like (VAnn ys (VStruct fs)) = true -> forall ctx', apply_lst ctx fs = Some ctx' -> lst_ok fs ctx' = true ->
  PRE2 ts tot (r_next_inner ts) tab r (tag :: r0) [] [] ->
  exists tab', INV tab' ctx' /\ ctx_size ctx' < two63 /\
               PRE2 ts tot (r_next_inner ts) tab' r rest' [] [] /\ BY rest'.
Proof.
  intros Hinv HTC Hb Hsp Hll ctx' Hap Hok P. pose proof (to3 ts tot _ _ _ _ _ _ P eq_refl) as P3.
  destruct (sl_value_cases ts Hts tot Htot k ctx tag r0 _ rest' Hsp) as [([] & _)|(len & r1 & body & HH & Htk & C)].
  destruct C as [(_ & vs & Q & _)|[(_ & vs & Q & _)|[(_ & fs' & Q & _)|
                 (E14 & H3 & alen & r2 & ab & vb & ys' & x & vt & vr & Ev & Ha0 & Etk2 & Hys & -> & Hvt & Hx & Q)]]]; try discriminate.
  inversion Q; subst ys' x. clear Q.
  destruct (ann3 ts Hts tot Htot (r_next_inner ts) tab ctx r k tag r0 len r1 body rest' [] [] None alen r2 ab vt vr ys _ HTC Hb E14 HH Htk H3
              Ev Ha0 Etk2 Hys Hvt Hx P3) as (an & Har & P3' & Hbvb & Hbr).
  assert (His : is_ion_symbol_table an = true).
  { rewrite (AR_ist _ _ Har). cbn [lst_like] in Hll. destruct ys as [|[t|m] ys0]; try discriminate. exact Hll. }
  destruct k as [|k']; [discriminate|].
  pose proof (sl_value_app ts rest' _ _ _ _ _ Hx) as Hx'. cbn [app] in Hx', P3'.
  destruct (sl_value_cases ts Hts tot Htot k' ctx vt (vr ++ rest') _ rest' Hx') as [([] & _)|(len2 & r12 & sbody & HH2 & Htk2 & C2)].
  destruct C2 as [(_ & vs & Q & _)|[(_ & vs & Q & _)|[(E13 & fs' & Q & Hit)|(_ & _ & alen' & r2' & ab' & vb' & ys' & x' & vt' & vr' & _ & _ & _ & _ & _ & _ & _ & Q)]]];
    try discriminate.
  inversion Q; subst fs'. clear Q.
  assert (Hbl : BY (vt :: vr ++ rest')).
  { change (vt :: vr ++ rest') with ((vt :: vr) ++ rest'). apply Forall_app. split; assumption. }
  destruct (hdr_len ts Hts tot Htot vt (vr ++ rest') len2 r12 sbody rest' (Forall_inv_tail Hbl) HH2 Htk2) as [Hlen2 Hbs].
  destruct HH2 as (Hlo2 & Hlen2' & Hs02).
  destruct P3' as (K & r0' & fuel & b1 & En & He & Hfe & Hl & Hc & Hf & Ha & Hn & Hb1 & Hio1 & T & HK).
  destruct (hdr_spec ts tot Htot b1 vt (vr ++ rest') len2 r12 sbody rest' [] [] (Forall_inv Hbl) (Forall_inv_tail Hbl)
              ltac:(lia) Hlo2 ltac:(lia) Hlen2' Hs02 Htk2 ltac:(lia) Hb1 T) as (b' & E1 & Hb' & Ec & El & Elb & _ & _).
  pose proof (ioerr_next _ _ _ (bs_inv _ _ _ _ _ Hb1) E1) as Eio1.
  rewrite <- Hn in E1. rewrite E13 in Ec. change (bitcode_of_high 13) with bcStruct in Ec.
  set (rS := rs_val (rs_bits r0' b') TStruct RContainer).
  assert (Rk : RK tot tab rS 13 sbody rest' [] []).
  { subst rS. constructor; rsimpl; auto; try lia. }
  destruct (step_in3 ts Hts tot Htot tab rS 13 sbody rest' [] [] Rk) as (r2' & e & Esi & Rs2 & _ & _).
  change (bitcode_of_high 13) with bcStruct in Rs2.
  assert (RioS : RIO rS).
  { pose proof (bs_inv _ _ _ _ _ Hb') as I'. split; [|subst rS; rsimpl; congruence].
    split; [subst rS; rsimpl; exact (proj1 (proj1 I'))|]. right. subst rS. constructor; rsimpl.
    - exact I'.
    - rewrite Hc, (bs_stack _ _ _ _ _ Hb'). reflexivity.
    - rewrite Hc. constructor.
    - left. congruence.
    - right; right; reflexivity.
    - intros _. split; [exact (bs_state _ _ _ _ _ Hb')|exact Ec]. }
  assert (HeS : r_err rS = false) by (subst rS; rsimpl; exact He).
  pose proof (si_rio rS r2' RioS HeS Esi) as Rio2.
  destruct (lst_ok_new tab ctx fs ctx' Hinv Hap Hok) as (imps & syms & Hfold & Hinv' & Hsz).
  assert (Hfu : (length sbody < fuel)%nat).
  { cbn [app length] in HK. rewrite app_nil_r in HK. cbn [length] in HK. lia. }
  destruct (rll k' ctx tab HTC (inv_sys3 _ _ Hinv) _ sbody fs Hit Hbs fuel r2' [] [] false false e [] rest' [] (imps, syms) Hfu
              (rs_st tab r2' sbody (rest' ++ []) [(bcStruct, e)] ltac:(discriminate) Rs2 Rio2) Logic.I Hfold)
    as (r4 & r5 & Elp & He4 & Eso & Rs5 & Rio5 & F5 & A5).
  exists (new_tab imps syms). split; [exact Hinv'|]. split; [exact Hsz|]. split; [|exact Hbr].
  destruct K as [|k0]; [cbn [length] in HK; lia|].
  pose proof Rs5 as [He5 Hfe5 Hl5 Hc5 Hb5 T5]. destruct (pre_next_io tot _ _ _ Hb5) as (b5 & Hn5 & Hb5' & Hio5).
  exists k0, (rs_lst r5 (Some (new_tab imps syms))), fuel, b5.
  split.
  { rewrite En. apply loop_false. unfold r_next_raw. rewrite E1. cbv zeta. rewrite Ec. disp.
    rewrite (bs_null _ _ _ _ _ Hb'). fold rS. unfold r_ctx_peek, r_is_null. subst rS. rsimpl. rewrite Hc, Ha, His.
    cbn [ctx_of_stk map hd N.eqb andb negb]. unfold read_local_symbol_table. rewrite ni_inner.
    change (r_step_in (rs_val (rs_bits r0' b') TStruct RContainer)) with (r_step_in (rs_val (rs_bits r0' b') TStruct RContainer)).
    rewrite Esi, Elp, Eso. reflexivity. }
  rsimpl. repeat (split; [solve [auto]|]). split; [rewrite Hio5; apply Rio5|]. split; [exact Logic.I|].
  cbn [app length] in HK. rewrite app_nil_r in *. cbn [length] in HK. lia.
Qed.
End Lst.
