(* BitEvalGenP.v — what the bitstream operations compute on ANY encoding the (restricted) specification
   accepts: headers with inline / VarUInt (possibly padded) lengths, ordered structs, NOP pads,
   scalar bodies with leading zeros (C03). *)
From Coq Require Import String List NArith ZArith Bool Lia ZifyBool ZifyN ZifyNat.
From IonV Require Import Base.Wire Base.Utf8 Bin.Bits Bin.BitsP Data.Ion Num.Float Bin.BitStream
  Bin.BitStreamP Bin.BitStreamNextP Bin.BinWriter Bin.SpecBin Bin.RoundTripBin Bin.RoundTripBinS Bin.BitEvalP
  Bin.BinReader Bin.SpecLim Bin.SpecLimP.
Import ListNotations.
Open Scope N_scope.
Ltac Zify.zify_post_hook ::= Z.div_mod_to_equations.

Ltac bsimpl :=
  cbn [b_in b_ioerr b_pos b_state b_stack b_code b_null b_len b_alloc b_avail b_fuel
       upd_in upd_state upd_stack upd_cur upd_alloc b_clear done_value fst snd] in *.

Lemma b_read_varuint_list b max v k r : avail_ok b -> read_varuint max (b_in b) = Ok (v, k, r) ->
  exists b', b_read_varuint b max = (b', Ok (v, k)) /\ adv k b b' /\ b_in b' = r.
Proof.
  intros A R. unfold read_varuint in R.
  destruct (b_varuint_loop_list 11 b (N.min max 10) 0 0 _ _ _ R) as (b' & E1 & E2).
  exists b'. unfold b_read_varuint. split; [exact E1|]. split; [|exact E2].
  destruct (b_read_varuint_spec b max A) as [(_ & _ & Post) _]. unfold b_read_varuint in Post. rewrite E1 in Post.
  destruct (Post (v, k) eq_refl) as (Ad & _). exact Ad.
Qed.

Lemma boh_gen t : t <= 14 -> t <> 1 ->
  (bitcode_of_high t =? bcNone) = false /\ (bitcode_of_high t =? bcFalse) = false /\
  (bitcode_of_high t =? bcStruct) = (t =? 13) /\ (bitcode_of_high t =? bcAnnotation) = (t =? 14).
Proof.
  intros H H1. assert (C : t = 0 \/ t = 2 \/ t = 3 \/ t = 4 \/ t = 5 \/ t = 6 \/ t = 7 \/ t = 8 \/ t = 9 \/ t = 10 \/ t = 11 \/
                        t = 12 \/ t = 13 \/ t = 14) by lia.
  repeat (destruct C as [C|C]; [subst; vm_compute; repeat split; reflexivity|]).
  subst; vm_compute; repeat split; reflexivity.
Qed.

Section Gen.
Variable tot : N.
Hypothesis Htot : tot < two63.

Lemma next_fin b inp' stk c n : binv b -> b_stack b = stk -> b_pos b + b_avail b = tot ->
  (exists b', b_next b = (b', Ok tt) /\ b_in b' = inp' /\ b_state b' = bssOnValue /\
      b_null b' = false /\ b_code b' = c /\ b_len b' = n /\ b_pos b' + b_avail b' = b_pos b + b_avail b) ->
  exists b', b_next b = (b', Ok tt) /\ BS b' inp' bssOnValue stk tot /\ b_code b' = c /\ b_len b' = n.
Proof.
  intros I Es Nw (b' & E & Q1 & Q2 & Q3 & Q4 & Q5 & Q6). exists b'. split; [exact E|]. split; [|auto].
  destruct (b_next_spec b I) as [(_ & _ & Post) _]. rewrite E in Post. cbn [fst snd] in Post.
  destruct (Post tt eq_refl) as ((Ib & _) & Sk & _). constructor; auto; congruence.
Qed.

(* a header whose length is in the tag byte *)
Lemma b_next_inline b t lo body rest stk :
  BS b ((16 * t + lo) :: body ++ rest) bssBeforeValue stk tot -> t <= 14 -> t <> 1 -> lo < 14 ->
  ~ (t = 13 /\ lo = 1) -> ~ (t = 14 /\ lo = 0) -> N.of_nat (length body) = lo -> room b (1 + lo) ->
  exists b', b_next b = (b', Ok tt) /\ BS b' (body ++ rest) bssOnValue stk tot /\
             b_code b' = bitcode_of_high t /\ b_len b' = lo.
Proof.
  intros [I Ein St Es Nl Nw] Ht Ht1 Hlo H13 H14 Hb R. pose proof (bcore_avail _ (proj1 I)) as A.
  destruct (boh_gen t Ht Ht1) as (F1 & F2 & F3 & F4).
  apply (next_fin b _ stk _ _ I Es Nw).
  destruct I as (C & Fv & L0). pose proof C as (Wk & _ & P & Sk). clear Fv L0 Wk C.
  assert (Ha : b_avail b = 1 + lo + N.of_nat (length rest)).
  { unfold avail_ok in A. rewrite A, Ein. cbn [length]. rewrite app_length. lia. }
  assert (Rm : match stk with [] => True | (_, e) :: _ => b_pos b + 1 + lo <= e /\ e < two64 end).
  { unfold room in R. rewrite Es in R, Sk. destruct stk as [|[c e] stk']; [exact Logic.I|]. cbn [stk_ok] in Sk. lia. }
  clear R Sk A.
  unfold b_next. rewrite St.
  change ((bssBeforeValue =? bssOnValue) || (bssBeforeValue =? bssOnFieldID)) with false. cbv iota beta.
  rewrite Es, St. change (bssBeforeValue =? bssBeforeFieldID) with false.
  replace (match stk with [] => false | (_, e) :: _ => b_pos b =? e end) with false
    by (destruct stk as [|[c e] stk']; [reflexivity|lia]).
  unfold b_read. rewrite Ein. rewrite parse_tag_eq by lia. cbv iota beta.
  rewrite F3, F4, F1. replace ((t =? 13) && (lo =? 1)) with false by lia. cbv zeta.
  replace ((t =? 14) && (lo =? 0)) with false by lia. replace ((t =? 14) && (lo =? 15)) with false by lia.
  rewrite F2. replace ((bitcode_of_high t =? bcNegInt) && (lo =? 15)) with false by lia.
  replace ((lo =? 15) && negb false) with false by lia. replace ((lo =? 14) && negb false) with false by lia.
  unfold b_remaining. bsimpl. rewrite Es.
  rewrite (wrap_small (b_pos b + 1)) by (unfold two63, two64 in *; lia).
  rewrite (wrap_small (b_pos b + 1 + lo)) by (unfold two63, two64 in *; lia).
  replace (b_pos b + 1 + lo <? b_pos b + 1) with false by lia.
  destruct stk as [|[c e] stk'].
  - replace (18446744073709551615 <? lo) with false by lia.
    eexists; split; [reflexivity|]; bsimpl; repeat (split; [solve [auto]|]). lia.
  - replace (e <? b_pos b + 1) with false by lia. replace (e - (b_pos b + 1) <? lo) with false by lia.
    eexists; split; [reflexivity|]; bsimpl; repeat (split; [solve [auto]|]). lia.
Qed.

(* a header whose length is a VarUInt: L = 14 *)
Lemma b_next_len14 b t ds body rest stk n :
  BS b ((16 * t + 14) :: ds ++ body ++ rest) bssBeforeValue stk tot -> t <= 14 -> t <> 1 ->
  (forall M, N.of_nat (length ds) <= M -> read_varuint M (ds ++ body ++ rest) = Ok (n, N.of_nat (length ds), body ++ rest)) ->
  N.of_nat (length ds) <= 10 -> N.of_nat (length body) = n -> room b (1 + N.of_nat (length ds) + n) ->
  exists b', b_next b = (b', Ok tt) /\ BS b' (body ++ rest) bssOnValue stk tot /\
             b_code b' = bitcode_of_high t /\ b_len b' = n.
Proof.
  intros [I Ein St Es Nl Nw] Ht Ht1 Hrd Hds Hb R. pose proof (bcore_avail _ (proj1 I)) as A.
  destruct (boh_gen t Ht Ht1) as (F1 & F2 & F3 & F4). set (vl := N.of_nat (length ds)) in *.
  apply (next_fin b _ stk _ _ I Es Nw).
  destruct I as (C & Fv & L0). pose proof C as (Wk & _ & P & Sk). clear Fv L0 Wk C.
  assert (Ha : b_avail b = 1 + vl + n + N.of_nat (length rest)).
  { unfold avail_ok in A. rewrite A, Ein. cbn [length]. rewrite !app_length. subst vl. lia. }
  assert (Rm : match stk with [] => True | (_, e) :: _ => b_pos b + 1 + vl + n <= e /\ e < two64 end).
  { unfold room in R. rewrite Es in R, Sk. destruct stk as [|[c e] stk']; [exact Logic.I|]. cbn [stk_ok] in Sk. lia. }
  clear R Sk.
  unfold b_next. rewrite St.
  change ((bssBeforeValue =? bssOnValue) || (bssBeforeValue =? bssOnFieldID)) with false. cbv iota beta.
  rewrite Es, St. change (bssBeforeValue =? bssBeforeFieldID) with false.
  replace (match stk with [] => false | (_, e) :: _ => b_pos b =? e end) with false
    by (destruct stk as [|[c e] stk']; [reflexivity|lia]).
  unfold b_read. rewrite Ein. rewrite parse_tag_eq by lia. cbv iota beta.
  replace ((bitcode_of_high t =? bcStruct) && (14 =? 1)) with false by (rewrite andb_false_r; reflexivity).
  rewrite F1. cbv zeta.
  replace ((bitcode_of_high t =? bcAnnotation) && (14 =? 0)) with false by (rewrite andb_false_r; reflexivity).
  replace ((bitcode_of_high t =? bcAnnotation) && (14 =? 15)) with false by (rewrite andb_false_r; reflexivity).
  rewrite F2. replace ((bitcode_of_high t =? bcNegInt) && (14 =? 15)) with false by (rewrite andb_false_r; reflexivity).
  change ((14 =? 15) && negb false) with false. change ((14 =? 14) && negb false) with true. cbv iota.
  rewrite (wrap_small (b_pos b + 1)) by (unfold two63, two64 in *; lia).
  set (b3 := upd_state (upd_in b (ds ++ body ++ rest) (b_pos b + 1) (b_avail b - 1)) bssOnValue).
  assert (A3 : avail_ok b3) by (unfold avail_ok; subst b3; bsimpl; rewrite !app_length; subst vl; lia).
  unfold b_remaining. replace (b_stack b3) with stk by (subst b3; bsimpl; auto).
  replace (b_pos b3) with (b_pos b + 1) by (subst b3; bsimpl; auto).
  assert (K : forall rem, vl + n <= rem -> rem < two64 ->
            exists b' : bstate,
              match (match b_read_varuint b3 rem with
                     | (b', Ok (l, ll)) => (b', Ok (l, wrap64 (rem + two64 - ll)))
                     | (b', Err) => (b', Err) | (b', Panic) => (b', Panic) | (b', OutOfFuel) => (b', OutOfFuel) end) with
              | (b0, Ok (length, rem0)) =>
                  if rem0 <? length then (b0, Err)
                  else if wrap64 (b_pos b0 + length) <? b_pos b0 then (b0, Err)
                  else (upd_cur b0 (bitcode_of_high t) (b_null b0) length, Ok tt)
              | (b0, Err) => (b0, Err) | (b0, Panic) => (b0, Panic) | (b0, OutOfFuel) => (b0, OutOfFuel)
              end = (b', Ok tt) /\
              b_in b' = body ++ rest /\ b_state b' = bssOnValue /\ b_null b' = false /\
              b_code b' = bitcode_of_high t /\ b_len b' = n /\ b_pos b' + b_avail b' = b_pos b + b_avail b).
  { intros rem Hr1 Hr2.
    destruct (b_read_varuint_list b3 rem n vl (body ++ rest) A3 (Hrd rem ltac:(lia))) as (b4 & E4 & Ad & I4).
    pose proof (adv_pos _ _ _ Ad) as Q1. pose proof (adv_avail _ _ _ Ad) as Q2.
    pose proof (adv_state _ _ _ Ad) as Q3. pose proof (adv_null _ _ _ Ad) as Q4.
    subst b3. bsimpl. rewrite wrap_small in Q1 by (unfold two63, two64 in *; lia).
    rewrite E4. rewrite wrap_sub by lia. replace (rem - vl <? n) with false by lia.
    rewrite Q1. rewrite wrap_small by (unfold two63, two64 in *; lia).
    replace (b_pos b + 1 + vl + n <? b_pos b + 1 + vl) with false by lia.
    eexists; split; [reflexivity|]; bsimpl. rewrite Q1, Q2, Q4.
    repeat (split; [solve [auto]|]). lia. }
  destruct stk as [|[c e] stk'].
  - apply K; unfold two63, two64 in *; lia.
  - replace (e <? b_pos b + 1) with false by lia. apply K; lia.
Qed.

(* the ordered struct D1: the length is always a VarUInt *)
Lemma b_next_ordered b ds body rest stk n :
  BS b (209 :: ds ++ body ++ rest) bssBeforeValue stk tot -> n <> 0 ->
  (forall M, N.of_nat (length ds) <= M -> read_varuint M (ds ++ body ++ rest) = Ok (n, N.of_nat (length ds), body ++ rest)) ->
  N.of_nat (length ds) <= 10 -> N.of_nat (length body) = n -> room b (1 + N.of_nat (length ds) + n) ->
  exists b', b_next b = (b', Ok tt) /\ BS b' (body ++ rest) bssOnValue stk tot /\
             b_code b' = bcStruct /\ b_len b' = n.
Proof.
  intros [I Ein St Es Nl Nw] Hn0 Hrd Hds Hb R. pose proof (bcore_avail _ (proj1 I)) as A.
  set (vl := N.of_nat (length ds)) in *.
  apply (next_fin b _ stk _ _ I Es Nw).
  destruct I as (C & Fv & L0). pose proof C as (Wk & _ & P & Sk). clear Fv L0 Wk C.
  assert (Ha : b_avail b = 1 + vl + n + N.of_nat (length rest)).
  { unfold avail_ok in A. rewrite A, Ein. cbn [length]. rewrite !app_length. subst vl. lia. }
  assert (Rm : match stk with [] => True | (_, e) :: _ => b_pos b + 1 + vl + n <= e /\ e < two64 end).
  { unfold room in R. rewrite Es in R, Sk. destruct stk as [|[c e] stk']; [exact Logic.I|]. cbn [stk_ok] in Sk. lia. }
  clear R Sk.
  unfold b_next. rewrite St.
  change ((bssBeforeValue =? bssOnValue) || (bssBeforeValue =? bssOnFieldID)) with false. cbv iota beta.
  rewrite Es, St. change (bssBeforeValue =? bssBeforeFieldID) with false.
  replace (match stk with [] => false | (_, e) :: _ => b_pos b =? e end) with false
    by (destruct stk as [|[c e] stk']; [reflexivity|lia]).
  unfold b_read. rewrite Ein. change 209 with (16 * 13 + 1). rewrite parse_tag_eq by lia. cbv iota beta.
  change (bitcode_of_high 13) with bcStruct. change ((bcStruct =? bcStruct) && (1 =? 1)) with true. cbv iota.
  rewrite (wrap_small (b_pos b + 1)) by (unfold two63, two64 in *; lia).
  set (b2 := upd_in b (ds ++ body ++ rest) (b_pos b + 1) (b_avail b - 1)).
  assert (A2 : avail_ok b2) by (unfold avail_ok; subst b2; bsimpl; rewrite !app_length; subst vl; lia).
  unfold b_remaining at 1. replace (b_stack b2) with stk by (subst b2; bsimpl; auto).
  replace (b_pos b2) with (b_pos b + 1) by (subst b2; bsimpl; auto).
  assert (K : forall rem, vl + n <= rem -> rem < two64 ->
    exists b' : bstate,
      match (match b_read_varuint b2 rem with
             | (b', Ok (l, _)) => if l =? 0 then (b', Err) else (b', Ok (l, true))
             | (b', Err) => (b', Err) | (b', Panic) => (b', Panic) | (b', OutOfFuel) => (b', OutOfFuel) end) with
      | (b0, Ok (length, length_read)) =>
          if bcStruct =? bcNone then (b0, Err) else
          let b0 := upd_state b0 bssOnValue in
          if (bcStruct =? bcAnnotation) && (length =? 0)
          then match b_stack b0 with [] => (upd_cur b0 bcBVM (b_null b0) 3, Ok tt) | _ :: _ => (b0, Err) end
          else if (bcStruct =? bcAnnotation) && (length =? 15) then (b0, Err)
          else match (if bcStruct =? bcFalse
                      then if (length =? 0) || (length =? 15) then Some (bcStruct, length)
                           else if length =? 1 then Some (bcTrue, 0) else None
                      else Some (bcStruct, length)) with
               | Some (code, length0) =>
                   if (code =? bcNegInt) && (length0 =? 15) then (b0, Err)
                   else if (length0 =? 15) && negb length_read then (upd_cur b0 code true (b_len b0), Ok tt)
                   else match b_remaining b0 with
                        | Ok rem1 =>
                            match (if (length0 =? 14) && negb length_read
                                   then match b_read_varuint b0 rem1 with
                                        | (b', Ok (l, ll)) => (b', Ok (l, wrap64 (rem1 + two64 - ll)))
                                        | (b', Err) => (b', Err) | (b', Panic) => (b', Panic)
                                        | (b', OutOfFuel) => (b', OutOfFuel) end
                                   else (b0, Ok (length0, rem1))) with
                            | (b1, Ok (length1, rem2)) =>
                                if rem2 <? length1 then (b1, Err)
                                else if wrap64 (b_pos b1 + length1) <? b_pos b1 then (b1, Err)
                                else (upd_cur b1 code (b_null b1) length1, Ok tt)
                            | (b1, Err) => (b1, Err) | (b1, Panic) => (b1, Panic) | (b1, OutOfFuel) => (b1, OutOfFuel)
                            end
                        | Err => (b0, Err) | Panic => (b0, Panic) | OutOfFuel => (b0, Err)
                        end
               | None => (b0, Err)
               end
      | (b0, Err) => (b0, Err) | (b0, Panic) => (b0, Panic) | (b0, OutOfFuel) => (b0, OutOfFuel)
      end = (b', Ok tt) /\
      b_in b' = body ++ rest /\ b_state b' = bssOnValue /\ b_null b' = false /\
      b_code b' = bcStruct /\ b_len b' = n /\ b_pos b' + b_avail b' = b_pos b + b_avail b).
  { intros rem Hr1 Hr2.
    destruct (b_read_varuint_list b2 rem n vl (body ++ rest) A2 (Hrd rem ltac:(lia))) as (b4 & E4 & Ad & I4).
    pose proof (adv_pos _ _ _ Ad) as Q1. pose proof (adv_avail _ _ _ Ad) as Q2.
    pose proof (adv_stack _ _ _ Ad) as Q5. pose proof (adv_null _ _ _ Ad) as Q4.
    subst b2. bsimpl. rewrite wrap_small in Q1 by (unfold two63, two64 in *; lia).
    rewrite E4. replace (n =? 0) with false by lia.
    change (bcStruct =? bcNone) with false. change (bcStruct =? bcAnnotation) with false.
    change (bcStruct =? bcFalse) with false. change (bcStruct =? bcNegInt) with false. cbn [andb negb]. cbv iota zeta.
    rewrite !andb_false_r. cbv iota.
    unfold b_remaining. bsimpl. rewrite Q5, Es, Q1.
    rewrite (wrap_small (b_pos b + 1 + vl + n)) by (unfold two63, two64 in *; lia).
    replace (b_pos b + 1 + vl + n <? b_pos b + 1 + vl) with false by lia.
    destruct stk as [|[c e] stk'].
    - replace (18446744073709551615 <? n) with false by (unfold two63 in *; lia).
      eexists; split; [reflexivity|]; bsimpl. rewrite Q1, Q2, Q4. repeat (split; [solve [auto]|]). lia.
    - replace (e <? b_pos b + 1 + vl) with false by lia. replace (e - (b_pos b + 1 + vl) <? n) with false by lia.
      eexists; split; [reflexivity|]; bsimpl. rewrite Q1, Q2, Q4. repeat (split; [solve [auto]|]). lia. }
  destruct stk as [|[c e] stk'].
  - apply K; unfold two63, two64 in *; lia.
  - replace (e <? b_pos b + 1) with false by lia. apply K; lia.
Qed.
End Gen.

Section Bodies.
Variable tot : N.
Hypothesis Htot : tot < two63.

(* a NOP pad, or any value skipped: SkipValue consumes the body *)
Lemma skip_body b body rest stk : BS b (body ++ rest) bssOnValue stk tot -> b_len b = N.of_nat (length body) ->
  b_code b <> bcBVM ->
  exists b1, b_skip_value b = (b1, Ok tt) /\ BS b1 rest (sav stk) stk tot.
Proof.
  intros Hb El Nb. pose proof Hb as [I Ein St Es Nl Nw]. pose proof (bcore_avail _ (proj1 I)) as A.
  destruct (b_skip_value_spec b I) as [(_ & _ & Post) _].
  assert (Hle : b_len b <= b_avail b) by (unfold avail_ok in A; rewrite A, Ein, El, app_length; lia).
  assert (P : b_pos b < two64) by (destruct I as ((_ & _ & P & _) & _); exact P).
  unfold b_skip_value in *. rewrite St in *.
  change ((bssOnValue =? bssBeforeFieldID) || (bssOnValue =? bssBeforeValue)) with false in *.
  change (bssOnValue =? bssOnFieldID) with false in *. change (bssOnValue =? bssOnValue) with true in *. cbv iota in *.
  destruct (0 <? b_len b) eqn:E0.
  - assert (Hs : exists b1, b_skip b (b_len b) = (b1, Ok tt)).
    { unfold b_skip. replace (two63 <=? b_len b) with false by (unfold two63 in *; lia).
      replace (b_len b <=? b_avail b) with true by lia. eauto. }
    destruct Hs as (b1 & Es1). rewrite Es1 in *. cbn [fst snd] in Post.
    destruct (Post tt eq_refl) as ((Ib & _) & _). destruct (b_skip_ok _ _ _ _ A Es1) as [Ad _].
    eexists. split; [reflexivity|]. apply (BS_done tot Htot b (b_len b) b1 body rest _ stk Hb El Ad Ib).
  - cbn [fst snd] in Post. destruct (Post tt eq_refl) as ((Ib & _) & _).
    eexists. split; [reflexivity|].
    assert (body = []) by (destruct body; [reflexivity|cbn [length] in El; lia]). subst body.
    apply (BS_done tot Htot b 0 b [] rest _ stk Hb); [reflexivity|apply adv_refl; exact P|exact Ib].
Qed.

(* Int / NegInt with any magnitude bytes *)
Lemma read_int_gen b body rest stk (neg : bool) : Forall (fun c => c < 256) body ->
  BS b (body ++ rest) bssOnValue stk tot -> b_len b = N.of_nat (length body) ->
  b_code b = (if neg then bcNegInt else bcInt) -> (neg = true -> from_be body <> 0) ->
  exists b' v, b_read_int b = (b', Ok v) /\
               int_z v = (if neg then - Z.of_N (from_be body) else Z.of_N (from_be body))%Z /\
               BS b' rest (sav stk) stk tot.
Proof.
  intros Hbytes Hb El Ec Hnz.
  assert (Nb : b_code b <> bcBVM) by (rewrite Ec; destruct neg; discriminate).
  destruct (readN_body tot Htot b _ rest stk Hb El Nb) as (b1 & E & Hd & _).
  unfold b_read_int. replace (negb ((b_code b =? bcInt) || (b_code b =? bcNegInt))) with false
    by (rewrite Ec; destruct neg; reflexivity).
  rewrite E. assert (Eneg : (b_code b =? bcNegInt) = neg) by (rewrite Ec; destruct neg; reflexivity). rewrite Eneg.
  destruct (b_len b =? 0) eqn:E0.
  - assert (body = []) by (destruct body; [reflexivity|cbn [length] in El; lia]). subst body.
    destruct neg; [exfalso; apply Hnz; reflexivity|]. cbn [andb]. eexists _, _. split; [reflexivity|]. split; [reflexivity|exact Hd].
  - destruct ((b_len b <? 8) || ((b_len b =? 8) && (hd 0 body <? 128))) eqn:Es.
    + rewrite from_be64_small by (auto; rewrite El in Es; lia).
      destruct (from_be body =? 0) eqn:Ez.
      * destruct neg; [exfalso; apply Hnz; [reflexivity|lia]|]. cbn [andb]. eexists _, _. split; [reflexivity|].
        split; [|exact Hd]. cbn [int_z]. reflexivity.
      * cbn [andb]. eexists _, _. split; [reflexivity|]. split; [|exact Hd]. cbn [int_z]. reflexivity.
    + destruct (from_be body =? 0) eqn:Ez.
      * destruct neg; [exfalso; apply Hnz; [reflexivity|lia]|]. cbn [andb]. eexists _, _. split; [reflexivity|].
        split; [|exact Hd]. reflexivity.
      * cbn [andb]. eexists _, _. split; [reflexivity|]. split; [|exact Hd]. reflexivity.
Qed.

Lemma read_float_gen b body rest stk :
  BS b (body ++ rest) bssOnValue stk tot -> b_len b = N.of_nat (length body) -> b_code b = bcFloat ->
  length body = 0%nat \/ length body = 4%nat \/ length body = 8%nat ->
  exists b', b_read_float b = (b', Ok (match length body with 0%nat => 0 | 4%nat => widen (from_be body) | _ => from_be body end)) /\
             BS b' rest (sav stk) stk tot.
Proof.
  intros Hb El Ec Hl. assert (Nb : b_code b <> bcBVM) by (rewrite Ec; discriminate).
  destruct (readN_body tot Htot b _ rest stk Hb El Nb) as (b1 & E & Hd & _).
  unfold b_read_float. rewrite Ec. change (negb (bcFloat =? bcFloat)) with false. cbv iota. rewrite E.
  destruct Hl as [H|[H|H]]; rewrite H; eauto.
Qed.

Lemma read_symbol_gen b body rest stk : Forall (fun c => c < 256) body -> (length body <= 8)%nat ->
  BS b (body ++ rest) bssOnValue stk tot -> b_len b = N.of_nat (length body) -> b_code b = bcSymbol ->
  exists b', b_read_symbol_id b = (b', Ok (from_be body)) /\ BS b' rest (sav stk) stk tot.
Proof.
  intros Hbytes Hl8 Hb El Ec. assert (Nb : b_code b <> bcBVM) by (rewrite Ec; discriminate).
  destruct (readN_body tot Htot b _ rest stk Hb El Nb) as (b1 & E & Hd & _).
  unfold b_read_symbol_id. rewrite Ec. change (negb (bcSymbol =? bcSymbol)) with false. cbv iota.
  replace (8 <? b_len b) with false by (rewrite El; lia). rewrite E.
  rewrite from_be64_small by auto. eauto.
Qed.
End Bodies.

Section Dec.
Variable tot : N.
Hypothesis Htot : tot < two63.

Lemma sp_int_signmag cb : cb <> [] -> read_signmag cb = Ok (fst (sp_int cb)).
Proof.
  destruct cb as [|c r]; [contradiction|]. intros _. cbn [read_signmag sp_int fst]. reflexivity.
Qed.

(* a decimal with any VarInt exponent within the limits and any coefficient bytes *)
Lemma read_decimal_gen b body rest stk e ng cb : Forall (fun c => c < 256) body -> body <> [] ->
  lim_varint body = Some (e, ng, cb) ->
  BS b (body ++ rest) bssOnValue stk tot -> b_len b = N.of_nat (length body) -> b_code b = bcDecimal ->
  exists b', b_read_decimal b = (b', Ok {| d_coef := fst (sp_int cb); d_exp := e; d_negzero := snd (sp_int cb) |}) /\
             BS b' rest (sav stk) stk tot.
Proof.
  intros Hbytes Hne Hv Hb El Ec. pose proof Hb as [I Ein St Es Nl Nw]. pose proof (bcore_avail _ (proj1 I)) as A.
  set (d := {| d_coef := fst (sp_int cb); d_exp := e; d_negzero := snd (sp_int cb) |}).
  assert (Fin : forall b1, b_read_decimal b = (done_value b1, Ok d) -> adv (b_len b) b b1 ->
                exists b', b_read_decimal b = (b', Ok d) /\ BS b' rest (sav stk) stk tot).
  { intros b1 E Ad. exists (done_value b1). split; [exact E|].
    destruct (b_read_decimal_spec b I St Ec) as [(_ & _ & Post) _]. rewrite E in Post. cbn [fst snd] in Post.
    destruct (Post d eq_refl) as ((Id & _) & _). eapply BS_done; eauto. }
  assert (P : b_pos b < two64) by (destruct I as ((_ & _ & P & _) & _); exact P).
  assert (Hpos : 0 < b_len b) by (rewrite El; destruct body; [contradiction|cbn [length]; lia]).
  destruct (lim_read_varint body e ng cb (b_len b) Hv Hbytes) as (Rv & ds & E1 & E2 & E3 & Er).
  { rewrite El. destruct (lim_varint_sp _ _ _ _ Hv) as (Es' & _). lia. }
  assert (Rv' : read_varint (b_len b) (b_in b) = Ok (e, ng, N.of_nat (length ds), cb ++ rest)).
  { rewrite Ein. rewrite (read_varint_app rest _ _ _ _ _ Rv). rewrite E2. reflexivity. }
  destruct (b_read_varint_list b _ _ _ _ _ Rv') as (b1 & Eb1 & I1).
  destruct (b_read_varint_spec b (b_len b) A) as [(W1 & _ & Post1) _]. rewrite Eb1 in *. cbn [fst snd] in *.
  destruct (Post1 _ eq_refl) as (Ad1 & _).
  unfold b_read_decimal in *. rewrite Ec in *. change (negb (bcDecimal =? bcDecimal)) with false in *. cbv iota in *.
  unfold b_read_decimal_len in *. replace (0 <? b_len b) with true in * by lia. rewrite Eb1 in *.
  replace ((2147483647 <? e)%Z || (e <? -2147483648)%Z) with false in * by lia.
  assert (Elen : b_len b = N.of_nat (length ds) + N.of_nat (length cb)) by (rewrite El, E1, app_length; lia).
  assert (Hl64 : b_len b < two64).
  { unfold avail_ok in A. rewrite Ein, app_length in A. unfold two63, two64 in *. lia. }
  rewrite wrap_sub in * by lia. replace (b_len b - N.of_nat (length ds)) with (N.of_nat (length cb)) in * by lia.
  destruct cb as [|c0 cb'].
  - cbn [length N.of_nat N.ltb N.compare] in *. apply (Fin b1); [reflexivity|].
    eapply adv_eq; [exact Ad1|]. lia.
  - set (cb := c0 :: cb') in *.
    replace (0 <? N.of_nat (length cb)) with true in * by (subst cb; cbn [length]; lia).
    pose proof (wle_avail _ _ W1) as A1. pose proof (adv_pos_lt _ _ _ Ad1) as P1.
    assert (Hle : N.of_nat (length cb) <= b_avail b1) by (unfold avail_ok in A1; rewrite A1, I1, app_length; lia).
    destruct (b_readN_enough b1 _ A1 Hle) as (b2 & bs & E2').
    pose proof (b_readN_bytes _ _ _ _ E2') as Eb. rewrite I1, Nat2N.id, firstn_app_exact in Eb. subst bs.
    destruct (b_readN_ok _ _ _ _ A1 P1 E2') as [Ad2 _]. rewrite E2' in *.
    rewrite sp_int_signmag in * by (subst cb; discriminate).
    assert (Enz : (128 <=? hd 0 cb) && (fst (sp_int cb) =? 0)%Z = snd (sp_int cb)).
    { subst cb. cbn [sp_int fst snd hd]. change (sp_uint (c0 mod 128 :: cb')) with (from_be (c0 mod 128 :: cb')).
      destruct (128 <=? c0); cbn [andb]; [|reflexivity]. lia. }
    rewrite Enz in *. apply (Fin b2); [reflexivity|]. eapply adv_eq; [eapply adv_trans; eauto|lia].
Qed.
End Dec.

Section Field.
Variable tot : N.
Hypothesis Htot : tot < two63.

(* a field name given by any VarUInt within the limits *)
Lemma read_field_id_gen b ds id rest c e stk :
  BS b (ds ++ rest) bssOnFieldID ((c, e) :: stk) tot -> b_code b = bcFieldID ->
  (forall M, N.of_nat (length ds) <= M -> read_varuint M (ds ++ rest) = Ok (id, N.of_nat (length ds), rest)) ->
  b_pos b + N.of_nat (length ds) <= e ->
  exists b', b_read_field_id b = (b', Ok id) /\ BS b' rest bssBeforeValue ((c, e) :: stk) tot.
Proof.
  intros [I Ein St Es Nl Nw] Ec Hrd Hr. pose proof (bcore_avail _ (proj1 I)) as A.
  destruct (b_read_field_id_spec b I Ec St) as [(_ & _ & Post) _].
  unfold b_read_field_id in *. rewrite Ec in *. change (negb (bcFieldID =? bcFieldID)) with false in *. cbv iota in *.
  destruct (rem_ok b (proj1 I)) as [Er _]. rewrite Er in *. unfold rem_of in *. rewrite Es in *.
  assert (Rd : read_varuint (e - b_pos b) (b_in b) = Ok (id, N.of_nat (length ds), rest)) by (rewrite Ein; apply Hrd; lia).
  destruct (b_read_varuint_list b (e - b_pos b) id _ rest A Rd) as (b1 & E1 & Ad & I1).
  rewrite E1 in *. cbn [fst snd] in Post. destruct (Post id eq_refl) as (((Ib & _) & _) & _).
  eexists. split; [reflexivity|].
  pose proof (adv_pos _ _ _ Ad) as Q2. pose proof (adv_avail _ _ _ Ad) as Q3.
  pose proof (adv_stack _ _ _ Ad) as Q4. pose proof (adv_le _ _ _ Ad) as Q5. pose proof (adv_null _ _ _ Ad) as Q6.
  constructor; bsimpl; auto; try congruence.
  rewrite Q2, Q3, wrap_small by (unfold two63, two64 in *; lia). lia.
Qed.
End Field.
