(* BinReader.v — executable model of ion/binaryreader.go, the accessors of
   ion/reader.go and ion/readlocalsymboltable.go (with a nil catalog), over the
   bitstream model.  The reader is a state machine over API calls; a navigation
   program is a list of calls and its trace is what those calls return.
   Symbol tables are the reader-side subset of ion/symboltable.go (system table,
   imports as placeholder/materialised slot ranges, locals).  No proofs. *)
From Coq Require Import String List NArith ZArith Bool.
From IonV Require Import Base.Wire Bin.Bits Data.Ion Num.Float Bin.BitStream.
Import ListNotations.
Open Scope N_scope.

(* ---- symbol tables as the reader builds them ----------------------------------------- *)
(* an import after Adjust: its materialised symbols and the max_id it occupies *)
Record imp := { im_syms : list text; im_maxid : N }.
Record ltab := { lt_imps : list imp;         (* first entry is the system table *)
                 lt_locals : list text }.
(* r.lst: the shared system table object itself, or a local table *)
Inductive rlst := LSys | LTab (t : ltab).

Definition sys_imp : imp := {| im_syms := system_symbols; im_maxid := 9 |}.
Definition max_import_id (imps : list imp) : N :=
  fold_left (fun a i => wrap64 (a + im_maxid i)) imps 0.
Definition lst_max_id (l : rlst) : N :=
  match l with
  | LSys => 9
  | LTab t => wrap64 (max_import_id (lt_imps t) + N.of_nat (length (lt_locals t)))
  end.
(* sst.FindByID *)
Definition imp_find_by_id (i : imp) (id : N) : option text :=
  if (id =? 0) || (N.of_nat (length (im_syms i)) <? id) then None
  else nth_error (im_syms i) (N.to_nat (id - 1)).
(* lst.findByIDInImports: "for i := 1; i < len; i++ { if id <= offsets[i] break; off = offsets[i] }" *)
Fixpoint find_in_imports (prev : imp) (rest : list imp) (off next_off id : N) : option text :=
  (* [off] = offsets[i-1] of [prev]; [next_off] = offsets[i] of the head of [rest] *)
  match rest with
  | [] => imp_find_by_id prev (wrap64 (id + two64 - off))
  | nx :: rest' =>
    if id <=? next_off then imp_find_by_id prev (wrap64 (id + two64 - off))
    else find_in_imports nx rest' next_off (wrap64 (next_off + im_maxid nx)) id
  end.
Definition lst_find_by_id (l : rlst) (id : N) : option text :=
  match l with
  | LSys => imp_find_by_id sys_imp id
  | LTab t =>
    if id =? 0 then None else
    let mx := max_import_id (lt_imps t) in
    if id <=? mx then
      match lt_imps t with
      | [] => None       (* not reachable: processImports always yields the system table *)
      | i0 :: rest => find_in_imports i0 rest 0 (wrap64 (0 + im_maxid i0)) id
      end
    else
      let idx := id - mx - 1 in
      if idx <? N.of_nat (length (lt_locals t)) then nth_error (lt_locals t) (N.to_nat idx) else None
  end.

(* NewSymbolTokenBySID(table, int64(id)) for a uint64 id *)
Definition sid_ok (l : rlst) (id : N) : bool := (id <? two63) && (id <=? lst_max_id l).
Definition tok_by_sid (l : rlst) (id : N) : option tok :=
  if sid_ok l id then Some {| tk_text := lst_find_by_id l id; tk_sid := Z.of_N id |} else None.

(* ---- reader state ----------------------------------------------------------------------- *)
Inductive rvalue :=
| RNil | RBool (b : bool) | RInt (i : intval) | RFloat (bits : N) | RDecimal (d : dec)
| RTimestamp (body : list N) | RSymbol (t : tok) | RString (t : text) | RBytes (b : list N)
| RContainer.

Record rstate := {
  r_bits : bstate;
  r_ctx : list N;               (* top first: 1 struct, 2 list, 3 sexp *)
  r_eof : bool;
  r_err : bool;
  r_lst : option rlst;          (* None = nil before the first version marker *)
  r_field : option tok;
  r_annots : list tok;
  r_type : N;                   (* ion.Type; 0 = NoType *)
  r_value : rvalue
}.
Definition r_init (inp : list N) (ioerr : bool) : rstate :=
  {| r_bits := b_init inp ioerr; r_ctx := []; r_eof := false; r_err := false; r_lst := None;
     r_field := None; r_annots := []; r_type := 0; r_value := RNil |}.

Definition rs_bits (r : rstate) (b : bstate) : rstate :=
  {| r_bits := b; r_ctx := r_ctx r; r_eof := r_eof r; r_err := r_err r; r_lst := r_lst r;
     r_field := r_field r; r_annots := r_annots r; r_type := r_type r; r_value := r_value r |}.
Definition rs_ctx (r : rstate) (c : list N) : rstate :=
  {| r_bits := r_bits r; r_ctx := c; r_eof := r_eof r; r_err := r_err r; r_lst := r_lst r;
     r_field := r_field r; r_annots := r_annots r; r_type := r_type r; r_value := r_value r |}.
Definition rs_eof (r : rstate) (e : bool) : rstate :=
  {| r_bits := r_bits r; r_ctx := r_ctx r; r_eof := e; r_err := r_err r; r_lst := r_lst r;
     r_field := r_field r; r_annots := r_annots r; r_type := r_type r; r_value := r_value r |}.
Definition rs_err (r : rstate) (e : bool) : rstate :=
  {| r_bits := r_bits r; r_ctx := r_ctx r; r_eof := r_eof r; r_err := e; r_lst := r_lst r;
     r_field := r_field r; r_annots := r_annots r; r_type := r_type r; r_value := r_value r |}.
Definition rs_lst (r : rstate) (l : option rlst) : rstate :=
  {| r_bits := r_bits r; r_ctx := r_ctx r; r_eof := r_eof r; r_err := r_err r; r_lst := l;
     r_field := r_field r; r_annots := r_annots r; r_type := r_type r; r_value := r_value r |}.
Definition rs_field (r : rstate) (f : option tok) : rstate :=
  {| r_bits := r_bits r; r_ctx := r_ctx r; r_eof := r_eof r; r_err := r_err r; r_lst := r_lst r;
     r_field := f; r_annots := r_annots r; r_type := r_type r; r_value := r_value r |}.
Definition rs_annots (r : rstate) (a : list tok) : rstate :=
  {| r_bits := r_bits r; r_ctx := r_ctx r; r_eof := r_eof r; r_err := r_err r; r_lst := r_lst r;
     r_field := r_field r; r_annots := a; r_type := r_type r; r_value := r_value r |}.
Definition rs_val (r : rstate) (t : N) (v : rvalue) : rstate :=
  {| r_bits := r_bits r; r_ctx := r_ctx r; r_eof := r_eof r; r_err := r_err r; r_lst := r_lst r;
     r_field := r_field r; r_annots := r_annots r; r_type := t; r_value := v |}.
Definition r_clear (r : rstate) : rstate := rs_val (rs_annots (rs_field r None) []) 0 RNil.
Definition r_ctx_peek (r : rstate) : N := match r_ctx r with [] => 0 | c :: _ => c end.
Definition r_is_null (r : rstate) : bool :=
  negb (r_type r =? 0) && match r_value r with RNil => true | _ => false end.

(* the result of one raw step: Some done, or an error *)
Definition rres (A : Type) := (rstate * res A)%type.

Definition is_ion_symbol_table (a : list tok) : bool :=
  match a with
  | t :: _ => match tk_text t with Some x => list_eqb x (s "$ion_symbol_table"%string) | None => false end
  | [] => false
  end.

(* lift a bitstream read into the reader *)
Definition lift {A} (r : rstate) (x : bres A) : rres A := (rs_bits r (fst x), snd x).

Definition ty_of_code (c : N) : N :=
  if c =? bcList then TList else if c =? bcSexp then TSexp else TStruct.

Section Reader.
(* the timestamp acceptance test of Num/Timestamp.v *)
Variable ts_ok : list N -> res unit.
(* Reader.Next as seen from readLocalSymbolTable: passed down, tied with fuel below *)
Variable api_next : rstate -> rstate * res bool.

(* StepIn / StepOut (binaryReader) *)
Definition r_step_in (r : rstate) : rres bool :=
  if r_err r then (r, Ok false) else
  if negb ((r_type r =? TList) || (r_type r =? TSexp) || (r_type r =? TStruct)) then (r, Ok false) else
  match r_value r with
  | RNil => (r, Ok false)
  | _ =>
    let c := if r_type r =? TList then 2 else if r_type r =? TSexp then 3 else 1 in
    let r' := r_clear (rs_ctx r (c :: r_ctx r)) in
    match b_step_in (r_bits r') with
    | (b, Ok _) => (rs_bits r' b, Ok true)
    | (b, Panic) => (rs_bits r' b, Panic)
    | (b, _) => (rs_bits r' b, Err)
    end
  end.
Definition r_step_out (r : rstate) : rres bool :=
  if r_err r then (r, Ok false) else
  if r_ctx_peek r =? 0 then (r, Ok false) else
  match b_step_out (r_bits r) with
  | (b, Ok _) =>
    let r := rs_bits r b in
    (rs_eof (rs_ctx (r_clear r) (tl (r_ctx r))) false, Ok true)
  | (b, Err) => (rs_err (rs_bits r b) true, Ok false)    (* r.err = err *)
  | (b, Panic) => (rs_bits r b, Panic)
  | (b, OutOfFuel) => (rs_bits r b, OutOfFuel)
  end.

(* ---- readLocalSymbolTable over the Reader interface (nil catalog) ------------------------ *)
Definition field_text (r : rstate) : option text :=
  match r_field r with Some t => tk_text t | None => None end.

(* readSymbols *)
Fixpoint read_symbols_loop (fuel : nat) (r : rstate) (acc : list text) : rres (list text) :=
  match fuel with
  | O => (r, OutOfFuel)
  | S f =>
    match api_next r with
    | (r, Ok true) =>
      let sym := if r_type r =? TString
                 then match r_value r with RString t => t | _ => [] end
                 else [] in
      read_symbols_loop f r (acc ++ [sym])
    | (r, Ok false) => (r, Ok acc)
    | (r, Err) => (r, Err)
    | (r, Panic) => (r, Panic)
    | (r, OutOfFuel) => (r, OutOfFuel)
    end
  end.
Definition read_symbols (fuel : nat) (r : rstate) : rres (list text) :=
  if negb (r_type r =? TList) || r_is_null r then (r, Ok []) else     (* null.list: treated as empty *)
  match r_step_in r with
  | (r, Ok true) =>
    match read_symbols_loop fuel r [] with
    | (r, Ok syms) =>
      match r_step_out r with
      | (r, Ok true) => (r, Ok syms)
      | (r, Ok false) => (r, Err)
      | (r, x) => (r, match x with Panic => Panic | OutOfFuel => OutOfFuel | _ => Err end)
      end
    | (r, x) => (r, x)
    end
  | (r, Ok false) => (r, Err)                     (* StepIn refuses a null list: error *)
  | (r, x) => (r, match x with Panic => Panic | OutOfFuel => OutOfFuel | _ => Err end)
  end.

(* the three fields of an import struct *)
Record impdecl := { id_name : text; id_version : Z; id_maxid : Z }.
Fixpoint read_import_loop (fuel : nat) (r : rstate) (d : impdecl) : rres impdecl :=
  match fuel with
  | O => (r, OutOfFuel)
  | S f =>
    match api_next r with
    | (r, Ok true) =>
      if r_err r then (r, Err) else
      match field_text r with
      | None => (r, Err)
      | Some fnm =>
        if list_eqb fnm (s "name"%string) then
          (if r_type r =? TString
           then match r_value r with
                | RString t => read_import_loop f r {| id_name := t; id_version := id_version d; id_maxid := id_maxid d |}
                | _ => read_import_loop f r d                (* null.string: ignored *)
                end
           else read_import_loop f r d)
        else if list_eqb fnm (s "version"%string) then
          (if r_type r =? TInt
           then match r_value r with
                | RNil => read_import_loop f r d             (* null.int: ignored *)
                | RInt iv =>
                  let z := match iv with I64 z => z | IBig z => z end in
                  let fits64 := ((-9223372036854775808 <=? z) && (z <=? 9223372036854775807))%Z in
                  if negb fits64 then (r, Err)
                  else if ((2147483647 <? z) || (z <? -2147483648))%Z then (r, Err)
                  else read_import_loop f r {| id_name := id_name d; id_version := z; id_maxid := id_maxid d |}
                | _ => (r, Panic)
                end
           else read_import_loop f r d)
        else if list_eqb fnm (s "max_id"%string) then
          (if r_type r =? TInt
           then if r_is_null r then (r, Err) else
                match r_value r with
                | RInt iv =>
                  let z := match iv with I64 z => z | IBig z => z end in
                  let fits64 := ((-9223372036854775808 <=? z) && (z <=? 9223372036854775807))%Z in
                  if negb fits64 then (r, Err)
                  else read_import_loop f r {| id_name := id_name d; id_version := id_version d; id_maxid := z |}
                | _ => (r, Panic)
                end
           else read_import_loop f r d)
        else read_import_loop f r d
      end
    | (r, Ok false) => (r, Ok d)
    | (r, Err) => (r, Err)
    | (r, Panic) => (r, Panic)
    | (r, OutOfFuel) => (r, OutOfFuel)
    end
  end.
(* readImport: None = skipped *)
Definition read_import (fuel : nat) (r : rstate) : rres (option imp) :=
  if negb (r_type r =? TStruct) || r_is_null r then (r, Ok None) else
  match r_step_in r with
  | (r, Ok true) =>
    match read_import_loop fuel r {| id_name := []; id_version := (-1)%Z; id_maxid := (-1)%Z |} with
    | (r, Ok d) =>
      match r_step_out r with
      | (r, Ok true) =>
        if list_eqb (id_name d) [] || list_eqb (id_name d) (s "$ion"%string) then (r, Ok None)
        else if (id_maxid d <? 0)%Z then (r, Err)        (* nil catalog: no exact match possible *)
        else (r, Ok (Some {| im_syms := []; im_maxid := Z.to_N (id_maxid d) |}))
      | (r, Ok false) => (r, Err)
      | (r, x) => (r, match x with Panic => Panic | OutOfFuel => OutOfFuel | _ => Err end)
      end
    | (r, x) => (r, match x with Ok _ => Err | Err => Err | Panic => Panic | OutOfFuel => OutOfFuel end)
    end
  | (r, Ok false) => (r, Err)
  | (r, x) => (r, match x with Panic => Panic | OutOfFuel => OutOfFuel | _ => Err end)
  end.

Fixpoint read_imports_loop (fuel : nat) (r : rstate) (acc : list imp) : rres (list imp) :=
  match fuel with
  | O => (r, OutOfFuel)
  | S f =>
    match api_next r with
    | (r, Ok true) =>
      match read_import fuel r with
      | (r, Ok (Some i)) => read_imports_loop f r (acc ++ [i])
      | (r, Ok None) => read_imports_loop f r acc
      | (r, Err) => (r, Err)
      | (r, Panic) => (r, Panic)
      | (r, OutOfFuel) => (r, OutOfFuel)
      end
    | (r, Ok false) => (r, Ok acc)
    | (r, Err) => (r, Err)
    | (r, Panic) => (r, Panic)
    | (r, OutOfFuel) => (r, OutOfFuel)
    end
  end.
(* readImports: the user imports (the system table is prepended by processImports unless the
   list already starts with it, which is the append case) *)
Definition read_imports (fuel : nat) (r : rstate) : rres (list imp) :=
  let append_case :=
    if r_type r =? TSymbol then
      if r_err r then Some (r, Err) else
      match r_value r with
      | RNil => None                                        (* null.symbol: not the append marker *)
      | RSymbol t =>
        if (tk_sid t =? 3)%Z
           || match tk_text t with Some x => list_eqb x (s "$ion_symbol_table"%string) | None => false end then
          match r_lst r with
          | None | Some LSys => Some (r, Ok [])
          | Some (LTab t0) =>
            Some (r, Ok (lt_imps t0 ++ [{| im_syms := lt_locals t0; im_maxid := N.of_nat (length (lt_locals t0)) |}]))
          end
        else None
      | _ => Some (r, Panic)
      end
    else None in
  match append_case with
  | Some x => x
  | None =>
    if negb (r_type r =? TList) || r_is_null r then (r, Ok []) else
    match r_step_in r with
    | (r, Ok true) =>
      match read_imports_loop fuel r [] with
      | (r, Ok imps) =>
        match r_step_out r with
        | (r, Ok true) => (r, Ok imps)
        | (r, Ok false) => (r, Err)
        | (r, x) => (r, match x with Panic => Panic | OutOfFuel => OutOfFuel | _ => Err end)
        end
      | (r, x) => (r, x)
      end
    | (r, Ok false) => (r, Err)
    | (r, x) => (r, match x with Panic => Panic | OutOfFuel => OutOfFuel | _ => Err end)
    end
  end.

Fixpoint read_lst_loop (fuel : nat) (r : rstate) (imps : list imp) (syms : list text)
  (found_imp found_sym : bool) : rres (list imp * list text) :=
  match fuel with
  | O => (r, OutOfFuel)
  | S f =>
    match api_next r with
    | (r, Ok true) =>
      if r_err r then (r, Err) else
      match field_text r with
      | None => (r, Err)
      | Some fnm =>
        if list_eqb fnm (s "symbols"%string) then
          if found_sym then (r, Err) else
          match read_symbols fuel r with
          | (r, Ok sy) => read_lst_loop f r imps sy found_imp true
          | (r, x) => (r, match x with Ok _ => Err | Err => Err | Panic => Panic | OutOfFuel => OutOfFuel end)
          end
        else if list_eqb fnm (s "imports"%string) then
          if found_imp then (r, Err) else
          match read_imports fuel r with
          | (r, Ok im) => read_lst_loop f r im syms true found_sym
          | (r, x) => (r, match x with Ok _ => Err | Err => Err | Panic => Panic | OutOfFuel => OutOfFuel end)
          end
        else read_lst_loop f r imps syms found_imp found_sym
      end
    | (r, Ok false) => (r, Ok (imps, syms))
    | (r, Err) => (r, Err)
    | (r, Panic) => (r, Panic)
    | (r, OutOfFuel) => (r, OutOfFuel)
    end
  end.

(* processImports: prepend the system table unless the first import is named "$ion"
   (only the append case produces such a list here) *)
Definition process_imports (imps : list imp) (starts_with_sys : bool) : list imp :=
  if starts_with_sys then imps else sys_imp :: imps.

Definition read_local_symbol_table (fuel : nat) (r : rstate) : rres rlst :=
  match r_step_in r with
  | (r, Ok true) =>
    match read_lst_loop fuel r [] [] false false with
    | (r, Ok (imps, syms)) =>
      match r_step_out r with
      | (r, Ok true) =>
        let starts := match imps with i :: _ => list_eqb (hd [] (im_syms i)) (s "$ion"%string) && (im_maxid i =? 9) | [] => false end in
        (r, Ok (LTab {| lt_imps := process_imports imps starts; lt_locals := syms |}))
      | (r, Ok false) => (r, Err)
      | (r, x) => (r, match x with Panic => Panic | OutOfFuel => OutOfFuel | _ => Err end)
      end
    | (r, x) => (r, match x with Ok _ => Err | Err => Err | Panic => Panic | OutOfFuel => OutOfFuel end)
    end
  | (r, Ok false) => (r, Err)
  | (r, x) => (r, match x with Panic => Panic | OutOfFuel => OutOfFuel | _ => Err end)
  end.

(* ---- binaryReader.next(): one raw item; Ok true = a user-facing value (or EOF) ------------- *)
Definition cur_lst (r : rstate) : res rlst :=
  match r_lst r with Some l => Ok l | None => Panic end.    (* nil SymbolTable: MaxID() on nil *)

Definition r_next_raw (fuel : nat) (r : rstate) : rres bool :=
  match b_next (r_bits r) with
  | (b, Ok _) =>
    let r := rs_bits r b in
    let code := b_code b in
    let isnull := b_null b in
    if code =? bcEOF then (rs_eof r true, Ok true)
    else if code =? bcBVM then
      match lift r (b_read_bvm b) with
      | (r, Ok (major, minor)) =>
        if (major =? 1) && (minor =? 0) then (rs_lst r (Some LSys), Ok false) else (r, Err)
      | (r, x) => (r, match x with Ok _ => Err | Err => Err | Panic => Panic | OutOfFuel => OutOfFuel end)
      end
    else if code =? bcFieldID then
      match lift r (b_read_field_id b) with
      | (r, Ok id) =>
        match cur_lst r with
        | Ok l => match tok_by_sid l id with
                  | Some t => (rs_field r (Some t), Ok false)
                  | None => (r, Err)
                  end
        | _ => (r, Panic)
        end
      | (r, x) => (r, match x with Ok _ => Err | Err => Err | Panic => Panic | OutOfFuel => OutOfFuel end)
      end
    else if code =? bcAnnotation then
      match cur_lst r with
      | Ok l =>
        match lift r (b_read_annotations b (sid_ok l)) with
        | (r, Ok ids) =>
          (rs_annots r (map (fun id => {| tk_text := lst_find_by_id l id; tk_sid := Z.of_N id |}) ids), Ok false)
        | (r, x) => (r, match x with Ok _ => Err | Err => Err | Panic => Panic | OutOfFuel => OutOfFuel end)
        end
      | _ => (r, Panic)
      end
    else if code =? bcNull then
      if negb isnull then
        match lift r (b_skip_value b) with
        | (r, Ok _) => (r, Ok false)
        | (r, x) => (r, match x with Ok _ => Err | Err => Err | Panic => Panic | OutOfFuel => OutOfFuel end)
        end
      else (rs_val r TNull RNil, Ok true)
    else if (code =? bcFalse) || (code =? bcTrue) then
      (rs_val r TBool (if isnull then RNil else RBool (code =? bcTrue)), Ok true)
    else if (code =? bcInt) || (code =? bcNegInt) then
      if isnull then (rs_val r TInt RNil, Ok true) else
      match lift (rs_val r TInt RNil) (b_read_int b) with
      | (r, Ok v) => (rs_val r TInt (RInt v), Ok true)
      | (r, x) => (r, match x with Ok _ => Err | Err => Err | Panic => Panic | OutOfFuel => OutOfFuel end)
      end
    else if code =? bcFloat then
      if isnull then (rs_val r TFloat RNil, Ok true) else
      match lift (rs_val r TFloat RNil) (b_read_float b) with
      | (r, Ok v) => (rs_val r TFloat (RFloat v), Ok true)
      | (r, x) => (r, match x with Ok _ => Err | Err => Err | Panic => Panic | OutOfFuel => OutOfFuel end)
      end
    else if code =? bcDecimal then
      if isnull then (rs_val r TDecimal RNil, Ok true) else
      match lift (rs_val r TDecimal RNil) (b_read_decimal b) with
      | (r, Ok v) => (rs_val r TDecimal (RDecimal v), Ok true)
      | (r, x) => (r, match x with Ok _ => Err | Err => Err | Panic => Panic | OutOfFuel => OutOfFuel end)
      end
    else if code =? bcTimestamp then
      if isnull then (rs_val r TTimestamp RNil, Ok true) else
      match lift (rs_val r TTimestamp RNil) (b_read_timestamp b ts_ok) with
      | (r, Ok v) => (rs_val r TTimestamp (RTimestamp v), Ok true)
      | (r, x) => (r, match x with Ok _ => Err | Err => Err | Panic => Panic | OutOfFuel => OutOfFuel end)
      end
    else if code =? bcSymbol then
      if isnull then (rs_val r TSymbol RNil, Ok true) else
      match lift r (b_read_symbol_id b) with
      | (r, Ok id) =>
        match cur_lst r with
        | Ok l => match tok_by_sid l id with
                  | Some t => (rs_val r TSymbol (RSymbol t), Ok true)
                  | None => (r, Err)
                  end
        | _ => (r, Panic)
        end
      | (r, x) => (r, match x with Ok _ => Err | Err => Err | Panic => Panic | OutOfFuel => OutOfFuel end)
      end
    else if code =? bcString then
      if isnull then (rs_val r TString RNil, Ok true) else
      match lift (rs_val r TString RNil) (b_read_string b) with
      | (r, Ok v) => (rs_val r TString (RString v), Ok true)
      | (r, x) => (r, match x with Ok _ => Err | Err => Err | Panic => Panic | OutOfFuel => OutOfFuel end)
      end
    else if (code =? bcClob) || (code =? bcBlob) then
      let ty := if code =? bcClob then TClob else TBlob in
      if isnull then (rs_val r ty RNil, Ok true) else
      match lift (rs_val r ty RNil) (b_read_bytes b) with
      | (r, Ok v) => (rs_val r ty (RBytes v), Ok true)
      | (r, x) => (r, match x with Ok _ => Err | Err => Err | Panic => Panic | OutOfFuel => OutOfFuel end)
      end
    else if (code =? bcList) || (code =? bcSexp) then
      (rs_val r (ty_of_code code) (if isnull then RNil else RContainer), Ok true)
    else if code =? bcStruct then
      let r := rs_val r TStruct (if isnull then RNil else RContainer) in
      if (r_ctx_peek r =? 0) && is_ion_symbol_table (r_annots r) then
        if r_is_null r then (rs_lst (r_clear r) (Some LSys), Ok false)
        else match read_local_symbol_table fuel r with
             | (r, Ok st) => (rs_lst r (Some st), Ok false)
             | (r, x) => (r, match x with Ok _ => Err | Err => Err | Panic => Panic | OutOfFuel => OutOfFuel end)
             end
      else (r, Ok true)
    else (r, Panic)
  | (b, Err) => (rs_bits r b, Err)
  | (b, Panic) => (rs_bits r b, Panic)
  | (b, OutOfFuel) => (rs_bits r b, OutOfFuel)
  end.

(* Next: "for !done { done, r.err = r.next() }" *)
Fixpoint r_next_loop (k : nat) (fuel : nat) (r : rstate) : rstate * res bool :=
  match k with
  | O => (r, OutOfFuel)
  | S k' =>
    match r_next_raw fuel r with
    | (r, Ok true) => (r, Ok (negb (r_eof r)))
    | (r, Ok false) => r_next_loop k' fuel r
    | (r, Err) => (rs_err r true, Ok false)
    | (r, Panic) => (r, Panic)
    | (r, OutOfFuel) => (r, OutOfFuel)
    end
  end.
Definition r_next_with (fuel : nat) (r : rstate) : rstate * res bool :=
  if r_eof r || r_err r then (r, Ok false)
  else r_next_loop fuel fuel (r_clear r).
End Reader.

(* tie the knot: a local symbol table is read through the Reader's own Next; inside it the
   context is never the top level, so the recursion is one level deep *)
Definition input_fuel (r : rstate) : nat := b_fuel (r_bits r).
Definition r_next_inner (ts_ok : list N -> res unit) (r : rstate) : rstate * res bool :=
  r_next_with ts_ok (fun r0 => (r0, Panic)) (input_fuel r) r.
Definition r_next (ts_ok : list N -> res unit) (r : rstate) : rstate * res bool :=
  r_next_with ts_ok (r_next_inner ts_ok) (input_fuel r) r.

(* ---- accessors of reader.go and the navigation interface -------------------------------------- *)
Inductive rop :=
| ONext | OStepIn | OStepOut | OType | OIsNull | OAnnotations | OFieldName | OIsInStruct | OErr
| OBool | OIntSize | OInt | OInt64 | OBigInt | OFloat | ODecimal | OTimestamp | OString | OSymbol | OBytes.

Definition show_tok (t : tok) : list N :=
  match tk_text t with
  | Some x => 107 :: hex_of_bytes x ++ 46 :: dec_of_Z (tk_sid t)       (* k<hex>.<sid> *)
  | None => 117 :: 46 :: dec_of_Z (tk_sid t)                           (* u.<sid> *)
  end.
Definition canon_float (b : N) : N := if f64_is_nan b then canonical_nan64 else b.
Definition show_int (i : intval) : Z := match i with I64 z => z | IBig z => z end.
Definition fits (lo hi z : Z) : bool := ((lo <=? z) && (z <=? hi))%Z.

Definition t_nil : list N := s "nil"%string.
Definition t_err : list N := s "err"%string.

(* one API call: new state, and the token describing what it returned (None = panic) *)
Definition r_op (ts_ok : list N -> res unit) (r : rstate) (o : rop) : rstate * option (list N) :=
  let wrong := (r, Some t_err) in
  match o with
  | ONext => match r_next ts_ok r with
             | (r', Ok b) => (r', Some [if b then 84 else 70])
             | (r', _) => (r', None)
             end
  | OStepIn => match r_step_in r with
               | (r', Ok b) => (r', Some (if b then s "ok"%string else t_err))
               | (r', _) => (r', None)
               end
  | OStepOut => match r_step_out r with
                | (r', Ok b) => (r', Some (if b then s "ok"%string else t_err))
                | (r', _) => (r', None)
                end
  | OType => (r, Some (121 :: dec_of_N (r_type r)))
  | OIsNull => (r, Some [110; if r_is_null r then 49 else 48])
  | OIsInStruct => (r, Some [115; if r_ctx_peek r =? 1 then 49 else 48])
  | OErr => (r, Some [101; if r_err r then 49 else 48])
  | OAnnotations => if r_err r then wrong
                    else (r, Some (97 :: 91 :: concat (map (fun t => show_tok t ++ [59]) (r_annots r)) ++ [93]))
  | OFieldName => if r_err r then wrong
                  else (r, Some (match r_field r with Some t => show_tok t | None => t_nil end))
  | OBool => if negb (r_type r =? TBool) then wrong
             else (r, Some (match r_value r with RBool b => [98; if b then 49 else 48] | _ => t_nil end))
  | OIntSize => if negb (r_type r =? TInt) then wrong
                else (r, Some (122 :: dec_of_N (match r_value r with
                                                  | RInt (I64 z) => if fits (-2147483648) 2147483647 z then 1 else 2
                                                  | RInt (IBig _) => 3
                                                  | _ => 0
                                                  end)))
  | OInt64 => if negb (r_type r =? TInt) then wrong
              else match r_value r with
                   | RInt i => if fits (-9223372036854775808) 9223372036854775807 (show_int i)
                               then (r, Some (73 :: dec_of_Z (show_int i))) else wrong
                   | _ => (r, Some t_nil)
                   end
  | OInt => if negb (r_type r =? TInt) then wrong
            else match r_value r with
                 | RInt i => if fits (-9223372036854775808) 9223372036854775807 (show_int i)
                             then if fits (-2147483648) 2147483647 (show_int i)
                                  then (r, Some (73 :: dec_of_Z (show_int i))) else wrong
                             else wrong
                 | _ => (r, Some t_nil)
                 end
  | OBigInt => if negb (r_type r =? TInt) then wrong
               else (r, Some (match r_value r with RInt i => 73 :: dec_of_Z (show_int i) | _ => t_nil end))
  | OFloat => if negb (r_type r =? TFloat) then wrong
              else (r, Some (match r_value r with RFloat b => 70 :: dec_of_N (canon_float b) | _ => t_nil end))
  | ODecimal => if negb (r_type r =? TDecimal) then wrong
                else (r, Some (match r_value r with RDecimal d => show_dec d | _ => t_nil end))
  | OTimestamp => if negb (r_type r =? TTimestamp) then wrong
                  else (r, Some (match r_value r with RTimestamp b => 84 :: hex_of_bytes b | _ => t_nil end))
  | OString => if r_err r then wrong else if negb (r_type r =? TString) then wrong
               else (r, Some (match r_value r with RString t => 83 :: xhex t | _ => t_nil end))
  | OSymbol => if r_err r then wrong else if negb (r_type r =? TSymbol) then wrong
               else (r, Some (match r_value r with RSymbol t => show_tok t | _ => t_nil end))
  | OBytes => if negb ((r_type r =? TBlob) || (r_type r =? TClob)) then wrong
              else (r, Some (match r_value r with RBytes b => 66 :: xhex b | _ => t_nil end))
  end.

(* run a navigation program; a panic ends the trace with the token "panic" *)
Fixpoint r_run (ts_ok : list N -> res unit) (r : rstate) (p : list rop) (acc : list (list N))
  : rstate * list (list N) :=
  match p with
  | [] => (r, rev_append acc [])
  | o :: p' => match r_op ts_ok r o with
               | (r', Some t) => r_run ts_ok r' p' (t :: acc)
               | (r', None) => (r', rev_append (s "panic"%string :: acc) [])
               end
  end.

(* the accessor a plain traversal uses for a scalar of type [t] *)
Definition accessor_of (t : N) : option rop :=
  if t =? TBool then Some OBool else if t =? TInt then Some OBigInt else if t =? TFloat then Some OFloat
  else if t =? TDecimal then Some ODecimal else if t =? TTimestamp then Some OTimestamp
  else if t =? TSymbol then Some OSymbol else if t =? TString then Some OString
  else if (t =? TClob) || (t =? TBlob) then Some OBytes else None.

(* full traversal: Next; for each value FieldName (inside a struct), Annotations, Type, IsNull, then the
   accessor of its type or StepIn ... StepOut; finally Err twice around two more Next calls.
   The trace is the list of every token returned. *)
Fixpoint traverse_loop (ts_ok : list N -> res unit) (fuel : nat) (r : rstate) (depth : nat) (acc : list (list N))
  : rstate * list (list N) * bool (* panicked *) :=
  match fuel with
  | O => (r, s "outoffuel"%string :: acc, true)
  | S f =>
    match r_op ts_ok r ONext with
    | (r, None) => (r, s "panic"%string :: acc, true)
    | (r, Some t) =>
      let acc := t :: acc in
      if list_eqb t [70] then
        match depth with
        | O => (r, acc, false)
        | S d =>
          match r_op ts_ok r OStepOut with
          | (r, None) => (r, s "panic"%string :: acc, true)
          | (r, Some t2) =>
            if list_eqb t2 (s "ok"%string) then traverse_loop ts_ok f r d (t2 :: acc)
            else (r, t2 :: acc, false)               (* refused/failed StepOut: stop *)
          end
        end
      else
        let '(r, t1) := r_op ts_ok r OFieldName in
        let '(r, t2) := r_op ts_ok r OAnnotations in
        let '(r, t3) := r_op ts_ok r OType in
        let '(r, t4) := r_op ts_ok r OIsNull in
        let acc := match t1, t2, t3, t4 with
                   | Some a, Some b, Some c, Some d => d :: c :: b :: a :: acc
                   | _, _, _, _ => acc
                   end in
        if r_is_null r then traverse_loop ts_ok f r depth acc else
        match accessor_of (r_type r) with
        | Some o =>
          match r_op ts_ok r o with
          | (r, None) => (r, s "panic"%string :: acc, true)
          | (r, Some t5) => traverse_loop ts_ok f r depth (t5 :: acc)
          end
        | None =>
          match r_op ts_ok r OStepIn with
          | (r, None) => (r, s "panic"%string :: acc, true)
          | (r, Some t5) =>
            if list_eqb t5 (s "ok"%string) then traverse_loop ts_ok f r (S depth) (t5 :: acc)
            else traverse_loop ts_ok f r depth (t5 :: acc)
          end
        end
    end
  end.

(* the trace, and the largest single allocation the run requested *)
Definition traverse (ts_ok : list N -> res unit) (inp : list N) (ioerr : bool) : list (list N) * N :=
  let r := r_init inp ioerr in
  let '(r, acc, pan) := traverse_loop ts_ok (4 * length inp + 16) r 0 [] in
  if pan then (rev_append acc [], b_alloc (r_bits r)) else
  let '(r, tail) := r_run ts_ok r [OErr; ONext; OErr; ONext; OErr] [] in
  (rev_append acc [] ++ tail, b_alloc (r_bits r)).
