(* DenoteCalls3P.v — the failing io.Writer under the growing-table binary Writer: WHERE the failure shows.
   Between two Finish calls the writer only buffers: a successful call other than Finish succeeds whatever
   the io.Writer (the equations of Bin/RoundTripBinW.v hold for every sink).  Hence, comparing the run over
   the failing io.Writer with the fault-free run call by call, the first call whose result differs is a
   Finish: it returns an error over the failing io.Writer (nil over the never-failing one), the error is
   recorded with the budget exhausted, and every later call fails. *)
From Coq Require Import String List NArith ZArith Bool Lia ZifyBool ZifyN ZifyNat.
From IonV Require Import Base.Wire Base.Utf8 Bin.Bits Data.Ion Num.Float
  Bin.BinWriter Bin.BinWriterP Bin.BinWriterP2 Bin.SpecBin Bin.RoundTripBin Bin.RoundTripBinS Bin.RoundTripBinW
  Bin.RoundTripBinP Bin.DenoteCalls Bin.DenoteCallsP Bin.DenoteCalls2P.
Import ListNotations.
Open Scope N_scope.

Lemma set_out_mkw out' out ctx fld ann bufs L wl :
  set_out (mkw out ctx fld ann bufs L wl) out' = mkw out' ctx fld ann bufs L wl.
Proof. reflexivity. Qed.

(* a call other than Finish that succeeds from a healthy state succeeds whatever the io.Writer *)
Lemma rel_step_any_out w st c wb out : Rel w st -> call_ok c -> c <> CFinish -> wstep w c = Ok (wb, true) ->
  exists wa, wstep (set_out w out) c = Ok (wa, true).
Proof.
  intros (ws & ctx & fld & a & bufs & L & -> & Hfld & Hann & Hwa & Hfu & Hft & HuL & Hfl & Hdwf & Hstk) Hok Hnf Hstep.
  rewrite set_out_mkw.
  destruct (stk_rel_head _ _ _ _ _ _ Hstk) as (q & r & -> & Hq224 & Htop).
  assert (SC : is_value_call c = true -> c <> CBeginList -> c <> CBeginSexp -> c <> CBeginStruct ->
               exists wa, wstep (mkw out ctx (option_map tok_text fld) (map tok_of a) (q :: r) L false) c = Ok (wa, true)).
  { intros Hv N1 N2 N3. pose proof (struct_field_agree _ _ _ _ _ _ _ _ _ Hft Htop Hv Hstep) as Hs.
    destruct (scalar_of_call c) as [v|] eqn:Es; [|exfalso; eapply scalar_none_fails; eassumption].
    destruct (scalar_call_canon c v Es Hok) as (Hwv & Hsc & c' & Hcb & Heq).
    assert (Hnav : not_ann v) by (destruct v; try exact I; destruct Hsc).
    pose proof (value_run v Hwv out ctx fld a q r L false Hwa (fun _ => Hnav) Hs Hq224) as Hrun. cbv zeta in Hrun.
    destruct Hrun as (q' & oks & Hd & Hall & _).
    rewrite Hcb in Hd. cbn [drive_results] in Hd. unfold wstep. rewrite Heq.
    unfold wstep in Hd. destruct (step (run_calls 2) _ c') as [[wa ok]| | |]; cbn [bind] in Hd; try discriminate.
    inversion Hd; subst. inversion Hall; subst. eexists; reflexivity. }
  assert (BC : forall o, is_value_call c = true ->
               (forall run w, step run w c = begin_container run w (open_ctx o) (open_code o)) ->
               exists wa, wstep (mkw out ctx (option_map tok_text fld) (map tok_of a) (q :: r) L false) c = Ok (wa, true)).
  { intros o Hv Hcb. pose proof (struct_field_agree _ _ _ _ _ _ _ _ _ Hft Htop Hv Hstep) as Hs.
    destruct (begin_container_mkw (run_calls 2) out ctx fld a q r L false (open_ctx o) (open_code o) Hwa Hs)
      as (q1 & e & Hbc & _). unfold wstep. rewrite Hcb, Hbc. eexists; reflexivity. }
  assert (EC : forall t, t <> 0 -> (forall w, step (run_calls 2) w c = end_container w t) ->
               exists wa, wstep (mkw out ctx (option_map tok_text fld) (map tok_of a) (q :: r) L false) c = Ok (wa, true)).
  { intros t Ht Hce. unfold wstep in *. rewrite Hce in *.
    assert (Hpk : ctx_top ctx = t).
    { unfold end_container in Hstep. cbn [w_err mkw] in Hstep. unfold ctx_peek in Hstep. cbn [w_ctx mkw] in Hstep.
      fold (ctx_top ctx) in Hstep. destruct (ctx_top ctx =? t) eqn:E; [apply N.eqb_eq; exact E|]. discriminate. }
    destruct (ds_stack st) as [|fr rest] eqn:Est; [cbn [stack_top] in Htop; exfalso; apply Ht; rewrite <- Hpk; exact Htop|].
    cbn [stack_top] in Htop. cbn [stk_rel] in Hstk.
    destruct Hstk as (qc & e & q1 & r0 & ctx' & pf & Hc & Hb & He & Hpf & Hqc & Hqe & Hr).
    inversion Hb; subst qc r. subst ctx. cbn [ctx_top] in Hpk.
    destruct (stk_rel_head _ _ _ _ _ _ Hr) as (q1' & r1' & Hb1 & Hq1 & _). inversion Hb1; subst q1' r1'.
    rewrite Hpk. rewrite end_container_pending by assumption. eexists; reflexivity. }
  destruct c; try (apply SC; [reflexivity|discriminate|discriminate|discriminate]).
  - unfold wstep in *. cbn [step w_err mkw] in *. rewrite in_struct_mkw in *.
    destruct (ctx_top ctx =? ctxStruct); cbn [negb] in *; [eexists; reflexivity|discriminate].
  - unfold wstep. cbn [step w_err mkw]. eexists; reflexivity.
  - unfold wstep. cbn [step w_err mkw]. eexists; reflexivity.
  - apply (BC (OList [])); reflexivity.
  - apply (EC ctxList); [discriminate|reflexivity].
  - apply (BC (OSexp [])); reflexivity.
  - apply (EC ctxSexp); [discriminate|reflexivity].
  - apply (BC (OStruct [])); reflexivity.
  - apply (EC ctxStruct); [discriminate|reflexivity].
  - exfalso. apply Hnf. reflexivity.
Qed.

Lemma set_out_unl w : set_out (unl w) (w_out w) = w.
Proof. destruct w; reflexivity. Qed.

(* a Finish that fails without recording an error was called inside a container (or on a poisoned writer) *)
Lemma finish_false_ctx w w' : wstep w CFinish = Ok (w', false) -> w_err w' = false -> w_err w = false ->
  (ctx_peek w =? 0) = false.
Proof.
  unfold wstep. rewrite finish_eq. intros H He' He. rewrite He in H.
  destruct (ctx_peek w =? 0); cbn [negb] in H; [|reflexivity]. exfalso.
  destruct (w_bufs w) as [|q [|q2 rest]]; try discriminate.
  destruct (write_lst _ _ _) as [[w1 ok]| | |]; cbn [bind] in H; try discriminate.
  unfold fin_tail in H. destruct ok; cbn [negb] in H.
  - destruct (emit w1 _) as [w2 ok2]. destruct ok2; cbn [negb] in H; inversion H; subst; cbn in He'; discriminate He'.
  - inversion H; subst; cbn in He'; discriminate He'.
Qed.

(* the first call whose result differs *)
Definition first_diff_finish (cs : list wcall) (r1 r2 : list bool) (w1' : wstate) : Prop :=
  exists cs0 cs1 r0 r2t, cs = cs0 ++ CFinish :: cs1 /\ length r0 = length cs0 /\
    r1 = r0 ++ false :: repeat false (length cs1) /\ r2 = r0 ++ true :: r2t /\
    w_err w1' = true /\ sk_budget (w_out w1') = Some O.

Lemma first_diff_cons c cs ok r1 r2 w1' : first_diff_finish cs r1 r2 w1' ->
  first_diff_finish (c :: cs) (ok :: r1) (ok :: r2) w1'.
Proof.
  intros (cs0 & cs1 & r0 & r2t & -> & Hl & -> & -> & He & Hb).
  exists (c :: cs0), cs1, (ok :: r0), r2t. cbn [app length]. repeat split; try assumption. rewrite Hl. reflexivity.
Qed.

(* identical runs / the same misuse poisons both writers / the first difference is a Finish cut by the io.Writer *)
Definition both_poisoned (r1 r2 : list bool) (w1' w2' : wstate) : Prop :=
  r1 = r2 /\ w_err w1' = true /\ w_err w2' = true.

Theorem first_difference_from3 cs : forall w1 st w1' r1 w2' r2, Rel (unl w1) st -> Forall call_ok cs ->
  drive_results w1 cs = Ok (w1', r1) -> drive_results (unl w1) cs = Ok (w2', r2) ->
  (w2' = unl w1' /\ r2 = r1) \/ both_poisoned r1 r2 w1' w2' \/ first_diff_finish cs r1 r2 w1'.
Proof.
  induction cs as [|c cs IH]; intros w1 st w1' r1 w2' r2 HR Hok; cbn [drive_results].
  - intros H1 H2. inversion H1; inversion H2; subst. left. split; reflexivity.
  - pose proof (wstep_sim w1 c) as S.
    destruct (wstep w1 c) as [[wa oka]| | |] eqn:E1; cbn [bind]; try discriminate.
    destruct (wstep (unl w1) c) as [[wb okb]| | |] eqn:E2; cbn [bind]; try discriminate.
    destruct (drive_results wa cs) as [[wa' ra]| | |] eqn:Ea; cbn [bind]; try discriminate.
    destruct (drive_results wb cs) as [[wb' rb]| | |] eqn:Eb; cbn [bind]; try discriminate.
    intros H1 H2. inversion H1; inversion H2; subst. clear H1 H2.
    inversion Hok as [|? ? Hc Hcs]; subst.
    assert (NEXT : forall st', wb = unl wa -> okb = oka -> Rel (unl wa) st' ->
                   (w2' = unl w1' /\ okb :: rb = oka :: ra) \/ both_poisoned (oka :: ra) (okb :: rb) w1' w2' \/
                   first_diff_finish (c :: cs) (oka :: ra) (okb :: rb) w1').
    { intros st' -> -> HR'. destruct (IH wa st' w1' ra w2' rb HR' Hcs Ea Eb) as [[-> ->]|[(-> & P1 & P2)|F]].
      - left. split; reflexivity.
      - right. left. split; [reflexivity|split; assumption].
      - right. right. apply first_diff_cons. exact F. }
    destruct (wcall_eq_finish c) as [->|Hnf].
    + destruct (rel_finish (unl w1) st wb okb HR E2) as [[-> ->]|(-> & _ & st' & _ & HR')].
      * assert (Hwa : wa = w1 /\ oka = false).
        { pose proof (rel_no_err _ _ HR) as He. rewrite unl_err in He.
          pose proof (finish_false_ctx _ _ E2 (rel_no_err _ _ HR) (rel_no_err _ _ HR)) as Hctx.
          rewrite unl_ctx_peek in Hctx. unfold wstep in E1. rewrite finish_eq, He, Hctx in E1. cbn [negb] in E1.
          inversion E1; split; reflexivity. }
        destruct Hwa as [-> ->]. apply (NEXT st); [reflexivity|reflexivity|exact HR].
      * destruct S as [[S1 S2]|[S1 [SB SP]]]; cbn [fst snd] in *.
        -- subst wb. apply (NEXT st'); [reflexivity|exact S2|exact HR'].
        -- subst oka. right. right.
           assert (He : w_err wa = true).
           { destruct (w_err wa) eqn:He; [reflexivity|]. destruct (finish_false_sync _ _ E1 He) as [_ E3].
             rewrite E3 in E2. discriminate E2. }
           destruct (bw_sticky_seq cs wa w1' ra He Ea) as [-> Hf].
           pose proof (drive_results_length _ _ _ _ Ea) as Hl.
           exists [], cs, [], rb. cbn [app length]. split; [reflexivity|]. split; [reflexivity|].
           split; [f_equal; rewrite <- Hl; apply all_false_repeat; exact Hf|]. split; [reflexivity|]. split; [exact He|exact SB].
    + destruct okb.
      * destruct (rel_step (unl w1) st c wb HR Hc Hnf E2) as (st' & _ & HR').
        destruct (rel_step_any_out (unl w1) st c wb (w_out w1) HR Hc Hnf E2) as (wa2 & E3).
        rewrite set_out_unl, E1 in E3. inversion E3; subst wa2 oka.
        destruct S as [[S1 S2]|[S1 _]]; cbn [fst snd] in *; [|discriminate S1].
        subst wb. apply (NEXT st'); [reflexivity|reflexivity|exact HR'].
      * destruct oka.
        -- exfalso. destruct S as [[_ S2]|[S1 _]]; cbn [fst snd] in *; discriminate.
        -- right. left.
           pose proof (bw_error_recorded _ _ _ _ E1 Hnf) as He1. pose proof (bw_error_recorded _ _ _ _ E2 Hnf) as He2.
           destruct (bw_sticky_seq cs wa w1' ra He1 Ea) as [-> Hf1]. destruct (bw_sticky_seq cs wb w2' rb He2 Eb) as [-> Hf2].
           split; [|split; assumption]. f_equal.
           rewrite (all_false_repeat _ Hf1), (all_false_repeat _ Hf2).
           rewrite (drive_results_length _ _ _ _ Ea), (drive_results_length _ _ _ _ Eb). reflexivity.
Qed.

Theorem first_difference_from cs w1 st w1' r1 w2' r2 : Rel (unl w1) st -> Forall call_ok cs ->
  drive_results w1 cs = Ok (w1', r1) -> drive_results (unl w1) cs = Ok (w2', r2) ->
  r1 = r2 \/ first_diff_finish cs r1 r2 w1'.
Proof.
  intros HR Hok H1 H2. destruct (first_difference_from3 cs w1 st w1' r1 w2' r2 HR Hok H1 H2) as [[_ ->]|[(E & _)|F]].
  - left. reflexivity.
  - left. exact E.
  - right. exact F.
Qed.

(* from a fresh writer, the trichotomy: the two runs are identical (same results, same state up to the remaining
   budget, hence the same bytes); or a call other than Finish failed in both (misuse: both writers are poisoned, same
   results); or the first difference is a Finish cut by the io.Writer *)
Theorem bw_fault_trichotomy budget cs w1 r1 w2 r2 : Forall call_ok cs ->
  drive_results (new_writer budget) cs = Ok (w1, r1) -> drive_results (new_writer None) cs = Ok (w2, r2) ->
  (w2 = unl w1 /\ r2 = r1) \/ both_poisoned r1 r2 w1 w2 \/ first_diff_finish cs r1 r2 w1.
Proof.
  intros Hok H1 H2. exact (first_difference_from3 cs (new_writer budget) d_init w1 r1 w2 r2 rel_init Hok H1 H2).
Qed.

(* from a fresh writer: the results of the run over the failing io.Writer and of the fault-free run are the same,
   or the first difference is at a Finish — nil in the fault-free run, an error over the failing io.Writer, which is
   recorded with the budget exhausted; every later call fails *)
Theorem bw_fault_is_finish budget cs w1 r1 w2 r2 : Forall call_ok cs ->
  drive_results (new_writer budget) cs = Ok (w1, r1) -> drive_results (new_writer None) cs = Ok (w2, r2) ->
  r1 = r2 \/ first_diff_finish cs r1 r2 w1.
Proof.
  intros Hok H1 H2. exact (first_difference_from cs (new_writer budget) d_init w1 r1 w2 r2 rel_init Hok H1 H2).
Qed.
