(* AccessorsP.v — the accessor clauses of C13 over the binary reader model.
   Part 1: every reachable state of the reader stores an int64 only when the number
   fits an int64 (the invariant [AI], kept by every API call when the input is bytes).
   Part 2: what IntSize / IntValue / Int64Value / BigIntValue answer on a stored integer,
   typed nulls, wrong types. *)
From Coq Require Import String List NArith ZArith Bool Lia ZifyBool ZifyN ZifyNat.
From IonV Require Import Base.Wire Base.Utf8 Bin.Bits Bin.BitsP Data.Ion Num.Float Bin.BitStream Bin.BinReader.
Import ListNotations.
Open Scope N_scope.
Ltac Zify.zify_post_hook ::= Z.div_mod_to_equations.

(* ---- part 1a: the unread input stays a list of bytes ------------------------------------------ *)
Definition BY (l : list N) : Prop := Forall (fun d => d < 256) l.
Definition BB (b : bstate) : Prop := BY (b_in b).

Lemma BY_tl l : BY l -> BY (tl l).
Proof. intros H. destruct l; [exact H|]. inversion H; assumption. Qed.
Lemma BY_skipn n l : BY l -> BY (skipn n l).
Proof. revert l. induction n as [|n IH]; intros l H; [exact H|]. destruct l; [exact H|]. inversion H; subst. apply IH; assumption. Qed.
Lemma BY_firstn n l : BY l -> BY (firstn n l).
Proof. revert l. induction n as [|n IH]; intros l H; [constructor|]. destruct l; [constructor|]. inversion H; subst. constructor; [assumption|apply IH; assumption]. Qed.
Lemma BY_nil : BY []. Proof. constructor. Qed.
Lemma split_at_spec2 n l : split_at n l = (firstn n l, skipn n l).
Proof. revert l. induction n as [|n IH]; intros l; [reflexivity|]. destruct l as [|x r]; [reflexivity|]. cbn [split_at firstn skipn]. rewrite IH. reflexivity. Qed.

Ltac bsimp :=
  cbn [b_in upd_in upd_state upd_stack upd_cur upd_alloc b_clear done_value fst snd] in *.

Lemma BB_read b : BB b -> BB (fst (b_read b)).
Proof.
  unfold BB, b_read. intros H. destruct (b_in b) eqn:E; [destruct (b_ioerr b); bsimp; constructor|].
  bsimp. inversion H; assumption.
Qed.
Lemma BB_read1 b : BB b -> BB (fst (b_read1 b)).
Proof. intros H. pose proof (BB_read b H) as H1. unfold b_read1. destruct (b_read b) as [b' [[c|]| | |]]; exact H1. Qed.
Lemma BB_readN b n : BB b -> BB (fst (b_readN b n)) /\ match snd (b_readN b n) with Ok bs => BY bs /\ (length bs <= N.to_nat n)%nat | _ => True end.
Proof.
  unfold BB, b_readN. intros H. destruct (n =? 0); [split; [exact H|split; [constructor|cbn; lia]]|].
  destruct (n <=? b_avail b).
  - bsimp. rewrite split_at_spec2. bsimp. split; [apply BY_skipn; exact H|]. split; [apply BY_firstn; exact H|apply firstn_le_length].
  - bsimp. split; [constructor|exact I].
Qed.
Lemma BB_readN1 b n : BB b -> BB (fst (b_readN b n)).
Proof. intros H. apply BB_readN; exact H. Qed.
Lemma BB_skip b n : BB b -> BB (fst (b_skip b n)).
Proof.
  unfold BB, b_skip. intros H. destruct (two63 <=? n); [exact H|]. destruct (n <=? b_avail b); bsimp; [apply BY_skipn; exact H|constructor].
Qed.
#[export] Hint Resolve BB_read BB_read1 BB_readN1 BB_skip BY_nil : bb.

(* the generic step: split the next scrutinee, recording that the stream it returns is still bytes *)
Ltac bfin := cbn [fst]; unfold BB in *; bsimp; auto with bb.
Ltac bsolve :=
  repeat match goal with
  | |- BB (fst (if ?c then _ else _)) => destruct c
  | |- BB (fst (match ?e with _ => _ end)) =>
      lazymatch type of e with
      | bres _ => let H := fresh "HB" in assert (H : BB (fst e)) by bsolve;
                  let b' := fresh "b" in destruct e as [b' [?| | |]]; cbn [fst] in H
      | (bstate * _)%type => let H := fresh "HB" in assert (H : BB (fst e)) by bsolve;
                  let b' := fresh "b" in destruct e as [b' [?| | |]]; cbn [fst] in H
      | _ => destruct e
      end
  end; try solve [bfin | auto with bb].

Lemma BB_varuint_loop fuel : forall b mx v l, BB b -> BB (fst (b_varuint_loop fuel b mx v l)).
Proof. induction fuel as [|f IH]; intros b mx v l H; cbn [b_varuint_loop]; [exact H|]. bsolve. Qed.
Lemma BB_read_varuint b mx : BB b -> BB (fst (b_read_varuint b mx)).
Proof. intros H. apply BB_varuint_loop; exact H. Qed.
Lemma BB_skip_varuint_loop fuel : forall b mx l, BB b -> BB (fst (b_skip_varuint_loop fuel b mx l)).
Proof. induction fuel as [|f IH]; intros b mx l H; cbn [b_skip_varuint_loop]; [exact H|]. bsolve. Qed.
Lemma BB_varint_loop fuel : forall b mx v l ng, BB b -> BB (fst (b_varint_loop fuel b mx v l ng)).
Proof. induction fuel as [|f IH]; intros b mx v l ng H; cbn [b_varint_loop]; [exact H|]. bsolve. Qed.
#[export] Hint Resolve BB_varuint_loop BB_read_varuint BB_skip_varuint_loop BB_varint_loop : bb.
Lemma BB_read_varint b mx : BB b -> BB (fst (b_read_varint b mx)).
Proof. intros H. unfold b_read_varint. bsolve. Qed.
#[export] Hint Resolve BB_read_varint : bb.
Lemma BB_skip_value b : BB b -> BB (fst (b_skip_value b)).
Proof. intros H. unfold b_skip_value. bsolve. Qed.
#[export] Hint Resolve BB_skip_value : bb.
Lemma BB_next b : BB b -> BB (fst (b_next b)).
Proof. intros H. unfold b_next. bsolve. Qed.
Lemma BB_step_in b : BB b -> BB (fst (b_step_in b)).
Proof. intros H. unfold b_step_in. bsolve. Qed.
Lemma BB_step_out b : BB b -> BB (fst (b_step_out b)).
Proof. intros H. unfold b_step_out. bsolve. Qed.
Lemma BB_read_bvm b : BB b -> BB (fst (b_read_bvm b)).
Proof. intros H. unfold b_read_bvm. bsolve. Qed.
Lemma BB_read_field_id b : BB b -> BB (fst (b_read_field_id b)).
Proof. intros H. unfold b_read_field_id. bsolve. Qed.
Lemma BB_annot_loop fuel : forall b ok l acc, BB b -> BB (fst (annot_loop fuel b ok l acc)).
Proof. induction fuel as [|f IH]; intros b ok l acc H; cbn [annot_loop]; [exact H|]. bsolve. Qed.
#[export] Hint Resolve BB_next BB_step_in BB_step_out BB_read_bvm BB_read_field_id BB_annot_loop : bb.
Lemma BB_read_annotations b ok : BB b -> BB (fst (b_read_annotations b ok)).
Proof. intros H. unfold b_read_annotations. bsolve. Qed.
Lemma BB_read_int b : BB b -> BB (fst (b_read_int b)).
Proof. intros H. unfold b_read_int. bsolve. Qed.
Lemma BB_read_float b : BB b -> BB (fst (b_read_float b)).
Proof. intros H. unfold b_read_float. bsolve. Qed.
Lemma BB_read_decimal_len b n : BB b -> BB (fst (b_read_decimal_len b n)).
Proof. intros H. unfold b_read_decimal_len. bsolve. Qed.
#[export] Hint Resolve BB_read_annotations BB_read_int BB_read_float BB_read_decimal_len : bb.
Lemma BB_read_decimal b : BB b -> BB (fst (b_read_decimal b)).
Proof. intros H. unfold b_read_decimal. bsolve. Qed.
Lemma BB_read_symbol_id b : BB b -> BB (fst (b_read_symbol_id b)).
Proof. intros H. unfold b_read_symbol_id. bsolve. Qed.
Lemma BB_read_string b : BB b -> BB (fst (b_read_string b)).
Proof. intros H. unfold b_read_string. bsolve. Qed.
Lemma BB_read_bytes b : BB b -> BB (fst (b_read_bytes b)).
Proof. intros H. unfold b_read_bytes. bsolve. Qed.
Lemma BB_read_timestamp b ts : BB b -> BB (fst (b_read_timestamp b ts)).
Proof. intros H. unfold b_read_timestamp. bsolve. Qed.
#[export] Hint Resolve BB_read_decimal BB_read_symbol_id BB_read_string BB_read_bytes BB_read_timestamp : bb.

(* ---- part 1b: ReadInt returns an int64 only for a number that fits one --------------------------- *)
Definition fits64 (z : Z) : bool := fits (-9223372036854775808) 9223372036854775807 z.
Definition fits32 (z : Z) : bool := fits (-2147483648) 2147483647 z.
Definition iv_ok (i : intval) : Prop := match i with I64 z => fits64 z = true | IBig _ => True end.
Definition rv_ok (v : rvalue) : Prop := match v with RInt i => iv_ok i | _ => True end.
(* the invariant: unread input is bytes, and a stored int64 is an int64 *)
Definition AI (r : rstate) : Prop := BB (r_bits r) /\ rv_ok (r_value r).

Lemma from_be_lt bs : BY bs -> from_be bs < 256 ^ N.of_nat (length bs).
Proof. intros H. rewrite from_be_fd. apply fd_bound; [lia|exact H]. Qed.

Lemma from_be64_int64 bs len : BY bs -> (length bs <= N.to_nat len)%nat ->
  (len <? 8) || ((len =? 8) && (hd 0 bs <? 128)) = true -> from_be64 bs < 9223372036854775808.
Proof.
  intros Hb Hl Hc. assert (L8 : (length bs <= 8)%nat) by lia.
  rewrite from_be64_small by assumption.
  destruct (Nat.eq_dec (length bs) 8) as [E8|N8].
  - assert (Hh : hd 0 bs < 128) by lia.
    destruct bs as [|d0 bs']; [discriminate|]. cbn [hd] in Hh. cbn [length] in E8.
    inversion Hb as [|? ? _ Hb']; subst.
    rewrite from_be_fd, fd_cons, fd_split. pose proof (from_be_lt bs' Hb') as Hlt. rewrite from_be_fd in Hlt.
    replace (N.of_nat (length bs')) with 7 in * by lia.
    change (256 ^ 7) with 72057594037927936 in *. lia.
  - pose proof (from_be_lt bs Hb) as Hlt.
    assert (Hp : 256 ^ N.of_nat (length bs) <= 256 ^ 7) by (apply N.pow_le_mono_r; lia).
    change (256 ^ 7) with 72057594037927936 in Hp. lia.
Qed.

Lemma read_int_iv_ok b : BB b -> match snd (b_read_int b) with Ok v => iv_ok v | _ => True end.
Proof.
  intros H. unfold b_read_int. destruct (negb _); [exact I|].
  pose proof (BB_readN b (b_len b) H) as [_ Hr].
  destruct (b_readN b (b_len b)) as [b' [bs| | |]]; cbn [snd] in *; try exact I. destruct Hr as [Hb Hl].
  destruct (b_len b =? 0) eqn:E0.
  - destruct (true && _); cbn [snd]; [exact I|reflexivity].
  - destruct ((b_len b <? 8) || ((b_len b =? 8) && (hd 0 bs <? 128))) eqn:Ec.
    + pose proof (from_be64_int64 bs (b_len b) Hb Hl Ec) as Hlt.
      destruct ((from_be64 bs =? 0) && _); cbn [snd]; [exact I|].
      unfold iv_ok, fits64, fits. destruct (b_code b =? bcNegInt); lia.
    + destruct ((from_be bs =? 0) && _); cbn [snd]; exact I.
Qed.

(* ---- part 1c: every API call keeps [AI] ---------------------------------------------------------------- *)
Ltac rsimp :=
  cbn [r_bits r_ctx r_eof r_err r_lst r_field r_annots r_type r_value
       rs_bits rs_ctx rs_eof rs_err rs_lst rs_field rs_annots rs_val r_clear fst snd] in *.
Lemma AI_BB r : AI r -> BB (r_bits r). Proof. intros [H _]; exact H. Qed.
#[export] Hint Resolve AI_BB : bb.
Lemma AI_mk r b v : BB b -> rv_ok v -> r_bits r = b -> r_value r = v -> AI r.
Proof. intros H1 H2 <- <-. split; assumption. Qed.

Ltac aleaf := unfold AI in *; rsimp;
  repeat (match goal with |- context [if ?c then _ else _] => destruct c end);
  intuition (auto with bb; exact I).
Ltac aextra := fail.
Ltac afin := cbn [fst]; first [assumption | solve [aleaf]].
Ltac asolve :=
  repeat match goal with
  | |- AI (fst (if ?c then _ else _)) => destruct c
  | |- AI (fst (match snd ?e with _ => _ end)) =>
      let H := fresh "HB" in assert (H : BB (fst e)) by (rsimp; auto with bb);
      let H2 := fresh "HV" in
      try (lazymatch e with b_read_int ?b0 =>
             assert (H2 : match snd e with Ok v => iv_ok v | _ => True end) by (apply read_int_iv_ok; rsimp; auto with bb) end);
      let b' := fresh "b" in destruct e as [b' [?| | |]]; cbn [fst snd] in *
  | |- AI (fst (match ?e with _ => _ end)) =>
      lazymatch type of e with
      | rres _ => let H := fresh "HA" in assert (H : AI (fst e)) by asolve;
                  let r' := fresh "r" in destruct e as [r' [?| | |]]; cbn [fst] in H
      | (rstate * _)%type => let H := fresh "HA" in assert (H : AI (fst e)) by asolve;
                  let r' := fresh "r" in destruct e as [r' [?| | |]]; cbn [fst] in H
      | bres _ => let H := fresh "HB" in assert (H : BB (fst e)) by (rsimp; auto with bb);
                  let b' := fresh "b" in destruct e as [b' [?| | |]]; cbn [fst] in H
      | _ => destruct e
      end
  end; try solve [afin | auto with bb | aextra].

Lemma AI_step_in r : AI r -> AI (fst (r_step_in r)).
Proof. intros H. unfold r_step_in. asolve. Qed.
Lemma AI_step_out r : AI r -> AI (fst (r_step_out r)).
Proof. intros H. unfold r_step_out. asolve. Qed.
#[export] Hint Resolve AI_step_in AI_step_out : bb.

Section Inv.
Variable ts : list N -> res unit.
Section Lst.
Variable api_next : rstate -> rstate * res bool.
Hypothesis Hapi : forall r, AI r -> AI (fst (api_next r)).
Hint Resolve Hapi : bb.

Lemma AI_read_symbols_loop fuel : forall r acc, AI r -> AI (fst (read_symbols_loop api_next fuel r acc)).
Proof. induction fuel as [|f IH]; intros r acc H; cbn [read_symbols_loop]; [exact H|]. asolve. Qed.
Hint Resolve AI_read_symbols_loop : bb.
Lemma AI_read_symbols fuel r : AI r -> AI (fst (read_symbols api_next fuel r)).
Proof. intros H. unfold read_symbols. asolve. Qed.
Lemma AI_read_import_loop fuel : forall r d, AI r -> AI (fst (read_import_loop api_next fuel r d)).
Proof. induction fuel as [|f IH]; intros r d H; cbn [read_import_loop]; [exact H|]. asolve. Qed.
Hint Resolve AI_read_symbols AI_read_import_loop : bb.
Lemma AI_read_import fuel r : AI r -> AI (fst (read_import api_next fuel r)).
Proof. intros H. unfold read_import. asolve. Qed.
Hint Resolve AI_read_import : bb.
Lemma AI_read_imports_loop fuel : forall r acc, AI r -> AI (fst (read_imports_loop api_next fuel r acc)).
Proof. induction fuel as [|f IH]; intros r acc H; cbn [read_imports_loop]; [exact H|]. asolve. Qed.
Hint Resolve AI_read_imports_loop : bb.
Lemma AI_read_imports fuel r : AI r -> AI (fst (read_imports api_next fuel r)).
Proof.
  intros H. unfold read_imports. cbv zeta.
  match goal with |- AI (fst (match ?c with _ => _ end)) => assert (Hc : forall x, c = Some x -> AI (fst x)) end.
  { intros x. destruct (r_type r =? TSymbol); [|discriminate].
    destruct (r_err r); [intros E; injection E as <-; exact H|].
    destruct (r_value r); try discriminate; try (intros E; injection E as <-; exact H).
    destruct ((tk_sid t =? 3)%Z || _); [|discriminate].
    destruct (r_lst r) as [[|t0]|]; intros E; injection E as <-; exact H. }
  match goal with |- AI (fst (match ?c with _ => _ end)) => destruct c as [x|] end; [apply Hc; reflexivity|].
  asolve.
Qed.
Hint Resolve AI_read_imports : bb.
Lemma AI_read_lst_loop fuel : forall r imps syms fi fs, AI r -> AI (fst (read_lst_loop api_next fuel r imps syms fi fs)).
Proof. induction fuel as [|f IH]; intros r imps syms fi fs H; cbn [read_lst_loop]; [exact H|]. asolve. Qed.
Hint Resolve AI_read_lst_loop : bb.
Lemma AI_read_local_symbol_table fuel r : AI r -> AI (fst (read_local_symbol_table api_next fuel r)).
Proof. intros H. unfold read_local_symbol_table. asolve. Qed.
Hint Resolve AI_read_local_symbol_table : bb.

Ltac aextra ::= (apply AI_read_local_symbol_table; afin).
Lemma AI_next_raw fuel r : AI r -> AI (fst (r_next_raw ts api_next fuel r)).
Proof. intros H. unfold r_next_raw, lift. asolve. Qed.
Hint Resolve AI_next_raw : bb.
Lemma AI_next_loop k : forall fuel r, AI r -> AI (fst (r_next_loop ts api_next k fuel r)).
Proof. induction k as [|k IH]; intros fuel r H; cbn [r_next_loop]; [exact H|]. asolve. Qed.
Lemma AI_next_with fuel r : AI r -> AI (fst (r_next_with ts api_next fuel r)).
Proof. intros H. unfold r_next_with. destruct (r_eof r || r_err r); [exact H|]. apply AI_next_loop. aleaf. Qed.
End Lst.

Lemma AI_next_inner r : AI r -> AI (fst (r_next_inner ts r)).
Proof. intros H. unfold r_next_inner. apply AI_next_with; [intros r0 H0; exact H0|exact H]. Qed.
Lemma AI_next r : AI r -> AI (fst (r_next ts r)).
Proof. intros H. unfold r_next. apply AI_next_with; [apply AI_next_inner|exact H]. Qed.
Lemma AI_init inp ioerr : BY inp -> AI (r_init inp ioerr).
Proof. intros H. split; [exact H|exact I]. Qed.
Lemma AI_op r o : AI r -> AI (fst (r_op ts r o)).
Proof.
  intros H. destruct o; cbn [r_op].
  1: { pose proof (AI_next r H) as H1. destruct (r_next ts r) as [r1 [b| | |]]; exact H1. }
  1: { pose proof (AI_step_in r H) as H1. destruct (r_step_in r) as [r1 [b| | |]]; exact H1. }
  1: { pose proof (AI_step_out r H) as H1. destruct (r_step_out r) as [r1 [b| | |]]; exact H1. }
  all: repeat match goal with
           | |- AI (fst (if ?b then _ else _)) => destruct b
           | |- AI (fst (match ?v with _ => _ end)) => destruct v
           end; exact H.
Qed.
Lemma AI_run p : forall r acc, AI r -> AI (fst (r_run ts r p acc)).
Proof.
  induction p as [|o p IH]; intros r acc H; cbn [r_run]; [exact H|].
  pose proof (AI_op r o H) as H1. destruct (r_op ts r o) as [r1 [t|]]; cbn [fst] in *; auto.
Qed.
(* every state a navigation program reaches on an input made of bytes *)
Theorem reachable_int_ok inp ioerr p : BY inp -> AI (fst (r_run ts (r_init inp ioerr) p [])).
Proof. intros H. apply AI_run, AI_init, H. Qed.
End Inv.

(* ---- part 2: the accessors ------------------------------------------------------------------------------- *)
Section Acc.
Variable ts : list N -> res unit.

(* the IntSize codes: 0 NullInt, 1 Int32, 2 Int64, 3 BigInt *)
Definition size_code (i : intval) : N :=
  match i with I64 z => if fits32 z then 1 else 2 | IBig _ => 3 end.
(* the smallest width that holds z *)
Definition min_size (z : Z) : N := if fits32 z then 1 else if fits64 z then 2 else 3.

Lemma fits32_64 z : fits32 z = true -> fits64 z = true.
Proof. unfold fits32, fits64, fits. lia. Qed.

Lemma int_size_answer r i : r_type r = TInt -> r_value r = RInt i ->
  r_op ts r OIntSize = (r, Some (122 :: dec_of_N (size_code i))).
Proof. intros Ht Hv. cbn [r_op]. rewrite Ht, Hv. cbn [N.eqb Pos.eqb negb]. destruct i; reflexivity. Qed.

(* IntSize never names a width too small; it may name BigInt for a number that was stored as a big.Int *)
Lemma size_code_sound i : iv_ok i -> min_size (show_int i) <= size_code i.
Proof.
  destruct i as [z|z]; cbn [iv_ok size_code show_int]; unfold min_size.
  - intros H. rewrite H. destruct (fits32 z); lia.
  - intros _. destruct (fits32 z); [lia|]. destruct (fits64 z); lia.
Qed.
Lemma size_code_exact_i64 z : fits64 z = true -> size_code (I64 z) = min_size z.
Proof. intros H. cbn [size_code]. unfold min_size. rewrite H. reflexivity. Qed.

Lemma int_size_sound r i : r_type r = TInt -> r_value r = RInt i -> iv_ok i ->
  exists sz, r_op ts r OIntSize = (r, Some (122 :: dec_of_N sz)) /\
    (sz = 1 \/ sz = 2 \/ sz = 3) /\
    (sz = 1 -> fits32 (show_int i) = true) /\ (sz = 2 -> fits64 (show_int i) = true /\ fits32 (show_int i) = false) /\
    (sz = 3 -> exists z, i = IBig z).
Proof.
  intros Ht Hv Hi. exists (size_code i). split; [apply int_size_answer; assumption|].
  destruct i as [z|z]; cbn [iv_ok size_code show_int] in *.
  - destruct (fits32 z) eqn:E; repeat split; try lia; try congruence; intros; try discriminate; auto.
  - repeat split; try lia; intros; try discriminate. eauto.
Qed.

Lemma int_value_answer r i : r_type r = TInt -> r_value r = RInt i ->
  r_op ts r OInt = (r, Some (if fits32 (show_int i) then 73 :: dec_of_Z (show_int i) else t_err)).
Proof.
  intros Ht Hv. cbn [r_op]. rewrite Ht, Hv. cbn [N.eqb Pos.eqb negb].
  fold (fits64 (show_int i)). fold (fits32 (show_int i)).
  destruct (fits32 (show_int i)) eqn:E; [rewrite (fits32_64 _ E); reflexivity|]. destruct (fits64 (show_int i)); reflexivity.
Qed.
Lemma int64_value_answer r i : r_type r = TInt -> r_value r = RInt i ->
  r_op ts r OInt64 = (r, Some (if fits64 (show_int i) then 73 :: dec_of_Z (show_int i) else t_err)).
Proof. intros Ht Hv. cbn [r_op]. rewrite Ht, Hv. cbn [N.eqb Pos.eqb negb]. fold (fits64 (show_int i)). destruct (fits64 (show_int i)); reflexivity. Qed.
Lemma bigint_value_answer r i : r_type r = TInt -> r_value r = RInt i ->
  r_op ts r OBigInt = (r, Some (73 :: dec_of_Z (show_int i))).
Proof. intros Ht Hv. cbn [r_op]. rewrite Ht, Hv. reflexivity. Qed.

(* the value accessors and the types each of them serves *)
Definition acc_types (o : rop) : option (list N) :=
  match o with
  | OBool => Some [TBool] | OIntSize | OInt | OInt64 | OBigInt => Some [TInt] | OFloat => Some [TFloat]
  | ODecimal => Some [TDecimal] | OTimestamp => Some [TTimestamp] | OString => Some [TString]
  | OSymbol => Some [TSymbol] | OBytes => Some [TBlob; TClob]
  | _ => None
  end.
(* what an accessor returns for "nil, no error": IntSize answers NullInt *)
Definition nil_tok (o : rop) : list N := match o with OIntSize => 122 :: dec_of_N 0 | _ => t_nil end.

Lemma eqb_of_in (t a : N) : t = a -> (t =? a) = true. Proof. intros ->; apply N.eqb_refl. Qed.

(* typed nulls: the accessor of the value's own type answers nil and no error *)
Lemma typed_null_answer r o tys : acc_types o = Some tys -> In (r_type r) tys -> r_value r = RNil -> r_err r = false ->
  r_op ts r o = (r, Some (nil_tok o)).
Proof.
  intros Ho Hin Hv He.
  destruct o; cbn [acc_types] in Ho; try discriminate; injection Ho as <-; cbn [In] in Hin;
    repeat (destruct Hin as [Hin|Hin]); try contradiction; cbn [r_op nil_tok]; rewrite <- Hin, Hv, ?He; reflexivity.
Qed.
(* IntSize, IntValue, ..., ByteValue do not even look at the error flag *)
Lemma typed_null_answer_noerr r o tys : acc_types o = Some tys -> o <> OString -> o <> OSymbol ->
  In (r_type r) tys -> r_value r = RNil -> r_op ts r o = (r, Some (nil_tok o)).
Proof.
  intros Ho N1 N2 Hin Hv.
  destruct o; cbn [acc_types] in Ho; try discriminate; try congruence; injection Ho as <-; cbn [In] in Hin;
    repeat (destruct Hin as [Hin|Hin]); try contradiction; cbn [r_op nil_tok]; rewrite <- Hin, Hv; reflexivity.
Qed.
Lemma typed_null_is_null r : r_type r <> 0 -> r_value r = RNil -> r_op ts r OIsNull = (r, Some [110; 49]).
Proof. intros Ht Hv. cbn [r_op]. unfold r_is_null. rewrite Hv. replace (r_type r =? 0) with false by lia. reflexivity. Qed.

(* wrong type: a usage error, and the reader is where it was *)
Lemma wrong_type_answer r o tys : acc_types o = Some tys -> ~ In (r_type r) tys ->
  r_op ts r o = (r, Some t_err).
Proof.
  intros Ho Hin.
  destruct o; cbn [acc_types] in Ho; try discriminate; injection Ho as <-; cbn [In] in Hin; cbn [r_op].
  all: try (replace (r_type r =? _) with false by lia; cbn [negb]; try destruct (r_err r); reflexivity).
  replace (r_type r =? TBlob) with false by lia. replace (r_type r =? TClob) with false by lia. reflexivity.
Qed.
(* no accessor moves the reader, whatever it answers *)
Lemma accessor_state r o : o <> ONext -> o <> OStepIn -> o <> OStepOut -> fst (r_op ts r o) = r.
Proof.
  intros N1 N2 N3. destruct o; try congruence; cbn [r_op];
  repeat match goal with
         | |- fst (if ?b then _ else _) = _ => destruct b
         | |- fst (match ?v with _ => _ end) = _ => destruct v
         end; reflexivity.
Qed.
End Acc.

(* the integer clause for every state a program reaches on an input made of bytes *)
Theorem reachable_int_accessors ts inp ioerr p r i : BY inp -> r = fst (r_run ts (r_init inp ioerr) p []) ->
  r_type r = TInt -> r_value r = RInt i ->
  (exists sz, r_op ts r OIntSize = (r, Some (122 :: dec_of_N sz)) /\ min_size (show_int i) <= sz <= 3) /\
  r_op ts r OInt = (r, Some (if fits32 (show_int i) then 73 :: dec_of_Z (show_int i) else t_err)) /\
  r_op ts r OInt64 = (r, Some (if fits64 (show_int i) then 73 :: dec_of_Z (show_int i) else t_err)) /\
  r_op ts r OBigInt = (r, Some (73 :: dec_of_Z (show_int i))).
Proof.
  intros Hb -> Ht Hv. pose proof (reachable_int_ok ts inp ioerr p Hb) as [_ Hok]. rewrite Hv in Hok. cbn [rv_ok] in Hok.
  split; [|split; [|split]].
  - exists (size_code i). split; [apply int_size_answer; assumption|]. split; [apply size_code_sound, Hok|].
    destruct i as [z|z]; cbn [size_code]; [destruct (fits32 z)|]; lia.
  - apply int_value_answer; assumption.
  - apply int64_value_answer; assumption.
  - apply bigint_value_answer; assumption.
Qed.
