(* BinWriterShP.v — theorems about the binary Writer with shared / fixed tables (Bin/BinWriterSh.v):
   the symbol IDs it emits are those of the symbol-table builder (C09), the table the machine holds is
   always a state of the builder's Add history over the given shared tables, locals are the texts not
   found in the imports in first-use order, and the table it writes declares exactly its imports. *)
From Coq Require Import String List NArith ZArith Bool Lia ZifyBool ZifyN ZifyNat.
From IonV Require Import Base.Wire Sym.SymTab Sym.SymTabP.
From IonV Require Import Bin.Bits Data.Ion Num.Float Bin.BinWriter Bin.BinWriterSh.
Import ListNotations.
Open Scope N_scope.
Ltac Zify.zify_post_hook ::= Z.div_mod_to_equations.

(* ---- (b) text found in an import is written with its import SID, the lowest carrying it ------------------ *)
Definition import_id (b : lst) (t : SymTab.text) : option N :=
  find_in_imports (l_imports b) (l_offsets b) t.

Theorem shared_import_id x t id : sw_fixed x = false -> import_id (sw_tab x) t = Some id ->
  resolve_from_table_sh x t = (x, id, true).
Proof.
  intros F H. unfold resolve_from_table_sh. rewrite F.
  assert (E : lst_find_by_name (sw_tab x) t = Some id) by (unfold lst_find_by_name; unfold import_id in H; rewrite H; reflexivity).
  rewrite (builder_add_existing _ _ _ E). destruct x; reflexivity.
Qed.

Theorem import_id_lowest b t id : lst_wf b -> t <> [] -> import_id b t = Some id ->
  1 <= id <= sum_max (l_imports b) /\ SymTab.lst_find_by_id b id = Some t /\
  forall id', id' < id -> SymTab.lst_find_by_id b id' <> Some t.
Proof.
  intros W NE H.
  assert (E : lst_find_by_name b t = Some id) by (unfold lst_find_by_name; unfold import_id in H; rewrite H; reflexivity).
  destruct (find_lowest b t id W NE E) as (A & B & C). split; [|split; assumption].
  split; [lia|]. destruct (lst_wf_offsets b W) as [O _]. pose proof W as (_ & _ & F & Bd).
  unfold import_id in H. rewrite O in H.
  destruct (fii_some _ 0 t id F ltac:(lia) H) as (k & imp & j & Hn & Hj & Hid & _).
  destruct (lst_wf_imp b k imp W Hn) as [Wi Mi].
  destruct (sh_find_by_name_some imp t j Wi Mi Hj) as (_ & Rj & _).
  pose proof (offset_of_bound _ _ _ Hn). lia.
Qed.

(* an import SID of a text never changes along the writer's history *)
Theorem import_id_stable b xs t : import_id (adds_state b xs) t = import_id b t.
Proof.
  unfold import_id. destruct (extends_adds xs b) as (E1 & E2 & _). rewrite E1, E2. reflexivity.
Qed.

(* ---- (c) locals = the texts not found in the imports, in first-use order, without duplicates ------------- *)
Definition in_imports (b : lst) (t : SymTab.text) : bool :=
  match import_id b t with Some _ => true | None => false end.
Fixpoint first_use (imp : SymTab.text -> bool) (seen : list SymTab.text) (xs : list SymTab.text) : list SymTab.text :=
  match xs with
  | [] => []
  | x :: r => if imp x || existsb (text_eqb x) seen then first_use imp seen r
              else x :: first_use imp (seen ++ [x]) r
  end.

Lemma existsb_text x l : existsb (text_eqb x) l = true <-> In x l.
Proof.
  split.
  - intros H. apply existsb_exists in H. destruct H as (y & Hy & E). apply text_eqb_eq in E. subst. exact Hy.
  - intros H. apply existsb_exists. exists x. split; [exact H | apply text_eqb_refl].
Qed.

Lemma find_by_name_builder b x : l_idx_empty b = true ->
  lst_find_by_name b x = None <-> (in_imports b x = false /\ ~ In x (l_syms b)).
Proof.
  intros E. unfold lst_find_by_name, in_imports, import_id, local_lookup. rewrite E.
  rewrite andb_false_r.
  destruct (find_in_imports (l_imports b) (l_offsets b) x).
  - split; [discriminate | intros [? _]; discriminate].
  - destruct (SymTab.index_of x (l_syms b)) eqn:EI; cbn [option_map].
    + split; [discriminate|]. intros [_ H]. exfalso. apply H.
      destruct (index_of_some _ _ _ EI) as [A _]. eapply nth_N_In; exact A.
    + split; [|reflexivity]. intros _. split; [reflexivity|]. apply index_of_none_iff. exact EI.
Qed.

Theorem builder_locals xs : forall b, l_idx_empty b = true ->
  l_syms (adds_state b xs) = l_syms b ++ first_use (in_imports b) (l_syms b) xs.
Proof.
  induction xs as [|x xs IH]; intros b E; [cbn; rewrite app_nil_r; reflexivity|].
  rewrite adds_state_cons. cbn [first_use]. unfold add_state, builder_add.
  destruct (lst_find_by_name b x) as [id|] eqn:EF; cbn [fst].
  - rewrite (IH b E).
    assert (H : in_imports b x || existsb (text_eqb x) (l_syms b) = true).
    { destruct (in_imports b x) eqn:EI; [reflexivity|]. cbn [orb].
      destruct (existsb (text_eqb x) (l_syms b)) eqn:EX; [reflexivity|]. exfalso.
      assert (N : lst_find_by_name b x = None).
      { apply (find_by_name_builder b x E). split; [exact EI|]. intros HI.
        apply existsb_text in HI. congruence. }
      congruence. }
    rewrite H. reflexivity.
  - apply (find_by_name_builder b x E) in EF. destruct EF as [EI NI].
    assert (H : in_imports b x || existsb (text_eqb x) (l_syms b) = false).
    { rewrite EI. cbn [orb]. destruct (existsb (text_eqb x) (l_syms b)) eqn:EX; [|reflexivity].
      apply existsb_text in EX. contradiction. }
    rewrite H.
    set (b' := mkLst (l_imports b) (l_offsets b) (l_maximp b) (l_syms b ++ [x]) (l_idx_empty b)).
    rewrite (IH b' E). cbn [b' l_syms]. rewrite <- app_assoc. reflexivity.
Qed.

Lemma first_use_props imp xs : forall seen, NoDup seen ->
  NoDup (seen ++ first_use imp seen xs) /\
  (forall t, In t (first_use imp seen xs) -> imp t = false /\ In t xs /\ ~ In t seen).
Proof.
  induction xs as [|x xs IH]; intros seen ND; cbn [first_use].
  - rewrite app_nil_r. split; [exact ND | intros t []].
  - destruct (imp x) eqn:EI; cbn [orb].
    + destruct (IH seen ND) as [A B]. split; [exact A|]. intros t Ht. destruct (B t Ht) as (B1 & B2 & B3).
      repeat split; try assumption. right. exact B2.
    + destruct (existsb (text_eqb x) seen) eqn:EX.
      * destruct (IH seen ND) as [A B]. split; [exact A|]. intros t Ht. destruct (B t Ht) as (B1 & B2 & B3).
        repeat split; try assumption. right. exact B2.
      * assert (NI : ~ In x seen) by (intros HI; apply existsb_text in HI; congruence).
        assert (ND' : NoDup (seen ++ [x])).
        { rewrite <- (rev_involutive (seen ++ [x])). apply NoDup_rev. rewrite rev_app_distr. cbn [rev app].
          constructor; [rewrite <- in_rev; exact NI | apply NoDup_rev; exact ND]. }
        destruct (IH (seen ++ [x]) ND') as [A B]. split.
        -- rewrite <- app_assoc in A. exact A.
        -- intros t [<-|Ht]; [repeat split; [exact EI | left; reflexivity | exact NI]|].
           destruct (B t Ht) as (B1 & B2 & B3). repeat split; [exact B1 | right; exact B2|].
           intros HI. apply B3. apply in_or_app. left. exact HI.
Qed.

Theorem shared_locals sts xs : sum_max (effective_imports sts) < two64 ->
  let b0 := builder_new sts in
  l_syms (adds_state b0 xs) = first_use (in_imports b0) [] xs /\
  NoDup (l_syms (adds_state b0 xs)) /\
  forall t, In t (l_syms (adds_state b0 xs)) -> in_imports b0 t = false /\ In t xs.
Proof.
  intros B b0. destruct (builder_new_fields sts B) as (_ & S0 & E0).
  pose proof (builder_locals xs b0 E0) as H. fold b0 in S0. rewrite S0 in H. cbn [app] in H.
  destruct (first_use_props (in_imports b0) xs [] (NoDup_nil _)) as [A Bp]. cbn [app] in A.
  rewrite H. split; [reflexivity|]. split; [exact A|]. intros t Ht. destruct (Bp t Ht) as (B1 & B2 & _).
  split; assumption.
Qed.

(* ---- the machine only ever moves its table along the builder's Add history ------------------------------- *)
Definition reach (b b' : lst) : Prop := exists xs, b' = adds_state b xs.
Lemma reach_refl b : reach b b.
Proof. exists []. reflexivity. Qed.
Lemma reach_trans a b c : reach a b -> reach b c -> reach a c.
Proof.
  intros [xs ->] [ys ->]. exists (xs ++ ys). unfold adds_state at 3. rewrite builder_adds_app. reflexivity.
Qed.
Lemma reach_add b t : reach b (add_state b t).
Proof. exists [t]. rewrite adds_state_cons. reflexivity. Qed.

Definition pres (x x' : shw) : Prop := sw_fixed x' = sw_fixed x /\ reach (sw_tab x) (sw_tab x').
Lemma pres_refl x : pres x x.
Proof. split; [reflexivity | apply reach_refl]. Qed.
Lemma pres_trans a b c : pres a b -> pres b c -> pres a c.
Proof. intros [A1 A2] [B1 B2]. split; [congruence | eapply reach_trans; eassumption]. Qed.
Lemma pres_upd x w : pres x (upd x w).
Proof. split; [reflexivity | cbn [upd sw_tab]; apply reach_refl]. Qed.
Lemma pres_upd_r x x' w : pres x x' -> pres x (upd x' w).
Proof. intros H. exact H. Qed.
Definition pres_res (x : shw) (r : res sret) : Prop :=
  match r with Ok (x', _) => pres x x' | _ => True end.

Lemma resolve_from_table_pres x t x' id ok : resolve_from_table_sh x t = (x', id, ok) -> pres x x'.
Proof.
  unfold resolve_from_table_sh. destruct (sw_fixed x) eqn:F.
  - destruct (lst_find_by_name (sw_tab x) t); intros H; inversion H; subst; apply pres_refl.
  - destruct (builder_add (sw_tab x) t) as [[b id0] ad] eqn:E. intros H. inversion H; subst.
    split; [reflexivity|]. cbn [upd_tab sw_tab]. replace b with (add_state (sw_tab x) t) by (unfold add_state; rewrite E; reflexivity).
    apply reach_add.
Qed.
Lemma resolve_pres x t x' id ok : resolve_sh x t = (x', id, ok) -> pres x x'.
Proof.
  unfold resolve_sh. destruct (BinWriter.symbol_identifier t).
  - intros H. inversion H; subst. apply pres_refl.
  - apply resolve_from_table_pres.
Qed.
Lemma id_of_tok_pres x t x' id : id_of_tok_sh x t = Some (x', id) -> pres x x'.
Proof.
  unfold id_of_tok_sh. destruct (tk_text t) as [tx|].
  - destruct (resolve_from_table_sh x tx) as [[x1 id1] ok] eqn:E. destruct ok; [|discriminate].
    intros H. inversion H; subst. eapply resolve_from_table_pres; exact E.
  - destruct (negb (tk_sid t =? -1)%Z); [|discriminate]. intros H. inversion H; subst. apply pres_refl.
Qed.
Lemma annot_ids_pres ts : forall x x' r, annot_ids_sh x ts = (x', r) -> pres x x'.
Proof.
  induction ts as [|t ts IH]; intros x x' r; cbn [annot_ids_sh].
  - intros H. inversion H; subst. apply pres_refl.
  - destruct (id_of_tok_sh x t) as [[x1 id]|] eqn:E.
    + destruct (annot_ids_sh x1 ts) as [x2 [ids|]] eqn:E2; intros H; inversion H; subst;
        (eapply pres_trans; [eapply id_of_tok_pres; exact E | eapply IH; exact E2]).
    + intros H. inversion H; subst. apply pres_refl.
Qed.

Section Pres.
Variable run : shw -> list wcall -> res sret.
Hypothesis run_pres : forall x cs, pres_res x (run x cs).

Lemma write_lst_pres x t : pres_res x (write_lst_sh run x t).
Proof.
  unfold write_lst_sh. destruct (write (sw_w x) [224; 1; 0; 234]) as [w1 ok]. destruct ok; cbn [negb].
  - pose proof (run_pres (upd x w1) (lst_calls_sh t)) as H. destruct (run (upd x w1) (lst_calls_sh t)) as [[x' ok']| | |]; try exact I.
    exact H.
  - exact (pres_refl x).
Qed.

Lemma begin_value_pres x : pres_res x (begin_value_sh run x).
Proof.
  unfold begin_value_sh.
  set (x0 := upd x (clear (sw_w x))).
  assert (P0 : pres x x0) by apply pres_upd.
  destruct (sw_fixed x0 && negb (w_wrote_lst (sw_w x0))).
  - pose proof (write_lst_pres (upd x0 (set_wrote (sw_w x0) true)) (sw_tab x0)) as H.
    destruct (write_lst_sh run (upd x0 (set_wrote (sw_w x0) true)) (sw_tab x0)) as [[x1 ok]| | |]; cbn [bind]; try exact I.
    assert (P1 : pres x x1) by (eapply pres_trans; [exact P0 | exact H]).
    clear H. revert P1. generalize x1. clear x1. intros x1 P1.
    destruct ok; cbn [negb]; [|exact P1].
    destruct (in_struct (sw_w x1)).
    + destruct (w_field (sw_w x)) as [nm|]; cbn [bind negb]; [|exact P1].
      destruct (id_of_tok_sh x1 nm) as [[x2 id]|] eqn:E; cbn [bind negb]; [|exact P1].
      assert (P2 : pres x x2) by (eapply pres_trans; [exact P1 | eapply id_of_tok_pres; exact E]).
      unfold lw. destruct (write (sw_w x2) (append_varuint [] id)) as [w3 ok3]. cbn [fst snd].
      destruct ok3; cbn [negb]; [|exact P2].
      destruct (w_annots (sw_w x)) as [|a0 ar]; [exact P2|].
      destruct (annot_ids_sh (upd x2 w3) (a0 :: ar)) as [x4 [ids|]] eqn:EA.
      * eapply pres_trans; [exact P2|]. eapply (annot_ids_pres _ _ _ _ EA).
      * eapply pres_trans; [exact P2|]. eapply (annot_ids_pres _ _ _ _ EA).
    + cbn [bind negb].
      destruct (w_annots (sw_w x)) as [|a0 ar]; [exact P1|].
      destruct (annot_ids_sh x1 (a0 :: ar)) as [x4 [ids|]] eqn:EA.
      * eapply pres_trans; [exact P1|]. eapply (annot_ids_pres _ _ _ _ EA).
      * eapply pres_trans; [exact P1|]. eapply (annot_ids_pres _ _ _ _ EA).
  - cbn [bind negb].
    destruct (in_struct (sw_w x0)).
    + destruct (w_field (sw_w x)) as [nm|]; cbn [bind negb]; [|exact P0].
      destruct (id_of_tok_sh x0 nm) as [[x2 id]|] eqn:E; cbn [bind negb]; [|exact P0].
      assert (P2 : pres x x2) by (eapply pres_trans; [exact P0 | eapply id_of_tok_pres; exact E]).
      unfold lw. destruct (write (sw_w x2) (append_varuint [] id)) as [w3 ok3]. cbn [fst snd].
      destruct ok3; cbn [negb]; [|exact P2].
      destruct (w_annots (sw_w x)) as [|a0 ar]; [exact P2|].
      destruct (annot_ids_sh (upd x2 w3) (a0 :: ar)) as [x4 [ids|]] eqn:EA.
      * eapply pres_trans; [exact P2|]. eapply (annot_ids_pres _ _ _ _ EA).
      * eapply pres_trans; [exact P2|]. eapply (annot_ids_pres _ _ _ _ EA).
    + cbn [bind negb].
      destruct (w_annots (sw_w x)) as [|a0 ar]; [exact P0|].
      destruct (annot_ids_sh x0 (a0 :: ar)) as [x4 [ids|]] eqn:EA.
      * eapply pres_trans; [exact P0|]. eapply (annot_ids_pres _ _ _ _ EA).
      * eapply pres_trans; [exact P0|]. eapply (annot_ids_pres _ _ _ _ EA).
Qed.

Ltac bv_case x H :=
  pose proof (begin_value_pres x) as H;
  destruct (begin_value_sh run x) as [[? []]| | |]; cbn [bind negb]; try exact I; try exact H.

Lemma write_value_pres x val : pres_res x (write_value_sh run x val).
Proof.
  unfold write_value_sh. destruct (w_err (sw_w x)); [exact (pres_refl x)|].
  bv_case x H.
  unfold lw. destruct (write (sw_w s) val) as [w1 [|]]; cbn [fst snd negb]; [|exact H].
  destruct (end_value (sw_w (upd s w1))) as [w2 ok2]. cbn [fst snd]. exact H.
Qed.
Lemma write_value_chunks_pres x cs : pres_res x (write_value_chunks_sh run x cs).
Proof.
  unfold write_value_chunks_sh. destruct (w_err (sw_w x)); [exact (pres_refl x)|].
  bv_case x H.
  match goal with |- context [fold_left ?f cs ?a] => destruct (fold_left f cs a) as [w1 [|]] end; cbn [negb]; [|exact H].
  unfold lw. destruct (end_value (sw_w (upd s w1))) as [w2 ok2]. cbn [fst snd]. exact H.
Qed.
Lemma begin_container_pres x t code : pres_res x (begin_container_sh run x t code).
Proof.
  unfold begin_container_sh. destruct (w_err (sw_w x)); [exact (pres_refl x)|].
  bv_case x H.
Qed.
Lemma end_container_pres x t : pres_res x (end_container_sh x t).
Proof.
  unfold end_container_sh. destruct (end_container (sw_w x) t) as [r| | |]; try exact I. exact (pres_refl x).
Qed.
Lemma write_symbol_id_pres x id : pres_res x (write_symbol_id_sh run x id).
Proof. apply write_value_pres. Qed.

Lemma pres_res_trans x x1 r : pres x x1 -> pres_res x1 r -> pres_res x r.
Proof. intros P. destruct r as [[x2 ok]| | |]; cbn [pres_res]; try trivial. apply pres_trans. exact P. Qed.

Lemma step_pres x c : pres_res x (step_sh run x c).
Proof.
  destruct c; cbn [step_sh];
    try apply write_value_pres; try apply write_value_chunks_pres;
    try apply begin_container_pres; try apply end_container_pres.
  - destruct (w_err (sw_w x)); [exact (pres_refl x)|]. destruct (negb (in_struct (sw_w x))); exact (pres_refl x).
  - destruct (w_err (sw_w x)); exact (pres_refl x).
  - destruct (w_err (sw_w x)); exact (pres_refl x).
  - destruct (w_err (sw_w x)); [exact (pres_refl x)|]. destruct (14 <=? t); [exact (pres_refl x)|].
    destruct (binary_null t); cbn [bind]; try exact I. apply write_value_pres.
  - destruct (z =? 0)%Z; apply write_value_pres.
  - destruct (n =? 0); apply write_value_pres.
  - destruct (w_err (sw_w x)); [exact (pres_refl x)|]. destruct z as [z|]; [|exact (pres_refl x)].
    destruct (z =? 0)%Z; apply write_value_chunks_pres.
  - destruct (f64_pos_zero bits); [apply write_value_pres|]. destruct (f64_is_nan bits); [apply write_value_pres|].
    destruct (uses_f32 bits); apply write_value_pres.
  - destruct (w_err (sw_w x)); [exact (pres_refl x)|]. destruct d as [d|]; [|exact (pres_refl x)].
    destruct (_ && _); apply write_value_pres.
  - destruct (w_err (sw_w x)); [exact (pres_refl x)|]. destruct (tk_text t) as [tx|].
    + destruct (resolve_from_table_sh x tx) as [[x1 id] ok] eqn:E.
      pose proof (resolve_from_table_pres _ _ _ _ _ E) as P. destruct ok; cbn [negb].
      * eapply pres_res_trans; [|apply write_symbol_id_pres]. exact P.
      * exact P.
    + destruct (negb (tk_sid t =? -1)%Z); [apply write_symbol_id_pres | exact (pres_refl x)].
  - destruct (w_err (sw_w x)); [exact (pres_refl x)|].
    destruct (resolve_sh x t) as [[x1 id] ok] eqn:E.
    pose proof (resolve_pres _ _ _ _ _ E) as P. destruct ok; cbn [negb].
    + eapply pres_res_trans; [|apply write_symbol_id_pres]. exact P.
    + exact P.
  - destruct t; apply write_value_pres.
  - destruct (w_err (sw_w x)); [exact (pres_refl x)|]. destruct (negb (ctx_peek (sw_w x) =? 0)); [exact (pres_refl x)|].
    destruct (w_bufs (set_wrote (clear (sw_w x)) false)) as [|q rest] eqn:EB; [exact (pres_refl x)|].
    destruct rest; [|exact I].
    pose proof (write_lst_pres (upd x (set_bufs (set_wrote (clear (sw_w x)) false) []))
                  (builder_build (sw_tab (upd x (set_bufs (set_wrote (clear (sw_w x)) false) []))))) as H.
    destruct (write_lst_sh run _ _) as [[x1 [|]]| | |]; cbn [bind negb]; try exact I; try exact H.
    unfold lw. destruct (emit (sw_w x1) (node_of_seq q)) as [w2 [|]]; cbn [fst snd negb]; exact H.
Qed.
End Pres.

Lemma run_calls_pres fuel : forall x cs, pres_res x (run_calls_sh fuel x cs).
Proof.
  induction fuel as [|f IH]; intros x cs; [exact I|].
  revert x. induction cs as [|c cs IHc]; intros x; cbn [run_calls_sh]; [exact (pres_refl x)|].
  pose proof (step_pres (run_calls_sh f) IH x c) as H.
  destruct (step_sh (run_calls_sh f) x c) as [[x1 ok]| | |]; cbn [bind]; try exact I.
  destruct ok; [|exact H].
  eapply pres_res_trans; [exact H|]. apply IHc.
Qed.
Theorem wstep_pres x c : pres_res x (wstep_sh x c).
Proof. apply step_pres. apply run_calls_pres. Qed.

Theorem drive_pres cs : forall x acc x' oks, drive_sh x cs acc = Ok (x', oks) -> pres x x'.
Proof.
  induction cs as [|c cs IH]; intros x acc x' oks; cbn [drive_sh].
  - intros H. inversion H; subst. apply pres_refl.
  - pose proof (wstep_pres x c) as P. destruct (wstep_sh x c) as [[x1 ok]| | |]; cbn [bind]; try discriminate.
    intros H. eapply pres_trans; [exact P | eapply IH; exact H].
Qed.

(* (b)+(c) for the machine: whatever calls are made on NewBinaryWriter(out, sts...), the table it holds is the
   builder over sts after some history of Adds *)
Theorem shared_reachable sts budget cs x' oks :
  drive_sh (new_writer_sh budget sts) cs [] = Ok (x', oks) ->
  sw_fixed x' = false /\ exists xs, sw_tab x' = adds_state (builder_new sts) xs.
Proof. intros H. destruct (drive_pres _ _ _ _ _ H) as [F [xs E]]. split; [exact F | exists xs; exact E]. Qed.

(* ---- (a) the table written declares exactly its imports, in order, with name / version / max_id ----------- *)
Fixpoint declared_imports (cs : list wcall) : list (SymTab.text * Z * N) :=
  match cs with
  | CBeginStruct :: r =>
    match r with
    | CFieldName _ :: CString n :: CFieldName _ :: CInt v :: CFieldName _ :: CUint m :: CEndStruct :: r' =>
      (n, v, m) :: declared_imports r'
    | _ => declared_imports r
    end
  | _ :: r => declared_imports r
  | [] => []
  end.

Lemma declared_strings l rest : declared_imports (map CString l ++ rest) = declared_imports rest.
Proof. induction l as [|x l IH]; [reflexivity | exact IH]. Qed.
Lemma declared_import_calls t imps rest :
  declared_imports (flat_map (import_calls t) imps ++ rest) =
  map (fun i => (sh_name i, sh_ver i, sh_max i)) imps ++ declared_imports rest.
Proof.
  induction imps as [|i imps IH]; [reflexivity|]. cbn [flat_map import_calls app map declared_imports].
  f_equal. exact IH.
Qed.

Theorem lst_calls_declares t :
  declared_imports (lst_calls_sh t) = map (fun i => (sh_name i, sh_ver i, sh_max i)) (tl (l_imports t))
  \/ (lenN (l_imports t) <= 1 /\ declared_imports (lst_calls_sh t) = []).
Proof.
  unfold lst_calls_sh.
  destruct ((lenN (l_imports t) =? 1) && (lenN (l_syms t) =? 0)) eqn:E0.
  - right. split; [lia | reflexivity].
  - destruct (N.ltb_spec 1 (lenN (l_imports t))) as [L|L].
    + left. cbn [app declared_imports]. rewrite <- app_assoc. rewrite declared_import_calls.
      rewrite <- (app_nil_r (map _ (tl (l_imports t)))) at 2. f_equal.
      destruct (0 <? lenN (l_syms t)); cbn [app declared_imports]; rewrite <- ?app_assoc, ?declared_strings; reflexivity.
    + right. split; [exact L|]. cbn [app declared_imports].
      destruct (0 <? lenN (l_syms t)); cbn [app declared_imports]; rewrite <- ?app_assoc, ?declared_strings; reflexivity.
Qed.

(* for NewBinaryWriter(out, sts...) with no table named "$ion" in front: the tables given, after Adjust *)
Theorem shared_declares sts xs : user_ion sts = false -> sum_max (effective_imports sts) < two64 ->
  sts <> [] ->
  declared_imports (lst_calls_sh (adds_state (builder_new sts) xs)) =
  map (fun i => (sh_name i, sh_ver i, sh_max i)) sts.
Proof.
  intros U B NE. destruct (adds_fields sts xs B) as [I _].
  destruct (lst_calls_declares (adds_state (builder_new sts) xs)) as [H|[L _]].
  - rewrite H, I, (effective_imports_system sts U). reflexivity.
  - rewrite I, (effective_imports_system sts U) in L. destruct sts; [contradiction|].
    rewrite !lenN_cons in L. lia.
Qed.

(* ---- fixed tables ------------------------------------------------------------------------------------------------ *)
(* text in the table is written with the table's ID, which is the lowest ID carrying it *)
Theorem fixed_id x t id : sw_fixed x = true -> lst_find_by_name (sw_tab x) t = Some id ->
  resolve_from_table_sh x t = (x, id, true).
Proof. intros F H. unfold resolve_from_table_sh. rewrite F, H. reflexivity. Qed.
Theorem fixed_id_lowest x t id : lst_wf (sw_tab x) -> t <> [] -> lst_find_by_name (sw_tab x) t = Some id ->
  1 <= id <= SymTab.lst_max_id (sw_tab x) /\ SymTab.lst_find_by_id (sw_tab x) id = Some t /\
  forall id', id' < id -> SymTab.lst_find_by_id (sw_tab x) id' <> Some t.
Proof. intros W NE H. exact (find_lowest _ _ _ W NE H). Qed.

(* text outside the table: the symbol call fails, records the error, emits nothing and changes nothing else *)
Theorem fixed_refuses_symbol run x k t : sw_fixed x = true -> w_err (sw_w x) = false ->
  tk_text k = Some t -> lst_find_by_name (sw_tab x) t = None ->
  step_sh run x (CSymbol k) = Ok (serr x true, false).
Proof.
  intros F E T H. cbn [step_sh]. rewrite E, T. unfold resolve_from_table_sh. rewrite F, H. reflexivity.
Qed.
Theorem fixed_refuses_symbol_string run x t : sw_fixed x = true -> w_err (sw_w x) = false ->
  BinWriter.symbol_identifier t = None -> lst_find_by_name (sw_tab x) t = None ->
  step_sh run x (CSymbolFromString t) = Ok (serr x true, false).
Proof.
  intros F E T H. cbn [step_sh]. rewrite E. unfold resolve_sh. rewrite T.
  unfold resolve_from_table_sh. rewrite F, H. reflexivity.
Qed.
Lemma serr_out x e : w_out (sw_w (serr x e)) = w_out (sw_w x) /\ w_bufs (sw_w (serr x e)) = w_bufs (sw_w x)
  /\ sw_tab (serr x e) = sw_tab x /\ w_err (sw_w (serr x e)) = e.
Proof. repeat split. Qed.
(* a field name or annotation outside the table makes the value's call fail *)
Theorem fixed_refuses_token x k t : sw_fixed x = true -> tk_text k = Some t ->
  lst_find_by_name (sw_tab x) t = None -> id_of_tok_sh x k = None.
Proof. intros F T H. unfold id_of_tok_sh, resolve_from_table_sh. rewrite T, F, H. reflexivity. Qed.
(* no ID is taken from a token's text other than the table's own *)
Theorem fixed_token_id x k t x' id : sw_fixed x = true -> tk_text k = Some t ->
  id_of_tok_sh x k = Some (x', id) -> x' = x /\ lst_find_by_name (sw_tab x) t = Some id.
Proof.
  intros F T. unfold id_of_tok_sh, resolve_from_table_sh. rewrite T, F.
  destruct (lst_find_by_name (sw_tab x) t); [|discriminate]. intros H. inversion H; subst. split; reflexivity.
Qed.
(* the error is sticky: every later call fails and changes nothing *)
Theorem sh_sticky run x c : w_err (sw_w x) = true -> step_sh run x c = Ok (x, false).
Proof.
  intros E. destruct c; cbn [step_sh]; unfold write_value_sh, write_value_chunks_sh, begin_container_sh,
    end_container_sh, write_symbol_id_sh, write_value_sh; rewrite ?E; try reflexivity.
  - destruct (z =? 0)%Z; reflexivity.
  - destruct (n =? 0); reflexivity.
  - destruct (f64_pos_zero bits); [|destruct (f64_is_nan bits); [|destruct (uses_f32 bits)]]; reflexivity.
  - destruct t; reflexivity.
  - unfold end_container. rewrite E. unfold lw. destruct x; reflexivity.
  - unfold end_container. rewrite E. unfold lw. destruct x; reflexivity.
  - unfold end_container. rewrite E. unfold lw. destruct x; reflexivity.
Qed.
