(* SpecAgreeContP.v — C03 on the models, stage B: containers of any depth in any representation the
   specification allows (inline / VarUInt lengths, ordered structs, padded field names, NOP pads
   between elements and under field names). *)
From Coq Require Import String List NArith ZArith Bool Lia ZifyBool ZifyN ZifyNat.
From IonV Require Import Base.Wire Base.Utf8 Bin.Bits Bin.BitsP Data.Ion Num.Float Bin.BitStream Bin.BinReader
  Bin.BitStreamP Bin.BitStreamNextP Bin.BinWriter Bin.SpecBin Bin.RoundTripBin Bin.RoundTripBinS Bin.BitEvalP
  Bin.BitEvalAnnP Bin.ReaderTrace Bin.BinReaderInvP Bin.BinReaderP Bin.ReaderTraceP Bin.ReaderTopP
  Bin.ReaderLstP Bin.SpecLim Bin.SpecLimP Bin.SpecLimAppP Bin.BitEvalGenP Bin.SpecAgreeP Bin.BitEvalAnnGenP Bin.SpecAgreeTravP.
Import ListNotations.
Open Scope N_scope.
Ltac Zify.zify_post_hook ::= Z.div_mod_to_equations.

Ltac bsimpl :=
  cbn [b_in b_ioerr b_pos b_state b_stack b_code b_null b_len b_alloc b_avail b_fuel
       upd_in upd_state upd_stack upd_cur upd_alloc b_clear done_value fst snd] in *.
Ltac rsimpl :=
  cbn [r_bits r_ctx r_eof r_err r_lst r_field r_annots r_type r_value
       rs_bits rs_ctx rs_eof rs_err rs_lst rs_field rs_annots rs_val r_clear fst snd] in *.

Section Cont.
Variable ts : list N -> res unit.
Hypothesis Hts : forall bs, ts bs <> Panic /\ ts bs <> OutOfFuel.
Variable tot : N.
Hypothesis Htot : tot < two63.

Definition BY (l : list N) : Prop := Forall (fun c => c < 256) l.

(* in the middle of a Next, about to read a value (the field name and the annotations, if any, have been read) *)
Definition PRE3 (api : rstate -> rstate * res bool) (tab : rlst) (r : rstate) (l outer : list N) (stk : list (N * N))
  (fld : option tok) (an : list tok) : Prop :=
  exists K r0 fuel b1, NXT ts api r = r_next_loop ts api K fuel r0 /\
    r_err r0 = false /\ r_eof r0 = false /\ r_lst r0 = Some tab /\ r_ctx r0 = ctx_of_stk stk /\
    r_field r0 = fld /\ r_annots r0 = an /\
    b_next (r_bits r0) = b_next b1 /\ BS b1 (l ++ outer) bssBeforeValue stk tot /\ b_ioerr b1 = false /\
    top_ok tot stk outer /\ ((length (l ++ outer) + 2 <= K)%nat /\ (length (l ++ outer) + 2 <= fuel)%nat).

Lemma to3 api tab r l outer stk : PRE2 ts tot api tab r l outer stk -> sav stk = bssBeforeValue -> PRE3 api tab r l outer stk None [].
Proof.
  intros (K & r0 & fuel & b1 & En & He & Hfe & Hl & Hc & Ha & Hf & Hn & Hb1 & Hio1 & T & HK) Hsv.
  rewrite Hsv in Hb1. exists K, r0, fuel, b1. repeat (split; [solve [auto]|]). assumption.
Qed.

(* the field name inside a struct *)
Lemma field3 api tab ctx r l' sid r' y outer c e stk : TC tab ctx -> sav ((c, e) :: stk) = bssBeforeFieldID ->
  BY l' -> lim_varuint l' = Some (sid, r') -> resolve_sid ctx sid = Some y ->
  PRE2 ts tot api tab r l' outer ((c, e) :: stk) ->
  PRE3 api tab r r' outer ((c, e) :: stk) (Some (tok_of_sym y sid)) [] /\ BY r'.
Proof.
  intros HTC Hsv Hbytes Hv Hy (K & r0 & fuel & b1 & En & He & Hfe & Hl & Hc & Ha & Hf & Hn & Hb1 & Hio1 & T & HK).
  rewrite Hsv in Hb1.
  destruct (lim_varuint_layout l' sid r' outer Hv Hbytes) as (ds & E0 & Hds & Hv64 & Hrd).
  assert (Hbr : BY r') by (unfold BY in *; rewrite E0 in Hbytes; apply Forall_app in Hbytes; apply Hbytes).
  rewrite E0, <- app_assoc in Hb1.
  pose proof Hb1 as [I1 Ein1 _ _ _ Nw1]. pose proof (bcore_avail _ (proj1 I1)) as A1.
  assert (Hpos : b_pos b1 + N.of_nat (length ds) <= e).
  { unfold top_ok in T. unfold avail_ok in A1. rewrite Ein1, !app_length in A1. lia. }
  destruct (b_next_field tot Htot b1 _ c e stk Hb1) as (b' & E1 & Hb' & Ec & Ep); [lia|].
  pose proof (ioerr_next _ _ _ I1 E1) as Eio1. rewrite <- Hn in E1.
  destruct (read_field_id_gen tot Htot b' ds sid (r' ++ outer) c e stk Hb' Ec Hrd ltac:(lia)) as (b'' & Er & Hb'').
  assert (Eio2 : b_ioerr b'' = b_ioerr b').
  { destruct (b_read_field_id_spec b' (bs_inv _ _ _ _ _ Hb') Ec (bs_state _ _ _ _ _ Hb')) as [(W & _) _].
    rewrite Er in W. exact (wle_ioerr _ _ W). }
  destruct (resolve_tok tab ctx sid y HTC Hy) as (Etok & _).
  destruct K as [|k]; [cbn [length] in HK; lia|].
  split; [|exact Hbr].
  exists k, (rs_field (rs_bits (rs_bits r0 b') b'') (Some (tok_of_sym y sid))), fuel, b''.
  split; [rewrite En; apply loop_false; eapply raw_field; eauto|]. rsimpl.
  repeat (split; [solve [auto]|]). split; [congruence|]. split; [exact T|].
  rewrite E0, !app_length in HK. rewrite app_length. lia.
Qed.

(* a NOP pad where a value is expected (after the field name inside a struct) *)
Lemma pad3 api tab ctx r f tag r0 rest' outer stk fld : TC tab ctx -> (sav stk = bssBeforeValue -> fld = None) ->
  BY (tag :: r0) -> sl_value ts (S f) ctx (tag :: r0) = Some (None, rest') ->
  PRE3 api tab r (tag :: r0) outer stk fld [] -> PRE2 ts tot api tab r rest' outer stk /\ BY rest'.
Proof.
  intros HTC Hfld Hbytes Hsp (K & r0' & fuel & b1 & En & He & Hfe & Hl & Hc & Hf & Ha & Hn & Hb1 & Hio1 & T & HK).
  destruct (raw_nop_spec ts tot Htot ctx api fuel r0' b1 f tag r0 rest' outer stk Hbytes Hsp Hb1 T Hn)
    as (b' & b'' & Eraw & Hb'' & Hbr & Hio2).
  destruct (sl_value_suffix _ _ _ _ _ _ Hbytes Hsp) as (pre & Epre & Hne).
  destruct K as [|k]; [cbn [length] in HK; lia|].
  split; [|exact Hbr].
  exists k, (rs_bits (rs_bits r0' b') b''), fuel, b''.
  split; [rewrite En; apply loop_false; exact Eraw|]. rsimpl.
  repeat (split; [solve [auto]|]). split; [intros Hs; rewrite Hf; auto|]. split; [reflexivity|]. split; [exact Hb''|].
  split; [congruence|]. split; [exact T|].
  rewrite Epre, !app_length in HK. destruct pre; [contradiction|cbn [length] in HK]. rewrite app_length. lia.
Qed.

(* ---- one Next: a scalar; a container (not entered); the end of a container ------------------------------------------------ *)
Lemma next_scalar3 api tab ctx r f tag r0 x rest' outer stk fld an : TC tab ctx -> lst_guard stk an x ->
  BY (tag :: r0) -> sl_value ts (S f) ctx (tag :: r0) = Some (Some x, rest') -> is_scalar x ->
  PRE3 api tab r (tag :: r0) outer stk fld an ->
  exists r1, NXT ts api r = (r1, Ok true) /\ r_err r1 = false /\ r_field r1 = fld /\ r_annots r1 = an /\ rvs x r1 /\
             RS tot tab r1 rest' outer stk /\ BY rest'.
Proof.
  intros HTC Hg Hbytes Hsp Hs (K & r0' & fuel & b1 & En & He & Hfe & Hl & Hc & Hf & Ha & Hn & Hb1 & Hio1 & T & HK).
  assert (Hnl : x = VNull 13 -> not_lst_pos r0') by (intros Ex; apply (guard_pos r0' stk an x Hc Ha Hg); rewrite Ex; reflexivity).
  destruct (raw_scalar_spec ts tot Htot tab ctx HTC api fuel r0' b1 f tag r0 x rest' outer stk Hbytes Hsp Hs Hb1 T Hn Hl Hnl)
    as (r1 & Eraw & SH & Rv & Bs & Hbr).
  destruct SH as (S1 & S2 & S3 & S4 & S5 & S6).
  destruct K as [|k]; [cbn [length] in HK; lia|].
  exists r1. split; [rewrite En; cbn [r_next_loop]; rewrite Eraw, S2, Hfe; reflexivity|].
  split; [congruence|]. split; [congruence|]. split; [congruence|]. split; [exact Rv|].
  split; [constructor; try congruence; assumption|exact Hbr].
Qed.

(* standing on a container that has not been entered *)
Record RK (tab : rlst) (r : rstate) (t : N) (body rest outer : list N) (stk : list (N * N)) : Prop := {
  rk_err : r_err r = false; rk_eof : r_eof r = false; rk_lst : r_lst r = Some tab; rk_ctx : r_ctx r = ctx_of_stk stk;
  rk_type : r_type r = t; rk_t : 11 <= t <= 13; rk_val : r_value r = RContainer;
  rk_bits : BS (r_bits r) (body ++ rest ++ outer) bssOnValue stk tot;
  rk_code : b_code (r_bits r) = bitcode_of_high t; rk_len : b_len (r_bits r) = N.of_nat (length body);
  rk_top : top_ok tot stk outer
}.

Lemma next_cont3 api tab r tag r0 len r1 body rest' outer stk fld an :
  BY (tag :: r0) -> 11 <= tag / 16 <= 13 -> tag mod 16 <> 15 ->
  (if (tag mod 16 =? 14) || ((tag / 16 =? 13) && (tag mod 16 =? 1)) then lim_varuint r0 else Some (tag mod 16, r0))
     = Some (len, r1) ->
  ((tag / 16 =? 13) && (tag mod 16 =? 1)) && (len =? 0) = false -> take_n len r1 = Some (body, rest') ->
  (tag / 16 = 13 -> stk = [] -> is_ion_symbol_table an = false) ->
  PRE3 api tab r (tag :: r0) outer stk fld an ->
  exists r1', NXT ts api r = (r1', Ok true) /\ r_field r1' = fld /\ r_annots r1' = an /\
              RK tab r1' (tag / 16) body rest' outer stk /\ BY body /\ BY rest'.
Proof.
  intros Hbytes Ht Hlo Hlen Hs0 Htk Hg (K & r0' & fuel & b1 & En & He & Hfe & Hl & Hc & Hf & Ha & Hn & Hb1 & Hio1 & T & HK).
  pose proof (Forall_inv Hbytes) as Htag. pose proof (Forall_inv_tail Hbytes) as Hr0.
  destruct (hdr_spec ts tot Htot b1 tag r0 len r1 body rest' outer stk Htag Hr0 ltac:(lia) Hlo ltac:(lia) Hlen Hs0 Htk ltac:(lia) Hb1 T)
    as (b' & E1 & Hb' & Ec & El & Elb & Hbb & Hbr).
  rewrite <- Hn in E1. pose proof (bs_null _ _ _ _ _ Hb') as Nl.
  set (t := tag / 16) in *.
  assert (Hnlp : t = 13 -> not_lst_pos r0').
  { intros E13. unfold not_lst_pos. destruct stk as [|p0 stk0]; [rewrite Ha, (Hg E13 eq_refl); apply andb_false_r|].
    rewrite (peek_stk r0' (p0 :: stk0) Hc) by discriminate. reflexivity. }
  assert (Eraw : exists r1', r_next_raw ts api fuel r0' = (r1', Ok true) /\ r_type r1' = t /\ r_value r1' = RContainer /\
                   r_bits r1' = b' /\ same_hdr r0' r1').
  { assert (C : t = 11 \/ t = 12 \/ t = 13) by lia. destruct C as [C|[C|C]]; rewrite C in Ec.
    - eexists. split; [apply (raw_seq ts api fuel r0' b' E1 (or_introl Ec) Nl)|]. rsimpl. rewrite Ec, C. repeat split.
    - eexists. split; [apply (raw_seq ts api fuel r0' b' E1 (or_intror Ec) Nl)|]. rsimpl. rewrite Ec, C. repeat split.
    - eexists. split; [apply (raw_struct ts api fuel r0' b' E1 Ec Nl (Hnlp C))|]. rsimpl. rewrite C. repeat split. }
  destruct Eraw as (r1' & Eraw & Ety & Ev & Ebits & S1 & S2 & S3 & S4 & S5 & S6).
  destruct K as [|k]; [cbn [length] in HK; lia|].
  exists r1'. split; [rewrite En; cbn [r_next_loop]; rewrite Eraw, S2, Hfe; reflexivity|].
  split; [congruence|]. split; [congruence|]. split; [|split; assumption].
  rewrite <- Ebits in Hb', Ec, El. constructor; try congruence; assumption.
Qed.

Lemma step_in3 tab r1 t body rest outer stk : RK tab r1 t body rest outer stk ->
  exists r2 e, r_step_in r1 = (r2, Ok true) /\ RS tot tab r2 body (rest ++ outer) ((bitcode_of_high t, e) :: stk) /\
               r_field r2 = None /\ r_annots r2 = [].
Proof.
  intros [He1 Hf1 Hl1 Hc1 Ety Ht Ev Hb1 Ec1 El1 T].
  assert (Hcc : is_container_code (b_code (r_bits r1))).
  { rewrite Ec1. assert (C : t = 11 \/ t = 12 \/ t = 13) by lia. unfold is_container_code.
    destruct C as [C|[C|C]]; rewrite C; vm_compute; auto. }
  destruct (step_in_eval tot Htot (r_bits r1) _ stk Hb1 Hcc) as (b' & Es & Hb' & Ep).
  eexists _, (b_pos (r_bits r1) + b_len (r_bits r1)). split.
  - unfold r_step_in. rewrite He1, Ev, Ety.
    replace (negb ((t =? TList) || (t =? TSexp) || (t =? TStruct))) with false by (unfold TList, TSexp, TStruct; lia).
    rsimpl. rewrite Es. reflexivity.
  - split; [|split; reflexivity]. rewrite Ec1 in Hb'. constructor; rsimpl; auto.
    + rewrite Hc1. assert (C : t = 11 \/ t = 12 \/ t = 13) by lia.
      destruct C as [C|[C|C]]; rewrite C; reflexivity.
    + unfold top_ok. pose proof Hb1 as [I Ein _ _ _ Nw]. pose proof (bcore_avail _ (proj1 I)) as A.
      unfold avail_ok in A. rewrite Ein, !app_length in A. rewrite El1, app_length. lia.
Qed.

Lemma next_end3 api tab r c e stk rest outer : PRE2 ts tot api tab r [] (rest ++ outer) ((c, e) :: stk) -> top_ok tot stk outer ->
  exists r4 r5, NXT ts api r = (r4, Ok false) /\ r_err r4 = false /\ r_step_out r4 = (r5, Ok true) /\ RS tot tab r5 rest outer stk /\
                r_field r5 = None /\ r_annots r5 = [].
Proof.
  intros (K & r0 & fuel & b1 & En0 & He & Hfe & Hl & Hc & Ha & Hf & Hn & Hb1 & Hio1 & T1 & HK) T.
  destruct K as [|k]; [cbn [length] in HK; lia|]. cbn [app] in *.
  assert (Hpos : b_pos b1 = e).
  { pose proof Hb1 as [I Ein _ _ _ Nw]. pose proof (bcore_avail _ (proj1 I)) as A. unfold avail_ok in A.
    unfold top_ok in T1. rewrite Ein in A. lia. }
  destruct (b_next_container_end tot Htot b1 _ _ c e stk Hb1) as (b' & E1 & Hb' & Ec & Ep); [reflexivity|exact Hpos|].
  rewrite <- Hn in E1.
  set (r4 := rs_eof (rs_bits r0 b') true).
  assert (X : exists r5, r_step_out r4 = (r5, Ok true) /\ RS tot tab r5 rest outer stk /\ r_field r5 = None /\ r_annots r5 = []).
  { destruct (step_out_with tot Htot tab r4 c e stk rest outer (sav ((c, e) :: stk))) as (r5 & Eso & Rs5 & F5 & A5 & _);
      subst r4; rsimpl; auto. exists r5; auto. }
  destruct X as (r5 & Eso & Rs5 & F5 & A5).
  exists r4, r5. split; [rewrite En0; cbn [r_next_loop]; rewrite (raw_eof ts api fuel r0 b' E1 Ec); reflexivity|].
  split; [subst r4; rsimpl; exact He|]. auto.
Qed.

(* ---- tokens with a field name ----------------------------------------------------------------------------------------------- *)
Definition FR (fld : option tok) (fldv : option symv) : Prop :=
  match fld, fldv with
  | None, None => True
  | Some t, Some y => proj_tok (show_tok t) = tsp_sym y
  | _, _ => False
  end.

Definition AR (an : list tok) (anv : list symv) : Prop :=
  Forall2 (fun t y => exists sid, t = tok_of_sym y sid /\ (forall n, y = SymSid n -> n = sid)) an anv.
Lemma AR_nil : AR [] [].
Proof. constructor. Qed.
Lemma AR_proj an anv : AR an anv ->
  proj_tok (97 :: 91 :: concat (map (fun t => show_tok t ++ [59]) an) ++ [93]) = tsp_annots anv.
Proof.
  intros H. unfold tsp_annots. cbn [proj_tok]. do 2 f_equal.
  induction H as [|t y an anv (sid & -> & Hy) _ IH]; cbn [map concat app]; [reflexivity|].
  rewrite <- !app_assoc. cbn [app]. rewrite proj_piece by exact Hy. rewrite IH. reflexivity.
Qed.
Lemma AR_ist an anv : AR an anv ->
  is_ion_symbol_table an = match anv with SymText t :: _ => list_eqb t (s "$ion_symbol_table"%string) | _ => false end.
Proof. intros H. destruct H as [|t y an anv (sid & -> & Hy) _]; [reflexivity|]. destruct y; reflexivity. Qed.

Lemma head_proj3 r1 fld fldv an anv ty b : r_field r1 = fld -> FR fld fldv -> r_annots r1 = an -> AR an anv -> r_type r1 = ty ->
  map proj_tok (rev (head_toks r1 b)) = tsp_head fldv anv ty b.
Proof.
  intros E1 Hf E2 Har E3. unfold head_toks, fld_tok, ann_tok, tsp_head. rewrite E1, E2, E3. cbn [rev app map].
  rewrite (AR_proj _ _ Har).
  destruct fld as [t|], fldv as [y|]; cbn [FR] in Hf; try contradiction; cbn [tsp_field]; [rewrite Hf|]; destruct b; reflexivity.
Qed.

Lemma tsp_scalar3 fldv anv x : is_scalar x ->
  tsp_value fldv anv x = match x with VNull t => tsp_head fldv anv t true
                                | _ => tsp_head fldv anv (vtype x) false ++ [acc_tsp x] end.
Proof. destruct x; intros H; try destruct H; reflexivity. Qed.

(* ---- the traversal: a scalar; entering and leaving a container ------------------------------------------------------------- *)
Lemma scalar3 tab ctx r f tag r0 x rest' outer stk fld fldv an anv depth acc m : TC tab ctx -> FR fld fldv -> AR an anv ->
  lst_guard stk an x ->
  BY (tag :: r0) -> sl_value ts (S f) ctx (tag :: r0) = Some (Some x, rest') -> is_scalar x ->
  PRE3 (r_next_inner ts) tab r (tag :: r0) outer stk fld an -> RIO r ->
  exists r' toks, traverse_loop ts (S m) r depth acc = traverse_loop ts m r' depth (rev toks ++ acc) /\
                  map proj_tok toks = tsp_value fldv anv x /\ RS tot tab r' rest' outer stk /\ RIO r' /\ BY rest'.
Proof.
  intros HTC Hfr Har Hg Hbytes Hsp Hs P Rio.
  destruct (next_scalar3 (r_next_inner ts) tab ctx r f tag r0 x rest' outer stk fld an HTC Hg Hbytes Hsp Hs P)
    as (r1 & En1 & He1 & Hfld & Hann & Rv & Rs1 & Hbr).
  assert (Eop : r_op ts r ONext = (r1, Some [84])) by (cbn [r_op]; rewrite (nxt_next ts), En1; reflexivity).
  pose proof (rio_step ts Hts _ _ _ _ Rio Eop) as Rio1.
  pose proof (acc_tok_s ts tot Htot x r1 Rv Hs He1) as Hacc.
  rewrite (iter_head ts m r r1 depth acc Eop He1). cbv zeta. rewrite (tsp_scalar3 fldv anv x Hs).
  destruct Rv as [Et Ev].
  destruct x; try destruct Hs; cbn [vtype] in *;
    try (destruct Hacc as (Hn0 & o & tk & Eo & Ero & Ep); rewrite Hn0, Eo, Ero;
         exists r1, (rev (head_toks r1 false) ++ [tk]);
         split; [rewrite rev_app_distr, rev_involutive; reflexivity|];
         split; [rewrite map_app, (head_proj3 r1 fld fldv an anv _ false Hfld Hfr Hann Har Et); cbn [map]; rewrite Ep; reflexivity|auto]).
  rewrite Hacc. exists r1, (rev (head_toks r1 true)).
  split; [rewrite rev_involutive; reflexivity|]. split; [apply (head_proj3 r1 fld fldv an anv _ true Hfld Hfr Hann Har Et)|auto].
Qed.

Lemma open3 tab r tag r0 len r1 body rest' outer stk fld fldv an anv depth acc m :
  BY (tag :: r0) -> 11 <= tag / 16 <= 13 -> tag mod 16 <> 15 ->
  (if (tag mod 16 =? 14) || ((tag / 16 =? 13) && (tag mod 16 =? 1)) then lim_varuint r0 else Some (tag mod 16, r0))
     = Some (len, r1) ->
  ((tag / 16 =? 13) && (tag mod 16 =? 1)) && (len =? 0) = false -> take_n len r1 = Some (body, rest') ->
  FR fld fldv -> AR an anv -> (tag / 16 = 13 -> stk = [] -> is_ion_symbol_table an = false) ->
  PRE3 (r_next_inner ts) tab r (tag :: r0) outer stk fld an -> RIO r ->
  exists r2 e toks, traverse_loop ts (S m) r depth acc = traverse_loop ts m r2 (S depth) (rev toks ++ acc) /\
     map proj_tok toks = tsp_head fldv anv (tag / 16) false ++ [s "ok"%string] /\
     RS tot tab r2 body (rest' ++ outer) ((bitcode_of_high (tag / 16), e) :: stk) /\ RIO r2 /\
     top_ok tot stk outer /\ BY body /\ BY rest'.
Proof.
  intros Hbytes Ht Hlo Hlen Hs0 Htk Hfr Har Hg P Rio.
  destruct (next_cont3 (r_next_inner ts) tab r tag r0 len r1 body rest' outer stk fld an Hbytes Ht Hlo Hlen Hs0 Htk Hg P)
    as (r1' & En1 & Hfld & Hann & Rk & Hbb & Hbr).
  pose proof Rk as [He1 Hf1 Hl1 Hc1 Ety _ Ev Hb1 Ec1 El1 T].
  assert (Eop : r_op ts r ONext = (r1', Some [84])) by (cbn [r_op]; rewrite (nxt_next ts), En1; reflexivity).
  pose proof (rio_step ts Hts _ _ _ _ Rio Eop) as Rio1.
  destruct (step_in3 tab r1' _ body rest' outer stk Rk) as (r2 & e & Esi & Rs2 & _ & _).
  assert (Esi' : r_op ts r1' OStepIn = (r2, Some (s "ok"%string))) by (cbn [r_op]; rewrite Esi; reflexivity).
  exists r2, e, (rev (head_toks r1' false) ++ [s "ok"%string]).
  split; [|split; [|split; [exact Rs2|split; [eapply rio_step; eauto|split; [exact T|split; assumption]]]]].
  - rewrite (iter_head ts m r r1' depth acc Eop He1). cbv zeta.
    assert (Hnn : r_is_null r1' = false) by (unfold r_is_null; rewrite Ev; apply andb_false_r).
    rewrite Hnn. replace (accessor_of (r_type r1')) with (@None rop).
    2:{ rewrite Ety. assert (C : tag / 16 = 11 \/ tag / 16 = 12 \/ tag / 16 = 13) by lia.
        destruct C as [C|[C|C]]; rewrite C; reflexivity. }
    rewrite Esi'. replace (list_eqb (s "ok"%string) (s "ok"%string)) with true by reflexivity.
    rewrite rev_app_distr, rev_involutive. reflexivity.
  - rewrite map_app. rewrite (head_proj3 r1' fld fldv an anv (tag / 16) false); try congruence. reflexivity.
Qed.

Lemma close2 tab r c e stk rest outer depth acc m :
  PRE2 ts tot (r_next_inner ts) tab r [] (rest ++ outer) ((c, e) :: stk) -> top_ok tot stk outer -> RIO r ->
  exists r', traverse_loop ts (S m) r (S depth) acc = traverse_loop ts m r' depth (s "ok"%string :: [70] :: acc) /\
             RS tot tab r' rest outer stk /\ RIO r'.
Proof.
  intros P T Rio. destruct (next_end3 (r_next_inner ts) tab r c e stk rest outer P T) as (r4 & r5 & En & He4 & Eso & Rs5 & _).
  assert (Eop : r_op ts r ONext = (r4, Some [70])) by (cbn [r_op]; rewrite (nxt_next ts), En; reflexivity).
  assert (Eso' : r_op ts r4 OStepOut = (r5, Some (s "ok"%string))) by (cbn [r_op]; rewrite Eso; reflexivity).
  exists r5. split; [apply (iter_close ts m r _ _ depth acc Eop Eso')|]. split; [exact Rs5|].
  eapply rio_step; [exact Hts|eapply rio_step; [exact Hts|exact Rio|exact Eop]|exact Eso'].
Qed.

(* ---- the cases of the specification decoder --------------------------------------------------------------------------------- *)
Definition sitem (f : nat) (ctx : symctx) (l' : list N) : option (option (symv * value) * list N) :=
  match lim_varuint l' with
  | None => None
  | Some (sid, r') =>
    match resolve_sid ctx sid with
    | None => None
    | Some y =>
      match sl_value ts f ctx r' with
      | Some (Some v, r'') => Some (Some (y, v), r'')
      | Some (None, r'') => Some (None, r'')
      | None => None
      end
    end
  end.
Definition HDR (tag : N) (r0 : list N) (len : N) (r1 : list N) : Prop :=
  tag mod 16 <> 15 /\
  (if (tag mod 16 =? 14) || ((tag / 16 =? 13) && (tag mod 16 =? 1)) then lim_varuint r0 else Some (tag mod 16, r0)) = Some (len, r1) /\
  ((tag / 16 =? 13) && (tag mod 16 =? 1)) && (len =? 0) = false.

Lemma hdr_len tag r0 len r1 body rest' : BY r0 -> HDR tag r0 len r1 -> take_n len r1 = Some (body, rest') ->
  (length body + length rest' <= length r0)%nat /\ BY body.
Proof.
  intros Hb (_ & Hlen & _) Htk. destruct (take_n_spec _ _ _ _ Htk) as [Er1 _].
  assert (Hlr : (length r1 <= length r0)%nat /\ BY r1).
  { destruct ((tag mod 16 =? 14) || (tag / 16 =? 13) && (tag mod 16 =? 1)); [|inversion Hlen; subst; split; [lia|exact Hb]].
    destruct (lim_varuint_layout r0 len r1 [] Hlen Hb) as (ds0 & Q & _). split; [rewrite Q, app_length; lia|].
    unfold BY in *. rewrite Q in Hb. apply Forall_app in Hb. apply Hb. }
  destruct Hlr as [Hlr Hb1]. rewrite Er1, app_length in Hlr. split; [lia|].
  unfold BY in *. rewrite Er1 in Hb1. apply Forall_app in Hb1. apply Hb1.
Qed.

Lemma sl_value_cases f ctx tag r0 v rest' : sl_value ts (S f) ctx (tag :: r0) = Some (Some v, rest') ->
  (is_scalar v /\ tag / 16 <> 14) \/
  exists len r1 body, HDR tag r0 len r1 /\ take_n len r1 = Some (body, rest') /\
    ((tag / 16 = 11 /\ exists vs, v = VList vs /\ sp_items (sl_value ts f ctx) (length body) body = Some vs) \/
     (tag / 16 = 12 /\ exists vs, v = VSexp vs /\ sp_items (sl_value ts f ctx) (length body) body = Some vs) \/
     (tag / 16 = 13 /\ exists fs, v = VStruct fs /\ sp_items (sitem f ctx) (length body) body = Some fs) \/
     (tag / 16 = 14 /\ 3 <= len /\ exists alen r2 ab vb ys x vt vr,
        lim_varuint body = Some (alen, r2) /\ alen <> 0 /\ take_n alen r2 = Some (ab, vb) /\
        sl_annots ctx (length ab) ab = Some ys /\ vb = vt :: vr /\ vt / 16 <> 14 /\
        sl_value ts f ctx vb = Some (Some x, []) /\ v = VAnn ys x)).
Proof.
  intros Hsp. cbn [sl_value] in Hsp. cbv zeta in Hsp.
  destruct (tag / 16 =? 15) eqn:E15; [discriminate|].
  destruct (tag mod 16 =? 15) eqn:El15.
  { destruct (null_type (tag / 16)) as [ty|] eqn:Ent; [|discriminate]. pose proof (null_type_k tot Htot _ _ Ent). inversion Hsp. left. split; [exact Logic.I|lia]. }
  destruct (tag / 16 =? 1) eqn:Et1.
  { destruct (tag mod 16 =? 0); [inversion Hsp; left; split; [exact Logic.I|lia]|].
    destruct (tag mod 16 =? 1); [inversion Hsp; left; split; [exact Logic.I|lia]|discriminate]. }
  set (sorted := (tag / 16 =? 13) && (tag mod 16 =? 1)) in *.
  destruct (if (tag mod 16 =? 14) || sorted then lim_varuint r0 else Some (tag mod 16, r0)) as [[len r1]|] eqn:Elen;
    [|discriminate].
  destruct (sorted && (len =? 0)) eqn:Es0; [discriminate|].
  destruct (take_n len r1) as [[body rest]|] eqn:Etk; [|discriminate].
  assert (HH : HDR tag r0 len r1) by (split; [lia|split; assumption]).
  destruct (tag / 16 =? 0) eqn:T0; [discriminate|].
  destruct (tag / 16 =? 2) eqn:T2; [inversion Hsp; left; split; [exact Logic.I|lia]|].
  destruct (tag / 16 =? 3) eqn:T3; [destruct (sp_uint body =? 0); [discriminate|inversion Hsp; left; split; [exact Logic.I|lia]]|].
  destruct (tag / 16 =? 4) eqn:T4.
  { destruct (len =? 0); [inversion Hsp; left; split; [exact Logic.I|lia]|]. destruct (len =? 4); [inversion Hsp; left; split; [exact Logic.I|lia]|].
    destruct (len =? 8); [inversion Hsp; left; split; [exact Logic.I|lia]|discriminate]. }
  destruct (tag / 16 =? 5) eqn:T5.
  { destruct body; [inversion Hsp; left; split; [exact Logic.I|lia]|]. destruct (lim_varint _) as [[[e ng] cb]|]; [|discriminate].
    destruct (sp_int cb). inversion Hsp; left; split; [exact Logic.I|lia]. }
  destruct (tag / 16 =? 6) eqn:T6; [destruct (ts body); try discriminate; inversion Hsp; left; split; [exact Logic.I|lia]|].
  destruct (tag / 16 =? 7) eqn:T7.
  { destruct (8 <? len); [discriminate|]. destruct (resolve_sid _ _); [|discriminate]. inversion Hsp; left; split; [exact Logic.I|lia]. }
  destruct (tag / 16 =? 8) eqn:T8; [destruct (utf8_valid body); [|discriminate]; inversion Hsp; left; split; [exact Logic.I|lia]|].
  destruct (tag / 16 =? 9) eqn:T9; [inversion Hsp; left; split; [exact Logic.I|lia]|].
  destruct (tag / 16 =? 10) eqn:T10; [inversion Hsp; left; split; [exact Logic.I|lia]|].
  right. exists len, r1, body.
  destruct (tag / 16 =? 11) eqn:T11.
  { destruct (sp_items _ _ _) as [vs|] eqn:Ei; [|discriminate]. inversion Hsp; subst. split; [exact HH|]. split; [exact Etk|].
    left. split; [lia|]. exists vs. auto. }
  destruct (tag / 16 =? 12) eqn:T12.
  { destruct (sp_items _ _ _) as [vs|] eqn:Ei; [|discriminate]. inversion Hsp; subst. split; [exact HH|]. split; [exact Etk|].
    right; left. split; [lia|]. exists vs. auto. }
  destruct (tag / 16 =? 13) eqn:T13.
  { destruct (sp_items _ _ _) as [fs|] eqn:Ei; [|discriminate]. inversion Hsp; subst. split; [exact HH|]. split; [exact Etk|].
    right; right; left. split; [lia|]. exists fs. split; [reflexivity|]. first [reflexivity|exact Ei]. }
  destruct (tag / 16 =? 14) eqn:T14; [|discriminate].
  destruct (len <? 3) eqn:E3; [discriminate|].
  destruct (lim_varuint body) as [[alen r2]|] eqn:Ea; [|discriminate].
  destruct (alen =? 0) eqn:Ea0; [discriminate|].
  destruct (take_n alen r2) as [[ab vb]|] eqn:Etk2; [|discriminate].
  destruct (sl_annots ctx (length ab) ab) as [ys|] eqn:Eys; [|discriminate].
  destruct vb as [|vt vr]; [discriminate|].
  destruct (vt / 16 =? 14) eqn:Ev14; [discriminate|].
  destruct (sl_value ts f ctx (vt :: vr)) as [[[x|] [|? ?]]|] eqn:Ex; try discriminate.
  inversion Hsp; subst. split; [exact HH|]. split; [exact Etk|].
  right; right; right. split; [lia|]. split; [lia|].
  exists alen, r2, ab, (vt :: vr), ys, x, vt, vr. repeat split; auto; lia.
Qed.

(* ---- annotation wrappers: the pending Next reads the annotations and goes on to the annotated value -------------------------- *)
Lemma ann3 api tab ctx r f tag r0 len r1 body rest' outer stk fld alen r2 ab vt vr ys x : TC tab ctx ->
  Forall (fun c => c < 256) (tag :: r0) -> tag / 16 = 14 -> HDR tag r0 len r1 -> take_n len r1 = Some (body, rest') ->
  3 <= len -> lim_varuint body = Some (alen, r2) -> alen <> 0 -> take_n alen r2 = Some (ab, vt :: vr) ->
  sl_annots ctx (length ab) ab = Some ys -> vt / 16 <> 14 -> sl_value ts f ctx (vt :: vr) = Some (Some x, []) ->
  PRE3 api tab r (tag :: r0) outer stk fld [] ->
  exists an, AR an ys /\ PRE3 api tab r ((vt :: vr) ++ rest') outer stk fld an /\
             Forall (fun c => c < 256) (vt :: vr) /\ Forall (fun c => c < 256) rest'.
Proof.
  intros HTC Hbytes Ht (Hlo & Hlen & Hs0) Htk H3 Ev Ha0 Etk2 Hys H14 Hsp
    (K & r0' & fuel & b1 & En & He & Hfe & Hl & Hc & Hf & Ha & Hn & Hb1 & Hio1 & T & HK).
  pose proof (Forall_inv Hbytes) as Htag. pose proof (Forall_inv_tail Hbytes) as Hr0.
  destruct (hdr_spec ts tot Htot b1 tag r0 len r1 body rest' outer stk Htag Hr0 ltac:(lia) Hlo ltac:(lia) Hlen Hs0 Htk ltac:(lia) Hb1 T)
    as (b' & E1 & Hb' & Ec & El & Elb & Hbb & Hbr).
  pose proof (ioerr_next _ _ _ (bs_inv _ _ _ _ _ Hb1) E1) as Eio1.
  rewrite <- Hn in E1. rewrite Ht in Ec. change (bitcode_of_high 14) with bcAnnotation in Ec.
  destruct (read_annotations_gen tot Htot ts f tab ctx b' body alen r2 ab vt vr ys x (rest' ++ outer) stk HTC Hbb Ev Ha0 Etk2
              Hys H14 Hsp Hb' El Ec) as (b'' & sids & Er & Hb'' & F2 & Eio2).
  destruct (take_n_spec _ _ _ _ Etk2) as [E2 _].
  destruct (lim_varuint_layout body alen r2 [] Ev Hbb) as (ds & E0 & _).
  assert (Hbvb : Forall (fun c => c < 256) (vt :: vr)).
  { rewrite E0, E2 in Hbb. apply Forall_app in Hbb. destruct Hbb as [_ Hbb]. apply Forall_app in Hbb. apply Hbb. }
  destruct K as [|k]; [cbn [length] in HK; lia|].
  set (an := map (fun id => {| tk_text := lst_find_by_id tab id; tk_sid := Z.of_N id |}) sids).
  exists an. split; [|split; [|split; assumption]].
  - subst an. clear - F2 HTC. induction F2 as [|sid y sids ys Hy _ IH]; cbn [map]; constructor; [|exact IH].
    destruct (resolve_tok tab ctx sid y HTC Hy) as (Etok & Hok & _ & Hn & _). exists sid. split; [|exact Hn].
    unfold tok_by_sid in Etok. rewrite Hok in Etok. inversion Etok as [Q]. rewrite Q. reflexivity.
  - exists k, (rs_annots (rs_bits (rs_bits r0' b') b'') an), fuel, b''.
    split; [rewrite En; apply loop_false; eapply raw_annots; eauto|]. rsimpl.
    repeat (split; [solve [auto]|]). split; [rewrite <- app_assoc; exact Hb''|]. split; [congruence|]. split; [exact T|].
    destruct (take_n_spec _ _ _ _ Htk) as [Er1 _].
    assert (Hlr : (length r1 <= length r0)%nat).
    { destruct ((tag mod 16 =? 14) || (tag / 16 =? 13) && (tag mod 16 =? 1)); [|inversion Hlen; subst; lia].
      destruct (lim_varuint_layout r0 len r1 [] Hlen Hr0) as (ds0 & Q & _). rewrite Q, app_length. lia. }
    rewrite Er1, E0, E2, !app_length in Hlr. cbn [app length] in *. rewrite !app_length in *. cbn [length] in *. lia.
Qed.

(* ---- every value, by induction on the decoder's fuel -------------------------------------------------------------------------- *)
Definition GD (stk : list (N * N)) (v : value) : Prop := stk = [] -> lst_like v = false.
Definition lcost (vs : list value) : nat := fold_right (fun x n => cost x + n)%nat 0%nat vs.
Definition fcost (fs : list (symv * value)) : nat := fold_right (fun p n => cost (snd p) + n)%nat 0%nat fs.
Definition VALP (f : nat) : Prop := forall tab ctx l v rest' outer stk fld fldv r depth acc m,
  TC tab ctx -> FR fld fldv -> BY l -> sl_value ts f ctx l = Some (Some v, rest') -> GD stk v ->
  PRE3 (r_next_inner ts) tab r l outer stk fld [] -> RIO r ->
  exists r' toks, traverse_loop ts (cost v + m) r depth acc = traverse_loop ts m r' depth (rev toks ++ acc) /\
     map proj_tok toks = tsp_value fldv [] v /\ RS tot tab r' rest' outer stk /\ RIO r' /\ BY rest'.
Definition VALA (f : nat) : Prop := forall tab ctx tag r0 v rest' outer stk fld fldv an anv r depth acc m,
  TC tab ctx -> FR fld fldv -> AR an anv -> BY (tag :: r0) -> sl_value ts f ctx (tag :: r0) = Some (Some v, rest') ->
  tag / 16 <> 14 -> lst_guard stk an v -> PRE3 (r_next_inner ts) tab r (tag :: r0) outer stk fld an -> RIO r ->
  exists r' toks, traverse_loop ts (cost v + m) r depth acc = traverse_loop ts m r' depth (rev toks ++ acc) /\
     map proj_tok toks = tsp_value fldv anv v /\ RS tot tab r' rest' outer stk /\ RIO r' /\ BY rest'.

Lemma items_L f : VALP f -> forall k tab ctx l vs, sp_items (sl_value ts f ctx) k l = Some vs -> BY l -> TC tab ctx ->
  forall outer stk r depth acc m, sav stk = bssBeforeValue -> stk <> [] -> PRE2 ts tot (r_next_inner ts) tab r l outer stk -> RIO r ->
  exists r' toks, traverse_loop ts (lcost vs + m) r depth acc = traverse_loop ts m r' depth (rev toks ++ acc) /\
     map proj_tok toks = flat_map (tsp_value None []) vs /\ PRE2 ts tot (r_next_inner ts) tab r' [] outer stk /\ RIO r'.
Proof.
  intros HV. induction k as [|k IH]; intros tab ctx l vs Hs Hb HTC outer stk r depth acc m Hsv Hne P Rio.
  { destruct l; cbn [sp_items] in Hs; inversion Hs; subst. exists r, []. cbn. auto. }
  destruct l as [|tag r0]. { cbn [sp_items] in Hs. inversion Hs; subst. exists r, []. cbn. auto. }
  cbn [sp_items] in Hs. destruct (sl_value ts f ctx (tag :: r0)) as [[[v|] rest']|] eqn:E; [| |discriminate].
  - destruct (sp_items (sl_value ts f ctx) k rest') as [vs'|] eqn:E2; [|discriminate]. inversion Hs; subst vs.
    destruct (HV tab ctx (tag :: r0) v rest' outer stk None None r depth acc (lcost vs' + m)%nat HTC Logic.I Hb E
                ltac:(intros Q; contradiction) (to3 _ _ _ _ _ _ P Hsv) Rio) as (r1 & toks1 & E1 & Ep1 & Rs1 & Rio1 & Hbr).
    destruct (IH tab ctx rest' vs' E2 Hbr HTC outer stk r1 depth (rev toks1 ++ acc) m Hsv Hne
                (RS_PRE2 ts tot _ _ _ _ _ _ Rs1 (proj2 Rio1)) Rio1) as (r' & toks2 & E3 & Ep2 & P' & Rio').
    exists r', (toks1 ++ toks2). split; [|split; [|split; assumption]].
    + cbn [lcost fold_right]. fold (lcost vs'). rewrite <- Nat.add_assoc, E1, E3, rev_app_distr, <- app_assoc. reflexivity.
    + cbn [flat_map]. rewrite map_app, Ep1, Ep2. reflexivity.
  - destruct f as [|f']; [discriminate|].
    destruct (pre2_pad ts Hts tot Htot (r_next_inner ts) tab ctx r f' tag r0 rest' outer stk HTC Hsv Hb E P) as (P1 & Hbr).
    exact (IH tab ctx rest' vs Hs Hbr HTC outer stk r depth acc m Hsv Hne P1 Rio).
Qed.

Lemma items_S f : VALP f -> forall k tab ctx l fs, sp_items (sitem f ctx) k l = Some fs -> BY l -> TC tab ctx ->
  forall outer e stk r depth acc m, PRE2 ts tot (r_next_inner ts) tab r l outer ((bcStruct, e) :: stk) -> RIO r ->
  exists r' toks, traverse_loop ts (fcost fs + m) r depth acc = traverse_loop ts m r' depth (rev toks ++ acc) /\
     map proj_tok toks = flat_map (fun '(n, x) => tsp_value (Some n) [] x) fs /\
     PRE2 ts tot (r_next_inner ts) tab r' [] outer ((bcStruct, e) :: stk) /\ RIO r'.
Proof.
  intros HV. induction k as [|k IH]; intros tab ctx l fs Hs Hb HTC outer e stk r depth acc m P Rio.
  { destruct l; cbn [sp_items] in Hs; inversion Hs; subst. exists r, []. cbn. auto. }
  destruct l as [|c0 l0]. { cbn [sp_items] in Hs. inversion Hs; subst. exists r, []. cbn. auto. }
  set (l := c0 :: l0) in *. cbn [sp_items] in Hs. fold l in Hs. unfold sitem at 1 in Hs.
  destruct (lim_varuint l) as [[sid r1]|] eqn:Ev; [|discriminate].
  destruct (resolve_sid ctx sid) as [y|] eqn:Ey; [|discriminate].
  destruct (field3 (r_next_inner ts) tab ctx r l sid r1 y outer bcStruct e stk HTC eq_refl Hb Ev Ey P) as (P3 & Hb1).
  destruct (resolve_tok tab ctx sid y HTC Ey) as (_ & _ & _ & Hyn & _).
  destruct (sl_value ts f ctx r1) as [[[v|] rest']|] eqn:E; [| |discriminate].
  - destruct (sp_items (sitem f ctx) k rest') as [fs'|] eqn:E2; [|discriminate]. inversion Hs; subst fs.
    destruct (HV tab ctx r1 v rest' outer ((bcStruct, e) :: stk) (Some (tok_of_sym y sid)) (Some y) r depth acc (fcost fs' + m)%nat
                HTC (proj_show_tok y sid Hyn) Hb1 E ltac:(intros Q; discriminate) P3 Rio)
      as (r2 & toks1 & E1 & Ep1 & Rs1 & Rio1 & Hbr).
    destruct (IH tab ctx rest' fs' E2 Hbr HTC outer e stk r2 depth (rev toks1 ++ acc) m
                (RS_PRE2 ts tot _ _ _ _ _ _ Rs1 (proj2 Rio1)) Rio1) as (r' & toks2 & E3 & Ep2 & P' & Rio').
    exists r', (toks1 ++ toks2). split; [|split; [|split; assumption]].
    + cbn [fcost fold_right snd]. fold (fcost fs'). rewrite <- Nat.add_assoc, E1, E3, rev_app_distr, <- app_assoc. reflexivity.
    + cbn [flat_map]. rewrite map_app, Ep1, Ep2. reflexivity.
  - destruct f as [|f']; [discriminate|]. destruct r1 as [|tag r0]; [discriminate|].
    destruct (pad3 (r_next_inner ts) tab ctx r f' tag r0 rest' outer ((bcStruct, e) :: stk) _ HTC ltac:(intros Q; discriminate) Hb1 E P3) as (P1 & Hbr).
    exact (IH tab ctx rest' fs Hs Hbr HTC outer e stk r depth acc m P1 Rio).
Qed.

Lemma vala_step f : VALP f -> VALA (S f).
Proof.
  intros HV tab ctx tag r0 v rest' outer stk fld fldv an anv r depth acc m HTC Hfr Har Hb Hsp H14 Hg P Rio.
  destruct (sl_value_cases f ctx tag r0 v rest' Hsp) as [(Hs & _)|(len & r1 & body & (Hlo & Hlen & Hs0) & Htk & C)].
  { destruct (scalar3 tab ctx r f tag r0 v rest' outer stk fld fldv an anv depth acc m HTC Hfr Har Hg Hb Hsp Hs P Rio)
      as (r' & toks & E1 & Ep & Rs & Rio' & Hbr).
    exists r', toks. replace (cost v) with 1%nat by (destruct v; try destruct Hs; reflexivity). auto. }
  assert (Hgs : tag / 16 = 13 -> stk = [] -> is_ion_symbol_table an = false).
  { intros E13 Es. destruct (is_ion_symbol_table an) eqn:Ei; [|reflexivity]. exfalso.
    destruct C as [(Q & _)|[(Q & _)|[(_ & fs & -> & _)|(Q & _)]]]; try lia. exact (Hg Es Ei). }
  destruct C as [(Et & vs & -> & Hit)|[(Et & vs & -> & Hit)|[(Et & fs & -> & Hit)|(Et & _)]]]; [| | |lia].
  - destruct (open3 tab r tag r0 len r1 body rest' outer stk fld fldv an anv depth acc (lcost vs + S m)%nat Hb ltac:(lia) Hlo Hlen Hs0
                Htk Hfr Har Hgs P Rio) as (r2 & e & toks1 & E1 & Ep1 & Rs2 & Rio2 & T & Hbb & Hbr).
    rewrite Et in Rs2. change (bitcode_of_high 11) with bcList in Rs2.
    destruct (items_L f HV (length body) tab ctx body vs Hit Hbb HTC (rest' ++ outer) ((bcList, e) :: stk) r2 (S depth)
                (rev toks1 ++ acc) (S m) eq_refl ltac:(discriminate) (RS_PRE2 ts tot _ _ _ _ _ _ Rs2 (proj2 Rio2)) Rio2)
      as (r3 & toks2 & E2 & Ep2 & P3 & Rio3).
    destruct (close2 tab r3 bcList e stk rest' outer depth (rev toks2 ++ rev toks1 ++ acc) m P3 T Rio3) as (r4 & E3 & Rs4 & Rio4).
    exists r4, (toks1 ++ toks2 ++ [[70]; s "ok"%string]). split; [|split; [|split; [exact Rs4|split; assumption]]].
    + cbn [cost]. fold (lcost vs). replace (2 + lcost vs + m)%nat with (S (lcost vs + S m)) by lia.
      rewrite E1, E2, E3. rewrite !rev_app_distr. cbn [rev app]. rewrite <- !app_assoc. reflexivity.
    + rewrite !map_app, Ep1, Ep2, Et. cbn [tsp_value]. rewrite <- !app_assoc. reflexivity.
  - destruct (open3 tab r tag r0 len r1 body rest' outer stk fld fldv an anv depth acc (lcost vs + S m)%nat Hb ltac:(lia) Hlo Hlen Hs0
                Htk Hfr Har Hgs P Rio) as (r2 & e & toks1 & E1 & Ep1 & Rs2 & Rio2 & T & Hbb & Hbr).
    rewrite Et in Rs2. change (bitcode_of_high 12) with bcSexp in Rs2.
    destruct (items_L f HV (length body) tab ctx body vs Hit Hbb HTC (rest' ++ outer) ((bcSexp, e) :: stk) r2 (S depth)
                (rev toks1 ++ acc) (S m) eq_refl ltac:(discriminate) (RS_PRE2 ts tot _ _ _ _ _ _ Rs2 (proj2 Rio2)) Rio2)
      as (r3 & toks2 & E2 & Ep2 & P3 & Rio3).
    destruct (close2 tab r3 bcSexp e stk rest' outer depth (rev toks2 ++ rev toks1 ++ acc) m P3 T Rio3) as (r4 & E3 & Rs4 & Rio4).
    exists r4, (toks1 ++ toks2 ++ [[70]; s "ok"%string]). split; [|split; [|split; [exact Rs4|split; assumption]]].
    + cbn [cost]. fold (lcost vs). replace (2 + lcost vs + m)%nat with (S (lcost vs + S m)) by lia.
      rewrite E1, E2, E3. rewrite !rev_app_distr. cbn [rev app]. rewrite <- !app_assoc. reflexivity.
    + rewrite !map_app, Ep1, Ep2, Et. cbn [tsp_value]. rewrite <- !app_assoc. reflexivity.
  - destruct (open3 tab r tag r0 len r1 body rest' outer stk fld fldv an anv depth acc (fcost fs + S m)%nat Hb ltac:(lia) Hlo Hlen Hs0
                Htk Hfr Har Hgs P Rio) as (r2 & e & toks1 & E1 & Ep1 & Rs2 & Rio2 & T & Hbb & Hbr).
    rewrite Et in Rs2. change (bitcode_of_high 13) with bcStruct in Rs2.
    destruct (items_S f HV (length body) tab ctx body fs Hit Hbb HTC (rest' ++ outer) e stk r2 (S depth)
                (rev toks1 ++ acc) (S m) (RS_PRE2 ts tot _ _ _ _ _ _ Rs2 (proj2 Rio2)) Rio2)
      as (r3 & toks2 & E2 & Ep2 & P3 & Rio3).
    destruct (close2 tab r3 bcStruct e stk rest' outer depth (rev toks2 ++ rev toks1 ++ acc) m P3 T Rio3) as (r4 & E3 & Rs4 & Rio4).
    exists r4, (toks1 ++ toks2 ++ [[70]; s "ok"%string]). split; [|split; [|split; [exact Rs4|split; assumption]]].
    + cbn [cost]. fold (fcost fs). replace (2 + fcost fs + m)%nat with (S (fcost fs + S m)) by lia.
      rewrite E1, E2, E3. rewrite !rev_app_distr. cbn [rev app]. rewrite <- !app_assoc. reflexivity.
    + rewrite !map_app, Ep1, Ep2, Et. cbn [tsp_value]. rewrite <- !app_assoc. reflexivity.
Qed.

Lemma valp_step f : VALA f -> VALA (S f) -> VALP (S f).
Proof.
  intros HA HA1 tab ctx l v rest' outer stk fld fldv r depth acc m HTC Hfr Hb Hsp Hg P Rio.
  destruct l as [|tag r0]; [discriminate|].
  destruct (tag / 16 =? 14) eqn:E14.
  2:{ apply (HA1 tab ctx tag r0 v rest' outer stk fld fldv [] [] r depth acc m HTC Hfr AR_nil Hb Hsp ltac:(lia)); auto.
      intros _ Q. discriminate. }
  destruct (sl_value_cases f ctx tag r0 v rest' Hsp) as [(_ & Q)|(len & r1 & body & HH & Htk & C)]; [lia|].
  destruct C as [(Q & _)|[(Q & _)|[(Q & _)|(_ & H3 & alen & r2 & ab & vb & ys & x & vt & vr & Ev & Ha0 & Etk2 & Hys & -> & Hvt & Hx & ->)]]];
    try lia.
  destruct (ann3 (r_next_inner ts) tab ctx r f tag r0 len r1 body rest' outer stk fld alen r2 ab vt vr ys x HTC Hb ltac:(lia) HH Htk H3 Ev Ha0 Etk2
              Hys Hvt Hx P) as (an & Har & P3 & Hbvb & Hbr).
  pose proof (sl_value_app ts rest' _ _ _ _ _ Hx) as Hx'. cbn [app] in Hx', P3.
  assert (Hbl : BY (vt :: vr ++ rest')).
  { change (vt :: vr ++ rest') with ((vt :: vr) ++ rest'). apply Forall_app. split; assumption. }
  apply (HA tab ctx vt (vr ++ rest') x rest' outer stk fld fldv an ys r depth acc m HTC Hfr Har Hbl Hx' Hvt); auto.
  intros Es Ei. specialize (Hg Es). rewrite (AR_ist _ _ Har) in Ei. cbn [lst_like] in Hg.
  destruct ys as [|[t|n] ys']; try discriminate. rewrite Ei in Hg.
  destruct x; try exact Logic.I; try discriminate. intros Q. rewrite Q in Hg. discriminate.
Qed.

Lemma val_all : forall f, VALP f /\ VALA f.
Proof.
  induction f as [|f [IHP IHA]].
  - split; intros tab ctx; intros; discriminate.
  - pose proof (vala_step f IHP) as HA1. split; [exact (valp_step f IHA HA1)|exact HA1].
Qed.
End Cont.
