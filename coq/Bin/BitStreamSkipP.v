(* BitStreamSkipP.v — skipping a value and reading it leave the cursor in the same place;
   StepOut lands on the container's end offset whatever was done inside (C08). *)
From Coq Require Import String List NArith ZArith Bool Lia ZifyBool ZifyN ZifyNat.
From IonV Require Import Base.Wire Base.Utf8 Bin.Bits Data.Ion Num.Float Bin.BitStream Bin.BitStreamP Bin.BitStreamNextP.
Import ListNotations.
Open Scope N_scope.
Ltac Zify.zify_post_hook ::= Z.div_mod_to_equations.

Ltac bsimpl :=
  cbn [b_in b_ioerr b_pos b_state b_stack b_code b_null b_len b_alloc b_avail b_fuel
       upd_in upd_state upd_stack upd_cur upd_alloc b_clear done_value fst snd] in *.

(* everything the cursor consists of, except the allocation high-water mark *)
Definition same_cursor (b1 b2 : bstate) : Prop :=
  b_in b1 = b_in b2 /\ b_pos b1 = b_pos b2 /\ b_avail b1 = b_avail b2 /\ b_state b1 = b_state b2 /\
  b_stack b1 = b_stack b2 /\ b_code b1 = b_code b2 /\ b_null b1 = b_null b2 /\ b_len b1 = b_len b2.

(* "consumed exactly the current value's body, then finished the value" *)
Definition took_value (b b' : bstate) : Prop :=
  exists b1, adv (b_len b) b b1 /\ b' = done_value b1.

Lemma took_same b b1 b2 : took_value b b1 -> took_value b b2 -> same_cursor b1 b2.
Proof.
  intros (x1 & A1 & E1) (x2 & A2 & E2). subst.
  destruct (adv_same _ _ _ _ A1 A2) as (H1 & H2 & H3 & H4 & H5 & H6 & H7 & H8).
  unfold same_cursor, done_value, state_after_value, stack_peek. bsimpl. rewrite H5.
  repeat split; assumption || reflexivity.
Qed.

Lemma skip_took b b' u : avail_ok b -> b_pos b < two64 -> b_state b = bssOnValue ->
  b_skip_value b = (b', Ok u) -> took_value b b'.
Proof.
  intros A P Ev. unfold b_skip_value. rewrite Ev. cbn [N.eqb bssOnValue bssBeforeFieldID bssBeforeValue bssOnFieldID Pos.eqb orb].
  destruct (0 <? b_len b) eqn:E0.
  - destruct (b_skip b (b_len b)) as [b1 [u1| | |]] eqn:E; intros H; inversion H; subst.
    destruct (b_skip_ok _ _ _ _ A E) as [Ad _]. exists b1. split; [exact Ad|reflexivity].
  - intros H. inversion H; subst. exists b. split; [|reflexivity].
    replace (b_len b) with 0 by lia. apply adv_refl. exact P.
Qed.

Lemma readN_took b b1 bs : avail_ok b -> b_pos b < two64 -> b_readN b (b_len b) = (b1, Ok bs) ->
  took_value b (done_value b1).
Proof. intros A P E. destruct (b_readN_ok _ _ _ _ A P E) as [Ad _]. exists b1. split; [exact Ad|reflexivity]. Qed.

Section Reads.
Variable b : bstate.
Hypothesis A : avail_ok b.
Hypothesis P : b_pos b < two64.

Lemma read_int_took b' v : b_read_int b = (b', Ok v) -> took_value b b'.
Proof.
  unfold b_read_int. destruct (negb _); [discriminate|].
  destruct (b_readN b (b_len b)) as [b1 [bs| | |]] eqn:E; try discriminate.
  match goal with |- context [let '(v, is_zero) := ?X in _] => destruct X as [v0 iz] end.
  destruct (iz && _); [discriminate|]. intros H. inversion H; subst. eapply readN_took; eauto.
Qed.
Lemma read_float_took b' v : b_read_float b = (b', Ok v) -> took_value b b'.
Proof.
  unfold b_read_float. destruct (negb _); [discriminate|].
  destruct (b_readN b (b_len b)) as [b1 [bs| | |]] eqn:E; try discriminate.
  destruct (length bs) as [|[|[|[|[|[|[|[|[|n]]]]]]]]]; try discriminate;
    intros H; inversion H; subst; eapply readN_took; eauto.
Qed.
Lemma read_symbol_took b' v : b_read_symbol_id b = (b', Ok v) -> took_value b b'.
Proof.
  unfold b_read_symbol_id. destruct (negb _); [discriminate|]. destruct (8 <? b_len b); [discriminate|].
  destruct (b_readN b (b_len b)) as [b1 [bs| | |]] eqn:E; try discriminate.
  intros H. inversion H; subst. eapply readN_took; eauto.
Qed.
Lemma read_string_took b' v : b_read_string b = (b', Ok v) -> took_value b b'.
Proof.
  unfold b_read_string. destruct (negb _); [discriminate|].
  destruct (b_readN b (b_len b)) as [b1 [bs| | |]] eqn:E; try discriminate.
  destruct (utf8_valid bs); [|discriminate]. intros H. inversion H; subst. eapply readN_took; eauto.
Qed.
Lemma read_bytes_took b' v : b_read_bytes b = (b', Ok v) -> took_value b b'.
Proof.
  unfold b_read_bytes. destruct (negb _); [discriminate|].
  destruct (b_readN b (b_len b)) as [b1 [bs| | |]] eqn:E; try discriminate.
  intros H. inversion H; subst. eapply readN_took; eauto.
Qed.
Lemma read_timestamp_took ts b' v : b_read_timestamp b ts = (b', Ok v) -> took_value b b'.
Proof.
  unfold b_read_timestamp. destruct (negb _); [discriminate|].
  destruct (b_readN b (b_len b)) as [b1 [bs| | |]] eqn:E; try discriminate.
  destruct (ts bs); try discriminate. intros H. inversion H; subst. eapply readN_took; eauto.
Qed.
Lemma read_decimal_took b' v : b_len b < two64 -> b_read_decimal b = (b', Ok v) -> took_value b b'.
Proof.
  intros Hn. unfold b_read_decimal. destruct (negb _); [discriminate|].
  destruct (b_read_decimal_len_spec b (b_len b) A P Hn) as [(_ & _ & Post) _].
  destruct (b_read_decimal_len b (b_len b)) as [b1 [d| | |]] eqn:E; try discriminate.
  intros H. inversion H; subst. exists b1. split; [exact (Post _ eq_refl)|reflexivity].
Qed.
End Reads.

(* ---- StepOut lands on the end offset ------------------------------------------------------------------- *)
(* b' is reachable from b by successful operations that never leave the container(s) [base] *)
Inductive inside (base : list (N * N)) : bstate -> bstate -> Prop :=
| inside_refl b : inside base b b
| inside_step b b1 b2 : inside base b b1 -> opost b1 b2 ->
    (exists pre, b_stack b1 = pre ++ base) -> (exists pre, b_stack b2 = pre ++ base) -> inside base b b2.

Lemma stk_ok_base pre c e rest : forall lo, stk_ok lo (pre ++ (c, e) :: rest) ->
  lo <= e /\ e < two64 /\ match pre ++ (c, e) :: rest with (_, e1) :: _ => e1 <= e | [] => True end.
Proof.
  induction pre as [|[c1 e1] pre IH]; intros lo H; cbn [app stk_ok] in *.
  - destruct H as (H1 & H2 & _). split; [exact H1|split; [exact H2|lia]].
  - destruct H as (H1 & H2 & H3). destruct (IH e1 H3) as (I1 & I2 & _). split; [lia|split; [exact I2|exact I1]].
Qed.

Lemma inside_pos c e rest b b' : binv b -> (exists pre, b_stack b = pre ++ (c, e) :: rest) ->
  inside ((c, e) :: rest) b b' ->
  binv b' /\ exists K, moved K b b' /\ b_pos b' = b_pos b + K /\ b_pos b' <= e.
Proof.
  intros I (pre0 & Es0) H. induction H as [b|b b1 b2 H IH O (pre1 & Es1) (pre2 & Es2)].
  - split; [exact I|]. exists 0. destruct I as ((_ & _ & P & Sk) & _). split; [apply moved_refl; exact P|].
    split; [lia|]. rewrite Es0 in Sk. apply stk_ok_base in Sk. lia.
  - destruct (IH I Es0) as (I1 & K & M & Pk & Le). destruct O as (I2 & k & M2 & R2).
    split; [exact I2|]. exists (K + k). split; [eapply moved_trans; eauto|].
    destruct I1 as ((_ & _ & P1 & Sk1) & _). rewrite Es1 in Sk1. apply stk_ok_base in Sk1.
    unfold room in R2. rewrite Es1 in R2. destruct Sk1 as (S1 & S2 & S3).
    assert (Hk : b_pos b1 + k <= e).
    { revert R2 S3. destruct (pre1 ++ (c, e) :: rest) as [|[c1 e1] tl] eqn:Ep; [destruct pre1; discriminate Ep|]. lia. }
    rewrite (mv_pos _ _ _ M2). unfold wrap64, two64 in *. lia.
Qed.

Theorem step_out_lands c e rest b b' b'' u : binv b -> b_stack b = (c, e) :: rest ->
  inside ((c, e) :: rest) b b' -> b_stack b' = (c, e) :: rest -> b_step_out b' = (b'', Ok u) ->
  b_pos b'' = e /\ b_stack b'' = rest /\ b_in b'' = skipn (N.to_nat (e - b_pos b)) (b_in b) /\
  b_avail b'' = b_avail b - (e - b_pos b).
Proof.
  intros I Es H Es' Eo.
  destruct (inside_pos c e rest b b' I (ex_intro _ [] Es) H) as (I' & K & M & Pk & Le).
  destruct (b_step_out_spec b' c e rest I' Es') as [(_ & _ & Post) _]. rewrite Eo in Post. cbn [fst snd] in Post.
  destruct (Post u eq_refl) as ((_ & k & M2 & R2) & _ & Sk & _ & Pe).
  split; [exact Pe|]. split; [exact Sk|]. unfold room in R2. rewrite Es' in R2.
  destruct I' as ((_ & _ & P' & _) & _).
  assert (Ek : k = e - b_pos b').
  { pose proof (mv_pos _ _ _ M2) as Hp. rewrite Pe in Hp. unfold wrap64, two64 in *. lia. }
  pose proof (moved_trans _ _ _ _ _ M M2) as M3. replace (K + k) with (e - b_pos b) in M3 by lia.
  split; [exact (mv_in _ _ _ M3)|exact (mv_avail _ _ _ M3)].
Qed.

(* the operations are steps of [inside] *)
Lemma inside_next base b b1 b2 u : inside base b b1 -> binv b1 -> (exists pre, b_stack b1 = pre ++ base) ->
  b_next b1 = (b2, Ok u) -> inside base b b2 /\ binv b2 /\ b_stack b2 = b_stack b1.
Proof.
  intros H I Es E. destruct (b_next_spec b1 I) as [(_ & _ & Post) _]. rewrite E in Post. cbn [fst snd] in Post.
  destruct (Post u eq_refl) as (O & Sk & _). split; [|split; [apply O|exact Sk]].
  eapply inside_step; eauto. rewrite Sk. exact Es.
Qed.
Lemma inside_value base b b1 b2 : inside base b b1 -> (exists pre, b_stack b1 = pre ++ base) ->
  vpost b1 b2 -> inside base b b2 /\ binv b2 /\ b_stack b2 = b_stack b1.
Proof.
  intros H Es (O & _ & Sk & _). split; [|split; [apply O|exact Sk]].
  eapply inside_step; eauto. rewrite Sk. exact Es.
Qed.
Lemma inside_skip base b b1 b2 u : inside base b b1 -> binv b1 -> (exists pre, b_stack b1 = pre ++ base) ->
  b_skip_value b1 = (b2, Ok u) -> inside base b b2 /\ binv b2 /\ b_stack b2 = b_stack b1.
Proof.
  intros H I Es E. destruct (b_skip_value_spec b1 I) as [(_ & _ & Post) _]. rewrite E in Post. cbn [fst snd] in Post.
  apply inside_value; auto. exact (Post u eq_refl).
Qed.
Lemma inside_step_in base b b1 b2 u : inside base b b1 -> binv b1 -> (exists pre, b_stack b1 = pre ++ base) ->
  b_state b1 = bssOnValue -> is_container_code (b_code b1) ->
  b_step_in b1 = (b2, Ok u) ->
  inside base b b2 /\ binv b2 /\ b_stack b2 = (b_code b1, b_pos b1 + b_len b1) :: b_stack b1.
Proof.
  intros H I (pre & Es) Ev Hc E. destruct (b_step_in_spec b1 I Ev Hc) as [(_ & _ & Post) _]. rewrite E in Post.
  cbn [fst snd] in Post. destruct (Post u eq_refl) as (O & _ & Sk & _). split; [|split; [apply O|exact Sk]].
  eapply inside_step; eauto. exists ((b_code b1, b_pos b1 + b_len b1) :: pre). rewrite Sk, Es. reflexivity.
Qed.
Lemma inside_step_out base b b1 b2 u x pre : inside base b b1 -> binv b1 -> b_stack b1 = (x :: pre) ++ base ->
  b_step_out b1 = (b2, Ok u) -> inside base b b2 /\ binv b2 /\ b_stack b2 = pre ++ base.
Proof.
  intros H I Es E. destruct x as [c e]. cbn [app] in Es.
  destruct (b_step_out_spec b1 c e (pre ++ base) I Es) as [(_ & _ & Post) _]. rewrite E in Post.
  cbn [fst snd] in Post. destruct (Post u eq_refl) as (O & _ & Sk & _). split; [|split; [apply O|exact Sk]].
  eapply inside_step; eauto. exists ((c, e) :: pre). exact Es.
Qed.
