(* SpecAgreeTabP.v — the reader's symbol tables against the specification's symbol contexts: the tables that
   arise without a catalog (the system table, placeholder imports, local symbols, possibly appended several
   times), and the fields of a table struct / of an import struct as readLocalSymbolTable folds them, against
   SpecBin's apply_lst / import_slots. *)
From Coq Require Import String List NArith ZArith Bool Lia ZifyBool ZifyN ZifyNat.
From IonV Require Import Base.Wire Base.Utf8 Bin.Bits Bin.BitsP Data.Ion Num.Float Bin.BitStream Bin.BinReader
  Bin.BitStreamP Bin.BitStreamNextP Bin.BinWriter Bin.SpecBin Bin.RoundTripBin Bin.RoundTripBinS Bin.BitEvalP
  Bin.ReaderTrace Bin.ReaderTraceP Bin.ReaderTopP Bin.SpecLim Bin.SpecLimP Bin.SpecAgreeP.
Import ListNotations.
Open Scope N_scope.
Ltac Zify.zify_post_hook ::= Z.div_mod_to_equations.

Definition ist_text : text := s "$ion_symbol_table"%string.
(* the imports of a table read without a catalog: earlier local symbols (after an append) or placeholders *)
Inductive isg := IL (l : list text) | IG (m : N).
Definition imp_of (g : isg) : imp :=
  match g with IL l => {| im_syms := l; im_maxid := N.of_nat (length l) |} | IG m => {| im_syms := []; im_maxid := m |} end.
Definition seg_of (g : isg) : seg := match g with IL l => Slots (map Some l) | IG m => Gap m end.
Definition isz (g : isg) : N := match g with IL l => N.of_nat (length l) | IG m => m end.
Definition isize (Is : list isg) : N := fold_right (fun g a => isz g + a) 0 Is.
Definition loc_imp (l : list text) : imp := imp_of (IL l).
Definition TS (Is : list isg) (L : list text) : rlst :=
  LTab {| lt_imps := sys_imp :: map imp_of Is; lt_locals := L |}.
Definition CX (Is : list isg) (L : list text) : symctx := system_ctx ++ map seg_of Is ++ [Slots (map Some L)].
Definition INV (tab : rlst) (ctx : symctx) : Prop :=
  (tab = LSys /\ ctx = system_ctx) \/ exists Is L, tab = TS Is L /\ ctx = CX Is L.
Definition SYS3 (ctx : symctx) : Prop := ctx_slot ctx 2 = Some (Some ist_text).

Lemma inv_sys3 tab ctx : INV tab ctx -> SYS3 ctx.
Proof. intros [[_ ->]|(Is & L & _ & ->)]; reflexivity. Qed.

Lemma seg_of_size g : seg_size (seg_of g) = isz g.
Proof. destruct g; cbn [seg_of seg_size isz]; [rewrite map_length|]; reflexivity. Qed.
Lemma ctx_size_app a b : ctx_size (a ++ b) = ctx_size a + ctx_size b.
Proof. induction a as [|g a IH]; cbn [app ctx_size fold_right]; [reflexivity|]. fold (ctx_size (a ++ b)) (ctx_size a). lia. Qed.
Lemma ctx_size_segs Is : ctx_size (map seg_of Is) = isize Is.
Proof.
  induction Is as [|g Is IH]; [reflexivity|]. cbn [map ctx_size fold_right isize]. fold (ctx_size (map seg_of Is)) (isize Is).
  rewrite seg_of_size, IH. reflexivity.
Qed.
Lemma ctx_size_CX Is L : ctx_size (CX Is L) = 9 + isize Is + N.of_nat (length L).
Proof.
  unfold CX. rewrite !ctx_size_app, ctx_size_segs. cbn [system_ctx ctx_size fold_right seg_size].
  rewrite !map_length, system_len. lia.
Qed.
Lemma ctx_slot_app1 : forall a b i, i < ctx_size a -> ctx_slot (a ++ b) i = ctx_slot a i.
Proof.
  induction a as [|g a IH]; intros b i; cbn [app ctx_size fold_right ctx_slot]; [lia|]. fold (ctx_size a).
  intros H. destruct (i <? seg_size g) eqn:E; [reflexivity|]. apply IH. lia.
Qed.
Lemma ctx_slot_app2 : forall a b i, ctx_size a <= i -> ctx_slot (a ++ b) i = ctx_slot b (i - ctx_size a).
Proof.
  induction a as [|g a IH]; intros b i; cbn [app ctx_size fold_right ctx_slot]; [intros _; f_equal; lia|]. fold (ctx_size a).
  intros H. replace (i <? seg_size g) with false by lia. rewrite IH by lia. f_equal. lia.
Qed.

Lemma max_import_segs Is : forall a, a + isize Is < two64 ->
  fold_left (fun a i => wrap64 (a + im_maxid i)) (map imp_of Is) a = a + isize Is.
Proof.
  induction Is as [|g Is IH]; intros a Ha; cbn [map fold_left isize fold_right] in *; [lia|]. fold (isize Is) in *.
  replace (im_maxid (imp_of g)) with (isz g) by (destruct g; reflexivity).
  rewrite wrap_small by lia. rewrite IH by lia. lia.
Qed.

Definition txt (o : option (option text)) : option text := match o with Some (Some t) => Some t | _ => None end.

Lemma imp_find_seg g k : 1 <= k -> k <= isz g -> imp_find_by_id (imp_of g) k = txt (ctx_slot [seg_of g] (k - 1)).
Proof.
  intros H1 H2. unfold imp_find_by_id. cbn [ctx_slot]. rewrite seg_of_size. replace (k - 1 <? isz g) with true by lia.
  destruct g as [l|m]; cbn [imp_of im_syms seg_of isz] in *.
  - replace ((k =? 0) || (N.of_nat (length l) <? k)) with false by lia. rewrite nth_error_map.
    destruct (nth_error l (N.to_nat (k - 1))); reflexivity.
  - cbn [length]. replace ((k =? 0) || (N.of_nat 0 <? k)) with true by lia. reflexivity.
Qed.

Lemma fii Is : forall p off id, off < id -> id <= off + isz p + isize Is -> off + isz p + isize Is < two63 ->
  find_in_imports (imp_of p) (map imp_of Is) off (off + isz p) id = txt (ctx_slot (map seg_of (p :: Is)) (id - off - 1)).
Proof.
  induction Is as [|g Is IH]; intros p off id Hlo Hhi Hsz; cbn [map find_in_imports isize fold_right] in *.
  - rewrite wrap_sub by (unfold two63, two64 in *; lia). rewrite imp_find_seg by lia. reflexivity.
  - fold (isize Is) in *. destruct (id <=? off + isz p) eqn:E.
    + rewrite wrap_sub by (unfold two63, two64 in *; lia). rewrite imp_find_seg by lia.
      cbn [ctx_slot]. rewrite seg_of_size. replace (id - off - 1 <? isz p) with true by lia.
      reflexivity.
    + replace (im_maxid (imp_of g)) with (isz g) by (destruct g; reflexivity).
      rewrite wrap_small by (unfold two63, two64 in *; lia).
      rewrite (IH g (off + isz p) id) by lia.
      cbn [map ctx_slot]. rewrite (seg_of_size p). replace (id - off - 1 <? isz p) with false by lia.
      replace (id - (off + isz p) - 1) with (id - off - 1 - isz p) by lia. reflexivity.
Qed.

Lemma inv_tc tab ctx : INV tab ctx -> ctx_size ctx < two63 -> TC tab ctx.
Proof.
  intros [[-> ->]|(Is & L & -> & ->)] Hsz; [apply TC_sys|].
  pose proof (ctx_size_CX Is L) as Esz. rewrite Esz in Hsz.
  assert (Emx : max_import_id (sys_imp :: map imp_of Is) = 9 + isize Is).
  { unfold max_import_id. cbn [fold_left]. change (wrap64 (0 + im_maxid sys_imp)) with 9.
    apply max_import_segs. unfold two63, two64 in *. lia. }
  split; [rewrite Esz; exact Hsz|]. split.
  - unfold TS, lst_max_id. cbn [lt_imps lt_locals]. rewrite Emx, wrap_small by (unfold two63, two64 in *; lia). lia.
  - intros sid. unfold TS, lst_find_by_id. cbn [lt_imps lt_locals]. rewrite Emx.
    destruct (sid =? 0) eqn:E0; [reflexivity|].
    assert (Esys : ctx_size (system_ctx ++ map seg_of Is) = 9 + isize Is).
    { rewrite ctx_size_app, ctx_size_segs. reflexivity. }
    unfold CX. rewrite app_assoc.
    destruct (sid <=? 9 + isize Is) eqn:E1.
    + change sys_imp with (imp_of (IL system_symbols)). change (wrap64 (0 + im_maxid (imp_of (IL system_symbols)))) with (0 + isz (IL system_symbols)).
      rewrite (fii Is (IL system_symbols) 0 sid) by (cbn [isz]; rewrite ?system_len; unfold two63 in *; lia).
      rewrite ctx_slot_app1 by (rewrite Esys; lia). unfold txt. replace (sid - 0 - 1) with (sid - 1) by lia. reflexivity.
    + rewrite ctx_slot_app2 by (rewrite Esys; lia). rewrite Esys. cbn [ctx_slot seg_size]. rewrite map_length.
      replace (sid - 1 - (9 + isize Is)) with (sid - (9 + isize Is) - 1) by lia.
      destruct (sid - (9 + isize Is) - 1 <? N.of_nat (length L)) eqn:E2; [|reflexivity].
      rewrite nth_error_map. destruct (nth_error L _); reflexivity.
Qed.

(* ---- one import struct, as the reader folds its fields ----------------------------------------------------------------------- *)
Definition int32 (z : Z) : bool := (-2147483648 <=? z)%Z && (z <=? 2147483647)%Z.
Definition int64 (z : Z) : bool := (-9223372036854775808 <=? z)%Z && (z <=? 9223372036854775807)%Z.
Fixpoint rd_fold (fs : list (symv * value)) (d : impdecl) : option impdecl :=
  match fs with
  | [] => Some d
  | (SymSid _, _) :: _ => None
  | (SymText t, v) :: r =>
    if list_eqb t (s "name"%string) then
      match strip_ann v with
      | VString nm => rd_fold r {| id_name := nm; id_version := id_version d; id_maxid := id_maxid d |}
      | _ => rd_fold r d
      end
    else if list_eqb t (s "version"%string) then
      match strip_ann v with
      | VInt z => if int32 z then rd_fold r {| id_name := id_name d; id_version := z; id_maxid := id_maxid d |} else None
      | _ => rd_fold r d
      end
    else if list_eqb t (s "max_id"%string) then
      match strip_ann v with
      | VInt z => if int64 z then rd_fold r {| id_name := id_name d; id_version := id_version d; id_maxid := z |} else None
      | VNull ty => if ty =? TInt then None else rd_fold r d
      | _ => rd_fold r d
      end
    else rd_fold r d
  end.
Definition d0 : impdecl := {| id_name := []; id_version := (-1)%Z; id_maxid := (-1)%Z |}.
(* None = error; Some None = not an import / ignored *)
Definition rd_import (x : value) : option (option imp) :=
  match x with
  | VStruct fs =>
    match rd_fold fs d0 with
    | None => None
    | Some d =>
      if list_eqb (id_name d) [] || list_eqb (id_name d) (s "$ion"%string) then Some None
      else if (id_maxid d <? 0)%Z then None
      else Some (Some {| im_syms := []; im_maxid := Z.to_N (id_maxid d) |})
    end
  | _ => Some None
  end.
Fixpoint rd_imports (es : list value) (acc : list imp) : option (list imp) :=
  match es with
  | [] => Some acc
  | el :: r => match rd_import (strip_ann el) with
               | None => None
               | Some None => rd_imports r acc
               | Some (Some i) => rd_imports r (acc ++ [i])
               end
  end.

Lemma find_none fs name : count_field fs name = 0%nat -> find_field fs name = None.
Proof.
  induction fs as [|[y' v'] fs IH]; [reflexivity|]. unfold count_field. cbn [filter fst find_field].
  destruct (field_is y' name); [discriminate|exact IH].
Qed.

Lemma rd_fold_find : forall fs d, names_known fs = true ->
  (count_field fs "name" <= 1)%nat -> (count_field fs "version" <= 1)%nat -> (count_field fs "max_id" <= 1)%nat ->
  int_within (find_field fs "version") (-2147483648) 2147483647 = true ->
  int_within (find_field fs "max_id") (-9223372036854775808) 9223372036854775807 = true ->
  match option_map strip_ann (find_field fs "max_id") with Some (VNull t) => t =? TInt | _ => false end = false ->
  exists d', rd_fold fs d = Some d' /\
    id_name d' = match option_map strip_ann (find_field fs "name") with Some (VString nm) => nm | _ => id_name d end /\
    id_maxid d' = match option_map strip_ann (find_field fs "max_id") with Some (VInt z) => z | _ => id_maxid d end.
Proof.
  induction fs as [|[y v] fs IH]; intros d Hn Hc1 Hc2 Hc3 Hv Hm Hnl; [exists d; auto|].
  unfold names_known in Hn. cbn [forallb fst] in Hn. destruct y as [t|m]; [|discriminate]. fold (names_known fs) in Hn.
  unfold count_field in Hc1, Hc2, Hc3. cbn [filter fst field_is] in Hc1, Hc2, Hc3.
  cbn [rd_fold find_field field_is] in *.
  destruct (list_eqb t (s "name"%string)) eqn:E1.
  - assert (E2 : list_eqb t (s "version"%string) = false) by (rewrite (list_eqb_true _ _ E1); reflexivity).
    assert (E3 : list_eqb t (s "max_id"%string) = false) by (rewrite (list_eqb_true _ _ E1); reflexivity).
    rewrite E2, E3 in *. cbn [length] in Hc1.
    fold (count_field fs "name") in Hc1. fold (count_field fs "version") in Hc2. fold (count_field fs "max_id") in Hc3.
    assert (Hno : find_field fs "name" = None) by (apply find_none; lia).
    cbn [option_map].
    destruct (strip_ann v); try solve [destruct (IH d Hn ltac:(lia) Hc2 Hc3 Hv Hm Hnl) as (d' & Q1 & Q2 & Q3); exists d';
                                 rewrite Hno in Q2; cbn [option_map] in Q2; auto].
    destruct (IH {| id_name := t0; id_version := id_version d; id_maxid := id_maxid d |} Hn ltac:(lia) Hc2 Hc3 Hv Hm Hnl) as (d' & Q1 & Q2 & Q3).
    exists d'. rewrite Hno in Q2. cbn [option_map id_name id_maxid] in Q2, Q3. auto.
  - destruct (list_eqb t (s "version"%string)) eqn:E2.
    + assert (E3 : list_eqb t (s "max_id"%string) = false) by (rewrite (list_eqb_true _ _ E2); reflexivity).
      rewrite E3 in *. cbn [length] in Hc2.
      fold (count_field fs "name") in Hc1. fold (count_field fs "version") in Hc2. fold (count_field fs "max_id") in Hc3.
      assert (Hno : find_field fs "version" = None) by (apply find_none; lia).
      assert (Hv' : int_within (find_field fs "version") (-2147483648) 2147483647 = true) by (rewrite Hno; reflexivity).
      unfold int_within in Hv. cbn [option_map] in Hv.
      destruct (strip_ann v); try solve [apply (IH d Hn Hc1 ltac:(lia) Hc3 Hv' Hm Hnl)].
      unfold int32. rewrite Hv.
      destruct (IH {| id_name := id_name d; id_version := z; id_maxid := id_maxid d |} Hn Hc1 ltac:(lia) Hc3 Hv' Hm Hnl) as (d' & Q1 & Q2 & Q3).
      exists d'. auto.
    + destruct (list_eqb t (s "max_id"%string)) eqn:E3.
      * cbn [length] in Hc3.
        fold (count_field fs "name") in Hc1. fold (count_field fs "version") in Hc2. fold (count_field fs "max_id") in Hc3.
        assert (Hno : find_field fs "max_id" = None) by (apply find_none; lia).
        assert (Hm' : int_within (find_field fs "max_id") (-9223372036854775808) 9223372036854775807 = true) by (rewrite Hno; reflexivity).
        assert (Hnl' : match option_map strip_ann (find_field fs "max_id") with Some (VNull t) => t =? TInt | _ => false end = false)
          by (rewrite Hno; reflexivity).
        unfold int_within in Hm. cbn [option_map] in Hm, Hnl |- *.
        destruct (strip_ann v); try solve [destruct (IH d Hn Hc1 Hc2 ltac:(lia) Hv Hm' Hnl') as (d' & Q1 & Q2 & Q3); exists d';
                                     rewrite Hno in Q3; cbn [option_map] in Q3; auto].
        -- rewrite Hnl. destruct (IH d Hn Hc1 Hc2 ltac:(lia) Hv Hm' Hnl') as (d' & Q1 & Q2 & Q3). exists d'.
           rewrite Hno in Q3; cbn [option_map] in Q3; auto.
        -- unfold int64. rewrite Hm.
           destruct (IH {| id_name := id_name d; id_version := id_version d; id_maxid := z |} Hn Hc1 Hc2 ltac:(lia) Hv Hm' Hnl') as (d' & Q1 & Q2 & Q3).
           exists d'. rewrite Hno in Q3. cbn [option_map id_name id_maxid] in Q2, Q3. auto.
      * fold (count_field fs "name") in Hc1. fold (count_field fs "version") in Hc2. fold (count_field fs "max_id") in Hc3.
        apply IH; assumption.
Qed.

(* the reader's import against SpecBin's, for an import struct within the limits *)
Lemma rd_import_slots el sl : import_ok el = true -> import_slots el = Some sl ->
  (rd_import (strip_ann el) = Some None /\ sl = []) \/
  (exists m, rd_import (strip_ann el) = Some (Some (imp_of (IG m))) /\ sl = [Gap m]).
Proof.
  unfold import_ok, import_slots. destruct (strip_ann el) eqn:Ex; try (intros _ H; inversion H; left; split; reflexivity).
  intros Hok. apply andb_prop in Hok. destruct Hok as [Hok Hm]. apply andb_prop in Hok. destruct Hok as [Hok Hv].
  apply andb_prop in Hok. destruct Hok as [Hok Hc3]. apply andb_prop in Hok. destruct Hok as [Hok Hc2].
  apply andb_prop in Hok. destruct Hok as [Hn Hc1]. cbv zeta.
  destruct (match option_map strip_ann (find_field l "max_id") with Some (VNull t) => t =? TInt | _ => false end) eqn:Hnl; [discriminate|].
  destruct (rd_fold_find l d0 Hn ltac:(lia) ltac:(lia) ltac:(lia) Hv Hm Hnl) as (d' & Q1 & Q2 & Q3).
  cbn [rd_import]. rewrite Q1, Q2. cbn [d0 id_name id_maxid] in *.
  rewrite (orb_comm (list_eqb _ [])).
  destruct (list_eqb _ (s "$ion"%string) || list_eqb _ []); [intros H; inversion H; left; split; reflexivity|].
  rewrite Q3. destruct (option_map strip_ann (find_field l "max_id")) as [mv|]; [|discriminate].
  destruct mv; try discriminate. destruct (z <? 0)%Z; [discriminate|]. intros H; inversion H. right. exists (Z.to_N z). split; reflexivity.
Qed.

Lemma rd_imports_slots : forall es sl acc, forallb import_ok es = true -> imports_slots es = Some sl ->
  exists ms, rd_imports es acc = Some (acc ++ map imp_of (map IG ms)) /\ sl = map seg_of (map IG ms).
Proof.
  induction es as [|el es IH]; intros sl acc Hok Hs; cbn [forallb imports_slots rd_imports] in *.
  - inversion Hs. exists []. cbn. rewrite app_nil_r. auto.
  - apply andb_prop in Hok. destruct Hok as [Hel Hes].
    destruct (import_slots el) as [a|] eqn:Ea; [|discriminate]. destruct (imports_slots es) as [b|] eqn:Eb; [|discriminate].
    inversion Hs; subst sl.
    destruct (rd_import_slots el a Hel Ea) as [[Q ->]|(m & Q & ->)]; rewrite Q.
    + destruct (IH b acc Hes eq_refl) as (ms & R1 & R2). exists ms. auto.
    + destruct (IH b (acc ++ [imp_of (IG m)]) Hes eq_refl) as (ms & R1 & R2). exists (m :: ms).
      rewrite R1, R2. cbn [map app]. rewrite <- app_assoc. auto.
Qed.

(* ---- the fields of the table struct, as the reader folds them ---------------------------------------------------------------- *)
Definition sym_text (x : value) : text := match strip_ann x with VString t => t | _ => [] end.
Definition syms_of (x : value) : list text := match x with VList es => map sym_text es | _ => [] end.
Definition append_imps (cur : rlst) : list imp :=
  match cur with LSys => [] | LTab t0 => lt_imps t0 ++ [loc_imp (lt_locals t0)] end.
Definition imps_of (cur : rlst) (x : value) : option (list imp) :=
  match x with
  | VSymbol (SymText t) => if list_eqb t ist_text then Some (append_imps cur) else Some []
  | VList es => rd_imports es []
  | _ => Some []
  end.
Fixpoint lst_fold (cur : rlst) (fs : list (symv * value)) (imps : list imp) (syms : list text) (fi fsy : bool)
  : option (list imp * list text) :=
  match fs with
  | [] => Some (imps, syms)
  | (SymSid _, _) :: _ => None
  | (SymText t, v) :: r =>
    if list_eqb t (s "symbols"%string) then (if fsy then None else lst_fold cur r imps (syms_of (strip_ann v)) fi true)
    else if list_eqb t (s "imports"%string) then
      (if fi then None else match imps_of cur (strip_ann v) with Some im => lst_fold cur r im syms true fsy | None => None end)
    else lst_fold cur r imps syms fi fsy
  end.

Lemma lst_fold_find cur : forall fs imps syms (fi fsy : bool), names_known fs = true ->
  (count_field fs "symbols" + (if fsy then 1 else 0) <= 1)%nat -> (count_field fs "imports" + (if fi then 1 else 0) <= 1)%nat ->
  forall im, match find_field fs "imports" with Some v => imps_of cur (strip_ann v) | None => Some imps end = Some im ->
  lst_fold cur fs imps syms fi fsy =
  Some (im, match find_field fs "symbols" with Some v => syms_of (strip_ann v) | None => syms end).
Proof.
  induction fs as [|[y v] fs IH]; intros imps syms fi fsy Hn Hcs Hci im Him; [cbn in *; inversion Him; reflexivity|].
  unfold names_known in Hn. cbn [forallb fst] in Hn. destruct y as [t|m]; [|discriminate]. fold (names_known fs) in Hn.
  unfold count_field in Hcs, Hci. cbn [filter fst field_is] in Hcs, Hci. cbn [lst_fold find_field field_is] in *.
  destruct (list_eqb t (s "symbols"%string)) eqn:Es.
  - assert (Ei : list_eqb t (s "imports"%string) = false).
    { rewrite (list_eqb_true _ _ Es). reflexivity. }
    rewrite Ei in *. cbn [length] in Hcs. destruct fsy; [lia|]. fold (count_field fs "symbols") in Hcs. fold (count_field fs "imports") in Hci.
    rewrite (IH imps (syms_of (strip_ann v)) fi true Hn ltac:(cbn; lia) ltac:(cbn; lia) im Him).
    rewrite (find_none fs "symbols") by lia. reflexivity.
  - destruct (list_eqb t (s "imports"%string)) eqn:Ei.
    + cbn [length] in Hci. destruct fi; [lia|]. fold (count_field fs "symbols") in Hcs. fold (count_field fs "imports") in Hci.
      rewrite Him. apply (IH im syms true fsy Hn ltac:(cbn; lia) ltac:(cbn; lia)).
      rewrite (find_none fs "imports") by lia. reflexivity.
    + fold (count_field fs "symbols") in Hcs. fold (count_field fs "imports") in Hci. apply IH; assumption.
Qed.

(* the table readLocalSymbolTable builds *)
Definition new_tab (imps : list imp) (syms : list text) : rlst :=
  let starts := match imps with i :: _ => list_eqb (hd [] (im_syms i)) (s "$ion"%string) && (im_maxid i =? 9) | [] => false end in
  LTab {| lt_imps := process_imports imps starts; lt_locals := syms |}.

Lemma new_tab_ph ms syms : new_tab (map imp_of (map IG ms)) syms = TS (map IG ms) syms.
Proof. destruct ms; reflexivity. Qed.

Lemma lst_ok_new tab ctx fs ctx' : INV tab ctx -> apply_lst ctx fs = Some ctx' -> lst_ok fs ctx' = true ->
  exists imps syms, lst_fold tab fs [] [] false false = Some (imps, syms) /\
                    INV (new_tab imps syms) ctx' /\ ctx_size ctx' < two63.
Proof.
  intros Hinv Hap Hok. unfold lst_ok in Hok.
  apply andb_prop in Hok. destruct Hok as [Hok Hsz]. apply andb_prop in Hok. destruct Hok as [Hok Himp].
  apply andb_prop in Hok. destruct Hok as [Hn Hsym].
  unfold apply_lst in Hap.
  destruct ((1 <? count_field fs "symbols")%nat || (1 <? count_field fs "imports")%nat) eqn:Ec; [discriminate|].
  assert (Hsy : lst_symbols (find_field fs "symbols") =
                map Some (match find_field fs "symbols" with Some v => syms_of (strip_ann v) | None => [] end)).
  { unfold lst_symbols, symbols_ok in *. destruct (find_field fs "symbols") as [v|]; [|reflexivity]. cbn [option_map] in *.
    destruct (strip_ann v); try reflexivity. cbn [syms_of]. rewrite map_map. apply map_ext_in. intros x Hx.
    rewrite forallb_forall in Hsym. specialize (Hsym x Hx). unfold sym_text. destruct (strip_ann x); try discriminate. reflexivity. }
  set (syms := match find_field fs "symbols" with Some v => syms_of (strip_ann v) | None => [] end) in *.
  rewrite Hsy in Hap.
  assert (Fresh : forall ms, INV (new_tab (map imp_of (map IG ms)) syms) (system_ctx ++ map seg_of (map IG ms) ++ [Slots (map Some syms)])).
  { intros ms. right. exists (map IG ms), syms. split; [apply new_tab_ph|reflexivity]. }
  assert (Goal : exists im, match find_field fs "imports" with Some v => imps_of tab (strip_ann v) | None => Some [] end = Some im /\
                            INV (new_tab im syms) ctx').
  { destruct (find_field fs "imports") as [v|] eqn:Ef; cbn [option_map] in Hap;
      [|inversion Hap; exists []; split; [reflexivity|exact (Fresh [])]].
    destruct (strip_ann v) eqn:Ev; cbn [imps_of];
      try (inversion Hap; exists []; split; [reflexivity|exact (Fresh [])]).
    - (* a symbol *)
      destruct y as [t|m]; [|inversion Hap; exists []; split; [reflexivity|exact (Fresh [])]].
      fold ist_text in Hap |- *. destruct (list_eqb t ist_text); [|inversion Hap; exists []; split; [reflexivity|exact (Fresh [])]].
      inversion Hap; subst ctx'. eexists. split; [reflexivity|].
      destruct Hinv as [[-> ->]|(Is & L & -> & ->)]; [exact (Fresh [])|].
      right. exists (Is ++ [IL L]), syms. split.
      + unfold new_tab, TS, append_imps. cbn [lt_imps lt_locals app]. unfold process_imports. cbn [hd sys_imp im_syms im_maxid].
        change (list_eqb (hd [] system_symbols) (s "$ion"%string) && (9 =? 9)) with true. cbv iota.
        rewrite map_app. reflexivity.
      + unfold CX. rewrite map_app, <- !app_assoc. reflexivity.
    - (* a list of import declarations *)
      unfold imports_ok in Himp. cbn [option_map] in Himp. rewrite Ev in Himp.
      destruct (imports_slots l) as [sl|] eqn:Es; [|discriminate]. cbn [option_map] in Hap. inversion Hap; subst ctx'.
      destruct (rd_imports_slots l sl [] Himp Es) as (ms & R1 & ->). exists (map imp_of (map IG ms)). split; [exact R1|apply Fresh]. }
  destruct Goal as (im & Him & Hinv').
  exists im, syms. split; [|split; [exact Hinv'|lia]].
  apply lst_fold_find; [exact Hn|cbn; lia|cbn; lia|exact Him].
Qed.
