(* SpecAgreeTabP.v — the reader's symbol tables against the specification's symbol contexts: the tables that
   arise without shared imports (the system table, then local symbols, possibly appended several times), and
   the fields of a table struct as readLocalSymbolTable folds them against SpecBin's apply_lst. *)
From Coq Require Import String List NArith ZArith Bool Lia ZifyBool ZifyN ZifyNat.
From IonV Require Import Base.Wire Base.Utf8 Bin.Bits Bin.BitsP Data.Ion Num.Float Bin.BitStream Bin.BinReader
  Bin.BitStreamP Bin.BitStreamNextP Bin.BinWriter Bin.SpecBin Bin.RoundTripBin Bin.RoundTripBinS Bin.BitEvalP
  Bin.ReaderTrace Bin.ReaderTraceP Bin.ReaderTopP Bin.SpecLim Bin.SpecLimP Bin.SpecAgreeP.
Import ListNotations.
Open Scope N_scope.
Ltac Zify.zify_post_hook ::= Z.div_mod_to_equations.

Definition ist_text : text := s "$ion_symbol_table"%string.
Definition loc_imp (l : list text) : imp := {| im_syms := l; im_maxid := N.of_nat (length l) |}.
Definition TS (Ls : list (list text)) (L : list text) : rlst :=
  LTab {| lt_imps := sys_imp :: map loc_imp Ls; lt_locals := L |}.
Definition CX (Ls : list (list text)) (L : list text) : symctx := system_ctx ++ map Some (concat Ls ++ L).
Definition INV (tab : rlst) (ctx : symctx) : Prop :=
  (tab = LSys /\ ctx = system_ctx) \/ exists Ls L, tab = TS Ls L /\ ctx = CX Ls L.
Definition SYS3 (ctx : symctx) : Prop := nth_error ctx 2 = Some (Some ist_text).

Lemma inv_sys3 tab ctx : INV tab ctx -> SYS3 ctx.
Proof. intros [[_ ->]|(Ls & L & _ & ->)]; reflexivity. Qed.

Lemma max_import_loc Ls : forall a, a + N.of_nat (length (concat Ls)) < two64 ->
  fold_left (fun a i => wrap64 (a + im_maxid i)) (map loc_imp Ls) a = a + N.of_nat (length (concat Ls)).
Proof.
  induction Ls as [|L1 Ls IH]; intros a Ha; cbn [map fold_left concat length]; [lia|].
  cbn [concat] in Ha. rewrite app_length in *. change (im_maxid (loc_imp L1)) with (N.of_nat (length L1)). rewrite wrap_small by lia. rewrite IH by lia. lia.
Qed.

Lemma fii Ls : forall prev off id, im_maxid prev = N.of_nat (length (im_syms prev)) ->
  off < id -> id <= off + N.of_nat (length (im_syms prev)) + N.of_nat (length (concat Ls)) ->
  off + N.of_nat (length (im_syms prev)) + N.of_nat (length (concat Ls)) < two63 ->
  find_in_imports prev (map loc_imp Ls) off (off + N.of_nat (length (im_syms prev))) id =
  nth_error (im_syms prev ++ concat Ls) (N.to_nat (id - off - 1)).
Proof.
  induction Ls as [|L1 Ls IH]; intros prev off id Hm Hlo Hhi Hsz; cbn [map find_in_imports concat].
  - cbn [concat length] in Hhi, Hsz. rewrite app_nil_r. rewrite wrap_sub by (unfold two63, two64 in *; lia).
    unfold imp_find_by_id. replace ((id - off =? 0) || (N.of_nat (length (im_syms prev)) <? id - off)) with false by lia.
    reflexivity.
  - cbn [concat] in Hhi, Hsz. rewrite app_length in Hhi, Hsz. destruct (id <=? off + N.of_nat (length (im_syms prev))) eqn:E.
    + rewrite wrap_sub by (unfold two63, two64 in *; lia).
      unfold imp_find_by_id. replace ((id - off =? 0) || (N.of_nat (length (im_syms prev)) <? id - off)) with false by lia.
      rewrite nth_error_app1 by lia. reflexivity.
    + cbn [loc_imp im_maxid]. rewrite wrap_small by (unfold two63, two64 in *; lia).
      pose proof (IH (loc_imp L1) (off + N.of_nat (length (im_syms prev))) id eq_refl) as Q. cbn [loc_imp im_syms] in Q.
      rewrite Q by lia. rewrite (nth_error_app2 (im_syms prev)) by lia. f_equal. lia.
Qed.

Lemma inv_tc tab ctx : INV tab ctx -> N.of_nat (length ctx) < two63 -> TC tab ctx.
Proof.
  intros [[-> ->]|(Ls & L & -> & ->)] Hsz; [apply TC_sys|].
  unfold CX, system_ctx in *. rewrite <- map_app in *. rewrite map_length, !app_length, system_len in Hsz.
  assert (Emx : max_import_id (sys_imp :: map loc_imp Ls) = 9 + N.of_nat (length (concat Ls))).
  { unfold max_import_id. cbn [fold_left]. change (wrap64 (0 + im_maxid sys_imp)) with 9.
    apply max_import_loc. unfold two63, two64 in *. lia. }
  split; [rewrite map_length, !app_length, system_len; exact Hsz|]. split.
  - unfold TS, lst_max_id. cbn [lt_imps lt_locals]. rewrite Emx, wrap_small by (unfold two63, two64 in *; lia).
    rewrite map_length, !app_length, system_len. lia.
  - intros sid. unfold TS, lst_find_by_id. cbn [lt_imps lt_locals]. rewrite Emx.
    destruct (sid =? 0) eqn:E0; [reflexivity|]. rewrite nth_error_map.
    destruct (sid <=? 9 + N.of_nat (length (concat Ls))) eqn:E1.
    + change (wrap64 (0 + im_maxid sys_imp)) with (0 + N.of_nat (length (im_syms sys_imp))).
      rewrite (fii Ls sys_imp 0 sid eq_refl) by (cbn [sys_imp im_syms]; rewrite ?system_len; unfold two63 in *; lia).
      cbn [sys_imp im_syms]. rewrite app_assoc, (nth_error_app1 (system_symbols ++ concat Ls) L) by (rewrite app_length, system_len; lia).
      replace (N.to_nat (sid - 0 - 1)) with (N.to_nat (sid - 1)) by lia.
      destruct (nth_error (system_symbols ++ concat Ls) (N.to_nat (sid - 1))); reflexivity.
    + destruct (sid - (9 + N.of_nat (length (concat Ls))) - 1 <? N.of_nat (length L)) eqn:E2.
      * rewrite app_assoc, (nth_error_app2 (system_symbols ++ concat Ls) L) by (rewrite app_length, system_len; lia). rewrite app_length, system_len.
        replace (N.to_nat (sid - 1) - (9 + length (concat Ls)))%nat with (N.to_nat (sid - (9 + N.of_nat (length (concat Ls))) - 1)) by lia.
        destruct (nth_error L _); reflexivity.
      * replace (nth_error (system_symbols ++ concat Ls ++ L) (N.to_nat (sid - 1))) with (@None text); [reflexivity|].
        symmetry. apply nth_error_None. rewrite !app_length, system_len. lia.
Qed.

(* ---- the fields of the table struct, as the reader folds them ---------------------------------------------------------------- *)
Definition sym_text (x : value) : text := match strip_ann x with VString t => t | _ => [] end.
Definition syms_of (x : value) : list text := match x with VList es => map sym_text es | _ => [] end.
Definition append_imps (cur : rlst) : list imp :=
  match cur with LSys => [] | LTab t0 => lt_imps t0 ++ [loc_imp (lt_locals t0)] end.
Definition imps_of (cur : rlst) (x : value) : list imp :=
  match x with
  | VSymbol (SymText t) => if list_eqb t ist_text then append_imps cur else []
  | _ => []
  end.
Fixpoint lst_fold (cur : rlst) (fs : list (symv * value)) (imps : list imp) (syms : list text) (fi fsy : bool)
  : option (list imp * list text) :=
  match fs with
  | [] => Some (imps, syms)
  | (SymSid _, _) :: _ => None
  | (SymText t, v) :: r =>
    if list_eqb t (s "symbols"%string) then (if fsy then None else lst_fold cur r imps (syms_of (strip_ann v)) fi true)
    else if list_eqb t (s "imports"%string) then (if fi then None else lst_fold cur r (imps_of cur (strip_ann v)) syms true fsy)
    else lst_fold cur r imps syms fi fsy
  end.
Definition no_struct (el : value) : Prop := match strip_ann el with VStruct _ => False | _ => True end.
Definition imp_lists_ok (fs : list (symv * value)) : Prop :=
  forall y v es, In (y, v) fs -> field_is y "imports" = true -> strip_ann v = VList es -> Forall no_struct es.

Lemma lst_fold_find cur : forall fs imps syms (fi fsy : bool), names_known fs = true ->
  (count_field fs "symbols" + (if fsy then 1 else 0) <= 1)%nat -> (count_field fs "imports" + (if fi then 1 else 0) <= 1)%nat ->
  lst_fold cur fs imps syms fi fsy =
  Some (match find_field fs "imports" with Some v => imps_of cur (strip_ann v) | None => imps end,
        match find_field fs "symbols" with Some v => syms_of (strip_ann v) | None => syms end).
Proof.
  induction fs as [|[y v] fs IH]; intros imps syms fi fsy Hn Hcs Hci; [reflexivity|].
  unfold names_known in Hn. cbn [forallb fst] in Hn. destruct y as [t|m]; [|discriminate]. fold (names_known fs) in Hn.
  unfold count_field in Hcs, Hci. cbn [filter fst field_is] in Hcs, Hci. cbn [lst_fold find_field field_is].
  destruct (list_eqb t (s "symbols"%string)) eqn:Es.
  - assert (Ei : list_eqb t (s "imports"%string) = false).
    { rewrite (list_eqb_true _ _ Es). reflexivity. }
    rewrite Ei in *. cbn [length] in Hcs. destruct fsy; [lia|]. fold (count_field fs "symbols") in Hcs. fold (count_field fs "imports") in Hci.
    rewrite (IH imps (syms_of (strip_ann v)) fi true Hn) by (cbn; lia).
    assert (Hno : find_field fs "symbols" = None).
    { assert (Hc0 : count_field fs "symbols" = 0%nat) by lia. clear - Hc0. induction fs as [|[y' v'] fs IH]; [reflexivity|].
      unfold count_field in Hc0. cbn [filter fst] in Hc0. cbn [find_field]. destruct (field_is y' "symbols"); [discriminate|apply IH; exact Hc0]. }
    rewrite Hno. reflexivity.
  - destruct (list_eqb t (s "imports"%string)) eqn:Ei.
    + cbn [length] in Hci. destruct fi; [lia|]. fold (count_field fs "symbols") in Hcs. fold (count_field fs "imports") in Hci.
      rewrite (IH (imps_of cur (strip_ann v)) syms true fsy Hn) by (cbn; lia).
      assert (Hno : find_field fs "imports" = None).
      { assert (Hc0 : count_field fs "imports" = 0%nat) by lia. clear - Hc0. induction fs as [|[y' v'] fs IH]; [reflexivity|].
        unfold count_field in Hc0. cbn [filter fst] in Hc0. cbn [find_field]. destruct (field_is y' "imports"); [discriminate|apply IH; exact Hc0]. }
      rewrite Hno. reflexivity.
    + fold (count_field fs "symbols") in Hcs. fold (count_field fs "imports") in Hci. apply IH; assumption.
Qed.

(* the table readLocalSymbolTable builds *)
Definition new_tab (imps : list imp) (syms : list text) : rlst :=
  let starts := match imps with i :: _ => list_eqb (hd [] (im_syms i)) (s "$ion"%string) && (im_maxid i =? 9) | [] => false end in
  LTab {| lt_imps := process_imports imps starts; lt_locals := syms |}.

Lemma find_field_in fs name v : find_field fs name = Some v -> exists y, In (y, v) fs /\ field_is y name = true.
Proof.
  induction fs as [|[y' v'] fs IH]; cbn [find_field]; [discriminate|]. destruct (field_is y' name) eqn:E.
  - intros H. inversion H; subst. exists y'. split; [left; reflexivity|exact E].
  - intros H. destruct (IH H) as (y & Hin & Hy). exists y. split; [right; exact Hin|exact Hy].
Qed.

Lemma lst_ok_new tab ctx fs : INV tab ctx -> lst_ok ctx fs = true ->
  exists imps syms, lst_fold tab fs [] [] false false = Some (imps, syms) /\
                    INV (new_tab imps syms) (apply_lst ctx fs) /\ N.of_nat (length (apply_lst ctx fs)) < two63 /\
                    imp_lists_ok fs.
Proof.
  intros Hinv Hok. unfold lst_ok in Hok.
  apply andb_prop in Hok. destruct Hok as [Hok Hsz]. apply andb_prop in Hok. destruct Hok as [Hok Himp].
  apply andb_prop in Hok. destruct Hok as [Hok Hsym]. apply andb_prop in Hok. destruct Hok as [Hok Hci].
  apply andb_prop in Hok. destruct Hok as [Hn Hcs].
  eexists _, _. split; [apply lst_fold_find; [exact Hn|cbn; lia|cbn; lia]|]. split; [|split; [lia|]].
  - (* the new table against apply_lst *)
    assert (Hsy : lst_symbols (find_field fs "symbols") =
                  map Some (match find_field fs "symbols" with Some v => syms_of (strip_ann v) | None => [] end)).
    { unfold lst_symbols, symbols_ok in *. destruct (find_field fs "symbols") as [v|]; [|reflexivity]. cbn [option_map] in *.
      destruct (strip_ann v); try reflexivity. cbn [syms_of]. rewrite map_map. apply map_ext_in. intros x Hx.
      rewrite forallb_forall in Hsym. specialize (Hsym x Hx). unfold sym_text. destruct (strip_ann x); try discriminate. reflexivity. }
    set (syms := match find_field fs "symbols" with Some v => syms_of (strip_ann v) | None => [] end) in *.
    assert (Fresh : INV (new_tab [] syms) (system_ctx ++ map Some syms)).
    { right. exists [], syms. split; reflexivity. }
    unfold apply_lst. rewrite Hsy.
    destruct (find_field fs "imports") as [v|] eqn:Ef; cbn [option_map]; [|exact Fresh].
    destruct (strip_ann v) eqn:Ev; cbn [imps_of]; try exact Fresh.
    + (* a symbol *)
      destruct y as [t|m]; [|exact Fresh]. fold ist_text. destruct (list_eqb t ist_text); [|exact Fresh].
      destruct Hinv as [[-> ->]|(Ls & L & -> & ->)]; [exact Fresh|].
      right. exists (Ls ++ [L]), syms. split.
      * unfold new_tab, TS, append_imps. cbn [lt_imps lt_locals app]. unfold process_imports. cbn [hd sys_imp im_syms im_maxid].
        change (list_eqb (hd [] system_symbols) (s "$ion"%string) && (9 =? 9)) with true. cbv iota.
        rewrite map_app. reflexivity.
      * unfold CX. rewrite concat_app. cbn [concat]. rewrite app_nil_r, <- !app_assoc, !map_app, <- !app_assoc. reflexivity.
    + (* a list without import structs *)
      unfold imports_ok in Himp. cbn [option_map] in Himp. rewrite Ev in Himp.
      replace (flat_map import_slots l) with (@nil (option text)); [exact Fresh|].
      symmetry. clear - Himp. induction l as [|x l IH]; [reflexivity|]. cbn [forallb flat_map] in *.
      apply andb_prop in Himp. destruct Himp as [Hx Hl]. rewrite <- (IH Hl).
      unfold import_slots. destruct (strip_ann x); try reflexivity. discriminate.
  - intros y v es Hin Hy Ees. unfold imports_ok in Himp.
    assert (Ef : find_field fs "imports" = Some v).
    { assert (Hc1 : (count_field fs "imports" <= 1)%nat) by lia. clear - Hin Hy Hc1.
      induction fs as [|[y' v'] fs IH]; [destruct Hin|]. unfold count_field in Hc1. cbn [filter fst] in Hc1. cbn [find_field].
      destruct Hin as [Q|Hin].
      - inversion Q; subst. rewrite Hy. reflexivity.
      - destruct (field_is y' "imports") eqn:E.
        + exfalso. cbn [length] in Hc1. assert (Hc0 : length (filter (fun p => field_is (fst p) "imports") fs) = 0%nat) by lia.
          clear - Hin Hy Hc0. induction fs as [|[y2 v2] fs IH]; [destruct Hin|]. cbn [filter fst] in Hc0.
          destruct Hin as [Q|Hin]; [inversion Q; subst; rewrite Hy in Hc0; discriminate|].
          destruct (field_is y2 "imports"); [discriminate|apply IH; assumption].
        + apply IH; assumption. }
    rewrite Ef in Himp. cbn [option_map] in Himp. rewrite Ees in Himp. rewrite forallb_forall in Himp.
    apply Forall_forall. intros x Hx. specialize (Himp x Hx). unfold no_struct. destruct (strip_ann x); try exact Logic.I. discriminate.
Qed.
