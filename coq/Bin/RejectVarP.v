(* RejectVarP.v — inversion of the stream's VarUInt reader (it answers only what the restricted decoder's [lim_varuint]
   answers), and the header evaluation of [b_next] as one equation, for the rejection half of C07. *)
From Coq Require Import String List NArith ZArith Bool Lia ZifyBool ZifyN ZifyNat.
From IonV Require Import Base.Wire Base.Utf8 Bin.Bits Bin.BitsP Data.Ion Num.Float Bin.BitStream Bin.BinReader
  Bin.BitStreamP Bin.BitStreamNextP Bin.BinWriter Bin.SpecBin Bin.RoundTripBin Bin.RoundTripBinS Bin.BitEvalP
  Bin.BitEvalAnnP Bin.ReaderTrace Bin.BinReaderInvP Bin.BinReaderP Bin.ReaderTraceP Bin.ReaderTopP
  Bin.ReaderLstP Bin.SpecLim Bin.SpecLimP Bin.SpecLimAppP Bin.BitEvalGenP Bin.SpecAgreeP.
Import ListNotations.
Open Scope N_scope.
Ltac Zify.zify_post_hook ::= Z.div_mod_to_equations.

Ltac bsimpl :=
  cbn [b_in b_ioerr b_pos b_state b_stack b_code b_null b_len b_alloc b_avail b_fuel
       upd_in upd_state upd_stack upd_cur upd_alloc b_clear done_value fst snd] in *.

(* ---- VarUInt ------------------------------------------------------------------------------------------------------------------ *)
Lemma varuint_loop_inv fuel : forall b max val len b' v n,
  b_varuint_loop fuel b max val len = (b', Ok (v, n)) -> Forall (fun c => c < 256) (b_in b) ->
  sp_varuint (b_in b) val = Some (v, b_in b') /\ n <= max /\ len < n /\ v < two64 /\
  N.of_nat (length (b_in b)) = N.of_nat (length (b_in b')) + (n - len).
Proof.
  induction fuel as [|f IH]; intros b max val len b' v n; cbn [b_varuint_loop]; [discriminate|].
  destruct (max <=? len) eqn:E0; [discriminate|].
  unfold b_read1, b_read. destruct (b_in b) as [|c r] eqn:Ein.
  { destruct (b_ioerr b); discriminate. }
  destruct (max_u64_shr7 <? val) eqn:Em; [discriminate|]. intros H Hb. inversion Hb as [|? ? Hc Hr]; subst.
  unfold max_u64_shr7 in Em. cbn [sp_varuint].
  assert (Ew : wrap64 (val * 128) + c mod 128 = val * 128 + c mod 128) by (rewrite wrap_small; [reflexivity|unfold two64; lia]).
  rewrite Ew in H. destruct (128 <=? c) eqn:Es.
  - inversion H; subst. bsimpl. replace (c - 128) with (c mod 128) by lia.
    split; [reflexivity|]. split; [lia|]. split; [lia|]. split; [unfold two64; lia|]. cbn [length]. lia.
  - replace (c mod 128) with c in H by lia.
    destruct (IH _ _ _ _ _ _ _ H) as (Q1 & Q2 & Q3 & Q4 & Q5); [bsimpl; exact Hr|]. bsimpl.
    split; [exact Q1|]. split; [exact Q2|]. split; [lia|]. split; [exact Q4|]. cbn [length]. lia.
Qed.

Lemma sp_varuint_prefix : forall l z acc v r', sp_varuint (l ++ z) acc = Some (v, r') ->
  (length (l ++ z) - length r' <= length l)%nat -> exists r, sp_varuint l acc = Some (v, r) /\ r' = r ++ z.
Proof.
  induction l as [|c l IH]; intros z acc v r' H Hl.
  - cbn [app] in *. destruct (sp_varuint_suffix _ _ _ _ H) as (ds & E & Hne & _). rewrite E, app_length in Hl.
    destruct ds; [contradiction|cbn [length] in Hl; lia].
  - cbn [app sp_varuint] in *. destruct (128 <=? c).
    + inversion H; subst. exists l. auto.
    + apply IH in H; [exact H|]. destruct (sp_varuint_suffix _ _ _ _ H) as (ds & E & _ & _).
      cbn [length] in Hl. rewrite E, app_length in *. lia.
Qed.

(* the stream reader never answers where the restricted decoder gives up: [l] is what the enclosing container (or, with
   z = [], the input) still holds *)
Lemma read_varuint_rej b l z max : avail_ok b -> b_in b = l ++ z -> Forall (fun c => c < 256) (l ++ z) ->
  max <= N.of_nat (length l) \/ z = [] -> lim_varuint l = None -> exists b', b_read_varuint b max = (b', Err).
Proof.
  intros A Ein Hb Hm Hlim. destruct (b_read_varuint_spec b max A) as [(_ & Np & _) Of].
  destruct (b_read_varuint b max) as [b' [[v n]| | |]] eqn:E; cbn [snd] in *; try contradiction; [|eexists; reflexivity].
  exfalso. unfold b_read_varuint in E.
  destruct (varuint_loop_inv _ _ _ _ _ _ _ _ E ltac:(rewrite Ein; exact Hb)) as (Q1 & Q2 & Q3 & Q4 & Q5).
  rewrite Ein in Q1, Q5.
  destruct (sp_varuint_prefix l z 0 v (b_in b') Q1) as (r & Er & Ez).
  { destruct Hm as [Hm| ->]; [lia|]. rewrite app_nil_r. lia. }
  unfold lim_varuint in Hlim. rewrite Er in Hlim.
  assert (Hn : N.of_nat (length l - length r) = n).
  { rewrite Ez, !app_length in Q5. destruct (sp_varuint_suffix _ _ _ _ Er) as (ds & E1 & _ & _). rewrite E1, app_length in *. lia. }
  rewrite Hn in Hlim. replace (n <=? 10) with true in Hlim by lia. replace (v <? two64) with true in Hlim by lia. discriminate.
Qed.

(* ---- the header of a value with a length, as one equation -------------------------------------------------------------------- *)
Definition hdr_rem (b : bstate) (stk : list (N * N)) : N :=
  match stk with [] => 18446744073709551615 | (_, e) :: _ => e - (b_pos b + 1) end.
Definition hdr_fin (b0 : bstate) (code rem l : N) : bres unit :=
  if rem <? l then (b0, Err)
  else if wrap64 (b_pos b0 + l) <? b_pos b0 then (b0, Err)
  else (upd_cur b0 code (b_null b0) l, Ok tt).

Section Hdr.
Variable tot : N.
Hypothesis Htot : tot < two63.

Lemma b_next_eq b t lo rest stk : BS b ((16 * t + lo) :: rest) bssBeforeValue stk tot -> room b 1 ->
  t <= 14 -> t <> 1 -> lo < 15 -> ~ (t = 14 /\ lo = 0) ->
  b_next b =
    let code := bitcode_of_high t in
    let b2 := upd_in b rest (b_pos b + 1) (b_avail b - 1) in
    let rem := hdr_rem b stk in
    if (t =? 13) && (lo =? 1) then
      match b_read_varuint b2 rem with
      | (b', Ok (l, _)) =>
        if l =? 0 then (b', Err) else
        let b0 := upd_state b' bssOnValue in
        match b_remaining b0 with
        | Ok rem1 => hdr_fin b0 code rem1 l
        | Panic => (b0, Panic)
        | _ => (b0, Err)
        end
      | (b', Err) => (b', Err) | (b', Panic) => (b', Panic) | (b', OutOfFuel) => (b', OutOfFuel)
      end
    else
      let b3 := upd_state b2 bssOnValue in
      if lo =? 14 then
        match b_read_varuint b3 rem with
        | (b', Ok (l, ll)) => hdr_fin b' code (wrap64 (rem + two64 - ll)) l
        | (b', Err) => (b', Err) | (b', Panic) => (b', Panic) | (b', OutOfFuel) => (b', OutOfFuel)
        end
      else hdr_fin b3 code rem lo.
Proof.
  intros [I Ein St Es Nl Nw] R Ht Ht1 Hlo H140. pose proof (bcore_avail _ (proj1 I)) as A.
  destruct (boh_gen t Ht Ht1) as (F1 & F2 & F3 & F4).
  destruct I as (C & Fv & L0). pose proof C as (Wk & _ & P & Sk). clear Fv L0 Wk C.
  assert (Rm : match stk with [] => True | (_, e) :: _ => b_pos b + 1 <= e /\ e < two64 end).
  { unfold room in R. rewrite Es in R, Sk. destruct stk as [|[c e] stk']; [exact Logic.I|]. cbn [stk_ok] in Sk. lia. }
  clear R Sk.
  unfold b_next. rewrite St.
  change ((bssBeforeValue =? bssOnValue) || (bssBeforeValue =? bssOnFieldID)) with false. cbv iota beta.
  rewrite Es, St. change (bssBeforeValue =? bssBeforeFieldID) with false.
  replace (match stk with [] => false | (_, e) :: _ => b_pos b =? e end) with false
    by (destruct stk as [|[c e] stk']; [reflexivity|lia]).
  unfold b_read. rewrite Ein. rewrite parse_tag_eq by lia. cbv iota beta zeta.
  rewrite (wrap_small (b_pos b + 1)) by (unfold two63, two64 in *; lia).
  rewrite F3. destruct ((t =? 13) && (lo =? 1)) eqn:Eso.
  - assert (t = 13 /\ lo = 1) as [-> ->] by lia. change (bitcode_of_high 13) with bcStruct.
    unfold b_remaining at 1. bsimpl. rewrite Es.
    assert (Er : (match stk with [] => Ok 18446744073709551615
                  | (_, e) :: _ => if e <? b_pos b + 1 then Panic else Ok (e - (b_pos b + 1)) end) = Ok (hdr_rem b stk)).
    { unfold hdr_rem. destruct stk as [|[c e] stk']; [reflexivity|]. replace (e <? b_pos b + 1) with false by lia. reflexivity. }
    rewrite Er. destruct (b_read_varuint _ _) as [b' [[l ll]| | |]]; try reflexivity.
    destruct (l =? 0) eqn:El0; [reflexivity|].
    change (bcStruct =? bcNone) with false. change (bcStruct =? bcAnnotation) with false.
    change (bcStruct =? bcFalse) with false. change (bcStruct =? bcNegInt) with false. cbn [andb negb]. cbv iota zeta.
    rewrite !andb_false_r. cbv iota. unfold hdr_fin.
    destruct (b_remaining (upd_state b' bssOnValue)) as [rem1| | |]; reflexivity.
  - rewrite F1. replace ((t =? 14) && (lo =? 0)) with false by lia. replace ((t =? 14) && (lo =? 15)) with false by lia.
    rewrite F4. replace ((t =? 14) && (lo =? 0)) with false by lia. replace ((t =? 14) && (lo =? 15)) with false by lia.
    rewrite F2. replace ((bitcode_of_high t =? bcNegInt) && (lo =? 15)) with false by lia.
    replace ((lo =? 15) && negb false) with false by lia.
    unfold b_remaining. bsimpl. rewrite Es.
    assert (Er : (match stk with [] => Ok 18446744073709551615
                  | (_, e) :: _ => if e <? b_pos b + 1 then Panic else Ok (e - (b_pos b + 1)) end) = Ok (hdr_rem b stk)).
    { unfold hdr_rem. destruct stk as [|[c e] stk']; [reflexivity|]. replace (e <? b_pos b + 1) with false by lia. reflexivity. }
    rewrite Er. destruct (lo =? 14) eqn:E14.
    + cbn [andb negb]. destruct (b_read_varuint _ _) as [b' [[l ll]| | |]]; reflexivity.
    + cbn [andb]. reflexivity.
Qed.
End Hdr.
