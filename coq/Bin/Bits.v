(* Bits.v — executable model of ion/bits.go (the write-side codecs) and of the
   read-side codecs of ion/bitstream.go (readVarUintLen, readVarIntLen,
   readBigInt, the magnitude loop of ReadInt / ReadSymbolID).

   Conventions: a byte is an [N] below 256; unsigned Go integers are [N] with
   the uint64 wrap written explicitly where Go can wrap; signed ones are [Z].
   A right shift by k is [/ 2^k]; [x & 0x7F] is [x mod 128]; [c & 0x80 != 0]
   is [128 <=? c]; [(v << 7) ^ d] with d < 128 is [v * 128 + d] (the low bits
   are zero after the shift).  These readings are validated against the real
   functions by correspondence K1.  No proofs in this file. *)
From Coq Require Import List NArith ZArith Bool.
From IonV Require Import Base.Wire.
Import ListNotations.
Open Scope N_scope.

Definition two64 : N := 18446744073709551616.
Definition two63 : N := 9223372036854775808.
Definition wrap64 (v : N) : N := v mod two64.

(* int64 view of a uint64 bit pattern, and back *)
Definition to_i64 (v : N) : Z := if v <? two63 then Z.of_N v else (Z.of_N v - Z.of_N two64)%Z.
Definition of_i64 (z : Z) : N := Z.to_N (z mod Z.of_N two64)%Z.

(* ---- big-endian magnitude ---------------------------------------------------- *)
(* the loop shared by uintLen/appendUint: "for v > 0 { ...; v >>= 8 }" *)
Fixpoint len_loop (base : N) (fuel : nat) (v len : N) : N :=
  match fuel with
  | O => len
  | S f => if 0 <? v then len_loop base f (v / base) (len + 1) else len
  end.
Fixpoint be_loop (base : N) (fuel : nat) (v : N) (acc : list N) : list N :=
  match fuel with
  | O => acc
  | S f => if 0 <? v then be_loop base f (v / base) (v mod base :: acc) else acc
  end.

(* uintLen(v uint64) / appendUint(b, v uint64) *)
Definition uint_len (v : N) : N := len_loop 256 8 (v / 256) 1.
Definition append_uint (b : list N) (v : N) : list N :=
  b ++ be_loop 256 8 (v / 256) [v mod 256].

(* big.Int.Bytes(): minimal big-endian magnitude, empty for zero *)
Definition big_bytes (v : N) : list N := be_loop 256 (N.size_nat v) v [].
(* big.Int.BitLen() *)
Definition bit_len (v : N) : N := N.size v.

(* uint64(n) / uint64(-n) as Go computes the magnitude of an int64 *)
Definition mag64 (n : Z) : N := Z.to_N (Z.abs n).

(* intLen(n int64) *)
Definition int_len (n : Z) : N :=
  if (n =? 0)%Z then 0 else
  let mag := mag64 n in
  let length := uint_len mag in
  let hb := mag / 2 ^ ((length - 1) * 8) in
  if 128 <=? hb mod 256 then length + 1 else length.

(* the common tail of appendInt and appendBigInt: put the sign on [bits] *)
Definition sign_bytes (b : list N) (neg : bool) (bits : list N) : list N :=
  match bits with
  | [] => b   (* not reachable: callers return early on zero *)
  | b0 :: rest =>
    if b0 <? 128
    then b ++ (if neg then b0 + 128 else b0) :: rest
    else b ++ (if neg then 128 else 0) :: bits
  end.

(* appendInt(b, n int64) *)
Definition append_int (b : list N) (n : Z) : list N :=
  if (n =? 0)%Z then b else sign_bytes b (n <? 0)%Z (append_uint [] (mag64 n)).

(* bigIntLen(v) / appendBigInt(b, v) *)
Definition bigint_len (v : Z) : N :=
  if (v =? 0)%Z then 0 else bit_len (Z.to_N (Z.abs v)) / 8 + 1.
Definition append_bigint (b : list N) (v : Z) : list N :=
  if (v =? 0)%Z then b else sign_bytes b (v <? 0)%Z (big_bytes (Z.to_N (Z.abs v))).

(* ---- VarUInt / VarInt -------------------------------------------------------- *)
Definition varuint_len (v : N) : N := len_loop 128 10 (v / 128) 1.
Definition append_varuint (b : list N) (v : N) : list N :=
  b ++ be_loop 128 10 (v / 128) [128 + v mod 128].

(* varIntLen: "mag >>= 6; for mag > 0 { length++; mag >>= 7 }" *)
Definition varint_len (v : Z) : N := len_loop 128 10 (mag64 v / 64) 1.

(* appendVarInt: the loop keeps 7-bit groups while more than 6 bits remain *)
Fixpoint varint_loop (fuel : nat) (mag : N) (acc : list N) : N * list N :=
  match fuel with
  | O => (mag, acc)
  | S f => if 0 <? mag / 64 then varint_loop f (mag / 128) (mag mod 128 :: acc) else (mag, acc)
  end.
Definition append_varint (b : list N) (v : Z) : list N :=
  let signbit := if (v <? 0)%Z then 64 else 0 in
  let mag := mag64 v in
  if mag / 64 =? 0 then b ++ [128 + signbit + mag mod 64]
  else
    let '(m, acc) := varint_loop 10 (mag / 128) [128 + mag mod 128] in
    b ++ (signbit + m mod 64) :: acc.

(* ---- tags ---------------------------------------------------------------------- *)
Definition tag_len (length : N) : N := if length <? 14 then 1 else 1 + varuint_len length.
Definition append_tag (b : list N) (code length : N) : list N :=
  if length <? 14 then b ++ [code + length]     (* code|byte(length): low nibble of code is 0 *)
  else append_varuint (b ++ [code + 14]) length.

Definition max_u64_shr7 : N := 144115188075855871.  (* (2^64-1) >> 7 = 2^57-1 *)
Definition max_i64_shr7 : N := 72057594037927935.   (* (2^63-1) >> 7 = 2^56-1 *)

(* ---- read side ------------------------------------------------------------------ *)
(* fold used by ReadInt (int64 branch), ReadSymbolID and big.Int.SetBytes *)
Definition from_be (bs : list N) : N := fold_left (fun a b => a * 256 + b) bs 0.
(* the same with Go's uint64 arithmetic (ReadSymbolID: "ret <<= 8; ret ^= b") *)
Definition from_be64 (bs : list N) : N := fold_left (fun a b => wrap64 (a * 256) + b) bs 0.

(* readVarUintLen(max): value (uint64, wrapping), length, remaining input.
   [inp] is what is left of the stream; running out of input is an error. *)
Fixpoint read_varuint_loop (fuel : nat) (max val len : N) (inp : list N) : res (N * N * list N) :=
  match fuel with
  | O => OutOfFuel
  | S f =>
    if max <=? len then Err
    else match inp with
         | [] => Err
         | c :: rest =>
           if max_u64_shr7 <? val then Err   (* "val > math.MaxUint64>>7": the shift would overflow *)
           else
           let val' := wrap64 (val * 128) + c mod 128 in
           if 128 <=? c then Ok (val', len + 1, rest)
           else read_varuint_loop f max val' (len + 1) rest
         end
  end.
Definition read_varuint (max : N) (inp : list N) : res (N * N * list N) :=
  read_varuint_loop 11 (N.min max 10) 0 0 inp.

(* readVarIntLen(max): value (int64 arithmetic on the magnitude, then * sign),
   sign, length, remaining input *)
Fixpoint read_varint_loop (fuel : nat) (max val len : N) (neg : bool) (inp : list N)
  : res (Z * bool * N * list N) :=
  match fuel with
  | O => OutOfFuel
  | S f =>
    if max <=? len then Err
    else match inp with
         | [] => Err
         | c :: rest =>
           if max_i64_shr7 <? val then Err   (* "val > math.MaxInt64>>7" *)
           else
           let val' := wrap64 (val * 128) + c mod 128 in
           if 128 <=? c
           then Ok (to_i64 (of_i64 ((if neg then -1 else 1) * to_i64 val')%Z), neg, len + 1, rest)
           else read_varint_loop f max val' (len + 1) neg rest
         end
  end.
Definition read_varint (max : N) (inp : list N) : res (Z * bool * N * list N) :=
  if max =? 0 then Err else
  match inp with
  | [] => Err
  | c :: rest =>
    let neg := 64 <=? c mod 128 in
    let val := c mod 64 in
    if 128 <=? c then Ok ((if neg then - Z.of_N val else Z.of_N val)%Z, neg, 1, rest)
    else read_varint_loop 11 (N.min max 10) val 1 neg rest
  end.

(* readBigInt on the [length] bytes already sliced off: sign-magnitude *)
Definition read_signmag (bs : list N) : res Z :=
  match bs with
  | [] => Panic                       (* bs[0] on an empty slice; callers pass length > 0 *)
  | b0 :: rest =>
    let neg := 128 <=? b0 in
    let m := from_be (b0 mod 128 :: rest) in
    Ok (if neg then - Z.of_N m else Z.of_N m)%Z
  end.

(* parseTag *)
Definition parse_tag (c : N) : N * N := (c / 16 mod 16, c mod 16).
