(* DenoteCalls.v — SPECIFICATION for C12's headline: the values that a sequence of Writer API calls
   denotes, given which calls returned nil.  Written from the property text ("the values of the calls
   that succeeded, in order"), independently of the Writer model's buffers: a stack machine over the
   calls that SUCCEEDED.  A Begin... opens a container, an End... closes the innermost one, a scalar is
   appended to the innermost open container (or to the top level), FieldName / Annotation(s) attach to
   the NEXT value; a field name or annotations still pending when the next successful call is an
   End... or a Finish are dropped (this is what binaryWriter.endValue / Finish do: `w.clear()`); a
   Finish is legal only at top level and is a batch boundary.  A call that failed contributes nothing.
   The same machine in Python: lib/iongen.py `forest_of_calls` (used by lib/props/c12.py).
   `None` = the successful calls are not a well-formed sequence (an End without its Begin, a value in a
   struct without a field name, a FieldName outside a struct, Finish inside a container, a call that
   can never succeed such as WriteBigInt(nil)): the theorem says this never happens when the final
   Finish returns nil.  No proofs in this file. *)
From Coq Require Import String List NArith ZArith Bool.
From IonV Require Import Base.Wire Base.Utf8 Data.Ion Num.Float Bin.BinWriter.
Import ListNotations.
Open Scope N_scope.

(* a container that has been opened and not yet closed, with the members it has so far *)
Inductive opened :=
| OList (l : list value)
| OSexp (l : list value)
| OStruct (fs : list (symv * value)).

(* an open container remembers the field name and annotations that were pending at its Begin *)
Record frame := { fr_open : opened; fr_field : option symv; fr_annots : list symv }.

Record dstate := {
  ds_flushed : list value;        (* top-level values of the batches closed by a Finish, in order *)
  ds_done : list value;           (* top-level values completed since the last Finish *)
  ds_stack : list frame;          (* innermost first; [] = top level *)
  ds_field : option symv;         (* pending field name *)
  ds_annots : list symv           (* pending annotations *)
}.
Definition d_init : dstate :=
  {| ds_flushed := []; ds_done := []; ds_stack := []; ds_field := None; ds_annots := [] |}.

(* a symbol token as data: its text when it has one, else its symbol ID *)
Definition sym_of_tok (t : tok) : symv :=
  match tk_text t with Some x => SymText x | None => SymSid (Z.to_N (tk_sid t)) end.

(* the value of a scalar call; None = the call cannot succeed *)
Definition scalar_of_call (c : wcall) : option value :=
  match c with
  | CNull => Some (VNull TNull)
  | CNullType t => if 14 <=? t then None else Some (VNull (if t =? 0 then TNull else t))
  | CBool b => Some (VBool b)
  | CInt z => Some (VInt z)
  | CUint n => Some (VInt (Z.of_N n))
  | CBigInt (Some z) => Some (VInt z)
  | CBigInt None => None
  | CFloat b => Some (VFloat (if f64_is_nan b then canonical_nan64 else b))   (* one NaN in the data model *)
  | CDecimal (Some d) => Some (VDecimal d)
  | CDecimal None => None
  | CTimestamp _ body => Some (VTimestamp body)
  | CSymbol t => Some (VSymbol (sym_of_tok t))
  | CSymbolFromString x => Some (VSymbol (SymText x))
  | CString x => Some (VString x)
  | CClob b => Some (VClob b)
  | CBlob b => Some (VBlob b)
  | _ => None
  end.

Definition attach (a : list symv) (v : value) : value := match a with [] => v | _ => VAnn a v end.

(* a member needs a field name exactly inside a struct *)
Definition add_open (o : opened) (fld : option symv) (v : value) : option opened :=
  match o, fld with
  | OList l, None => Some (OList (l ++ [v]))
  | OSexp l, None => Some (OSexp (l ++ [v]))
  | OStruct fs, Some n => Some (OStruct (fs ++ [(n, v)]))
  | _, _ => None
  end.

(* may a value start here, with this pending field name? *)
Definition place_ok (stack : list frame) (fld : option symv) : bool :=
  match stack, fld with
  | [], None => true
  | fr :: _, _ => match fr_open fr, fld with
                  | OStruct _, Some _ => true
                  | OList _, None => true
                  | OSexp _, None => true
                  | _, _ => false
                  end
  | _, _ => false
  end.

(* a complete value [v] (annotations already attached) arrives with field name [fld] *)
Definition push_value (fl dn : list value) (stack : list frame) (fld : option symv) (v : value) : option dstate :=
  match stack with
  | [] => match fld with
          | None => Some {| ds_flushed := fl; ds_done := dn ++ [v]; ds_stack := []; ds_field := None; ds_annots := [] |}
          | Some _ => None
          end
  | fr :: rest =>
    match add_open (fr_open fr) fld v with
    | Some o => Some {| ds_flushed := fl; ds_done := dn;
                        ds_stack := {| fr_open := o; fr_field := fr_field fr; fr_annots := fr_annots fr |} :: rest;
                        ds_field := None; ds_annots := [] |}
    | None => None
    end
  end.

Definition d_scalar (st : dstate) (v : value) : option dstate :=
  push_value (ds_flushed st) (ds_done st) (ds_stack st) (ds_field st) (attach (ds_annots st) v).

Definition d_begin (st : dstate) (o : opened) : option dstate :=
  if place_ok (ds_stack st) (ds_field st) then
    Some {| ds_flushed := ds_flushed st; ds_done := ds_done st;
            ds_stack := {| fr_open := o; fr_field := ds_field st; fr_annots := ds_annots st |} :: ds_stack st;
            ds_field := None; ds_annots := [] |}
  else None.

Definition close (o : opened) (c : wcall) : option value :=
  match o, c with
  | OList l, CEndList => Some (VList l)
  | OSexp l, CEndSexp => Some (VSexp l)
  | OStruct fs, CEndStruct => Some (VStruct fs)
  | _, _ => None
  end.

(* End...: whatever is pending is dropped; the container gets the field name and annotations of its Begin *)
Definition d_end (st : dstate) (c : wcall) : option dstate :=
  match ds_stack st with
  | [] => None
  | fr :: rest =>
    match close (fr_open fr) c with
    | Some v => push_value (ds_flushed st) (ds_done st) rest (fr_field fr) (attach (fr_annots fr) v)
    | None => None
    end
  end.

Definition set_dpending (st : dstate) (f : option symv) (a : list symv) : dstate :=
  {| ds_flushed := ds_flushed st; ds_done := ds_done st; ds_stack := ds_stack st; ds_field := f; ds_annots := a |}.

(* one successful call *)
Definition dstep (st : dstate) (c : wcall) : option dstate :=
  match c with
  | CFieldName t =>
    match ds_stack st with
    | fr :: _ => match fr_open fr with
                 | OStruct _ => Some (set_dpending st (Some (sym_of_tok t)) (ds_annots st))
                 | _ => None
                 end
    | [] => None
    end
  | CAnnotation t => Some (set_dpending st (ds_field st) (ds_annots st ++ [sym_of_tok t]))
  | CAnnotations ts => Some (set_dpending st (ds_field st) (ds_annots st ++ map sym_of_tok ts))
  | CBeginList => d_begin st (OList [])
  | CBeginSexp => d_begin st (OSexp [])
  | CBeginStruct => d_begin st (OStruct [])
  | CEndList | CEndSexp | CEndStruct => d_end st c
  | CFinish =>
    match ds_stack st with
    | [] => Some {| ds_flushed := ds_flushed st ++ ds_done st; ds_done := []; ds_stack := [];
                    ds_field := None; ds_annots := [] |}
    | _ :: _ => None
    end
  | _ => match scalar_of_call c with Some v => d_scalar st v | None => None end
  end.

(* the calls with their results (true = returned nil); a failed call contributes nothing *)
Fixpoint denote_from (st : dstate) (cs : list wcall) (oks : list bool) : option dstate :=
  match cs, oks with
  | [], [] => Some st
  | c :: cs', ok :: oks' =>
    if ok then match dstep st c with Some st' => denote_from st' cs' oks' | None => None end
    else denote_from st cs' oks'
  | _, _ => None
  end.

(* all top-level values, batch after batch; None also when a container is left open at the end *)
Definition denote (cs : list wcall) (oks : list bool) : option (list value) :=
  match denote_from d_init cs oks with
  | Some st => match ds_stack st with [] => Some (ds_flushed st ++ ds_done st) | _ :: _ => None end
  | None => None
  end.
(* the batches closed by a Finish only *)
Definition denote_flushed (cs : list wcall) (oks : list bool) : option (list value) :=
  option_map ds_flushed (denote_from d_init cs oks).

(* ---- the call sequences the theorem covers ---------------------------------------------------------- *)
(* what C04_binary asks of a forest, asked of the calls: symbol tokens carry a valid UTF-8 text (a token
   with only a symbol ID comes back as whatever the table maps it to), the integers fit the Go parameter
   type, a float is a 64-bit pattern, a decimal has an int32 exponent, a timestamp is passed with the
   length of its body (the model's CTimestamp carries timestampLen separately), strings are valid UTF-8,
   WriteSymbolFromString is not given "$<digits>" (which the writer takes as a symbol ID). *)
Definition tok_ok (t : tok) : Prop := exists x, t = tok_text x /\ utf8_valid x = true.
Definition call_ok (c : wcall) : Prop :=
  match c with
  | CFieldName t | CAnnotation t | CSymbol t => tok_ok t
  | CAnnotations ts => Forall tok_ok ts
  | CInt z => (-9223372036854775808 <= z <= 9223372036854775807)%Z
  | CUint n => n < 18446744073709551616
  | CFloat b => b < 18446744073709551616
  | CDecimal (Some d) => (-2147483648 <= d_exp d <= 2147483647)%Z /\ (d_negzero d = true -> d_coef d = 0%Z)
  | CTimestamp len body => len = N.of_nat (length body)
  | CSymbolFromString x => utf8_valid x = true /\ symbol_identifier x = None
  | CString x => utf8_valid x = true
  | _ => True
  end.

(* the last call is Finish and it returned nil *)
Fixpoint final_finish_ok (cs : list wcall) (oks : list bool) : Prop :=
  match cs, oks with
  | [CFinish], [true] => True
  | _ :: (_ :: _) as cs', _ :: oks' => final_finish_ok cs' oks'
  | _, _ => False
  end.
