(* SpecAgreeP.v — the binary reader model agrees with the (restricted) specification decoder:
   symbol tables vs symbol contexts, token projection, one raw item for any spec-accepted
   encoding of a scalar, a NOP pad (C03). *)
From Coq Require Import String List NArith ZArith Bool Lia ZifyBool ZifyN ZifyNat.
From IonV Require Import Base.Wire Base.Utf8 Bin.Bits Bin.BitsP Data.Ion Num.Float Bin.BitStream Bin.BinReader
  Bin.BitStreamP Bin.BitStreamNextP Bin.BinWriter Bin.SpecBin Bin.RoundTripBin Bin.RoundTripBinS Bin.BitEvalP
  Bin.BitEvalAnnP Bin.ReaderTrace Bin.BinReaderInvP Bin.BinReaderP Bin.ReaderTraceP Bin.ReaderTopP
  Bin.SpecLim Bin.SpecLimP Bin.BitEvalGenP.
Import ListNotations.
Open Scope N_scope.
Ltac Zify.zify_post_hook ::= Z.div_mod_to_equations.

Ltac bsimpl :=
  cbn [b_in b_ioerr b_pos b_state b_stack b_code b_null b_len b_alloc b_avail b_fuel
       upd_in upd_state upd_stack upd_cur upd_alloc b_clear done_value fst snd] in *.
Ltac rsimpl :=
  cbn [r_bits r_ctx r_eof r_err r_lst r_field r_annots r_type r_value
       rs_bits rs_ctx rs_eof rs_err rs_lst rs_field rs_annots rs_val r_clear fst snd] in *.

(* ---- the reader's table and the spec's context ----------------------------------------------------------------------- *)
Lemma ctx_slot_lt : forall ctx i x, ctx_slot ctx i = Some x -> i < ctx_size ctx.
Proof.
  induction ctx as [|g r IH]; intros i x; cbn [ctx_slot ctx_size fold_right]; [discriminate|].
  fold (ctx_size r). destruct (i <? seg_size g) eqn:E; [lia|]. intros H. specialize (IH _ _ H). lia.
Qed.

Definition TC (tab : rlst) (ctx : symctx) : Prop :=
  ctx_size ctx < two63 /\ lst_max_id tab = ctx_size ctx /\
  forall sid, lst_find_by_id tab sid =
    if sid =? 0 then None
    else match ctx_slot ctx (sid - 1) with Some (Some t) => Some t | _ => None end.

Lemma TC_sys : TC LSys system_ctx.
Proof.
  split; [unfold two63; cbn; lia|]. split; [reflexivity|]. intros sid.
  unfold lst_find_by_id, imp_find_by_id, sys_imp, system_ctx. cbn [im_syms ctx_slot seg_size]. rewrite map_length, system_len.
  destruct (sid =? 0) eqn:E0; [reflexivity|]. cbn [orb].
  destruct (N.of_nat 9 <? sid) eqn:E9.
  - replace (sid - 1 <? N.of_nat 9) with false by lia. reflexivity.
  - replace (sid - 1 <? N.of_nat 9) with true by lia. rewrite nth_error_map.
    destruct (nth_error system_symbols (N.to_nat (sid - 1))); reflexivity.
Qed.

Definition tok_of_sym (y : symv) (sid : N) : tok :=
  {| tk_text := match y with SymText t => Some t | SymSid _ => None end; tk_sid := Z.of_N sid |}.

Lemma resolve_tok tab ctx sid y : TC tab ctx -> resolve_sid ctx sid = Some y ->
  tok_by_sid tab sid = Some (tok_of_sym y sid) /\ sid_ok tab sid = true /\
  lst_find_by_id tab sid = tk_text (tok_of_sym y sid) /\ (forall n, y = SymSid n -> n = sid) /\ sid < two63.
Proof.
  intros (Hlen & Hmax & Hfind) Hr. unfold resolve_sid in Hr.
  assert (Hs : sid <= ctx_size ctx).
  { destruct (sid =? 0) eqn:E0; [lia|]. destruct (ctx_slot ctx (sid - 1)) as [x|] eqn:E1; [|discriminate].
    pose proof (ctx_slot_lt _ _ _ E1). lia. }
  assert (Hok : sid_ok tab sid = true) by (unfold sid_ok; rewrite Hmax; lia).
  assert (Ht : lst_find_by_id tab sid = tk_text (tok_of_sym y sid) /\ (forall n, y = SymSid n -> n = sid)).
  { rewrite Hfind. destruct (sid =? 0) eqn:E0.
    - inversion Hr; subst. split; [reflexivity|]. intros n H. inversion H. lia.
    - destruct (ctx_slot ctx (sid - 1)) as [[t|]|]; inversion Hr; subst; cbn [tok_of_sym tk_text];
        (split; [reflexivity|]); intros n H; inversion H; reflexivity. }
  destruct Ht as [Ht1 Ht2]. unfold tok_by_sid. rewrite Hok, Ht1. repeat split; auto. lia.
Qed.

(* ---- projection of tokens -------------------------------------------------------------------------------------------- *)
Lemma hexdigit_ne d : hexdigit d <> 46 /\ hexdigit d <> 59.
Proof. unfold hexdigit. destruct (d <? 10) eqn:E; lia. Qed.
Lemma upto_dot_hex t r : upto_dot (hex_of_bytes t ++ 46 :: r) = hex_of_bytes t.
Proof.
  induction t as [|b t IH]; cbn [hex_of_bytes app upto_dot]; [reflexivity|].
  destruct (hexdigit_ne (b / 16)) as [H1 _]. destruct (hexdigit_ne (b mod 16)) as [H2 _].
  replace (hexdigit (b / 16) =? 46) with false by lia. replace (hexdigit (b mod 16) =? 46) with false by lia.
  rewrite IH. reflexivity.
Qed.
Lemma proj_show_tok y sid : (forall n, y = SymSid n -> n = sid) -> proj_tok (show_tok (tok_of_sym y sid)) = tsp_sym y.
Proof.
  intros Hn. destruct y as [t|n]; cbn [tok_of_sym show_tok tk_text tk_sid tsp_sym proj_tok].
  - rewrite upto_dot_hex. reflexivity.
  - rewrite (Hn n eq_refl). reflexivity.
Qed.

Lemma uint_chars_ne u : Forall (fun c => c <> 59 /\ 48 <= c <= 57) (uint_chars u).
Proof. induction u; cbn [uint_chars]; constructor; auto; lia. Qed.
Lemma dec_of_Z_ne z : Forall (fun c => c <> 59) (dec_of_Z z).
Proof.
  assert (H : forall n, Forall (fun c => c <> 59) (dec_of_N n)).
  { intros n. unfold dec_of_N. eapply Forall_impl; [|apply uint_chars_ne]. intros c [H _]. exact H. }
  unfold dec_of_Z. destruct z; [apply H|apply H|]. constructor; [lia|apply H].
Qed.

Lemma proj_copy3 l r : Forall (fun c => c <> 59) l -> proj_pieces 3 (l ++ 59 :: r) = l ++ 59 :: proj_pieces 0 r.
Proof.
  induction 1 as [|c l Hc _ IH]; cbn [app proj_pieces]; [reflexivity|].
  replace (c =? 59) with false by lia. cbn [N.eqb]. rewrite IH. reflexivity.
Qed.
Lemma proj_skip2 l r : Forall (fun c => c <> 59) l -> proj_pieces 2 (l ++ 59 :: r) = 59 :: proj_pieces 0 r.
Proof.
  induction 1 as [|c l Hc _ IH]; cbn [app proj_pieces]; [reflexivity|].
  replace (c =? 59) with false by lia. cbn [N.eqb]. exact IH.
Qed.
Lemma proj_copy1_hex t l r : Forall (fun c => c <> 59) l ->
  proj_pieces 1 (hex_of_bytes t ++ 46 :: l ++ 59 :: r) = hex_of_bytes t ++ 59 :: proj_pieces 0 r.
Proof.
  intros Hl. induction t as [|b t IH]; cbn [hex_of_bytes app proj_pieces].
  - cbn [N.eqb Pos.eqb]. apply proj_skip2. exact Hl.
  - destruct (hexdigit_ne (b / 16)) as [H1 H1']. destruct (hexdigit_ne (b mod 16)) as [H2 H2'].
    replace (hexdigit (b / 16) =? 59) with false by lia. replace (hexdigit (b / 16) =? 46) with false by lia.
    replace (hexdigit (b mod 16) =? 59) with false by lia. replace (hexdigit (b mod 16) =? 46) with false by lia.
    cbn [N.eqb Pos.eqb]. rewrite IH. reflexivity.
Qed.
Lemma proj_piece y sid r : (forall n, y = SymSid n -> n = sid) ->
  proj_pieces 0 (show_tok (tok_of_sym y sid) ++ 59 :: r) = tsp_sym y ++ 59 :: proj_pieces 0 r.
Proof.
  intros Hn. destruct y as [t|n]; cbn [tok_of_sym show_tok tk_text tk_sid tsp_sym app proj_pieces].
  - cbn [N.eqb Pos.eqb]. rewrite <- app_assoc. cbn [app]. rewrite proj_copy1_hex by apply dec_of_Z_ne. reflexivity.
  - rewrite (Hn n eq_refl). cbn [N.eqb Pos.eqb]. rewrite proj_copy3 by apply dec_of_Z_ne. reflexivity.
Qed.

(* the annotation token *)
Lemma proj_ann_tok (ys : list symv) (sids : list N) :
  Forall2 (fun y sid => forall n, y = SymSid n -> n = sid) ys sids ->
  proj_tok (97 :: 91 :: concat (map (fun t => show_tok t ++ [59]) (map (fun p => tok_of_sym (fst p) (snd p)) (combine ys sids))) ++ [93])
  = tsp_annots ys.
Proof.
  intros H. unfold tsp_annots. cbn [proj_tok]. do 2 f_equal.
  induction H as [|y sid ys sids Hy _ IH]; cbn [combine map concat app fst snd]; [reflexivity|].
  rewrite <- !app_assoc. cbn [app]. rewrite proj_piece by exact Hy. rewrite IH. reflexivity.
Qed.

(* ---- headers, as the spec describes them ------------------------------------------------------------------------------ *)
Section Agree.
Variable ts : list N -> res unit.
Variable tot : N.
Hypothesis Htot : tot < two63.

Lemma room_top b x rest outer st stk : BS b (x ++ rest ++ outer) st stk tot -> top_ok tot stk outer ->
  room b (N.of_nat (length x)).
Proof.
  intros [I Ein St Es Nl Nw] T. pose proof (bcore_avail _ (proj1 I)) as A. unfold room. rewrite Es.
  unfold top_ok in T. destruct stk as [|[c e] stk']; [exact Logic.I|].
  unfold avail_ok in A. rewrite Ein, !app_length in A. lia.
Qed.

Lemma tag_split tag : tag < 256 -> tag = 16 * (tag / 16) + tag mod 16 /\ tag / 16 < 16 /\ tag mod 16 < 16.
Proof. intros H. lia. Qed.

Lemma hdr_spec b1 tag r0 len r1 body rest' outer stk :
  tag < 256 -> Forall (fun c => c < 256) r0 -> tag / 16 <> 15 -> tag mod 16 <> 15 -> tag / 16 <> 1 ->
  (if (tag mod 16 =? 14) || ((tag / 16 =? 13) && (tag mod 16 =? 1)) then lim_varuint r0 else Some (tag mod 16, r0))
     = Some (len, r1) ->
  ((tag / 16 =? 13) && (tag mod 16 =? 1)) && (len =? 0) = false -> take_n len r1 = Some (body, rest') ->
  (tag / 16 = 14 -> len <> 0) ->
  BS b1 ((tag :: r0) ++ outer) bssBeforeValue stk tot -> top_ok tot stk outer ->
  exists b', b_next b1 = (b', Ok tt) /\ BS b' (body ++ rest' ++ outer) bssOnValue stk tot /\
             b_code b' = bitcode_of_high (tag / 16) /\ b_len b' = N.of_nat (length body) /\ len = N.of_nat (length body) /\
             Forall (fun c => c < 256) body /\ Forall (fun c => c < 256) rest'.
Proof.
  intros Htag Hr0 Ht15 Hlo15 Ht1 Hlen Hs0 Htk H14 Hb T.
  assert (Hbytes : Forall (fun c => c < 256) body /\ Forall (fun c => c < 256) rest').
  { destruct (take_n_spec _ _ _ _ Htk) as [Er1 _].
    assert (Hr1 : Forall (fun c => c < 256) r1).
    { destruct ((tag mod 16 =? 14) || ((tag / 16 =? 13) && (tag mod 16 =? 1))).
      - destruct (lim_varuint_layout r0 len r1 [] Hlen Hr0) as (ds & E0 & _). rewrite E0 in Hr0.
        apply Forall_app in Hr0. apply Hr0.
      - inversion Hlen; subst. exact Hr0. }
    rewrite Er1 in Hr1. apply Forall_app in Hr1. exact Hr1. }
  destruct (tag_split tag Htag) as (Etag & Ht & Hlo). set (t := tag / 16) in *. set (lo := tag mod 16) in *.
  destruct (take_n_spec _ _ _ _ Htk) as [Er1 Elb].
  destruct ((lo =? 14) || ((t =? 13) && (lo =? 1))) eqn:Ev.
  - destruct (lim_varuint_layout r0 len r1 outer Hlen Hr0) as (ds & E0 & Hds & Hv & Hrd).
    rewrite Er1 in E0, Hrd. rewrite <- !app_assoc in Hrd.
    assert (Ein : (tag :: r0) ++ outer = (16 * t + lo) :: ds ++ body ++ rest' ++ outer).
    { rewrite E0, <- Etag. cbn [app]. rewrite <- !app_assoc. reflexivity. }
    rewrite Ein in Hb.
    assert (R : room b1 (1 + N.of_nat (length ds) + len)).
    { change ((16 * t + lo) :: ds ++ body ++ rest' ++ outer) with (((16 * t + lo) :: ds) ++ body ++ rest' ++ outer) in Hb.
      rewrite (app_assoc _ body) in Hb. pose proof (room_top _ _ _ _ _ _ Hb T) as R. rewrite app_length in R. cbn [length] in R.
      replace (1 + N.of_nat (length ds) + len) with (N.of_nat (S (length ds) + length body)) by lia. exact R. }
    destruct (lo =? 14) eqn:E14.
    + assert (lo = 14) by lia. subst lo. replace (tag mod 16) with 14 in * by lia.
      destruct (b_next_len14 tot Htot b1 t ds body (rest' ++ outer) stk len Hb ltac:(lia) Ht1 Hrd ltac:(lia) Elb R)
        as (b' & E & Hb' & Ec & El). exists b'. rewrite El. repeat (split; [solve [auto]|]). apply Hbytes.
    + assert (Hso : t = 13 /\ lo = 1) by lia. destruct Hso as [Et13 El1].
      assert (Hn0 : len <> 0) by lia.
      rewrite Et13, El1 in Hb. change (16 * 13 + 1) with 209 in Hb.
      destruct (b_next_ordered tot Htot b1 ds body (rest' ++ outer) stk len Hb Hn0 Hrd ltac:(lia) Elb R)
        as (b' & E & Hb' & Ec & El). exists b'. rewrite El, Et13. repeat (split; [solve [auto]|]). apply Hbytes.
  - assert (Hq : len = lo /\ r1 = r0) by (inversion Hlen; auto). destruct Hq as [-> ->].
    assert (Ein : (tag :: r0) ++ outer = (16 * t + lo) :: body ++ rest' ++ outer).
    { rewrite Er1, <- Etag. cbn [app]. rewrite <- app_assoc. reflexivity. }
    rewrite Ein in Hb.
    assert (R : room b1 (1 + lo)).
    { change ((16 * t + lo) :: body ++ rest' ++ outer) with (((16 * t + lo) :: body) ++ rest' ++ outer) in Hb.
      pose proof (room_top _ _ _ _ _ _ Hb T) as R. cbn [length] in R.
      replace (1 + lo) with (N.of_nat (S (length body))) by lia. exact R. }
    destruct (b_next_inline tot Htot b1 t lo body (rest' ++ outer) stk Hb ltac:(lia) Ht1 ltac:(lia) ltac:(lia) ltac:(lia) Elb R)
      as (b' & E & Hb' & Ec & El). exists b'. rewrite El. repeat (split; [solve [auto]|]). apply Hbytes.
Qed.

(* ---- one raw item: a scalar, as the spec decodes it ------------------------------------------------------------------ *)
Variable tab : rlst.
Variable ctx : symctx.
Hypothesis HTC : TC tab ctx.

Definition val_rel_s (v : value) (rv : rvalue) : Prop :=
  match v with
  | VNull t => rv = RNil /\ t <> 0
  | VBool b => rv = RBool b
  | VInt z => exists iv, rv = RInt iv /\ int_z iv = z
  | VFloat b => rv = RFloat b
  | VDecimal d => rv = RDecimal d
  | VTimestamp body => rv = RTimestamp body
  | VSymbol y => exists t, rv = RSymbol t /\ proj_tok (show_tok t) = tsp_sym y
  | VString t => rv = RString t
  | VClob b | VBlob b => rv = RBytes b
  | VList _ | VSexp _ | VStruct _ => rv = RContainer
  | VAnn _ _ => False
  end.
Definition rvs (v : value) (r : rstate) : Prop := r_type r = vtype v /\ val_rel_s v (r_value r).

Lemma null_type_k t ty : null_type t = Some ty -> t <= 13 /\ t <> 3 /\ (if t <? 3 then t + 1 else t) = ty.
Proof.
  unfold null_type.
  repeat match goal with |- context [if ?c then _ else _] => destruct c eqn:? end; intros H; inversion H; subst; lia.
Qed.

Lemma raw_scalar_spec api fuel r b1 f tag r0 x rest' outer stk :
  Forall (fun c => c < 256) (tag :: r0) -> sl_value ts (S f) ctx (tag :: r0) = Some (Some x, rest') -> is_scalar x ->
  BS b1 ((tag :: r0) ++ outer) bssBeforeValue stk tot -> top_ok tot stk outer ->
  b_next (r_bits r) = b_next b1 -> r_lst r = Some tab -> (x = VNull 13 -> not_lst_pos r) ->
  exists r1, r_next_raw ts api fuel r = (r1, Ok true) /\ same_hdr r r1 /\ rvs x r1 /\
             (BS (r_bits r1) (rest' ++ outer) (sav stk) stk tot \/ NS tot (r_bits r1) (rest' ++ outer) stk) /\
             Forall (fun c => c < 256) rest'.
Proof.
  intros Hbytes Hsp Hs Hb T Hn Hl Hnl. inversion Hbytes as [|? ? Htag Hr0]; subst.
  assert (SH : forall b' t v, same_hdr r (rs_val (rs_bits r b') t v)) by (intros; repeat split).
  assert (SH2 : forall b' b'' t t' v v', same_hdr r (rs_val (rs_bits (rs_val (rs_bits r b') t v) b'') t' v'))
    by (intros; repeat split).
  destruct (tag_split tag Htag) as (Etag & Ht16 & Hlo16).
  cbn [sl_value] in Hsp. cbv zeta in Hsp.
  destruct (tag / 16 =? 15) eqn:E15; [discriminate|].
  destruct (tag mod 16 =? 15) eqn:El15.
  { (* typed null *)
    destruct (null_type (tag / 16)) as [ty|] eqn:Ent; [|discriminate]. inversion Hsp; subst x rest'.
    destruct (null_type_k _ _ Ent) as (Hk & Hk3 & Ety).
    assert (Elo : tag mod 16 = 15) by lia. rewrite Etag, Elo in Hb. cbn [app] in Hb.
    assert (R : room b1 1).
    { change ((16 * (tag / 16) + 15) :: r0 ++ outer) with ([16 * (tag / 16) + 15] ++ r0 ++ outer) in Hb.
      exact (room_top _ _ _ _ _ _ Hb T). }
    destruct (b_next_single tot Htot b1 (tag / 16) 15 _ stk Hb R) as (b' & E1 & Ns & Nl & Ec); [left; lia|].
    rewrite <- Hn in E1. replace ((tag / 16 =? 1) && (15 =? 1)) with false in Ec by lia.
    eexists. split; [eapply raw_null; [exact E1|exact Ec|lia|exact Hk3|exact Nl|]|].
    { intros E13. apply Hnl. rewrite E13 in Ety. cbn in Ety. subst ty. reflexivity. }
    split; [apply SH|]. split; [split; [rsimpl; exact Ety|split; [reflexivity|destruct (tag / 16 <? 3) eqn:E3; lia]]|]. split; [right; exact Ns|exact Hr0]. }
  destruct (tag / 16 =? 1) eqn:Et1.
  { (* bool *)
    assert (Et : tag / 16 = 1) by lia.
    assert (Hx : exists bv, x = VBool bv /\ rest' = r0 /\ tag mod 16 = (if bv then 1 else 0)).
    { destruct (tag mod 16 =? 0) eqn:E0; [inversion Hsp; exists false; repeat split; lia|].
      destruct (tag mod 16 =? 1) eqn:E1; [inversion Hsp; exists true; repeat split; lia|discriminate]. }
    destruct Hx as (bv & -> & -> & Elo). rewrite Etag, Et, Elo in Hb. cbn [app] in Hb.
    assert (R : room b1 1).
    { change ((16 * 1 + (if bv then 1 else 0)) :: r0 ++ outer) with ([16 * 1 + (if bv then 1 else 0)] ++ r0 ++ outer) in Hb.
      exact (room_top _ _ _ _ _ _ Hb T). }
    destruct (b_next_single tot Htot b1 1 (if bv then 1 else 0) _ stk Hb R) as (b' & E1 & Ns & Nl & Ec);
      [right; destruct bv; lia|].
    rewrite <- Hn in E1. replace ((if bv then 1 else 0) =? 15) with false in Nl by (destruct bv; reflexivity).
    eexists. split; [eapply raw_bool; [exact E1|destruct bv; [right|left]; exact Ec|exact Nl]|]. split; [apply SH|].
    split; [|split; [right; exact Ns|exact Hr0]]. split; [reflexivity|]. rsimpl. cbn [val_rel_s]. rewrite Ec. destruct bv; reflexivity. }
  (* a value with a length *)
  set (sorted := (tag / 16 =? 13) && (tag mod 16 =? 1)) in *.
  destruct (if (tag mod 16 =? 14) || sorted then lim_varuint r0 else Some (tag mod 16, r0)) as [[len r1]|] eqn:Elen;
    [|discriminate].
  destruct (sorted && (len =? 0)) eqn:Es0; [discriminate|].
  destruct (take_n len r1) as [[body rest]|] eqn:Etk; [|discriminate].
  assert (H14 : tag / 16 = 14 -> len <> 0).
  { intros E14. rewrite E14 in Hsp. cbn [N.eqb Pos.eqb] in Hsp. destruct (len <? 3) eqn:E3; [discriminate|lia]. }
  destruct (hdr_spec b1 tag r0 len r1 body rest outer stk Htag Hr0 ltac:(lia) ltac:(lia) ltac:(lia) Elen Es0 Etk H14 Hb T)
    as (b' & E1 & Hb' & Ec & El & Elb & Hbb & Hbr).
  rewrite <- Hn in E1. pose proof (bs_null _ _ _ _ _ Hb') as Nl.
  destruct (tag / 16 =? 0) eqn:T0; [discriminate|].
  destruct (tag / 16 =? 2) eqn:T2.
  { inversion Hsp; subst x rest'. assert (Et : tag / 16 = 2) by lia. rewrite Et in Ec.
    destruct (read_int_gen tot Htot b' body (rest ++ outer) stk false Hbb Hb' El Ec ltac:(discriminate))
      as (b'' & v & Er & Ev & Hb'').
    eexists. split; [eapply raw_int; [exact E1|left; exact Ec|exact Nl|exact Er]|]. split; [apply SH2|].
    split; [|split; [left; exact Hb''|exact Hbr]]. split; [reflexivity|]. rsimpl. exists v. split; [reflexivity|]. exact Ev. }
  destruct (tag / 16 =? 3) eqn:T3.
  { destruct (sp_uint body =? 0) eqn:Ez; [discriminate|]. inversion Hsp; subst x rest'.
    assert (Et : tag / 16 = 3) by lia. rewrite Et in Ec.
    destruct (read_int_gen tot Htot b' body (rest ++ outer) stk true Hbb Hb' El Ec) as (b'' & v & Er & Ev & Hb'').
    { intros _. change (from_be body) with (sp_uint body). lia. }
    eexists. split; [eapply raw_int; [exact E1|right; exact Ec|exact Nl|exact Er]|]. split; [apply SH2|].
    split; [|split; [left; exact Hb''|exact Hbr]]. split; [reflexivity|]. rsimpl. exists v. split; [reflexivity|]. exact Ev. }
  destruct (tag / 16 =? 4) eqn:T4.
  { assert (Et : tag / 16 = 4) by lia. rewrite Et in Ec.
    assert (Hl048 : length body = 0%nat \/ length body = 4%nat \/ length body = 8%nat).
    { destruct (len =? 0) eqn:L0; [lia|]. destruct (len =? 4) eqn:L4; [lia|]. destruct (len =? 8) eqn:L8; [lia|discriminate]. }
    destruct (read_float_gen tot Htot b' body (rest ++ outer) stk Hb' El Ec Hl048) as (b'' & Er & Hb'').
    assert (Hx : x = VFloat (match length body with 0%nat => 0 | 4%nat => widen (from_be body) | _ => from_be body end) /\ rest' = rest).
    { destruct Hl048 as [H|[H|H]]; rewrite H; [replace (len =? 0) with true in Hsp by lia|
        replace (len =? 0) with false in Hsp by lia; replace (len =? 4) with true in Hsp by lia|
        replace (len =? 0) with false in Hsp by lia; replace (len =? 4) with false in Hsp by lia;
        replace (len =? 8) with true in Hsp by lia]; inversion Hsp; split; reflexivity. }
    destruct Hx as [-> ->].
    eexists. split; [eapply raw_float; [exact E1|exact Ec|exact Nl|exact Er]|]. split; [apply SH2|].
    split; [|split; [left; exact Hb''|exact Hbr]]. split; reflexivity. }
  destruct (tag / 16 =? 5) eqn:T5.
  { assert (Et : tag / 16 = 5) by lia. rewrite Et in Ec.
    destruct body as [|c0 body'].
    - inversion Hsp; subst x rest'.
      assert (Nb : b_code b' <> bcBVM) by (rewrite Ec; discriminate).
      destruct (readN_body tot Htot b' [] (rest ++ outer) stk Hb' El Nb) as (b1' & E & Hd & _).
      assert (Er : b_read_decimal b' = (done_value b1', Ok {| d_coef := 0; d_exp := 0; d_negzero := false |})).
      { unfold b_read_decimal, b_read_decimal_len. rewrite Ec. change (negb (bcDecimal =? bcDecimal)) with false. cbv iota.
        rewrite El. cbn [length N.of_nat N.ltb N.compare]. revert E. rewrite El. cbn [length N.of_nat].
        unfold b_readN. cbn [N.eqb]. intros E. inversion E. reflexivity. }
      eexists. split; [eapply raw_decimal; [exact E1|exact Ec|exact Nl|exact Er]|]. split; [apply SH2|].
      split; [|split; [left; exact Hd|exact Hbr]]. split; reflexivity.
    - destruct (lim_varint (c0 :: body')) as [[[e ng] cb]|] eqn:Ev; [|discriminate].
      destruct (sp_int cb) as [c nz] eqn:Esi.
      inversion Hsp; subst x rest'.
      destruct (read_decimal_gen tot Htot b' (c0 :: body') (rest ++ outer) stk e ng cb Hbb ltac:(discriminate) Ev Hb' El Ec)
        as (b'' & Er & Hb'').
      rewrite Esi in Er. cbn [fst snd] in Er.
      eexists. split; [eapply raw_decimal; [exact E1|exact Ec|exact Nl|exact Er]|]. split; [apply SH2|].
      split; [|split; [left; exact Hb''|exact Hbr]]. split; reflexivity. }
  destruct (tag / 16 =? 6) eqn:T6.
  { assert (Et : tag / 16 = 6) by lia. rewrite Et in Ec. destruct (ts body) as [u| | |] eqn:Ets; try discriminate.
    destruct u. inversion Hsp; subst x rest'.
    destruct (read_timestamp_body tot Htot b' ts body (rest ++ outer) stk Ets Hb' El Ec) as (b'' & Er & Hb'').
    eexists. split; [eapply raw_timestamp; [exact E1|exact Ec|exact Nl|exact Er]|]. split; [apply SH2|].
    split; [|split; [left; exact Hb''|exact Hbr]]. split; reflexivity. }
  destruct (tag / 16 =? 7) eqn:T7.
  { assert (Et : tag / 16 = 7) by lia. rewrite Et in Ec. destruct (8 <? len) eqn:E8; [discriminate|].
    destruct (resolve_sid ctx (sp_uint body)) as [y|] eqn:Ery; [|discriminate]. inversion Hsp; subst x rest'.
    destruct (read_symbol_gen tot Htot b' body (rest ++ outer) stk Hbb ltac:(lia) Hb' El Ec) as (b'' & Er & Hb'').
    destruct (resolve_tok tab ctx _ y HTC Ery) as (Etok & _ & _ & Hsid & _).
    eexists. split; [eapply raw_symbol; [exact E1|exact Ec|exact Nl|exact Er|exact Hl|exact Etok]|].
    split; [repeat split|]. split; [|split; [left; exact Hb''|exact Hbr]]. split; [reflexivity|]. rsimpl.
    eexists. split; [reflexivity|]. apply proj_show_tok. exact Hsid. }
  destruct (tag / 16 =? 8) eqn:T8.
  { assert (Et : tag / 16 = 8) by lia. rewrite Et in Ec. destruct (utf8_valid body) eqn:Eu; [|discriminate].
    inversion Hsp; subst x rest'.
    destruct (read_string_body tot Htot b' body (rest ++ outer) stk Eu Hb' El Ec) as (b'' & Er & Hb'').
    eexists. split; [eapply raw_string; [exact E1|exact Ec|exact Nl|exact Er]|]. split; [apply SH2|].
    split; [|split; [left; exact Hb''|exact Hbr]]. split; reflexivity. }
  destruct (tag / 16 =? 9) eqn:T9.
  { assert (Et : tag / 16 = 9) by lia. rewrite Et in Ec. inversion Hsp; subst x rest'.
    destruct (read_bytes_body tot Htot b' body (rest ++ outer) stk Hb' El (or_introl Ec)) as (b'' & Er & Hb'').
    eexists. split; [eapply raw_bytes; [exact E1|left; exact Ec|exact Nl|exact Er]|]. split; [apply SH2|].
    split; [|split; [left; exact Hb''|exact Hbr]]. rewrite Ec. split; reflexivity. }
  destruct (tag / 16 =? 10) eqn:T10.
  { assert (Et : tag / 16 = 10) by lia. rewrite Et in Ec. inversion Hsp; subst x rest'.
    destruct (read_bytes_body tot Htot b' body (rest ++ outer) stk Hb' El (or_intror Ec)) as (b'' & Er & Hb'').
    eexists. split; [eapply raw_bytes; [exact E1|right; exact Ec|exact Nl|exact Er]|]. split; [apply SH2|].
    split; [|split; [left; exact Hb''|exact Hbr]]. rewrite Ec. split; reflexivity. }
  (* containers and wrappers are not scalars *)
  exfalso.
  destruct (tag / 16 =? 11); [destruct (sp_items _ _ _); [inversion Hsp; subst x; exact Hs|discriminate]|].
  destruct (tag / 16 =? 12); [destruct (sp_items _ _ _); [inversion Hsp; subst x; exact Hs|discriminate]|].
  destruct (tag / 16 =? 13); [destruct (sp_items _ _ _); [inversion Hsp; subst x; exact Hs|discriminate]|].
  destruct (tag / 16 =? 14); [|discriminate].
  destruct (len <? 3); [discriminate|]. destruct (lim_varuint body) as [[alen r2]|]; [|discriminate].
  destruct (alen =? 0); [discriminate|]. destruct (take_n alen r2) as [[ab vb]|]; [|discriminate].
  destruct (sl_annots ctx (length ab) ab); [|discriminate]. destruct vb as [|vt vb']; [discriminate|].
  destruct (vt / 16 =? 14); [discriminate|]. destruct (sl_value ts f ctx (vt :: vb')) as [[[v|] [|]]|]; try discriminate.
  inversion Hsp; subst x. exact Hs.
Qed.

(* ---- one raw item: a NOP pad --------------------------------------------------------------------------------------------- *)
(* the symbol ID behind a symbol value (for the imports field of a local symbol table) *)
Lemma raw_symbol_sid api fuel r b1 f tag r0 y rest' outer stk :
  Forall (fun c => c < 256) (tag :: r0) -> sl_value ts (S f) ctx (tag :: r0) = Some (Some (VSymbol y), rest') ->
  BS b1 ((tag :: r0) ++ outer) bssBeforeValue stk tot -> top_ok tot stk outer ->
  b_next (r_bits r) = b_next b1 -> r_lst r = Some tab ->
  exists r1 sid, r_next_raw ts api fuel r = (r1, Ok true) /\ r_value r1 = RSymbol (tok_of_sym y sid) /\
                 resolve_sid ctx sid = Some y.
Proof.
  intros Hbytes Hsp Hb T Hn Hl. inversion Hbytes as [|? ? Htag Hr0]; subst.
  destruct (tag_split tag Htag) as (Etag & Ht16 & Hlo16).
  cbn [sl_value] in Hsp. cbv zeta in Hsp.
  destruct (tag / 16 =? 15) eqn:E15; [discriminate|].
  destruct (tag mod 16 =? 15) eqn:El15; [destruct (null_type (tag / 16)); discriminate|].
  destruct (tag / 16 =? 1) eqn:Et1.
  { destruct (tag mod 16 =? 0); [discriminate|]. destruct (tag mod 16 =? 1); discriminate. }
  set (sorted := (tag / 16 =? 13) && (tag mod 16 =? 1)) in *.
  destruct (if (tag mod 16 =? 14) || sorted then lim_varuint r0 else Some (tag mod 16, r0)) as [[len r1]|] eqn:Elen;
    [|discriminate].
  destruct (sorted && (len =? 0)) eqn:Es0; [discriminate|].
  destruct (take_n len r1) as [[body rest]|] eqn:Etk; [|discriminate].
  destruct (tag / 16 =? 0) eqn:T0; [discriminate|].
  destruct (tag / 16 =? 2) eqn:T2; [discriminate|].
  destruct (tag / 16 =? 3) eqn:T3; [destruct (sp_uint body =? 0); discriminate|].
  destruct (tag / 16 =? 4) eqn:T4.
  { destruct (len =? 0); [discriminate|]. destruct (len =? 4); [discriminate|]. destruct (len =? 8); discriminate. }
  destruct (tag / 16 =? 5) eqn:T5.
  { destruct body; [discriminate|]. destruct (lim_varint _) as [[[e ng] cb]|]; [|discriminate]. destruct (sp_int cb). discriminate. }
  destruct (tag / 16 =? 6) eqn:T6; [destruct (ts body); discriminate|].
  destruct (tag / 16 =? 7) eqn:T7.
  2:{ exfalso. destruct (tag / 16 =? 8); [destruct (utf8_valid body); discriminate|].
      destruct (tag / 16 =? 9); [discriminate|]. destruct (tag / 16 =? 10); [discriminate|].
      destruct (tag / 16 =? 11); [destruct (sp_items _ _ _); discriminate|].
      destruct (tag / 16 =? 12); [destruct (sp_items _ _ _); discriminate|].
      destruct (tag / 16 =? 13); [destruct (sp_items _ _ _); discriminate|].
      destruct (tag / 16 =? 14); [|discriminate].
      destruct (len <? 3); [discriminate|]. destruct (lim_varuint body) as [[alen r2]|]; [|discriminate].
      destruct (alen =? 0); [discriminate|]. destruct (take_n alen r2) as [[ab vb]|]; [|discriminate].
      destruct (sl_annots ctx (length ab) ab); [|discriminate]. destruct vb as [|vt vr]; [discriminate|].
      destruct (vt / 16 =? 14); [discriminate|].
      destruct (sl_value ts f ctx (vt :: vr)) as [[[x|] [|? ?]]|]; discriminate. }
  assert (H14 : tag / 16 = 14 -> len <> 0) by lia.
  destruct (hdr_spec b1 tag r0 len r1 body rest outer stk Htag Hr0 ltac:(lia) ltac:(lia) ltac:(lia) Elen Es0 Etk H14 Hb T)
    as (b' & E1 & Hb' & Ec & El & Elb & Hbb & Hbr).
  rewrite <- Hn in E1. pose proof (bs_null _ _ _ _ _ Hb') as Nl.
  assert (Et : tag / 16 = 7) by lia. rewrite Et in Ec. destruct (8 <? len) eqn:E8; [discriminate|].
  destruct (resolve_sid ctx (sp_uint body)) as [y'|] eqn:Ery; [|discriminate]. inversion Hsp; subst y' rest'.
  destruct (read_symbol_gen tot Htot b' body (rest ++ outer) stk Hbb ltac:(lia) Hb' El Ec) as (b'' & Er & Hb'').
  destruct (resolve_tok tab ctx _ y HTC Ery) as (Etok & _).
  eexists _, (sp_uint body). split; [eapply raw_symbol; [exact E1|exact Ec|exact Nl|exact Er|exact Hl|exact Etok]|].
  split; [reflexivity|exact Ery].
Qed.

Lemma sl_none_is_pad f tag r0 rest' : sl_value ts (S f) ctx (tag :: r0) = Some (None, rest') ->
  tag / 16 = 0 /\ tag mod 16 <> 15.
Proof.
  cbn [sl_value]. cbv zeta. destruct (tag / 16 =? 15); [discriminate|].
  destruct (tag mod 16 =? 15) eqn:E15. { destruct (null_type (tag / 16)); discriminate. }
  destruct (tag / 16 =? 1). { destruct (tag mod 16 =? 0); [discriminate|]. destruct (tag mod 16 =? 1); discriminate. }
  destruct (if (tag mod 16 =? 14) || ((tag / 16 =? 13) && (tag mod 16 =? 1)) then lim_varuint r0 else Some (tag mod 16, r0))
    as [[len r1]|]; [|discriminate].
  destruct ((tag / 16 =? 13) && (tag mod 16 =? 1) && (len =? 0)); [discriminate|].
  destruct (take_n len r1) as [[body rest]|]; [|discriminate].
  destruct (tag / 16 =? 0) eqn:E0; [intros _; lia|].
  intros H. exfalso. revert H.
  repeat match goal with
         | |- (if ?c then _ else _) = _ -> _ => destruct c
         | |- option_map _ ?c = _ -> _ => destruct c; cbn [option_map]
         | |- (let '(_, _) := ?c in _) = _ -> _ => destruct c
         | |- match ?c with _ => _ end = _ -> _ => destruct c
         end; discriminate.
Qed.

Lemma raw_nop_spec api fuel r b1 f tag r0 rest' outer stk :
  Forall (fun c => c < 256) (tag :: r0) -> sl_value ts (S f) ctx (tag :: r0) = Some (None, rest') ->
  BS b1 ((tag :: r0) ++ outer) bssBeforeValue stk tot -> top_ok tot stk outer ->
  b_next (r_bits r) = b_next b1 ->
  exists b' b'', r_next_raw ts api fuel r = (rs_bits (rs_bits r b') b'', Ok false) /\
             BS b'' (rest' ++ outer) (sav stk) stk tot /\ Forall (fun c => c < 256) rest' /\ b_ioerr b'' = b_ioerr b1.
Proof.
  intros Hbytes Hsp Hb T Hn. inversion Hbytes as [|? ? Htag Hr0]; subst.
  destruct (sl_none_is_pad _ _ _ _ Hsp) as [Et0 Hl15].
  assert (Hx : exists len r1 body,
    (if (tag mod 16 =? 14) || ((tag / 16 =? 13) && (tag mod 16 =? 1)) then lim_varuint r0 else Some (tag mod 16, r0))
      = Some (len, r1) /\ take_n len r1 = Some (body, rest')).
  { revert Hsp. cbn [sl_value]. cbv zeta. rewrite Et0. cbn [N.eqb andb].
    replace (tag mod 16 =? 15) with false by lia.
    destruct (if (tag mod 16 =? 14) || false then lim_varuint r0 else Some (tag mod 16, r0)) as [[len r1]|] eqn:El;
      [|discriminate]. destruct (take_n len r1) as [[body rest]|] eqn:Etk; [|discriminate].
    intros H. inversion H; subst. eauto. }
  destruct Hx as (len & r1 & body & Elen & Etk).
  assert (Es0 : ((tag / 16 =? 13) && (tag mod 16 =? 1)) && (len =? 0) = false) by (rewrite Et0; reflexivity).
  destruct (hdr_spec b1 tag r0 len r1 body rest' outer stk Htag Hr0 ltac:(lia) Hl15 ltac:(lia) Elen Es0 Etk ltac:(lia) Hb T)
    as (b' & E1 & Hb' & Ec & El & Elb & Hbb & Hbr).
  rewrite <- Hn in E1. rewrite Et0 in Ec. change (bitcode_of_high 0) with bcNull in Ec.
  destruct (skip_body tot Htot b' body (rest' ++ outer) stk Hb' El) as (b'' & Esk & Hb''); [rewrite Ec; discriminate|].
  exists b', b''. split; [|split; [assumption|split; [assumption|]]].
  2:{ destruct (b_next_spec b1 (bs_inv _ _ _ _ _ Hb)) as [(W1 & _) _]. rewrite <- Hn, E1 in W1.
      destruct (b_skip_value_spec b' (bs_inv _ _ _ _ _ Hb')) as [(W2 & _) _]. rewrite Esk in W2. cbn [fst] in W1, W2.
      rewrite (wle_ioerr _ _ W2), (wle_ioerr _ _ W1). reflexivity. }
  unfold r_next_raw. rewrite E1. cbv zeta. rewrite Ec, (bs_null _ _ _ _ _ Hb'). disp. unfold lift. rewrite Esk. reflexivity.
Qed.
End Agree.
