(* BinWriter.v — executable model of ion/binarywriter.go + writer.go + ctx.go +
   buf.go: the binary Writer as a state machine over API calls.

   What is kept from the Go code: the context stack, the buffer stack with the
   separately accumulated lengths (datagram.len += child.Len()), the pending
   field name / annotations, the error field exactly where the code sets,
   overwrites or fails to set it, the symbol-table builder or the fixed table,
   wroteLST, and the sequence of Write calls issued to the io.Writer.
   The io.Writer is a sink that accepts a given number of writes and then fails
   every write (budget None = never fails).
   Not modelled: shared-table imports of NewBinaryWriter(out, sts...) (see
   C11's correspondence); timestamps arrive pre-encoded (length from
   timestampLen, body from appendTimestamp; model in Num/Timestamp.v).
   No proofs in this file. *)
From Coq Require Import String List NArith ZArith Bool.
From IonV Require Import Base.Wire Bin.Bits Data.Ion Num.Float.
Import ListNotations.
Open Scope N_scope.

(* ---- API calls --------------------------------------------------------------- *)
Inductive wcall :=
| CFieldName (t : tok)
| CAnnotation (t : tok)
| CAnnotations (ts : list tok)
| CNull
| CNullType (t : N)
| CBool (b : bool)
| CInt (z : Z)                      (* int64 *)
| CUint (n : N)                     (* uint64 *)
| CBigInt (z : option Z)            (* None = nil *big.Int *)
| CFloat (bits : N)
| CDecimal (d : option dec)         (* None = nil *Decimal *)
| CTimestamp (len : N) (body : list N)
| CSymbol (t : tok)
| CSymbolFromString (t : text)
| CString (t : text)
| CClob (b : list N)
| CBlob (b : list N)
| CBeginList | CEndList | CBeginSexp | CEndSexp | CBeginStruct | CEndStruct
| CFinish.

(* ---- the io.Writer ------------------------------------------------------------- *)
Record sink := { sk_writes : list (list N);    (* accepted writes, oldest first *)
                 sk_budget : option nat }.     (* writes still accepted; None = unlimited *)
Definition sink_write (k : sink) (chunk : list N) : sink * bool :=
  match sk_budget k with
  | None => ({| sk_writes := sk_writes k ++ [chunk]; sk_budget := None |}, true)
  | Some O => (k, false)
  | Some (S n) => ({| sk_writes := sk_writes k ++ [chunk]; sk_budget := Some n |}, true)
  end.
Fixpoint sink_write_all (k : sink) (chunks : list (list N)) : sink * bool :=
  match chunks with
  | [] => (k, true)
  | c :: r => let '(k', ok) := sink_write k c in
              if ok then sink_write_all k' r else (k', false)
  end.
Definition sink_bytes (k : sink) : list N := concat (sk_writes k).

(* ---- buf.go --------------------------------------------------------------------- *)
(* a bufseq: datagram (code None) or container (code Some c); children are kept as the
   chunks they will be written as, in order; [bs_len] is the accumulated sum of child.Len() *)
Record bufseq := { bs_code : option N; bs_len : N; bs_chunks : list (list N) }.
Definition new_seq (code : option N) : bufseq := {| bs_code := code; bs_len := 0; bs_chunks := [] |}.

(* a node ready to be emitted: what Len() answers, and the writes EmitTo performs *)
Record node := { nd_len : N; nd_chunks : list (list N) }.
Definition atom (b : list N) : node := {| nd_len := N.of_nat (length b); nd_chunks := [b] |}.
(* container.Len() *)
Definition container_len (len : N) : N := if len <? 14 then len + 1 else len + (varuint_len len + 1).
Definition node_of_seq (q : bufseq) : node :=
  match bs_code q with
  | None => {| nd_len := bs_len q; nd_chunks := bs_chunks q |}
  | Some c => {| nd_len := container_len (bs_len q);
                 nd_chunks := append_tag [] c (bs_len q) :: bs_chunks q |}
  end.
Definition seq_append (q : bufseq) (n : node) : bufseq :=
  {| bs_code := bs_code q; bs_len := bs_len q + nd_len n; bs_chunks := bs_chunks q ++ nd_chunks n |}.

(* ---- the writer ------------------------------------------------------------------ *)
Definition ctxStruct : N := 1.  Definition ctxList : N := 2.  Definition ctxSexp : N := 3.

Record wstate := {
  w_out : sink;
  w_ctx : list N;                 (* top first; empty = top level *)
  w_err : bool;                   (* w.err != nil *)
  w_field : option tok;
  w_annots : list tok;
  w_bufs : list bufseq;           (* top first *)
  w_lst : option (list text);     (* NewBinaryWriterLST: the local symbols of the fixed table *)
  w_lstb : list text;             (* builder: local symbols added so far *)
  w_wrote_lst : bool
}.

Definition set_err (w : wstate) (e : bool) : wstate :=
  {| w_out := w_out w; w_ctx := w_ctx w; w_err := e; w_field := w_field w; w_annots := w_annots w;
     w_bufs := w_bufs w; w_lst := w_lst w; w_lstb := w_lstb w; w_wrote_lst := w_wrote_lst w |}.
Definition set_out (w : wstate) (k : sink) : wstate :=
  {| w_out := k; w_ctx := w_ctx w; w_err := w_err w; w_field := w_field w; w_annots := w_annots w;
     w_bufs := w_bufs w; w_lst := w_lst w; w_lstb := w_lstb w; w_wrote_lst := w_wrote_lst w |}.
Definition set_ctx (w : wstate) (c : list N) : wstate :=
  {| w_out := w_out w; w_ctx := c; w_err := w_err w; w_field := w_field w; w_annots := w_annots w;
     w_bufs := w_bufs w; w_lst := w_lst w; w_lstb := w_lstb w; w_wrote_lst := w_wrote_lst w |}.
Definition set_pending (w : wstate) (f : option tok) (a : list tok) : wstate :=
  {| w_out := w_out w; w_ctx := w_ctx w; w_err := w_err w; w_field := f; w_annots := a;
     w_bufs := w_bufs w; w_lst := w_lst w; w_lstb := w_lstb w; w_wrote_lst := w_wrote_lst w |}.
Definition set_bufs (w : wstate) (b : list bufseq) : wstate :=
  {| w_out := w_out w; w_ctx := w_ctx w; w_err := w_err w; w_field := w_field w; w_annots := w_annots w;
     w_bufs := b; w_lst := w_lst w; w_lstb := w_lstb w; w_wrote_lst := w_wrote_lst w |}.
Definition set_lstb (w : wstate) (l : list text) : wstate :=
  {| w_out := w_out w; w_ctx := w_ctx w; w_err := w_err w; w_field := w_field w; w_annots := w_annots w;
     w_bufs := w_bufs w; w_lst := w_lst w; w_lstb := l; w_wrote_lst := w_wrote_lst w |}.
Definition set_wrote (w : wstate) (b : bool) : wstate :=
  {| w_out := w_out w; w_ctx := w_ctx w; w_err := w_err w; w_field := w_field w; w_annots := w_annots w;
     w_bufs := w_bufs w; w_lst := w_lst w; w_lstb := w_lstb w; w_wrote_lst := b |}.

Definition clear (w : wstate) : wstate := set_pending w None [].
Definition ctx_peek (w : wstate) : N := match w_ctx w with [] => 0 | c :: _ => c end.
Definition in_struct (w : wstate) : bool := ctx_peek w =? ctxStruct.

(* NewBinaryWriter(out) / NewBinaryWriterLST(out, lst) *)
Definition new_writer (budget : option nat) : wstate :=
  {| w_out := {| sk_writes := []; sk_budget := budget |}; w_ctx := []; w_err := false;
     w_field := None; w_annots := []; w_bufs := [new_seq None];
     w_lst := None; w_lstb := []; w_wrote_lst := false |}.
Definition new_writer_lst (budget : option nat) (locals : list text) : wstate :=
  {| w_out := {| sk_writes := []; sk_budget := budget |}; w_ctx := []; w_err := false;
     w_field := None; w_annots := []; w_bufs := [];
     w_lst := Some locals; w_lstb := []; w_wrote_lst := false |}.

(* a step returns the new state and whether the call returned nil *)
Definition ret := (wstate * bool)%type.
(* steps that can also panic *)
Definition pret := res ret.

(* emit(node) *)
Definition emit (w : wstate) (n : node) : ret :=
  match w_bufs w with
  | [] => let '(k, ok) := sink_write_all (w_out w) (nd_chunks n) in (set_out w k, ok)
  | q :: rest => (set_bufs w (seq_append q n :: rest), true)
  end.
Definition write (w : wstate) (b : list N) : ret := emit w (atom b).

(* ---- symbols ----------------------------------------------------------------------- *)
(* strconv.ParseInt(_, 10, 64) on the decimal digits after '$' *)
Definition is_digit (c : N) : bool := (48 <=? c) && (c <=? 57).
Definition parse_int64_digits (ds : text) : option Z :=
  match ds with
  | [] => None
  | _ => match parse_digits ds 0 with
         | Some n => if (Z.of_N n <=? 9223372036854775807)%Z then Some (Z.of_N n) else None
         | None => None
         end
  end.
(* symbolIdentifier: '$', then one or more decimal digits and nothing else (no sign) *)
Definition symbol_identifier (t : text) : option Z :=
  match t with
  | 36 :: (_ :: _) as r => if forallb is_digit r then parse_int64_digits r else None
  | _ => None
  end.

(* lst.FindByName / builder.FindByName over system symbols then locals.
   [skip_empty]: an index built by buildIndex never contains "" *)
Definition find_by_name (locals : list text) (skip_empty : bool) (t : text) : option N :=
  match index_of t system_symbols 1 with
  | Some i => Some i
  | None => if skip_empty && list_eqb t [] then None else index_of t locals 10
  end.

(* resolveFromSymbolTable: id, new state, ok *)
Definition resolve_from_table (w : wstate) (t : text) : wstate * N * bool :=
  match w_lst w with
  | Some locals =>
    match find_by_name locals true t with
    | Some id => (w, id, true)
    | None => (w, 0, false)
    end
  | None =>
    match find_by_name (w_lstb w) false t with
    | Some id => (w, id, true)
    | None => (set_lstb w (w_lstb w ++ [t]), 9 + N.of_nat (length (w_lstb w)) + 1, true)
    end
  end.
(* resolve: "$n" text is taken as SID n, unchecked *)
Definition resolve (w : wstate) (t : text) : wstate * N * bool :=
  match symbol_identifier t with
  | Some sid => (w, of_i64 sid, true)
  | None => resolve_from_table w t
  end.

(* ---- the local symbol table, written through the writer itself (lst.WriteTo) ------- *)
Definition tok_full (t : text) (sid : Z) : tok := {| tk_text := Some t; tk_sid := sid |}.
Definition lst_calls (locals : list text) : list wcall :=
  match locals with
  | [] => []                          (* only the system table imported and no symbols: nothing *)
  | _ => [CAnnotation (tok_full (s "$ion_symbol_table"%string) 3); CBeginStruct;
          CFieldName (tok_full (s "symbols"%string) 7); CBeginList]
         ++ map CString locals ++ [CEndList; CEndStruct]
  end.

(* ---- value framing -------------------------------------------------------------------- *)
Definition id_of_tok_field (w : wstate) (t : tok) : option (wstate * N) :=
  match tk_text t with
  | Some x => let '(w', id, ok) := resolve_from_table w x in if ok then Some (w', id) else None
  | None => if negb (tk_sid t =? -1)%Z then Some (w, of_i64 (tk_sid t)) else None
  end.
Definition id_of_tok_annot (w : wstate) (t : tok) : option (wstate * N) :=
  match tk_text t with
  | Some x => let '(w', id, ok) := resolve_from_table w x in if ok then Some (w', id) else None
  | None => if negb (tk_sid t =? -1)%Z then Some (w, of_i64 (tk_sid t)) else None
  end.
Fixpoint annot_ids (w : wstate) (ts : list tok) : wstate * option (list N) :=
  match ts with
  | [] => (w, Some [])
  | t :: r => match id_of_tok_annot w t with
              | None => (w, None)
              | Some (w', id) => match annot_ids w' r with
                                 | (w'', None) => (w'', None)
                                 | (w'', Some ids) => (w'', Some (id :: ids))
                                 end
              end
  end.

Section Machine.
(* [run_calls] is the machine itself, passed down so that beginValue can write the
   fixed table through the writer (w.lst.WriteTo(w)); tied at the bottom with fuel. *)
Variable run_lst : wstate -> list wcall -> res ret.

(* writeLST(lst): BVM atom, then lst.WriteTo(w) *)
Definition write_lst (w : wstate) (locals : list text) : res ret :=
  let '(w1, ok) := write w [224; 1; 0; 234] in
  if negb ok then Ok (w1, false) else run_lst w1 (lst_calls locals).

(* beginValue *)
Definition begin_value (w : wstate) : res ret :=
  let name := w_field w in
  let annots := w_annots w in
  let w := clear w in
  do '(w, ok) <- (match w_lst w with
                  | Some locals =>
                    if negb (w_wrote_lst w) then write_lst (set_wrote w true) locals else Ok (w, true)
                  | None => Ok (w, true)
                  end);
  if negb ok then Ok (w, false) else
  do '(w, ok) <- (if in_struct w then
                    match name with
                    | None => Ok (w, false)
                    | Some nm =>
                      match id_of_tok_field w nm with
                      | None => Ok (w, false)
                      | Some (w', id) => Ok (write w' (append_varuint [] id))
                      end
                    end
                  else Ok (w, true));
  if negb ok then Ok (w, false) else
  match annots with
  | [] => Ok (w, true)
  | _ =>
    match annot_ids w annots with
    | (w', None) => Ok (w', false)
    | (w', Some ids) =>
      let idlen := fold_left (fun a id => a + varuint_len id) ids 0 in
      let buf := fold_left (fun b id => append_varuint b id) ids (append_varuint [] idlen) in
      Ok (write (set_bufs w' (new_seq (Some 224) :: w_bufs w')) buf)
    end
  end.

(* endValue *)
Definition end_value (w : wstate) : ret :=
  match w_bufs w with
  | q :: rest =>
    match bs_code q with
    | Some c => if c =? 224 then emit (set_bufs w rest) (node_of_seq q) else (w, true)
    | None => (w, true)
    end
  | [] => (w, true)
  end.

(* writeValue(api, val): err-checked, sets w.err from each stage *)
Definition write_value (w : wstate) (val : list N) : res ret :=
  if w_err w then Ok (w, false) else
  do '(w, ok) <- begin_value w;
  if negb ok then Ok (set_err w true, false) else
  let '(w, ok) := write w val in
  if negb ok then Ok (set_err w true, false) else
  let '(w, ok) := end_value w in
  Ok (set_err w (negb ok), ok).

(* the WriteBigInt / WriteClob / WriteBlob shape: value written in several atoms *)
Definition write_value_chunks (w : wstate) (chunks : list (list N)) : res ret :=
  if w_err w then Ok (w, false) else
  do '(w, ok) <- begin_value w;
  if negb ok then Ok (set_err w true, false) else
  let '(w, ok) := fold_left (fun (st : ret) c => let '(w0, ok0) := st in
                               if ok0 then write w0 c else st) chunks (w, true) in
  if negb ok then Ok (set_err w true, false) else
  let '(w, ok) := end_value w in
  Ok (set_err w (negb ok), ok).

Definition lob_chunks (code : N) (val : list N) : list (list N) :=
  let n := N.of_nat (length val) in
  if n <? 64 then [append_tag [] code n ++ val] else [append_tag [] code n; val].

(* begin(api, t, code) / end(api, t) *)
Definition begin_container (w : wstate) (t code : N) : res ret :=
  if w_err w then Ok (w, false) else
  do '(w, ok) <- begin_value w;
  if negb ok then Ok (set_err w true, false) else
  Ok (set_bufs (set_ctx w (t :: w_ctx w)) (new_seq (Some code) :: w_bufs w), true).

Definition end_container (w : wstate) (t : N) : res ret :=
  if w_err w then Ok (w, false) else
  if negb (ctx_peek w =? t) then Ok (set_err w true, false) else
  let '(w, ok) := match w_bufs w with
                  | q :: rest => emit (set_bufs w rest) (node_of_seq q)
                  | [] => (w, true)
                  end in
  if negb ok then Ok (set_err w true, false) else
  let w := clear w in
  match w_ctx w with
  | [] => Panic                                   (* ctxstack.pop at top level: not reachable, t <> 0 *)
  | _ :: c => let '(w, ok) := end_value (set_ctx w c) in Ok (set_err w (negb ok), ok)
  end.

(* writeSymbolFromID *)
Definition write_symbol_id (w : wstate) (id : N) : res ret :=
  let vlength := uint_len id in
  write_value w (append_uint (append_tag [] 112 vlength) id).

Definition binary_null (t : N) : res N :=
  if t =? 0 then Ok 15 else if t =? 1 then Ok 15 else if t =? 2 then Ok 31 else if t =? 3 then Ok 47
  else if t =? 4 then Ok 79 else if t =? 5 then Ok 95 else if t =? 6 then Ok 111 else if t =? 7 then Ok 127
  else if t =? 8 then Ok 143 else if t =? 9 then Ok 159 else if t =? 10 then Ok 175 else if t =? 11 then Ok 191
  else if t =? 12 then Ok 207 else if t =? 13 then Ok 223 else Panic.   (* binaryNulls[t]: index out of range *)

Definition be_fixed (n : nat) (v : N) : list N :=
  (fix go (k : nat) (v : N) (acc : list N) : list N :=
     match k with O => acc | S k' => go k' (v / 256) (v mod 256 :: acc) end) n v [].

Definition step (w : wstate) (c : wcall) : res ret :=
  match c with
  | CFieldName t =>
    if w_err w then Ok (w, false)
    else if negb (in_struct w) then Ok (set_err w true, false)
    else Ok (set_pending w (Some t) (w_annots w), true)
  | CAnnotation t =>
    if w_err w then Ok (w, false) else Ok (set_pending w (w_field w) (w_annots w ++ [t]), true)
  | CAnnotations ts =>
    if w_err w then Ok (w, false) else Ok (set_pending w (w_field w) (w_annots w ++ ts), true)
  | CNull => write_value w [15]
  | CNullType t =>
    if w_err w then Ok (w, false) else
    if 14 <=? t then Ok (set_err w true, false)       (* int(t) >= len(binaryNulls): usage error *)
    else do b <- binary_null t; write_value w [b]
  | CBool b => write_value w [if b then 17 else 16]
  | CInt z =>
    if (z =? 0)%Z then write_value w [32] else
    let code := if (z <? 0)%Z then 48 else 32 in
    let mag := mag64 z in
    write_value w (append_uint (append_tag [] code (uint_len mag)) mag)
  | CUint n =>
    if n =? 0 then write_value w [32] else
    write_value w (append_uint (append_tag [] 32 (uint_len n)) n)
  | CBigInt oz =>
    if w_err w then Ok (w, false) else
    match oz with
    | None => Ok (set_err w true, false)             (* usage error: value is nil *)
    | Some z =>
      if (z =? 0)%Z then write_value_chunks w [[32]] else
      let code := if (z <? 0)%Z then 48 else 32 in
      let bs := big_bytes (Z.to_N (Z.abs z)) in
      let bl := N.of_nat (length bs) in
      write_value_chunks w (if bl <? 64 then [append_tag [] code bl ++ bs] else [append_tag [] code bl; bs])
    end
  | CFloat bits =>
    if f64_pos_zero bits then write_value w [64]
    else if f64_is_nan bits then write_value w [68; 127; 192; 0; 0]
    else if uses_f32 bits then write_value w (68 :: be_fixed 4 (narrow bits))
    else write_value w (72 :: be_fixed 8 bits)
  | CDecimal od =>
    if w_err w then Ok (w, false) else
    match od with
    | None => Ok (set_err w true, false)             (* usage error: value is nil *)
    | Some d =>
      if (d_coef d =? 0)%Z && (d_exp d =? 0)%Z && negb (d_negzero d) then write_value w [80] else
      let vlength := varint_len (d_exp d) + (if d_negzero d then 1 else bigint_len (d_coef d)) in
      let buf := append_varint (append_tag [] 80 vlength) (d_exp d) in
      write_value w (if d_negzero d then buf ++ [128] else append_bigint buf (d_coef d))
    end
  | CTimestamp len body => write_value w (append_tag [] 96 len ++ body)
  | CSymbol t =>
    if w_err w then Ok (w, false) else
    match tk_text t with
    | Some x =>
      let '(w', id, ok) := resolve_from_table w x in
      let w' := set_err w' (negb ok) in
      if negb ok then Ok (w', false) else write_symbol_id w' id
    | None =>
      if negb (tk_sid t =? -1)%Z then write_symbol_id w (of_i64 (tk_sid t))
      else Ok (set_err w true, false)
    end
  | CSymbolFromString x =>
    if w_err w then Ok (w, false) else
    let '(w', id, ok) := resolve w x in
    let w' := set_err w' (negb ok) in
    if negb ok then Ok (w', false) else write_symbol_id w' id
  | CString x =>
    match x with
    | [] => write_value w [128]
    | _ => write_value w (append_tag [] 128 (N.of_nat (length x)) ++ x)
    end
  | CClob b => write_value_chunks w (lob_chunks 144 b)
  | CBlob b => write_value_chunks w (lob_chunks 160 b)
  | CBeginList => begin_container w ctxList 176
  | CEndList => end_container w ctxList
  | CBeginSexp => begin_container w ctxSexp 192
  | CEndSexp => end_container w ctxSexp
  | CBeginStruct => begin_container w ctxStruct 208
  | CEndStruct => end_container w ctxStruct
  | CFinish =>
    if w_err w then Ok (w, false) else
    if negb (ctx_peek w =? 0) then Ok (w, false) else     (* error returned, not recorded *)
    let w := set_wrote (clear w) false in
    match w_bufs w with
    | [] => Ok (w, true)
    | q :: rest =>
      match rest with
      | _ :: _ => Panic                                   (* "at top level but too many bufseqs" *)
      | [] =>
        let w := set_bufs w [] in
        (* lst := w.lstb.Build(); w.err = writeLST(lst) *)
        do '(w, ok) <- write_lst w (w_lstb w);
        if negb ok then Ok (set_err w true, false) else
        let '(w, ok) := emit w (node_of_seq q) in
        if negb ok then Ok (set_err w true, false) else
        (* start buffering the next batch *)
        Ok (set_bufs w [new_seq None], true)
      end
    end
  end.
End Machine.

(* tie the knot: the table is written through the machine itself; nesting depth of
   that recursion is 1 (lst_calls contains no call that writes a table again) *)
Fixpoint run_calls (fuel : nat) : wstate -> list wcall -> res ret :=
  match fuel with
  | O => fun _ _ => OutOfFuel
  | S f =>
    fix go (w : wstate) (cs : list wcall) : res ret :=
      match cs with
      | [] => Ok (w, true)
      | c :: r =>
        do '(w', ok) <- step (run_calls f) w c;
        if ok then go w' r            (* WriteTo returns at the first error *)
        else Ok (w', false)
      end
  end.
Definition wstep (w : wstate) (c : wcall) : res ret := step (run_calls 2) w c.

(* drive a whole call sequence the way a user does: every call is made regardless of
   earlier results; the per-call results are recorded *)
Fixpoint drive (w : wstate) (cs : list wcall) (acc : list bool) : res (wstate * list bool) :=
  match cs with
  | [] => Ok (w, rev_append acc [])
  | c :: r => do '(w', ok) <- wstep w c; drive w' r (ok :: acc)
  end.
