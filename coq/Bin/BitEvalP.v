(* BitEvalP.v — what the bitstream operations compute on the writer's encodings:
   Next on a tagged value, the typed reads on its body, field IDs and annotation
   wrappers (used by the reader round-trip theorem, C01/C03). *)
From Coq Require Import String List NArith ZArith Bool Lia ZifyBool ZifyN ZifyNat.
From IonV Require Import Base.Wire Base.Utf8 Bin.Bits Bin.BitsP Data.Ion Num.Float Bin.BitStream
  Bin.BitStreamP Bin.BitStreamNextP Bin.BinWriter Bin.RoundTripBin Bin.RoundTripBinS.
Import ListNotations.
Open Scope N_scope.
Ltac Zify.zify_post_hook ::= Z.div_mod_to_equations.

Ltac bsimpl :=
  cbn [b_in b_ioerr b_pos b_state b_stack b_code b_null b_len b_alloc b_avail b_fuel
       upd_in upd_state upd_stack upd_cur upd_alloc b_clear done_value fst snd] in *.

(* ---- the stream readers agree with the list readers of Bits.v ------------------------------------------ *)
Lemma b_read1_cons b c r : b_in b = c :: r ->
  b_read1 b = (upd_in b r (wrap64 (b_pos b + 1)) (b_avail b - 1), Ok c).
Proof. intros E. unfold b_read1, b_read. rewrite E. reflexivity. Qed.

Lemma b_varuint_loop_list fuel : forall b max val len v l rest,
  read_varuint_loop fuel max val len (b_in b) = Ok (v, l, rest) ->
  exists b', b_varuint_loop fuel b max val len = (b', Ok (v, l)) /\ b_in b' = rest.
Proof.
  induction fuel as [|f IH]; intros b max val len v l rest; cbn [read_varuint_loop b_varuint_loop]; [discriminate|].
  destruct (max <=? len); [discriminate|]. destruct (b_in b) as [|c r] eqn:E; [discriminate|].
  rewrite (b_read1_cons _ _ _ E). destruct (max_u64_shr7 <? val); [discriminate|].
  destruct (128 <=? c).
  - intros H. inversion H; subst. eexists. split; [reflexivity|reflexivity].
  - intros H. apply (IH (upd_in b r (wrap64 (b_pos b + 1)) (b_avail b - 1))). exact H.
Qed.

Lemma b_read_varuint_enc b max v rest : avail_ok b -> b_in b = append_varuint [] v ++ rest ->
  v < two64 -> varuint_len v <= max ->
  exists b', b_read_varuint b max = (b', Ok (v, varuint_len v)) /\ adv (varuint_len v) b b' /\ b_in b' = rest.
Proof.
  intros A E Hv Hm. pose proof (varuint_roundtrip v max rest Hv Hm) as R. unfold read_varuint in R.
  rewrite <- E in R. destruct (b_varuint_loop_list 11 b (N.min max 10) 0 0 _ _ _ R) as (b' & E1 & E2).
  exists b'. unfold b_read_varuint. split; [exact E1|]. split; [|exact E2].
  destruct (b_read_varuint_spec b max A) as [(_ & _ & Post) _]. unfold b_read_varuint in Post. rewrite E1 in Post.
  destruct (Post (v, varuint_len v) eq_refl) as (Ad & _). exact Ad.
Qed.

Lemma b_varint_loop_list fuel : forall b max val len neg v sg l rest,
  read_varint_loop fuel max val len neg (b_in b) = Ok (v, sg, l, rest) ->
  exists b', b_varint_loop fuel b max val len neg = (b', Ok (v, sg, l)) /\ b_in b' = rest.
Proof.
  induction fuel as [|f IH]; intros b max val len neg v sg l rest; cbn [read_varint_loop b_varint_loop]; [discriminate|].
  destruct (max <=? len); [discriminate|]. destruct (b_in b) as [|c r] eqn:E; [discriminate|].
  rewrite (b_read1_cons _ _ _ E). destruct (max_i64_shr7 <? val); [discriminate|].
  destruct (128 <=? c).
  - intros H. inversion H; subst. eexists. split; [reflexivity|reflexivity].
  - intros H. apply (IH (upd_in b r (wrap64 (b_pos b + 1)) (b_avail b - 1))). exact H.
Qed.

Lemma b_read_varint_list b max v sg l rest : read_varint max (b_in b) = Ok (v, sg, l, rest) ->
  exists b', b_read_varint b max = (b', Ok (v, sg, l)) /\ b_in b' = rest.
Proof.
  unfold read_varint, b_read_varint. destruct (max =? 0); [discriminate|].
  destruct (b_in b) as [|c r] eqn:E; [discriminate|]. rewrite (b_read1_cons _ _ _ E).
  destruct (128 <=? c).
  - intros H. inversion H; subst. eexists. split; reflexivity.
  - intros H. apply (b_varint_loop_list 11 (upd_in b r (wrap64 (b_pos b + 1)) (b_avail b - 1))). exact H.
Qed.

Lemma b_readN_bytes b n b' bs : b_readN b n = (b', Ok bs) -> bs = firstn (N.to_nat n) (b_in b).
Proof.
  unfold b_readN. destruct (n =? 0) eqn:E0.
  - intros H. inversion H; subst. replace n with 0 by lia. reflexivity.
  - destruct (n <=? b_avail b); [|discriminate]. bsimpl. rewrite split_at_spec. intros H. inversion H. reflexivity.
Qed.
Lemma b_readN_enough b n : avail_ok b -> n <= b_avail b -> exists b' bs, b_readN b n = (b', Ok bs).
Proof.
  intros A H. unfold b_readN. destruct (n =? 0); [eauto|]. replace (n <=? b_avail b) with true by lia.
  bsimpl. rewrite split_at_spec. eauto.
Qed.

(* ---- the state the evaluation lemmas talk about ------------------------------------------------------------ *)
Record BS (b : bstate) (inp : list N) (st : N) (stk : list (N * N)) (tot : N) : Prop := {
  bs_inv : binv b;
  bs_in : b_in b = inp;
  bs_state : b_state b = st;
  bs_stack : b_stack b = stk;
  bs_null : b_null b = false;
  bs_tot : b_pos b + b_avail b = tot
}.

Lemma tag_small t n : n < 14 -> append_tag [] (16 * t) n = [16 * t + n].
Proof. intros H. unfold append_tag. replace (n <? 14) with true by lia. reflexivity. Qed.
Lemma tag_big t n : 14 <= n -> append_tag [] (16 * t) n = (16 * t + 14) :: append_varuint [] n.
Proof. intros H. unfold append_tag. replace (n <? 14) with false by lia. rewrite append_varuint_app. reflexivity. Qed.
Lemma parse_tag_eq t l : t < 16 -> l < 16 -> b_parse_tag (16 * t + l) = (bitcode_of_high t, l).
Proof.
  intros Ht Hl. unfold b_parse_tag. f_equal; [f_equal|]; lia.
Qed.

Lemma boh_facts t : 2 <= t <= 14 ->
  (bitcode_of_high t =? bcNone) = false /\ (bitcode_of_high t =? bcFalse) = false /\
  ((bitcode_of_high t =? bcStruct) = true -> t = 13) /\ ((bitcode_of_high t =? bcAnnotation) = true -> t = 14) /\
  3 <= bitcode_of_high t <= 19.
Proof.
  intros H. assert (C : t = 2 \/ t = 3 \/ t = 4 \/ t = 5 \/ t = 6 \/ t = 7 \/ t = 8 \/ t = 9 \/ t = 10 \/ t = 11 \/
                        t = 12 \/ t = 13 \/ t = 14) by lia.
  repeat (destruct C as [C|C]; [subst; vm_compute; repeat split; try reflexivity; try discriminate; intros; discriminate|]).
  subst; vm_compute; repeat split; try reflexivity; try discriminate; intros; discriminate.
Qed.

Lemma BS_avail b inp st stk tot : BS b inp st stk tot -> avail_ok b.
Proof. intros []. apply bcore_avail. apply bs_inv0. Qed.

Lemma wrap_small x : x < two64 -> wrap64 x = x.
Proof. intros H. unfold wrap64. apply N.mod_small. exact H. Qed.
Lemma wrap_sub x y : y <= x -> x < two64 -> wrap64 (x + two64 - y) = x - y.
Proof. intros H1 H2. unfold wrap64, two64 in *. lia. Qed.
Lemma varuint_len_le10 n : n < two64 -> varuint_len n <= 10.
Proof.
  intros Hn. unfold varuint_len.
  assert (len_loop 128 10 (n / 128) 1 <= 1 + N.of_nat 9); [|lia].
  apply (len_loop_le 128 10 (n / 128) 1 9); [lia|]. unfold two64 in *.
  change (128 ^ N.of_nat 9) with 9223372036854775808. lia.
Qed.

(* ---- Next on a tagged value --------------------------------------------------------------------------------- *)
Lemma b_next_tagged b t body rest stk tot : tot < two63 ->
  BS b (enc_tagged (16 * t) body ++ rest) bssBeforeValue stk tot -> 2 <= t <= 14 ->
  (t = 13 -> length body <> 1%nat) -> (t = 14 -> body <> []) ->
  room b (N.of_nat (length (enc_tagged (16 * t) body))) ->
  exists b', b_next b = (b', Ok tt) /\ BS b' (body ++ rest) bssOnValue stk tot /\
             b_code b' = bitcode_of_high t /\ b_len b' = N.of_nat (length body).
Proof.
  intros Htot [I Ein St Es Nl Nw] Ht H13 H14 R. subst tot. rename Htot into Nw.
  assert (Goal' : (exists b', b_next b = (b', Ok tt) /\ BS b' (body ++ rest) bssOnValue stk (b_pos b + b_avail b) /\
             b_code b' = bitcode_of_high t /\ b_len b' = N.of_nat (length body) /\
             b_pos b' + b_avail b' = b_pos b + b_avail b) ->
          exists b', b_next b = (b', Ok tt) /\ BS b' (body ++ rest) bssOnValue stk (b_pos b + b_avail b) /\
             b_code b' = bitcode_of_high t /\ b_len b' = N.of_nat (length body)).
  { intros (b' & Q1 & Q2 & Q3 & Q4 & _). eauto. }
  apply Goal'; clear Goal'.
  pose proof (bcore_avail _ (proj1 I)) as A.
  destruct (boh_facts t Ht) as (F1 & F2 & F3 & F4 & F5).
  set (n := N.of_nat (length body)) in *.
  assert (Fin : (exists b', b_next b = (b', Ok tt) /\ b_in b' = body ++ rest /\ b_state b' = bssOnValue /\
            b_null b' = false /\ b_code b' = bitcode_of_high t /\ b_len b' = n /\
            b_pos b' + b_avail b' = b_pos b + b_avail b) ->
            exists b', b_next b = (b', Ok tt) /\ BS b' (body ++ rest) bssOnValue stk (b_pos b + b_avail b) /\
             b_code b' = bitcode_of_high t /\ b_len b' = n /\ b_pos b' + b_avail b' = b_pos b + b_avail b).
  { intros (b' & E & Q1 & Q2 & Q3 & Q4 & Q5 & Q6). exists b'. split; [exact E|]. split; [|auto].
    destruct (b_next_spec b I) as [(_ & _ & Post) _]. rewrite E in Post. cbn [fst snd] in Post.
    destruct (Post tt eq_refl) as ((Ib & _) & Sk & _).
    constructor; auto; congruence. }
  apply Fin; clear Fin.
  destruct I as (C & Fv & L0). pose proof C as (Wk & _ & P & Sk). clear Fv L0 Wk C.
  (* arithmetic, once *)
  set (tl := N.of_nat (length (append_tag [] (16 * t) n))).
  assert (Ha : b_avail b = tl + n + N.of_nat (length rest)).
  { unfold avail_ok in A. rewrite A, Ein. unfold enc_tagged. fold n. rewrite !app_length. subst tl. lia. }
  assert (Rm : match stk with [] => True | (_, e) :: _ => b_pos b + tl + n <= e /\ e < two64 end).
  { unfold room in R. rewrite Es in R, Sk. unfold enc_tagged in R. fold n in R. rewrite app_length in R.
    destruct stk as [|[c e] stk']; [exact Logic.I|]. cbn [stk_ok] in Sk. subst tl. lia. }
  clear R Sk A.
  unfold b_next. rewrite St.
  change ((bssBeforeValue =? bssOnValue) || (bssBeforeValue =? bssOnFieldID)) with false. cbv iota beta.
  rewrite Es, St. change (bssBeforeValue =? bssBeforeFieldID) with false.
  unfold enc_tagged in Ein. fold n in Ein.
  destruct (n <? 14) eqn:En.
  - (* length in the tag byte *)
    assert (Etl : tl = 1) by (subst tl; rewrite tag_small by lia; reflexivity).
    rewrite tag_small in Ein by lia. rewrite <- app_assoc in Ein. cbn [app] in Ein.
    replace (match stk with [] => false | (_, e) :: _ => b_pos b =? e end) with false
      by (destruct stk as [|[c e] stk']; [reflexivity|lia]).
    unfold b_read. rewrite Ein. rewrite parse_tag_eq by lia. cbv iota beta.
    replace ((bitcode_of_high t =? bcStruct) && (n =? 1)) with false.
    2:{ destruct (bitcode_of_high t =? bcStruct) eqn:E; [|reflexivity]. specialize (H13 (F3 eq_refl)). cbn [andb]. lia. }
    rewrite F1. cbv zeta.
    replace ((bitcode_of_high t =? bcAnnotation) && (n =? 0)) with false.
    2:{ destruct (bitcode_of_high t =? bcAnnotation) eqn:E; [|reflexivity]. specialize (H14 (F4 eq_refl)). cbn [andb].
        destruct body; [contradiction|cbn [length] in n; lia]. }
    replace ((bitcode_of_high t =? bcAnnotation) && (n =? 15)) with false by lia.
    rewrite F2. replace ((bitcode_of_high t =? bcNegInt) && (n =? 15)) with false by lia.
    replace ((n =? 15) && negb false) with false by lia.
    replace ((n =? 14) && negb false) with false by lia.
    unfold b_remaining. bsimpl. rewrite Es.
    rewrite (wrap_small (b_pos b + 1)) by (unfold two63, two64 in *; lia).
    rewrite (wrap_small (b_pos b + 1 + n)) by (unfold two63, two64 in *; lia).
    replace (b_pos b + 1 + n <? b_pos b + 1) with false by lia.
    destruct stk as [|[c e] stk'].
    + replace (18446744073709551615 <? n) with false by (unfold two63 in *; lia).
      eexists; split; [reflexivity|]; bsimpl; repeat (split; [solve [auto]|]). lia.
    + replace (e <? b_pos b + 1) with false by lia.
      replace (e - (b_pos b + 1) <? n) with false by lia.
      eexists; split; [reflexivity|]; bsimpl; repeat (split; [solve [auto]|]). lia.
  - (* length as a VarUInt *)
    assert (Hn64 : n < two64) by (unfold two63, two64 in *; lia).
    pose proof (varuint_len_ok [] n) as VL. cbn [length] in VL.
    pose proof (varuint_len_le10 n Hn64) as Hvl.
    assert (Etl : tl = 1 + varuint_len n) by (subst tl; rewrite tag_big by lia; cbn [length]; lia).
    rewrite tag_big in Ein by lia. rewrite <- app_assoc in Ein. cbn [app] in Ein.
    replace (match stk with [] => false | (_, e) :: _ => b_pos b =? e end) with false
      by (destruct stk as [|[c e] stk']; [reflexivity|lia]).
    unfold b_read. rewrite Ein. rewrite parse_tag_eq by lia. cbv iota beta.
    replace ((bitcode_of_high t =? bcStruct) && (14 =? 1)) with false by (rewrite andb_false_r; reflexivity).
    rewrite F1. cbv zeta.
    replace ((bitcode_of_high t =? bcAnnotation) && (14 =? 0)) with false by (rewrite andb_false_r; reflexivity).
    replace ((bitcode_of_high t =? bcAnnotation) && (14 =? 15)) with false by (rewrite andb_false_r; reflexivity).
    rewrite F2. replace ((bitcode_of_high t =? bcNegInt) && (14 =? 15)) with false by (rewrite andb_false_r; reflexivity).
    change ((14 =? 15) && negb false) with false. change ((14 =? 14) && negb false) with true. cbv iota.
    rewrite (wrap_small (b_pos b + 1)) by (unfold two63, two64 in *; lia).
    set (b3 := upd_state (upd_in b (append_varuint [] n ++ body ++ rest) (b_pos b + 1) (b_avail b - 1)) bssOnValue).
    assert (A3 : avail_ok b3).
    { unfold avail_ok. subst b3. bsimpl. rewrite !app_length. lia. }
    unfold b_remaining. replace (b_stack b3) with stk by (subst b3; bsimpl; auto).
    replace (b_pos b3) with (b_pos b + 1) by (subst b3; bsimpl; auto).
    assert (K : forall rem b4, varuint_len n + n <= rem -> rem < two64 ->
              b_read_varuint b3 rem = (b4, Ok (n, varuint_len n)) -> adv (varuint_len n) b3 b4 -> b_in b4 = body ++ rest ->
              exists b' : bstate,
                (if wrap64 (rem + two64 - varuint_len n) <? n then (b4, Err)
                 else if wrap64 (b_pos b4 + n) <? b_pos b4 then (b4, Err)
                 else (upd_cur b4 (bitcode_of_high t) (b_null b4) n, Ok tt)) = (b', Ok tt) /\
                b_in b' = body ++ rest /\ b_state b' = bssOnValue /\ b_null b' = false /\
                b_code b' = bitcode_of_high t /\ b_len b' = n /\ b_pos b' + b_avail b' = b_pos b + b_avail b).
    { intros rem b4 Hr1 Hr2 E4 Ad I4.
      pose proof (adv_pos _ _ _ Ad) as Q1. pose proof (adv_avail _ _ _ Ad) as Q2.
      pose proof (adv_state _ _ _ Ad) as Q3. pose proof (adv_null _ _ _ Ad) as Q4.
      subst b3. bsimpl. rewrite wrap_small in Q1 by (unfold two63, two64 in *; lia).
      rewrite wrap_sub by lia. replace (rem - varuint_len n <? n) with false by lia.
      rewrite Q1. rewrite wrap_small by (unfold two63, two64 in *; lia).
      replace (b_pos b + 1 + varuint_len n + n <? b_pos b + 1 + varuint_len n) with false by lia.
      eexists; split; [reflexivity|]; bsimpl. rewrite Q1, Q2, Q4.
      repeat (split; [solve [auto]|]). lia. }
    destruct stk as [|[c e] stk'].
    + destruct (b_read_varuint_enc b3 18446744073709551615 n (body ++ rest) A3 eq_refl Hn64) as (b4 & E4 & Ad & I4); [lia|].
      rewrite E4. apply (K _ b4); auto; unfold two63, two64 in *; lia.
    + replace (e <? b_pos b + 1) with false by lia.
      destruct (b_read_varuint_enc b3 (e - (b_pos b + 1)) n (body ++ rest) A3 eq_refl Hn64) as (b4 & E4 & Ad & I4); [lia|].
      rewrite E4. apply (K _ b4); auto; lia.
Qed.

Definition sav (stk : list (N * N)) : N :=
  if fst (match stk with [] => (0, 0) | x :: _ => x end) =? bcStruct then bssBeforeFieldID else bssBeforeValue.
Lemma sav_eq b : state_after_value b = sav (b_stack b).
Proof. reflexivity. Qed.

Lemma firstn_app_exact {A} (l r : list A) : firstn (length l) (l ++ r) = l.
Proof. induction l; cbn; [destruct r; reflexivity|f_equal; assumption]. Qed.
Lemma skipn_app_exact {A} (l r : list A) : skipn (length l) (l ++ r) = r.
Proof. induction l; cbn; [reflexivity|assumption]. Qed.

Section Eval.
Variable tot : N.
Hypothesis Htot : tot < two63.

(* consuming k bytes and finishing the value *)
Lemma BS_done b k b1 pre rest st stk : BS b (pre ++ rest) st stk tot -> k = N.of_nat (length pre) ->
  adv k b b1 -> binv (done_value b1) -> BS (done_value b1) rest (sav stk) stk tot.
Proof.
  intros [I Ein St Es Nl Nw] Ek Ad Id. pose proof (bcore_avail _ (proj1 I)) as A.
  pose proof (adv_in _ _ _ Ad) as Q1. pose proof (adv_pos _ _ _ Ad) as Q2. pose proof (adv_avail _ _ _ Ad) as Q3.
  pose proof (adv_stack _ _ _ Ad) as Q4. pose proof (adv_le _ _ _ Ad) as Q5.
  constructor; auto; unfold done_value; bsimpl.
  - rewrite Q1, Ein, Ek, Nat2N.id. apply skipn_app_exact.
  - rewrite sav_eq, Q4, Es. reflexivity.
  - congruence.
  - rewrite Q2, Q3, wrap_small by (unfold two63, two64 in *; lia). lia.
Qed.

Lemma readN_body b body rest stk : BS b (body ++ rest) bssOnValue stk tot ->
  b_len b = N.of_nat (length body) -> b_code b <> bcBVM ->
  exists b1, b_readN b (b_len b) = (b1, Ok body) /\ BS (done_value b1) rest (sav stk) stk tot /\
             adv (b_len b) b b1.
Proof.
  intros Hb El Nb. pose proof Hb as [I Ein St Es Nl Nw]. pose proof (bcore_avail _ (proj1 I)) as A.
  assert (Hle : b_len b <= b_avail b).
  { unfold avail_ok in A. rewrite A, Ein, El, app_length. lia. }
  destruct (b_readN_enough b (b_len b) A Hle) as (b1 & bs & E).
  pose proof (b_readN_bytes _ _ _ _ E) as Eb. rewrite Ein, El, Nat2N.id, firstn_app_exact in Eb. subst bs.
  pose proof (readN_value b I St Nb) as H. rewrite E in H. destruct H as (_ & _ & ((Id & _) & _) & _ & Ad).
  exists b1. split; [exact E|]. split; [|exact Ad]. eapply BS_done; eauto.
Qed.

(* ---- the scalar bodies ----------------------------------------------------------------------------------------- *)
Definition int_z (v : intval) : Z := match v with I64 x => x | IBig x => x end.

Lemma read_int_body b z rest stk : z <> 0%Z ->
  BS b (big_bytes (Z.to_N (Z.abs z)) ++ rest) bssOnValue stk tot ->
  b_len b = N.of_nat (length (big_bytes (Z.to_N (Z.abs z)))) ->
  b_code b = (if (z <? 0)%Z then bcNegInt else bcInt) ->
  exists b' v, b_read_int b = (b', Ok v) /\ int_z v = z /\ BS b' rest (sav stk) stk tot.
Proof.
  intros Hz Hb El Ec. set (m := Z.to_N (Z.abs z)) in *.
  assert (Nb : b_code b <> bcBVM) by (rewrite Ec; destruct (z <? 0)%Z; discriminate).
  destruct (readN_body b _ rest stk Hb El Nb) as (b1 & E & Hd & _).
  unfold b_read_int. replace (negb ((b_code b =? bcInt) || (b_code b =? bcNegInt))) with false
    by (rewrite Ec; destruct (z <? 0)%Z; reflexivity).
  rewrite E. pose proof (big_bytes_roundtrip m) as Rt. pose proof (big_bytes_bytes m) as Bb.
  assert (Hm : m <> 0) by (subst m; lia).
  replace (b_len b =? 0) with false.
  2:{ rewrite El. destruct (big_bytes m) eqn:Eb; [exfalso; apply Hm; rewrite <- Rt; reflexivity|cbn [length]; lia]. }
  assert (Eneg : (b_code b =? bcNegInt) = (z <? 0)%Z) by (rewrite Ec; destruct (z <? 0)%Z; reflexivity).
  rewrite Eneg.
  destruct ((b_len b <? 8) || ((b_len b =? 8) && (hd 0 (big_bytes m) <? 128))) eqn:Es.
  - rewrite from_be64_small by (auto; rewrite El in Es; lia). rewrite Rt.
    replace (m =? 0) with false by lia. cbn [andb]. eexists _, _. split; [reflexivity|]. split; [|exact Hd].
    cbn [int_z]. subst m. destruct (z <? 0)%Z eqn:En; lia.
  - rewrite Rt. replace (m =? 0) with false by lia. cbn [andb]. eexists _, _. split; [reflexivity|]. split; [|exact Hd].
    cbn [int_z]. subst m. destruct (z <? 0)%Z eqn:En; lia.
Qed.

Lemma read_int_zero b rest stk : BS b rest bssOnValue stk tot -> b_len b = 0 -> b_code b = bcInt ->
  exists b', b_read_int b = (b', Ok (I64 0)) /\ BS b' rest (sav stk) stk tot.
Proof.
  intros Hb El Ec. assert (Nb : b_code b <> bcBVM) by (rewrite Ec; discriminate).
  destruct (readN_body b [] rest stk Hb El Nb) as (b1 & E & Hd & _).
  unfold b_read_int. rewrite Ec. change (negb ((bcInt =? bcInt) || (bcInt =? bcNegInt))) with false. cbv iota.
  rewrite E, El. cbn [N.eqb andb]. change (bcInt =? bcNegInt) with false. cbn [andb]. eauto.
Qed.

Lemma read_float_body b bits rest stk : wf_float bits ->
  BS b (float_body bits ++ rest) bssOnValue stk tot -> b_len b = N.of_nat (length (float_body bits)) ->
  b_code b = bcFloat ->
  exists b', b_read_float b = (b', Ok bits) /\ BS b' rest (sav stk) stk tot.
Proof.
  intros [Hlt Hnan] Hb El Ec. assert (Nb : b_code b <> bcBVM) by (rewrite Ec; discriminate).
  destruct (readN_body b _ rest stk Hb El Nb) as (b1 & E & Hd & _).
  unfold b_read_float. rewrite Ec. change (negb (bcFloat =? bcFloat)) with false. cbv iota. rewrite E.
  unfold float_body. destruct (f64_pos_zero bits) eqn:E0.
  - unfold f64_pos_zero in E0. apply N.eqb_eq in E0. subst. cbn [length]. eauto.
  - destruct (f64_is_nan bits) eqn:E1.
    + cbn [length]. rewrite <- sp_uint_from_be, nan32_widens, Hnan by reflexivity. eauto.
    + destruct (uses_f32 bits) eqn:E2; rewrite be_fixed_length.
      * rewrite <- sp_uint_from_be, be_fixed4 by (apply narrow_lt; assumption).
        unfold uses_f32 in E2. apply N.eqb_eq in E2. rewrite E2. eauto.
      * rewrite <- sp_uint_from_be, be_fixed8 by exact Hlt. eauto.
Qed.

Lemma read_symbol_body b id rest stk : id < two64 ->
  BS b (append_uint [] id ++ rest) bssOnValue stk tot -> b_len b = N.of_nat (length (append_uint [] id)) ->
  b_code b = bcSymbol ->
  exists b', b_read_symbol_id b = (b', Ok id) /\ BS b' rest (sav stk) stk tot.
Proof.
  intros Hid Hb El Ec. assert (Nb : b_code b <> bcBVM) by (rewrite Ec; discriminate).
  destruct (readN_body b _ rest stk Hb El Nb) as (b1 & E & Hd & _).
  unfold b_read_symbol_id. rewrite Ec. change (negb (bcSymbol =? bcSymbol)) with false. cbv iota.
  pose proof (append_uint_length_le id Hid) as Hl.
  replace (8 <? b_len b) with false by (rewrite El; lia). rewrite E.
  rewrite from_be64_small by (auto using append_uint_bytes). rewrite uint_roundtrip by exact Hid. eauto.
Qed.

Lemma read_string_body b t rest stk : utf8_valid t = true ->
  BS b (t ++ rest) bssOnValue stk tot -> b_len b = N.of_nat (length t) -> b_code b = bcString ->
  exists b', b_read_string b = (b', Ok t) /\ BS b' rest (sav stk) stk tot.
Proof.
  intros Hu Hb El Ec. assert (Nb : b_code b <> bcBVM) by (rewrite Ec; discriminate).
  destruct (readN_body b _ rest stk Hb El Nb) as (b1 & E & Hd & _).
  unfold b_read_string. rewrite Ec. change (negb (bcString =? bcString)) with false. cbv iota. rewrite E, Hu. eauto.
Qed.

Lemma read_bytes_body b bs rest stk :
  BS b (bs ++ rest) bssOnValue stk tot -> b_len b = N.of_nat (length bs) -> b_code b = bcClob \/ b_code b = bcBlob ->
  exists b', b_read_bytes b = (b', Ok bs) /\ BS b' rest (sav stk) stk tot.
Proof.
  intros Hb El Ec. assert (Nb : b_code b <> bcBVM) by (destruct Ec as [Ec|Ec]; rewrite Ec; discriminate).
  destruct (readN_body b _ rest stk Hb El Nb) as (b1 & E & Hd & _).
  unfold b_read_bytes. replace (negb ((b_code b =? bcClob) || (b_code b =? bcBlob))) with false
    by (destruct Ec as [Ec|Ec]; rewrite Ec; reflexivity).
  rewrite E. eauto.
Qed.

Lemma read_timestamp_body b ts body rest stk : ts body = Ok tt ->
  BS b (body ++ rest) bssOnValue stk tot -> b_len b = N.of_nat (length body) -> b_code b = bcTimestamp ->
  exists b', b_read_timestamp b ts = (b', Ok body) /\ BS b' rest (sav stk) stk tot.
Proof.
  intros Ht Hb El Ec. assert (Nb : b_code b <> bcBVM) by (rewrite Ec; discriminate).
  destruct (readN_body b _ rest stk Hb El Nb) as (b1 & E & Hd & _).
  unfold b_read_timestamp. rewrite Ec. change (negb (bcTimestamp =? bcTimestamp)) with false. cbv iota.
  rewrite E, Ht. eauto.
Qed.

Lemma read_decimal_body b d rest stk : wf_dec d ->
  BS b (dec_body d ++ rest) bssOnValue stk tot -> b_len b = N.of_nat (length (dec_body d)) ->
  b_code b = bcDecimal ->
  exists b', b_read_decimal b = (b', Ok d) /\ BS b' rest (sav stk) stk tot.
Proof.
  intros [He Hnz] Hb El Ec. pose proof Hb as [I Ein St Es Nl Nw]. pose proof (bcore_avail _ (proj1 I)) as A.
  assert (Fin : forall b1, b_read_decimal b = (done_value b1, Ok d) -> adv (b_len b) b b1 ->
                exists b', b_read_decimal b = (b', Ok d) /\ BS b' rest (sav stk) stk tot).
  { intros b1 E Ad. exists (done_value b1). split; [exact E|].
    destruct (b_read_decimal_spec b I St Ec) as [(_ & _ & Post) _]. rewrite E in Post. cbn [fst snd] in Post.
    destruct (Post d eq_refl) as ((Id & _) & _). eapply BS_done; eauto. }
  assert (P : b_pos b < two64) by (destruct I as ((_ & _ & P & _) & _); exact P).
  unfold b_read_decimal in *. rewrite Ec in *. change (negb (bcDecimal =? bcDecimal)) with false in *. cbv iota in *.
  unfold b_read_decimal_len in *. destruct d as [c e nz]. unfold dec_body in *. cbn [d_coef d_exp d_negzero] in *.
  destruct ((c =? 0)%Z && (e =? 0)%Z && negb nz) eqn:E0.
  - apply andb_true_iff in E0. destruct E0 as [E0 E2]. apply andb_true_iff in E0. destruct E0 as [E0 E1].
    apply Z.eqb_eq in E0, E1. apply negb_true_iff in E2. subst. cbn [length N.of_nat] in El. rewrite El in *.
    cbn [N.ltb N.compare] in *. apply (Fin b); [reflexivity|]. apply adv_refl. exact P.
  - set (tl := if nz then [128] else append_bigint [] c) in *.
    assert (Hvi : (Z.abs e < Z.of_N two63)%Z) by (unfold two63; lia).
    pose proof (varint_len_ok e Hvi) as Vl.
    assert (Elen : b_len b = varint_len e + N.of_nat (length tl)) by (rewrite El, app_length; lia).
    assert (Hpos : 0 < varint_len e).
    { rewrite <- Vl. pose proof (append_varint_nonempty e). destruct (append_varint [] e); [contradiction|cbn [length]; lia]. }
    replace (0 <? b_len b) with true in * by lia.
    assert (Rv : read_varint (b_len b) (b_in b) = Ok (e, (e <? 0)%Z, varint_len e, tl ++ rest)).
    { rewrite Ein, <- app_assoc. apply varint_roundtrip; [exact Hvi|lia]. }
    destruct (b_read_varint_list b _ _ _ _ _ Rv) as (b1 & E1 & I1).
    destruct (b_read_varint_spec b (b_len b) A) as [(W1 & _ & Post1) _]. rewrite E1 in *. cbn [fst snd] in *.
    destruct (Post1 _ eq_refl) as (Ad1 & _).
    replace ((2147483647 <? e)%Z || (e <? -2147483648)%Z) with false in * by lia.
    assert (Hl64 : b_len b < two64).
    { unfold avail_ok in A. rewrite Ein, app_length in A. unfold two63, two64 in *. lia. }
    rewrite wrap_sub in * by lia. replace (b_len b - varint_len e) with (N.of_nat (length tl)) in * by lia.
    destruct (0 <? N.of_nat (length tl)) eqn:Et.
    + pose proof (wle_avail _ _ W1) as A1. pose proof (adv_pos_lt _ _ _ Ad1) as P1.
      assert (Hle : N.of_nat (length tl) <= b_avail b1).
      { unfold avail_ok in A1. rewrite A1, I1, app_length. lia. }
      destruct (b_readN_enough b1 _ A1 Hle) as (b2 & bs & E2).
      pose proof (b_readN_bytes _ _ _ _ E2) as Eb. rewrite I1, Nat2N.id, firstn_app_exact in Eb. subst bs.
      destruct (b_readN_ok _ _ _ _ A1 P1 E2) as [Ad2 _]. rewrite E2 in *.
      assert (Rs : read_signmag tl = Ok c /\ ((128 <=? hd 0 tl) && (c =? 0)%Z) = nz).
      { subst tl. destruct nz.
        - rewrite (Hnz eq_refl). split; reflexivity.
        - assert (Hc : c <> 0%Z).
          { intros ->. cbn in Et. discriminate. }
          rewrite bigint_roundtrip by exact Hc. split; [reflexivity|].
          replace (c =? 0)%Z with false by lia. apply andb_false_r. }
      destruct Rs as [Rs Rz]. rewrite Rs in *. rewrite Rz in *.
      apply (Fin b2); [reflexivity|]. eapply adv_eq; [eapply adv_trans; eauto|lia].
    + assert (Etl : tl = []) by (destruct tl; [reflexivity|cbn [length] in Et; lia]).
      assert (Hc : c = 0%Z /\ nz = false).
      { subst tl. destruct nz; [discriminate|]. split; [|reflexivity].
        destruct (Z.eq_dec c 0); [assumption|]. exfalso. apply (append_bigint_nonempty c n). exact Etl. }
      destruct Hc; subst c nz. apply (Fin b1); [reflexivity|].
      eapply adv_eq; [exact Ad1|]. rewrite Etl in Elen. cbn [length] in Elen. lia.
Qed.

(* ---- field names ---------------------------------------------------------------------------------------------- *)
Lemma b_next_field b inp c e stk : BS b inp bssBeforeFieldID ((c, e) :: stk) tot -> b_pos b <> e ->
  exists b', b_next b = (b', Ok tt) /\ BS b' inp bssOnFieldID ((c, e) :: stk) tot /\ b_code b' = bcFieldID /\
             b_pos b' = b_pos b.
Proof.
  intros [I Ein St Es Nl Nw] Hne. unfold b_next. rewrite St.
  change ((bssBeforeFieldID =? bssOnValue) || (bssBeforeFieldID =? bssOnFieldID)) with false. cbv iota beta.
  rewrite ?Es, ?St. replace (b_pos b =? e) with false by lia. change (bssBeforeFieldID =? bssBeforeFieldID) with true.
  cbv iota. eexists. split; [reflexivity|]. split; [|split; reflexivity].
  constructor; bsimpl; auto. destruct I as (C & F & L0). split; [|split]; bsimpl.
  - destruct C as (Wk & S & P & K). unfold bcore. bsimpl. split; [exact Wk|]. split; [unfold bssOnFieldID; lia|]. split; assumption.
  - discriminate.
  - intros _. apply L0. rewrite St. discriminate.
Qed.

Lemma read_field_id_enc b id rest c e stk : id < two64 ->
  BS b (append_varuint [] id ++ rest) bssOnFieldID ((c, e) :: stk) tot -> b_code b = bcFieldID ->
  b_pos b + varuint_len id <= e ->
  exists b', b_read_field_id b = (b', Ok id) /\ BS b' rest bssBeforeValue ((c, e) :: stk) tot.
Proof.
  intros Hid [I Ein St Es Nl Nw] Ec Hr. pose proof (bcore_avail _ (proj1 I)) as A.
  destruct (b_read_field_id_spec b I Ec St) as [(_ & _ & Post) _].
  unfold b_read_field_id in *. rewrite Ec in *. change (negb (bcFieldID =? bcFieldID)) with false in *. cbv iota in *.
  destruct (rem_ok b (proj1 I)) as [Er _]. rewrite Er in *. unfold rem_of in *. rewrite Es in *.
  destruct (b_read_varuint_enc b (e - b_pos b) id rest A Ein Hid) as (b1 & E1 & Ad & I1); [lia|].
  rewrite E1 in *. cbn [fst snd] in Post. destruct (Post id eq_refl) as (((Ib & _) & _) & _).
  eexists. split; [reflexivity|].
  pose proof (adv_pos _ _ _ Ad) as Q2. pose proof (adv_avail _ _ _ Ad) as Q3.
  pose proof (adv_stack _ _ _ Ad) as Q4. pose proof (adv_le _ _ _ Ad) as Q5. pose proof (adv_null _ _ _ Ad) as Q6.
  constructor; bsimpl; auto; try congruence.
  rewrite Q2, Q3, wrap_small by (unfold two63, two64 in *; lia). lia.
Qed.

(* ---- containers -------------------------------------------------------------------------------------------------- *)
Lemma step_in_eval b inp stk : BS b inp bssOnValue stk tot -> is_container_code (b_code b) ->
  exists b', b_step_in b = (b', Ok tt) /\
             BS b' inp (if b_code b =? bcStruct then bssBeforeFieldID else bssBeforeValue)
                ((b_code b, b_pos b + b_len b) :: stk) tot /\ b_pos b' = b_pos b.
Proof.
  intros [I Ein St Es Nl Nw] Hc.
  destruct (b_step_in_spec b I St Hc) as [(_ & _ & Post) _].
  assert (Nb : b_code b <> bcBVM) by (unfold is_container_code, bcBVM, bcStruct, bcList, bcSexp in *; lia).
  destruct I as (C & F & L0). destruct (F St) as [_ Nw2]. specialize (Nw2 Nb).
  unfold b_step_in in *. rewrite (wrap_small (b_pos b + b_len b)) in * by exact Nw2.
  destruct (b_code b =? bcStruct) eqn:E1.
  - cbn [fst snd] in Post. destruct (Post tt eq_refl) as ((Ib & _) & _).
    eexists. split; [reflexivity|]. split; [|reflexivity]. constructor; bsimpl; auto. congruence.
  - replace ((b_code b =? bcList) || (b_code b =? bcSexp)) with true in *
      by (unfold is_container_code, bcStruct, bcList, bcSexp in *; lia).
    cbn [fst snd] in Post. destruct (Post tt eq_refl) as ((Ib & _) & _).
    eexists. split; [reflexivity|]. split; [|reflexivity]. constructor; bsimpl; auto. congruence.
Qed.

(* the end of a container is reached in the state that follows a complete value: in a struct that is "before a field
   name" (a field name without a value is an error there) *)
Lemma b_next_container_end b inp st c e stk : BS b inp st ((c, e) :: stk) tot ->
  st = sav ((c, e) :: stk) -> b_pos b = e ->
  exists b', b_next b = (b', Ok tt) /\ BS b' inp st ((c, e) :: stk) tot /\ b_code b' = bcEOF /\ b_pos b' = e.
Proof.
  intros [I Ein St Es Nl Nw] Hs He.
  assert (Hq : st = bssBeforeValue \/ st = bssBeforeFieldID)
    by (rewrite Hs; unfold sav; cbn [fst]; destruct (c =? bcStruct); auto).
  assert (Hd : (c =? bcStruct) && (st =? bssBeforeValue) = false)
    by (rewrite Hs; unfold sav; cbn [fst]; destruct (c =? bcStruct); reflexivity).
  unfold b_next.
  assert (Eq : (b_state b =? bssOnValue) || (b_state b =? bssOnFieldID) = false)
    by (rewrite St; destruct Hq as [Hq|Hq]; rewrite Hq; reflexivity).
  rewrite Eq. cbv iota beta. rewrite Es. replace (b_pos b =? e) with true by lia. cbv iota.
  rewrite St, Hd.
  eexists. split; [reflexivity|]. split; [|split; [reflexivity|exact He]].
  constructor; bsimpl; auto. destruct I as (C & F & L0). split; [exact C|]. bsimpl.
  split; [intros E; exfalso; rewrite St in E; destruct Hq as [Hq|Hq]; rewrite Hq in E; discriminate E|exact L0].
Qed.

Lemma step_out_eval b inp st c e stk : BS b inp st ((c, e) :: stk) tot -> b_pos b = e ->
  exists b', b_step_out b = (b', Ok tt) /\ BS b' inp (sav stk) stk tot.
Proof.
  intros [I Ein St Es Nl Nw] He.
  destruct (b_step_out_spec b c e stk I Es) as [(_ & _ & Post) _].
  unfold b_step_out in *. rewrite Es in *. bsimpl. replace (e <? b_pos b) with false in * by lia.
  replace (0 <? e - b_pos b) with false in * by lia. cbn [fst snd] in Post.
  destruct (Post tt eq_refl) as ((Ib & _) & _).
  eexists. split; [reflexivity|]. constructor; bsimpl; auto.
Qed.

Lemma b_next_top_eof b st : BS b [] st [] tot -> st = bssBeforeValue -> b_ioerr b = false ->
  exists b', b_next b = (b', Ok tt) /\ b_code b' = bcEOF.
Proof.
  intros [I Ein St Es Nl Nw] Hq Hio. unfold b_next.
  assert (Eq : (b_state b =? bssOnValue) || (b_state b =? bssOnFieldID) = false) by (rewrite St, Hq; reflexivity).
  rewrite Eq. cbv iota beta. rewrite Es, St, Hq. change (bssBeforeValue =? bssBeforeFieldID) with false. cbv iota.
  unfold b_read. rewrite Ein, Hio. bsimpl. rewrite Es. eexists. split; reflexivity.
Qed.

(* ---- one-byte values: typed nulls and booleans ---------------------------------------------------------------- *)
(* on a value that has no body left to read: a null, a boolean *)
Record NS (b : bstate) (inp : list N) (stk : list (N * N)) : Prop := {
  ns_inv : binv b;
  ns_in : b_in b = inp;
  ns_state : b_state b = bssOnValue;
  ns_stack : b_stack b = stk;
  ns_len : b_len b = 0;
  ns_tot : b_pos b + b_avail b = tot
}.

Lemma boh_small k : k <= 13 ->
  (bitcode_of_high k =? bcNone) = false /\ (bitcode_of_high k =? bcAnnotation) = false /\
  ((bitcode_of_high k =? bcFalse) = (k =? 1)) /\ ((bitcode_of_high k =? bcNegInt) = (k =? 3)) /\
  ((bitcode_of_high k =? bcStruct) = (k =? 13)) /\ bitcode_of_high k <> bcBVM.
Proof.
  intros H. assert (C : k = 0 \/ k = 1 \/ k = 2 \/ k = 3 \/ k = 4 \/ k = 5 \/ k = 6 \/ k = 7 \/ k = 8 \/ k = 9 \/ k = 10 \/
                        k = 11 \/ k = 12 \/ k = 13) by lia.
  repeat (destruct C as [C|C]; [subst; vm_compute; repeat split; discriminate|]).
  subst; vm_compute; repeat split; discriminate.
Qed.

Lemma b_next_single b k l rest stk : BS b ((16 * k + l) :: rest) bssBeforeValue stk tot -> room b 1 ->
  (l = 15 /\ k <= 13 /\ k <> 3) \/ (k = 1 /\ l <= 1) ->
  exists b', b_next b = (b', Ok tt) /\ NS b' rest stk /\ b_null b' = (l =? 15) /\
             b_code b' = (if (k =? 1) && (l =? 1) then bcTrue else bitcode_of_high k).
Proof.
  intros [I Ein St Es Nl Nw] R Hkl. pose proof (bcore_avail _ (proj1 I)) as A.
  assert (Hk : k <= 13 /\ l < 16) by lia. destruct Hk as [Hk Hl].
  destruct (boh_small k Hk) as (F1 & F2 & F3 & F4 & F5 & F6).
  assert (Fin : (exists b', b_next b = (b', Ok tt) /\ b_in b' = rest /\ b_state b' = bssOnValue /\ b_len b' = 0 /\
                   b_pos b' + b_avail b' = tot /\ b_null b' = (l =? 15) /\
                   b_code b' = (if (k =? 1) && (l =? 1) then bcTrue else bitcode_of_high k)) ->
          exists b', b_next b = (b', Ok tt) /\ NS b' rest stk /\ b_null b' = (l =? 15) /\
             b_code b' = (if (k =? 1) && (l =? 1) then bcTrue else bitcode_of_high k)).
  { intros (b' & E & Q1 & Q2 & Q3 & Q4 & Q5 & Q6). exists b'. split; [exact E|]. split; [|auto].
    destruct (b_next_spec b I) as [(_ & _ & Post) _]. rewrite E in Post. cbn [fst snd] in Post.
    destruct (Post tt eq_refl) as ((Ib & _) & Sk & _). constructor; auto. congruence. }
  apply Fin; clear Fin.
  destruct I as (C & Fv & L0). pose proof C as (Wk & _ & P & Sk).
  assert (Len : b_len b = 0) by (apply L0; rewrite St; discriminate).
  assert (Ha : b_avail b = 1 + N.of_nat (length rest)).
  { unfold avail_ok in A. rewrite A, Ein. cbn [length]. lia. }
  assert (Rm : match stk with [] => True | (_, e) :: _ => b_pos b + 1 <= e /\ e < two64 end).
  { unfold room in R. rewrite Es in R, Sk. destruct stk as [|[c e] stk']; [exact Logic.I|]. cbn [stk_ok] in Sk. lia. }
  unfold b_next. rewrite St.
  change ((bssBeforeValue =? bssOnValue) || (bssBeforeValue =? bssOnFieldID)) with false. cbv iota beta.
  rewrite Es, St. change (bssBeforeValue =? bssBeforeFieldID) with false.
  replace (match stk with [] => false | (_, e) :: _ => b_pos b =? e end) with false
    by (destruct stk as [|[c e] stk']; [reflexivity|lia]).
  unfold b_read. rewrite Ein. rewrite parse_tag_eq by lia. cbv iota beta.
  replace ((bitcode_of_high k =? bcStruct) && (l =? 1)) with false by (rewrite F5; lia).
  rewrite F1. cbv zeta. rewrite F2. cbn [andb]. rewrite F3.
  rewrite (wrap_small (b_pos b + 1)) by (unfold two63, two64 in *; lia).
  destruct Hkl as [(El & _ & Hk3)|(Ek & Hl1)].
  - subst l. replace ((15 =? 0) || (15 =? 15)) with true by reflexivity.
    assert (Hs : (if k =? 1 then Some (bitcode_of_high k, 15) else Some (bitcode_of_high k, 15))
                 = Some (bitcode_of_high k, 15)) by (destruct (k =? 1); reflexivity).
    rewrite Hs. rewrite F4. replace ((k =? 3) && (15 =? 15)) with false by lia.
    change ((15 =? 15) && negb false) with true. cbv iota.
    eexists. split; [reflexivity|]. bsimpl. replace ((k =? 1) && (15 =? 1)) with false by lia.
    repeat (split; [solve [auto]|]). split; [lia|]. split; reflexivity.
  - subst k. change (1 =? 1) with true. cbv iota.
    assert (Hl2 : l = 0 \/ l = 1) by lia. destruct Hl2; subst l.
    + change ((0 =? 0) || (0 =? 15)) with true. cbv iota.
      change ((bitcode_of_high 1 =? bcNegInt) && (0 =? 15)) with false. change ((0 =? 15) && negb false) with false.
      change ((0 =? 14) && negb false) with false. cbv iota.
      unfold b_remaining. bsimpl. rewrite Es.
      rewrite (wrap_small (b_pos b + 1 + 0)) by (unfold two63, two64 in *; lia).
      replace (b_pos b + 1 + 0 <? b_pos b + 1) with false by lia.
      destruct stk as [|[c e] stk'].
      * cbn [N.ltb N.compare]. eexists. split; [reflexivity|]. bsimpl. repeat (split; [solve [auto]|]). split; [lia|].
        split; [exact Nl|reflexivity].
      * replace (e <? b_pos b + 1) with false by lia. replace (e - (b_pos b + 1) <? 0) with false by lia.
        eexists. split; [reflexivity|]. bsimpl. repeat (split; [solve [auto]|]). split; [lia|].
        split; [exact Nl|reflexivity].
    + change ((1 =? 0) || (1 =? 15)) with false. change (1 =? 1) with true. cbv iota.
      change ((bcTrue =? bcNegInt) && (0 =? 15)) with false. change ((0 =? 15) && negb false) with false.
      change ((0 =? 14) && negb false) with false. cbv iota.
      unfold b_remaining. bsimpl. rewrite Es.
      rewrite (wrap_small (b_pos b + 1 + 0)) by (unfold two63, two64 in *; lia).
      replace (b_pos b + 1 + 0 <? b_pos b + 1) with false by lia.
      destruct stk as [|[c e] stk'].
      * cbn [N.ltb N.compare]. eexists. split; [reflexivity|]. bsimpl. repeat (split; [solve [auto]|]). split; [lia|].
        split; [exact Nl|reflexivity].
      * replace (e <? b_pos b + 1) with false by lia. replace (e - (b_pos b + 1) <? 0) with false by lia.
        eexists. split; [reflexivity|]. bsimpl. repeat (split; [solve [auto]|]). split; [lia|].
        split; [exact Nl|reflexivity].
Qed.

(* Next first finishes the value it stands on *)
Lemma NS_skip b inp stk : NS b inp stk ->
  exists b1, b_skip_value b = (b1, Ok tt) /\ BS b1 inp (sav stk) stk tot.
Proof.
  intros [I Ein St Es El Nw].
  destruct (b_skip_value_spec b I) as [(_ & _ & Post) _].
  unfold b_skip_value in *. rewrite St in *.
  change ((bssOnValue =? bssBeforeFieldID) || (bssOnValue =? bssBeforeValue)) with false in *.
  change (bssOnValue =? bssOnFieldID) with false in *. change (bssOnValue =? bssOnValue) with true in *. cbv iota in *.
  rewrite El in *. cbn [N.ltb N.compare] in *. cbn [fst snd] in Post.
  destruct (Post tt eq_refl) as ((Ib & _) & _).
  eexists. split; [reflexivity|]. constructor; bsimpl; auto. rewrite sav_eq, Es. reflexivity.
Qed.

Lemma b_next_after_skip b b1 : b_state b = bssOnValue -> b_skip_value b = (b1, Ok tt) ->
  b_state b1 = bssBeforeValue \/ b_state b1 = bssBeforeFieldID -> b_next b = b_next b1.
Proof.
  intros St E Q. unfold b_next. rewrite St. change ((bssOnValue =? bssOnValue) || (bssOnValue =? bssOnFieldID)) with true.
  cbv iota. rewrite E.
  replace ((b_state b1 =? bssOnValue) || (b_state b1 =? bssOnFieldID)) with false
    by (destruct Q as [Q|Q]; rewrite Q; reflexivity).
  reflexivity.
Qed.
End Eval.

