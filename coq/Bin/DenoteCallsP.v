(* DenoteCallsP.v — C12's headline for the binary Writer (growing symbol table, never-failing sink):
   for EVERY call sequence, legal or not, if the final Finish returns nil then the bytes handed to the
   io.Writer decode, under the specification decoder, to exactly the values that the successful calls
   denote (Bin/DenoteCalls.v).  The proof generalises the C04 induction (canonical calls of a forest)
   to an invariant over all reachable healthy writer states: the buffer stack mirrors the stack of
   partially built containers of the denotation machine, each successful call extends both in
   lock-step, a failing call other than Finish poisons the writer (so the final Finish fails), and a
   failing Finish changes nothing.  The value-level encoding lemmas of RoundTripBin{S,W,P}.v are reused. *)
From Coq Require Import String List NArith ZArith Bool Lia ZifyBool ZifyN ZifyNat.
From IonV Require Import Base.Wire Base.Utf8 Bin.Bits Bin.BitsP Data.Ion Num.Float
  Bin.BinWriter Bin.BinWriterP Bin.SpecBin Bin.RoundTripBin Bin.RoundTripBinS Bin.RoundTripBinW
  Bin.RoundTripBinP Bin.DenoteCalls.
Import ListNotations.
Open Scope N_scope.
Ltac Zify.zify_post_hook ::= Z.div_mod_to_equations.
Arguments append_varuint : simpl never.

(* ---- what an open container has buffered ------------------------------------------------------------------ *)
Definition open_code (o : opened) : N := match o with OList _ => 176 | OSexp _ => 192 | OStruct _ => 208 end.
Definition open_ctx (o : opened) : N :=
  match o with OList _ => ctxList | OSexp _ => ctxSexp | OStruct _ => ctxStruct end.
Definition open_body (F : list text) (o : opened) : list N :=
  match o with
  | OList l | OSexp l => flat_map (enc F) l
  | OStruct fs => flat_map (fun '(n, x) => append_varuint [] (sid F (symtext n)) ++ enc F x) fs
  end.
Definition open_texts (o : opened) : list text :=
  match o with
  | OList l | OSexp l => flat_map (texts []) l
  | OStruct fs => flat_map (fun '(n, x) => texts [symtext n] x) fs
  end.
Definition open_wf (o : opened) : Prop :=
  match o with
  | OList l | OSexp l => Forall wf_value l
  | OStruct fs => Forall (fun p => wf_sym (fst p) /\ wf_value (snd p)) fs
  end.

(* the buffer stack against the stack of open containers.  [xf]: a field name whose bytes are already
   in the top buffer (written by the beginValue of a container that is being opened above it) *)
Fixpoint stk_rel (L : list text) (done : list value) (stack : list frame) (ctx : list N)
  (bufs : list bufseq) (xf : option text) : Prop :=
  match stack with
  | [] => ctx = [] /\ exists q, bufs = [q] /\
          forall F, extends L F -> absq q None (flat_map (enc F) done ++ fld_bytes F xf)
  | fr :: rest => exists qc e q1 r ctx' pf,
      ctx = open_ctx (fr_open fr) :: ctx' /\ bufs = qc :: sbufs (fr_annots fr) e q1 r /\
      bs_code e = Some 224 /\ fr_field fr = option_map SymText pf /\
      (forall F, extends L F ->
         absq qc (Some (open_code (fr_open fr))) (open_body F (fr_open fr) ++ fld_bytes F xf)) /\
      (forall F, extends L F -> absq e (Some 224) (enc_annots F (fr_annots fr))) /\
      stk_rel L done rest ctx' (q1 :: r) pf
  end.

Lemma stk_rel_mono L L' : extends L L' -> forall stack done ctx bufs xf,
  stk_rel L done stack ctx bufs xf -> stk_rel L' done stack ctx bufs xf.
Proof.
  intros HE. induction stack as [|fr rest IH]; intros done ctx bufs xf H; cbn [stk_rel] in *.
  - destruct H as (Hc & q & Hb & Hq). split; [exact Hc|]. exists q. split; [exact Hb|].
    intros F HF. apply Hq. eapply extends_trans; eassumption.
  - destruct H as (qc & e & q1 & r & ctx' & pf & Hc & Hb & He & Hf & Hqc & Hqe & Hr).
    exists qc, e, q1, r, ctx', pf. do 4 (split; [first [assumption|reflexivity]|]). split; [|split].
    + intros F HF. apply Hqc. eapply extends_trans; eassumption.
    + intros F HF. apply Hqe. eapply extends_trans; eassumption.
    + apply IH. exact Hr.
Qed.

Definition stack_top (stack : list frame) : N :=
  match stack with [] => 0 | fr :: _ => open_ctx (fr_open fr) end.

Lemma stk_rel_head L done stack ctx bufs xf : stk_rel L done stack ctx bufs xf ->
  exists q r, bufs = q :: r /\ bs_code q <> Some 224 /\ ctx_top ctx = stack_top stack.
Proof.
  destruct stack as [|fr rest]; cbn [stk_rel stack_top].
  - intros (Hc & q & Hb & Hq). exists q, []. split; [exact Hb|]. split; [|subst; reflexivity].
    destruct (Hq L (extends_refl L)) as (A & _). rewrite A. discriminate.
  - intros (qc & e & q1 & r & ctx' & pf & Hc & Hb & He & Hf & Hqc & Hqe & Hr).
    exists qc, (sbufs (fr_annots fr) e q1 r). split; [exact Hb|]. split; [|subst; reflexivity].
    destruct (Hqc L (extends_refl L)) as (A & _). rewrite A. destruct (fr_open fr); discriminate.
Qed.

Lemma add_open_body F o f v o' : add_open o (option_map SymText f) v = Some o' ->
  open_body F o' = open_body F o ++ fld_bytes F f ++ enc F v /\
  open_code o' = open_code o /\ open_ctx o' = open_ctx o.
Proof.
  destruct o as [l|l|fs], f as [x|]; cbn [add_open option_map]; intros H; inversion H; subst;
    cbn [open_body open_code open_ctx fld_bytes]; rewrite flat_map_app; cbn [flat_map symtext app];
    rewrite ?app_nil_r; repeat split; reflexivity.
Qed.

Definition merge_fld (xf fld : option text) : option text :=
  match xf with Some x => Some x | None => fld end.

Lemma fld_bytes_merge F xf fld : xf = None \/ fld = None ->
  fld_bytes F xf ++ fld_bytes F fld = fld_bytes F (merge_fld xf fld).
Proof.
  intros [->| ->]; [reflexivity|]. destruct xf; cbn [merge_fld fld_bytes]; [apply app_nil_r|reflexivity].
Qed.

(* a complete value lands in the top buffer *)
Lemma stk_rel_push L L' done stack ctx q r q' xf fld v fl st' :
  extends L L' -> stk_rel L done stack ctx (q :: r) xf -> xf = None \/ fld = None ->
  (forall F c b, extends L' F -> absq q c b -> absq q' c (b ++ fld_bytes F fld ++ enc F v)) ->
  push_value fl done stack (option_map SymText (merge_fld xf fld)) v = Some st' ->
  stk_rel L' (ds_done st') (ds_stack st') ctx (q' :: r) None.
Proof.
  intros HE H Hx Hq' Hp. destruct stack as [|fr rest]; cbn [stk_rel push_value] in *.
  - destruct H as (Hc & q0 & Hb & Hq). inversion Hb; subst q0 r.
    destruct (merge_fld xf fld) as [x|] eqn:Em; cbn [option_map] in Hp; [discriminate|].
    inversion Hp; subst st'. cbn [ds_done ds_stack stk_rel]. split; [exact Hc|]. exists q'. split; [reflexivity|].
    intros F HF. specialize (Hq F (extends_trans _ _ _ HE HF)). specialize (Hq' F _ _ HF Hq).
    rewrite flat_map_app. cbn [flat_map fld_bytes]. rewrite !app_nil_r.
    rewrite <- app_assoc, (app_assoc (fld_bytes F xf)), (fld_bytes_merge F xf fld Hx), Em in Hq'. exact Hq'.
  - destruct H as (qc & e & q1 & r0 & ctx' & pf & Hc & Hb & He & Hf & Hqc & Hqe & Hr).
    inversion Hb; subst qc r.
    destruct (add_open (fr_open fr) (option_map SymText (merge_fld xf fld)) v) as [o|] eqn:Ea; [|discriminate].
    inversion Hp; subst st'. cbn [ds_done ds_stack stk_rel fr_open fr_field fr_annots].
    exists q', e, q1, r0, ctx', pf.
    pose proof (fun F => add_open_body F _ _ _ _ Ea) as Hob.
    destruct (Hob L) as (_ & Hcode & Hctx). rewrite Hcode, Hctx.
    do 4 (split; [first [assumption|reflexivity]|]). split; [|split].
    + intros F HF. specialize (Hqc F (extends_trans _ _ _ HE HF)). specialize (Hq' F _ _ HF Hqc).
      destruct (Hob F) as (-> & _). cbn [fld_bytes]. rewrite app_nil_r.
      rewrite <- app_assoc, (app_assoc (fld_bytes F xf)), (fld_bytes_merge F xf fld Hx) in Hq'. exact Hq'.
    + intros F HF. apply Hqe. eapply extends_trans; eassumption.
    + eapply stk_rel_mono; eassumption.
Qed.

(* the top buffer receives the field name of a container that is being opened *)
Lemma stk_rel_top L L' done stack ctx q r q1 xf :
  extends L L' -> stk_rel L done stack ctx (q :: r) None ->
  (forall F c b, extends L' F -> absq q c b -> absq q1 c (b ++ fld_bytes F xf)) ->
  stk_rel L' done stack ctx (q1 :: r) xf.
Proof.
  intros HE H Hq1. destruct stack as [|fr rest]; cbn [stk_rel] in *.
  - destruct H as (Hc & q0 & Hb & Hq). inversion Hb; subst q0 r. split; [exact Hc|]. exists q1.
    split; [reflexivity|]. intros F HF. specialize (Hq F (extends_trans _ _ _ HE HF)).
    cbn [fld_bytes] in Hq. rewrite app_nil_r in Hq. apply Hq1; assumption.
  - destruct H as (qc & e & q2 & r0 & ctx' & pf & Hc & Hb & He & Hf & Hqc & Hqe & Hr).
    inversion Hb; subst qc r. exists q1, e, q2, r0, ctx', pf.
    do 4 (split; [first [assumption|reflexivity]|]). split; [|split].
    + intros F HF. specialize (Hqc F (extends_trans _ _ _ HE HF)).
      cbn [fld_bytes] in Hqc. rewrite app_nil_r in Hqc. apply Hq1; assumption.
    + intros F HF. apply Hqe. eapply extends_trans; eassumption.
    + eapply stk_rel_mono; eassumption.
Qed.

(* ---- static well-formedness of what has been built so far ------------------------------------------------------ *)
Definition fld_ok (L : list text) (f : option text) : Prop :=
  match f with Some x => utf8_valid x = true /\ known L x | None => True end.
Definition frame_ok (L : list text) (fr : frame) : Prop :=
  open_wf (fr_open fr) /\ Forall (known L) (open_texts (fr_open fr)) /\
  Forall wf_sym (fr_annots fr) /\ Forall (known L) (map symtext (fr_annots fr)) /\
  exists pf, fr_field fr = option_map SymText pf /\ fld_ok L pf.
Fixpoint chain_ok (stack : list frame) : Prop :=
  match stack with [] => True | fr :: rest => place_ok rest (fr_field fr) = true /\ chain_ok rest end.
Definition dwf (L : list text) (dn : list value) (stack : list frame) : Prop :=
  Forall wf_value dn /\ Forall (known L) (flat_map (texts []) dn) /\
  Forall (frame_ok L) stack /\ chain_ok stack.

Lemma Forall_known_mono L L' ts : extends L L' -> Forall (known L) ts -> Forall (known L') ts.
Proof. intros HE H. eapply Forall_impl; [|exact H]. intros t. apply known_mono. exact HE. Qed.

Lemma frame_ok_mono L L' fr : extends L L' -> frame_ok L fr -> frame_ok L' fr.
Proof.
  intros HE (A & B & C & D & pf & E & G). split; [exact A|]. split; [eapply Forall_known_mono; eassumption|].
  split; [exact C|]. split; [eapply Forall_known_mono; eassumption|]. exists pf. split; [exact E|].
  destruct pf as [x|]; [|exact I]. destruct G as [G1 G2]. split; [exact G1|]. eapply known_mono; eassumption.
Qed.

Lemma dwf_mono L L' dn stack : extends L L' -> dwf L dn stack -> dwf L' dn stack.
Proof.
  intros HE (A & B & C & D). split; [exact A|]. split; [eapply Forall_known_mono; eassumption|].
  split; [|exact D]. eapply Forall_impl; [|exact C]. intros fr. apply frame_ok_mono. exact HE.
Qed.

Lemma push_value_shape fl dn stack f v st' : push_value fl dn stack f v = Some st' ->
  ds_field st' = None /\ ds_annots st' = [] /\ ds_flushed st' = fl.
Proof.
  unfold push_value. destruct stack as [|fr rest].
  - destruct f; [discriminate|]. intros H; inversion H; subst. repeat split.
  - destruct (add_open (fr_open fr) f v); [|discriminate]. intros H; inversion H; subst. repeat split.
Qed.

Lemma push_value_some fl dn stack f v : place_ok stack f = true -> exists st', push_value fl dn stack f v = Some st'.
Proof.
  unfold place_ok, push_value. destruct stack as [|fr rest].
  - destruct f; [discriminate|]. eexists; reflexivity.
  - destruct (fr_open fr), f; try discriminate; intros _; eexists; reflexivity.
Qed.

Lemma dwf_push L L' dn stack f v fl st' : extends L L' -> dwf L dn stack -> wf_value v ->
  match f with Some x => utf8_valid x = true | None => True end ->
  Forall (known L') (texts (fld_texts f) v) ->
  push_value fl dn stack (option_map SymText f) v = Some st' -> dwf L' (ds_done st') (ds_stack st').
Proof.
  intros HE Hd Hv Hf Hk Hp. apply (dwf_mono L L' _ _ HE) in Hd. destruct Hd as (A & B & C & D).
  unfold push_value in Hp. destruct stack as [|fr rest].
  - destruct f; [discriminate|]. inversion Hp; subst st'. cbn [ds_done ds_stack]. split; [|split; [|split]].
    + apply Forall_app. split; [exact A|]. constructor; [exact Hv|constructor].
    + rewrite flat_map_app. apply Forall_app. split; [exact B|]. cbn [flat_map]. rewrite app_nil_r. exact Hk.
    + constructor.
    + exact I.
  - destruct (add_open (fr_open fr) (option_map SymText f) v) as [o|] eqn:Ea; [|discriminate].
    inversion Hp; subst st'. cbn [ds_done ds_stack]. split; [exact A|]. split; [exact B|].
    inversion C as [|? ? (F1 & F2 & F3 & F4 & F5) C']; subst. destruct D as [D1 D2]. split.
    + constructor; [|exact C']. unfold frame_ok. cbn [fr_open fr_field fr_annots].
      split; [|split; [|split; [exact F3|split; [exact F4|exact F5]]]].
      * destruct (fr_open fr) as [l|l|fs], f as [x|]; cbn [add_open option_map] in Ea; inversion Ea; subst;
          cbn [open_wf] in *; apply Forall_app; (split; [exact F1|]); constructor; try constructor; try exact Hv.
        cbn [fst]. exists x. split; [reflexivity|exact Hf].
      * destruct (fr_open fr) as [l|l|fs], f as [x|]; cbn [add_open option_map] in Ea; inversion Ea; subst;
          cbn [open_texts] in *; rewrite flat_map_app; apply Forall_app; (split; [exact F2|]);
          cbn [flat_map symtext]; rewrite app_nil_r; exact Hk.
    + cbn [chain_ok fr_field]. split; assumption.
Qed.

(* ---- the invariant ------------------------------------------------------------------------------------------------ *)
(* what the sink has received: one batch per successful Finish *)
Definition batch_enc (b : list text * list value) : list N :=
  bvm ++ enc_lst (fst b) ++ flat_map (enc (fst b)) (snd b).
Definition batch_ok (b : list text * list value) : Prop :=
  Forall wf_value (snd b) /\ Forall utf8_ok (fst b) /\ Forall (known (fst b)) (flat_map (texts []) (snd b)).
Definition fl_rel (ws : list (list N)) (fl : list value) : Prop :=
  exists bs, concat ws = flat_map batch_enc bs /\ fl = flat_map snd bs /\ Forall batch_ok bs.

Definition fld_utf8 (f : option text) : Prop := match f with Some x => utf8_valid x = true | None => True end.

Definition Rel (w : wstate) (st : dstate) : Prop :=
  exists ws ctx fld a bufs L,
    w = mkw (osink ws) ctx (option_map tok_text fld) (map tok_of a) bufs L false /\
    ds_field st = option_map SymText fld /\ ds_annots st = a /\ Forall wf_sym a /\ fld_utf8 fld /\
    (fld <> None -> stack_top (ds_stack st) = ctxStruct) /\
    Forall utf8_ok L /\ fl_rel ws (ds_flushed st) /\
    dwf L (ds_done st) (ds_stack st) /\ stk_rel L (ds_done st) (ds_stack st) ctx bufs None.

Lemma rel_init : Rel (new_writer None) d_init.
Proof.
  exists [], [], None, [], [new_seq None], []. split; [reflexivity|]. split; [reflexivity|]. split; [reflexivity|].
  split; [constructor|]. split; [exact I|]. split; [intros H; exfalso; apply H; reflexivity|].
  split; [constructor|]. split; [exists []; repeat split; constructor|]. split.
  - repeat split; constructor.
  - cbn [stk_rel d_init ds_done ds_stack]. split; [reflexivity|]. exists (new_seq None). split; [reflexivity|].
    intros F _. apply absq_new.
Qed.

Lemma place_of_top stack fld : (stack_top stack =? ctxStruct) = is_some fld ->
  place_ok stack (option_map SymText fld) = true.
Proof.
  unfold stack_top, place_ok. destruct stack as [|fr rest].
  - destruct fld; [discriminate|reflexivity].
  - destruct (fr_open fr), fld; cbn; intros H; try reflexivity; discriminate.
Qed.

(* ---- a value in a struct without a pending field name fails ------------------------------------------------------ *)
Lemma begin_value_nofield run w : in_struct w = true -> w_field w = None -> w_lst w = None ->
  exists w1, begin_value run w = Ok (w1, false).
Proof.
  intros Hs Hf Hl. unfold begin_value. rewrite Hf.
  change (w_lst (clear w)) with (w_lst w). rewrite Hl. cbn [bind negb].
  change (in_struct (clear w)) with (in_struct w). rewrite Hs. cbn [bind negb]. eexists. reflexivity.
Qed.

Lemma write_value_nofield run w val w' : in_struct w = true -> w_field w = None -> w_lst w = None ->
  write_value run w val = Ok (w', true) -> False.
Proof.
  intros Hs Hf Hl. unfold write_value. destruct (w_err w); [discriminate|].
  destruct (begin_value_nofield run w Hs Hf Hl) as (w1 & ->). cbn [bind negb]. discriminate.
Qed.
Lemma write_value_chunks_nofield run w cs w' : in_struct w = true -> w_field w = None -> w_lst w = None ->
  write_value_chunks run w cs = Ok (w', true) -> False.
Proof.
  intros Hs Hf Hl. unfold write_value_chunks. destruct (w_err w); [discriminate|].
  destruct (begin_value_nofield run w Hs Hf Hl) as (w1 & ->). cbn [bind negb]. discriminate.
Qed.
Lemma begin_container_nofield run w t code w' : in_struct w = true -> w_field w = None -> w_lst w = None ->
  begin_container run w t code = Ok (w', true) -> False.
Proof.
  intros Hs Hf Hl. unfold begin_container. destruct (w_err w); [discriminate|].
  destruct (begin_value_nofield run w Hs Hf Hl) as (w1 & ->). cbn [bind negb]. discriminate.
Qed.

Definition is_value_call (c : wcall) : bool :=
  match c with
  | CFieldName _ | CAnnotation _ | CAnnotations _ | CEndList | CEndSexp | CEndStruct | CFinish => false
  | _ => true
  end.

Lemma resolve_from_table_pres w x w1 id ok : w_lst w = None -> resolve_from_table w x = (w1, id, ok) ->
  in_struct w1 = in_struct w /\ w_field w1 = w_field w /\ w_lst w1 = None.
Proof.
  intros Hl. unfold resolve_from_table. rewrite Hl. destruct (find_by_name (w_lstb w) false x);
    intros H; inversion H; subst; repeat split; assumption.
Qed.

Lemma step_nofield run w c w' : in_struct w = true -> w_field w = None -> w_lst w = None ->
  is_value_call c = true -> step run w c = Ok (w', true) -> False.
Proof.
  intros Hs Hf Hl Hc H.
  assert (WV : forall val w', write_value run w val = Ok (w', true) -> False)
    by (intros; eapply write_value_nofield; eassumption).
  assert (WC : forall cs w', write_value_chunks run w cs = Ok (w', true) -> False)
    by (intros; eapply write_value_chunks_nofield; eassumption).
  assert (BC : forall t code w', begin_container run w t code = Ok (w', true) -> False)
    by (intros; eapply begin_container_nofield; eassumption).
  destruct c; try discriminate Hc; cbn [step] in H; try (eapply WV; exact H); try (eapply WC; exact H);
    try (eapply BC; exact H).
  - (* NullType *) destruct (w_err w); [discriminate|]. destruct (14 <=? t); [discriminate|].
    destruct (binary_null t); cbn [bind] in H; try discriminate. eapply WV; exact H.
  - destruct (z =? 0)%Z; eapply WV; exact H.
  - destruct (n =? 0); eapply WV; exact H.
  - destruct (w_err w); [discriminate|]. destruct z as [z|]; [|discriminate].
    destruct (z =? 0)%Z; eapply WC; exact H.
  - destruct (f64_pos_zero bits); [eapply WV; exact H|]. destruct (f64_is_nan bits); [eapply WV; exact H|].
    destruct (uses_f32 bits); eapply WV; exact H.
  - destruct (w_err w); [discriminate|]. destruct d as [d|]; [|discriminate].
    destruct (_ && _); eapply WV; exact H.
  - (* Symbol *) destruct (w_err w) eqn:Ee; [discriminate|]. destruct (tk_text t) as [x|].
    + destruct (resolve_from_table w x) as [[w1 id] ok] eqn:Er.
      destruct (resolve_from_table_pres _ _ _ _ _ Hl Er) as (A & B & C).
      destruct ok; cbn [negb] in H; [|discriminate]. unfold write_symbol_id in H.
      eapply (write_value_nofield run (set_err w1 false)); [| | |exact H].
      * change (in_struct (set_err w1 false)) with (in_struct w1). timeout 10 congruence.
      * change (w_field (set_err w1 false)) with (w_field w1). timeout 10 congruence.
      * exact C.
    + destruct (negb (tk_sid t =? -1)%Z); [|discriminate]. unfold write_symbol_id in H. eapply WV; exact H.
  - (* SymbolFromString *) destruct (w_err w) eqn:Ee; [discriminate|].
    destruct (resolve w t) as [[w1 id] ok] eqn:Er.
    assert (A : in_struct w1 = in_struct w /\ w_field w1 = w_field w /\ w_lst w1 = None).
    { unfold resolve in Er. destruct (symbol_identifier t).
      - inversion Er; subst. repeat split; assumption.
      - eapply resolve_from_table_pres; eassumption. }
    destruct A as (A & B & C). destruct ok; cbn [negb] in H; [|discriminate]. unfold write_symbol_id in H.
    eapply (write_value_nofield run (set_err w1 false)); [| | |exact H].
    * change (in_struct (set_err w1 false)) with (in_struct w1). timeout 10 congruence.
    * change (w_field (set_err w1 false)) with (w_field w1). timeout 10 congruence.
    * exact C.
  - destruct t; eapply WV; exact H.
Qed.

(* ---- every scalar call is the canonical call of the value it denotes --------------------------------------------- *)
Lemma uint_call_agree run w n : n < two64 -> step run w (CUint n) = step run w (CInt (Z.of_N n)).
Proof.
  intros Hn. cbn [step]. replace (Z.of_N n =? 0)%Z with (n =? 0) by lia. destruct (n =? 0) eqn:E; [reflexivity|].
  replace (Z.of_N n <? 0)%Z with false by lia. unfold mag64. rewrite Z.abs_eq by lia. rewrite N2Z.id. reflexivity.
Qed.

Lemma scalar_call_canon c v : scalar_of_call c = Some v -> call_ok c ->
  wf_value v /\ is_scalar v /\ exists c', calls_body v = [c'] /\ forall run w, step run w c = step run w c'.
Proof.
  intros Hv Hok. destruct c; cbn [scalar_of_call] in Hv; try discriminate; cbn [call_ok] in Hok.
  - (* Null *) inversion Hv; subst. split; [constructor; unfold TNull; lia|]. split; [exact I|].
    exists (CNullType 1). split; [reflexivity|]. intros run w. cbn [step]. unfold write_value.
    destruct (w_err w); reflexivity.
  - (* NullType *) destruct (14 <=? t) eqn:Et; [discriminate|]. inversion Hv; subst.
    destruct (t =? 0) eqn:E0.
    + apply N.eqb_eq in E0. subst t. split; [constructor; unfold TNull; lia|]. split; [exact I|].
      exists (CNullType 1). split; [reflexivity|]. intros run w. reflexivity.
    + split; [constructor; lia|]. split; [exact I|]. exists (CNullType t). split; [reflexivity|]. reflexivity.
  - inversion Hv; subst. split; [constructor|]. split; [exact I|]. eexists. split; reflexivity.
  - (* Int *) inversion Hv; subst. split; [constructor|]. split; [exact I|]. eexists. split; [reflexivity|].
    intros run w. apply int_call_agree. unfold two64. lia.
  - (* Uint *) inversion Hv; subst. split; [constructor|]. split; [exact I|]. eexists. split; [reflexivity|].
    intros run w. rewrite uint_call_agree by (unfold two64; lia). apply int_call_agree. unfold two64. lia.
  - destruct z as [z|]; [|discriminate]. inversion Hv; subst. split; [constructor|]. split; [exact I|].
    eexists. split; reflexivity.
  - (* Float *) inversion Hv; subst. destruct (f64_is_nan bits) eqn:En.
    + split; [constructor; split; [vm_compute; reflexivity|reflexivity]|]. split; [exact I|].
      eexists. split; [reflexivity|]. intros run w. apply (proj1 (nan_written_canonical bits En)).
    + split; [constructor; split; [unfold two64; lia|intros; timeout 10 congruence]|]. split; [exact I|].
      eexists. split; reflexivity.
  - destruct d as [d|]; [|discriminate]. inversion Hv; subst. split; [constructor; exact Hok|]. split; [exact I|].
    eexists. split; reflexivity.
  - inversion Hv; subst. split; [constructor|]. split; [exact I|]. eexists. split; reflexivity.
  - (* Symbol *) destruct Hok as (x & -> & Hu). inversion Hv; subst. cbn [sym_of_tok tk_text tok_text].
    split; [constructor; exists x; split; [reflexivity|exact Hu]|]. split; [exact I|]. eexists. split; reflexivity.
  - (* SymbolFromString *) destruct Hok as [Hu Hsi]. inversion Hv; subst.
    split; [constructor; exists t; split; [reflexivity|exact Hu]|]. split; [exact I|]. eexists. split; [reflexivity|].
    intros run w. cbn [step calls_body tok_of tk_text tok_text]. unfold resolve. rewrite Hsi. reflexivity.
  - inversion Hv; subst. split; [constructor; exact Hok|]. split; [exact I|]. eexists. split; reflexivity.
  - inversion Hv; subst. split; [constructor|]. split; [exact I|]. eexists. split; reflexivity.
  - inversion Hv; subst. split; [constructor|]. split; [exact I|]. eexists. split; reflexivity.
Qed.

Lemma scalar_call_is_value v c' : is_scalar v -> calls_body v = [c'] -> is_value_call c' = true.
Proof. destruct v; cbn [is_scalar calls_body]; intros Hs H; try contradiction; inversion H; reflexivity. Qed.

(* ---- scalars ------------------------------------------------------------------------------------------------------- *)
Lemma wrap_attach F a v : wrap F a (enc F v) = enc F (attach a v).
Proof. destruct a; reflexivity. Qed.
Lemma texts_attach pre a v : texts pre (attach a v) = texts (pre ++ map symtext a) v.
Proof. destruct a; cbn [attach texts map]; [rewrite app_nil_r|]; reflexivity. Qed.
Lemma wf_attach a v : Forall wf_sym a -> not_ann v -> wf_value v -> wf_value (attach a v).
Proof. intros Ha Hn Hv. destruct a as [|y a]; [exact Hv|]. cbn [attach]. constructor; [discriminate|exact Ha|exact Hn|exact Hv]. Qed.
Lemma merge_none_l f : merge_fld None f = f.
Proof. reflexivity. Qed.
Lemma merge_none_r f : merge_fld f None = f.
Proof. destruct f; reflexivity. Qed.

Lemma pre_utf8 fld a : fld_utf8 fld -> Forall wf_sym a -> Forall utf8_ok (fld_texts fld ++ map symtext a).
Proof.
  intros Hf Ha. apply Forall_app. split.
  - destruct fld; cbn [fld_texts]; constructor; [exact Hf|constructor].
  - apply Forall_forall. intros t Hin. apply in_map_iff in Hin. destruct Hin as (y & <- & Hy).
    rewrite Forall_forall in Ha. destruct (Ha y Hy) as (ty & -> & Hu). exact Hu.
Qed.

(* the struct / field-name agreement, or the call fails *)
Lemma struct_field_agree ws ctx fld a bufs L st c w' :
  (fld <> None -> stack_top (ds_stack st) = ctxStruct) -> ctx_top ctx = stack_top (ds_stack st) ->
  is_value_call c = true ->
  wstep (mkw (osink ws) ctx (option_map tok_text fld) (map tok_of a) bufs L false) c = Ok (w', true) ->
  (ctx_top ctx =? ctxStruct) = is_some fld.
Proof.
  intros Hft Htop Hc Hstep. destruct fld as [x|]; cbn [is_some].
  - rewrite Htop, Hft by discriminate. reflexivity.
  - destruct (ctx_top ctx =? ctxStruct) eqn:E; [|reflexivity]. exfalso.
    eapply (step_nofield (run_calls 2) _ c w'); [| | |exact Hc|exact Hstep]; [|reflexivity|reflexivity].
    rewrite in_struct_mkw. exact E.
Qed.

Lemma rel_scalar w st v c' w' : Rel w st -> wf_value v -> is_scalar v -> calls_body v = [c'] ->
  wstep w c' = Ok (w', true) -> exists st', d_scalar st v = Some st' /\ Rel w' st'.
Proof.
  intros (ws & ctx & fld & a & bufs & L & -> & Hfld & Hann & Hwa & Hfu & Hft & HuL & Hfl & Hdwf & Hstk) Hwv Hsc Hcb Hstep.
  destruct (stk_rel_head _ _ _ _ _ _ Hstk) as (q & r & -> & Hq224 & Htop).
  pose proof (struct_field_agree _ _ _ _ _ _ _ _ _ Hft Htop (scalar_call_is_value _ _ Hsc Hcb) Hstep) as Hs.
  assert (Hnav : not_ann v) by (destruct v; try exact I; destruct Hsc).
  assert (Hna : a <> [] -> not_ann v) by (intros _; exact Hnav).
  pose proof (value_run v Hwv (osink ws) ctx fld a q r L false Hwa Hna Hs Hq224) as Hrun. cbv zeta in Hrun.
  destruct Hrun as (q' & oks & Hd & _ & Hcode & Habs).
  rewrite Hcb in Hd. cbn [drive_results] in Hd. rewrite Hstep in Hd. cbn [bind] in Hd. inversion Hd; subst w' oks. clear Hd.
  set (L' := fold_left intern (texts (fld_texts fld ++ map symtext a) v) L) in *.
  assert (HE : extends L L') by apply fold_intern_extends.
  assert (Hpl : place_ok (ds_stack st) (option_map SymText fld) = true)
    by (apply place_of_top; rewrite <- Htop; exact Hs).
  destruct (push_value_some (ds_flushed st) (ds_done st) (ds_stack st) _ (attach a v) Hpl) as (st' & Hp).
  exists st'. split; [unfold d_scalar; rewrite Hfld, Hann; exact Hp|].
  destruct (push_value_shape _ _ _ _ _ _ Hp) as (S1 & S2 & S3).
  exists ws, ctx, None, [], (q' :: r), L'. split; [reflexivity|]. split; [exact S1|]. split; [exact S2|].
  split; [constructor|]. split; [exact I|]. split; [intros H; exfalso; apply H; reflexivity|].
  split; [|split; [rewrite S3; exact Hfl|split]].
  - apply fold_intern_forall; [exact HuL|]. apply wf_value_texts_utf8; [exact Hwv|]. apply pre_utf8; assumption.
  - refine (dwf_push L L' _ _ fld (attach a v) _ _ HE Hdwf _ _ _ Hp); [apply wf_attach; assumption| |].
    + exact Hfu.
    + rewrite texts_attach. apply Forall_forall. intros t Hin. apply fold_intern_known. exact Hin.
  - eapply (stk_rel_push L L' _ _ _ q r q' None fld); [exact HE|exact Hstk|left; reflexivity| |exact Hp].
    intros F c b HF Hq. rewrite <- wrap_attach. apply Habs; assumption.
Qed.

(* ---- Begin ----------------------------------------------------------------------------------------------------------- *)
Definition open_empty (o : opened) : Prop :=
  match o with OList l | OSexp l => l = [] | OStruct fs => fs = [] end.

Lemma rel_begin w st w' cb o : Rel w st -> open_empty o -> is_value_call cb = true ->
  (forall run w, step run w cb = begin_container run w (open_ctx o) (open_code o)) ->
  wstep w cb = Ok (w', true) -> exists st', d_begin st o = Some st' /\ Rel w' st'.
Proof.
  intros (ws & ctx & fld & a & bufs & L & -> & Hfld & Hann & Hwa & Hfu & Hft & HuL & Hfl & Hdwf & Hstk) Hem Hvc Hcb Hstep.
  destruct (stk_rel_head _ _ _ _ _ _ Hstk) as (q & r & -> & Hq224 & Htop).
  pose proof (struct_field_agree _ _ _ _ _ _ _ _ _ Hft Htop Hvc Hstep) as Hs.
  destruct (begin_container_mkw (run_calls 2) (osink ws) ctx fld a q r L false (open_ctx o) (open_code o) Hwa Hs)
    as (q1 & e & Hbc & Hc1 & Hce & Habs).
  unfold wstep in Hstep. rewrite Hcb, Hbc in Hstep. inversion Hstep; subst w'. clear Hstep.
  set (L' := fold_left intern (fld_texts fld ++ map symtext a) L) in *.
  assert (HE : extends L L') by apply fold_intern_extends.
  assert (Hpl : place_ok (ds_stack st) (option_map SymText fld) = true)
    by (apply place_of_top; rewrite <- Htop; exact Hs).
  eexists. split; [unfold d_begin; rewrite Hfld, Hpl; reflexivity|].
  exists ws, (open_ctx o :: ctx), None, [], (new_seq (Some (open_code o)) :: sbufs a e q1 r), L'.
  cbn [ds_field ds_annots ds_stack ds_done ds_flushed].
  split; [reflexivity|]. split; [reflexivity|]. split; [reflexivity|].
  split; [constructor|]. split; [exact I|]. split; [intros H; exfalso; apply H; reflexivity|].
  assert (Hkn : Forall (known L') (fld_texts fld ++ map symtext a))
    by (apply Forall_forall; intros t Hin; apply fold_intern_known; exact Hin).
  apply Forall_app in Hkn. destruct Hkn as [Hk1 Hk2].
  split; [|split; [exact Hfl|split]].
  - apply fold_intern_forall; [exact HuL|]. apply pre_utf8; assumption.
  - apply (dwf_mono L L' _ _ HE) in Hdwf. destruct Hdwf as (A & B & C & D).
    split; [exact A|]. split; [exact B|]. split.
    + constructor; [|exact C]. unfold frame_ok. cbn [fr_open fr_field fr_annots]. rewrite Hann.
      split; [destruct o; cbn in Hem |- *; subst; constructor|].
      split; [destruct o; cbn in Hem |- *; subst; constructor|].
      split; [exact Hwa|]. split; [exact Hk2|]. exists fld. split; [reflexivity|].
      destruct fld as [x|]; [|exact I]. split; [exact Hfu|]. inversion Hk1; assumption.
    + cbn [chain_ok fr_field]. split; [exact Hpl|exact D].
  - cbn [stk_rel fr_open fr_field fr_annots]. rewrite Hann.
    exists (new_seq (Some (open_code o))), e, q1, r, ctx, fld.
    split; [reflexivity|]. split; [reflexivity|]. split; [exact Hce|]. split; [reflexivity|]. split; [|split].
    + intros F _. replace (open_body F o) with (@nil N) by (destruct o; cbn in Hem |- *; subst; reflexivity).
      apply absq_new.
    + intros F HF. destruct (stk_rel_head _ _ _ _ _ _ Hstk) as (q0 & r0 & Hb0 & _ & _). inversion Hb0; subst q0 r0.
      assert (Hq0 : exists c b, absq q c b).
      { destruct (ds_stack st) as [|fr rest]; cbn [stk_rel] in Hstk.
        - destruct Hstk as (_ & q0 & Hb & Hq). inversion Hb; subst. eexists _, _. apply (Hq L (extends_refl L)).
        - destruct Hstk as (qc & e0 & q2 & r2 & ctx' & pf & _ & Hb & _ & _ & Hqc & _). inversion Hb; subst.
          eexists _, _. apply (Hqc L (extends_refl L)). }
      destruct Hq0 as (c & b & Hq0). exact (proj2 (Habs F c b HF Hq0)).
    + apply (stk_rel_top L L' _ _ _ q r q1 fld HE Hstk). intros F c b HF Hq. exact (proj1 (Habs F c b HF Hq)).
Qed.

(* ---- End: pending field name and annotations are dropped ------------------------------------------------------------ *)
Lemma end_container_pending out ctx fld ann a e q1 r L wl t qc : t <> 0 -> bs_code q1 <> Some 224 -> bs_code e = Some 224 ->
  end_container (mkw out (t :: ctx) fld ann (qc :: sbufs a e q1 r) L wl) t
    = Ok (mkw out ctx None [] (fin a e q1 [node_of_seq qc] :: r) L wl, true).
Proof.
  intros Ht H1 H2. rewrite <- (end_container_mkw out ctx a e q1 r L wl t qc Ht H1 H2).
  unfold end_container. cbn [w_err mkw]. unfold ctx_peek. cbn [w_ctx mkw].
  rewrite N.eqb_refl. cbn [negb w_bufs mkw].
  destruct a as [|y a']; reflexivity.
Qed.

Definition close_val (o : opened) : value :=
  match o with OList l => VList l | OSexp l => VSexp l | OStruct fs => VStruct fs end.

Lemma close_val_enc F o : enc F (close_val o) = enc_tagged (open_code o) (open_body F o).
Proof. destruct o; reflexivity. Qed.
Lemma close_val_texts pre o : texts pre (close_val o) = pre ++ open_texts o.
Proof. destruct o; reflexivity. Qed.
Lemma close_val_wf o : open_wf o -> wf_value (close_val o) /\ not_ann (close_val o).
Proof. destruct o; cbn [open_wf close_val]; intros H; split; try exact I; constructor; exact H. Qed.

Lemma rel_end w st w' ce t : Rel w st -> t <> 0 ->
  (forall w, step (run_calls 2) w ce = end_container w t) ->
  (forall o, open_ctx o = t -> close o ce = Some (close_val o)) ->
  wstep w ce = Ok (w', true) -> exists st', d_end st ce = Some st' /\ Rel w' st'.
Proof.
  intros (ws & ctx & fld & a & bufs & L & -> & Hfld & Hann & Hwa & Hfu & Hft & HuL & Hfl & Hdwf & Hstk) Ht Hce Hcl Hstep.
  unfold wstep in Hstep. rewrite Hce in Hstep.
  destruct (stk_rel_head _ _ _ _ _ _ Hstk) as (q & r & -> & Hq224 & Htop).
  assert (Hpk : ctx_top ctx = t).
  { unfold end_container in Hstep. cbn [w_err mkw] in Hstep. unfold ctx_peek in Hstep. cbn [w_ctx mkw] in Hstep.
    fold (ctx_top ctx) in Hstep. destruct (ctx_top ctx =? t) eqn:E; [apply N.eqb_eq; exact E|]. discriminate. }
  destruct (ds_stack st) as [|fr rest] eqn:Est; [cbn [stack_top] in Htop; timeout 10 congruence|].
  cbn [stack_top] in Htop. cbn [stk_rel] in Hstk.
  destruct Hstk as (qc & e & q1 & r0 & ctx' & pf & Hc & Hb & He & Hpf & Hqc & Hqe & Hr).
  inversion Hb; subst qc r. subst ctx. cbn [ctx_top] in Hpk.
  destruct (stk_rel_head _ _ _ _ _ _ Hr) as (q1' & r1' & Hb1 & Hq1 & _). inversion Hb1; subst q1' r1'.
  rewrite Hpk in Hstep. rewrite end_container_pending in Hstep by assumption.
  inversion Hstep; subst w'. clear Hstep.
  destruct Hdwf as (A & B & C & D). destruct (Forall_inv C) as (F1 & F2 & F3 & F4 & pf' & F5 & F6).
  pose proof (Forall_inv_tail C) as C'.
  assert (pf' = pf) by (rewrite Hpf in F5; destruct pf, pf'; inversion F5; reflexivity). subst pf'.
  destruct D as [D1 D2]. destruct (close_val_wf _ F1) as [Hcw Hcn].
  set (v := attach (fr_annots fr) (close_val (fr_open fr))).
  destruct (push_value_some (ds_flushed st) (ds_done st) rest _ v D1) as (st' & Hp).
  exists st'. split; [unfold d_end; rewrite Est, (Hcl _ Hpk); exact Hp|].
  destruct (push_value_shape _ _ _ _ _ _ Hp) as (S1 & S2 & S3).
  rewrite Hpf in Hp.
  exists ws, ctx', None, [], (fin (fr_annots fr) e q1 [node_of_seq q] :: r0), L.
  split; [reflexivity|]. split; [exact S1|]. split; [exact S2|].
  split; [constructor|]. split; [exact I|]. split; [intros H; exfalso; apply H; reflexivity|].
  split; [exact HuL|]. split; [rewrite S3; exact Hfl|]. split.
  - refine (dwf_push L L _ _ pf v _ _ (extends_refl L) _ _ _ _ Hp).
    + split; [exact A|]. split; [exact B|]. split; [exact C'|exact D2].
    + apply wf_attach; assumption.
    + destruct pf; [exact (proj1 F6)|exact I].
    + unfold v. rewrite texts_attach, close_val_texts. apply Forall_app. split; [apply Forall_app; split|].
      * destruct pf; cbn [fld_texts]; constructor; [exact (proj2 F6)|constructor].
      * exact F4.
      * exact F2.
  - refine (stk_rel_push L L _ _ _ q1 r0 _ pf None v _ _ (extends_refl L) Hr (or_intror eq_refl) _ _).
    + intros F c b HF Hq. cbn [fld_bytes app]. unfold v. rewrite <- wrap_attach, close_val_enc.
      replace (enc_tagged (open_code (fr_open fr)) (open_body F (fr_open fr)))
        with (concat [enc_tagged (open_code (fr_open fr)) (open_body F (fr_open fr))]) by (cbn [concat]; apply app_nil_r).
      apply fin_absq; [exact Hq|apply Hqe; exact HF|]. constructor; [|constructor].
      apply ndesc_node_of_seq. specialize (Hqc F HF). cbn [fld_bytes] in Hqc. rewrite app_nil_r in Hqc. exact Hqc.
    + rewrite merge_none_r. exact Hp.
Qed.

(* ---- Finish ---------------------------------------------------------------------------------------------------------- *)
Lemma finish_pending ws fld ann q L : bs_code q = None ->
  exists ws', wstep (mkw (osink ws) [] fld ann [q] L false) CFinish
              = Ok (mkw (osink ws') [] None [] [new_seq None] L false, true) /\
    concat ws' = concat ws ++ bvm ++ enc_lst L ++ concat (bs_chunks q).
Proof.
  intros Hq. destruct (finish_run ws q L Hq) as (ws' & H1 & H2). exists ws'. split; [|exact H2].
  rewrite <- H1. reflexivity.
Qed.

Lemma rel_finish w st w' ok : Rel w st -> wstep w CFinish = Ok (w', ok) ->
  (ok = false /\ w' = w) \/
  (ok = true /\ (4 <= length (sink_bytes (w_out w')))%nat /\ exists st', dstep st CFinish = Some st' /\ Rel w' st').
Proof.
  intros (ws & ctx & fld & a & bufs & L & -> & Hfld & Hann & Hwa & Hfu & Hft & HuL & Hfl & Hdwf & Hstk) Hstep.
  destruct (ds_stack st) as [|fr rest] eqn:Est; cbn [stk_rel] in Hstk.
  - right. destruct Hstk as (-> & q & -> & Hq).
    destruct (Hq L (extends_refl L)) as (Hqc & Hqb & _). cbn [fld_bytes] in Hqb. rewrite app_nil_r in Hqb.
    destruct (finish_pending ws (option_map tok_text fld) (map tok_of a) q L Hqc) as (ws' & Hf & Hcat).
    rewrite Hf in Hstep. inversion Hstep; subst w' ok. split; [reflexivity|].
    split; [cbn [w_out mkw]; unfold sink_bytes; cbn [sk_writes osink]; rewrite Hcat, !app_length; cbn [length bvm]; lia|].
    eexists. split; [cbn [dstep]; rewrite Est; reflexivity|].
    exists ws', [], None, [], [new_seq None], L. cbn [ds_field ds_annots ds_stack ds_done ds_flushed].
    split; [reflexivity|]. split; [reflexivity|]. split; [reflexivity|].
    split; [constructor|]. split; [exact I|]. split; [intros H; exfalso; apply H; reflexivity|].
    split; [exact HuL|]. destruct Hdwf as (A & B & _ & _). split; [|split].
    + destruct Hfl as (bs & H1 & H2 & H3). exists (bs ++ [(L, ds_done st)]). split; [|split].
      * rewrite Hcat, H1, flat_map_app. cbn [flat_map]. unfold batch_enc at 3. cbn [fst snd].
        rewrite Hqb, app_nil_r. reflexivity.
      * rewrite H2, flat_map_app. cbn [flat_map snd]. rewrite app_nil_r. reflexivity.
      * apply Forall_app. split; [exact H3|]. constructor; [|constructor]. split; [exact A|]. split; [exact HuL|exact B].
    + repeat split; constructor.
    + cbn [stk_rel]. split; [reflexivity|]. exists (new_seq None). split; [reflexivity|]. intros F _. apply absq_new.
  - left. destruct Hstk as (qc & e & q1 & r0 & ctx' & pf & -> & _).
    unfold wstep in Hstep. cbn [step w_err mkw] in Hstep. unfold ctx_peek in Hstep. cbn [w_ctx mkw] in Hstep.
    replace (open_ctx (fr_open fr) =? 0) with false in Hstep by (destruct (fr_open fr); reflexivity).
    cbn [negb] in Hstep. inversion Hstep; subst. split; reflexivity.
Qed.

(* ---- one successful call other than Finish ----------------------------------------------------------------------------- *)
Lemma scalar_none_fails run w c w' : scalar_of_call c = None -> is_value_call c = true ->
  c <> CBeginList -> c <> CBeginSexp -> c <> CBeginStruct -> step run w c = Ok (w', true) -> False.
Proof.
  destruct c; cbn [scalar_of_call is_value_call]; intros Hn Hv H1 H2 H3 H; try discriminate; try (timeout 10 congruence).
  - destruct (14 <=? t) eqn:E; [|discriminate Hn]. cbn [step] in H. rewrite E in H. destruct (w_err w); discriminate.
  - destruct z; [discriminate|]. cbn [step] in H. destruct (w_err w); discriminate.
  - destruct d; [discriminate|]. cbn [step] in H. destruct (w_err w); discriminate.
Qed.

Lemma rel_scalar_any w st c w' : Rel w st -> call_ok c -> is_value_call c = true ->
  c <> CBeginList -> c <> CBeginSexp -> c <> CBeginStruct -> wstep w c = Ok (w', true) ->
  exists st', match scalar_of_call c with Some v => d_scalar st v | None => None end = Some st' /\ Rel w' st'.
Proof.
  intros HR Hok Hv H1 H2 H3 Hstep. destruct (scalar_of_call c) as [v|] eqn:Es.
  - destruct (scalar_call_canon c v Es Hok) as (Hwv & Hsc & c' & Hcb & Heq).
    unfold wstep in Hstep. rewrite Heq in Hstep. eapply rel_scalar; eassumption.
  - exfalso. eapply scalar_none_fails; eassumption.
Qed.

Lemma tok_ok_list ts : Forall tok_ok ts ->
  exists a, ts = map tok_of a /\ map sym_of_tok ts = a /\ Forall wf_sym a.
Proof.
  induction ts as [|t ts IH]; intros H; [exists []; repeat split; constructor|].
  inversion H as [|? ? (x & -> & Hu) H']; subst. destruct (IH H') as (a & -> & E & Hw).
  exists (SymText x :: a). cbn [map tok_of]. split; [reflexivity|]. split; [rewrite E; reflexivity|].
  constructor; [exists x; split; [reflexivity|exact Hu]|exact Hw].
Qed.

Lemma rel_pending ws ctx fld a bufs L st fld' a' :
  Rel (mkw (osink ws) ctx (option_map tok_text fld) (map tok_of a) bufs L false) st ->
  ds_field st = option_map SymText fld -> ds_annots st = a ->
  Forall wf_sym a' -> fld_utf8 fld' -> (fld' <> None -> stack_top (ds_stack st) = ctxStruct) ->
  Rel (mkw (osink ws) ctx (option_map tok_text fld') (map tok_of a') bufs L false)
      (set_dpending st (option_map SymText fld') a').
Proof.
  intros (ws0 & ctx0 & fld0 & a0 & bufs0 & L0 & Hw & Hfld & Hann & Hwa & Hfu & Hft & HuL & Hfl & Hdwf & Hstk) _ _ Ha' Hf' Ht'.
  unfold mkw in Hw. inversion Hw; subst ctx0 bufs0 L0. unfold osink in *.
  match goal with H : sk_writes _ = _ |- _ => idtac | _ => idtac end.
  exists ws, ctx, fld', a', bufs, L. cbn [set_dpending ds_field ds_annots ds_stack ds_done ds_flushed].
  assert (ws0 = ws) by (timeout 10 congruence). subst ws0.
  repeat (split; [first [reflexivity|assumption]|]). assumption.
Qed.

Lemma rel_step w st c w' : Rel w st -> call_ok c -> c <> CFinish -> wstep w c = Ok (w', true) ->
  exists st', dstep st c = Some st' /\ Rel w' st'.
Proof.
  intros HR Hok Hnf Hstep.
  destruct c; try (cbn [dstep];
    exact (rel_scalar_any w st _ w' HR Hok eq_refl ltac:(discriminate) ltac:(discriminate) ltac:(discriminate) Hstep));
    cbn [call_ok] in Hok.
  - (* FieldName *)
    destruct Hok as (x & -> & Hu). pose proof HR as HR0.
    destruct HR as (ws & ctx & fld & a & bufs & L & -> & Hfld & Hann & Hwa & Hfu & Hft & HuL & Hfl & Hdwf & Hstk).
    destruct (stk_rel_head _ _ _ _ _ _ Hstk) as (q & r & -> & Hq224 & Htop).
    unfold wstep in Hstep. cbn [step w_err mkw] in Hstep. rewrite in_struct_mkw in Hstep.
    destruct (ctx_top ctx =? ctxStruct) eqn:E; cbn [negb] in Hstep; [|discriminate]. inversion Hstep; subst w'. clear Hstep.
    apply N.eqb_eq in E. rewrite Htop in E.
    assert (Hd : dstep st (CFieldName (tok_text x)) = Some (set_dpending st (option_map SymText (Some x)) a)).
    { cbn [dstep]. destruct (ds_stack st) as [|fr rest]; [discriminate E|]. cbn [stack_top] in E.
      destruct (fr_open fr); try discriminate E. rewrite Hann. reflexivity. }
    eexists. split; [exact Hd|].
    apply (rel_pending ws ctx fld a (q :: r) L st (Some x) a HR0 Hfld Hann Hwa Hu). intros _. exact E.
  - (* Annotation *)
    destruct Hok as (x & -> & Hu). pose proof HR as HR0.
    destruct HR as (ws & ctx & fld & a & bufs & L & -> & Hfld & Hann & Hwa & Hfu & Hft & HuL & Hfl & Hdwf & Hstk).
    unfold wstep in Hstep. cbn [step w_err mkw] in Hstep. inversion Hstep; subst w'. clear Hstep.
    eexists. split; [cbn [dstep]; reflexivity|]. cbn [sym_of_tok tk_text tok_text]. rewrite Hfld, Hann.
    pose proof (rel_pending ws ctx fld a bufs L st fld (a ++ [SymText x]) HR0 Hfld Hann) as H.
    rewrite map_app in H. apply H; [|exact Hfu|exact Hft].
    apply Forall_app. split; [exact Hwa|]. constructor; [exists x; split; [reflexivity|exact Hu]|constructor].
  - (* Annotations *)
    destruct (tok_ok_list ts Hok) as (a2 & -> & Ea2 & Hw2). pose proof HR as HR0.
    destruct HR as (ws & ctx & fld & a & bufs & L & -> & Hfld & Hann & Hwa & Hfu & Hft & HuL & Hfl & Hdwf & Hstk).
    unfold wstep in Hstep. cbn [step w_err mkw] in Hstep. inversion Hstep; subst w'. clear Hstep.
    eexists. split; [cbn [dstep]; reflexivity|]. rewrite Ea2, Hfld, Hann.
    pose proof (rel_pending ws ctx fld a bufs L st fld (a ++ a2) HR0 Hfld Hann) as H.
    rewrite map_app in H. apply H; [|exact Hfu|exact Hft]. apply Forall_app. split; assumption.
  - apply (rel_begin w st w' CBeginList (OList []) HR eq_refl eq_refl); [reflexivity|exact Hstep].
  - apply (rel_end w st w' CEndList ctxList HR); [discriminate|reflexivity| |exact Hstep].
    intros o; destruct o; cbn; intros H; try discriminate H; reflexivity.
  - apply (rel_begin w st w' CBeginSexp (OSexp []) HR eq_refl eq_refl); [reflexivity|exact Hstep].
  - apply (rel_end w st w' CEndSexp ctxSexp HR); [discriminate|reflexivity| |exact Hstep].
    intros o; destruct o; cbn; intros H; try discriminate H; reflexivity.
  - apply (rel_begin w st w' CBeginStruct (OStruct []) HR eq_refl eq_refl); [reflexivity|exact Hstep].
  - apply (rel_end w st w' CEndStruct ctxStruct HR); [discriminate|reflexivity| |exact Hstep].
    intros o; destruct o; cbn; intros H; try discriminate H; reflexivity.
  - exfalso. apply Hnf. reflexivity.
Qed.

(* ---- whole call sequences ------------------------------------------------------------------------------------------------ *)
Lemma rel_no_err w st : Rel w st -> w_err w = false.
Proof. intros (ws & ctx & fld & a & bufs & L & -> & _). reflexivity. Qed.

Lemma rel_run cs : forall w st w' oks, Rel w st -> Forall call_ok cs ->
  drive_results w cs = Ok (w', oks) -> w_err w' = false ->
  exists st', denote_from st cs oks = Some st' /\ Rel w' st'.
Proof.
  induction cs as [|c cs IH]; intros w st w' oks HR Hok Hd He; cbn [drive_results] in Hd.
  - inversion Hd; subst. exists st. split; [reflexivity|exact HR].
  - destruct (wstep w c) as [[w1 ok]| | |] eqn:Es; cbn [bind] in Hd; try discriminate.
    destruct (drive_results w1 cs) as [[w2 oks2]| | |] eqn:Ed; cbn [bind] in Hd; try discriminate.
    inversion Hd; subst w2 oks. clear Hd. inversion Hok as [|? ? Hc Hcs]; subst.
    assert (Hfin : c = CFinish \/ c <> CFinish) by (destruct c; (left; reflexivity) || (right; discriminate)).
    destruct Hfin as [->|Hnf].
    + destruct (rel_finish w st w1 ok HR Es) as [[-> ->]|(-> & _ & st1 & Hs1 & HR1)].
      * destruct (IH w st w' oks2 HR Hcs Ed He) as (st' & Hdn & HR').
        exists st'. split; [cbn [denote_from]; exact Hdn|exact HR'].
      * destruct (IH w1 st1 w' oks2 HR1 Hcs Ed He) as (st' & Hdn & HR').
        exists st'. split; [cbn [denote_from]; rewrite Hs1; exact Hdn|exact HR'].
    + destruct ok.
      * destruct (rel_step w st c w1 HR Hc Hnf Es) as (st1 & Hs1 & HR1).
        destruct (IH w1 st1 w' oks2 HR1 Hcs Ed He) as (st' & Hdn & HR').
        exists st'. split; [cbn [denote_from]; rewrite Hs1; exact Hdn|exact HR'].
      * exfalso. pose proof (bw_error_recorded _ w c w1 Es Hnf) as He1.
        destruct (bw_sticky_seq cs w1 w' oks2 He1 Ed) as [-> _]. timeout 10 congruence.
Qed.

Lemma final_finish_split cs : forall oks, final_finish_ok cs oks ->
  exists cs0 oks0, cs = cs0 ++ [CFinish] /\ oks = oks0 ++ [true] /\ length cs0 = length oks0.
Proof.
  induction cs as [|c cs IH]; intros oks H; [destruct H|].
  destruct cs as [|c2 cs].
  - cbn [final_finish_ok] in H. destruct c; try contradiction. destruct oks as [|[] [|? ?]]; try contradiction.
    exists [], []. repeat split.
  - destruct oks as [|ok oks]; [destruct c; contradiction|].
    assert (H' : final_finish_ok (c2 :: cs) oks) by (destruct c; exact H).
    destruct (IH oks H') as (cs0 & oks0 & E1 & E2 & E3). exists (c :: cs0), (ok :: oks0).
    rewrite E1, E2. cbn [app length]. repeat split. timeout 10 congruence.
Qed.

Lemma denote_from_app cs1 : forall st oks1 cs2 oks2, length cs1 = length oks1 ->
  denote_from st (cs1 ++ cs2) (oks1 ++ oks2) =
  match denote_from st cs1 oks1 with Some st1 => denote_from st1 cs2 oks2 | None => None end.
Proof.
  induction cs1 as [|c cs1 IH]; intros st oks1 cs2 oks2 Hl; destruct oks1 as [|ok oks1]; try discriminate Hl.
  - cbn [app denote_from]. destruct cs2, oks2; reflexivity.
  - cbn [app denote_from]. cbn [length] in Hl. destruct ok.
    + destruct (dstep st c); [apply IH; timeout 10 congruence|reflexivity].
    + apply IH. timeout 10 congruence.
Qed.

Lemma drive_results_length cs : forall w w' oks, drive_results w cs = Ok (w', oks) -> length oks = length cs.
Proof.
  induction cs as [|c cs IH]; intros w w' oks H; cbn [drive_results] in H.
  - inversion H; reflexivity.
  - destruct (wstep w c) as [[w1 ok]| | |]; cbn [bind] in H; try discriminate.
    destruct (drive_results w1 cs) as [[w2 oks2]| | |] eqn:Ed; cbn [bind] in H; try discriminate.
    inversion H; subst. cbn [length]. f_equal. eapply IH. exact Ed.
Qed.

(* the writer side of the headline: a final Finish that returns nil leaves, in the sink, one
   (version marker, symbol table, values) batch per successful Finish, and the values of the batches are
   the values the successful calls denote *)
Theorem denote_writer cs w oks : Forall call_ok cs ->
  drive_results (new_writer None) cs = Ok (w, oks) -> final_finish_ok cs oks ->
  exists vs bs, denote cs oks = Some vs /\ denote_flushed cs oks = Some vs /\
    sink_bytes (w_out w) = flat_map batch_enc bs /\ vs = flat_map snd bs /\ Forall batch_ok bs /\ bs <> [].
Proof.
  intros Hok Hd Hff. destruct (final_finish_split cs oks Hff) as (cs0 & oks0 & -> & -> & Hl).
  rewrite drive_app in Hd.
  destruct (drive_results (new_writer None) cs0) as [[w1 o1]| | |] eqn:E1; cbn [bind] in Hd; try discriminate.
  cbn [drive_results] in Hd.
  destruct (wstep w1 CFinish) as [[w2 okf]| | |] eqn:Ef; cbn [bind] in Hd; try discriminate.
  inversion Hd as [[Hw Ho]]. subst w2.
  pose proof (drive_results_length _ _ _ _ E1) as Hl1.
  assert (o1 = oks0 /\ okf = true) as [-> ->].
  { assert (Hlen : length o1 = length oks0) by (timeout 10 congruence). clear - Ho Hlen.
    revert oks0 Ho Hlen. induction o1 as [|x o1 IH]; intros [|y oks0] Ho Hlen; try discriminate Hlen.
    - inversion Ho; split; reflexivity.
    - cbn [app] in Ho. inversion Ho; subst. destruct (IH oks0 H1 ltac:(cbn in Hlen; timeout 10 congruence)) as [-> ->]. split; reflexivity. }
  apply Forall_app in Hok. destruct Hok as [Hok0 _].
  assert (He1 : w_err w1 = false).
  { destruct (w_err w1) eqn:E; [|reflexivity]. unfold wstep in Ef. rewrite (bw_sticky _ w1 CFinish E) in Ef. discriminate. }
  destruct (rel_run cs0 _ _ _ _ rel_init Hok0 E1 He1) as (st1 & Hdn & HR1).
  destruct (rel_finish w1 st1 w true HR1 Ef) as [[Hx _]|(_ & Hlen4 & st2 & Hs2 & HR2)]; [discriminate|].
  assert (Hdn2 : denote_from d_init (cs0 ++ [CFinish]) (oks0 ++ [true]) = Some st2).
  { rewrite denote_from_app by exact Hl. rewrite Hdn. cbn [denote_from]. rewrite Hs2. reflexivity. }
  cbn [dstep] in Hs2. destruct (ds_stack st1); [|discriminate]. inversion Hs2; subst st2. clear Hs2.
  destruct HR2 as (ws & ctx & fld & a & bufs & L & -> & _ & _ & _ & _ & _ & _ & Hfl & _ & _).
  cbn [ds_flushed] in Hfl. destruct Hfl as (bs & H1 & H2 & H3).
  exists (ds_flushed st1 ++ ds_done st1), bs. unfold denote, denote_flushed. rewrite Hdn2.
  cbn [ds_stack ds_flushed ds_done option_map]. rewrite app_nil_r.
  split; [reflexivity|]. split; [reflexivity|]. split; [exact H1|]. split; [exact H2|]. split; [exact H3|].
  intros ->. cbn [flat_map] in H1. cbn [w_out mkw] in Hlen4. unfold sink_bytes in Hlen4. cbn [sk_writes osink] in Hlen4.
  rewrite H1 in Hlen4. cbn [length] in Hlen4. lia.
Qed.

(* ---- the specification decoder on a sequence of batches ------------------------------------------------------------------ *)
Lemma sp_stream_bvm k ctx r : sp_stream (S k) ctx (224 :: 1 :: 0 :: 234 :: r) = sp_stream k system_ctx r.
Proof. reflexivity. Qed.

Lemma enc_values_length L vs : Forall wf_top vs -> (length vs <= length (flat_map (enc L) vs))%nat.
Proof.
  induction vs as [|v vs IH]; intros H; [cbn; lia|]. inversion H as [|? ? [Hv _] H']; subst.
  cbn [flat_map length]. rewrite app_length. pose proof (length_pos_nonempty _ (enc_nonempty L v Hv)). specialize (IH H'). lia.
Qed.

Lemma sp_stream_values_rest L : N.of_nat (length L) < two63 ->
  forall vs, Forall wf_top vs -> Forall (known L) (flat_map (texts []) vs) ->
  forall k rest, (length (flat_map (enc L) vs ++ rest) <= k)%nat ->
  N.of_nat (length (flat_map (enc L) vs)) < two63 ->
  sp_stream k (ctx_of L) (flat_map (enc L) vs ++ rest)
  = option_map (app vs) (sp_stream (k - length vs) (ctx_of L) rest).
Proof.
  intros HL. induction vs as [|v vs IH]; intros Hw Hk k rest Hlen Hb; cbn [flat_map] in *.
  - cbn [app length]. rewrite Nat.sub_0_r. destruct (sp_stream k (ctx_of L) rest); reflexivity.
  - inversion Hw as [|? ? [Hwv Hnl] Hws]; subst. apply Forall_app in Hk. destruct Hk as [Hkv Hks].
    rewrite <- app_assoc in *. rewrite !app_length in Hlen. rewrite app_length in Hb.
    pose proof (length_pos_nonempty _ (enc_nonempty L v Hwv)) as H1.
    destruct k as [|k]; [lia|].
    destruct (enc_head L v Hwv) as (tag & r & E & Htag & _).
    pose proof (sp_value_enc L HL v Hwv Hkv (S k) (flat_map (enc L) vs ++ rest) ltac:(lia) ltac:(lia)) as Hv.
    rewrite E in Hv |- *. cbn [app] in Hv |- *. rewrite sp_stream_step by exact Htag.
    rewrite Hv, Hnl. rewrite IH; [|assumption|assumption|rewrite app_length; lia|lia].
    cbn [length Nat.sub]. destruct (sp_stream (k - length vs) (ctx_of L) rest); reflexivity.
Qed.

(* one batch after its version marker, followed by anything that decodes whatever the context and fuel *)
Lemma sp_stream_batch L vs rest rv : Forall wf_top vs -> Forall utf8_ok L ->
  Forall (known L) (flat_map (texts []) vs) ->
  (forall k ctx, (length rest <= k)%nat -> sp_stream k ctx rest = Some rv) ->
  forall k, (length (enc_lst L ++ flat_map (enc L) vs ++ rest) <= k)%nat ->
  N.of_nat (length (enc_lst L ++ flat_map (enc L) vs)) < two63 ->
  sp_stream k system_ctx (enc_lst L ++ flat_map (enc L) vs ++ rest) = Some (vs ++ rv).
Proof.
  intros Hw Hu Hk Hrest k Hlen Hb. rewrite !app_length in Hlen. rewrite app_length in Hb.
  pose proof (enc_values_length L vs Hw) as Hvl.
  destruct L as [|t0 L0] eqn:EL.
  - cbn [enc_lst app length] in *. rewrite <- ctx_of_nil.
    rewrite sp_stream_values_rest; [|cbn; unfold two63; lia|exact Hw|exact Hk|rewrite app_length; lia|lia].
    rewrite Hrest by lia. reflexivity.
  - rewrite <- EL in *. assert (HeL : enc_lst L = enc [] (lst_value L)) by (rewrite EL; reflexivity).
    assert (HneL : L <> []) by (rewrite EL; discriminate).
    rewrite HeL in *. clear EL.
    pose proof (lst_length L) as HlL.
    assert (HL : N.of_nat (length L) < two63) by lia.
    pose proof (lst_value_wf L Hu) as Hwl.
    pose proof (length_pos_nonempty _ (enc_nonempty [] _ Hwl)) as Hpos.
    destruct k as [|k]; [lia|].
    destruct (enc_head [] (lst_value L) Hwl) as (tag & r & E & Htag & _).
    pose proof (sp_value_enc [] ltac:(cbn; unfold two63; lia) (lst_value L) Hwl (lst_value_known L)
                  (S k) (flat_map (enc L) vs ++ rest) ltac:(lia) ltac:(lia)) as Hv.
    rewrite ctx_of_nil in Hv. rewrite E in Hv |- *. cbn [app] in Hv |- *.
    rewrite sp_stream_step by exact Htag. rewrite Hv.
    destruct (apply_lst_value system_ctx L HneL) as (fs & -> & ->).
    rewrite sp_stream_values_rest; [|exact HL|exact Hw|exact Hk|rewrite app_length; lia|lia].
    rewrite Hrest by lia. reflexivity.
Qed.

Definition batch_top (b : list text * list value) : Prop := Forall (fun v => is_lst v = None) (snd b).

Lemma batch_wf_top b : batch_ok b -> batch_top b -> Forall wf_top (snd b).
Proof.
  intros (A & _ & _) B. unfold batch_top in B. rewrite Forall_forall in *. intros v Hv. split; auto.
Qed.

Lemma sp_stream_batches bs : Forall batch_ok bs -> Forall batch_top bs ->
  N.of_nat (length (flat_map batch_enc bs)) < two63 ->
  forall k ctx, (length (flat_map batch_enc bs) <= k)%nat ->
  sp_stream k ctx (flat_map batch_enc bs) = Some (flat_map snd bs).
Proof.
  induction bs as [|[L vs] bs IH]; intros Hok Htop Hb k ctx Hlen; cbn [flat_map] in *.
  - apply sp_stream_nil.
  - inversion Hok as [|? ? Hok1 Hok']; subst. inversion Htop as [|? ? Htop1 Htop']; subst.
    set (rest := flat_map batch_enc bs) in *.
    change (batch_enc (L, vs)) with (bvm ++ enc_lst L ++ flat_map (enc L) vs) in *. unfold bvm in *. rewrite <- !app_assoc in *. cbn [app] in *.
    cbn [length] in Hlen, Hb. rewrite !app_length in Hlen, Hb.
    destruct k as [|k]; [lia|]. rewrite sp_stream_bvm.
    destruct Hok1 as (A & B & C). cbn [fst snd] in *.
    apply sp_stream_batch; [apply (batch_wf_top (L, vs)); [repeat split; assumption|exact Htop1]|exact B|exact C| | |].
    + intros k' ctx' Hk'. apply IH; [exact Hok'|exact Htop'|fold rest; lia|exact Hk'].
    + rewrite !app_length. lia.
    + rewrite app_length. lia.
Qed.

Theorem sdecode_batches bs : bs <> [] -> Forall batch_ok bs -> Forall batch_top bs ->
  N.of_nat (length (flat_map batch_enc bs)) < two63 ->
  sdecode (flat_map batch_enc bs) = Some (flat_map snd bs).
Proof.
  intros Hne Hok Htop Hb. destruct bs as [|[L vs] bs]; [contradiction|]. cbn [flat_map] in *.
  inversion Hok as [|? ? Hok1 Hok']; subst. inversion Htop as [|? ? Htop1 Htop']; subst.
  set (rest := flat_map batch_enc bs) in *.
  change (batch_enc (L, vs)) with (bvm ++ enc_lst L ++ flat_map (enc L) vs) in *. unfold bvm in *. rewrite <- !app_assoc in *. cbn [app] in *.
  cbn [sdecode]. cbn [length] in Hb |- *. rewrite !app_length in Hb. destruct Hok1 as (A & B & C). cbn [fst snd] in *.
  apply sp_stream_batch; [apply (batch_wf_top (L, vs)); [repeat split; assumption|exact Htop1]|exact B|exact C| | |].
  - intros k' ctx' Hk'. apply sp_stream_batches; [exact Hok'|exact Htop'|fold rest; lia|exact Hk'].
  - rewrite !app_length. lia.
  - rewrite app_length. lia.
Qed.

(* ---- the headline --------------------------------------------------------------------------------------------------------- *)
Lemma batch_top_of bs : Forall (fun v => is_lst v = None) (flat_map snd bs) -> Forall batch_top bs.
Proof.
  induction bs as [|b bs IH]; intros H; [constructor|]. cbn [flat_map] in H. apply Forall_app in H.
  destruct H as [H1 H2]. constructor; [exact H1|apply IH; exact H2].
Qed.
Lemma batch_wf_of bs : Forall batch_ok bs -> Forall wf_value (flat_map snd bs).
Proof.
  induction bs as [|b bs IH]; intros H; [constructor|]. inversion H as [|? ? (A & _) H']; subst.
  cbn [flat_map]. apply Forall_app. split; [exact A|apply IH; exact H'].
Qed.

Theorem denote_sound cs w oks : Forall call_ok cs ->
  drive_results (new_writer None) cs = Ok (w, oks) -> final_finish_ok cs oks ->
  exists vs, denote cs oks = Some vs /\ Forall wf_value vs /\
    (Forall (fun v => is_lst v = None) vs -> N.of_nat (length (sink_bytes (w_out w))) < two63 ->
     sdecode (sink_bytes (w_out w)) = Some vs).
Proof.
  intros Hok Hd Hff. destruct (denote_writer cs w oks Hok Hd Hff) as (vs & bs & H1 & _ & H3 & H4 & H5 & H6).
  exists vs. split; [exact H1|]. split; [rewrite H4; apply batch_wf_of; exact H5|].
  intros Htop Hlen. rewrite H3 in *. rewrite H4 in *. apply sdecode_batches; [exact H6|exact H5|apply batch_top_of; exact Htop|exact Hlen].
Qed.

Corollary denote_sound_show cs w oks : Forall call_ok cs ->
  drive_results (new_writer None) cs = Ok (w, oks) -> final_finish_ok cs oks ->
  exists vs vs', denote cs oks = Some vs /\
    (Forall (fun v => is_lst v = None) vs -> N.of_nat (length (sink_bytes (w_out w))) < two63 ->
     sdecode (sink_bytes (w_out w)) = Some vs' /\ show_values vs' = show_values vs).
Proof.
  intros Hok Hd Hff. destruct (denote_sound cs w oks Hok Hd Hff) as (vs & H1 & _ & H2).
  exists vs, vs. split; [exact H1|]. intros A B. split; [apply H2; assumption|reflexivity].
Qed.

(* what the theorem rests on, stated separately: if the final Finish returned nil then every call other than
   Finish returned nil (a failing one would have poisoned the writer) *)
Theorem final_finish_all_ok cs : forall w w' oks, drive_results w cs = Ok (w', oks) -> w_err w' = false ->
  Forall2 (fun c ok => c <> CFinish -> ok = true) cs oks.
Proof.
  induction cs as [|c cs IH]; intros w w' oks Hd He; cbn [drive_results] in Hd.
  - inversion Hd; constructor.
  - destruct (wstep w c) as [[w1 ok]| | |] eqn:Es; cbn [bind] in Hd; try discriminate.
    destruct (drive_results w1 cs) as [[w2 oks2]| | |] eqn:Ed; cbn [bind] in Hd; try discriminate.
    inversion Hd; subst w2 oks. constructor; [|eapply IH; eassumption].
    intros Hnf. destruct ok; [reflexivity|]. exfalso.
    pose proof (bw_error_recorded _ w c w1 Es Hnf) as He1.
    destruct (bw_sticky_seq cs w1 w' oks2 He1 Ed) as [-> _]. timeout 10 congruence.
Qed.
