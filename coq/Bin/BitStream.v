(* BitStream.v — executable model of ion/bitstream.go: the byte cursor with its
   absolute-offset container stack, states and the eager scalar readers.

   Input: the bytes not yet consumed, plus what the underlying io.Reader does
   when they run out (clean EOF, or an I/O failure).  uint64 arithmetic that
   can wrap in Go (pos, pos+len, remaining) wraps here.  [b_alloc] records the
   largest single allocation requested by readN.  No proofs. *)
From Coq Require Import String List NArith ZArith Bool.
From IonV Require Import Base.Wire Base.Utf8 Bin.Bits Data.Ion Num.Float.
Import ListNotations.
Open Scope N_scope.

(* bss *)
Definition bssBeforeValue : N := 0.  Definition bssOnValue : N := 1.
Definition bssBeforeFieldID : N := 2.  Definition bssOnFieldID : N := 3.
(* bitcode *)
Definition bcNone : N := 0.  Definition bcEOF : N := 1.  Definition bcBVM : N := 2.
Definition bcNull : N := 3.  Definition bcFalse : N := 4.  Definition bcTrue : N := 5.
Definition bcInt : N := 6.  Definition bcNegInt : N := 7.  Definition bcFloat : N := 8.
Definition bcDecimal : N := 9.  Definition bcTimestamp : N := 10.  Definition bcSymbol : N := 11.
Definition bcString : N := 12.  Definition bcClob : N := 13.  Definition bcBlob : N := 14.
Definition bcList : N := 15.  Definition bcSexp : N := 16.  Definition bcStruct : N := 17.
Definition bcFieldID : N := 18.  Definition bcAnnotation : N := 19.

Record bstate := {
  b_in : list N;            (* bytes not yet consumed *)
  b_ioerr : bool;           (* when the bytes run out: true = the io.Reader fails, false = io.EOF *)
  b_pos : N;
  b_state : N;
  b_stack : list (N * N);   (* (code, end), top first *)
  b_code : N;
  b_null : bool;
  b_len : N;
  b_alloc : N;              (* largest make([]byte, n) requested so far *)
  b_avail : N;              (* = length b_in, maintained incrementally *)
  b_fuel : nat              (* recursion budget fixed at creation: input length + 2 *)
}.

Definition b_init (inp : list N) (ioerr : bool) : bstate :=
  {| b_in := inp; b_ioerr := ioerr; b_pos := 0; b_state := bssBeforeValue; b_stack := [];
     b_code := bcNone; b_null := false; b_len := 0; b_alloc := 0;
     b_avail := N.of_nat (length inp); b_fuel := S (S (length inp)) |}.

Definition upd_in (b : bstate) (inp : list N) (pos : N) (avail : N) : bstate :=
  {| b_in := inp; b_ioerr := b_ioerr b; b_pos := pos; b_state := b_state b; b_stack := b_stack b;
     b_code := b_code b; b_null := b_null b; b_len := b_len b; b_alloc := b_alloc b;
     b_avail := avail; b_fuel := b_fuel b |}.
Definition upd_state (b : bstate) (st : N) : bstate :=
  {| b_in := b_in b; b_ioerr := b_ioerr b; b_pos := b_pos b; b_state := st; b_stack := b_stack b;
     b_code := b_code b; b_null := b_null b; b_len := b_len b; b_alloc := b_alloc b;
     b_avail := b_avail b; b_fuel := b_fuel b |}.
Definition upd_stack (b : bstate) (st : list (N * N)) : bstate :=
  {| b_in := b_in b; b_ioerr := b_ioerr b; b_pos := b_pos b; b_state := b_state b; b_stack := st;
     b_code := b_code b; b_null := b_null b; b_len := b_len b; b_alloc := b_alloc b;
     b_avail := b_avail b; b_fuel := b_fuel b |}.
Definition upd_cur (b : bstate) (code : N) (null : bool) (len : N) : bstate :=
  {| b_in := b_in b; b_ioerr := b_ioerr b; b_pos := b_pos b; b_state := b_state b; b_stack := b_stack b;
     b_code := code; b_null := null; b_len := len; b_alloc := b_alloc b;
     b_avail := b_avail b; b_fuel := b_fuel b |}.
Definition upd_alloc (b : bstate) (n : N) : bstate :=
  {| b_in := b_in b; b_ioerr := b_ioerr b; b_pos := b_pos b; b_state := b_state b; b_stack := b_stack b;
     b_code := b_code b; b_null := b_null b; b_len := b_len b; b_alloc := N.max (b_alloc b) n;
     b_avail := b_avail b; b_fuel := b_fuel b |}.
Definition b_clear (b : bstate) : bstate := upd_cur b bcNone false 0.

(* every operation returns the new stream state together with its result, because a
   failing Go call has usually already moved pos / consumed input *)
Definition bres (A : Type) := (bstate * res A)%type.

Definition stack_peek (b : bstate) : N * N := match b_stack b with [] => (0, 0) | x :: _ => x end.
(* stateAfterValue *)
Definition state_after_value (b : bstate) : N :=
  if fst (stack_peek b) =? bcStruct then bssBeforeFieldID else bssBeforeValue.

(* read(): Some c, or None at EOF; pos is incremented in every case *)
Definition b_read (b : bstate) : bres (option N) :=
  match b_in b with
  | c :: r => (upd_in b r (wrap64 (b_pos b + 1)) (b_avail b - 1), Ok (Some c))
  | [] => let b' := upd_in b [] (wrap64 (b_pos b + 1)) 0 in
          if b_ioerr b then (b', Err) else (b', Ok None)
  end.
(* read1(): EOF is an error *)
Definition b_read1 (b : bstate) : bres N :=
  match b_read b with
  | (b', Ok (Some c)) => (b', Ok c)
  | (b', Ok None) => (b', Err)
  | (b', Err) => (b', Err)
  | (b', Panic) => (b', Panic)
  | (b', OutOfFuel) => (b', OutOfFuel)
  end.

Fixpoint split_at (n : nat) (l : list N) : list N * list N :=
  match n, l with
  | O, _ => ([], l)
  | S k, x :: r => let '(a, c) := split_at k r in (x :: a, c)
  | S _, [] => ([], [])
  end.

(* readN(n): io.ReadFull in chunks of at most 64 KiB; the buffer grows as bytes arrive, so
   the memory requested is bounded by the bytes present plus one chunk *)
Definition read_chunk_size : N := 65536.
Definition b_readN (b : bstate) (n : N) : bres (list N) :=
  if n =? 0 then (b, Ok []) else
  let avail := b_avail b in
  let b := upd_alloc b (N.min n (avail + read_chunk_size)) in
  if n <=? avail then
    let '(a, r) := split_at (N.to_nat n) (b_in b) in
    (upd_in b r (wrap64 (b_pos b + n)) (avail - n), Ok a)
  else (upd_in b [] (wrap64 (b_pos b + avail)) 0, Err).

(* skip(n): bufio.Discard(int(n)); running out of input is NOT an error here *)
Definition b_skip (b : bstate) (n : N) : bres unit :=
  if two63 <=? n then (b, Err) else                      (* int(n) < 0: bufio.ErrNegativeCount *)
  let avail := b_avail b in
  if n <=? avail then
    (upd_in b (skipn (N.to_nat n) (b_in b)) (wrap64 (b_pos b + n)) (avail - n), Ok tt)
  else
    (* fewer bytes than declared: UnexpectedEOFError (or the I/O failure) *)
    (upd_in b [] (wrap64 (b_pos b + avail)) 0, Err).

(* peekAtOffset(k) *)
Definition b_peek (b : bstate) (k : N) : res N :=
  match nth_error (b_in b) (N.to_nat k) with
  | Some c => Ok c
  | None => Err
  end.

(* remaining() *)
Definition b_remaining (b : bstate) : res N :=
  match b_stack b with
  | [] => Ok 18446744073709551615
  | (_, e) :: _ => if e <? b_pos b then Panic else Ok (e - b_pos b)
  end.

(* readVarUintLen(max) on the stream *)
Fixpoint b_varuint_loop (fuel : nat) (b : bstate) (max val len : N) : bres (N * N) :=
  match fuel with
  | O => (b, OutOfFuel)
  | S f =>
    if max <=? len then (b, Err) else
    match b_read1 b with
    | (b', Ok c) =>
      if max_u64_shr7 <? val then (b', Err) else
      let val' := wrap64 (val * 128) + c mod 128 in
      if 128 <=? c then (b', Ok (val', len + 1)) else b_varuint_loop f b' max val' (len + 1)
    | (b', Err) => (b', Err)
    | (b', Panic) => (b', Panic)
    | (b', OutOfFuel) => (b', OutOfFuel)
    end
  end.
Definition b_read_varuint (b : bstate) (max : N) : bres (N * N) :=
  b_varuint_loop 11 b (N.min max 10) 0 0.

(* skipVarUintLen(max) *)
Fixpoint b_skip_varuint_loop (fuel : nat) (b : bstate) (max len : N) : bres N :=
  match fuel with
  | O => (b, OutOfFuel)
  | S f =>
    if max <=? len then (b, Err) else
    match b_read1 b with
    | (b', Ok c) => if 128 <=? c then (b', Ok (len + 1)) else b_skip_varuint_loop f b' max (len + 1)
    | (b', Err) => (b', Err)
    | (b', Panic) => (b', Panic)
    | (b', OutOfFuel) => (b', OutOfFuel)
    end
  end.

(* readVarIntLen(max): value, sign (true = negative), length *)
Fixpoint b_varint_loop (fuel : nat) (b : bstate) (max val len : N) (neg : bool) : bres (Z * bool * N) :=
  match fuel with
  | O => (b, OutOfFuel)
  | S f =>
    if max <=? len then (b, Err) else
    match b_read1 b with
    | (b', Ok c) =>
      if max_i64_shr7 <? val then (b', Err) else
      let val' := wrap64 (val * 128) + c mod 128 in
      if 128 <=? c
      then (b', Ok (to_i64 (of_i64 ((if neg then -1 else 1) * to_i64 val')%Z), neg, len + 1))
      else b_varint_loop f b' max val' (len + 1) neg
    | (b', Err) => (b', Err)
    | (b', Panic) => (b', Panic)
    | (b', OutOfFuel) => (b', OutOfFuel)
    end
  end.
Definition b_read_varint (b : bstate) (max : N) : bres (Z * bool * N) :=
  if max =? 0 then (b, Err) else
  match b_read1 b with
  | (b', Ok c) =>
    let neg := 64 <=? c mod 128 in
    let val := c mod 64 in
    if 128 <=? c then (b', Ok ((if neg then - Z.of_N val else Z.of_N val)%Z, neg, 1))
    else b_varint_loop 11 b' (N.min max 10) val 1 neg
  | (b', Err) => (b', Err)
  | (b', Panic) => (b', Panic)
  | (b', OutOfFuel) => (b', OutOfFuel)
  end.

(* parseTag: bitcode of the high nibble, and the low nibble *)
Definition bitcode_of_high (h : N) : N :=
  if h =? 0 then bcNull else if h =? 1 then bcFalse else if h =? 2 then bcInt else if h =? 3 then bcNegInt
  else if h =? 4 then bcFloat else if h =? 5 then bcDecimal else if h =? 6 then bcTimestamp
  else if h =? 7 then bcSymbol else if h =? 8 then bcString else if h =? 9 then bcClob
  else if h =? 10 then bcBlob else if h =? 11 then bcList else if h =? 12 then bcSexp
  else if h =? 13 then bcStruct else if h =? 14 then bcAnnotation else bcNone.
Definition b_parse_tag (c : N) : N * N := (bitcode_of_high (c / 16 mod 16), c mod 16).

(* SkipValue *)
Definition b_skip_value (b : bstate) : bres unit :=
  if (b_state b =? bssBeforeFieldID) || (b_state b =? bssBeforeValue) then (b, Ok tt)
  else if b_state b =? bssOnFieldID then
    match b_remaining b with
    | Ok rem =>
      match b_skip_varuint_loop 11 b (N.min rem 10) 0 with
      | (b', Ok _) => (b_clear (upd_state b' bssBeforeValue), Ok tt)
      | (b', Err) => (b', Err)
      | (b', Panic) => (b', Panic)
      | (b', OutOfFuel) => (b', OutOfFuel)
      end
    | Panic => (b, Panic)
    | _ => (b, Err)
    end
  else if b_state b =? bssOnValue then
    match (if 0 <? b_len b then b_skip b (b_len b) else (b, Ok tt)) with
    | (b', Ok _) => (b_clear (upd_state b' (state_after_value b')), Ok tt)
    | (b', r) => (b', r)
    end
  else (b, Panic).

(* Next *)
Definition b_next (b : bstate) : bres unit :=
  match (if (b_state b =? bssOnValue) || (b_state b =? bssOnFieldID) then b_skip_value b else (b, Ok tt)) with
  | (b, Ok _) =>
    if (match b_stack b with (_, e) :: _ => b_pos b =? e | [] => false end)
    then (if (match b_stack b with (k, _) :: _ => (k =? bcStruct) && (b_state b =? bssBeforeValue) | [] => false end)
          then (b, Err)                (* a field name must be followed by its value *)
          else (upd_cur b bcEOF (b_null b) (b_len b), Ok tt))
    else if b_state b =? bssBeforeFieldID
    then (upd_state (upd_cur b bcFieldID (b_null b) (b_len b)) bssOnFieldID, Ok tt)
    else
    match b_read b with
    | (b, Ok None) =>
      (match b_stack b with
       | [] => (upd_cur b bcEOF (b_null b) (b_len b), Ok tt)
       | _ => (b, Err)                 (* the input stops inside a container *)
       end)
    | (b, Ok (Some c)) =>
      let '(code, length) := b_parse_tag c in
      (* ordered structs: length always a VarUInt *)
      match (if (code =? bcStruct) && (length =? 1)
             then match b_remaining b with
                  | Ok rem => match b_read_varuint b rem with
                              | (b', Ok (l, _)) => if l =? 0 then (b', Err) else (b', Ok (l, true))
                              | (b', Err) => (b', Err)
                              | (b', Panic) => (b', Panic)
                              | (b', OutOfFuel) => (b', OutOfFuel)
                              end
                  | Panic => (b, Panic)
                  | _ => (b, Err)
                  end
             else (b, Ok (length, false))) with
      | (b, Ok (length, length_read)) =>
        if code =? bcNone then (b, Err) else
        let b := upd_state b bssOnValue in
        if (code =? bcAnnotation) && (length =? 0) then
          (match b_stack b with
           | [] => (upd_cur b bcBVM (b_null b) 3, Ok tt)
           | _ => (b, Err)
           end)
        else if (code =? bcAnnotation) && (length =? 15) then (b, Err)
        else
        (* booleans: the length nibble is the value *)
        match (if code =? bcFalse
               then if (length =? 0) || (length =? 15) then Some (code, length)
                    else if length =? 1 then Some (bcTrue, 0) else None
               else Some (code, length)) with
        | None => (b, Err)
        | Some (code, length) =>
          if (code =? bcNegInt) && (length =? 15) then (b, Err) else       (* 0x3F is not a legal tag *)
          if (length =? 15) && negb length_read then (upd_cur b code true (b_len b), Ok tt) else
          match b_remaining b with
          | Ok rem =>
            match (if (length =? 14) && negb length_read
                   then match b_read_varuint b rem with
                        | (b', Ok (l, ll)) => (b', Ok (l, wrap64 (rem + two64 - ll)))
                        | (b', Err) => (b', Err)
                        | (b', Panic) => (b', Panic)
                        | (b', OutOfFuel) => (b', OutOfFuel)
                        end
                   else (b, Ok (length, rem))) with
            | (b, Ok (length, rem)) =>
              if rem <? length then (b, Err)
              else if wrap64 (b_pos b + length) <? b_pos b then (b, Err)     (* end offset would wrap *)
              else (upd_cur b code (b_null b) length, Ok tt)
            | (b, Err) => (b, Err)
            | (b, Panic) => (b, Panic)
            | (b, OutOfFuel) => (b, OutOfFuel)
            end
          | Panic => (b, Panic)
          | _ => (b, Err)
          end
        end
      | (b, Err) => (b, Err)
      | (b, Panic) => (b, Panic)
      | (b, OutOfFuel) => (b, OutOfFuel)
      end
    | (b, Err) => (b, Err)
    | (b, Panic) => (b, Panic)
    | (b, OutOfFuel) => (b, OutOfFuel)
    end
  | (b, Err) => (b, Err)
  | (b, Panic) => (b, Panic)
  | (b, OutOfFuel) => (b, OutOfFuel)
  end.

(* StepIn *)
Definition b_step_in (b : bstate) : bres unit :=
  if b_code b =? bcStruct
  then (b_clear (upd_stack (upd_state b bssBeforeFieldID) ((b_code b, wrap64 (b_pos b + b_len b)) :: b_stack b)), Ok tt)
  else if (b_code b =? bcList) || (b_code b =? bcSexp)
  then (b_clear (upd_stack (upd_state b bssBeforeValue) ((b_code b, wrap64 (b_pos b + b_len b)) :: b_stack b)), Ok tt)
  else (b, Panic).

(* StepOut *)
Definition b_step_out (b : bstate) : bres unit :=
  match b_stack b with
  | [] => (b, Panic)
  | (_, e) :: rest =>
    let b := upd_stack b rest in
    if e <? b_pos b then (b, Panic) else
    let diff := e - b_pos b in
    match (if 0 <? diff then b_skip b diff else (b, Ok tt)) with
    | (b', Ok _) => (b_clear (upd_state b' (state_after_value b')), Ok tt)
    | (b', r) => (b', r)
    end
  end.

(* ReadBVM: major, minor *)
Definition b_read_bvm (b : bstate) : bres (N * N) :=
  if negb (b_code b =? bcBVM) then (b, Panic) else
  match b_read1 b with
  | (b, Ok major) =>
    match b_read1 b with
    | (b, Ok minor) =>
      match b_read1 b with
      | (b, Ok e) => if negb (e =? 234) then (b, Err)
                     else (b_clear (upd_state b bssBeforeValue), Ok (major, minor))
      | (b, r) => (b, match r with Panic => Panic | OutOfFuel => OutOfFuel | _ => Err end)
      end
    | (b, r) => (b, match r with Panic => Panic | OutOfFuel => OutOfFuel | _ => Err end)
    end
  | (b, r) => (b, match r with Panic => Panic | OutOfFuel => OutOfFuel | _ => Err end)
  end.

(* ReadFieldID *)
Definition b_read_field_id (b : bstate) : bres N :=
  if negb (b_code b =? bcFieldID) then (b, Panic) else
  match b_remaining b with
  | Ok rem =>
    match b_read_varuint b rem with
    | (b', Ok (id, _)) => (upd_cur (upd_state b' bssBeforeValue) bcNone (b_null b') (b_len b'), Ok id)
    | (b', Err) => (b', Err)
    | (b', Panic) => (b', Panic)
    | (b', OutOfFuel) => (b', OutOfFuel)
    end
  | Panic => (b, Panic)
  | _ => (b, Err)
  end.

(* validateAnnotatedValue(remainingLength): looks ahead without consuming.
   bufio.Reader.Peek(n) fails with ErrBufferFull beyond the 4096-byte buffer. *)
Fixpoint validate_len_loop (fuel : nat) (b : bstate) (counter val remaining : N) : res (N * N) :=
  match fuel with
  | O => OutOfFuel
  | S f =>
    match (if 4096 <=? counter then Err else b_peek b counter) with
    | Ok c =>
      let remaining := wrap64 (remaining + two64 - 1) in
      let val := wrap64 (val * 128) + c mod 128 in
      if 128 <=? c then Ok (val, remaining) else validate_len_loop f b (counter + 1) val remaining
    | _ => Err
    end
  end.
Definition b_validate_annotated (b : bstate) (remaining : N) : res unit :=
  match b_peek b 0 with
  | Ok tagByte =>
    let '(code, length) := b_parse_tag tagByte in
    if length =? 15 then (if remaining =? 1 then Ok tt else Err)
    else if code =? bcNull then Err
    else if code =? bcAnnotation then Err
    else
      (* a bool keeps its value in the length nibble: 0x11 occupies no further bytes *)
      let length := if (code =? bcFalse) && (length =? 1) then 0 else length in
      let remaining := wrap64 (remaining + two64 - 1) in
      if (length =? 14) || ((code =? bcStruct) && (length =? 1)) then
        (* the peek loop runs until a byte with the stop bit; it is bounded by the input *)
        match validate_len_loop (b_fuel b) b 1 0 remaining with
        | Ok (l, rem') => if l =? rem' then Ok tt else Err
        | Err => Err
        | Panic => Panic
        | OutOfFuel => OutOfFuel
        end
      else if length =? remaining then Ok tt else Err
  | _ => Err
  end.

(* ReadAnnotations: the symbol IDs, in order.  [sid_ok] is NewSymbolTokenBySID's check
   against the table in force (the loop stops at the first ID it rejects). *)
Fixpoint annot_loop (fuel : nat) (b : bstate) (sid_ok : N -> bool) (left : N) (acc : list N)
  : bres (list N) :=
  match fuel with
  | O => (b, OutOfFuel)
  | S f =>
    if left =? 0 then (b, Ok (rev_append acc [])) else
    match b_read_varuint b left with
    | (b', Ok (id, idlen)) =>
      if sid_ok id then annot_loop f b' sid_ok (wrap64 (left + two64 - idlen)) (id :: acc)
      else (b', Err)
    | (b', Err) => (b', Err)
    | (b', Panic) => (b', Panic)
    | (b', OutOfFuel) => (b', OutOfFuel)
    end
  end.
Definition b_read_annotations (b : bstate) (sid_ok : N -> bool) : bres (list N) :=
  if negb (b_code b =? bcAnnotation) then (b, Panic) else
  match b_read_varuint b (b_len b) with
  | (b1, Ok (alen, llen)) =>
    if alen =? 0 then (b1, Err) else
    if wrap64 (b_len b + two64 - llen) <? alen then (b1, Err) else    (* annotations longer than the wrapper *)
    let remaining := wrap64 (wrap64 (b_len b + two64 - llen) + two64 - alen) in
    if remaining =? 0 then (b1, Err) else
    (* every iteration consumes at least one byte of input or fails *)
    match annot_loop (b_fuel b1) b1 sid_ok alen [] with
    | (b2, Ok ids) =>
      match b_validate_annotated b2 remaining with
      | Ok _ => (b_clear (upd_state b2 bssBeforeValue), Ok ids)
      | Err => (b2, Err)
      | Panic => (b2, Panic)
      | OutOfFuel => (b2, OutOfFuel)
      end
    | (b2, r) => (b2, match r with Panic => Panic | OutOfFuel => OutOfFuel | _ => Err end)
    end
  | (b1, r) => (b1, match r with Panic => Panic | OutOfFuel => OutOfFuel | _ => Err end)
  end.

Definition done_value (b : bstate) : bstate := b_clear (upd_state b (state_after_value b)).

(* what ReadInt returns: an int64 or a *big.Int *)
Inductive intval := I64 (z : Z) | IBig (z : Z).

(* ReadInt *)
Definition b_read_int (b : bstate) : bres intval :=
  if negb ((b_code b =? bcInt) || (b_code b =? bcNegInt)) then (b, Panic) else
  let len := b_len b in
  let neg := b_code b =? bcNegInt in
  match b_readN b len with
  | (b', Ok bs) =>
    let '(v, is_zero) :=
      if len =? 0 then (I64 0, true)
      else if (len <? 8) || ((len =? 8) && (hd 0 bs <? 128)) then
        let i := from_be64 bs in
        (I64 (if neg then (- Z.of_N i)%Z else Z.of_N i), i =? 0)
      else
        let i := from_be bs in
        (IBig (if neg then (- Z.of_N i)%Z else Z.of_N i), i =? 0) in
    if is_zero && neg then (b', Err) else (done_value b', Ok v)
  | (b', r) => (b', match r with Panic => Panic | OutOfFuel => OutOfFuel | _ => Err end)
  end.

(* ReadFloat: float64 bits *)
Definition b_read_float (b : bstate) : bres N :=
  if negb (b_code b =? bcFloat) then (b, Panic) else
  match b_readN b (b_len b) with
  | (b', Ok bs) =>
    match length bs with
    | 0%nat => (done_value b', Ok 0)
    | 4%nat => (done_value b', Ok (widen (from_be bs)))
    | 8%nat => (done_value b', Ok (from_be bs))
    | _ => (b', Err)
    end
  | (b', r) => (b', match r with Panic => Panic | OutOfFuel => OutOfFuel | _ => Err end)
  end.

(* readDecimal(length) *)
Definition b_read_decimal_len (b : bstate) (length : N) : bres dec :=
  match (if 0 <? length
         then match b_read_varint b length with
              | (b', Ok (v, _, vlen)) =>
                if ((2147483647 <? v) || (v <? -2147483648))%Z then (b', Err)
                else (b', Ok (v, wrap64 (length + two64 - vlen)))
              | (b', r) => (b', match r with Panic => Panic | OutOfFuel => OutOfFuel | _ => Err end)
              end
         else (b, Ok (0%Z, length))) with
  | (b1, Ok (exp, length)) =>
    if 0 <? length then
      match b_readN b1 length with
      | (b2, Ok bs) =>
        match read_signmag bs with
        | Ok c => (b2, Ok {| d_coef := c; d_exp := exp;
                             (* negative zero only when the sign bit of the coefficient is set *)
                             d_negzero := (128 <=? hd 0 bs) && (c =? 0)%Z |})
        | Panic => (b2, Panic)
        | _ => (b2, Err)
        end
      | (b2, r) => (b2, match r with Panic => Panic | OutOfFuel => OutOfFuel | _ => Err end)
      end
    else (b1, Ok {| d_coef := 0; d_exp := exp; d_negzero := false |})
  | (b1, r) => (b1, match r with Panic => Panic | OutOfFuel => OutOfFuel | _ => Err end)
  end.
Definition b_read_decimal (b : bstate) : bres dec :=
  if negb (b_code b =? bcDecimal) then (b, Panic) else
  match b_read_decimal_len b (b_len b) with
  | (b', Ok d) => (done_value b', Ok d)
  | (b', r) => (b', r)
  end.

(* ReadSymbolID *)
Definition b_read_symbol_id (b : bstate) : bres N :=
  if negb (b_code b =? bcSymbol) then (b, Panic) else
  if 8 <? b_len b then (b, Err) else
  match b_readN b (b_len b) with
  | (b', Ok bs) => (done_value b', Ok (from_be64 bs))
  | (b', r) => (b', match r with Panic => Panic | OutOfFuel => OutOfFuel | _ => Err end)
  end.

(* ReadString: state is advanced before the UTF-8 check *)
Definition b_read_string (b : bstate) : bres text :=
  if negb (b_code b =? bcString) then (b, Panic) else
  match b_readN b (b_len b) with
  | (b', Ok bs) => if utf8_valid bs then (done_value b', Ok bs) else (done_value b', Err)
  | (b', r) => (b', match r with Panic => Panic | OutOfFuel => OutOfFuel | _ => Err end)
  end.

(* ReadBytes *)
Definition b_read_bytes (b : bstate) : bres (list N) :=
  if negb ((b_code b =? bcClob) || (b_code b =? bcBlob)) then (b, Panic) else
  match b_readN b (b_len b) with
  | (b', Ok bs) => (done_value b', Ok bs)
  | (b', r) => (b', match r with Panic => Panic | OutOfFuel => OutOfFuel | _ => Err end)
  end.

(* ReadTimestamp: the body is sliced off here; its interpretation (and whether it is
   accepted) is [ts_ok], supplied by Num/Timestamp.v through the reader model *)
Definition b_read_timestamp (b : bstate) (ts_ok : list N -> res unit) : bres (list N) :=
  if negb (b_code b =? bcTimestamp) then (b, Panic) else
  match b_readN b (b_len b) with
  | (b', Ok bs) =>
    match ts_ok bs with
    | Ok _ => (done_value b', Ok bs)
    | Err => (b', Err)
    | Panic => (b', Panic)
    | OutOfFuel => (b', OutOfFuel)
    end
  | (b', r) => (b', match r with Panic => Panic | OutOfFuel => OutOfFuel | _ => Err end)
  end.
