(* RoundTripBinP.v — the binary round trip composed: Finish emits the version marker, the local symbol
   table and the buffered values; the specification decoder reads the values back (C04/C01, binary). *)
From Coq Require Import String List NArith ZArith Bool Lia ZifyBool ZifyN ZifyNat.
From IonV Require Import Base.Wire Base.Utf8 Bin.Bits Bin.BitsP Data.Ion Num.Float
  Bin.BinWriter Bin.BinWriterP Bin.SpecBin Bin.RoundTripBin Bin.RoundTripBinS Bin.RoundTripBinW.
Import ListNotations.
Open Scope N_scope.
Ltac Zify.zify_post_hook ::= Z.div_mod_to_equations.
Arguments append_varuint : simpl never.
(* ---- the io.Writer that never fails ---------------------------------------------------------------------------- *)
Definition osink (ws : list (list N)) : sink := {| sk_writes := ws; sk_budget := None |}.

Lemma sink_write_all_osink chunks : forall ws, sink_write_all (osink ws) chunks = (osink (ws ++ chunks), true).
Proof.
  induction chunks as [|c chunks IH]; intros ws; cbn [sink_write_all].
  - rewrite app_nil_r. reflexivity.
  - change (sink_write (osink ws) c) with (osink (ws ++ [c]), true). cbv iota beta.
    rewrite IH, <- app_assoc. reflexivity.
Qed.

Lemma run_calls_cons f w c r : run_calls (S f) w (c :: r) =
  do '(w', ok) <- step (run_calls f) w c; if ok then run_calls (S f) w' r else Ok (w', false).
Proof. reflexivity. Qed.

(* ---- the symbols list of the table ---------------------------------------------------------------------------------- *)
Lemma strings_run f ts : forall out ctx q r L wl rest, (ctx_top ctx =? ctxStruct) = false -> bs_code q <> Some 224 ->
  exists q', run_calls (S f) (mkw out ctx None [] (q :: r) L wl) (map CString ts ++ rest)
             = run_calls (S f) (mkw out ctx None [] (q' :: r) L wl) rest /\
    bs_code q' = bs_code q /\
    forall c b, absq q c b -> absq q' c (b ++ flat_map (enc_tagged 128) ts).
Proof.
  induction ts as [|t ts IH]; intros out ctx q r L wl rest Hs Hq; cbn [map app flat_map].
  - exists q. split; [reflexivity|]. split; [reflexivity|]. intros c b H. rewrite app_nil_r. exact H.
  - destruct (write_value_mkw (run_calls f) out ctx None [] q r L wl (enc_tagged 128 t) ltac:(constructor) Hs Hq)
      as (q1 & Hwv & Hc1 & Hd1).
    cbn [option_map map fld_texts app fold_left] in Hwv, Hd1.
    destruct (IH out ctx q1 r L wl rest Hs ltac:(congruence)) as (q2 & E2 & Hc2 & Hd2).
    exists q2. split; [|split; [congruence|]].
    + rewrite run_calls_cons. cbn [step].
      replace (match t with [] => write_value (run_calls f) (mkw out ctx None [] (q :: r) L wl) [128]
                          | _ :: _ => write_value (run_calls f) (mkw out ctx None [] (q :: r) L wl)
                                        (append_tag [] 128 (N.of_nat (length t)) ++ t) end)
        with (write_value (run_calls f) (mkw out ctx None [] (q :: r) L wl) (enc_tagged 128 t)) by (destruct t; reflexivity).
      rewrite Hwv. cbn [bind]. exact E2.
    + intros c b H. rewrite app_assoc. apply Hd2.
      specialize (Hd1 L c b (extends_refl L) H). cbn [fld_bytes wrap app] in Hd1. exact Hd1.
Qed.

Lemma enc_strings L : flat_map (enc []) (map VString L) = flat_map (enc_tagged 128) L.
Proof. induction L as [|t L IH]; [reflexivity|]. cbn [map flat_map enc]. rewrite IH. reflexivity. Qed.

Lemma end_container_bottom ws L S' W : bs_code W = Some 224 -> bs_code S' <> Some 224 ->
  end_container (mkw (osink ws) [ctxStruct] None [] [S'; W] L false) ctxStruct
  = Ok (mkw (osink (ws ++ nd_chunks (node_of_seq (seq_append W (node_of_seq S'))))) [] None [] [] L false, true).
Proof.
  intros HW HS. unfold end_container. cbn [w_err mkw]. unfold ctx_peek. cbn [w_ctx mkw].
  rewrite N.eqb_refl. cbn [negb w_bufs mkw].
  change (emit (set_bufs (mkw (osink ws) [ctxStruct] None [] [S'; W] L false) [W]) (node_of_seq S'))
    with (mkw (osink ws) [ctxStruct] None [] [seq_append W (node_of_seq S')] L false, true).
  cbn [negb].
  change (w_ctx (clear (mkw (osink ws) [ctxStruct] None [] [seq_append W (node_of_seq S')] L false))) with [ctxStruct].
  cbv iota.
  change (set_ctx (clear (mkw (osink ws) [ctxStruct] None [] [seq_append W (node_of_seq S')] L false)) [])
    with (mkw (osink ws) [] None [] [seq_append W (node_of_seq S')] L false).
  unfold end_value. cbn [w_bufs mkw]. change (bs_code (seq_append W (node_of_seq S'))) with (bs_code W).
  rewrite HW. change (224 =? 224) with true. cbv iota.
  unfold emit. cbn [w_bufs mkw set_bufs w_out w_ctx w_err w_field w_annots w_lst w_lstb w_wrote_lst].
  rewrite sink_write_all_osink. reflexivity.
Qed.

Lemma lst_run ws L : exists ws',
  run_calls 2 (mkw (osink ws) [] None [] [] L false) (lst_calls L)
    = Ok (mkw (osink ws') [] None [] [] L false, true) /\
  concat ws' = concat ws ++ enc_lst L.
Proof.
  destruct L as [|t0 L0] eqn:EL.
  - exists ws. split; [reflexivity|]. cbn [enc_lst]. rewrite app_nil_r. reflexivity.
  - rewrite <- EL. assert (Hlc : lst_calls L = [CAnnotation (tok_full (s "$ion_symbol_table"%string) 3); CBeginStruct;
          CFieldName (tok_full (s "symbols"%string) 7); CBeginList] ++ map CString L ++ [CEndList; CEndStruct])
      by (rewrite EL; reflexivity).
    assert (Hel : enc_lst L = enc [] (lst_value L)) by (rewrite EL; reflexivity).
    rewrite Hlc, Hel. clear EL Hlc Hel.
    set (W224 := seq_append (new_seq (Some 224)) (atom [129; 131])).
    set (S208 := seq_append (new_seq (Some 208)) (atom [135])).
    assert (H4 : forall rest, run_calls 2 (mkw (osink ws) [] None [] [] L false)
              ([CAnnotation (tok_full (s "$ion_symbol_table"%string) 3); CBeginStruct;
                CFieldName (tok_full (s "symbols"%string) 7); CBeginList] ++ rest)
            = run_calls 2 (mkw (osink ws) [ctxList; ctxStruct] None [] [new_seq (Some 176); S208; W224] L false) rest).
    { intros rest. reflexivity. }
    rewrite H4.
    destruct (strings_run 1 L (osink ws) [ctxList; ctxStruct] (new_seq (Some 176)) [S208; W224] L false
                [CEndList; CEndStruct] eq_refl ltac:(discriminate)) as (q' & E & Hc & Hd).
    rewrite E. rewrite run_calls_cons. cbn [step].
    pose proof (end_container_mkw (osink ws) [ctxStruct] [] W224 S208 [W224] L false ctxList q'
                  ltac:(discriminate) ltac:(discriminate) eq_refl) as Hec.
    cbn [sbufs fin appends] in Hec. rewrite Hec. clear Hec.
    cbn [bind]. rewrite run_calls_cons. cbn [step].
    rewrite end_container_bottom by (try discriminate; reflexivity).
    cbn [bind]. eexists. split; [reflexivity|].
    rewrite concat_app. f_equal.
    specialize (Hd (Some 176) [] (absq_new _)). cbn [app] in Hd.
    assert (HS : absq (seq_append S208 (node_of_seq q')) (Some 208) ([135] ++ enc_tagged 176 (flat_map (enc_tagged 128) L))).
    { apply absq_append; [repeat split|]. apply ndesc_node_of_seq. destruct Hd as (A & B & C). split; [congruence|auto]. }
    assert (HW : absq (seq_append W224 (node_of_seq (seq_append S208 (node_of_seq q')))) (Some 224)
                   ([129; 131] ++ enc_tagged 208 ([135] ++ enc_tagged 176 (flat_map (enc_tagged 128) L)))).
    { apply absq_append; [repeat split|]. apply ndesc_node_of_seq. exact HS. }
    destruct (ndesc_node_of_seq _ _ _ HW) as [Hn _]. rewrite Hn.
    unfold lst_value. cbn [enc flat_map]. rewrite enc_strings, app_nil_r. reflexivity.
Qed.
(* ---- Finish ------------------------------------------------------------------------------------------------------------ *)
Lemma finish_run ws q L : bs_code q = None ->
  exists ws', wstep (mkw (osink ws) [] None [] [q] L false) CFinish
              = Ok (mkw (osink ws') [] None [] [new_seq None] L false, true) /\
    concat ws' = concat ws ++ bvm ++ enc_lst L ++ concat (bs_chunks q).
Proof.
  intros Hq. destruct (lst_run (ws ++ [bvm]) L) as (ws1 & Hl & Hc1).
  exists (ws1 ++ bs_chunks q). split.
  - unfold wstep. cbn [step w_err mkw]. unfold ctx_peek. cbn [w_ctx mkw]. change (0 =? 0) with true. cbn [negb].
    change (w_bufs (set_wrote (clear (mkw (osink ws) [] None [] [q] L false)) false)) with [q]. cbv iota.
    unfold write_lst.
    change (write (set_bufs (set_wrote (clear (mkw (osink ws) [] None [] [q] L false)) false) []) [224; 1; 0; 234])
      with (mkw (osink (ws ++ [bvm])) [] None [] [] L false, true).
    cbn [negb]. change (w_lstb (set_bufs (set_wrote (clear (mkw (osink ws) [] None [] [q] L false)) false) [])) with L.
    rewrite Hl. cbn [bind negb].
    unfold emit. cbn [w_bufs mkw]. unfold node_of_seq. rewrite Hq. cbn [nd_chunks w_out mkw].
    rewrite sink_write_all_osink. reflexivity.
  - rewrite concat_app, Hc1, concat_app. cbn [concat]. rewrite app_nil_r, <- !app_assoc. reflexivity.
Qed.

(* ---- the whole forest ---------------------------------------------------------------------------------------------------- *)
Lemma new_writer_mkw : new_writer None = mkw (osink []) [] None [] [new_seq None] [] false.
Proof. reflexivity. Qed.

Theorem forest_run vs : Forall wf_value vs ->
  exists w' oks, drive_results (new_writer None) (calls_of_forest vs) = Ok (w', oks) /\
    Forall (eq true) oks /\ sink_bytes (w_out w') = enc_forest vs.
Proof.
  intros Hw. rewrite new_writer_mkw. unfold calls_of_forest.
  destruct (children_run vs ltac:(apply Forall_forall; intros x _; apply value_run) Hw
              (osink []) [] (new_seq None) [] [] false eq_refl ltac:(discriminate)) as (q' & oks & E & Hok & Hc & Hd).
  fold (locals_of vs) in E, Hd. set (L := locals_of vs) in *.
  destruct (finish_run [] q' L ltac:(rewrite Hc; reflexivity)) as (ws' & Ef & Hcc).
  eexists _, (oks ++ [true]). split; [|split].
  - rewrite drive_app, E. cbn [bind]. rewrite (drive_one _ _ _ _ Ef). reflexivity.
  - apply Forall_app. split; [exact Hok|repeat constructor].
  - cbn [w_out mkw]. unfold sink_bytes. cbn [sk_writes osink]. rewrite Hcc. cbn [concat app].
    destruct (Hd L None [] (extends_refl L) (absq_new None)) as (_ & B & _). cbn [app] in B. rewrite B.
    reflexivity.
Qed.

Lemma wf_value_texts_utf8 : forall v, wf_value v -> forall pre, Forall utf8_ok pre -> Forall utf8_ok (texts pre v).
Proof.
  induction v as [v Hsc|l IH|l IH|fs IH|a x IH] using value_ind'; intros Hw pre Hp.
  - destruct v; try destruct Hsc; cbn [texts]; try exact Hp.
    inversion Hw as [| | | | | |? (t & -> & Hu)| | | | | | | ]; subst. constructor; assumption.
  - inversion Hw as [| | | | | | | | | |? Hwl| | | ]; subst. cbn [texts]. apply Forall_app. split; [exact Hp|].
    rewrite Forall_forall in *. intros t Hin. apply in_flat_map in Hin. destruct Hin as (x & Hx & Ht).
    specialize (IH x Hx (Hwl x Hx) [] ltac:(constructor)). rewrite Forall_forall in IH. auto.
  - inversion Hw as [| | | | | | | | | | |? Hwl| | ]; subst. cbn [texts]. apply Forall_app. split; [exact Hp|].
    rewrite Forall_forall in *. intros t Hin. apply in_flat_map in Hin. destruct Hin as (x & Hx & Ht).
    specialize (IH x Hx (Hwl x Hx) [] ltac:(constructor)). rewrite Forall_forall in IH. auto.
  - inversion Hw as [| | | | | | | | | | | |? Hwf| ]; subst. cbn [texts]. apply Forall_app. split; [exact Hp|].
    rewrite Forall_forall in *. intros t Hin. apply in_flat_map in Hin. destruct Hin as ([n x] & Hx & Ht).
    destruct (Hwf _ Hx) as [(tn & Hn & Hu) Hwx]. cbn [fst snd] in *. subst n.
    specialize (IH _ Hx Hwx [tn] ltac:(constructor; [exact Hu|constructor])). cbn [snd symtext] in *.
    rewrite Forall_forall in IH. auto.
  - inversion Hw as [| | | | | | | | | | | | |? ? Ha Hwa Hnx Hx]; subst. cbn [texts]. apply IH; [exact Hx|].
    apply Forall_app. split; [exact Hp|]. apply Forall_forall. intros t Hin. apply in_map_iff in Hin.
    destruct Hin as (y & <- & Hy). rewrite Forall_forall in Hwa. destruct (Hwa y Hy) as (ty & -> & Hu). exact Hu.
Qed.

Lemma locals_ok vs : Forall wf_value vs ->
  Forall utf8_ok (locals_of vs) /\ Forall (known (locals_of vs)) (flat_map (texts []) vs).
Proof.
  intros Hw. split.
  - apply fold_intern_forall; [constructor|]. apply Forall_forall. intros t Hin. apply in_flat_map in Hin.
    destruct Hin as (v & Hv & Ht). rewrite Forall_forall in Hw.
    pose proof (wf_value_texts_utf8 v (Hw v Hv) [] ltac:(constructor)) as H. rewrite Forall_forall in H. auto.
  - apply Forall_forall. intros t Hin. apply fold_intern_known. exact Hin.
Qed.

(* the flagship: what the Writer emits decodes, under the specification decoder, to the values written *)
Theorem roundtrip_binary vs : wf_values vs ->
  exists w' oks out, drive_results (new_writer None) (calls_of_forest vs) = Ok (w', oks) /\
    Forall (eq true) oks /\ sink_bytes (w_out w') = out /\ out = enc_forest vs /\
    (N.of_nat (length out) < two63 -> sdecode out = Some vs).
Proof.
  intros Hw. assert (Hwv : Forall wf_value vs).
  { apply Forall_forall. intros v Hv. unfold wf_values in Hw. rewrite Forall_forall in Hw. apply Hw. exact Hv. }
  destruct (forest_run vs Hwv) as (w' & oks & E & Hok & Hb).
  exists w', oks, (enc_forest vs). split; [exact E|]. split; [exact Hok|]. split; [exact Hb|]. split; [reflexivity|].
  intros Hlen. destruct (locals_ok vs Hwv) as [Hu Hk]. unfold enc_forest in *. apply sdecode_enc; assumption.
Qed.
(* ---- the stages ---------------------------------------------------------------------------------------------------------- *)
Lemma index_of_in t : forall l i, In t l -> exists k, index_of t l i = Some k.
Proof.
  induction l as [|x l IH]; intros i Hin; [destruct Hin|]. cbn [index_of].
  destruct (list_eqb x t) eqn:E; [eauto|]. destruct Hin as [->|Hin]; [rewrite list_eqb_refl' in E; discriminate|auto].
Qed.
Lemma intern_system L t : is_system t -> intern L t = L.
Proof.
  intros H. unfold intern. rewrite find_by_name_unfold.
  destruct (index_of_in t system_symbols 1 H) as (k & ->). reflexivity.
Qed.
Lemma fold_intern_system ts : Forall is_system ts -> fold_left intern ts [] = [].
Proof.
  induction 1 as [|t ts Ht _ IH]; cbn [fold_left]; [reflexivity|]. rewrite intern_system by exact Ht. exact IH.
Qed.

Theorem roundtrip_binary_S3 vs : wf_S3 vs ->
  exists w' oks out, drive_results (new_writer None) (calls_of_forest vs) = Ok (w', oks) /\
    Forall (eq true) oks /\ sink_bytes (w_out w') = out /\ out = bvm ++ flat_map (enc []) vs /\
    (N.of_nat (length out) < two63 -> sdecode out = Some vs).
Proof.
  intros [Hw Hs]. destruct (roundtrip_binary vs Hw) as (w' & oks & out & E & Hok & Hb & Ho & Hd).
  exists w', oks, out. split; [exact E|]. split; [exact Hok|]. split; [exact Hb|]. split; [|exact Hd].
  rewrite Ho. unfold enc_forest, locals_of. rewrite fold_intern_system by exact Hs. reflexivity.
Qed.

Lemma seq_nosym_facts : forall v, seq_nosym v -> texts [] v = [] /\ is_lst v = None.
Proof.
  induction v as [v Hsc|l IH|l IH|fs IH|a x IH] using value_ind'; intros H.
  - inversion H as [? Hs| |]; subst; try destruct Hsc. destruct v; try destruct Hs; try destruct Hsc; split; reflexivity.
  - split; [|reflexivity]. inversion H as [? Hs|? Hl|]; subst; [destruct Hs|]. cbn [texts app]. clear H.
    induction l as [|x l IHl]; [reflexivity|]. inversion IH as [|? ? Hx HI]; subst. inversion Hl as [|? ? Hsx Hsl]; subst.
    cbn [flat_map]. rewrite (proj1 (Hx Hsx)). cbn [app]. auto.
  - split; [|reflexivity]. inversion H as [? Hs| |? Hl]; subst; [destruct Hs|]. cbn [texts app]. clear H.
    induction l as [|x l IHl]; [reflexivity|]. inversion IH as [|? ? Hx HI]; subst. inversion Hl as [|? ? Hsx Hsl]; subst.
    cbn [flat_map]. rewrite (proj1 (Hx Hsx)). cbn [app]. auto.
  - inversion H as [? Hs| |]; subst. destruct Hs.
  - inversion H as [? Hs| |]; subst. destruct Hs.
Qed.

Lemma wf_S2_S3 vs : wf_S2 vs -> wf_S3 vs.
Proof.
  intros H. split.
  - apply Forall_forall. intros v Hv. unfold wf_S2 in H. rewrite Forall_forall in H. destruct (H v Hv) as [Hw Hn].
    split; [exact Hw|apply seq_nosym_facts; exact Hn].
  - apply Forall_forall. intros t Hin. apply in_flat_map in Hin. destruct Hin as (v & Hv & Ht).
    unfold wf_S2 in H. rewrite Forall_forall in H. destruct (H v Hv) as [_ Hn].
    rewrite (proj1 (seq_nosym_facts v Hn)) in Ht. destruct Ht.
Qed.
Lemma wf_S1_S2 vs : wf_S1 vs -> wf_S2 vs.
Proof.
  unfold wf_S1, wf_S2. intros H. eapply Forall_impl; [|exact H]. intros v [Hw Hs]. split; [exact Hw|constructor; exact Hs].
Qed.

Theorem roundtrip_binary_S2 vs : wf_S2 vs ->
  exists w' oks out, drive_results (new_writer None) (calls_of_forest vs) = Ok (w', oks) /\
    Forall (eq true) oks /\ sink_bytes (w_out w') = out /\ out = bvm ++ flat_map (enc []) vs /\
    (N.of_nat (length out) < two63 -> sdecode out = Some vs).
Proof. intros H. apply roundtrip_binary_S3, wf_S2_S3, H. Qed.

Theorem roundtrip_binary_S1 vs : wf_S1 vs ->
  exists w' oks out, drive_results (new_writer None) (calls_of_forest vs) = Ok (w', oks) /\
    Forall (eq true) oks /\ sink_bytes (w_out w') = out /\ out = bvm ++ flat_map (enc []) vs /\
    (N.of_nat (length out) < two63 -> sdecode out = Some vs).
Proof. intros H. apply roundtrip_binary_S2, wf_S1_S2, H. Qed.

(* ---- NaN: the writer canonicalises -------------------------------------------------------------------------------------- *)
Lemma nan_not_zero b : f64_is_nan b = true -> f64_pos_zero b = false.
Proof.
  intros H. destruct (f64_pos_zero b) eqn:E; [|reflexivity]. unfold f64_pos_zero in E. apply N.eqb_eq in E.
  subst. vm_compute in H. discriminate.
Qed.

(* writing any NaN is writing the canonical quiet NaN, and that is what the decoder returns *)
Theorem nan_written_canonical b : f64_is_nan b = true ->
  (forall run w, step run w (CFloat b) = step run w (CFloat canonical_nan64)) /\
  (forall L, enc L (VFloat b) = enc L (VFloat canonical_nan64)) /\
  sdecode (enc_forest [VFloat b]) = Some [VFloat canonical_nan64].
Proof.
  intros H. pose proof (nan_not_zero b H) as H0. split; [|split].
  - intros run w. cbn [step]. rewrite H0, H. reflexivity.
  - intros L. cbn [enc]. unfold enc_float. rewrite H0, H. reflexivity.
  - unfold enc_forest. change (locals_of [VFloat b]) with (@nil text). cbn [flat_map enc]. unfold enc_float.
    rewrite H0, H. vm_compute. reflexivity.
Qed.

(* ---- WriteInt and WriteBigInt agree on every |z| < 2^64 ------------------------------------------------------------------ *)
Lemma be_loop_fuel base f1 : 1 < base -> forall f2 v acc, v < base ^ N.of_nat f1 -> v < base ^ N.of_nat f2 ->
  be_loop base f1 v acc = be_loop base f2 v acc.
Proof.
  intros Hb. induction f1 as [|f1 IH]; intros f2 v acc H1 H2.
  - cbn in H1. assert (v = 0) by lia. subst. destruct f2; reflexivity.
  - destruct f2 as [|f2].
    + cbn in H2. assert (v = 0) by lia. subst. reflexivity.
    + cbn [be_loop]. destruct (0 <? v); [|reflexivity].
      rewrite Nat2N.inj_succ, N.pow_succ_r' in H1, H2.
      apply IH; apply N.div_lt_upper_bound; lia.
Qed.

Lemma append_uint_big_bytes v : 0 < v -> v < two64 -> append_uint [] v = big_bytes v.
Proof.
  intros Hpos Hv. unfold append_uint, big_bytes. cbn [app].
  pose proof (lt_256_pow_size v) as Hs. destruct (N.size_nat v) as [|k] eqn:Ek.
  { cbn in Hs. lia. }
  change (be_loop 256 (S k) v []) with (if 0 <? v then be_loop 256 k (v / 256) [v mod 256] else []).
  replace (0 <? v) with true by lia.
  rewrite Nat2N.inj_succ, N.pow_succ_r' in Hs.
  apply be_loop_fuel; [lia| |apply N.div_lt_upper_bound; lia].
  change (256 ^ N.of_nat 8) with two64. apply N.div_lt_upper_bound; [lia|]. unfold two64 in *. lia.
Qed.

Lemma write_value_chunks_one run w x : write_value_chunks run w [x] = write_value run w x.
Proof.
  unfold write_value_chunks, write_value. destruct (w_err w); [reflexivity|].
  destruct (begin_value run w) as [[w1 ok1]| | |]; cbn [bind]; try reflexivity.
Qed.

Theorem int_call_agree run w z : (Z.abs z < Z.of_N two64)%Z ->
  step run w (CInt z) = step run w (CBigInt (Some z)).
Proof.
  intros Hz. cbn [step]. destruct (w_err w) eqn:Ee.
  - destruct (z =? 0)%Z; unfold write_value; rewrite Ee; reflexivity.
  - destruct (z =? 0)%Z eqn:E0; [rewrite write_value_chunks_one; reflexivity|].
    assert (Hm : 0 < mag64 z /\ mag64 z < two64) by (unfold mag64; lia). destruct Hm as [Hm1 Hm2].
    change (Z.to_N (Z.abs z)) with (mag64 z). rewrite <- (append_uint_big_bytes _ Hm1 Hm2).
    pose proof (append_uint_length_le _ Hm2) as Hl.
    replace (N.of_nat (length (append_uint [] (mag64 z))) <? 64) with true by lia.
    rewrite write_value_chunks_one, append_uint_app. f_equal. f_equal. f_equal.
    pose proof (uint_len_ok [] (mag64 z)) as H. cbn [length N.of_nat] in H. lia.
Qed.

Lemma narrow_call_step w c : wstep w (narrow_call c) = wstep w c.
Proof.
  destruct c; try reflexivity. destruct z as [z|]; [|reflexivity]. unfold narrow_call.
  destruct (in_i64 z) eqn:E; [|reflexivity]. unfold wstep. apply int_call_agree.
  unfold in_i64 in E. unfold two64. lia.
Qed.
Lemma drive_narrow cs : forall w, drive_results w (map narrow_call cs) = drive_results w cs.
Proof.
  induction cs as [|c cs IH]; intros w; cbn [map drive_results]; [reflexivity|].
  rewrite narrow_call_step. destruct (wstep w c) as [[w' ok]| | |]; cbn [bind]; try reflexivity.
  rewrite IH. reflexivity.
Qed.

Theorem roundtrip_binary64 vs : wf_values vs ->
  exists w' oks out, drive_results (new_writer None) (calls_of_forest64 vs) = Ok (w', oks) /\
    Forall (eq true) oks /\ sink_bytes (w_out w') = out /\ out = enc_forest vs /\
    (N.of_nat (length out) < two63 -> sdecode out = Some vs).
Proof. intros H. unfold calls_of_forest64. rewrite drive_narrow. apply roundtrip_binary. exact H. Qed.
